/-
  Polar/TrigMoment.lean — model of `FunctionalAssignment.get_func_moment` (C13), no Mathlib.

  The code (program/assignment/functional_assignment.py) evaluates

      E[X^a sin^b X cos^c X]  =  Re( (1 / (i^(a+b) 2^(b+c))) Σ_{k1≤c} Σ_{k2≤b}
                                      C(c,k1) C(b,k2) (−1)^(b−k2) φ^(a)(2(k1+k2) − b − c) )

  through the characteristic function φ of the drawn variable (`get_trig_moment`) and
  E[X^a e^{cX}] = M^(a)(c) through the moment generating function (`get_exp_moment`).  What is
  executable about these formulas is their *coefficient table*: the list of (frequency, integer
  coefficient) pairs in the order of the two nested loops, and the normalising factor.  The model
  mirrors the code, including the guard of `get_func_moment` (since /repo commit e78913c it tests
  the key "Exp"; before it tested "Expt" and let Sin/Cos + Exp through, finding F5).
-/
namespace Polar.Trig

/-- binomial coefficient (Pascal recursion; equals `Nat.choose`, proved in PolarProofs) -/
def choose : Nat → Nat → Nat
  | _, 0 => 1
  | 0, _ + 1 => 0
  | n + 1, k + 1 => choose n k + choose n (k + 1)

/-- frequency `2 (k1 + k2) − cos_power − sin_power` of one term of the double loop -/
def freq (b c k1 k2 : Nat) : Int := 2 * ((k1 : Int) + (k2 : Int)) - (c : Int) - (b : Int)

/-- `comb(cos_power, k1) * comb(sin_power, k2) * (-1) ** (sin_power - k2)` -/
def coeff (b c k1 k2 : Nat) : Int :=
  (choose c k1 : Int) * (choose b k2 : Int) * (-1) ^ (b - k2)

/-- the terms of `get_trig_moment` in loop order (outer `k1 in range(cos_power+1)`, inner
    `k2 in range(sin_power+1)`): (frequency, coefficient) -/
def trigTable (b c : Nat) : List (Int × Int) :=
  (List.range (c + 1)).flatMap fun k1 =>
    (List.range (b + 1)).map fun k2 => (freq b c k1 k2, coeff b c k1 k2)

/-- where the code takes the transform value of one term from (since /repo c7c1f2a):
    `dist.cf(freq)` if `id_power == 0`; `I**id_power * dist.get_moment(id_power)` if `freq == 0`
    (the closed forms of cf can be singular / Piecewise at 0); otherwise
    `diff(dist.cf(t), t, id_power).xreplace({t: freq})` -/
inductive TermSource
  | cf | moment | cfDeriv
  deriving DecidableEq, Repr

def TermSource.toString : TermSource → String
  | .cf => "cf" | .moment => "moment" | .cfDeriv => "cf_deriv"

def termSource (a : Nat) (w : Int) : TermSource :=
  if a = 0 then .cf else if w = 0 then .moment else .cfDeriv

/-- sources of the terms of `trigTable b c`, in loop order -/
def trigSources (a b c : Nat) : List TermSource := (trigTable b c).map fun t => termSource a t.1

/-- the divisor `I ** (id_power + sin_power) * 2 ** (cos_power + sin_power)`:
    (exponent of i reduced mod 4, exponent of 2) -/
def trigNorm (a b c : Nat) : Nat × Nat := ((a + b) % 4, b + c)

/-- insert a term into a frequency-sorted table, adding coefficients of equal frequencies -/
def insertTerm (t : Int × Int) : List (Int × Int) → List (Int × Int)
  | [] => [t]
  | (w, k) :: rest =>
    if t.1 < w then t :: (w, k) :: rest
    else if t.1 = w then (w, k + t.2) :: rest
    else (w, k) :: insertTerm t rest

/-- table with equal frequencies merged, zero coefficients dropped, sorted by frequency
    (what a CAS shows after collecting the like terms of the double loop) -/
def trigTableMerged (b c : Nat) : List (Int × Int) :=
  ((trigTable b c).foldl (fun acc t => insertTerm t acc) []).filter (fun t => t.2 ≠ 0)

/-- model of `get_exp_moment`: derivative order of the mgf and the point where it is evaluated -/
def expTable (a c : Nat) : Nat × Nat := (a, c)

/-! ### `mgf_exists_at` of the families that restrict it (others answer `True`) -/

/-- `Exponential.mgf_exists_at`: `t < lamb` -/
def mgfExistsExponential (lam t : Rat) : Bool := t < lam
/-- `Gamma.mgf_exists_at`: `t < 1/theta` -/
def mgfExistsGamma (theta t : Rat) : Bool := t < 1 / theta
/-- `Laplace.mgf_exists_at`: `|t| < 1/b` -/
def mgfExistsLaplace (b t : Rat) : Bool := (if t < 0 then -t else t) < 1 / b

def mgfExistsAt (family : String) (params : List Rat) (t : Rat) : Bool :=
  match family, params with
  | "Exponential", [lam] => mgfExistsExponential lam t
  | "Gamma", [_, theta] => mgfExistsGamma theta t
  | "Laplace", [_, b] => mgfExistsLaplace b t
  | _, _ => true

/-! ### the guard of `get_func_moment` -/

inductive Route
  | trig        -- handed to get_trig_moment
  | exp         -- handed to get_exp_moment
  | errMixed    -- "Exponential and trigonometric moments cannot be mixed"
  | errUnknown  -- "Unknown functions"
  deriving DecidableEq, Repr

def Route.toString : Route → String
  | .trig => "trig" | .exp => "exp" | .errMixed => "error:mixed" | .errUnknown => "error:unknown"

/-- the guard **as coded**: `is_exp_moment = "Exp" in func_powers`, then the two `if`s of the code
    (`"Sin" in … or "Cos" in …` → trig, `"Exp" in …` → exp, else "Unknown functions") -/
def routeCoded (keys : List String) : Route :=
  let isTrig := keys.contains "Sin" || keys.contains "Cos"
  let isExp := keys.contains "Exp"
  if isTrig && isExp then .errMixed
  else if isTrig then .trig
  else if keys.contains "Exp" then .exp
  else .errUnknown

/-- the guard as documented ("Sin", "Cos" and "Id" can be mixed. "Exp" can be mixed with "Id") -/
def routeIntended (keys : List String) : Route :=
  let isTrig := keys.contains "Sin" || keys.contains "Cos"
  let isExp := keys.contains "Exp"
  if isTrig && isExp then .errMixed
  else if isTrig then .trig
  else if isExp then .exp
  else .errUnknown

/-- power of a key in the `func_powers` dictionary (`func_powers[k] if k in func_powers else 0`) -/
def powerOf (powers : List (String × Nat)) (k : String) : Nat :=
  match powers.lookup k with
  | some p => p
  | none => 0

/-- what `get_func_moment` evaluates, as a symbolic description: which transform, the derivative
    order, the table and the divisor.  (`get_trig_moment` never reads the "Exp" power; the guard
    makes sure it is absent on that route.) -/
inductive Plan
  | trig (a b c : Nat) (table : List (Int × Int)) (norm : Nat × Nat)
  | exp (a c : Nat)
  | error (msg : String)
  deriving Repr

def planCoded (powers : List (String × Nat)) : Plan :=
  match routeCoded (powers.map (·.1)) with
  | .trig =>
    let a := powerOf powers "Id"; let b := powerOf powers "Sin"; let c := powerOf powers "Cos"
    .trig a b c (trigTable b c) (trigNorm a b c)
  | .exp => .exp (powerOf powers "Id") (powerOf powers "Exp")
  | .errMixed => .error "mixed"
  | .errUnknown => .error "unknown"

end Polar.Trig
