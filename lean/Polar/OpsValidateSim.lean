/-
  Polar/OpsValidateSim.lean — line-protocol op of the translation validator `Polar/ValidateSim.lean`
  (soundness: `PolarProofs/ValidateSim.lean`, theorem `checkSameStep_sound`).

  same_step  {"p":P, "q":P', "vars":["x","f",..], "types":{"f":["0","1"],..}, ["all_types":false], ["cap":4096]}
      P, P' programs as for `moments` (nested `ite` allowed, no `simult`, discrete right sides);
      "vars": the observed (source) variables; "types": finite types of variables of BOTH programs — unless
      "all_types" is true only the entries whose variable is assigned by both init blocks are used (the others hold
      an arbitrary value at n = 0, cf. `types_inductive`); parameters: singleton type + `p = value` in both inits.
      → {"ok":true, "same":true,  "why":null, "states":k, "types_used":[..]}
      → {"ok":true, "same":false, "why":{"stage":"init"|"step", "kind":"weights-differ"|"foreign-symbol"|"type-violated",
                                         "assign":{..}, "projection":[polynomial per observed variable],
                                         "weight_p":w, "weight_q":w'}, "observed":[..], ..}
      → {"ok":true, "same":null,  "refused":reason, ..}
      accepted ⇒ for all n and all initial stores that agree on "vars": the two runs have the same joint law over
      vars ++ types_used (un-merged runs, `checkSameStep_sound`; moments: `checkSameStep_moments`).
-/
import Polar.Ops
import Polar.OpsValidate
import Polar.ValidateSim

namespace Polar
open Lean
namespace Validate

def opSameStep (j : Json) : D Json := do
  let P ← decProgram (← jField j "p")
  let P' ← decProgram (← jField j "q")
  let V ← (← jArr (← jField j "vars")).mapM jStr
  let Γall ← decTypes (← jField j "types")
  let allTypes := match jFieldD j "all_types" (Json.bool false) with
    | .bool b => b
    | _ => false
  let Γ := if allTypes then Γall else commonInitTypes Γall P P'
  let cap := decCap j
  let common : List (String × Json) :=
    [("states", Json.num (card Γ)), ("types_used", Json.arr (Γ.map (fun e => Json.str e.1)).toArray),
     ("observed", Json.arr ((obsVars Γ V).map Json.str).toArray)]
  match sameStepCex cap Γ V P P' with
  | .error e => pure (okJson ([("same", Json.null), ("refused", Json.str e)] ++ common))
  | .ok none => pure (okJson ([("same", Json.bool true), ("why", Json.null)] ++ common))
  | .ok (some c) =>
    pure (okJson ([("same", Json.bool false),
      ("why", Json.mkObj [("stage", Json.str c.stage), ("kind", Json.str c.kind), ("assign", vJsonAssign c.assign),
                           ("projection", Json.arr (c.projection.map vJsonPoly).toArray),
                           ("weight_p", jsonRat c.weightP), ("weight_q", jsonRat c.weightQ)])] ++ common))

end Validate

def validateSimOps : List (String × (Json → D Json)) := [("same_step", Validate.opSameStep)]

end Polar
