/-
  Polar/OpsValidateSim.lean — line-protocol op of the translation validator `Polar/ValidateSim.lean`
  (soundness: `PolarProofs/ValidateSim.lean`, theorem `checkSameStep_sound`).

  same_step  {"p":P, "q":P', "vars":["x","f",..], "types":{"f":["0","1"],..}, ["all_types":false], ["cap":4096]}
      P, P' programs as for `moments` (nested `ite` allowed, no `simult`, discrete right sides);
      "vars": the observed (source) variables; "types": finite types of variables of BOTH programs — unless
      "all_types" is true only the entries whose variable is assigned by both init blocks are used (the others hold
      an arbitrary value at n = 0, cf. `types_inductive`); parameters: singleton type + `p = value` in both inits.
      → {"ok":true, "same":true,  "why":null, "states":k, "types_used":[..]}
      → {"ok":true, "same":false, "why":{"stage":"init"|"step", "kind":"weights-differ"|"foreign-symbol"|"type-violated",
                                         "assign":{..}, "projection":[polynomial per observed variable],
                                         "weight_p":w, "weight_q":w'}, "observed":[..], ..}
      → {"ok":true, "same":null,  "refused":reason, ..}
      accepted ⇒ for all n and all initial stores that agree on "vars": the two runs have the same joint law over
      vars ++ types_used (un-merged runs, `checkSameStep_sound`; moments: `checkSameStep_moments`).
      Every answer carries "validator": "V3" | "V3C".  "V3C" (`Polar/ValidateSimCont.lean`, `checkSameStepC`; soundness
      `Polar.V3C.checkSameStepC_sound` / `checkSameStepC_moments` in `PolarProofs/ValidateSimCont.lean`) is used when a
      program is outside the discrete fragment only because of continuous draws (Normal, Uniform, Laplace,
      Exponential, Gamma, Beta): the projections then also carry the atom table of the step — the observed values
      must be the same polynomials over the "vars"-symbols and the atoms `@0, @1, …` of the step, and these atoms the
      same draws index by index; "projection" in "why" shows the polynomials and the extra field "atoms" of "why" the atom
      table `[[family, [params]], …]` of the offending key.  All other fields keep their meaning.
-/
import Polar.Ops
import Polar.OpsValidate
import Polar.ValidateSim
import Polar.ValidateSimCont

namespace Polar
open Lean
namespace Validate

def opSameStep (j : Json) : D Json := do
  let P ← decProgram (← jField j "p")
  let P' ← decProgram (← jField j "q")
  let V ← (← jArr (← jField j "vars")).mapM jStr
  let Γall ← decTypes (← jField j "types")
  let allTypes := match jFieldD j "all_types" (Json.bool false) with
    | .bool b => b
    | _ => false
  let Γ := if allTypes then Γall else commonInitTypes Γall P P'
  let cap := decCap j
  -- V3C only when a program leaves the discrete fragment and both are inside the fragment with continuous draws
  let useC := !(FragmentI P && FragmentI P') && (FragmentIC P && FragmentIC P')
  let common : List (String × Json) :=
    [("states", Json.num (card Γ)), ("types_used", Json.arr (Γ.map (fun e => Json.str e.1)).toArray),
     ("observed", Json.arr ((obsVars Γ V).map Json.str).toArray),
     ("validator", Json.str (if useC then "V3C" else "V3"))]
  let whyJson (c : SimCex) (extra : List (String × Json)) : Json :=
    Json.mkObj ([("stage", Json.str c.stage), ("kind", Json.str c.kind), ("assign", vJsonAssign c.assign),
                 ("projection", Json.arr (c.projection.map vJsonPoly).toArray),
                 ("weight_p", jsonRat c.weightP), ("weight_q", jsonRat c.weightQ)] ++ extra)
  let atomsJson (as : List Atom) : Json :=
    Json.arr (as.map (fun a => Json.arr #[Json.str a.family, Json.arr (a.params.map jsonRat).toArray])).toArray
  let res : M (Option (SimCex × List (String × Json))) :=
    if useC then (sameStepCexC cap Γ V P P').map (fun o => o.map (fun c => (c.cex, [("atoms", atomsJson c.atoms)])))
    else (sameStepCex cap Γ V P P').map (fun o => o.map (fun c => (c, [])))
  match res with
  | .error e => pure (okJson ([("same", Json.null), ("refused", Json.str e)] ++ common))
  | .ok none => pure (okJson ([("same", Json.bool true), ("why", Json.null)] ++ common))
  | .ok (some (c, extra)) => pure (okJson ([("same", Json.bool false), ("why", whyJson c extra)] ++ common))

end Validate

def validateSimOps : List (String × (Json → D Json)) := [("same_step", Validate.opSameStep)]

end Polar
