/-
  Polar/Poly.lean — multivariate polynomials with rational coefficients.

  `Mono` is a list of (variable, exponent); `MPoly` is a list of (monomial, coefficient).
  Algebraic operations are the naive ones followed by `normalize`, which inserts term by term into a
  sorted, duplicate-free list.  No Mathlib.
-/
namespace Polar

abbrev Mono := List (String × Nat)
abbrev Term := Mono × Rat
abbrev MPoly := List Term

/-! ### monomials -/

/-- insert one power into a monomial kept sorted by variable name, merging exponents -/
def Mono.insert (x : String) (k : Nat) : Mono → Mono
  | [] => if k = 0 then [] else [(x, k)]
  | (y, j) :: m =>
    if k = 0 then (y, j) :: m
    else if x = y then (y, j + k) :: m
    else if x < y then (x, k) :: (y, j) :: m
    else (y, j) :: Mono.insert x k m

def Mono.norm (m : Mono) : Mono := m.foldr (fun (p : String × Nat) acc => Mono.insert p.1 p.2 acc) []

def Mono.mul (a b : Mono) : Mono := a.foldr (fun (p : String × Nat) acc => Mono.insert p.1 p.2 acc) b

def Mono.pow (a : Mono) (k : Nat) : Mono :=
  if k = 0 then [] else a.map (fun (p : String × Nat) => (p.1, p.2 * k))

def Mono.deg (a : Mono) : Nat := a.foldl (fun acc (p : String × Nat) => acc + p.2) 0

def Mono.degIn (a : Mono) (x : String) : Nat :=
  match a.find? (fun (p : String × Nat) => p.1 == x) with
  | some p => p.2
  | none => 0

/-- total order on normalised monomials: lexicographic on (name, exponent) lists -/
def Mono.cmp : Mono → Mono → Ordering
  | [], [] => .eq
  | [], _ :: _ => .lt
  | _ :: _, [] => .gt
  | (x, i) :: a, (y, j) :: b =>
    match compare x y with
    | .lt => .lt
    | .gt => .gt
    | .eq =>
      match compare i j with
      | .lt => .lt
      | .gt => .gt
      | .eq => Mono.cmp a b

def Mono.eval (σ : String → Rat) (m : Mono) : Rat :=
  m.foldr (fun (p : String × Nat) acc => σ p.1 ^ p.2 * acc) 1

/-! ### polynomials -/

namespace MPoly

/-- insert a term into a polynomial kept sorted by `Mono.cmp` with non-zero coefficients -/
def insertTerm (m : Mono) (c : Rat) : MPoly → MPoly
  | [] => if c = 0 then [] else [(m, c)]
  | (m', c') :: p =>
    match Mono.cmp m m' with
    | .lt => if c = 0 then (m', c') :: p else (m, c) :: (m', c') :: p
    | .eq => if c + c' = 0 then p else (m', c + c') :: p
    | .gt => (m', c') :: insertTerm m c p

def normalize (p : MPoly) : MPoly :=
  p.foldr (fun (t : Term) acc => insertTerm (Mono.norm t.1) t.2 acc) []

def const (c : Rat) : MPoly := if c = 0 then [] else [([], c)]
def var (x : String) : MPoly := [([(x, 1)], 1)]
def zero : MPoly := []
def one : MPoly := [([], 1)]

def add (p q : MPoly) : MPoly := p.foldr (fun (t : Term) acc => insertTerm t.1 t.2 acc) q

def scale (c : Rat) (p : MPoly) : MPoly :=
  if c = 0 then [] else p.map (fun (t : Term) => (t.1, c * t.2))

def neg (p : MPoly) : MPoly := p.map (fun (t : Term) => (t.1, - t.2))

def sub (p q : MPoly) : MPoly := add p (neg q)

def mulTerm (m : Mono) (c : Rat) (q : MPoly) : MPoly :=
  q.foldr (fun (t : Term) acc => insertTerm (Mono.mul m t.1) (c * t.2) acc) []

def mul (p q : MPoly) : MPoly :=
  p.foldr (fun (t : Term) acc => add (mulTerm t.1 t.2 q) acc) []

def pow (p : MPoly) : Nat → MPoly
  | 0 => one
  | k + 1 => mul p (pow p k)

def isConst? (p : MPoly) : Option Rat :=
  match p with
  | [] => some 0
  | [([], c)] => some c
  | _ => none

def eval (σ : String → Rat) (p : MPoly) : Rat :=
  p.foldr (fun (t : Term) acc => t.2 * Mono.eval σ t.1 + acc) 0

/-- substitute polynomials for variables (variables without a binding stay) -/
def substMono (s : String → Option MPoly) (m : Mono) : MPoly :=
  m.foldr (fun (p : String × Nat) acc =>
    match s p.1 with
    | some q => mul (pow q p.2) acc
    | none => mul [([(p.1, p.2)], 1)] acc) one

def subst (s : String → Option MPoly) (p : MPoly) : MPoly :=
  p.foldr (fun (t : Term) acc => add (scale t.2 (substMono s t.1)) acc) []

def vars (p : MPoly) : List String :=
  (p.foldr (fun (t : Term) acc => t.1.map (·.1) ++ acc) []).eraseDups

def degree (p : MPoly) : Nat := p.foldl (fun acc (t : Term) => max acc (Mono.deg t.1)) 0

end MPoly

/-! ### rationals as text -/

def ratToString (r : Rat) : String :=
  if r.den = 1 then toString r.num else s!"{r.num}/{r.den}"

def parseNat? (s : String) : Option Nat := s.toNat?

def parseInt? (s : String) : Option Int :=
  if s.startsWith "-" then (s.drop 1).toNat?.map (fun n => - (n : Int))
  else if s.startsWith "+" then (s.drop 1).toNat?.map (fun n => (n : Int))
  else s.toNat?.map (fun n => (n : Int))

/-- parse `p`, `-p`, `p/q`; nothing else -/
def parseRat? (s : String) : Option Rat :=
  match s.splitOn "/" with
  | [a] => (parseInt? a).map (fun (i : Int) => (i : Rat))
  | [a, b] =>
    match parseInt? a, parseNat? b with
    | some i, some d => if d = 0 then none else some ((i : Rat) / (d : Rat))
    | _, _ => none
  | _ => none

end Polar
