/-
  Polar/OpsTrig.lean — line-protocol operations for C13 (Sin/Cos/Exp moments).

    trig_table   {"a":n,"b":n,"c":n}                    loop-order table, merged table, divisor
    func_plan    {"powers":[["Sin",1],["Exp",1],…]}       route of the coded / intended guard, plan
    mgf_exists   {"family":"Gamma","params":["2","1/2"],"t":"3/2"}   model of mgf_exists_at
-/
import Polar.Proto
import Polar.Ops
import Polar.TrigMoment

namespace Polar
open Lean

namespace Trig

def jsInt (i : Int) : Json := Json.num (JsonNumber.fromInt i)
def jsNat (n : Nat) : Json := Json.num (JsonNumber.fromNat n)
def jsTable (t : List (Int × Int)) : Json :=
  Json.arr (t.map (fun p => Json.arr #[jsInt p.1, jsInt p.2])).toArray
def jsNorm (p : Nat × Nat) : Json := Json.arr #[jsNat p.1, jsNat p.2]

def opTrigTable (j : Json) : D Json := do
  let a ← jNat (← jField j "a")
  let b ← jNat (← jField j "b")
  let c ← jNat (← jField j "c")
  pure (okJson [("table", jsTable (trigTable b c)),
                ("merged", jsTable (trigTableMerged b c)),
                ("norm", jsNorm (trigNorm a b c)),
                ("sources", Json.arr ((trigSources a b c).map (fun t => Json.str t.toString)).toArray)])

def decPowers (j : Json) : D (List (String × Nat)) := do
  (← jArr j).mapM (fun e => do
    match ← jArr e with
    | [k, p] => pure (← jStr k, ← jNat p)
    | _ => throw s!"bad power entry {e.compress}")

def opFuncPlan (j : Json) : D Json := do
  let powers ← decPowers (← jField j "powers")
  let keys := powers.map (·.1)
  let plan := match planCoded powers with
    | .trig a b c t nrm => Json.mkObj [("kind", "trig"), ("a", jsNat a), ("b", jsNat b), ("c", jsNat c),
        ("table", jsTable t), ("merged", jsTable (trigTableMerged b c)), ("norm", jsNorm nrm)]
    | .exp a c => Json.mkObj [("kind", "exp"), ("a", jsNat a), ("c", jsNat c)]
    | .error m => Json.mkObj [("kind", "error"), ("message", Json.str m)]
  pure (okJson [("route_coded", Json.str (routeCoded keys).toString),
                ("route_intended", Json.str (routeIntended keys).toString),
                ("plan", plan)])

def opMgfExists (j : Json) : D Json := do
  let fam ← jStr (← jField j "family")
  let ps ← decRatList (← jField j "params")
  let t ← jRat (← jField j "t")
  pure (okJson [("exists", Json.bool (mgfExistsAt fam ps t))])

end Trig

def trigOps : List (String × (Json → D Json)) :=
  [("trig_table", Trig.opTrigTable), ("func_plan", Trig.opFuncPlan), ("mgf_exists", Trig.opMgfExists)]

end Polar
