/-
  Polar/Synth.lean — C14: certificate checking for synthesised invariants of unsolvable loops.

  * the *polynomial fragment* of the loop language: unconditional assignments of polynomials with
    (optionally) probabilistic choice, and draws from a distribution with constant parameters;
  * `oneStepPoly` — the moment-recurrence operator of the fragment: the expected value of a polynomial
    `Q` after one execution of a statement list, as a polynomial in the pre-state (backward
    substitution; choice branches are weighted; a draw replaces the powers of the drawn variable by
    the raw moments `Polar.momentSpec`);
  * the reference semantics of the fragment as finitely supported weighted outcomes (`execB`,
    `runS`, `EW`) — the same shape as `Polar/Sem.lean`, on concrete rational states;
  * decidable certificates: `checkSynth body Q k R` (the identity `oneStepPoly body Q = k·Q + R` in
    `MPoly`), `checkSystem body elems A` (a list of polynomials is closed under the one-step
    operator with matrix `A`), and the assembled `synthSystem` that turns a synthesised invariant
    into a linear system whose first component is `E(Q)`; the closed form is then validated for
    every `n` by `Polar.LinAlg.cfiniteCheck`;
  * an independent computation of the one-step polynomial by running the *reference semantics*
    `Polar.execBlock` of `Polar/Sem.lean` on a symbolic store (`semOneStep`) — used for programs
    outside the fragment (`if` over freshly drawn finite variables) and as a run-time cross-check
    of the fragment semantics against `Sem.lean`.

  Soundness theorems: `PolarProofs/Synth.lean`.  No Mathlib.
-/
import Polar.Poly
import Polar.Dist
import Polar.Sem
import Polar.LinAlg

namespace Polar.Synth
open Polar Polar.LinAlg

/-! ### the fragment -/

inductive SStmt where
  /-- `x = v₁ {w₁} v₂ {w₂} …` : value polynomials with weight polynomials (a deterministic
      assignment is the single alternative `(v, 1)`) -/
  | assign (x : String) (alts : List (MPoly × MPoly))
  /-- `x = D(c₁,…)` : a draw from the distribution atom `a` (constant parameters) -/
  | draw (x : String) (a : Atom)
  deriving Repr, Inhabited

structure SProg where
  init : List SStmt
  body : List SStmt
  deriving Repr, Inhabited

/-! ### the one-step operator (backward substitution) -/

def single (x : String) (v : MPoly) : String → Option MPoly := fun y => if y = x then some v else none

/-- `Σ_alts w · Q[x := v]` -/
def wpAssign (x : String) (alts : List (MPoly × MPoly)) (q : MPoly) : MPoly :=
  alts.foldr (fun (vw : MPoly × MPoly) acc =>
    MPoly.add (MPoly.mul vw.2 (MPoly.subst (single x vw.1) q)) acc) []

/-- total exponent of `x` in a monomial (all occurrences; the monomial need not be normalised) -/
def expOf (x : String) (m : Mono) : Nat :=
  m.foldr (fun (p : String × Nat) acc => if p.1 = x then p.2 + acc else acc) 0

/-- the monomial without `x` -/
def eraseVar (x : String) (m : Mono) : Mono := m.filter (fun (p : String × Nat) => decide (p.1 ≠ x))

/-- `k`-th raw moment of the atom by the specification `Polar.momentSpec` (0 when undefined; the
    executable check refuses atoms without moments up front, see `atomOK`) -/
def mom (a : Atom) (k : Nat) : Rat := (momentSpec a k).getD 0

def atomOK (a : Atom) : Bool := (momentSpec a 0).isSome

/-- every power `x^e` in `Q` becomes the `e`-th raw moment of the draw -/
def wpDraw (x : String) (a : Atom) (q : MPoly) : MPoly :=
  q.foldr (fun (t : Term) acc =>
    MPoly.insertTerm (eraseVar x t.1) (t.2 * mom a (expOf x t.1)) acc) []

def wpStmt : SStmt → MPoly → MPoly
  | .assign x alts, q => wpAssign x alts q
  | .draw x a, q => wpDraw x a q

/-- **The moment-recurrence operator**: `E(Q(state after the block) | pre-state)` as a polynomial
    in the pre-state: `wp(s₁; …; sₙ, Q) = wp(s₁, wp(s₂, … wp(sₙ, Q)))`. -/
def oneStepPoly (body : List SStmt) (q : MPoly) : MPoly := body.foldr wpStmt q

/-! ### reference semantics of the fragment: finitely supported weighted outcomes -/

abbrev St := String → Rat

def upd (σ : St) (x : String) (v : Rat) : St := fun y => if y = x then v else σ y

abbrev WDist := List (Rat × St)

def bindW (d : WDist) (g : St → WDist) : WDist :=
  d.flatMap (fun (wq : Rat × St) => (g wq.2).map (fun (wr : Rat × St) => (wq.1 * wr.1, wr.2)))

/-- outcomes of one statement.  `law a` is the (finitely supported, possibly signed) weighted value
    list standing for the draw; the theorems assume it has the raw moments `mom a k`. -/
def execS (law : Atom → List (Rat × Rat)) : SStmt → St → WDist
  | .assign x alts, σ => alts.map (fun (vw : MPoly × MPoly) => (MPoly.eval σ vw.2, upd σ x (MPoly.eval σ vw.1)))
  | .draw x a, σ => (law a).map (fun (pc : Rat × Rat) => (pc.1, upd σ x pc.2))

def execB (law : Atom → List (Rat × Rat)) : List SStmt → St → WDist
  | [], σ => [(1, σ)]
  | s :: rest, σ => bindW (execS law s σ) (execB law rest)

/-- the law after the initial block and `n` iterations of `while true: body` -/
def runS (law : Atom → List (Rat × Rat)) (P : SProg) : Nat → St → WDist
  | 0, σ₀ => execB law P.init σ₀
  | n + 1, σ₀ => bindW (runS law P n σ₀) (execB law P.body)

/-- expectation of `f` under a weighted outcome list -/
def EW (d : WDist) (f : St → Rat) : Rat :=
  d.foldr (fun (wq : Rat × St) acc => wq.1 * f wq.2 + acc) 0

/-- `E(Q(state_n))` -/
def momentS (law : Atom → List (Rat × Rat)) (P : SProg) (q : MPoly) (n : Nat) (σ₀ : St) : Rat :=
  EW (runS law P n σ₀) (fun τ => MPoly.eval τ q)

/-! ### certificates -/

/-- the identity `oneStepPoly body Q = k·Q + R` of polynomials (compared in canonical form) -/
def checkSynth (body : List SStmt) (q : MPoly) (k : Rat) (r : MPoly) : Bool :=
  MPoly.normalize (oneStepPoly body q) == MPoly.normalize (MPoly.add (MPoly.scale k q) r)

/-- `Σ_j row_j · elems_j` -/
def linComb : List Rat → List MPoly → MPoly
  | a :: as, p :: ps => MPoly.add (MPoly.scale a p) (linComb as ps)
  | _, _ => []

/-- rows of a closure certificate for an arbitrary one-step operator `step` -/
def checkRowsG (step : MPoly → MPoly) (elems : List MPoly) : List MPoly → List (List Rat) → Bool
  | [], [] => true
  | p :: ps, row :: rows =>
    (MPoly.normalize (step p) == MPoly.normalize (linComb row elems)) && checkRowsG step elems ps rows
  | _, _ => false

/-- the polynomials `elems` are closed under the one-step operator with matrix `A`:
    `oneStepPoly body elems_i = Σ_j A_ij · elems_j` for every `i` -/
def checkSystem (body : List SStmt) (elems : List MPoly) (A : Mat) : Bool :=
  checkRowsG (oneStepPoly body) elems elems A

/-- initial vector: `E(elems_i)(0) = (oneStepPoly init elems_i)(σ₀)` -/
def initVec (init : List SStmt) (elems : List MPoly) (σ₀ : St) : Vec :=
  elems.map (fun p => MPoly.eval σ₀ (oneStepPoly init p))

/-! ### untrusted search: the closure of the monomials of `R` under the one-step operator
(the result is verified by `checkSystem`) -/

def coeffOf (m : Mono) (p : MPoly) : Rat :=
  p.foldr (fun (t : Term) acc => if t.1 = m then t.2 + acc else acc) 0

def closeMonos (step : MPoly → MPoly) : Nat → List Mono → List Mono → Option (List Mono)
  | _, [], done => some done
  | 0, _ :: _, _ => none
  | fuel + 1, m :: todo, done =>
    if done.contains m then closeMonos step fuel todo done
    else
      let p := MPoly.normalize (step [(m, 1)])
      closeMonos step fuel (todo ++ p.map (fun (t : Term) => t.1)) (done ++ [m])

def rowOver (monos : List Mono) (p : MPoly) : List Rat := monos.map (fun m => coeffOf m p)

structure System where
  elems : List MPoly
  A : Mat
  deriving Repr

/-- the linear system of a synthesised invariant: component 0 is `Q` with row `[k, c₁, …, c_d]`
    (`R = Σ c_j m_j`), the other components are the monomials of the closure of `R` -/
def synthSystem (step : MPoly → MPoly) (q : MPoly) (k : Rat) (r : MPoly) (fuel : Nat) : Except String System :=
  let rn := MPoly.normalize r
  match closeMonos step fuel (rn.map (fun (t : Term) => t.1)) [] with
  | none => .error "closure of the monomials of R exceeds the budget (R not effective?)"
  | some monos =>
    let elems := q :: monos.map (fun m => [(m, (1 : Rat))])
    let row0 := k :: rowOver monos rn
    let rows := monos.map (fun m => (0 : Rat) :: rowOver monos (MPoly.normalize (step [(m, 1)])))
    .ok { elems := elems, A := row0 :: rows }

/-! ### the one-step polynomial by the reference semantics of `Polar/Sem.lean` on a symbolic store -/

def symStore (vars : List String) : Store := vars.foldl (fun s x => s.set x (MPoly.var x)) []

/-- value of a polynomial over program variables on a path (polynomial over pre-state and atoms) -/
def polyValue (s : Store) (q : MPoly) : M MPoly :=
  q.foldrM (fun (t : Term) acc => do pure (MPoly.add (MPoly.scale t.2 (← monoValue s t.1)) acc)) []

/-- expectation over the atoms of one term, keeping the non-atom part symbolic -/
def atomTermE (atoms : List Atom) (t : Term) : M Term := do
  let atomPart := t.1.filter (fun (p : String × Nat) => (atomIndex? p.1).isSome)
  let rest := t.1.filter (fun (p : String × Nat) => (atomIndex? p.1).isNone)
  pure (rest, t.2 * (← atomMonoE atoms atomPart))

def atomPolyE (atoms : List Atom) (q : MPoly) : M MPoly :=
  q.foldrM (fun (t : Term) acc => do
    let t' ← atomTermE atoms t
    pure (MPoly.insertTerm t'.1 t'.2 acc)) []

/-- `E(Q after block)` as a polynomial in the pre-state, computed with `Polar.execBlock` -/
def semOneStep (block : List Stmt) (vars : List String) (q : MPoly) : M MPoly := do
  let d ← execBlock block ⟨symStore vars, []⟩
  d.foldrM (fun (wp : Rat × Path) acc => do
    let v ← polyValue wp.2.vals q
    let e ← atomPolyE wp.2.atoms v
    pure (MPoly.add (MPoly.scale wp.1 e) acc)) []

/-! ### translation of the model AST into the fragment -/

def exprPoly (vars : List String) (e : Expr) : Option MPoly :=
  match evalExpr (symStore vars) e with
  | .ok p => some p
  | .error _ => none

def exprConst (e : Expr) : Option Rat :=
  match evalExpr [] e with
  | .ok p => MPoly.isConst? p
  | .error _ => none

def rhsFrag (vars : List String) (x : String) : Rhs → Option SStmt
  | .expr e => (exprPoly vars e).map (fun p => .assign x [(p, MPoly.one)])
  | .choice alts => do
    let as ← alts.mapM (fun (ep : Expr × Expr) => do
      let v ← exprPoly vars ep.1
      let w ← exprPoly vars ep.2
      pure (v, w))
    pure (.assign x as)
  | .dist name params => do
    let cs ← params.mapM exprConst
    match name, cs with
    | "DiscreteUniform", [lo, hi] =>
      if lo.den = 1 ∧ hi.den = 1 ∧ lo ≤ hi then pure (.draw x ⟨name, cs⟩) else none
    | _, _ => if atomOK ⟨name, cs⟩ then pure (.draw x ⟨name, cs⟩) else none

def isTT : Cond → Bool
  | .tt => true
  | _ => false

/-- statements of the fragment: unguarded assignments; a simultaneous assignment goes through
    temporaries `@s0, @s1, …` (no program variable can have such a name) -/
def stmtFrag (vars : List String) : Stmt → Option (List SStmt)
  | .assign x rhs g _ => if isTT g then (rhsFrag vars x rhs).map (fun s => [s]) else none
  | .simult xs rhss =>
    if xs.length ≠ rhss.length then none else do
      let tmps := (List.range xs.length).map (fun i => s!"@s{i}")
      let firsts ← (tmps.zip rhss).mapM (fun (tr : String × Rhs) => rhsFrag vars tr.1 tr.2)
      let copies := (xs.zip tmps).map (fun (xt : String × String) => SStmt.assign xt.1 [(MPoly.var xt.2, MPoly.one)])
      pure (firsts ++ copies)
  | .ite _ _ _ => none

def blockFrag (vars : List String) (b : List Stmt) : Option (List SStmt) := do
  let parts ← b.mapM (stmtFrag vars)
  pure parts.flatten

def progFrag (vars : List String) (P : Program) : Option SProg :=
  if isTT P.guard then do
    pure { init := ← blockFrag vars P.init, body := ← blockFrag vars P.body }
  else none

end Polar.Synth
