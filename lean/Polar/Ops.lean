/-
  Polar/Ops.lean — the operations of the line protocol.
-/
import Polar.Proto

namespace Polar
open Lean

def okJson (fields : List (String × Json)) : Json := Json.mkObj (("ok", Json.bool true) :: fields)
def errJson (msg : String) : Json := Json.mkObj [("ok", Json.bool false), ("error", Json.str msg)]

/-- `moments`: E(M)(n) for every requested monomial and n = 0..nmax under the reference semantics -/
def opMoments (j : Json) : D Json := do
  let P ← decProgram (← jField j "program")
  let σ₀ ← decStore (← jField j "sigma0")
  let monos ← (← jArr (← jField j "monos")).mapM decMono
  let nmax ← jNat (← jField j "nmax")
  let d₀ ← execBlock P.init ⟨σ₀, []⟩
  let budget := match (jFieldD j "budget" (Json.num 4000)).getNat? with
    | .ok b => b
    | .error _ => 4000
  -- "merge": false runs the un-merged semantics the theorems are stated for (small n only)
  let doMerge := match j.getObjVal? "merge" with
    | .ok (Json.bool b) => b
    | _ => true
  let mut d := if doMerge then d₀.mergeFast else d₀
  let mut rows : List (List Rat) := []
  let mut sizes : List Nat := []
  let given : Option Cond ← match j.getObjVal? "given" with
    | .ok c => do pure (some (← decCond c))
    | .error _ => pure none
  let mut masses : List Rat := []
  for i in List.range (nmax + 1) do
    -- with "given": E(M · 1[given]) and P(given) instead of E(M)
    let dsel ← match given with
      | none => pure d
      | some c => d.filterM (fun wp => evalCond wp.2.vals c)
    let vals ← monos.mapM (fun m => dsel.E m)
    rows := rows ++ [vals]
    masses := masses ++ [dsel.mass]
    sizes := sizes ++ [d.length]
    if i < nmax then
      if d.length > budget then break
      -- stop when the values (polynomials over draw atoms) get large
      if d.any (fun wp => wp.2.vals.any (fun xv => xv.2.length > 400)) then break
      let d' ← d.bindM (iter P)
      d := if doMerge then d'.mergeFast else d'
  -- transpose: per monomial the list over n
  let perMono := (List.range monos.length).map (fun i => rows.map (fun r => r.getD i 0))
  pure (okJson [("values", Json.arr (perMono.map (fun l => Json.arr (l.map jsonRat).toArray)).toArray),
                ("support", Json.arr (sizes.map (fun (k : Nat) => Json.num k)).toArray),
                ("mass", Json.arr (masses.map jsonRat).toArray)])

/-- `dist`: the joint law of the listed variables after n iterations (all values must be constants) -/
def opDist (j : Json) : D Json := do
  let P ← decProgram (← jField j "program")
  let σ₀ ← decStore (← jField j "sigma0")
  let vars ← (← jArr (← jField j "vars")).mapM jStr
  let n ← jNat (← jField j "n")
  let d ← run P true n σ₀
  let proj ← d.mapM (fun (wp : Rat × Path) => do
    let vs ← vars.mapM (fun x =>
      match wp.2.vals.get? x with
      | some v => match MPoly.isConst? v with
        | some c => pure c
        | none => throw "dist: non-constant value"
      | none => throw s!"unset:{x}")
    pure (wp.1, vs))
  -- merge equal projections
  let merged := proj.foldl (fun (acc : List (Rat × List Rat)) (wv : Rat × List Rat) =>
    let rec ins : List (Rat × List Rat) → List (Rat × List Rat)
      | [] => [wv]
      | (w, v) :: t => if v = wv.2 then (w + wv.1, v) :: t else (w, v) :: ins t
    ins acc) []
  let merged := merged.filter (fun wv => wv.1 ≠ 0)
  pure (okJson [("dist", Json.arr (merged.map (fun (wv : Rat × List Rat) =>
    Json.arr #[jsonRat wv.1, Json.arr (wv.2.map jsonRat).toArray])).toArray)])

/-- `distmoment`: the specification moment of a distribution atom -/
def opDistMoment (j : Json) : D Json := do
  let fam ← jStr (← jField j "family")
  let ps ← decRatList (← jField j "params")
  let kmax ← jNat (← jField j "kmax")
  let vals ← (List.range (kmax + 1)).mapM (fun k =>
    match momentSpec ⟨fam, ps⟩ k with
    | some v => pure v
    | none => throw s!"no-moment:{fam}")
  pure (okJson [("moments", Json.arr (vals.map jsonRat).toArray)])

/-- `reach`: for each listed variable the distinct values it holds at the iteration boundaries
    n = nmin..nmax (`null` when some value is not a constant, i.e. depends on a continuous draw) -/
def opReach (j : Json) : D Json := do
  let P ← decProgram (← jField j "program")
  let σ₀ ← decStore (← jField j "sigma0")
  let vars ← (← jArr (← jField j "vars")).mapM jStr
  let nmax ← jNat (← jField j "nmax")
  let nmin ← jNat (jFieldD j "nmin" (Json.num 0))
  let budget := match (jFieldD j "budget" (Json.num 4000)).getNat? with
    | .ok b => b
    | .error _ => 4000
  let d₀ ← execBlock P.init ⟨σ₀, []⟩
  let mut d := d₀.mergeFast
  let mut sets : List (Option (List Rat)) := vars.map (fun _ => some [])
  let mut done : Nat := 0
  for i in List.range (nmax + 1) do
    if i ≥ nmin then
      sets := (sets.zip vars).map (fun (sv : Option (List Rat) × String) =>
        match sv.1 with
        | none => none
        | some acc =>
          d.foldl (fun (a : Option (List Rat)) (wp : Rat × Path) =>
            match a with
            | none => none
            | some l =>
              match wp.2.vals.get? sv.2 with
              | none => some l
              | some v =>
                match MPoly.isConst? v with
                | none => none
                | some c => if l.contains c then some l else some (c :: l)) (some acc))
    done := i
    if i < nmax then
      if d.length > budget then break
      d := (← d.bindM (iter P)).mergeFast
  pure (okJson [("sets", Json.arr (sets.map (fun (s : Option (List Rat)) =>
      match s with
      | none => Json.null
      | some l => Json.arr (l.map jsonRat).toArray)).toArray),
    ("ndone", Json.num done)])

def coreOps : List (String × (Json → D Json)) :=
  [("moments", opMoments), ("dist", opDist), ("distmoment", opDistMoment), ("reach", opReach)]

end Polar
