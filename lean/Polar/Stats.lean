/-
  Polar/Stats.lean — C11: model of
    utils/statistics.py          (raw_moments_to_centrals, raw_moments_to_cumulants, comb)
    utils/special_polys.py       (prob_hermite_poly, ce_bell_poly)
    cli/actions/goals_action.py  (Markov bounds of handle_tail_bound_upper_goal, the second-moment
                                  bound of handle_tail_bound_lower_goal)
    expansions/gram_charlier.py, expansions/cornish_fisher.py
  and the *specification* for finitely supported laws (central moments, cumulants, tail
  probabilities).  The model follows the code including its quirks (Bell polynomial of order 0); the specification is the mathematical definition.  No Mathlib.
-/
import Polar.Poly

namespace Polar.Stats

/-! ### small helpers -/

/-- `Σ_{j < n} f j` -/
def sumTo (f : Nat → Rat) : Nat → Rat
  | 0 => 0
  | n + 1 => sumTo f n + f n

def fact : Nat → Nat
  | 0 => 1
  | n + 1 => (n + 1) * fact n

/-- `utils/statistics.py:comb`: `0 if k > n else int(factorial(n) / (factorial(k) * factorial(n - k)))`.
    (The code divides as floats; the quotient is an integer below 2^53 for n ≤ 56, so the model,
    which divides exactly, is the code for every order ≤ 56.) -/
def comb (n k : Nat) : Nat := if k > n then 0 else fact n / (fact k * fact (n - k))

/-- The dict `{1: m₁, …, N: m_N}` is the list `[m₁, …, m_N]`; `mAt ms j` is
    `moments[j] if j > 0 else 1`. -/
def mAt (ms : List Rat) (j : Nat) : Rat := if j = 0 then 1 else ms.getD (j - 1) 0

/-! ### raw → central (`raw_moments_to_centrals`) -/

/-- one summand `comb(i, j) * (-1)**(i-j) * m_j * moments[1]**(i-j)` -/
def centralTerm (m : Nat → Rat) (i j : Nat) : Rat :=
  (comb i j : Rat) * (-1) ^ (i - j) * m j * (m 1) ^ (i - j)

/-- `centrals[i]`: `centrals[1] = 0` (as coded since repo commit d65f6a5; before it was `moments[1]`,
    finding F8), the binomial sum for i ≥ 2 -/
def centralOf (m : Nat → Rat) (i : Nat) : Rat :=
  if i = 1 then 0 else sumTo (centralTerm m i) (i + 1)

/-- the returned dict `{1: c₁, …, N: c_N}` as a list -/
def rawToCentral (ms : List Rat) : List Rat :=
  (List.range ms.length).map (fun i0 => centralOf (mAt ms) (i0 + 1))

/-! ### raw → cumulant (`raw_moments_to_cumulants`) -/

/-- the body of the outer loop: `prev = [κ₁, …, κ_{i-1}]`, result κ_i with
    `c_i = moments[i] - Σ_{k=1}^{i-1} comb(i-1, k-1) * cumulants[k] * moments[i-k]` -/
def cumStep (m : Nat → Rat) (prev : List Rat) : Rat :=
  let i := prev.length + 1
  m i - sumTo (fun k0 => (comb (i - 1) k0 : Rat) * prev.getD k0 0 * m (i - (k0 + 1))) (i - 1)

def cumList (m : Nat → Rat) : Nat → List Rat
  | 0 => []
  | n + 1 => cumList m n ++ [cumStep m (cumList m n)]

def rawToCumulant (ms : List Rat) : List Rat := cumList (mAt ms) ms.length

/-! ### tail bounds -/

def markovBoundsFrom (a : Rat) : Nat → List Rat → List Rat
  | _, [] => []
  | k, m :: t => m / a ^ k :: markovBoundsFrom a (k + 1) t

/-- `bounds = [m / a**k for k, m in moments.items()]` in the printed order k = 1, …, N -/
def markovBounds (ms : List Rat) (a : Rat) : List Rat := markovBoundsFrom a 1 ms

/-- `min(bounds_at_n)` (what `--at_n` prints); 0 for the empty list, which the code cannot produce -/
def markovMin (ms : List Rat) (a : Rat) : Rat :=
  match markovBounds ms a with
  | [] => 0
  | b :: t => t.foldl (fun acc x => if x < acc then x else acc) b

/-- `((moments[1] - a)**2) / (moments[2] - 2*a*moments[1] + a**2)` -/
def secondMomentLower (m1 m2 a : Rat) : Rat := (m1 - a) ^ 2 / (m2 - 2 * a * m1 + a ^ 2)

/-! ### specification: finitely supported laws -/

/-- a finitely supported law: list of (probability, value) -/
abbrev Law := List (Rat × Rat)

def Law.E : Law → (Rat → Rat) → Rat
  | [], _ => 0
  | (p, v) :: t, f => p * f v + Law.E t f

def Law.mass (d : Law) : Rat := d.E (fun _ => 1)
def Law.moment (d : Law) (k : Nat) : Rat := d.E (fun v => v ^ k)
def Law.mean (d : Law) : Rat := d.moment 1
/-- the raw moments `[m₁, …, m_N]` -/
def Law.moments (d : Law) (N : Nat) : List Rat := (List.range N).map (fun i => d.moment (i + 1))

/-- `E (X − E X)^k` -/
def centralSpec (d : Law) (k : Nat) : Rat := d.E (fun v => (v - d.mean) ^ k)

/-- cumulants of a moment sequence by the moment–cumulant recursion
    `κ_n = m_n − Σ_{j=1}^{n−1} C(n−1, j−1) κ_j m_{n−j}` (`K = log M` for the generating functions) -/
def cumulantOfMoments (m : Nat → Rat) : Nat → Rat
  | 0 => 0
  | n + 1 =>
    m (n + 1) - ((List.range n).attach.map (fun (j : {j // j ∈ List.range n}) =>
      have : j.1 < n := List.mem_range.mp j.2
      (comb n j.1 : Rat) * cumulantOfMoments m (j.1 + 1) * m (n - j.1))).sum

def cumulantSpec (d : Law) (k : Nat) : Rat := cumulantOfMoments d.moment k

/-- `P(X ≥ a)` and `P(X > a)` -/
def probGe (d : Law) (a : Rat) : Rat := d.E (fun v => if a ≤ v then 1 else 0)
def probGt (d : Law) (a : Rat) : Rat := d.E (fun v => if a < v then 1 else 0)

/-! ### special polynomials (`utils/special_polys.py`), univariate polynomials as coefficient lists -/

abbrev UPoly := List Rat

def UPoly.add : UPoly → UPoly → UPoly
  | [], q => q
  | p, [] => p
  | a :: p, b :: q => (a + b) :: UPoly.add p q

def UPoly.scale (c : Rat) (p : UPoly) : UPoly := p.map (fun a => c * a)
def UPoly.mulX (p : UPoly) : UPoly := 0 :: p

def UPoly.mul : UPoly → UPoly → UPoly
  | [], _ => []
  | a :: p, q => UPoly.add (UPoly.scale a q) (UPoly.mulX (UPoly.mul p q))

def UPoly.eval (p : UPoly) (x : Rat) : Rat := p.foldr (fun a acc => a + x * acc) 0

/-- drop trailing zero coefficients (canonical form for comparison) -/
def UPoly.trim (p : UPoly) : UPoly :=
  p.foldr (fun a acc => if acc.isEmpty && a == 0 then [] else a :: acc) []

/-- physicists' Hermite polynomials `H_n` (`sympy.hermite_poly`): H₀ = 1, H₁ = 2x,
    H_{n+2} = 2x·H_{n+1} − 2(n+1)·H_n -/
def physHermite : Nat → UPoly
  | 0 => [1]
  | 1 => [0, 2]
  | n + 2 => UPoly.add (UPoly.scale 2 (UPoly.mulX (physHermite (n + 1))))
                       (UPoly.scale (-(2 * ((n : Rat) + 1))) (physHermite n))

def zipIdxFrom {α : Type} : Nat → List α → List (α × Nat)
  | _, [] => []
  | i, a :: t => (a, i) :: zipIdxFrom (i + 1) t

/-- `prob_hermite_poly(n, x)`: `sqrt(2)**(-n) * H_n(x / sqrt(2))`, expanded.  The coefficient of x^j
    is `h_j · 2^{-(n+j)/2}`; `h_j ≠ 0` only for `n + j` even, so the result is rational. -/
def probHermite (n : Nat) : UPoly :=
  (zipIdxFrom 0 (physHermite n)).map (fun (cj : Rat × Nat) => cj.1 / (2 : Rat) ^ ((n + cj.2) / 2))

/-- the textbook probabilists' Hermite polynomials: He₀ = 1, He₁ = x, He_{n+2} = x·He_{n+1} − (n+1)·He_n -/
def heSpec : Nat → UPoly
  | 0 => [1]
  | 1 => [0, 1]
  | n + 2 => UPoly.add (UPoly.mulX (heSpec (n + 1))) (UPoly.scale (-((n : Rat) + 1)) (heSpec n))

/-- incomplete exponential Bell polynomial `B_{n,k}(x₁, x₂, …)` as sympy computes it
    (`bell._bell_incomplete_poly`): `Σ_{m=1}^{n−k+1} C(n−1, m−1) · x_m · B_{n−m,k−1}`; `x` is 1-indexed -/
def bellInc (x : Nat → Rat) : Nat → Nat → Rat
  | 0, 0 => 1
  | _ + 1, 0 => 0
  | 0, _ + 1 => 0
  | n + 1, k + 1 => sumTo (fun m0 => (comb n m0 : Rat) * x (m0 + 1) * bellInc x (n - m0) k) (n + 1 - k)

/-- `ce_bell_poly(n, *variables)`: `Σ_{k=1}^{n} B_{n,k}`; **0 for n = 0** (as coded; B₀ = 1) -/
def ceBell (x : Nat → Rat) (n : Nat) : Rat := sumTo (fun k0 => bellInc x n (k0 + 1)) n

/-! ### Gram–Charlier (`expansions/gram_charlier.py`)

  The density is `poly_term(x) · φ_{μ,σ}(x)` with
  `poly_term = 1 + Σ_{i=3}^{N} B_i(0, 0, κ₃, …, κ_i) / (i! σ^i) · He_i((x − μ)/σ)`.
  In the variable `y = x − μ` the coefficient of `y^j` in the i-th summand carries `σ^{-(i+j)}` with
  `i + j` even, i.e. `κ₂^{-(i+j)/2}`: the polynomial is rational in (κ₂, κ₃, …) although σ is not. -/

def kAt (ks : List Rat) (j : Nat) : Rat := ks.getD (j - 1) 0

/-- `mu = cumulants[1] if count > 0 else 0`, `sigma2 = cumulants[2] if count > 1 else 1` -/
def gcMu (ks : List Rat) : Rat := if ks.length > 0 then kAt ks 1 else 0
def gcSigma2 (ks : List Rat) : Rat := if ks.length > 1 then kAt ks 2 else 1

/-- `bell_args = [0, 0, κ₃, …, κ_i]` -/
def gcBellArg (ks : List Rat) (j : Nat) : Rat := if j ≤ 2 then 0 else kAt ks j

/-- `bell_part · hermit_part` of order i as a polynomial in `y = x − μ` -/
def gcSummand (ks : List Rat) (i : Nat) : UPoly :=
  let b := ceBell (gcBellArg ks) i / (fact i : Rat)
  (zipIdxFrom 0 (probHermite i)).map (fun (cj : Rat × Nat) => b * cj.1 / (gcSigma2 ks) ^ ((i + cj.2) / 2))

def gcPolyFrom (ks : List Rat) : Nat → Nat → UPoly
  | _, 0 => [1]
  | i, fuel + 1 => UPoly.add (gcPolyFrom ks i fuel) (gcSummand ks (i + fuel))

/-- `poly_term` in the variable `y = x − μ` (orders 3, …, N) -/
def gcPoly (ks : List Rat) : UPoly := gcPolyFrom ks 3 (ks.length - 2)

def dfact : Nat → Nat
  | 0 => 1
  | 1 => 1
  | n + 2 => (n + 2) * dfact n

/-- `∫ y^j φ_{0,σ²}(y) dy = σ^j (j−1)!!` for even j, 0 for odd j -/
def gaussMoment (s2 : Rat) (j : Nat) : Rat :=
  if j % 2 = 1 then 0 else s2 ^ (j / 2) * (dfact (j - 1) : Rat)

/-- `∫ p(y) φ_{0,σ²}(y) dy` -/
def gaussInt (s2 : Rat) (p : UPoly) : Rat :=
  ((zipIdxFrom 0 p).map (fun (cj : Rat × Nat) => cj.1 * gaussMoment s2 cj.2)).foldr (· + ·) 0

def UPoly.pow (p : UPoly) : Nat → UPoly
  | 0 => [1]
  | k + 1 => UPoly.mul p (UPoly.pow p k)

/-- k-th raw moment of the Gram–Charlier density: `∫ (y + μ)^k · poly_term(y) · φ_{0,σ²}(y) dy` -/
def gcRawMoment (ks : List Rat) (k : Nat) : Rat :=
  gaussInt (gcSigma2 ks) (UPoly.mul (UPoly.pow [gcMu ks, 1] k) (gcPoly ks))

/-! ### Cornish–Fisher (`expansions/cornish_fisher.py`)

  Polynomials in the symbols `h` and `z` are `MPoly`s.  The model works with the standardised
  cumulants: it takes σ (so κ₂ = σ²) and uses `a(k) = κ_{k+2} / ((k+2)! σ^{k+2})`. -/

def cfA (sigma : Rat) (ks : List Rat) (k : Nat) : Rat :=
  kAt ks (k + 2) / ((fact (k + 2) : Rat) * sigma ^ (k + 2))

def upolyToZ (p : UPoly) : MPoly :=
  MPoly.normalize ((zipIdxFrom 0 p).map (fun (cj : Rat × Nat) => ([("z", cj.2)], cj.1)))

def hPow (k : Nat) : MPoly := MPoly.normalize [([("h", k)], 1)]

/-- `xi`: every term `c · h^p · (rest)` of `xi_h` with p ≥ 1 becomes `c · (rest) · He_p(z)`;
    terms without h stay -/
def replaceH (q : MPoly) : MPoly :=
  q.foldr (fun (t : Term) acc =>
    let p := Mono.degIn t.1 "h"
    if p = 0 then MPoly.add [t] acc
    else
      let rest : Mono := t.1.filter (fun (xe : String × Nat) => xe.1 != "h")
      MPoly.add (MPoly.mul [(rest, t.2)] (upolyToZ (probHermite p))) acc) []

/-- `xi_h(k)` from the earlier `xi_h(1..k-1)`, `xi(1..k-1)` -/
def cfXiH (a : Nat → Rat) (xihs xis : List MPoly) (k : Nat) : MPoly :=
  let lead := MPoly.scale (a k) (hPow (k + 1))
  let s := (List.range (k - 1)).foldl (fun (acc : MPoly) (j0 : Nat) =>
    let j := j0 + 1
    let f2 := MPoly.sub (xihs.getD (k - j - 1) []) (xis.getD (k - j - 1) [])
    let f3 := MPoly.sub (xis.getD (j - 1) []) (MPoly.scale (a j) (hPow (j + 1)))
    MPoly.add acc (MPoly.scale ((j : Rat) / (k : Rat)) (MPoly.mul (MPoly.mul f2 f3) (hPow 1)))) []
  MPoly.sub lead s

def cfBuild (a : Nat → Rat) : Nat → List MPoly × List MPoly
  | 0 => ([], [])
  | k + 1 =>
    let (xihs, xis) := cfBuild a k
    let xh := cfXiH a xihs xis (k + 1)
    (xihs ++ [xh], xis ++ [replaceH xh])

def mpolyZCoeff (q : MPoly) (j : Nat) : Rat :=
  q.foldr (fun (t : Term) acc => if t.1 = (if j = 0 then [] else [("z", j)]) then t.2 + acc else acc) 0

/-- `CornishFisherExpansion(cumulants)()` before `z ↦ √2·erfinv(2p−1)`: coefficients (in z) of
    `σ·(z + Σ_{k=1}^{N−2} ξ_k(z)) + κ₁` -/
def cornishFisher (sigma : Rat) (ks : List Rat) : UPoly :=
  let xis := (cfBuild (cfA sigma ks) (ks.length - 2)).2
  let w := xis.foldl MPoly.add (MPoly.var "z")
  let deg := MPoly.degree w
  let inner : UPoly := (List.range (deg + 1)).map (mpolyZCoeff w)
  UPoly.add [kAt ks 1] (UPoly.scale sigma inner)

end Polar.Stats
