/-
  Polar/Sem.lean — reference semantics of the loop language (the specification side).

  A run is a finitely supported weighted list of paths.  A path holds the value of every variable as
  a polynomial over *draw atoms*: a continuous draw contributes a fresh atom, discrete draws and
  probabilistic choices split the path.  Expectation replaces atom powers by raw moments
  (`Polar.Dist.momentSpec`) – independence of draws is the product over distinct atoms.
-/
import Std.Data.HashMap
import Polar.Poly
import Polar.Dist

namespace Polar

inductive Expr where
  | num (r : Rat)
  | var (x : String)
  | add (a b : Expr)
  | sub (a b : Expr)
  | mul (a b : Expr)
  | neg (a : Expr)
  | pow (a : Expr) (k : Nat)
  | div (a b : Expr)
  deriving Repr, Inhabited

inductive Cop where
  | eq | ne | lt | le | gt | ge
  deriving Repr, DecidableEq, Inhabited

inductive Cond where
  | tt
  | ff
  | cmp (op : Cop) (l r : Expr)
  | not (c : Cond)
  | and (a b : Cond)
  | or (a b : Cond)
  deriving Repr, Inhabited

inductive Rhs where
  | expr (e : Expr)
  | choice (alts : List (Expr × Expr))        -- (value, probability)
  | dist (name : String) (params : List Expr)
  deriving Repr, Inhabited

inductive Stmt where
  /-- `x = rhs | guard : dflt` (plain assignment: guard = tt, dflt = x) -/
  | assign (x : String) (rhs : Rhs) (guard : Cond) (dflt : String)
  /-- simultaneous assignment: all right sides read the old state -/
  | simult (xs : List String) (rhss : List Rhs)
  /-- if c: t else: e  (elif chains are nested in `e`) -/
  | ite (c : Cond) (t e : List Stmt)
  deriving Repr, Inhabited

structure Program where
  init : List Stmt
  guard : Cond
  body : List Stmt
  deriving Repr, Inhabited

/-! ### paths -/

abbrev Store := List (String × MPoly)

instance : Hashable Rat := ⟨fun r => mixHash (hash r.num) (hash r.den)⟩

instance : Hashable Atom := ⟨fun a => mixHash (hash a.family) (hash a.params)⟩

structure Path where
  vals : Store
  atoms : List Atom          -- atom `i` (0-based in creation order) is named `@i`
  deriving DecidableEq, Inhabited, Hashable

abbrev WD := List (Rat × Path)

def Store.get? (s : Store) (x : String) : Option MPoly :=
  match s.find? (fun (p : String × MPoly) => p.1 == x) with
  | some p => some p.2
  | none => none

def Store.set (s : Store) (x : String) (v : MPoly) : Store :=
  match s with
  | [] => [(x, v)]
  | (y, w) :: t => if x = y then (y, v) :: t else if x < y then (x, v) :: (y, w) :: t else (y, w) :: Store.set t x v

abbrev M := Except String

def evalExpr (s : Store) : Expr → M MPoly
  | .num r => pure (MPoly.const r)
  | .var x => match s.get? x with
    | some v => pure v
    | none => throw s!"unset:{x}"
  | .add a b => do pure (MPoly.add (← evalExpr s a) (← evalExpr s b))
  | .sub a b => do pure (MPoly.sub (← evalExpr s a) (← evalExpr s b))
  | .mul a b => do pure (MPoly.mul (← evalExpr s a) (← evalExpr s b))
  | .neg a => do pure (MPoly.neg (← evalExpr s a))
  | .pow a k => do pure (MPoly.pow (← evalExpr s a) k)
  | .div a b => do
    let vb ← evalExpr s b
    match MPoly.isConst? vb with
    | some c => if c = 0 then throw "div-by-zero" else pure (MPoly.scale (1 / c) (← evalExpr s a))
    | none => throw "div-by-nonconstant"

def evalConst (s : Store) (e : Expr) : M Rat := do
  match MPoly.isConst? (← evalExpr s e) with
  | some c => pure c
  | none => throw "nonconstant"

def Cop.holds (op : Cop) (a b : Rat) : Bool :=
  match op with
  | .eq => a == b
  | .ne => a != b
  | .lt => a < b
  | .le => a ≤ b
  | .gt => b < a
  | .ge => b ≤ a

def evalCond (s : Store) : Cond → M Bool
  | .tt => pure true
  | .ff => pure false
  | .cmp op l r => do
    let d := MPoly.sub (← evalExpr s l) (← evalExpr s r)
    match MPoly.isConst? d with
    | some c => pure (op.holds c 0)
    | none => throw "condition-on-draw"
  | .not c => do pure (! (← evalCond s c))
  | .and a b => do pure ((← evalCond s a) && (← evalCond s b))
  | .or a b => do pure ((← evalCond s a) || (← evalCond s b))

def atomVar (i : Nat) : MPoly := MPoly.var s!"@{i}"

/-- outcomes of one right-hand side: weight, value, atom table after the draw -/
def evalRhs (p : Path) : Rhs → M (List (Rat × MPoly × List Atom))
  | .expr e => do pure [(1, ← evalExpr p.vals e, p.atoms)]
  | .choice alts => do
    let mut out := []
    for (e, pr) in alts do
      let w ← evalConst p.vals pr
      let v ← evalExpr p.vals e
      out := out ++ [(w, v, p.atoms)]
    pure out
  | .dist name params => do
    let fresh (a : Atom) : MPoly × List Atom := (atomVar p.atoms.length, p.atoms ++ [a])
    match name, params with
    | "Bernoulli", [e] => do
      let q ← evalConst p.vals e
      pure [(q, MPoly.const 1, p.atoms), (1 - q, MPoly.const 0, p.atoms)]
    | "Categorical", ps => do
      let mut out := []
      let mut i : Nat := 0
      for e in ps do
        let q ← evalConst p.vals e
        out := out ++ [(q, MPoly.const (i : Rat), p.atoms)]
        i := i + 1
      pure out
    | "DiscreteUniform", [a, b] => do
      let lo ← evalConst p.vals a
      let hi ← evalConst p.vals b
      if lo.den ≠ 1 ∨ hi.den ≠ 1 ∨ hi < lo then throw "bad-discrete-uniform"
      let cnt : Nat := (hi.num - lo.num + 1).toNat
      pure ((List.range cnt).map (fun (k : Nat) => ((1 : Rat) / (cnt : Rat), MPoly.const (lo + (k : Rat)), p.atoms)))
    | "Normal", [mu, s2] => do
      let m ← evalExpr p.vals mu
      let v ← evalConst p.vals s2
      if v < 0 then throw "bad-normal"
      let (z, at') := fresh ⟨"Normal", [0, v]⟩
      pure [(1, MPoly.add m z, at')]
    | "Uniform", [a, b] => do
      let va ← evalExpr p.vals a
      let vb ← evalExpr p.vals b
      let (u, at') := fresh ⟨"Uniform", [0, 1]⟩
      pure [(1, MPoly.add va (MPoly.mul (MPoly.sub vb va) u), at')]
    | "Laplace", [mu, b] => do
      let m ← evalExpr p.vals mu
      let vb ← evalConst p.vals b
      if vb ≤ 0 then throw "bad-laplace"
      let (l, at') := fresh ⟨"Laplace", [0, vb]⟩
      pure [(1, MPoly.add m l, at')]
    | "Exponential", [lam] => do
      let l ← evalConst p.vals lam
      if l ≤ 0 then throw "bad-exponential"
      let (x, at') := fresh ⟨"Exponential", [l]⟩
      pure [(1, x, at')]
    | "Gamma", [a, b] => do
      let va ← evalConst p.vals a
      let vb ← evalConst p.vals b
      if va ≤ 0 ∨ vb ≤ 0 then throw "bad-gamma"
      let (x, at') := fresh ⟨"Gamma", [va, vb]⟩
      pure [(1, x, at')]
    | "Beta", [a, b] => do
      let va ← evalConst p.vals a
      let vb ← evalConst p.vals b
      if va ≤ 0 ∨ vb ≤ 0 then throw "bad-beta"
      let (x, at') := fresh ⟨"Beta", [va, vb]⟩
      pure [(1, x, at')]
    | n, _ => throw s!"unsupported-dist:{n}"

/-- evaluate several right sides against the *same* store, threading only the atom table -/
def evalRhss (vals : Store) : List Rhs → List Atom → M (List (Rat × List MPoly × List Atom))
  | [], atoms => pure [(1, [], atoms)]
  | r :: rs, atoms => do
    let firsts ← evalRhs ⟨vals, atoms⟩ r
    let mut out := []
    for (w, v, at1) in firsts do
      let rests ← evalRhss vals rs at1
      for (w', vs, at2) in rests do
        out := out ++ [(w * w', v :: vs, at2)]
    pure out

def setMany (s : Store) : List String → List MPoly → Store
  | x :: xs, v :: vs => setMany (s.set x v) xs vs
  | _, _ => s

mutual
def execStmt (st : Stmt) (p : Path) : M WD :=
  match st with
  | .assign x rhs g d => do
    if ← evalCond p.vals g then
      let outs ← evalRhs p rhs
      pure (outs.map (fun (w, v, at') => (w, { vals := p.vals.set x v, atoms := at' })))
    else
      match p.vals.get? d with
      | some v => pure [(1, { p with vals := p.vals.set x v })]
      | none => throw s!"unset:{d}"
  | .simult xs rhss => do
    if xs.length ≠ rhss.length then throw "simult-arity"
    let outs ← evalRhss p.vals rhss p.atoms
    pure (outs.map (fun (w, vs, at') => (w, { vals := setMany p.vals xs vs, atoms := at' })))
  | .ite c t e => do
    if ← evalCond p.vals c then execBlock t p else execBlock e p

def execBlock (b : List Stmt) (p : Path) : M WD :=
  match b with
  | [] => pure [(1, p)]
  | s :: rest => do
    let d ← execStmt s p
    let mut out : Array (Rat × Path) := #[]
    for (w, q) in d do
      let d' ← execBlock rest q
      for (w', r) in d' do
        out := out.push (w * w', r)
    pure out.toList
end

/-- weighted bind -/
def WD.bindM (d : WD) (f : Path → M WD) : M WD := do
  let mut out : Array (Rat × Path) := #[]
  for (w, q) in d do
    let d' ← f q
    for (w', r) in d' do
      out := out.push (w * w', r)
  pure out.toList

/-- merge equal paths (adds weights, drops weight 0); quadratic but only used on small supports -/
def WD.merge (d : WD) : WD :=
  let step (acc : WD) (wp : Rat × Path) : WD :=
    if wp.1 = 0 then acc else
    let rec ins : WD → WD
      | [] => [wp]
      | (w, q) :: t => if q = wp.2 then (w + wp.1, q) :: t else (w, q) :: ins t
    ins acc
  (d.foldl step []).filter (fun wp => wp.1 ≠ 0)

/-- hash-based merge used by the executable (same multiset of (path, total weight) as `merge`) -/
def WD.mergeFast (d : WD) : WD :=
  let m : Std.HashMap Path Rat := d.foldl (fun m (wp : Rat × Path) => m.insert wp.2 (m.getD wp.2 0 + wp.1)) {}
  m.toList.filterMap (fun (pw : Path × Rat) => if pw.2 = 0 then none else some (pw.2, pw.1))

/-- one loop iteration: the state is frozen once the guard is false -/
def iter (P : Program) (p : Path) : M WD := do
  if ← evalCond p.vals P.guard then execBlock P.body p else pure [(1, p)]

def iterN (P : Program) (merge : Bool) : Nat → WD → M WD
  | 0, d => pure d
  | n + 1, d => do
    let d' ← d.bindM (iter P)
    iterN P merge n (if merge then d'.mergeFast else d')

def run (P : Program) (merge : Bool) (n : Nat) (σ₀ : Store) : M WD := do
  let d₀ ← execBlock P.init ⟨σ₀, []⟩
  iterN P merge n (if merge then d₀.mergeFast else d₀)

/-! ### expectations -/

/-- value of a program monomial on a path, as a polynomial over atoms -/
def monoValue (s : Store) (m : Mono) : M MPoly :=
  m.foldrM (fun (p : String × Nat) acc =>
    match s.get? p.1 with
    | some v => pure (MPoly.mul (MPoly.pow v p.2) acc)
    | none => throw s!"unset:{p.1}") MPoly.one

def atomIndex? (x : String) : Option Nat :=
  if x.startsWith "@" then (x.drop 1).toNat? else none

/-- expectation of an atom monomial: product of the raw moments of the distinct atoms -/
def atomMonoE (atoms : List Atom) (m : Mono) : M Rat :=
  m.foldrM (fun (p : String × Nat) acc =>
    match atomIndex? p.1 with
    | some i =>
      match atoms[i]? with
      | some a =>
        match momentSpec a p.2 with
        | some mk => pure (mk * acc)
        | none => throw s!"no-moment:{a.family}"
      | none => throw s!"unknown-atom:{p.1}"
    | none => throw s!"free-symbol:{p.1}") 1

def polyE (atoms : List Atom) (q : MPoly) : M Rat :=
  q.foldrM (fun (t : Term) acc => do pure (t.2 * (← atomMonoE atoms t.1) + acc)) 0

def pathE (m : Mono) (p : Path) : M Rat := do polyE p.atoms (← monoValue p.vals m)

def WD.E (d : WD) (m : Mono) : M Rat :=
  d.foldrM (fun (wp : Rat × Path) acc => do pure (wp.1 * (← pathE m wp.2) + acc)) 0

/-- E(M) after n iterations -/
def moment (P : Program) (m : Mono) (n : Nat) (σ₀ : Store) : M Rat := do
  (← run P true n σ₀).E m

def WD.mass (d : WD) : Rat := d.foldr (fun wp acc => wp.1 + acc) 0

end Polar
