/-
  Polar/SimModel.lean — C12: a model of the *simulator* (`simulation/simulator.py`) written from the code,
  independently of the reference semantics in `Polar/Sem.lean` (only the AST types are shared).

  What is mirrored (file : function → definition here)

  * `program/condition/*.py : evaluate`, `utils/conditions.py : evaluate_cop`      → `evalCond`, `Cop.evalSim`
      - `And`/`Or` are Python's short-circuit `and`/`or`;
      - `evaluate_cop` knows `== <= >= < >` only: the token `/=` that the grammar accepts raises RuntimeError.
  * `program/assignment/assignment.py : Assignment.evaluate`                        → `simAssign`
      - condition true → `evaluate_right_side(state)`, else `state[default]` (raises when unset);
      - the state dict is mutated in place: `state[variable] = float(result)`.
  * `program/assignment/poly_assignment.py : evaluate_right_side`                   → `rhsRequest` (.expr, .choice)
      - all probabilities are evaluated first, then all polynomials, then ONE call
        `random.choices(polynomials, weights=probabilities, k=1)`; a plain assignment `x = e` is a
        `PolyAssignment` with probabilities `[1]` and therefore also calls `random.choices`.
  * `program/assignment/dist_assignment.py`, `program/distribution/*.py : sample`  → `rhsRequest` (.dist), `samplerCall`
  * `inputparser/structure_transformer.py : _assign_simult`                         → `simultTemps`, `simultCopies`
      - `x1, .., xk = r1, .., rk` becomes `t1 = r1; ..; tk = rk; x1 = t1; ..; xk = tk` with fresh `t`s
        (the names of the temporaries are a parameter `tmp : Nat → String` of the model).
  * `simulation/simulator.py : Simulator.execute` (list / IfStatem / Assignment)    → `simStmt`, `simBlock`
      - `IfStatem`: the first branch whose condition evaluates true, else the else-branch.  An
        `if c1 .. elif c2 .. else ..` is the AST `ite c1 _ [ite c2 _ _]`; the loop over
        `conditions[i]` with early return is exactly the recursion into the else-list.
  * `simulation/simulator.py : Simulator.simulate`                                  → `simRun`
      - `states[0] = execute(initial, {})`; per iteration: guard false on the last state → the state is
        copied ("stuttering"), else the body runs on a copy.

  Random sources are explicit: every call of `random.choices`, `random.choice` or `<scipy>.rvs` consumes
  exactly one `Entry` of the oracle tape (`Req.answer`).  `simPaths` enumerates all tapes of a discrete
  program together with their probabilities (`Req.options`: `random.choices` picks index `i` with
  probability `wᵢ / Σ w` — the stdlib normalises the weights —, `random.choice` uniformly,
  `bernoulli.rvs(p)` 1 with probability p).

  NOT modelled (named in the evidence): values are exact rationals where the code has IEEE doubles
  (rounding in arithmetic and in `evaluate_cop`), and the internals of scipy's generators.
-/
import Polar.Sem

namespace Polar.Sim

/-! ## states: a Python dict `Symbol → float`, in insertion order -/

abbrev State := List (String × Rat)

def State.get? : State → String → Option Rat
  | [], _ => none
  | (y, v) :: t, x => if x = y then some v else State.get? t x

/-- `state[x] = v`: overwrite in place, or append -/
def State.set : State → String → Rat → State
  | [], x, v => [(x, v)]
  | (y, w) :: t, x, v => if x = y then (y, v) :: t else (y, w) :: State.set t x v

abbrev M := Except String

/-! ## expressions and conditions on a state (`expr.subs(state)` then `float(..)`) -/

def evalExpr (σ : State) : Expr → M Rat
  | .num r => pure r
  | .var x => match σ.get? x with
    | some v => pure v
    | none => throw s!"EvaluationException:unset:{x}"
  | .add a b => do
    let va ← evalExpr σ a
    let vb ← evalExpr σ b
    pure (va + vb)
  | .sub a b => do
    let va ← evalExpr σ a
    let vb ← evalExpr σ b
    pure (va - vb)
  | .mul a b => do
    let va ← evalExpr σ a
    let vb ← evalExpr σ b
    pure (va * vb)
  | .neg a => do
    let va ← evalExpr σ a
    pure (- va)
  | .pow a k => do
    let va ← evalExpr σ a
    pure (va ^ k)
  | .div a b => do
    let va ← evalExpr σ a
    let vb ← evalExpr σ b
    if vb = 0 then throw "ZeroDivision" else pure (va / vb)

/-- `utils/conditions.py : evaluate_cop` -/
def _root_.Polar.Cop.evalSim (op : Cop) (a b : Rat) : M Bool :=
  match op with
  | .eq => pure (a == b)
  | .le => pure (a ≤ b)
  | .ge => pure (b ≤ a)
  | .lt => pure (a < b)
  | .gt => pure (b < a)
  | .ne => throw "RuntimeError:Unknown comparison operator /="

def evalCond (σ : State) : Cond → M Bool
  | .tt => pure true
  | .ff => pure false
  | .cmp op l r => do
    let a ← evalExpr σ l
    let b ← evalExpr σ r
    op.evalSim a b
  | .not c => do
    let v ← evalCond σ c
    pure (!v)
  | .and a b => do
    let va ← evalCond σ a
    if va then evalCond σ b else pure false
  | .or a b => do
    let va ← evalCond σ a
    if va then pure true else evalCond σ b

/-! ## the calls into scipy: `samplerCall` (as coded) and `samplerSpecCall` (as documented) -/

/-- an argument of a scipy call: a rational, `√r`, or `n / √s` (the code takes `math.sqrt(sigma2)`) -/
inductive SArg where
  | q (r : Rat)
  | sqrt (r : Rat)
  | divSqrt (n s : Rat)
  deriving DecidableEq, Repr, Inhabited

structure ScipyCall where
  fn : String            -- attribute of scipy.stats
  shape : List SArg      -- shape parameters in scipy's order
  loc : SArg
  scale : SArg
  post : Rat             -- Polar multiplies the returned sample by this (Beta's third parameter)
  deriving DecidableEq, Repr, Inhabited

/-- `program/distribution/<family>.py : sample`, as coded.  `ps` are the evaluated parameters
    in Polar's order.  `none`: wrong arity (the constructor raises) or the float division fails. -/
def samplerCall (family : String) (ps : List Rat) : Option ScipyCall :=
  match family, ps with
  -- bernoulli.rvs(float(p))
  | "Bernoulli", [p] => some ⟨"bernoulli", [.q p], .q 0, .q 1, 1⟩
  -- norm.rvs(loc=float(mu), scale=math.sqrt(float(sigma2)))
  | "Normal", [mu, s2] => some ⟨"norm", [], .q mu, .sqrt s2, 1⟩
  -- uniform.rvs(loc=float(a), scale=float(b) - float(a))
  | "Uniform", [a, b] => some ⟨"uniform", [], .q a, .q (b - a), 1⟩
  -- laplace.rvs(scale=float(b), loc=float(mu))
  | "Laplace", [mu, b] => some ⟨"laplace", [], .q mu, .q b, 1⟩
  -- expon.rvs(scale=1 / float(lamb))
  | "DistExp", [lam] => if lam = 0 then none else some ⟨"expon", [], .q 0, .q (1 / lam), 1⟩
  -- gamma.rvs(float(k), scale=float(theta))
  | "Gamma", [k, theta] => some ⟨"gamma", [.q k], .q 0, .q theta, 1⟩
  -- scale * beta.rvs(float(a), float(b))
  | "Beta", [a, b] => some ⟨"beta", [.q a, .q b], .q 0, .q 1, 1⟩
  | "Beta", [a, b, s] => some ⟨"beta", [.q a, .q b], .q 0, .q 1, s⟩
  -- mu, sigma = float(mu), math.sqrt(float(sigma2))
  -- truncnorm.rvs((float(a) - mu) / sigma, (float(b) - mu) / sigma, loc=mu, scale=sigma)
  -- (sigma = 0: ZeroDivisionError)
  | "TruncNormal", [mu, s2, a, b] =>
    if s2 = 0 then none
    else some ⟨"truncnorm", [.divSqrt (a - mu) s2, .divSqrt (b - mu) s2], .q mu, .sqrt s2, 1⟩
  | _, _ => none

/-- What the scipy documentation requires so that the sample has the law whose moments the analysis
    uses: Normal(μ, σ²) = norm(loc=μ, scale=σ); Uniform(a, b) = uniform(loc=a, scale=b−a);
    Laplace(μ, b) = laplace(loc=μ, scale=b); Exponential(rate λ) = expon(scale=1/λ);
    Gamma(shape k, scale θ) = gamma(a=k, scale=θ); Beta(a, b)·s = s · beta(a, b);
    TruncNormal(μ, σ², a, b) (Normal(μ, σ²) conditioned on [a, b]) =
    truncnorm((a−μ)/σ, (b−μ)/σ, loc=μ, scale=σ) — "a, b are defined over the domain of the standard
    normal; to convert clip values for a specific mean and standard deviation use
    a, b = (myclip_a − loc)/scale, (myclip_b − loc)/scale". -/
def samplerSpecCall (family : String) (ps : List Rat) : Option ScipyCall :=
  if family = "Bernoulli" then
    match ps with
    | [p] => some { fn := "bernoulli", shape := [.q p], loc := .q 0, scale := .q 1, post := 1 }
    | _ => none
  else if family = "Normal" then
    match ps with
    | [mu, s2] => some { fn := "norm", shape := [], loc := .q mu, scale := .sqrt s2, post := 1 }
    | _ => none
  else if family = "Uniform" then
    match ps with
    | [a, b] => some { fn := "uniform", shape := [], loc := .q a, scale := .q (b - a), post := 1 }
    | _ => none
  else if family = "Laplace" then
    match ps with
    | [mu, b] => some { fn := "laplace", shape := [], loc := .q mu, scale := .q b, post := 1 }
    | _ => none
  else if family = "DistExp" then
    match ps with
    | [lam] => if lam = 0 then none
               else some { fn := "expon", shape := [], loc := .q 0, scale := .q (1 / lam), post := 1 }
    | _ => none
  else if family = "Gamma" then
    match ps with
    | [k, theta] => some { fn := "gamma", shape := [.q k], loc := .q 0, scale := .q theta, post := 1 }
    | _ => none
  else if family = "Beta" then
    match ps with
    | [a, b] => some { fn := "beta", shape := [.q a, .q b], loc := .q 0, scale := .q 1, post := 1 }
    | [a, b, s] => some { fn := "beta", shape := [.q a, .q b], loc := .q 0, scale := .q 1, post := s }
    | _ => none
  else if family = "TruncNormal" then
    match ps with
    | [mu, s2, a, b] =>
      some { fn := "truncnorm", shape := [.divSqrt (a - mu) s2, .divSqrt (b - mu) s2],
             loc := .q mu, scale := .sqrt s2, post := 1 }
    | _ => none
  else none

/-- exact square root of a rational that is a square -/
def ratSqrt? (r : Rat) : Option Rat :=
  if r < 0 then none else
  let n := r.num.toNat
  let d := r.den
  let sn := Nat.sqrt n
  let sd := Nat.sqrt d
  if sn * sn = n ∧ sd * sd = d then some ((sn : Rat) / (sd : Rat)) else none

/-- rational value of an argument when the radicand is a rational square -/
def SArg.toRat? : SArg → Option Rat
  | .q r => some r
  | .sqrt r => ratSqrt? r
  | .divSqrt n s =>
    match ratSqrt? s with
    | some t => if t = 0 then none else some (n / t)
    | none => none

/-- an endpoint of a support: `none` = unbounded -/
abbrev Bound := Option Rat

/-- support of `post · X`, `X ~ scipy.stats.<fn>(*shape, loc, scale)`, from the scipy documentation
    (loc-scale families: support of the standard law mapped by `x ↦ loc + scale·x`); `post ≥ 0`.
    `none` when an argument is irrational. -/
def ScipyCall.support (c : ScipyCall) : Option (Bound × Bound) := do
  let loc ← c.loc.toRat?
  let sc ← c.scale.toRat?
  let sh ← c.shape.mapM SArg.toRat?
  let aff (x : Rat) : Rat := c.post * (loc + sc * x)
  match c.fn, sh with
  | "bernoulli", _ => some (some (aff 0), some (aff 1))
  | "norm", _ => some (none, none)
  | "laplace", _ => some (none, none)
  | "uniform", _ => some (some (aff 0), some (aff 1))
  | "expon", _ => some (some (aff 0), none)
  | "gamma", _ => some (some (aff 0), none)
  | "beta", _ => some (some (aff 0), some (aff 1))
  | "truncnorm", [a, b] => some (some (aff a), some (aff b))
  | _, _ => none

/-- `get_support` of the distribution classes (the support the analysis assumes) -/
def declaredSupport (family : String) (ps : List Rat) : Option (Bound × Bound) :=
  match family, ps with
  | "Bernoulli", [_] => some (some 0, some 1)
  | "Normal", [_, _] => some (none, none)
  | "Uniform", [a, b] => some (some a, some b)
  | "Laplace", [_, _] => some (none, none)
  | "DistExp", [_] => some (some 0, none)
  | "Gamma", [_, _] => some (some 0, none)
  | "Beta", [_, _] => some (some 0, some 1)
  | "Beta", [_, _, s] => some (some 0, some s)
  | "TruncNormal", [_, _, a, b] => some (some a, some b)
  | _, _ => none

/-! ## requests to the random sources and the oracle tape -/

/-- one scripted answer of a random source -/
inductive Entry where
  | idx (i : Nat)        -- `random.choices` / `random.choice`: position of the returned element
  | val (v : Rat)        -- `<scipy>.rvs`: the returned number
  deriving DecidableEq, Repr, Inhabited

abbrev Tape := List Entry

inductive Req where
  /-- `random.choices(values, weights=weights, k=1)[0]` -/
  | choices (values weights : List Rat)
  /-- `random.choice(values)` -/
  | choice (values : List Rat)
  /-- `post * scipy.stats.<fn>.rvs(..)` -/
  | rvs (call : ScipyCall)
  deriving Repr, Inhabited

def sumRat : List Rat → Rat
  | [] => 0
  | w :: ws => w + sumRat ws

def anyNeg : List Rat → Bool
  | [] => false
  | w :: ws => decide (w < 0) || anyNeg ws

/-- checks made by `random.choices` itself (length, total weight); negative weights are outside the model -/
def choicesGuard (values weights : List Rat) : M Unit :=
  if values.length ≠ weights.length then throw "ValueError:weights-length"
  else if anyNeg weights then throw "model:negative-weight"
  else if sumRat weights ≤ 0 then throw "ValueError:total-weight"
  else pure ()

/-- the value returned for one scripted entry -/
def Req.answer (r : Req) (e : Entry) : M Rat :=
  match r, e with
  | .choices vs ws, .idx i => do
    choicesGuard vs ws
    match vs[i]? with
    | some v => pure v
    | none => throw "tape:index-out-of-range"
  | .choice vs, .idx i =>
    match vs[i]? with
    | some v => pure v
    | none => throw "IndexError:choice"
  | .rvs c, .val v => pure (c.post * v)
  | _, _ => throw "tape:entry-kind-mismatch"

/-- `(wᵢ / total, idx i, vᵢ)` for the elements from position `i` on -/
def choicesOpts (total : Rat) : Nat → List Rat → List Rat → List (Rat × Entry × Rat)
  | i, v :: vs, w :: ws => (w / total, .idx i, v) :: choicesOpts total (i + 1) vs ws
  | _, _, _ => []

def choiceOpts (cnt : Nat) : Nat → List Rat → List (Rat × Entry × Rat)
  | i, v :: vs => ((1 : Rat) / (cnt : Rat), .idx i, v) :: choiceOpts cnt (i + 1) vs
  | _, [] => []

/-- all answers of a *discrete* source with their probabilities.  `strict`: additionally refuse
    `random.choices` weights that do not sum to one (used by the theorem, not by the executable). -/
def Req.options (strict : Bool) (r : Req) : M (List (Rat × Entry × Rat)) :=
  match r with
  | .choices vs ws => do
    choicesGuard vs ws
    if strict && sumRat ws != 1 then throw "strict:weights-not-normalised"
    pure (choicesOpts (sumRat ws) 0 vs ws)
  | .choice vs =>
    if vs.isEmpty then throw "IndexError:choice" else pure (choiceOpts vs.length 0 vs)
  | .rvs c =>
    match c.fn, c.shape with
    | "bernoulli", [.q p] => pure [(p, .val 1, c.post * 1), (1 - p, .val 0, c.post * 0)]
    | _, _ => throw "continuous-draw"

def evalList (σ : State) : List Expr → M (List Rat)
  | [] => pure []
  | e :: es => do
    let v ← evalExpr σ e
    let vs ← evalList σ es
    pure (v :: vs)

def intRange (lo : Int) : Nat → List Rat
  | 0 => []
  | k + 1 => (lo : Rat) :: intRange (lo + 1) k

/-- `evaluate_right_side`: everything up to the call of the random source -/
def rhsRequest (σ : State) : Rhs → M Req
  | .expr e => do
    let v ← evalExpr σ e
    pure (.choices [v] [1])
  | .choice alts => do
    let ws ← evalList σ (alts.map (·.2))
    let vs ← evalList σ (alts.map (·.1))
    pure (.choices vs ws)
  | .dist name params =>
    if name = "Categorical" then do
      let ws ← evalList σ params
      pure (.choices (intRange 0 ws.length) ws)
    else if name = "DiscreteUniform" then
      match params with
      | [a, b] => do
        -- the constructor needs integer literals: evaluated once, without a state
        let lo ← evalExpr [] a
        let hi ← evalExpr [] b
        if lo.den ≠ 1 ∨ hi.den ≠ 1 then throw "RuntimeError:discrete-uniform-integer-parameters"
        else pure (.choice (intRange lo.num (hi.num + 1 - lo.num).toNat))
      | _ => throw "RuntimeError:discrete-uniform-arity"
    else do
      let ps ← evalList σ params
      match samplerCall name ps with
      | some c => pure (.rvs c)
      | none => throw s!"RuntimeError:distribution:{name}"

/-! ## the interpreter driven by a tape -/

/-- `Assignment.evaluate` -/
def simAssign (x : String) (rhs : Rhs) (g : Cond) (d : String) (σ : State) (tape : Tape) : M (State × Tape) := do
  let c ← evalCond σ g
  if c then
    let r ← rhsRequest σ rhs
    match tape with
    | [] => throw "tape:exhausted"
    | e :: tape' => do
      let v ← r.answer e
      pure (σ.set x v, tape')
  else
    match σ.get? d with
    | some v => pure (σ.set x v, tape)
    | none => throw s!"EvaluationException:unset-default:{d}"

/-- plain assignments executed in order -/
def simAssigns : List (String × Rhs) → State → Tape → M (State × Tape)
  | [], σ, tape => pure (σ, tape)
  | (x, r) :: rest, σ, tape => do
    let (σ', tape') ← simAssign x r .tt x σ tape
    simAssigns rest σ' tape'

def tmpNames (tmp : Nat → String) : Nat → Nat → List String
  | _, 0 => []
  | i, k + 1 => tmp i :: tmpNames tmp (i + 1) k

/-- `_assign_simult`, first list (`assignments1`): `t_i = r_i` for all i -/
def simultTemps (tmp : Nat → String) (xs : List String) (rhss : List Rhs) : List (String × Rhs) :=
  (tmpNames tmp 0 xs.length).zip rhss

/-- `_assign_simult`, second list (`assignments2`): `x_i = t_i` for all i.  The parser returns
    `assignments1 + assignments2`; executing that list is executing the first and then the second. -/
def simultCopies (tmp : Nat → String) (xs : List String) : List (String × Rhs) :=
  xs.zip ((tmpNames tmp 0 xs.length).map (fun t => Rhs.expr (.var t)))

mutual
/-- `Simulator.execute` on one program element -/
def simStmt (tmp : Nat → String) (st : Stmt) (σ : State) (tape : Tape) : M (State × Tape) :=
  match st with
  | .assign x rhs g d => simAssign x rhs g d σ tape
  | .simult xs rhss =>
    if xs.length ≠ rhss.length then throw "ParseException:simult-arity"
    else do
      let (σ₁, tape₁) ← simAssigns (simultTemps tmp xs rhss) σ tape
      simAssigns (simultCopies tmp xs) σ₁ tape₁
  | .ite c t e => do
    let v ← evalCond σ c
    if v then simBlock tmp t σ tape else simBlock tmp e σ tape

/-- `Simulator.execute` on a list -/
def simBlock (tmp : Nat → String) (b : List Stmt) (σ : State) (tape : Tape) : M (State × Tape) :=
  match b with
  | [] => pure (σ, tape)
  | s :: rest => do
    let (σ', tape') ← simStmt tmp s σ tape
    simBlock tmp rest σ' tape'
end

/-- one loop iteration of `Simulator.simulate` -/
def simIter (tmp : Nat → String) (P : Program) (σ : State) (tape : Tape) : M (State × Tape) := do
  let g ← evalCond σ P.guard
  if g then simBlock tmp P.body σ tape else pure (σ, tape)

def simIterN (tmp : Nat → String) (P : Program) : Nat → State → Tape → M (State × Tape)
  | 0, σ, tape => pure (σ, tape)
  | n + 1, σ, tape => do
    let (σ', tape') ← simIter tmp P σ tape
    simIterN tmp P n σ' tape'

/-- `Simulator(n).simulate(program, goals, 1)`: the last state of the single run and the unread tape.
    The real simulator starts from the empty dict (`σ₀ = []`). -/
def simRun (tmp : Nat → String) (P : Program) (n : Nat) (σ₀ : State) (tape : Tape) : M (State × Tape) := do
  let (σ, tape') ← simBlock tmp P.init σ₀ tape
  simIterN tmp P n σ tape'

/-! ## enumeration of all tapes of a discrete program -/

/-- probability, consumed tape, resulting state -/
abbrev PathS := Rat × Tape × State

def extend (w : Rat) (t : Tape) : List PathS → List PathS
  | [] => []
  | (w', t', σ') :: rest => (w * w', t ++ t', σ') :: extend w t rest

/-- continue every path with `f` (weights multiply, tapes concatenate) -/
def bindPaths : List PathS → (State → M (List PathS)) → M (List PathS)
  | [], _ => pure []
  | (w, t, σ) :: ds, f => do
    let a ← f σ
    let b ← bindPaths ds f
    pure (extend w t a ++ b)

def assignOpts (σ : State) (x : String) : List (Rat × Entry × Rat) → List PathS
  | [] => []
  | (w, e, v) :: rest => (w, [e], σ.set x v) :: assignOpts σ x rest

def pathsAssign (strict : Bool) (x : String) (rhs : Rhs) (g : Cond) (d : String) (σ : State) : M (List PathS) := do
  let c ← evalCond σ g
  if c then
    let r ← rhsRequest σ rhs
    let opts ← r.options strict
    pure (assignOpts σ x opts)
  else
    match σ.get? d with
    | some v => pure [(1, [], σ.set x v)]
    | none => throw s!"EvaluationException:unset-default:{d}"

def pathsAssigns (strict : Bool) : List (String × Rhs) → State → M (List PathS)
  | [], σ => pure [(1, [], σ)]
  | (x, r) :: rest, σ => do
    let d ← pathsAssign strict x r .tt x σ
    bindPaths d (fun σ' => pathsAssigns strict rest σ')

mutual
def pathsStmt (strict : Bool) (tmp : Nat → String) (st : Stmt) (σ : State) : M (List PathS) :=
  match st with
  | .assign x rhs g d => pathsAssign strict x rhs g d σ
  | .simult xs rhss =>
    if xs.length ≠ rhss.length then throw "ParseException:simult-arity"
    else do
      let d ← pathsAssigns strict (simultTemps tmp xs rhss) σ
      bindPaths d (pathsAssigns strict (simultCopies tmp xs))
  | .ite c t e => do
    let v ← evalCond σ c
    if v then pathsBlock strict tmp t σ else pathsBlock strict tmp e σ

def pathsBlock (strict : Bool) (tmp : Nat → String) (b : List Stmt) (σ : State) : M (List PathS) :=
  match b with
  | [] => pure [(1, [], σ)]
  | s :: rest => do
    let d ← pathsStmt strict tmp s σ
    bindPaths d (fun σ' => pathsBlock strict tmp rest σ')
end

def pathsIter (strict : Bool) (tmp : Nat → String) (P : Program) (σ : State) : M (List PathS) := do
  let g ← evalCond σ P.guard
  if g then pathsBlock strict tmp P.body σ else pure [(1, [], σ)]

def pathsIterN (strict : Bool) (tmp : Nat → String) (P : Program) : Nat → List PathS → M (List PathS)
  | 0, d => pure d
  | n + 1, d => do
    let d' ← bindPaths d (pathsIter strict tmp P)
    pathsIterN strict tmp P n d'

/-- every tape of `n` iterations with its probability and the final state it leads to -/
def simPaths (strict : Bool) (tmp : Nat → String) (P : Program) (n : Nat) (σ₀ : State) : M (List PathS) := do
  let d₀ ← pathsBlock strict tmp P.init σ₀
  pathsIterN strict tmp P n d₀

/-- the temporaries of the executable: `_t0, _t1, ..` -/
def defaultTmp (i : Nat) : String := s!"_t{i}"

end Polar.Sim
