/-
  Polar/ValidateSim.lean — V3: per-instance translation validation for ALL n (property C02).

  `checkSameStep cap Γ V P P'` compares two programs (two consecutive snapshots of the normalisation pipeline, or the
  source and the final program) by SYMBOLIC execution of the reference semantics (see `Polar/Validate.lean`):

  * observed tuple  `O = V ++ (typed variables of Γ)`  (`V`: the source variables; `Γ`: finite types of variables
    that occur in both programs and that BOTH init blocks establish — the check verifies that, see (0));
  * (i)  init: both init blocks are run from the all-symbolic store; the weighted outcomes projected to `O`
         (values as normalised polynomials) carry the same total weight on every projection, the projections of
         non-zero weight mention only the symbols of `V`, and every Γ-variable is a constant of its set;
  * (ii) step: for EVERY Γ-assignment of the typed variables (all other variables symbolic; variables that exist
         only in one program — auxiliaries — are symbols of their own), the same three conditions for `iter P` and
         `iter P'`.  Since the projections may only mention `V`-symbols, no information is carried across an
         iteration boundary by anything but the observed variables.
  * (0)  is part of (i)/(ii): Γ is an inductive invariant of both programs (cf. `checkInductive` with Γ0 = Γ).

  Soundness (`PolarProofs/ValidateSim.lean`, `checkSameStep_sound`): accepted ⇒ for every n and all concrete initial
  stores that agree on `V`, the runs `run P false n σ₀` and `run P' false n σ₀'` have the same joint law over `O`
  (same expectation of every test function of the observed tuple), in particular the same moments E(M), M over `V`.

  Fragment (`FragmentI`): guarded assignments and nested `ite`; right sides expression / choice / Bernoulli /
  Categorical / DiscreteUniform.  No `simult` (the parser desugars it), no continuous draws.
-/
import Polar.Validate

namespace Polar
namespace Validate

/-! ### the fragment with `ite` -/

mutual
def stmtOKI : Stmt → Bool
  | .assign _ rhs _ _ => rhsOK rhs
  | .simult _ _ => false
  | .ite _ t e => blockOKI t && blockOKI e
def blockOKI : List Stmt → Bool
  | [] => true
  | s :: r => stmtOKI s && blockOKI r
end

def FragmentI (P : Program) : Bool := blockOKI P.init && blockOKI P.body

mutual
def stmtVarsI : Stmt → List String
  | .assign x rhs g d => x :: d :: (rhsVars rhs ++ condVars g)
  | .simult xs _ => xs
  | .ite c t e => condVars c ++ blockVarsI t ++ blockVarsI e
def blockVarsI : List Stmt → List String
  | [] => []
  | s :: r => stmtVarsI s ++ blockVarsI r
end

/-- the names that get a symbol in the start store of `P` (soundness does not depend on this list being complete;
    an incomplete list only makes the symbolic run refuse with `unset`) -/
def symVarsI (O : List String) (P : Program) : List String :=
  (blockVarsI P.init ++ condVars P.guard ++ blockVarsI P.body).eraseDups ++ O

/-! ### projections and their weights -/

/-- the normalised values of the observed variables, in order -/
abbrev Key := List MPoly

def projKey (s : Store) : List String → Option Key
  | [] => some []
  | x :: xs =>
    match s.get? x, projKey s xs with
    | some v, some k => some (MPoly.normalize v :: k)
    | _, _ => none

def projList (O : List String) : WD → Option (List (Key × Rat))
  | [] => some []
  | (w, q) :: t =>
    match projKey q.vals O, projList O t with
    | some k, some l => some ((k, w) :: l)
    | _, _ => none

/-- total weight of a projection -/
def mass (l : List (Key × Rat)) (k : Key) : Rat :=
  l.foldr (fun (kw : Key × Rat) acc => if kw.1 = k then kw.2 + acc else acc) 0

/-- the two weighted lists are the same finite map projection ↦ weight -/
def firstDiff (l l' : List (Key × Rat)) : Option (Key × Rat × Rat) :=
  ((l ++ l').find? (fun kw => mass l kw.1 != mass l' kw.1)).map (fun kw => (kw.1, mass l kw.1, mass l' kw.1))

def monoOver (V : List String) (m : Mono) : Bool := m.all (fun xe => V.contains xe.1)
def polyOver (V : List String) (p : MPoly) : Bool := p.all (fun t => monoOver V t.1)

/-- first projection of non-zero weight that mentions a symbol outside `V` -/
def firstForeign (V : List String) (l : List (Key × Rat)) : Option (Key × Rat) :=
  l.find? (fun kw => !(kw.2 == 0 || kw.1.all (polyOver V)))

/-- every listed name is set on every path -/
def definedAll (xs : List String) (D : WD) : Bool :=
  D.all (fun wq => xs.all (fun x => (wq.2.vals.get? x).isSome))

/-! ### the check -/

structure SimCex where
  stage : String            -- "init" | "step"
  kind : String             -- "weights-differ" | "foreign-symbol" | "type-violated"
  assign : Assign
  projection : Key
  weightP : Rat
  weightQ : Rat
  deriving Inhabited

/-- compare the outcomes of the two programs started from their symbolic stores -/
def compareAt (Γ : TypeEnv) (O V : List String) (xs xs' : List String) (stage : String) (a : Assign)
    (D D' : WD) : M (Option SimCex) :=
  if (definedAll xs D && definedAll xs' D') = false then throw "validate: a variable became unset"
  else
    match projList O D, projList O D' with
    | some l, some l' =>
      match badPath Γ D, badPath Γ D' with
      | some wp, _ => pure (some ⟨stage, "type-violated", a, (projKey wp.2.vals O).getD [], wp.1, 0⟩)
      | none, some wp => pure (some ⟨stage, "type-violated", a, (projKey wp.2.vals O).getD [], 0, wp.1⟩)
      | none, none =>
        match firstForeign V l with
        | some kw => pure (some ⟨stage, "foreign-symbol", a, kw.1, kw.2, mass l' kw.1⟩)
        | none =>
          match firstDiff l l' with
          | some d => pure (some ⟨stage, "weights-differ", a, d.1, d.2.1, d.2.2⟩)
          | none => pure none
    | _, _ => throw "validate: an observed variable is unset"

def obsVars (Γ : TypeEnv) (V : List String) : List String := V ++ Γ.map (·.1)

def sameStepAt (Γ : TypeEnv) (V : List String) (P P' : Program) (a : Assign) : M (Option SimCex) := do
  let O := obsVars Γ V
  let xs := symVarsI O P
  let xs' := symVarsI O P'
  let D ← iter P ⟨assignStore (freeStore xs) a, []⟩
  let D' ← iter P' ⟨assignStore (freeStore xs') a, []⟩
  compareAt Γ O V xs xs' "step" a D D'

def admissibleI (cap : Nat) (Γ : TypeEnv) (P P' : Program) : M Unit :=
  if (FragmentI P && FragmentI P') = false then
    throw "validate: program outside the fragment (simult / continuous draw)"
  else if Γ.any (fun e => e.2.isEmpty) = true then throw "validate: empty type"
  else if cap < card Γ then throw s!"validate: {card Γ} type states exceed the cap {cap}"
  else pure ()

def sameStepCex (cap : Nat) (Γ : TypeEnv) (V : List String) (P P' : Program) : M (Option SimCex) := do
  admissibleI cap Γ P P'
  let O := obsVars Γ V
  let xs := symVarsI O P
  let xs' := symVarsI O P'
  let D0 ← execBlock P.init ⟨freeStore xs, []⟩
  let D0' ← execBlock P'.init ⟨freeStore xs', []⟩
  match ← compareAt Γ O V xs xs' "init" [] D0 D0' with
  | some c => pure (some c)
  | none => firstFail (sameStepAt Γ V P P') (enumΓ Γ)

def checkSameStep (cap : Nat) (Γ : TypeEnv) (V : List String) (P P' : Program) : M Bool := do
  pure (← sameStepCex cap Γ V P P').isNone

/-- the default Γ of the protocol: the typed variables that both init blocks assign -/
def initAssignedI (P : Program) : List String :=
  P.init.filterMap (fun st => match st with
    | .assign x _ _ _ => some x
    | _ => none)

def commonInitTypes (Γ : TypeEnv) (P P' : Program) : TypeEnv :=
  Γ.filter (fun e => (initAssignedI P).contains e.1 && (initAssignedI P').contains e.1)

end Validate
end Polar
