/-
  Polar/Dist.lean — raw moments of the supported distribution families, written from the textbook
  recurrences (the *specification* of "true moment", see DESIGN §C08), independent of Polar's formulas.
-/
import Polar.Poly

namespace Polar

structure Atom where
  family : String
  params : List Rat
  deriving DecidableEq, Inhabited, Repr

def factorial : Nat → Nat
  | 0 => 1
  | n + 1 => (n + 1) * factorial n

def choose : Nat → Nat → Nat
  | _, 0 => 1
  | 0, _ + 1 => 0
  | n + 1, k + 1 => choose n k + choose n (k + 1)

/-- Normal(μ, σ²): m₀ = 1, m₁ = μ, m_{k+2} = μ m_{k+1} + (k+1) σ² m_k -/
def normalMoment (mu s2 : Rat) : Nat → Rat
  | 0 => 1
  | 1 => mu
  | k + 2 => mu * normalMoment mu s2 (k + 1) + ((k : Rat) + 1) * s2 * normalMoment mu s2 k

/-- Uniform(a, b): m_k = (Σ_{i ≤ k} a^i b^(k−i)) / (k+1)  (= (b^{k+1} − a^{k+1}) / ((k+1)(b−a))) -/
def uniformMoment (a b : Rat) (k : Nat) : Rat :=
  ((List.range (k + 1)).foldl (fun acc i => acc + a ^ i * b ^ (k - i)) 0) / ((k : Rat) + 1)

/-- Exponential(λ): k! / λ^k -/
def exponentialMoment (lam : Rat) (k : Nat) : Rat := (factorial k : Rat) / lam ^ k

/-- Laplace(0, b): odd moments 0, even moments k!·b^k -/
def laplace0Moment (b : Rat) (k : Nat) : Rat :=
  if k % 2 = 1 then 0 else (factorial k : Rat) * b ^ k

/-- Laplace(μ, b) by the binomial theorem over Laplace(0, b) -/
def laplaceMoment (mu b : Rat) (k : Nat) : Rat :=
  (List.range (k + 1)).foldl (fun acc j => acc + (choose k j : Rat) * mu ^ (k - j) * laplace0Moment b j) 0

/-- Gamma(shape k₀, scale θ): m_{j+1} = θ (k₀ + j) m_j -/
def gammaMoment (k0 theta : Rat) : Nat → Rat
  | 0 => 1
  | j + 1 => theta * (k0 + (j : Rat)) * gammaMoment k0 theta j

/-- Beta(a, b): m_{j+1} = (a + j)/(a + b + j) · m_j -/
def betaMoment (a b : Rat) : Nat → Rat
  | 0 => 1
  | j + 1 => (a + (j : Rat)) / (a + b + (j : Rat)) * betaMoment a b j

/-- Bernoulli(p): m₀ = 1, m_k = p -/
def bernoulliMoment (p : Rat) : Nat → Rat
  | 0 => 1
  | _ + 1 => p

/-- finitely supported law given as (probability, value) pairs -/
def finiteMoment (pv : List (Rat × Rat)) (k : Nat) : Rat :=
  pv.foldr (fun (x : Rat × Rat) acc => x.1 * x.2 ^ k + acc) 0

def categoricalPV (ps : List Rat) : List (Rat × Rat) :=
  (List.range ps.length).zipWith (fun (i : Nat) (p : Rat) => (p, (i : Rat))) ps

def discreteUniformPV (lo hi : Int) : List (Rat × Rat) :=
  let cnt := (hi - lo + 1).toNat
  (List.range cnt).map (fun (i : Nat) => ((1 : Rat) / (cnt : Rat), (lo : Rat) + (i : Rat)))

def momentSpec (a : Atom) (k : Nat) : Option Rat :=
  match a.family, a.params with
  | "Normal", [mu, s2] => some (normalMoment mu s2 k)
  | "Uniform", [lo, hi] => some (uniformMoment lo hi k)
  | "Exponential", [lam] => if lam = 0 then none else some (exponentialMoment lam k)
  | "Laplace", [mu, b] => some (laplaceMoment mu b k)
  | "Gamma", [k0, th] => some (gammaMoment k0 th k)
  | "Beta", [x, y] => some (betaMoment x y k)
  | "Bernoulli", [p] => some (bernoulliMoment p k)
  | "Categorical", ps => some (finiteMoment (categoricalPV ps) k)
  | "DiscreteUniform", [lo, hi] =>
    if lo.den = 1 ∧ hi.den = 1 ∧ lo ≤ hi then some (finiteMoment (discreteUniformPV lo.num hi.num) k) else none
  | _, _ => none

end Polar
