/-
  Polar/OpsBN.lean — line-protocol operations of the Bayesian-network model (C15).

  Raw network JSON:
    {"tol":"1/1000",
     "vars":[{"name":"A","types":[[2,["a","b"]]]}, …],
     "cpts":[{"child":"X","parents":["A"],"items":[["default",[q…]],["table",[q…]],["entry",["a"],[q…]]]}, …]}
-/
import Polar.Ops
import Polar.BayesNet

namespace Polar
open Lean Polar.BN

def decStrList (j : Json) : D (List String) := do (← jArr j).mapM jStr
def decNatList (j : Json) : D (List Nat) := do (← jArr j).mapM jNat

def decRawVar (j : Json) : D RawVar := do
  let name ← jStr (← jField j "name")
  let types ← (← jArr (← jField j "types")).mapM (fun t => do
    match ← jArr t with
    | [n, vs] => pure ((← jNat n), (← decStrList vs))
    | _ => throw "bad type")
  pure { name, types }

def decItemWith {κ : Type} (decCond : Json → D κ) (j : Json) : D (Item κ) := do
  match ← jArr j with
  | [.str "default", p] => pure (.dflt (← decRatList p))
  | [.str "table", p] => pure (.table (← decRatList p))
  | [.str "entry", c, p] => pure (.entry (← decCond c) (← decRatList p))
  | [.str "property"] => pure .prop
  | _ => throw s!"bad item {j.compress}"

def decRawCpt (j : Json) : D RawCpt := do
  let child ← jStr (← jField j "child")
  let parents ← decStrList (← jField j "parents")
  let items ← (← jArr (← jField j "items")).mapM (decItemWith decStrList)
  pure { child, parents, items }

def decTol (j : Json) : D Rat := jRat (jFieldD j "tol" (Json.str "1/1000"))

def decRawNet (j : Json) : D (Except String Net) := do
  let vars ← (← jArr (← jField j "vars")).mapM decRawVar
  let cpts ← (← jArr (← jField j "cpts")).mapM decRawCpt
  pure (assembleNet (← decTol j) vars cpts)

def jsonNats (l : List Nat) : Json := Json.arr (l.map (fun (k : Nat) => Json.num k)).toArray
def jsonRats (l : List Rat) : Json := Json.arr (l.map jsonRat).toArray
def jsonRows (l : List (List Rat)) : Json := Json.arr (l.map jsonRats).toArray

def jsonNet (net : Net) : Json :=
  Json.arr (net.map (fun v => Json.mkObj [
    ("name", Json.str v.name),
    ("domain", Json.arr (v.domain.map Json.str).toArray),
    ("parents", jsonNats v.parents),
    ("rows", jsonRows v.cpt)])).toArray

/-- `bn_assemble`: raw file content → accepted network (tables, topological order, sanitised names) or
    the class of the first error -/
def opBnAssemble (j : Json) : D Json := do
  match ← decRawNet j with
  | .error m => pure (okJson [("accepted", Json.bool false), ("error", Json.str m)])
  | .ok net =>
    let topo := match topoOrder net with
      | some o => jsonNats o
      | none => Json.null
    let topoValid := match topoOrder net with
      | some o => isTopo net o
      | none => false
    pure (okJson [("accepted", Json.bool true), ("net", jsonNet net), ("topo", topo),
                  ("topo_valid", Json.bool topoValid), ("wf", Json.bool (Net.wf net)),
                  ("names", Json.arr (net.map (fun v => Json.str (sanitize v.name))).toArray)])

/-- `bn_cpt`: one CPT from its pieces (conditions as value indices) -/
def opBnCpt (j : Json) : D Json := do
  let tol ← decTol j
  let dom ← jNat (← jField j "dom")
  let pd ← decNatList (← jField j "pd")
  let items ← (← jArr (← jField j "items")).mapM (decItemWith decNatList)
  match scanItems items {} with
  | .error m => pure (okJson [("accepted", Json.bool false), ("error", Json.str m)])
  | .ok s =>
    match assembleCpt tol dom pd s with
    | .error m => pure (okJson [("accepted", Json.bool false), ("error", Json.str m)])
    | .ok rows => pure (okJson [("accepted", Json.bool true), ("rows", jsonRows rows)])

def needNet (j : Json) : D Net := do
  match ← decRawNet j with
  | .error m => throw s!"rejected:{m}"
  | .ok net => pure net

def decSigma (j : Json) : D St := do
  match jFieldD j "sigma" (Json.arr #[]) with
  | .arr a => do
    let l ← a.toList.mapM jNat
    pure (valAt l)
  | _ => throw "sigma must be an array"

/-- `bn_joint`: the joint table by enumeration and the law of one iteration of the generated program
    (mass at every assignment, started from state `sigma`) -/
def opBnJoint (j : Json) : D Json := do
  let net ← needNet j
  let σ ← decSigma j
  let asg := assignments net
  if asg.length > 70000 then throw "joint too large"
  let g := genLaw net σ
  pure (okJson [
    ("joint", Json.arr (asg.map (fun a => Json.arr #[jsonNats a, jsonRat (jointProb net (valAt a))])).toArray),
    ("gen", Json.arr (asg.map (fun a => Json.arr #[jsonNats a, jsonRat (massAt net.length g (valAt a))])).toArray),
    ("gen_outcomes", Json.num g.length)])

def findVarIdx (net : Net) (name : String) : D Nat :=
  let i := (net.map (·.name)).idxOf name
  if i < net.length then pure i else throw s!"unknown variable {name}"

def decEvidence (net : Net) (j : Json) : D (List (Nat × Nat)) := do
  (← jArr j).mapM (fun e => do
    match ← jArr e with
    | [.str x, .str v] =>
      let i ← findVarIdx net x
      let dom := match net[i]? with
        | some var => var.domain
        | none => []
      let k := dom.idxOf v
      if k < dom.length then pure (i, k) else throw s!"unknown value {v}"
    | _ => throw "bad evidence")

def optRat (num den : Rat) : Json := if den = 0 then Json.null else jsonRat (num / den)

/-- `bn_query`: specification values by enumeration (E(X^k | ev), P(ev), 1/P(ev)) and the model of what the
    generated program / the two queries compute -/
def opBnQuery (j : Json) : D Json := do
  let net ← needNet j
  let σ ← decSigma j
  let ev ← decEvidence net (← jField j "evidence")
  let nmax ← jNat (jFieldD j "nmax" (Json.num 4))
  let nprog ← jNat (jFieldD j "nprog" (Json.num 0))
  if (assignments net).length > 200000 then throw "joint too large"
  let pev := evidenceProb net ev
  let g := genLaw net σ
  let gpev := expectL g (ind ev)
  let base := [("pev", jsonRat pev), ("inv_pev", optRat 1 pev),
               ("count", jsonRats ((List.range (nmax + 1)).map (fun n => (countSeq pev n).1))),
               ("gen_pev", jsonRat gpev), ("gen_inv_pev", optRat 1 gpev),
               ("gen_count", jsonRats ((List.range (nmax + 1)).map (fun n => (countSeq gpev n).1))),
               ("exp_count", jsonRats ((List.range (nprog + 1)).map (fun n => expCount net ev n (σ, 1, 1))))]
  match jFieldD j "target" Json.null with
  | .str tname =>
    let t ← findVarIdx net tname
    let k ← jNat (← jField j "k")
    let num := expect net (fun a => ind ev a * ((a t : Nat) : Rat) ^ k)
    let gden := expectL g (ind ev)
    let gnum := if k = 0 then gden else expectL g (fun τ => (((τ t : Nat) : Rat) * ind ev τ) ^ k)
    pure (okJson (base ++ [("cond", optRat num pev), ("gen_cond", optRat gnum gden),
                           ("gen_num", jsonRat gnum), ("gen_den", jsonRat gden)]))
  | _ => pure (okJson base)

def bnOps : List (String × (Json → D Json)) :=
  [("bn_assemble", opBnAssemble), ("bn_cpt", opBnCpt), ("bn_joint", opBnJoint), ("bn_query", opBnQuery)]

end Polar
