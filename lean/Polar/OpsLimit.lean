import Polar.Limit
import Polar.OpsLinAlg
import Polar.Ops

namespace Polar
open Lean Polar.LinAlg Polar.Limit

def decTermsRat (j : Json) : D (List (ExpTerm)) := do
  (← jArr j).mapM (fun t => do
    pure { coef := ← jRat (← jField t "coef"), deg := ← jNat (← jField t "deg"), base := ← jRat (← jField t "base") })

/-- `ratio_limit`: lim num(n)/den(n) for exponential polynomials with rational bases -/
def opRatioLimit (j : Json) : D Json := do
  let num ← decTermsRat (← jField j "num")
  let den ← decTermsRat (← jField j "den")
  match ratioLimit num den with
  | .finite v => pure (okJson [("kind", Json.str "finite"), ("value", jsonRat v)])
  | .infinite => pure (okJson [("kind", Json.str "infinite")])
  | .undefinedDen => pure (okJson [("kind", Json.str "undefined-denominator")])
  | .oscillates => pure (okJson [("kind", Json.str "oscillates")])

def limitOps : List (String × (Json → D Json)) := [("ratio_limit", opRatioLimit)]

end Polar
