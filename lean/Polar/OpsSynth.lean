/-
  Polar/OpsSynth.lean — line-protocol ops of the C14 certificate checker (`Polar/Synth.lean`).

  synth_check      {"program":P, "sigma0":{x:"p/q",..}, "Q":poly, "k":"p/q", "R":poly,
                    "f": {"terms":[{"coef","deg","base"},..], ["D":"p/q"]} | {"values":[..],"degs":[..]} | null,
                    "nmax":N (default 5), "fuel":F (default 300)}
                   → {"mode":"fragment"|"semantics", "onestep_agree":bool|null,
                      "identity":bool, "residual":poly, "closed":bool, "dim":d, "system_ok":bool,
                      "u":[E(Q)(0..N)], "cf":{"agree","window","first_bad"}|null}
        identity   : oneStep(Q) = k·Q + R as polynomials (`checkSynth`)
        closed     : the monomials of R generate a finite system under the one-step operator
        system_ok  : `checkSystem` accepts the assembled system (component 0 = Q)
        u          : (A^n v)_0, v = initial vector from the init block at sigma0
        cf         : `cfiniteCheck A v 0 0 f` — agreement for every n by `cfiniteCheck_sound`
  synth_loop_check {"source":P, "target":P', "sigma0":{..}, "sigma0_target":{..},
                    "phi":{y: poly over source variables, ..}, "monos":[mono over target variables,..],
                    "nmax":N, "fuel":F}
                   → {"mode_source","mode_target","closed","dim","target_system_ok","source_system_ok",
                      "init_equal","init_source":[..],"init_target":[..],"bad_rows":[i,..],"elems":[poly,..],
                      "values":[[(A^n v)_i for n ≤ N] per requested mono]}
  synth_onestep    {"program":P, "polys":[poly,..], ["block":"body"|"init"]}
                   → {"mode", "wp":[poly|null,..], "sem":[poly|null,..]}

  poly = [[mono, "p/q"], ..], mono = [[var, exp], ..].  `mode` = "fragment" when the program lies in the
  fragment whose one-step operator is proved sound (`PolarProofs/Synth.lean`); otherwise the one-step
  polynomial is computed by the reference semantics `Polar.execBlock` on a symbolic store.
-/
import Polar.Ops
import Polar.OpsLinAlg
import Polar.Synth

namespace Polar.SynthOps
open Lean Polar Polar.LinAlg Polar.Synth

def decPoly (j : Json) : D MPoly := do
  let l ← jArr j
  let ts ← l.mapM (fun t => do
    match ← jArr t with
    | [m, c] => pure ((← decMono m), (← jRat c))
    | _ => throw s!"bad term {t.compress}")
  pure (MPoly.normalize ts)

def jsonMono (m : Mono) : Json :=
  Json.arr (m.map (fun (p : String × Nat) => Json.arr #[Json.str p.1, Json.num p.2])).toArray

def jsonPoly (p : MPoly) : Json :=
  Json.arr (p.map (fun (t : Term) => Json.arr #[jsonMono t.1, jsonRat t.2])).toArray

def decSigma (j : Json) : D (List (String × Rat)) := do
  match j with
  | .obj kvs => kvs.toList.mapM (fun (kv : String × Json) => do pure (kv.1, ← jRat kv.2))
  | _ => throw "sigma0 must be an object"

def sigmaFn (l : List (String × Rat)) : St := fun x =>
  match l.find? (fun (p : String × Rat) => p.1 == x) with
  | some p => p.2
  | none => 0

/-! variables of a program -/

def exprVars : Expr → List String
  | .num _ => []
  | .var x => [x]
  | .add a b => exprVars a ++ exprVars b
  | .sub a b => exprVars a ++ exprVars b
  | .mul a b => exprVars a ++ exprVars b
  | .neg a => exprVars a
  | .pow a _ => exprVars a
  | .div a b => exprVars a ++ exprVars b

def condVars : Cond → List String
  | .tt => []
  | .ff => []
  | .cmp _ l r => exprVars l ++ exprVars r
  | .not c => condVars c
  | .and a b => condVars a ++ condVars b
  | .or a b => condVars a ++ condVars b

def rhsVars : Rhs → List String
  | .expr e => exprVars e
  | .choice alts => alts.flatMap (fun (ep : Expr × Expr) => exprVars ep.1 ++ exprVars ep.2)
  | .dist _ ps => ps.flatMap exprVars

mutual
def stmtVars : Stmt → List String
  | .assign x rhs g d => x :: d :: (rhsVars rhs ++ condVars g)
  | .simult xs rhss => xs ++ rhss.flatMap rhsVars
  | .ite c t e => condVars c ++ stmtsVars t ++ stmtsVars e
def stmtsVars : List Stmt → List String
  | [] => []
  | s :: rest => stmtVars s ++ stmtsVars rest
end

def progVars (P : Program) (extra : List String) : List String :=
  (stmtsVars P.init ++ condVars P.guard ++ stmtsVars P.body ++ extra).eraseDups

/-- one-step operators of a program: (mode, step over the body, step over the init block, agreement
    of the two computations on a probe list when both exist) -/
structure Steps where
  mode : String
  body : MPoly → MPoly
  init : MPoly → MPoly
  wpBody : Option (MPoly → MPoly)
  semBody : Option (MPoly → MPoly)
  frag : Option SProg

def semStep (block : List Stmt) (vars : List String) (p : MPoly) : MPoly :=
  match semOneStep block vars p with
  | .ok r => r
  | .error _ => []

def semOK (block : List Stmt) (vars : List String) : Bool :=
  match semOneStep block vars (vars.map (fun x => ([(x, 1)], (1 : Rat)))) with
  | .ok _ => true
  | .error _ => false

def mkSteps (P : Program) (vars : List String) : D Steps := do
  let sem := isTT P.guard && semOK P.body vars && semOK P.init vars
  let semB : Option (MPoly → MPoly) := if sem then some (semStep P.body vars) else none
  match progFrag vars P with
  | some F =>
    pure { mode := "fragment", body := oneStepPoly F.body, init := oneStepPoly F.init,
           wpBody := some (oneStepPoly F.body), semBody := semB, frag := some F }
  | none =>
    if sem then
      pure { mode := "semantics", body := semStep P.body vars, init := semStep P.init vars,
             wpBody := none, semBody := semB, frag := none }
    else throw "outside-model: neither in the polynomial fragment nor symbolically executable"

def polyVars (p : MPoly) : List String := p.flatMap (fun (t : Term) => t.1.map (fun (q : String × Nat) => q.1))

def agreeOn (S : Steps) (ps : List MPoly) : Option Bool :=
  match S.wpBody, S.semBody with
  | some f, some g => some (ps.all (fun p => MPoly.normalize (f p) == MPoly.normalize (g p)))
  | _, _ => none

def jsonOptBool : Option Bool → Json
  | some b => Json.bool b
  | none => Json.null

def getNatD (j : Json) (k : String) (d : Nat) : Nat :=
  match (jFieldD j k (Json.num d)).getNat? with
  | .ok b => b
  | .error _ => d

def uSeq (A : Mat) (v : Vec) (nmax : Nat) : List Rat := (seqUpTo A v nmax).map (fun w => w.getD 0 0)

def opSynthCheck (j : Json) : D Json := do
  let P ← decProgram (← jField j "program")
  let σl ← decSigma (← jField j "sigma0")
  let q ← decPoly (← jField j "Q")
  let k ← jRat (← jField j "k")
  let r ← decPoly (← jField j "R")
  let nmax := getNatD j "nmax" 5
  let fuel := getNatD j "fuel" 300
  let vars := progVars P (polyVars q ++ polyVars r)
  let S ← mkSteps P vars
  let σ₀ := sigmaFn σl
  let lhs := MPoly.normalize (S.body q)
  let rhs := MPoly.normalize (MPoly.add (MPoly.scale k q) r)
  let identity := match S.frag with
    | some F => checkSynth F.body q k r
    | none => lhs == rhs
  let residual := MPoly.normalize (MPoly.sub lhs rhs)
  let base := [("mode", Json.str S.mode), ("identity", Json.bool identity), ("residual", jsonPoly residual),
               ("onestep", jsonPoly lhs)]
  match synthSystem S.body q k r fuel with
  | .error e =>
    pure (okJson (base ++ [("closed", Json.bool false), ("why", Json.str e),
                           ("onestep_agree", jsonOptBool (agreeOn S [q]))]))
  | .ok sys =>
    let sysOK := match S.frag with
      | some F => checkSystem F.body sys.elems sys.A
      | none => checkRowsG S.body sys.elems sys.elems sys.A
    let v : Vec := sys.elems.map (fun p => MPoly.eval σ₀ (S.init p))
    let u := uSeq sys.A v nmax
    let fj := jFieldD j "f" Json.null
    let cf ← match fj with
      | .null => pure Json.null
      | _ =>
        if jHas fj "terms" then do
          let tj ← jArr (← jField fj "terms")
          if jHas fj "D" then do
            let Dq ← jRat (← jField fj "D")
            let ts ← tj.mapM decExpTermQD
            match cfiniteCheckQD Dq sys.A v 0 0 ts with
            | .ok res => pure (checkAnswer jsonQD res)
            | .error e => pure (errJson e)
          else do
            let ts ← tj.mapM decExpTerm
            match cfiniteCheck sys.A v 0 0 ts with
            | .ok res => pure (checkAnswer jsonRat res)
            | .error e => pure (errJson e)
        else if jHas fj "values" then do
          let vals ← decRatList (← jField fj "values")
          let degs ← (← jArr (← jField fj "degs")).mapM jNat
          match cfiniteCheckValues sys.A v 0 0 vals degs with
          | .ok res => pure (checkAnswer jsonRat res)
          | .error e => pure (errJson e)
        else throw "synth_check: f needs \"terms\" or \"values\"+\"degs\""
    pure (okJson (base ++ [("closed", Json.bool true), ("dim", jsonNat sys.A.length),
      ("system_ok", Json.bool sysOK), ("onestep_agree", jsonOptBool (agreeOn S sys.elems)),
      ("elems", Json.arr (sys.elems.map jsonPoly).toArray),
      ("A", jsonRatRows sys.A), ("v", Json.arr (v.map jsonRat).toArray),
      ("u", Json.arr (u.map jsonRat).toArray), ("cf", cf)]))

def decPhi (j : Json) : D (List (String × MPoly)) := do
  match j with
  | .obj kvs => kvs.toList.mapM (fun (kv : String × Json) => do pure (kv.1, ← decPoly kv.2))
  | _ => throw "phi must be an object"

def phiFn (l : List (String × MPoly)) : String → Option MPoly := fun x =>
  match l.find? (fun (p : String × MPoly) => p.1 == x) with
  | some p => some p.2
  | none => none

def opSynthLoopCheck (j : Json) : D Json := do
  let P ← decProgram (← jField j "source")
  let T ← decProgram (← jField j "target")
  let σs := sigmaFn (← decSigma (← jField j "sigma0"))
  let σt := sigmaFn (← decSigma (← jField j "sigma0_target"))
  let phi ← decPhi (← jField j "phi")
  let monos ← (← jArr (← jField j "monos")).mapM decMono
  let nmax := getNatD j "nmax" 5
  let fuel := getNatD j "fuel" 300
  let varsT := progVars T (monos.flatMap (fun m => m.map (fun (p : String × Nat) => p.1)))
  let varsP := progVars P (phi.flatMap (fun (p : String × MPoly) => polyVars p.2))
  let ST ← mkSteps T varsT
  let SP ← mkSteps P varsP
  match closeMonos ST.body fuel monos [] with
  | none => pure (okJson [("closed", Json.bool false), ("mode_source", Json.str SP.mode),
                         ("mode_target", Json.str ST.mode)])
  | some ms =>
    let elemsT : List MPoly := ms.map (fun m => [(m, (1 : Rat))])
    let A : Mat := ms.map (fun m => rowOver ms (MPoly.normalize (ST.body [(m, 1)])))
    let elemsP : List MPoly := elemsT.map (fun p => MPoly.normalize (MPoly.subst (phiFn phi) p))
    let okT := match ST.frag with
      | some F => checkSystem F.body elemsT A
      | none => checkRowsG ST.body elemsT elemsT A
    let okP := match SP.frag with
      | some F => checkSystem F.body elemsP A
      | none => checkRowsG SP.body elemsP elemsP A
    let badRows := ((List.range elemsP.length).zip (elemsP.zip A)).filterMap (fun (ipr : Nat × MPoly × List Rat) =>
      if MPoly.normalize (SP.body ipr.2.1) == MPoly.normalize (linComb ipr.2.2 elemsP) then none else some ipr.1)
    let vT : Vec := elemsT.map (fun p => MPoly.eval σt (ST.init p))
    let vP : Vec := elemsP.map (fun p => MPoly.eval σs (SP.init p))
    let seq := seqUpTo A vT nmax
    let idx (m : Mono) : Nat := (ms.findIdx? (fun m' => m' == m)).getD 0
    let values := monos.map (fun m => seq.map (fun w => w.getD (idx m) 0))
    pure (okJson [("closed", Json.bool true), ("mode_source", Json.str SP.mode), ("mode_target", Json.str ST.mode),
      ("dim", jsonNat ms.length), ("target_system_ok", Json.bool okT), ("source_system_ok", Json.bool okP),
      ("init_equal", Json.bool (vT == vP)), ("init_source", Json.arr (vP.map jsonRat).toArray),
      ("init_target", Json.arr (vT.map jsonRat).toArray),
      ("bad_rows", Json.arr (badRows.map jsonNat).toArray),
      ("elems", Json.arr (elemsT.map jsonPoly).toArray),
      ("values", jsonRatRows values)])

def opSynthOneStep (j : Json) : D Json := do
  let P ← decProgram (← jField j "program")
  let ps ← (← jArr (← jField j "polys")).mapM decPoly
  let blk := match jFieldD j "block" (Json.str "body") with
    | .str "init" => "init"
    | _ => "body"
  let vars := progVars P (ps.flatMap polyVars)
  let block := if blk == "init" then P.init else P.body
  let frag := progFrag vars P
  let wp : List Json := ps.map (fun p =>
    match frag with
    | some F => jsonPoly (MPoly.normalize (oneStepPoly (if blk == "init" then F.init else F.body) p))
    | none => Json.null)
  let sem : List Json := ps.map (fun p =>
    match semOneStep block vars p with
    | .ok r => jsonPoly (MPoly.normalize r)
    | .error _ => Json.null)
  pure (okJson [("mode", Json.str (if frag.isSome then "fragment" else "semantics")),
                ("wp", Json.arr wp.toArray), ("sem", Json.arr sem.toArray)])

end Polar.SynthOps

namespace Polar
def synthOps : List (String × (Lean.Json → D Lean.Json)) :=
  [("synth_check", SynthOps.opSynthCheck), ("synth_loop_check", SynthOps.opSynthLoopCheck),
   ("synth_onestep", SynthOps.opSynthOneStep)]
end Polar
