/-
  Polar/OpsStats.lean — line-protocol operations of C11 (model and specification of Polar/Stats.lean
  evaluated on rational inputs).
-/
import Polar.Ops
import Polar.Stats

namespace Polar.StatsOps
open Lean Polar Polar.Stats

def jsonRats (l : List Rat) : Json := Json.arr (l.map jsonRat).toArray

def decLaw (j : Json) : D Law := do
  (← jArr j).mapM (fun a => do
    match ← jArr a with
    | [p, v] => pure ((← jRat p), (← jRat v))
    | _ => throw "law: expected [prob, value]")

/-- `stats_convert`: raw moment vector `[m₁..m_N]` → what `raw_moments_to_centrals` /
    `raw_moments_to_cumulants` return (model) -/
def opStatsConvert (j : Json) : D Json := do
  let ms ← decRatList (← jField j "moments")
  pure (okJson [("centrals", jsonRats (rawToCentral ms)), ("cumulants", jsonRats (rawToCumulant ms))])

/-- `stats_spec`: finite law → mass, raw moments, central moments and cumulants of orders 1..kmax
    by the *specification* -/
def opStatsSpec (j : Json) : D Json := do
  let d ← decLaw (← jField j "law")
  let kmax ← jNat (← jField j "kmax")
  let ks := (List.range kmax).map (· + 1)
  pure (okJson [("mass", jsonRat d.mass),
                ("moments", jsonRats (d.moments kmax)),
                ("centrals", jsonRats (ks.map (centralSpec d))),
                ("cumulants", jsonRats (ks.map (cumulantSpec d)))])

/-- `tail_spec`: finite law, threshold a → P(X ≥ a), P(X > a), min and max of the support -/
def opTailSpec (j : Json) : D Json := do
  let d ← decLaw (← jField j "law")
  let a ← jRat (← jField j "a")
  let vals := (d.filter (fun pv => pv.1 ≠ 0)).map (·.2)
  let mn := vals.foldl (fun (acc : Option Rat) v => match acc with
    | none => some v
    | some m => some (if v < m then v else m)) none
  pure (okJson [("ge", jsonRat (probGe d a)), ("gt", jsonRat (probGt d a)),
                ("min", match mn with | some m => jsonRat m | none => Json.null)])

/-- `tail_model`: raw moments, threshold → the Markov bounds in printed order, their minimum, and the
    second-moment lower bound (from m₁, m₂), as the goal handlers compute them -/
def opTailModel (j : Json) : D Json := do
  let ms ← decRatList (← jField j "moments")
  let a ← jRat (← jField j "a")
  let lower := secondMomentLower (ms.getD 0 0) (ms.getD 1 0) a
  let den := ms.getD 1 0 - 2 * a * ms.getD 0 0 + a ^ 2
  pure (okJson [("upper", jsonRats (markovBounds ms a)), ("upper_min", jsonRat (markovMin ms a)),
                ("lower", jsonRat lower), ("lower_den", jsonRat den)])

/-- `special_polys`: prob_hermite_poly(n) (model and textbook recurrence), ce_bell_poly(n, xs) -/
def opSpecialPolys (j : Json) : D Json := do
  let n ← jNat (← jField j "n")
  let xs ← decRatList (jFieldD j "xs" (Json.arr #[]))
  pure (okJson [("hermite", jsonRats (probHermite n).trim), ("hermite_spec", jsonRats (heSpec n).trim),
                ("bell", jsonRat (ceBell (fun i => xs.getD (i - 1) 0) n))])

/-- `gram_charlier`: cumulants → poly_term in y = x − μ, its Gaussian integral and the raw moments
    0..kmax of the expansion -/
def opGramCharlier (j : Json) : D Json := do
  let ks ← decRatList (← jField j "cumulants")
  let kmax ← jNat (← jField j "kmax")
  pure (okJson [("poly", jsonRats (gcPoly ks).trim),
                ("raw", jsonRats ((List.range (kmax + 1)).map (gcRawMoment ks)))])

/-- `cornish_fisher`: σ, cumulants (κ₂ = σ²) → coefficients in z of the expansion -/
def opCornishFisher (j : Json) : D Json := do
  let ks ← decRatList (← jField j "cumulants")
  let s ← jRat (← jField j "sigma")
  if s * s ≠ kAt ks 2 then throw "cornish_fisher: sigma^2 != k2"
  pure (okJson [("coeffs", jsonRats (cornishFisher s ks).trim)])

end Polar.StatsOps

namespace Polar
open Lean Polar.StatsOps

def statsOps : List (String × (Json → D Json)) :=
  [("stats_convert", opStatsConvert), ("stats_spec", opStatsSpec), ("tail_spec", opTailSpec),
   ("tail_model", opTailModel), ("special_polys", opSpecialPolys), ("gram_charlier", opGramCharlier),
   ("cornish_fisher", opCornishFisher)]

end Polar
