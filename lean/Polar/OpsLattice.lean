/-
  Polar/OpsLattice.lean — line-protocol operations for C16 (exponent lattices).

    lattice_model       {"bases":["p/q",…]}                       what the code computes (model of the code)
    lattice_check       {"bases":["p/q",…],"rows":[[int,…],…]}    verdicts on a proposed basis, by the specification
    lattice_check_quad  {"D":int,"bases":[["a","b"],…],"rows":…,"bound":n}   bases a+b√D, bounded completeness
-/
import Polar.Proto
import Polar.Ops
import Polar.Lattice

namespace Polar
open Lean
open Polar.Lattice

def jInt (j : Json) : D Int :=
  match j.getInt? with
  | .ok n => pure n
  | .error _ => throw s!"expected int, got {j.compress}"

def decIntList (j : Json) : D (List Int) := do (← jArr j).mapM jInt
def decIntMatrix (j : Json) : D (List (List Int)) := do (← jArr j).mapM decIntList

def jsonInt (i : Int) : Json := Json.num (JsonNumber.fromInt i)
def jsonIntList (l : List Int) : Json := Json.arr (l.map jsonInt).toArray
def jsonIntMatrix (m : List (List Int)) : Json := Json.arr (m.map jsonIntList).toArray
def jsonBoolList (l : List Bool) : Json := Json.arr (l.map Json.bool).toArray

def decNonzeroRats (j : Json) : D (List Rat) := do
  let bs ← decRatList j
  if bs.any (fun b => b == 0) then throw "zero base" else pure bs

def opLatticeModel (j : Json) : D Json := do
  let bs ← decNonzeroRats (← jField j "bases")
  pure (okJson [
    ("basis", jsonIntMatrix (latticeAsCoded bs)),
    ("trivially_empty", Json.bool (isTriviallyEmpty bs)),
    ("has_one", Json.bool (bs.any (fun b => b == 1))),
    ("equations", jsonIntMatrix (equationsAsCoded bs)),
    ("model_passes", Json.bool (
      let rows := latticeAsCoded bs
      let k := bs.length
      rows.all (relationHolds bs) && independent k rows
        && (latticeBasis bs).all (fun e => inIntSpan k rows e)))])

/-- verdicts shared by the rational and the quadratic check -/
def spanVerdicts (k : Nat) (rows : List (List Int)) (candidates : List (List Int)) :
    Bool × Option (List Int) :=
  let norm1 (e : List Int) : Nat := e.foldl (fun a x => a + x.natAbs) 0
  let missing := candidates.filter (fun e => !inIntSpan k rows e)
  match missing with
  | [] => (true, none)
  | w :: ws => (false, some (ws.foldl (fun best e => if norm1 e < norm1 best then e else best) w))

def opLatticeCheck (j : Json) : D Json := do
  let bs ← decNonzeroRats (← jField j "bases")
  let rows ← decIntMatrix (← jField j "rows")
  let k := bs.length
  let shapeOk := rows.all (fun r => r.length == k)
  let spec := latticeBasis bs
  let sound := rows.map (relationHolds bs)
  let indep := shapeOk && independent k rows
  let (complete, witness) := if shapeOk then spanVerdicts k rows spec else (false, none)
  -- consistency of the specification side itself: its own rows satisfy the relation, and every sound
  -- row of the proposal lies in its span
  let specSound := spec.all (relationHolds bs)
  let rowsInSpec := (rows.zip sound).all (fun rs => !rs.2 || inIntSpan k spec rs.1)
  pure (okJson [
    ("k", Json.num k),
    ("shape_ok", Json.bool shapeOk),
    ("sound", jsonBoolList sound),
    ("independent", Json.bool indep),
    ("complete", Json.bool complete),
    ("witness", match witness with | some w => jsonIntList w | none => Json.null),
    ("spec_basis", jsonIntMatrix spec),
    ("spec_sound", Json.bool specSound),
    ("rows_in_spec", Json.bool rowsInSpec)])

def decQuad (j : Json) : D Quad := do
  match ← jArr j with
  | [a, b] => pure ⟨← jRat a, ← jRat b⟩
  | _ => throw "bad quadratic number"

def opLatticeCheckQuad (j : Json) : D Json := do
  let D ← jInt (← jField j "D")
  let bs ← (← jArr (← jField j "bases")).mapM decQuad
  if bs.any (fun b => b.a == 0 && b.b == 0) then throw "zero base"
  let rows ← decIntMatrix (← jField j "rows")
  let bound ← jNat (← jField j "bound")
  let k := bs.length
  let shapeOk := rows.all (fun r => r.length == k)
  let sound := rows.map (relationHoldsQuad D bs)
  let indep := shapeOk && independent k rows
  let rel := boxRelationVectors D bound bs
  let (complete, witness) := if shapeOk then spanVerdicts k rows rel else (false, none)
  pure (okJson [
    ("k", Json.num k),
    ("shape_ok", Json.bool shapeOk),
    ("sound", jsonBoolList sound),
    ("independent", Json.bool indep),
    ("complete_in_box", Json.bool complete),
    ("witness", match witness with | some w => jsonIntList w | none => Json.null),
    ("box_relations", Json.num rel.length),
    ("box_nonzero", Json.num (rel.filter (fun e => e.any (fun x => x != 0))).length)])

/-- `span_check`: independence of `rows` and membership of each of `vectors` in their integer span -/
def opSpanCheck (j : Json) : D Json := do
  let k ← jNat (← jField j "k")
  let rows ← decIntMatrix (← jField j "rows")
  let vecs ← decIntMatrix (← jField j "vectors")
  let shapeOk := rows.all (fun r => r.length == k)
  pure (okJson [
    ("shape_ok", Json.bool shapeOk),
    ("independent", Json.bool (shapeOk && independent k rows)),
    ("in_span", jsonBoolList (vecs.map (fun e => shapeOk && inIntSpan k rows e)))])

def latticeOps : List (String × (Json → D Json)) :=
  [("lattice_model", opLatticeModel), ("lattice_check", opLatticeCheck),
   ("lattice_check_quad", opLatticeCheckQuad), ("span_check", opSpanCheck)]

end Polar
