/-
  Polar/ValidateStepC.lean — V2 (a recurrence is a one-step identity on every Γ-state) for programs WITH continuous
  draws (`FragmentC`); soundness: `PolarProofs/ValidateStepC.lean`.

  The symbolic execution of `Polar/Validate.lean` is unchanged: one `iter P` from the store in which the typed
  variables hold the constants of a Γ-state and every other variable holds itself as a free symbol, with an EMPTY
  atom table.  A continuous draw of the step then creates the atom `@0`, `@1`, … exactly as `evalRhs` does (standardised
  atom + affine transformation; the parameters that `evalRhs` requires to be constants must be constants on the
  Γ-state, the mean of `Normal`/`Laplace` and the bounds of `Uniform` may be polynomials in the old values).  The value
  of the monomial `M` on a resulting path is a polynomial in free symbols and NEW atoms; its expectation over the new
  atoms (`polyEC`: every atom power `@i^k` is replaced by `momentSpec atoms[i] k`, distinct atoms multiply — the rule
  of `atomMonoE`) is a polynomial in the free symbols only.  `checkOneStepC` compares
      Σ_paths w · polyEC(M(path))   with   Σ cᵢ · Mᵢ(store)
  as normalised polynomials, on every Γ-state.

  No restriction beyond `FragmentC` and the refusals of the semantics itself (`admissibleC`: flat guarded assignments,
  the nine families, no variable name starting with `@`, non-empty types, cap on the number of Γ-states).
-/
import Polar.Validate

namespace Polar
namespace Validate

/-- the name `atomVar` gives to atom `i` -/
def atomNm (i : Nat) : String := s!"@{i}"

/-- the atom among the first `n` that the name denotes -/
def atomOf? (n : Nat) (x : String) : Option Nat := (List.range n).find? (fun i => x == atomNm i)

/-- integrate the atoms out of one term: an atom power `@i^k` contributes the factor `momentSpec atoms[i] k`,
    every other power stays (names starting with `@` that are not atoms of the table are refused) -/
def termEC (atoms : List Atom) (t : Term) : M Term :=
  t.1.foldrM (fun (p : String × Nat) (acc : Term) =>
    match atomOf? atoms.length p.1 with
    | some i =>
      match atoms[i]? with
      | some a =>
        match momentSpec a p.2 with
        | some mk => pure (acc.1, mk * acc.2)
        | none => throw s!"no-moment:{a.family}"
      | none => throw s!"unknown-atom:{p.1}"
    | none =>
      if p.1.toList.head? == some '@' then throw s!"unknown-atom:{p.1}"
      else pure (p :: acc.1, acc.2)) ([], t.2)

/-- expectation over the atoms of a polynomial in free symbols and atoms: a polynomial in the free symbols -/
def polyEC (atoms : List Atom) (q : MPoly) : M MPoly :=
  q.foldrM (fun (t : Term) acc => do pure ((← termEC atoms t) :: acc)) []

/-- polynomial-valued expectation of a program monomial: Σ_paths w · E_atoms(value(M)) -/
def expPolyC (D : WD) (m : Mono) : M MPoly :=
  D.foldrM (fun (wp : Rat × Path) acc => do
    pure (MPoly.add (MPoly.scale wp.1 (← polyEC wp.2.atoms (← monoValue wp.2.vals m))) acc)) []

def oneStepAtC (P : Program) (S0 : Store) (m : Mono) (terms : Terms) (a : Assign) : M (Option StepCex) := do
  let S := assignStore S0 a
  let D ← iter P ⟨S, []⟩
  let lhs ← expPolyC D m
  let rhs ← linPoly S terms
  if MPoly.normalize lhs = MPoly.normalize rhs then pure none else pure (some ⟨a, lhs, rhs⟩)

def oneStepCexC (cap : Nat) (Γ : TypeEnv) (P : Program) (m : Mono) (terms : Terms) : M (Option StepCex) := do
  admissibleC cap Γ P (symVars Γ P (termVars m terms))
  let S0 := freeStore (symVars Γ P (termVars m terms))
  firstFail (oneStepAtC P S0 m terms) (enumΓ Γ)

/-- V2 for `FragmentC` programs -/
def checkOneStepC (cap : Nat) (Γ : TypeEnv) (P : Program) (m : Mono) (terms : Terms) : M Bool := do
  pure (← oneStepCexC cap Γ P m terms).isNone

end Validate
end Polar
