/-
  Polar/Limit.lean — limit of a quotient of two exponential polynomials with rational bases
  (used to judge the value reported for `--after_loop`, C09).
-/
import Polar.LinAlg

namespace Polar.Limit
open Polar.LinAlg

/-- growth class of a term: (|base|, degree); terms with coefficient 0 or base 0 are dropped -/
structure Cls where
  absBase : Rat
  deg : Nat
  deriving DecidableEq, Repr

def absR (r : Rat) : Rat := if r < 0 then -r else r

def clsLt (a b : Cls) : Bool := a.absBase < b.absBase || (a.absBase == b.absBase && a.deg < b.deg)

def live (ts : List (ExpTerm)) : List (ExpTerm) := ts.filter (fun t => t.coef ≠ 0 ∧ t.base ≠ 0)

/-- merge terms with identical (base, degree) -/
def combine (ts : List (ExpTerm)) : List (ExpTerm) :=
  let step (acc : List (ExpTerm)) (t : ExpTerm) : List (ExpTerm) :=
    let rec ins : List (ExpTerm) → List (ExpTerm)
      | [] => [t]
      | u :: rest => if u.base = t.base ∧ u.deg = t.deg then { u with coef := u.coef + t.coef } :: rest else u :: ins rest
    ins acc
  live (ts.foldl step [])

def maxCls (ts : List (ExpTerm)) : Option Cls :=
  ts.foldl (fun (acc : Option Cls) t =>
    let c : Cls := ⟨absR t.base, t.deg⟩
    match acc with
    | none => some c
    | some a => if clsLt a c then some c else some a) none

/-- dominant part: the terms of maximal growth class; `some (coef, positiveBase?)` when it is a single term -/
def dominant (ts : List (ExpTerm)) : List (ExpTerm) :=
  match maxCls ts with
  | none => []
  | some c => ts.filter (fun t => absR t.base = c.absBase ∧ t.deg = c.deg)

inductive Verdict where
  | finite (v : Rat)
  | infinite
  | undefinedDen          -- the denominator is identically zero
  | oscillates            -- dominant terms with bases ±ρ: no limit decided
  deriving Repr

/-- limit of num(n)/den(n) for n → ∞ -/
def ratioLimit (num den : List (ExpTerm)) : Verdict :=
  let n := combine num
  let d := combine den
  match maxCls d with
  | none => .undefinedDen
  | some cd =>
    match dominant d with
    | [td] =>
      match maxCls n with
      | none => .finite 0
      | some cn =>
        if clsLt cn cd then .finite 0
        else if clsLt cd cn then
          -- two dominant numerator terms with bases ±ρ can cancel on every other n
          (match dominant n with
           | [_] => .infinite
           | _ => .oscillates)
        else
          match dominant n with
          | [tn] => if tn.base = td.base then .finite (tn.coef / td.coef) else .oscillates
          | _ => .oscillates
    | _ => .oscillates

end Polar.Limit
