/-
  Polar/ValidateSimCont.lean — V3C: the translation validator of `Polar/ValidateSim.lean` (V3, property C02) for
  programs WITH continuous draws.

  A continuous draw (`Normal`, `Uniform`, `Laplace`, `Exponential`, `Gamma`, `Beta`) appends a fresh atom `@i` to the
  atom table of the path, so the values after a symbolic step are polynomials over (free symbols ∪ atoms of this step).
  `checkSameStepC cap Γ V P P'` runs both programs symbolically exactly as `checkSameStep` does (init blocks from the
  all-symbolic store, one `iter` from every Γ-state), every symbolic run starting with the EMPTY atom table, and
  compares the weighted outcomes projected to

      key = (normalised values of the observed variables `V ++ dom Γ`,  atom table of the step)

  * the two weighted lists carry the same total weight on every key — the observed values are the same polynomials over
    the V-symbols and the atoms `@0, @1, …` created in this step, and these atoms are the same draws index by index
    (same family, same constant parameters).  Passes that keep the order of the draws are accepted; a pass that
    reorders draws, or adds/removes a draw, is refused (answer "not the same") although it may be law-preserving;
  * projections of non-zero weight (of BOTH programs) mention only V-symbols and atoms `@i` with `i <` the length of
    the step's atom table (so nothing but the observed variables carries information across an iteration boundary);
  * every Γ-variable is a constant of its set; every name stays defined; no variable name starts with `@`.

  Soundness (`PolarProofs/ValidateSimCont.lean`, `checkSameStepC_sound`, `checkSameStepC_moments`): accepted ⇒ for every
  n and all constant initial stores that agree on `V`, the un-merged runs have the same law of the observed tuple in
  the sense "same mixture of moment functionals" (`SameLawC`), in particular the same moments `momentU`.

  Fragment (`FragmentIC`): guarded assignments and nested `ite`; right sides expression / choice / Bernoulli /
  Categorical / DiscreteUniform / Normal / Uniform / Laplace / Exponential / Gamma / Beta.  No `simult`.
-/
import Polar.ValidateSim

namespace Polar
namespace Validate

/-! ### the fragment with `ite` and continuous draws -/

mutual
def stmtOKIC : Stmt → Bool
  | .assign _ rhs _ _ => rhsOKC rhs
  | .simult _ _ => false
  | .ite _ t e => blockOKIC t && blockOKIC e
def blockOKIC : List Stmt → Bool
  | [] => true
  | s :: r => stmtOKIC s && blockOKIC r
end

def FragmentIC (P : Program) : Bool := blockOKIC P.init && blockOKIC P.body

/-! ### projections with the atom table of the step -/

/-- normalised values of the observed variables and the atoms created in the step -/
abbrev KeyC := Key × List Atom

def projListC (O : List String) : WD → Option (List (KeyC × Rat))
  | [] => some []
  | (w, q) :: t =>
    match projKey q.vals O, projListC O t with
    | some k, some l => some (((k, q.atoms), w) :: l)
    | _, _ => none

/-- total weight of a key -/
def massC (l : List (KeyC × Rat)) (k : KeyC) : Rat :=
  l.foldr (fun (kw : KeyC × Rat) acc => if kw.1 = k then kw.2 + acc else acc) 0

def firstDiffC (l l' : List (KeyC × Rat)) : Option (KeyC × Rat × Rat) :=
  ((l ++ l').find? (fun kw => massC l kw.1 != massC l' kw.1)).map (fun kw => (kw.1, massC l kw.1, massC l' kw.1))

/-- the names of the atoms `@0 … @(n-1)` -/
def atomNames (n : Nat) : List String := (List.range n).map (fun (i : Nat) => s!"@{i}")

def monoOverC (V : List String) (n : Nat) (m : Mono) : Bool :=
  m.all (fun xe => V.contains xe.1 || (atomNames n).contains xe.1)

def polyOverC (V : List String) (n : Nat) (p : MPoly) : Bool := p.all (fun t => monoOverC V n t.1)

/-- first key of non-zero weight that mentions a symbol outside `V` or an atom outside its table -/
def firstForeignC (V : List String) (l : List (KeyC × Rat)) : Option (KeyC × Rat) :=
  l.find? (fun kw => !(kw.2 == 0 || kw.1.1.all (polyOverC V kw.1.2.length)))

/-! ### the check -/

/-- a counterexample of V3 together with the atom table of the offending key -/
structure SimCexC where
  cex : SimCex
  atoms : List Atom
  deriving Inhabited

def compareAtC (Γ : TypeEnv) (O V : List String) (xs xs' : List String) (stage : String) (a : Assign)
    (D D' : WD) : M (Option SimCexC) :=
  if (definedAll xs D && definedAll xs' D') = false then throw "validate: a variable became unset"
  else
    match projListC O D, projListC O D' with
    | some l, some l' =>
      match badPath Γ D, badPath Γ D' with
      | some wp, _ =>
        pure (some ⟨⟨stage, "type-violated", a, (projKey wp.2.vals O).getD [], wp.1, 0⟩, wp.2.atoms⟩)
      | none, some wp =>
        pure (some ⟨⟨stage, "type-violated", a, (projKey wp.2.vals O).getD [], 0, wp.1⟩, wp.2.atoms⟩)
      | none, none =>
        match firstForeignC V l with
        | some kw => pure (some ⟨⟨stage, "foreign-symbol", a, kw.1.1, kw.2, massC l' kw.1⟩, kw.1.2⟩)
        | none =>
          match firstForeignC V l' with
          | some kw => pure (some ⟨⟨stage, "foreign-symbol", a, kw.1.1, massC l kw.1, kw.2⟩, kw.1.2⟩)
          | none =>
            match firstDiffC l l' with
            | some d => pure (some ⟨⟨stage, "weights-differ", a, d.1.1, d.2.1, d.2.2⟩, d.1.2⟩)
            | none => pure none
    | _, _ => throw "validate: an observed variable is unset"

def sameStepAtC (Γ : TypeEnv) (V : List String) (P P' : Program) (a : Assign) : M (Option SimCexC) := do
  let O := obsVars Γ V
  let xs := symVarsI O P
  let xs' := symVarsI O P'
  let D ← iter P ⟨assignStore (freeStore xs) a, []⟩
  let D' ← iter P' ⟨assignStore (freeStore xs') a, []⟩
  compareAtC Γ O V xs xs' "step" a D D'

def admissibleIC (cap : Nat) (Γ : TypeEnv) (V : List String) (P P' : Program) : M Unit :=
  if (FragmentIC P && FragmentIC P') = false then
    throw "validate: program outside the fragment (simult / unknown distribution)"
  else if (atomFree (symVarsI (obsVars Γ V) P) && atomFree (symVarsI (obsVars Γ V) P')) = false then
    throw "validate: a variable name starts with @"
  else if Γ.any (fun e => e.2.isEmpty) = true then throw "validate: empty type"
  else if cap < card Γ then throw s!"validate: {card Γ} type states exceed the cap {cap}"
  else pure ()

def sameStepCexC (cap : Nat) (Γ : TypeEnv) (V : List String) (P P' : Program) : M (Option SimCexC) := do
  admissibleIC cap Γ V P P'
  let O := obsVars Γ V
  let xs := symVarsI O P
  let xs' := symVarsI O P'
  let D0 ← execBlock P.init ⟨freeStore xs, []⟩
  let D0' ← execBlock P'.init ⟨freeStore xs', []⟩
  match ← compareAtC Γ O V xs xs' "init" [] D0 D0' with
  | some c => pure (some c)
  | none => firstFail (sameStepAtC Γ V P P') (enumΓ Γ)

def checkSameStepC (cap : Nat) (Γ : TypeEnv) (V : List String) (P P' : Program) : M Bool := do
  pure (← sameStepCexC cap Γ V P P').isNone

end Validate
end Polar
