/-
  Polar/Proto.lean — JSON decoding of programs and helpers for the line protocol of `polar-model`.
-/
import Lean.Data.Json
import Polar.Sem

namespace Polar
open Lean

abbrev D := Except String

def jStr (j : Json) : D String :=
  match j with
  | .str s => pure s
  | _ => throw s!"expected string, got {j.compress}"

def jNat (j : Json) : D Nat :=
  match j.getNat? with
  | .ok n => pure n
  | .error _ => throw s!"expected nat, got {j.compress}"

def jArr (j : Json) : D (List Json) :=
  match j with
  | .arr a => pure a.toList
  | _ => throw s!"expected array, got {j.compress}"

def jRat (j : Json) : D Rat :=
  match j with
  | .str s => match parseRat? s with
    | some r => pure r
    | none => throw s!"bad rational {s}"
  | .num n =>
    if n.exponent = 0 then pure (n.mantissa : Rat) else throw s!"non-integer json number {j.compress}"
  | _ => throw s!"expected rational, got {j.compress}"

def jField (j : Json) (k : String) : D Json :=
  match j.getObjVal? k with
  | .ok v => pure v
  | .error _ => throw s!"missing field {k}"

def jFieldD (j : Json) (k : String) (d : Json) : Json :=
  match j.getObjVal? k with
  | .ok v => v
  | .error _ => d

partial def decExpr (j : Json) : D Expr := do
  match ← jArr j with
  | [.str "num", r] => pure (.num (← jRat r))
  | [.str "var", .str x] => pure (.var x)
  | [.str "add", a, b] => pure (.add (← decExpr a) (← decExpr b))
  | [.str "sub", a, b] => pure (.sub (← decExpr a) (← decExpr b))
  | [.str "mul", a, b] => pure (.mul (← decExpr a) (← decExpr b))
  | [.str "div", a, b] => pure (.div (← decExpr a) (← decExpr b))
  | [.str "neg", a] => pure (.neg (← decExpr a))
  | [.str "pow", a, k] => pure (.pow (← decExpr a) (← jNat k))
  | _ => throw s!"bad expr {j.compress}"

def decCop (s : String) : D Cop :=
  match s with
  | "==" => pure .eq
  | "/=" => pure .ne
  | "<" => pure .lt
  | "<=" => pure .le
  | ">" => pure .gt
  | ">=" => pure .ge
  | _ => throw s!"bad cop {s}"

partial def decCond (j : Json) : D Cond := do
  match ← jArr j with
  | [.str "tt"] => pure .tt
  | [.str "ff"] => pure .ff
  | [.str "cmp", .str op, l, r] => pure (.cmp (← decCop op) (← decExpr l) (← decExpr r))
  | [.str "not", c] => pure (.not (← decCond c))
  | [.str "and", a, b] => pure (.and (← decCond a) (← decCond b))
  | [.str "or", a, b] => pure (.or (← decCond a) (← decCond b))
  | _ => throw s!"bad cond {j.compress}"

def decRhs (j : Json) : D Rhs := do
  match ← jArr j with
  | [.str "expr", e] => pure (.expr (← decExpr e))
  | [.str "choice", alts] => do
    let l ← jArr alts
    let ps ← l.mapM (fun a => do
      match ← jArr a with
      | [e, p] => pure ((← decExpr e), (← decExpr p))
      | _ => throw "bad alt")
    pure (.choice ps)
  | [.str "dist", .str name, ps] => do
    pure (.dist name (← (← jArr ps).mapM decExpr))
  | _ => throw s!"bad rhs {j.compress}"

partial def decStmt (j : Json) : D Stmt := do
  match ← jArr j with
  | [.str "assign", .str x, rhs, g, .str d] => pure (.assign x (← decRhs rhs) (← decCond g) d)
  | [.str "simult", xs, rhss] => do
    pure (.simult (← (← jArr xs).mapM jStr) (← (← jArr rhss).mapM decRhs))
  | [.str "ite", c, t, e] => do
    pure (.ite (← decCond c) (← (← jArr t).mapM decStmt) (← (← jArr e).mapM decStmt))
  | _ => throw s!"bad stmt {j.compress}"

def decProgram (j : Json) : D Program := do
  let init ← (← jArr (← jField j "init")).mapM decStmt
  let guard ← decCond (← jField j "guard")
  let body ← (← jArr (← jField j "body")).mapM decStmt
  pure { init, guard, body }

def decStore (j : Json) : D Store := do
  match j with
  | .obj kvs =>
    let l := kvs.toList
    l.foldlM (fun (acc : Store) (kv : String × Json) => do
      pure (acc.set kv.1 (MPoly.const (← jRat kv.2)))) []
  | _ => throw "sigma0 must be an object"

def decMono (j : Json) : D Mono := do
  let l ← jArr j
  let ps ← l.mapM (fun a => do
    match ← jArr a with
    | [.str x, k] => pure (x, ← jNat k)
    | _ => throw "bad mono")
  pure (Mono.norm ps)

def jsonRat (r : Rat) : Json := .str (ratToString r)

def decRatList (j : Json) : D (List Rat) := do (← jArr j).mapM jRat
def decRatMatrix (j : Json) : D (List (List Rat)) := do (← jArr j).mapM decRatList

end Polar
