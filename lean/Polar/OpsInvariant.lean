/-
  Polar/OpsInvariant.lean — line-protocol ops of the invariant validators (`Polar/Invariant.lean`).

  Common encodings
    closed forms  "cfs": [["goal", [{"coef":c,"deg":k,"base":b}, ..]], ..]     (order = goal order)
                  with "D":"p/q" the numbers c, b may be pairs ["a","b"] = a + b·√D
    polynomial    [[mono, "p/q"], ..]   with  mono = [["goal", e], ..]

  invariant_check  {"cfs":..,"poly":..,"n0":n0,["D":..]}
                   → {"holds":bool,"window":W,"nterms":t,"first_bad":{"n":n,"value":v}|null}
                   p(f(n)) = 0 tested on n0 ≤ n < n0+W;  holds ⇒ ∀ n ≥ n0 (`checkInvariant_sound`)
  exppoly_values   {"cfs":..,"n0":..,"count":..,["D":..]} → {"values":[[goal,[v,..]],..]}
  inv_monos        {"goals":[..],"k":k} → {"monos":[mono,..]}
  inv_matrix       {"cfs":..,"k":k,"n0":n0,["rows":W],["D":..]} → {"window":W,"monos":..,"M":[[..]..]}
  kernel_check     {"c":c,"M":[[..]],"B":[[..]],"free":[..],"pivR":[..],"pivC":[..]} → {"verdict":bool}
  member_check     {"poly":p,"gens":[p,..],"cofs":[p,..]} → {"verdict":bool}
  relations_check  {"cfs":..,"k":k,"n0":n0,"basis":[p,..],"kernel":[p,..],"free":[mono,..],
                    "pivC":[mono,..],"pivR":[row index,..],"cofs":[[p,..],..],["D":..]}
                   → {"all":bool,"kernel_ok":bool,"member_ok":[bool,..],"window":W,"ncols":c,"nrows":r}
                   rows of the matrix: window point j (n = n0+j), coordinate i  ↦  index j·ncomp + i
-/
import Polar.Ops
import Polar.OpsLinAlg
import Polar.Invariant

namespace Polar
open Lean Polar.LinAlg Polar.Inv

def decGTermRat (j : Json) : D (GTerm Rat) := do
  pure { coef := ← jRat (← jField j "coef"), deg := ← jNat (← jField j "deg"),
         base := ← jRat (← jField j "base") }

def decGTermQD (j : Json) : D (GTerm QD) := do
  pure { coef := ← jQD (← jField j "coef"), deg := ← jNat (← jField j "deg"),
         base := ← jQD (← jField j "base") }

def decEnv {α : Type} (decT : Json → D (GTerm α)) (j : Json) : D (Env α) := do
  (← jArr j).mapM (fun gc => do
    match ← jArr gc with
    | [g, ts] => pure ((← jStr g), (← (← jArr ts).mapM decT))
    | _ => throw "cfs: expected [goal, terms]")

def decMPoly (j : Json) : D MPoly := do
  (← jArr j).mapM (fun t => do
    match ← jArr t with
    | [m, c] => pure ((← decMono m), (← jRat c))
    | _ => throw "poly: expected [mono, coef]")

def decMPolys (j : Json) : D (List MPoly) := do (← jArr j).mapM decMPoly

def decNats (j : Json) : D (List Nat) := do (← jArr j).mapM jNat

def jsonMono (m : Mono) : Json :=
  Json.arr (m.map (fun (p : String × Nat) => Json.arr #[Json.str p.1, Json.num p.2])).toArray

def jsonBad {α : Type} (enc : α → Json) (b : Option (Nat × α)) : Json :=
  match b with
  | none => Json.null
  | some (n, v) => Json.mkObj [("n", jsonNat n), ("value", enc v)]

def invAnswer {α : Type} (enc : α → Json) (r : Nat × Nat × Option (Nat × α)) : Json :=
  okJson [("holds", Json.bool r.2.2.isNone), ("window", jsonNat r.1), ("nterms", jsonNat r.2.1),
          ("first_bad", jsonBad enc r.2.2)]

def opInvariantCheck (j : Json) : D Json := do
  let p ← decMPoly (← jField j "poly")
  let n₀ ← jNat (jFieldD j "n0" (Json.num 0))
  if jHas j "D" then
    let Dq ← jRat (← jField j "D")
    let cfs ← decEnv decGTermQD (← jField j "cfs")
    pure (invAnswer jsonQD (checkInvariant (qdOps Dq) p cfs n₀))
  else
    let cfs ← decEnv decGTermRat (← jField j "cfs")
    pure (invAnswer jsonRat (checkInvariant ratOps p cfs n₀))

def opExpPolyValues (j : Json) : D Json := do
  let n₀ ← jNat (jFieldD j "n0" (Json.num 0))
  let cnt ← jNat (← jField j "count")
  if jHas j "D" then
    let Dq ← jRat (← jField j "D")
    let cfs ← decEnv decGTermQD (← jField j "cfs")
    pure (okJson [("values", Json.arr (cfs.map (fun gc =>
      Json.arr #[Json.str gc.1, Json.arr ((valuesOn (qdOps Dq) gc.2 n₀ cnt).map jsonQD).toArray])).toArray)])
  else
    let cfs ← decEnv decGTermRat (← jField j "cfs")
    pure (okJson [("values", Json.arr (cfs.map (fun gc =>
      Json.arr #[Json.str gc.1, Json.arr ((valuesOn ratOps gc.2 n₀ cnt).map jsonRat).toArray])).toArray)])

def opInvMonos (j : Json) : D Json := do
  let gs ← (← jArr (← jField j "goals")).mapM jStr
  let k ← jNat (← jField j "k")
  pure (okJson [("monos", Json.arr ((monosUpTo gs k).map jsonMono).toArray)])

def matrixAnswer {α : Type} [DecidableEq α] (R : RingOps α) (cfs : Env α) (k n₀ : Nat) (rows : Option Nat) : Json :=
  let monos := monosUpTo (cfs.map (fun gc => gc.1)) k
  let W := windowK R cfs monos
  let M := evalMatrix R cfs monos n₀ (rows.getD W)
  okJson [("window", jsonNat W), ("monos", Json.arr (monos.map jsonMono).toArray), ("M", jsonRatRows M)]

def opInvMatrix (j : Json) : D Json := do
  let k ← jNat (← jField j "k")
  let n₀ ← jNat (jFieldD j "n0" (Json.num 0))
  let rows ← if jHas j "rows" then (some <$> jNat (← jField j "rows")) else pure none
  if jHas j "D" then
    let Dq ← jRat (← jField j "D")
    pure (matrixAnswer (qdOps Dq) (← decEnv decGTermQD (← jField j "cfs")) k n₀ rows)
  else
    pure (matrixAnswer ratOps (← decEnv decGTermRat (← jField j "cfs")) k n₀ rows)

def opKernelCheck (j : Json) : D Json := do
  let c ← jNat (← jField j "c")
  let M ← decRatMatrix (← jField j "M")
  let B ← decRatMatrix (← jField j "B")
  let free ← decNats (← jField j "free")
  let pivR ← decNats (← jField j "pivR")
  let pivC ← decNats (← jField j "pivC")
  pure (okJson [("verdict", Json.bool (checkKernel c M B free pivR pivC))])

def opMemberCheck (j : Json) : D Json := do
  let p ← decMPoly (← jField j "poly")
  let gens ← decMPolys (← jField j "gens")
  let cofs ← decMPolys (← jField j "cofs")
  pure (okJson [("verdict", Json.bool (checkMember p gens cofs))])

def monoIndex (monos : List Mono) (m : Mono) : D Nat :=
  match monos.findIdx? (fun m' => Mono.norm m' == Mono.norm m) with
  | some i => pure i
  | none => throw s!"monomial not of degree ≤ k in the goals: {(jsonMono m).compress}"

def relationsAnswer {α : Type} [DecidableEq α] (R : RingOps α) (cfs : Env α) (j : Json) : D Json := do
  let k ← jNat (← jField j "k")
  let n₀ ← jNat (jFieldD j "n0" (Json.num 0))
  let basis ← decMPolys (← jField j "basis")
  let kernel ← decMPolys (← jField j "kernel")
  let monos := monosUpTo (cfs.map (fun gc => gc.1)) k
  let free ← (← (← jArr (← jField j "free")).mapM decMono).mapM (monoIndex monos)
  let pivC ← (← (← jArr (← jField j "pivC")).mapM decMono).mapM (monoIndex monos)
  let pivR ← decNats (← jField j "pivR")
  let cofs ← (← jArr (← jField j "cofs")).mapM decMPolys
  let B := kernel.map (vecOfPoly monos)
  let v := relationsCheck R cfs k n₀ basis B free pivR pivC cofs
  pure (okJson [("all", Json.bool v.ok), ("kernel_ok", Json.bool v.kernelOk),
                ("member_ok", Json.arr (v.memberOk.map Json.bool).toArray),
                ("window", jsonNat v.window), ("ncols", jsonNat v.ncols), ("nrows", jsonNat v.nrows)])

def opRelationsCheck (j : Json) : D Json := do
  if jHas j "D" then
    let Dq ← jRat (← jField j "D")
    relationsAnswer (qdOps Dq) (← decEnv decGTermQD (← jField j "cfs")) j
  else
    relationsAnswer ratOps (← decEnv decGTermRat (← jField j "cfs")) j

def invariantOps : List (String × (Json → D Json)) :=
  [("invariant_check", opInvariantCheck), ("exppoly_values", opExpPolyValues), ("inv_monos", opInvMonos),
   ("inv_matrix", opInvMatrix), ("kernel_check", opKernelCheck), ("member_check", opMemberCheck),
   ("relations_check", opRelationsCheck)]

end Polar
