/-
  Polar/OpsValidate.lean — line-protocol ops of the validators of `Polar/Validate.lean`
  (soundness: `PolarProofs/Validate.lean`, theorems `checkInductive_sound`, `checkOneStep_sound`,
  `recurrence_holds_forall_n`).

  Common encodings
    program     as for `moments` (`decProgram`); it must be NORMALISED: flat guarded assignments only
    types       {"x": ["0","1"], …}     finite type of each typed variable (rationals "p/q")
    monomial    [["x",1],["f",2]]       ([] is the monomial 1)
    polynomial  [[monomial, "p/q"], …]

  types_inductive  {"program":…, "types":…, ["types0":…], ["cap":4096]}
      "types0" ⊆ "types": the types that already hold at n = 0 (default: the typed variables the init block assigns);
      accepted ⇒ ∀ n: types0 hold at iteration n and types hold at iteration n+1 (`checkInductive_sound0/_sound`);
      every answer carries "fragment":"discrete"|"continuous" — programs with continuous draws (Normal, Uniform,
      Laplace, Exponential, Gamma, Beta) are checked by the same procedure, justified by `checkInductiveC_sound0/_sound`
      (a typed variable is, as a function of the draw atoms, a constant of its set)
      → {"ok":true, "inductive":true,  "why":null, "states":k}
      → {"ok":true, "inductive":false, "why":{"stage":"init"|"step", "assign":{Γ-state the step started from},
                                             "weight":w, "var":x, "value":polynomial|null (unset)}, "states":k}
      → {"ok":true, "inductive":null,  "refused":reason, "states":k}     (outside the fragment / above the cap /
                                       a condition or probability is not constant on some Γ-state / unset variable)
  onestep_check    {"program":…, "types":…, "mono":monomial, "terms":[[monomial,"c"],…], ["cap":4096]}
      E over one iteration of `mono`  =  Σ c · monomial(state)   on every Γ-state, as polynomials in the untyped
      variables (the constant of the recurrence is the term with monomial [])
      every answer carries "validator":"V2"|"V2C" — discrete fragment: `checkOneStep` (`checkOneStep_sound`,
      `recurrence_holds_forall_n`); programs with continuous draws (not `Fragment`, but `FragmentC`): `checkOneStepC`
      of `Polar/ValidateStepC.lean` (the atoms drawn in the step are integrated out with `momentSpec`; soundness
      `checkOneStepC_sound`, `recurrence_holds_forall_nC`, `recurrence_holds_from_zeroC` in
      `PolarProofs/ValidateStepC.lean`)
      → {"ok":true, "holds":true,  "counterexample":null, "states":k, "validator":v}
      → {"ok":true, "holds":false, "counterexample":{"assign":{…}, "lhs":polynomial, "rhs":polynomial}, "states":k,
         "validator":v}
      → {"ok":true, "holds":null,  "refused":reason, "states":k, "validator":v}
-/
import Polar.Ops
import Polar.Validate
import Polar.ValidateStepC

namespace Polar
open Lean
namespace Validate

def decTypes (j : Json) : D TypeEnv := do
  match j with
  | .obj kvs => kvs.toList.mapM (fun (kv : String × Json) => do pure (kv.1, ← decRatList kv.2))
  | _ => throw "types must be an object"

def decTerms (j : Json) : D Terms := do
  (← jArr j).mapM (fun t => do
    match ← jArr t with
    | [m, c] => pure ((← decMono m), (← jRat c))
    | _ => throw "terms: expected [monomial, coefficient]")

def decCap (j : Json) : Nat :=
  match (jFieldD j "cap" (Json.num 4096)).getNat? with
  | .ok b => b
  | .error _ => 4096

def vJsonMono (m : Mono) : Json :=
  Json.arr (m.map (fun (p : String × Nat) => Json.arr #[Json.str p.1, Json.num p.2])).toArray

def vJsonPoly (p : MPoly) : Json :=
  Json.arr ((MPoly.normalize p).map (fun (t : Term) => Json.arr #[vJsonMono t.1, jsonRat t.2])).toArray

def vJsonAssign (a : Assign) : Json := Json.mkObj (a.map (fun (xc : String × Rat) => (xc.1, jsonRat xc.2)))

/-- the first typed variable that is not a constant of its set in the store -/
def offending (Γ : TypeEnv) (s : Store) : Option (String × Option MPoly) :=
  (Γ.find? (fun e => !holdsIn e.2 (s.get? e.1))).map (fun e => (e.1, s.get? e.1))

def opTypesInductive (j : Json) : D Json := do
  let P ← decProgram (← jField j "program")
  let Γ ← decTypes (← jField j "types")
  let Γ0 ← match j.getObjVal? "types0" with
    | .ok t => decTypes t
    | .error _ => pure (initTypes Γ P)
  let cap := decCap j
  let k := Json.num (card Γ0)
  -- discrete fragment: `checkInductive_sound0/_sound`; with continuous draws: `checkInductiveC_sound0/_sound`
  let discrete := Fragment P
  let frag := ("fragment", Json.str (if discrete then "discrete" else "continuous"))
  match (if discrete then inductiveCex cap Γ0 Γ P else inductiveCexC cap Γ0 Γ P) with
  | .error e => pure (okJson [("inductive", Json.null), ("refused", Json.str e), ("states", k), frag])
  | .ok none => pure (okJson [("inductive", Json.bool true), ("why", Json.null), ("states", k), frag])
  | .ok (some c) =>
    let (x, v) := match offending (if c.stage == "init" then Γ0 else Γ) c.vals with
      | some (x, some v) => (Json.str x, vJsonPoly v)
      | some (x, none) => (Json.str x, Json.null)
      | none => (Json.null, Json.null)
    pure (okJson [("inductive", Json.bool false),
      ("why", Json.mkObj [("stage", Json.str c.stage), ("assign", vJsonAssign c.assign),
                           ("weight", jsonRat c.weight), ("var", x), ("value", v)]),
      ("states", k), frag])

def opOneStepCheck (j : Json) : D Json := do
  let P ← decProgram (← jField j "program")
  let Γ ← decTypes (← jField j "types")
  let m ← decMono (← jField j "mono")
  let terms ← decTerms (← jField j "terms")
  let cap := decCap j
  let k := Json.num (card Γ)
  -- discrete fragment: `checkOneStep_sound`; with continuous draws: `checkOneStepC_sound`
  let useC := !Fragment P && FragmentC P
  let val := ("validator", Json.str (if useC then "V2C" else "V2"))
  match (if useC then oneStepCexC cap Γ P m terms else oneStepCex cap Γ P m terms) with
  | .error e => pure (okJson [("holds", Json.null), ("refused", Json.str e), ("states", k), val])
  | .ok none => pure (okJson [("holds", Json.bool true), ("counterexample", Json.null), ("states", k), val])
  | .ok (some c) =>
    pure (okJson [("holds", Json.bool false),
      ("counterexample", Json.mkObj [("assign", vJsonAssign c.assign), ("lhs", vJsonPoly c.lhs),
                                      ("rhs", vJsonPoly c.rhs)]),
      ("states", k), val])

end Validate

def validateOps : List (String × (Json → D Json)) :=
  [("types_inductive", Validate.opTypesInductive), ("onestep_check", Validate.opOneStepCheck)]

end Polar
