/-
  Polar/Invariant.lean — C06 / C07: polynomial invariants among exponential-polynomial sequences.
  No Mathlib.

  Goal sequences are given by their closed forms as *term lists* `Σ coef · n^deg · base^n`
  over a coefficient domain `α` described by a record of operations `RingOps α`
  (`ratOps`: ℚ;  `qdOps D`: pairs `a + b√D`, the `QD` of `Polar/LinAlg.lean`).

  * `mulTerms`, `powTerms`, `scaleTerms`, `substMono`, `substPoly` : the exponential polynomial
    `p(f₁(n),…,f_k(n))` of a polynomial `p : MPoly` in the goal names, as a term list;
    `normTerms` merges terms with equal `(deg, base)` and drops zero coefficients.
  * `shapeOfG`, `windowOf` : the formal shape (distinct bases with max degree + 1) and its size `W`.
  * `checkInvariant R p cfs n₀` : evaluates `p(f(n))` on `n₀ ≤ n < n₀ + W` (incrementally, exact
    arithmetic) and returns `W` and the first `n` with a non-zero value.  Soundness
    (`PolarProofs/Invariant.lean`, `checkInvariant_sound`): no failing `n` ⇒ `p(f(n)) = 0 ∀ n ≥ n₀`.
  * `monosUpTo gs k` : all monomials of total degree ≤ k in the goals; `evalMatrix` : the matrix of
    their values on the window (one row per window point and rational coordinate of `α`);
    `checkKernel c M B free pivR pivC` : certificate check "the rows of `B` are a basis of ker `M`";
    `checkMember p gens cofs` : the polynomial identity `p = Σ cofᵢ·genᵢ`;
    `relationsCheck` : the combination used by C07.
-/
import Polar.Poly
import Polar.LinAlg

namespace Polar.Inv
open Polar.LinAlg

/-! ## coefficient domains -/

/-- the operations of a coefficient domain; `comps` are the rational coordinates of an element
(`[x]` for ℚ, `[a, b]` for `a + b√D`) -/
structure RingOps (α : Type) where
  zero : α
  one : α
  add : α → α → α
  mul : α → α → α
  ofRat : Rat → α
  comps : α → List Rat
  ncomp : Nat

def ratOps : RingOps Rat :=
  { zero := 0, one := 1, add := fun a b => a + b, mul := fun a b => a * b, ofRat := fun r => r,
    comps := fun x => [x], ncomp := 1 }

def qdOps (D : Rat) : RingOps QD :=
  { zero := (0, 0), one := (1, 0), add := QD.add, mul := QD.mul D, ofRat := QD.ofRat,
    comps := fun x => [x.1, x.2], ncomp := 2 }

variable {α : Type}

def RingOps.pow (R : RingOps α) (x : α) : Nat → α
  | 0 => R.one
  | n + 1 => R.mul x (R.pow x n)

def RingOps.sum (R : RingOps α) : List α → α
  | [] => R.zero
  | a :: l => R.add a (R.sum l)

/-! ## exponential polynomials as term lists -/

/-- the term `coef · n^deg · base^n` -/
structure GTerm (α : Type) where
  coef : α
  deg : Nat
  base : α
  deriving Repr, DecidableEq

/-- `coef · n^deg · p` where `p` stands for `base^n` -/
def GTerm.evalP (R : RingOps α) (t : GTerm α) (p : α) (n : Nat) : α :=
  R.mul (R.mul t.coef (R.ofRat ((n : Rat) ^ t.deg))) p

def GTerm.eval (R : RingOps α) (t : GTerm α) (n : Nat) : α := t.evalP R (R.pow t.base n) n

/-- `Σ_t coef_t · n^deg_t · base_t^n` -/
def evalTerms (R : RingOps α) (ts : List (GTerm α)) (n : Nat) : α :=
  R.sum (ts.map (fun t => t.eval R n))

def mulTerm (R : RingOps α) (t s : GTerm α) : GTerm α :=
  ⟨R.mul t.coef s.coef, t.deg + s.deg, R.mul t.base s.base⟩

/-- product of two exponential polynomials: all pairs of terms -/
def mulTerms (R : RingOps α) : List (GTerm α) → List (GTerm α) → List (GTerm α)
  | [], _ => []
  | t :: ts, ss => ss.map (mulTerm R t) ++ mulTerms R ts ss

def constTerms (R : RingOps α) (c : Rat) : List (GTerm α) := [⟨R.ofRat c, 0, R.one⟩]

def scaleTerms (R : RingOps α) (c : Rat) (ts : List (GTerm α)) : List (GTerm α) :=
  ts.map (fun t => ⟨R.mul (R.ofRat c) t.coef, t.deg, t.base⟩)

section Dec
variable [DecidableEq α]

/-- add a term to a list, merging with an existing term of the same degree and base -/
def insertG (R : RingOps α) (t : GTerm α) : List (GTerm α) → List (GTerm α)
  | [] => [t]
  | s :: l =>
    if s.deg = t.deg ∧ s.base = t.base then ⟨R.add t.coef s.coef, s.deg, s.base⟩ :: l
    else s :: insertG R t l

/-- merge terms with equal `(deg, base)` and drop the terms whose coefficient is zero -/
def normTerms (R : RingOps α) (ts : List (GTerm α)) : List (GTerm α) :=
  (ts.foldr (insertG R) []).filter (fun t => !(t.coef == R.zero))

/-- `ts^k` (normalised after every multiplication to keep the lists short) -/
def powTerms (R : RingOps α) (ts : List (GTerm α)) : Nat → List (GTerm α)
  | 0 => constTerms R 1
  | k + 1 => normTerms R (mulTerms R ts (powTerms R ts k))

/-- closed forms of the goals: association list goal name → term list -/
abbrev Env (α : Type) := List (String × List (GTerm α))

def envOf (cfs : Env α) (g : String) : List (GTerm α) := (cfs.lookup g).getD []

/-- the exponential polynomial of a monomial in the goals -/
def substMono (R : RingOps α) (cfs : Env α) : Mono → List (GTerm α)
  | [] => constTerms R 1
  | (x, k) :: m => normTerms R (mulTerms R (powTerms R (envOf cfs x) k) (substMono R cfs m))

/-- the exponential polynomial `p(f₁(n),…)` of a polynomial in the goals (not yet normalised) -/
def substPoly (R : RingOps α) (cfs : Env α) : MPoly → List (GTerm α)
  | [] => []
  | (m, c) :: p => scaleTerms R c (substMono R cfs m) ++ substPoly R cfs p

/-- the formal shape: each distinct base with (max degree at that base) + 1 -/
def shapeOfG (ts : List (GTerm α)) : List (α × Nat) :=
  ts.foldr (fun t acc => insertShape t.base (t.deg + 1) acc) []

/-- the window length of the vanishing test for a term list -/
def windowOf (ts : List (GTerm α)) : Nat := shapeSizeOf (shapeOfG ts)

end Dec

/-! ## incremental evaluation on a window -/

/-- `Σ coef_t · n^deg_t · pw_t` with the powers `base_t^n` supplied in `pw` -/
def evalWith (R : RingOps α) : List (GTerm α) → List α → Nat → α
  | t :: ts, p :: pw, n => R.add (t.evalP R p n) (evalWith R ts pw n)
  | _, _, _ => R.zero

def stepPows (R : RingOps α) : List (GTerm α) → List α → List α
  | t :: ts, p :: pw => R.mul t.base p :: stepPows R ts pw
  | _, _ => []

def powsAt (R : RingOps α) (ts : List (GTerm α)) (n : Nat) : List α := ts.map (fun t => R.pow t.base n)

/-- the values at `n, n+1, …, n+k-1`, given the powers at `n` -/
def valuesFrom (R : RingOps α) (ts : List (GTerm α)) : List α → Nat → Nat → List α
  | _, _, 0 => []
  | pw, n, k + 1 => evalWith R ts pw n :: valuesFrom R ts (stepPows R ts pw) (n + 1) k

/-- `[g(n₀), …, g(n₀+k-1)]` -/
def valuesOn (R : RingOps α) (ts : List (GTerm α)) (n₀ k : Nat) : List α :=
  valuesFrom R ts (powsAt R ts n₀) n₀ k

/-- first index (counted from `n`) whose value is not zero -/
def firstNonzero [DecidableEq α] (z : α) : List α → Nat → Option (Nat × α)
  | [], _ => none
  | v :: vs, n => if v = z then firstNonzero z vs (n + 1) else some (n, v)

/-- **The executable invariant check**: `p(f(n)) = 0` on the window `n₀ ≤ n < n₀ + W`, where `W` is
the size of the formal shape of the normalised term list of `p(f(n))`.  Returns `W`, the number of
terms and the first failing `n` with the value there. -/
def checkInvariant [DecidableEq α] (R : RingOps α) (p : MPoly) (cfs : Env α) (n₀ : Nat) :
    Nat × Nat × Option (Nat × α) :=
  let ts := normTerms R (substPoly R cfs p)
  let W := windowOf ts
  (W, ts.length, firstNonzero R.zero (valuesOn R ts n₀ W) n₀)

/-! ## C07: the evaluation matrix of all monomials of bounded degree -/

/-- all monomials of total degree ≤ k in the listed variables (exponent of the first variable
ascending) -/
def monosUpTo : List String → Nat → List Mono
  | [], _ => [[]]
  | g :: gs, k =>
    (List.range (k + 1)).flatMap (fun e =>
      (monosUpTo gs (k - e)).map (fun m => if e = 0 then m else (g, e) :: m))

/-- value of a monomial at a point -/
def monoVal (R : RingOps α) (σ : String → α) : Mono → α
  | [] => R.one
  | (x, k) :: m => R.mul (R.pow (σ x) k) (monoVal R σ m)

/-- the table of goal values on the window -/
def valueTable (R : RingOps α) (cfs : Env α) (n₀ W : Nat) : List (String × List α) :=
  cfs.map (fun gc => (gc.1, valuesOn R gc.2 n₀ W))

def tableAt (R : RingOps α) (tab : List (String × List α)) (j : Nat) (g : String) : α :=
  ((tab.lookup g).getD []).getD j R.zero

/-- rows of the evaluation matrix: for each window point `j` and each rational coordinate `i` the row
`(comps (m(f(n₀+j))))ᵢ` over the monomials `m` -/
def evalMatrix (R : RingOps α) (cfs : Env α) (monos : List Mono) (n₀ W : Nat) : Mat :=
  let tab := valueTable R cfs n₀ W
  (List.range W).flatMap (fun j =>
    let vals := monos.map (fun m => R.comps (monoVal R (tableAt R tab j) m))
    (List.range R.ncomp).map (fun i => vals.map (fun v => v.getD i 0)))

/-- the window of the degree-≤k relation space: the size of the union of the formal shapes of all
monomials (no cancellation between different monomials) -/
def windowK [DecidableEq α] (R : RingOps α) (cfs : Env α) (monos : List Mono) : Nat :=
  windowOf (monos.flatMap (fun m => normTerms R (substMono R cfs m)))

/-! ## certificate checkers (DESIGN §2.5) -/

def entry (M : Mat) (r j : Nat) : Rat := (M.getD r []).getD j 0

def minor (M : Mat) (rs cs : List Nat) : Mat := rs.map (fun r => cs.map (fun j => entry M r j))

/-- one Gauss–Jordan step on column `k` of an augmented matrix (unverified helper: its result is only
used through the verified product test in `checkKernel`) -/
def gjStep (rows : Mat) (k : Nat) : Option Mat :=
  match (List.range rows.length).find? (fun i => decide (k ≤ i) && !(entry rows i k == 0)) with
  | none => none
  | some p =>
    let prow0 := rows.getD p []
    let piv := prow0.getD k 0
    let prow := prow0.map (fun x => x / piv)
    let rows1 := (rows.set p (rows.getD k [])).set k prow
    some (rows1.mapIdx (fun i r =>
      if i = k then r else
        let f := r.getD k 0
        if f = 0 then r else List.zipWith (fun a b => a - f * b) r prow))

/-- inverse of a square rational matrix by Gauss–Jordan elimination, `none` if singular -/
def inverse (S : Mat) : Option Mat :=
  let r := S.length
  let aug : Mat := S.mapIdx (fun i row => row ++ (List.range r).map (fun j => if i = j then (1 : Rat) else 0))
  ((List.range r).foldlM gjStep aug).map (fun rows => rows.map (fun row => row.drop r))

/-- `B` has the identity on the columns `free`: `B[i][free[j]] = δᵢⱼ` -/
def identityBlock (B : Mat) (free : List Nat) : Bool :=
  (List.range B.length).all (fun i =>
    (List.range free.length).all (fun j =>
      entry B i (free.getD j 0) == (if i = j then (1 : Rat) else 0)))

/-- `N · S = 1` for square `r×r` list matrices -/
def isLeftInverse (r : Nat) (N S : Mat) : Bool :=
  wellFormed N (List.replicate r 0) && wellFormed S (List.replicate r 0) && N.length == r &&
    matMul N S == identity r

/-- **Kernel certificate**: `c` columns; every row of `B` is in the kernel of `M`; `B` has an
identity block on the columns `free`; every column is free or a pivot column; the minor of `M` on
the rows `pivR` and the (distinct) columns `pivC`, of size `c − |B|`, is invertible.
`checkKernel_sound`: then the rows of `B` are a basis of `ker M`. -/
def checkKernel (c : Nat) (M B : Mat) (free pivR pivC : List Nat) : Bool :=
  M.all (fun row => row.length == c) && B.all (fun b => b.length == c)
  && M.all (fun row => B.all (fun b => dot row b == 0))
  && free.length == B.length && identityBlock B free
  && decide pivC.Nodup && pivC.all (fun j => decide (j < c))
  && (List.range c).all (fun j => free.contains j || pivC.contains j)
  && pivR.length == pivC.length && pivC.length + B.length == c
  && (match inverse (minor M pivR pivC) with
      | none => false
      | some N => isLeftInverse pivC.length N (minor M pivR pivC))

/-- `Σ cofᵢ · genᵢ` -/
def sumProd : List MPoly → List MPoly → MPoly
  | c :: cs, g :: gs => MPoly.add (MPoly.mul c g) (sumProd cs gs)
  | _, _ => []

/-- **Membership certificate**: the polynomial identity `p = Σ cofᵢ·genᵢ` -/
def checkMember (p : MPoly) (gens cofs : List MPoly) : Bool :=
  cofs.length == gens.length &&
    (MPoly.sub (MPoly.normalize p) (sumProd (cofs.map MPoly.normalize) (gens.map MPoly.normalize))).isEmpty

/-- the polynomial `Σ xⱼ · mⱼ` -/
def polyOfVec : List Mono → List Rat → MPoly
  | m :: ms, x :: xs => (m, x) :: polyOfVec ms xs
  | _, _ => []

/-- coefficient vector of a polynomial w.r.t. a monomial list (unverified helper of the op layer) -/
def vecOfPoly (monos : List Mono) (p : MPoly) : List Rat :=
  let q := MPoly.normalize p
  monos.map (fun m => ((q.find? (fun t => t.1 == Mono.norm m)).map (fun t => t.2)).getD 0)

structure RelVerdict where
  window : Nat
  ncols : Nat
  nrows : Nat
  kernelOk : Bool
  memberOk : List Bool
  deriving Repr

/-- **C07 validator**: with `monos` = all monomials of degree ≤ k in the goals, `M` = their values on
the window, check that `B` is a basis of `ker M` and that every `b ∈ B`, read as a polynomial, is a
combination of the reported `basis` with the given cofactors. -/
def relationsCheck [DecidableEq α] (R : RingOps α) (cfs : Env α) (k n₀ : Nat) (basis : List MPoly)
    (B : Mat) (free pivR pivC : List Nat) (cofs : List (List MPoly)) : RelVerdict :=
  let monos := monosUpTo (cfs.map (fun gc => gc.1)) k
  let W := windowK R cfs monos
  let M := evalMatrix R cfs monos n₀ W
  { window := W, ncols := monos.length, nrows := M.length,
    kernelOk := checkKernel monos.length M B free pivR pivC && B.length == cofs.length,
    memberOk := List.zipWith (fun b cf => checkMember (polyOfVec monos b) basis cf) B cofs }

def RelVerdict.ok (v : RelVerdict) : Bool := v.kernelOk && v.memberOk.all id

end Polar.Inv
