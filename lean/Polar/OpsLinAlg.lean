/-
  Polar/OpsLinAlg.lean — line-protocol ops of the C-finite engine (`Polar/LinAlg.lean`).

  matpow_seq    {"A":[["p/q",..],..],"v":[..],"nmax":k}
                → {"seq":[[..],..]}                      rows n = 0..k, row n = A^n v
  exppoly_eval  {"terms":[{"coef":c,"deg":k,"base":b},..], "ns":[n,..] | "nmax":k, ["D":"p/q"]}
                → {"values":[..]}                         Σ coef·n^deg·base^n  (0^0 = 1)
  cfinite_check {"A":..,"v":..,"i":i,"n0":n0 (default 0),
                 "terms":[{"coef","deg","base"},..], ["D":"p/q"]        -- Lean evaluates the closed form
               | "values":[g(n0),g(n0+1),..],"degs":[a_1,..]}           -- caller supplies exact values
                → {"agree":bool,"window":W,"first_bad":{"n","expected","got"}|null}
                  expected = (A^n v)_i, got = value of the closed form

  With "D" the numbers `coef`, `base` may be pairs ["a","b"] meaning a + b·√D (plain rationals are
  still accepted) and `values` / `got` are pairs.  Window: W = dim A + Σ over distinct bases of
  (max deg + 1) for "terms", W = dim A + Σ degs for "values" (at least W values are required).
  Soundness (`PolarProofs/LinAlgBridge.lean`): agree = true ⇒ equality for every n ≥ n0.
-/
import Polar.Ops
import Polar.LinAlg

namespace Polar
open Lean Polar.LinAlg

def jHas (j : Json) (k : String) : Bool :=
  match j.getObjVal? k with
  | .ok _ => true
  | .error _ => false

def jsonQD (x : QD) : Json := Json.arr #[jsonRat x.1, jsonRat x.2]

/-- a rational `"p/q"` or a pair `["a","b"]` = a + b√D -/
def jQD (j : Json) : D QD :=
  match j with
  | .arr a =>
    match a.toList with
    | [x, y] => do pure ((← jRat x), (← jRat y))
    | _ => throw s!"expected pair [a,b], got {j.compress}"
  | _ => do pure ((← jRat j), 0)

def decExpTerm (j : Json) : D ExpTerm := do
  pure { coef := ← jRat (← jField j "coef"), deg := ← jNat (← jField j "deg"),
         base := ← jRat (← jField j "base") }

def decExpTermQD (j : Json) : D ExpTermQD := do
  pure { coef := ← jQD (← jField j "coef"), deg := ← jNat (← jField j "deg"),
         base := ← jQD (← jField j "base") }

def jsonNat (n : Nat) : Json := Json.num n

def jsonRatRows (rows : List (List Rat)) : Json :=
  Json.arr (rows.map (fun r => Json.arr (r.map jsonRat).toArray)).toArray

def opMatPowSeq (j : Json) : D Json := do
  let A ← decRatMatrix (← jField j "A")
  let v ← decRatList (← jField j "v")
  let nmax ← jNat (← jField j "nmax")
  if !wellFormed A v then throw "matpow_seq: A must be square and v of the same dimension"
  pure (okJson [("seq", jsonRatRows (seqUpTo A v nmax))])

def decNs (j : Json) : D (List Nat) := do
  if jHas j "ns" then (← jArr (← jField j "ns")).mapM jNat
  else pure (List.range ((← jNat (← jField j "nmax")) + 1))

def opExpPolyEval (j : Json) : D Json := do
  let ns ← decNs j
  let tj ← jArr (← jField j "terms")
  if jHas j "D" then
    let Dq ← jRat (← jField j "D")
    let ts ← tj.mapM decExpTermQD
    pure (okJson [("values", Json.arr (ns.map (fun n => jsonQD (expPolyEvalQD Dq ts n))).toArray)])
  else
    let ts ← tj.mapM decExpTerm
    pure (okJson [("values", Json.arr (ns.map (fun n => jsonRat (expPolyEval ts n))).toArray)])

def checkAnswer {α : Type} (enc : α → Json) (r : Nat × Option (Mismatch α)) : Json :=
  okJson [("agree", Json.bool r.2.isNone), ("window", jsonNat r.1),
          ("first_bad", match r.2 with
            | none => Json.null
            | some m => Json.mkObj [("n", jsonNat m.n), ("expected", jsonRat m.expected),
                                    ("got", enc m.got)])]

def opCFiniteCheck (j : Json) : D Json := do
  let A ← decRatMatrix (← jField j "A")
  let v ← decRatList (← jField j "v")
  let i ← jNat (← jField j "i")
  let n₀ ← jNat (jFieldD j "n0" (Json.num 0))
  if jHas j "terms" then
    let tj ← jArr (← jField j "terms")
    if jHas j "D" then
      let Dq ← jRat (← jField j "D")
      let ts ← tj.mapM decExpTermQD
      pure (checkAnswer jsonQD (← cfiniteCheckQD Dq A v i n₀ ts))
    else
      let ts ← tj.mapM decExpTerm
      pure (checkAnswer jsonRat (← cfiniteCheck A v i n₀ ts))
  else if jHas j "values" then
    let vals ← decRatList (← jField j "values")
    let degs ← (← jArr (← jField j "degs")).mapM jNat
    pure (checkAnswer jsonRat (← cfiniteCheckValues A v i n₀ vals degs))
  else throw "cfinite_check: need \"terms\" or \"values\"+\"degs\""

def linAlgOps : List (String × (Json → D Json)) :=
  [("matpow_seq", opMatPowSeq), ("exppoly_eval", opExpPolyEval), ("cfinite_check", opCFiniteCheck)]

end Polar
