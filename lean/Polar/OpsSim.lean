/-
  Polar/OpsSim.lean — line-protocol operations of the simulator model (C12).

    sim_paths    {program, n, vars, sigma0?, cap?}  → every tape with probability and final values of `vars`
    sim_dist     {program, n, vars, sigma0?}        → merged joint law of `vars` after n iterations (simulator model)
    sim_run      {program, n, tape, sigma0?}        → final state of the tape-driven interpreter
    sampler_call {family, params}                   → scipy call as coded / as documented, supports
-/
import Polar.Proto
import Polar.Ops
import Polar.SimModel

namespace Polar.SimOps
open Lean Polar Polar.Sim

def decSimState (j : Json) : D Sim.State := do
  match j with
  | .obj kvs => kvs.toList.foldlM (fun (acc : Sim.State) (kv : String × Json) => do
      pure (acc.set kv.1 (← jRat kv.2))) []
  | _ => throw "sigma0 must be an object"

def jsonEntry : Entry → Json
  | .idx i => Json.arr #[Json.str "i", Json.num i]
  | .val v => Json.arr #[Json.str "v", jsonRat v]

def decEntry (j : Json) : D Entry := do
  match ← jArr j with
  | [.str "i", k] => pure (.idx (← jNat k))
  | [.str "v", v] => pure (.val (← jRat v))
  | _ => throw s!"bad tape entry {j.compress}"

def jsonOptRat : Option Rat → Json
  | some r => jsonRat r
  | none => Json.null

def projState (vars : List String) (σ : Sim.State) : List (Option Rat) := vars.map (fun x => σ.get? x)

def simSigma0 (j : Json) : D Sim.State :=
  match j.getObjVal? "sigma0" with
  | .ok v => decSimState v
  | .error _ => pure []

def opSimPaths (j : Json) : D Json := do
  let P ← decProgram (← jField j "program")
  let n ← jNat (← jField j "n")
  let vars ← (← jArr (← jField j "vars")).mapM jStr
  let σ₀ ← simSigma0 j
  let cap := match (jFieldD j "cap" (Json.num 20000)).getNat? with
    | .ok b => b
    | .error _ => 20000
  -- iterate one step at a time so that an explosion is refused early
  let mut d ← pathsBlock false defaultTmp P.init σ₀
  for _ in List.range n do
    if d.length > cap then throw "too-many-paths"
    d ← bindPaths d (pathsIter false defaultTmp P)
  if d.length > cap then throw "too-many-paths"
  pure (okJson [("paths", Json.arr (d.map (fun (p : PathS) =>
    Json.arr #[jsonRat p.1, Json.arr (p.2.1.map jsonEntry).toArray,
               Json.arr ((projState vars p.2.2).map jsonOptRat).toArray])).toArray)])

def mergeProj (proj : List (Rat × List (Option Rat))) : List (Rat × List (Option Rat)) :=
  let merged := proj.foldl (fun (acc : List (Rat × List (Option Rat))) (wv : Rat × List (Option Rat)) =>
    let rec ins : List (Rat × List (Option Rat)) → List (Rat × List (Option Rat))
      | [] => [wv]
      | (w, v) :: t => if v = wv.2 then (w + wv.1, v) :: t else (w, v) :: ins t
    ins acc) []
  merged.filter (fun wv => wv.1 ≠ 0)

def opSimDist (j : Json) : D Json := do
  let P ← decProgram (← jField j "program")
  let n ← jNat (← jField j "n")
  let vars ← (← jArr (← jField j "vars")).mapM jStr
  let σ₀ ← simSigma0 j
  let cap := match (jFieldD j "cap" (Json.num 20000)).getNat? with
    | .ok b => b
    | .error _ => 20000
  let mut d ← pathsBlock false defaultTmp P.init σ₀
  let mut rows : List Json := []
  let row (d : List PathS) : Json :=
    let m := mergeProj (d.map (fun (p : PathS) => (p.1, projState vars p.2.2)))
    Json.arr (m.map (fun (wv : Rat × List (Option Rat)) =>
      Json.arr #[jsonRat wv.1, Json.arr (wv.2.map jsonOptRat).toArray])).toArray
  rows := rows ++ [row d]
  for _ in List.range n do
    if d.length > cap then throw "too-many-paths"
    d ← bindPaths d (pathsIter false defaultTmp P)
    rows := rows ++ [row d]
  pure (okJson [("dists", Json.arr rows.toArray), ("npaths", Json.num d.length)])

def opSimRun (j : Json) : D Json := do
  let P ← decProgram (← jField j "program")
  let n ← jNat (← jField j "n")
  let tape ← (← jArr (← jField j "tape")).mapM decEntry
  let σ₀ ← simSigma0 j
  let (σ, rest) ← simRun defaultTmp P n σ₀ tape
  pure (okJson [("state", Json.mkObj (σ.map (fun (kv : String × Rat) => (kv.1, jsonRat kv.2)))),
                ("unread", Json.num rest.length)])

def jsonSArg (a : SArg) : Json :=
  match a with
  | .q r => Json.mkObj [("kind", Json.str "q"), ("v", jsonRat r)]
  | .sqrt r => Json.mkObj [("kind", Json.str "sqrt"), ("r", jsonRat r), ("v", jsonOptRat a.toRat?)]
  | .divSqrt n s => Json.mkObj [("kind", Json.str "divSqrt"), ("n", jsonRat n), ("s", jsonRat s), ("v", jsonOptRat a.toRat?)]

def jsonCall : Option ScipyCall → Json
  | none => Json.null
  | some c => Json.mkObj [("fn", Json.str c.fn), ("shape", Json.arr (c.shape.map jsonSArg).toArray),
                          ("loc", jsonSArg c.loc), ("scale", jsonSArg c.scale), ("post", jsonRat c.post)]

def jsonSupport : Option (Bound × Bound) → Json
  | none => Json.null
  | some (lo, hi) => Json.arr #[jsonOptRat lo, jsonOptRat hi]

def opSamplerCall (j : Json) : D Json := do
  let fam ← jStr (← jField j "family")
  let ps ← decRatList (← jField j "params")
  let code := samplerCall fam ps
  let spec := samplerSpecCall fam ps
  pure (okJson [("code", jsonCall code), ("spec", jsonCall spec),
                ("agree", Json.bool (code == spec)),
                ("code_support", jsonSupport (code.bind ScipyCall.support)),
                ("spec_support", jsonSupport (spec.bind ScipyCall.support)),
                ("declared_support", jsonSupport (declaredSupport fam ps))])

end Polar.SimOps

namespace Polar
open Lean

def simOps : List (String × (Json → D Json)) :=
  [("sim_paths", SimOps.opSimPaths), ("sim_dist", SimOps.opSimDist), ("sim_run", SimOps.opSimRun),
   ("sampler_call", SimOps.opSamplerCall)]

end Polar
