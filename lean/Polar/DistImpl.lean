/-
  Polar/DistImpl.lean — model of what `/repo/program/distribution/*.py` and
  `/repo/program/transformer/dist_transformer.py` *compute* (C08), next to the specification
  `momentSpec` of `Polar/Dist.lean`.

  `get_moment` per family in the code:
    Bernoulli        own formula: `return One() if k == 0 else self.p`                   → mirrored
    Uniform          own formula: (b^(k+1) − a^(k+1)) / ((k+1)(b−a))                     → mirrored
    Exponential      own formula: factorial(k) / lamb^k                                  → mirrored
    Categorical      own loop:    m += i^k · p_i over enumerate(probabilities)           → mirrored
    DiscreteUniform  own loop:    m += v^k · 1/len(values) over range(lo, hi+1)          → mirrored
    TruncNormal      own recursion over φ/Φ (irrational), then `evalf(50)` as a rational → mirrored with
                     φ(α), φ(β), Φ(β)−Φ(α) as opaque rational inputs (`truncNormalRec`), rounding not modelled
    Normal, Laplace, Gamma, Beta   delegate to `sympy.stats.E(x**k)`                      → nothing to mirror
                     (Beta multiplies the sympy value by scale^k: `betaScaledMoment`)
  No Mathlib.
-/
import Polar.Dist

namespace Polar

/-! ### `get_moment` -/

/-- Bernoulli.get_moment(k) = 1 if k == 0 else p  (repaired code, /repo 32294d7) -/
def bernoulliImpl (p : Rat) (k : Nat) : Rat := if k = 0 then 1 else p

/-- Uniform.get_moment(k) = (b^(k+1) − a^(k+1)) / ((k+1)·(b−a)) -/
def uniformImpl (a b : Rat) (k : Nat) : Rat :=
  (b ^ (k + 1) - a ^ (k + 1)) / (((k : Rat) + 1) * (b - a))

/-- Exponential.get_moment(k) = factorial(k) / lamb^k -/
def exponentialImpl (lam : Rat) (k : Nat) : Rat := (factorial k : Rat) / lam ^ k

/-- Categorical.get_moment: `m = 0; for i, p in enumerate(ps): m += i**k * p` -/
def categoricalImplAux (k : Nat) : Nat → List Rat → Rat → Rat
  | _, [], m => m
  | i, p :: t, m => categoricalImplAux k (i + 1) t (m + (i : Rat) ^ k * p)

def categoricalImpl (ps : List Rat) (k : Nat) : Rat := categoricalImplAux k 0 ps 0

/-- DiscreteUniform: `values = range(lo, hi + 1)` -/
def discreteUniformValues (lo hi : Int) : List Rat :=
  (List.range (hi + 1 - lo).toNat).map (fun (i : Nat) => (lo : Rat) + (i : Rat))

/-- DiscreteUniform.get_moment: `m = 0; p = 1/len(values); for v in values: m += v**k * p` -/
def discreteUniformImpl (lo hi : Int) (k : Nat) : Rat :=
  let vs := discreteUniformValues lo hi
  vs.foldl (fun m v => m + v ^ k * ((1 : Rat) / (vs.length : Rat))) 0

/-- Beta.get_moment(k) = scale^k · E(x^k) with the inner expectation delegated to sympy.stats -/
def betaScaledMoment (a b scale : Rat) (k : Nat) : Rat := scale ^ k * betaMoment a b k

/-- TruncNormal.get_moment's recursion
    `m_i = (i−1)·σ²·m_{i−2} + μ·m_{i−1} − σ·(b^{i−1}·φ(β) − a^{i−1}·φ(α)) / (Φ(β) − Φ(α))`
    with `m_{−1} = 0`, `m_0 = 1`; `pa = φ(α)`, `pb = φ(β)`, `dP = Φ(β) − Φ(α)` are inputs. -/
def truncNormalRec (mu s2 sigma a b pa pb dP : Rat) : Nat → Rat
  | 0 => 1
  | 1 => mu - sigma * (pb - pa) / dP
  | k + 2 => ((k : Rat) + 1) * s2 * truncNormalRec mu s2 sigma a b pa pb dP k
             + mu * truncNormalRec mu s2 sigma a b pa pb dP (k + 1)
             - sigma * (b ^ (k + 1) * pb - a ^ (k + 1) * pa) / dP

/-- what `get_moment(k)` returns where the code uses a closed formula of its own; `none` = the
    family delegates to sympy.stats (or the formula is undefined: Uniform a = b gives 0/0) -/
def momentImpl (a : Atom) (k : Nat) : Option Rat :=
  match a.family, a.params with
  | "Bernoulli", [p] => some (bernoulliImpl p k)
  | "Uniform", [lo, hi] => if lo = hi then none else some (uniformImpl lo hi k)
  | "Exponential", [lam] => if lam = 0 then none else some (exponentialImpl lam k)
  | "Categorical", ps => if ps = [] then none else some (categoricalImpl ps k)
  | "DiscreteUniform", [lo, hi] =>
    if lo.den = 1 ∧ hi.den = 1 ∧ lo ≤ hi then some (discreteUniformImpl lo.num hi.num k) else none
  | _, _ => none

/-! ### `get_support`, `is_discrete` -/

/-- one element of `get_support()`: a single value or an interval (bound `none` = ∓∞) -/
inductive SuppItem where
  | point (v : Rat)
  | interval (lo hi : Option Rat)
  deriving DecidableEq, Repr, Inhabited

def supportImpl (a : Atom) : Option (List SuppItem) :=
  match a.family, a.params with
  | "Bernoulli", [_] => some [.point 0, .point 1]
  | "Categorical", ps =>
    if ps = [] then none else some ((List.range ps.length).map (fun (i : Nat) => SuppItem.point (i : Rat)))
  | "DiscreteUniform", [lo, hi] =>
    if lo.den = 1 ∧ hi.den = 1 ∧ lo ≤ hi then
      some ((discreteUniformValues lo.num hi.num).map SuppItem.point) else none
  | "Uniform", [lo, hi] => some [.interval (some lo) (some hi)]
  | "TruncNormal", [_, _, lo, hi] => some [.interval (some lo) (some hi)]
  | "Beta", [_, _] => some [.interval (some 0) (some 1)]
  | "Beta", [_, _, s] => some [.interval (some 0) (some s)]
  | "Exponential", [_] => some [.interval (some 0) none]
  | "Gamma", [_, _] => some [.interval (some 0) none]
  | "Normal", [_, _] => some [.interval none none]
  | "Laplace", [_, _] => some [.interval none none]
  | _, _ => none

def isDiscreteImpl (family : String) : Option Bool :=
  if family ∈ ["Bernoulli", "Categorical", "DiscreteUniform"] then some true
  else if family ∈ ["Uniform", "TruncNormal", "Beta", "Exponential", "Gamma", "Normal", "Laplace"] then some false
  else none

/-- membership of a rational value in the declared support -/
def SuppItem.contains (v : Rat) : SuppItem → Bool
  | .point w => v == w
  | .interval lo hi =>
    (match lo with | some l => decide (l ≤ v) | none => true) &&
    (match hi with | some h => decide (v ≤ h) | none => true)

/-! ### DistTransformer: the four location/scale rewritings as moment-sequence transformers -/

/-- moments of `mu + sigma·Z` from the moments `ms` of `Z` (binomial theorem, Z independent of mu, sigma):
    `Σ_j C(k,j) mu^(k−j) sigma^j ms_j` — this is what Polar computes after the rewriting, because the new
    assignment is the polynomial `mu + sigma·t` in the fresh draw `t`. -/
def locScaleMoments (mu sigma : Rat) (ms : Nat → Rat) (k : Nat) : Rat :=
  (List.range (k + 1)).foldl
    (fun acc j => acc + (choose k j : Rat) * mu ^ (k - j) * sigma ^ j * ms j) 0

/-- `_transform_normal`: `y = Normal(mu, s2)` ↦ `t = Normal(0,1); y = mu + (s2)**(1/2)·t` (sigma rational) -/
def normalRewriteMoments (mu sigma : Rat) (k : Nat) : Rat :=
  locScaleMoments mu sigma (normalMoment 0 1) k

/-- the same when only `s2 = sigma²` is rational: odd powers of `sigma` meet the vanishing odd moments of
    `Normal(0,1)`, even powers are powers of `s2` -/
def normalRewriteMomentsSq (mu s2 : Rat) (k : Nat) : Rat :=
  (List.range (k + 1)).foldl
    (fun acc j => acc + (choose k j : Rat) * mu ^ (k - j) *
      (if j % 2 = 0 then s2 ^ (j / 2) * normalMoment 0 1 j else 0)) 0

/-- `_transform_uniform`: `y = Uniform(a, b)` ↦ `t = Uniform(0,1); y = a + (b − a)·t` -/
def uniformRewriteMoments (a b : Rat) (k : Nat) : Rat :=
  locScaleMoments a (b - a) (uniformMoment 0 1) k

/-- `_transform_laplace`: `y = Laplace(mu, b)` ↦ `t = Laplace(0, b); y = mu + t` -/
def laplaceRewriteMoments (mu b : Rat) (k : Nat) : Rat :=
  locScaleMoments mu 1 (laplaceMoment 0 b) k

/-- `_transform_exponential`: `y = Exponential(num/den)` ↦ `t = Exponential(num); y = den·t` -/
def exponentialRewriteMoments (num den : Rat) (k : Nat) : Rat :=
  locScaleMoments 0 den (exponentialMoment num) k

end Polar
