/-
  Polar/Validate.lean — verified validators that turn two sampled correspondence checks (C05, C03) into
  per-instance statements for ALL n (soundness: `PolarProofs/Validate.lean`).

  The reference semantics (`Polar/Sem.lean`) already computes with polynomial values.  Executing a block from
  a store in which a variable `x` holds the polynomial `MPoly.var x` ("unknown value of x") is therefore a
  *symbolic execution*: it succeeds only when every condition and every probability evaluates to a constant,
  and then the resulting values are polynomials in the free symbols that describe the result for EVERY value
  of those symbols (theorem `exec_sim`).

  * `checkInductive cap Γ0 Γ P`  — the finite types are an inductive invariant of the normalised program `P`
      (`Γ0 ⊆ Γ`: types established by the init block / types that hold after every iteration; `Γ0 = Γ` when the
      init block assigns every typed variable):
      (i)  after the init block, started from the all-symbolic store, every `Γ0`-variable is a constant of its
           set on every path of non-zero weight;
      (ii) for every assignment of `Γ0`-values to the `Γ0`-variables (all other variables symbolic), after one
           `iter P` every `Γ`-variable is a constant of its set on every path of non-zero weight.
  * `checkOneStep cap Γ P M terms` — for every such assignment the polynomial-valued expectation of the monomial
      `M` over one `iter P` equals `Σ cᵢ · Mᵢ(store)` as normalised polynomials in the free symbols
      (the constant of a recurrence is the term with the empty monomial).

  Fragment (`Fragment P`): flat guarded assignments whose right side is an expression, a probabilistic choice,
  `Bernoulli`, `Categorical` or `DiscreteUniform`; no `simult`, no `ite`, no continuous draw.
  `checkInductiveC` is the same procedure for `FragmentC P` (continuous draws allowed, variable names must not start
  with `@`); its soundness theorem reads "constant" as "constant function of the draw atoms".
  V2 for `FragmentC P` is `checkOneStepC` in `Polar/ValidateStepC.lean`.
-/
import Polar.Sem

namespace Polar
namespace Validate

abbrev TypeEnv := List (String × List Rat)
abbrev Assign := List (String × Rat)
abbrev Terms := List (Mono × Rat)

/-! ### the fragment -/

def rhsOK : Rhs → Bool
  | .expr _ => true
  | .choice _ => true
  | .dist name _ => name == "Bernoulli" || name == "Categorical" || name == "DiscreteUniform"

def stmtOK : Stmt → Bool
  | .assign _ rhs _ _ => rhsOK rhs
  | _ => false

/-- decidable description of the programs the validators accept -/
def Fragment (P : Program) : Bool := P.init.all stmtOK && P.body.all stmtOK

/-! ### variable names (only used to build the symbolic start store; soundness does not depend on it) -/

def exprVars : Expr → List String
  | .num _ => []
  | .var x => [x]
  | .add a b => exprVars a ++ exprVars b
  | .sub a b => exprVars a ++ exprVars b
  | .mul a b => exprVars a ++ exprVars b
  | .neg a => exprVars a
  | .pow a _ => exprVars a
  | .div a b => exprVars a ++ exprVars b

def condVars : Cond → List String
  | .tt => []
  | .ff => []
  | .cmp _ l r => exprVars l ++ exprVars r
  | .not c => condVars c
  | .and a b => condVars a ++ condVars b
  | .or a b => condVars a ++ condVars b

def rhsVars : Rhs → List String
  | .expr e => exprVars e
  | .choice alts => alts.flatMap (fun a => exprVars a.1 ++ exprVars a.2)
  | .dist _ ps => ps.flatMap exprVars

def stmtVars : Stmt → List String
  | .assign x rhs g d => x :: d :: (rhsVars rhs ++ condVars g)
  | _ => []

def progVars (P : Program) : List String :=
  (P.init.flatMap stmtVars ++ condVars P.guard ++ P.body.flatMap stmtVars).eraseDups

def symVars (Γ : TypeEnv) (P : Program) (extra : List String) : List String :=
  progVars P ++ Γ.map (·.1) ++ extra

/-! ### symbolic stores and the enumeration of Γ-states -/

/-- every listed variable holds itself as a free symbol -/
def freeStore (xs : List String) : Store := xs.foldl (fun s x => s.set x (MPoly.var x)) []

/-- overwrite the listed variables by constants -/
def assignStore (s : Store) (a : Assign) : Store :=
  a.foldl (fun s (xc : String × Rat) => s.set xc.1 (MPoly.const xc.2)) s

/-- all assignments of type values to the typed variables (Cartesian product) -/
def enumΓ : TypeEnv → List Assign
  | [] => [[]]
  | (x, vs) :: Γ => vs.flatMap (fun c => (enumΓ Γ).map (fun a => (x, c) :: a))

/-- number of Γ-states -/
def card (Γ : TypeEnv) : Nat := Γ.foldr (fun e acc => e.2.length * acc) 1

/-- the value is a constant of the set -/
def holdsIn (vs : List Rat) (v : Option MPoly) : Bool :=
  match v with
  | some p =>
    match MPoly.isConst? p with
    | some c => vs.contains c
    | none => false
  | none => false

def satΓ (Γ : TypeEnv) (s : Store) : Bool := Γ.all (fun e => holdsIn e.2 (s.get? e.1))

/-- first path of non-zero weight on which some typed variable is not a constant of its set -/
def badPath (Γ : TypeEnv) (D : WD) : Option (Rat × Path) :=
  D.find? (fun wp => !(wp.1 == 0 || satΓ Γ wp.2.vals))

/-- first element on which `f` reports a counterexample -/
def firstFail {α β : Type} (f : α → M (Option β)) : List α → M (Option β)
  | [] => pure none
  | a :: as => do
    match ← f a with
    | some b => pure (some b)
    | none => firstFail f as

/-- refusals common to both validators -/
def admissible (cap : Nat) (Γ : TypeEnv) (P : Program) : M Unit :=
  if Fragment P = false then throw "validate: program outside the fragment (simult / ite / continuous draw)"
  else if Γ.any (fun e => e.2.isEmpty) = true then throw "validate: empty type"
  else if cap < card Γ then throw s!"validate: {card Γ} type states exceed the cap {cap}"
  else pure ()

/-! ### V1: types are an inductive invariant -/

structure Cex where
  stage : String            -- "init" or "step"
  assign : Assign           -- the Γ-state the step started from ([] for init)
  weight : Rat
  vals : Store              -- the offending path
  deriving Inhabited

def stepCex (Γ : TypeEnv) (P : Program) (S0 : Store) (a : Assign) : M (Option Cex) := do
  let D ← iter P ⟨assignStore S0 a, []⟩
  pure ((badPath Γ D).map (fun wp => ⟨"step", a, wp.1, wp.2.vals⟩))

/-- every entry of `Γ0` is an entry of `Γ` -/
def subEnv (Γ0 Γ : TypeEnv) : Bool := Γ0.all (fun e => Γ.contains e)

/-- `Γ0`: the types that hold at the loop head from n = 0 on (typed variables the init block assigns);
    `Γ ⊇ Γ0`: the types that hold after every iteration.  Normalisation introduces typed auxiliary variables that
    the init block does not assign: they hold an arbitrary value at n = 0, so they belong to `Γ` only.  The step
    is checked from every `Γ0`-state with ALL other variables (the variables of `Γ \ Γ0` included) symbolic. -/
def inductiveCex (cap : Nat) (Γ0 Γ : TypeEnv) (P : Program) : M (Option Cex) := do
  admissible cap Γ0 P
  if subEnv Γ0 Γ = false then throw "validate: types0 is not a sub-environment of types"
  else
    let S0 := freeStore (symVars Γ P [])
    let D0 ← execBlock P.init ⟨S0, []⟩
    match badPath Γ0 D0 with
    | some wp => pure (some ⟨"init", [], wp.1, wp.2.vals⟩)
    | none => firstFail (stepCex Γ P S0) (enumΓ Γ0)

def checkInductive (cap : Nat) (Γ0 Γ : TypeEnv) (P : Program) : M Bool := do
  pure (← inductiveCex cap Γ0 Γ P).isNone

/-- the typed variables the init block assigns: the default `Γ0` of the protocol -/
def initAssigned (P : Program) : List String :=
  P.init.filterMap (fun st => match st with
    | .assign x _ _ _ => some x
    | _ => none)

def initTypes (Γ : TypeEnv) (P : Program) : TypeEnv := Γ.filter (fun e => (initAssigned P).contains e.1)

/-! ### V1 for programs with continuous draws

A continuous draw contributes a fresh atom `@i`; values are then polynomials over free symbols and atoms.  The same
executable check is sound (theorem `checkInductiveC_sound`), with the conclusion read semantically: a typed variable
holds a polynomial that evaluates to a constant of its set under every valuation of the atoms.  Program variables
must not look like atom names. -/

def rhsOKC : Rhs → Bool
  | .expr _ => true
  | .choice _ => true
  | .dist name _ =>
    name == "Bernoulli" || name == "Categorical" || name == "DiscreteUniform" || name == "Normal" ||
    name == "Uniform" || name == "Laplace" || name == "Exponential" || name == "Gamma" || name == "Beta"

def stmtOKC : Stmt → Bool
  | .assign _ rhs _ _ => rhsOKC rhs
  | _ => false

def FragmentC (P : Program) : Bool := P.init.all stmtOKC && P.body.all stmtOKC

/-- no name starts with `@` (the names of draw atoms) -/
def atomFree (xs : List String) : Bool := xs.all (fun x => x.toList.head? != some '@')

def admissibleC (cap : Nat) (Γ : TypeEnv) (P : Program) (xs : List String) : M Unit :=
  if FragmentC P = false then throw "validate: program outside the fragment (simult / ite / unknown distribution)"
  else if atomFree xs = false then throw "validate: a variable name starts with @"
  else if Γ.any (fun e => e.2.isEmpty) = true then throw "validate: empty type"
  else if cap < card Γ then throw s!"validate: {card Γ} type states exceed the cap {cap}"
  else pure ()

def inductiveCexC (cap : Nat) (Γ0 Γ : TypeEnv) (P : Program) : M (Option Cex) := do
  admissibleC cap Γ0 P (symVars Γ P [])
  if subEnv Γ0 Γ = false then throw "validate: types0 is not a sub-environment of types"
  else
    let S0 := freeStore (symVars Γ P [])
    let D0 ← execBlock P.init ⟨S0, []⟩
    match badPath Γ0 D0 with
    | some wp => pure (some ⟨"init", [], wp.1, wp.2.vals⟩)
    | none => firstFail (stepCex Γ P S0) (enumΓ Γ0)

def checkInductiveC (cap : Nat) (Γ0 Γ : TypeEnv) (P : Program) : M Bool := do
  pure (← inductiveCexC cap Γ0 Γ P).isNone

/-! ### V2: a recurrence is a one-step identity on every Γ-state -/

/-- polynomial-valued expectation of a program monomial: Σ_paths w · value(M) -/
def expPoly (D : WD) (m : Mono) : M MPoly :=
  D.foldrM (fun (wp : Rat × Path) acc => do
    pure (MPoly.add (MPoly.scale wp.1 (← monoValue wp.2.vals m)) acc)) []

/-- Σ cᵢ · Mᵢ(store) as a polynomial -/
def linPoly (s : Store) (terms : Terms) : M MPoly :=
  terms.foldrM (fun (t : Mono × Rat) acc => do
    pure (MPoly.add (MPoly.scale t.2 (← monoValue s t.1)) acc)) []

structure StepCex where
  assign : Assign
  lhs : MPoly
  rhs : MPoly
  deriving Inhabited

def termVars (m : Mono) (terms : Terms) : List String :=
  m.map (·.1) ++ terms.flatMap (fun t => t.1.map (·.1))

def oneStepAt (P : Program) (S0 : Store) (m : Mono) (terms : Terms) (a : Assign) : M (Option StepCex) := do
  let S := assignStore S0 a
  let D ← iter P ⟨S, []⟩
  let lhs ← expPoly D m
  let rhs ← linPoly S terms
  if MPoly.normalize lhs = MPoly.normalize rhs then pure none else pure (some ⟨a, lhs, rhs⟩)

def oneStepCex (cap : Nat) (Γ : TypeEnv) (P : Program) (m : Mono) (terms : Terms) : M (Option StepCex) := do
  admissible cap Γ P
  let S0 := freeStore (symVars Γ P (termVars m terms))
  firstFail (oneStepAt P S0 m terms) (enumΓ Γ)

def checkOneStep (cap : Nat) (Γ : TypeEnv) (P : Program) (m : Mono) (terms : Terms) : M Bool := do
  pure (← oneStepCex cap Γ P m terms).isNone

/-! ### the concrete quantities the soundness theorems speak about -/

/-- Σ cᵢ · Mᵢ(path) -/
def linE (q : Path) (terms : Terms) : M Rat :=
  terms.foldrM (fun (t : Mono × Rat) acc => do pure (t.2 * (← pathE t.1 q) + acc)) 0

/-- Σ cᵢ · E(Mᵢ) over a weighted list of paths -/
def linCombE (D : WD) (terms : Terms) : M Rat :=
  terms.foldrM (fun (t : Mono × Rat) acc => do pure (t.2 * (← D.E t.1) + acc)) 0

/-- E(M) after n iterations over the un-merged run -/
def momentU (P : Program) (m : Mono) (n : Nat) (σ₀ : Store) : M Rat := do
  (← run P false n σ₀).E m

end Validate
end Polar
