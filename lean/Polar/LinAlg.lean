/-
  Polar/LinAlg.lean — exact rational linear algebra on lists and the executable C-finite window
  check (DESIGN §2.4).  No Mathlib.  The functions are deliberately first-order and structurally
  recursive; `PolarProofs/LinAlgBridge.lean` connects them to Mathlib's `Matrix` and proves the
  soundness of `cfiniteCheck` from `CFin.cfinite_ext`.

  Conventions: a matrix is the list of its rows; `dot` truncates to the shorter list and `getD … 0`
  pads, so every function is total; the checks refuse ill-formed (non-square) input up front.
-/
namespace Polar.LinAlg

abbrev Vec := List Rat
abbrev Mat := List (List Rat)

/-- sum of a list of rationals (right fold, so that `rsum (a :: l) = a + rsum l` by `rfl`) -/
def rsum : List Rat → Rat
  | [] => 0
  | a :: l => a + rsum l

def nsum : List Nat → Nat
  | [] => 0
  | a :: l => a + nsum l

def dot : List Rat → List Rat → Rat
  | a :: as, b :: bs => a * b + dot as bs
  | _, _ => 0

def matVec (A : Mat) (v : Vec) : Vec := A.map (fun row => dot row v)

/-- column `j` of `B` -/
def col (B : Mat) (j : Nat) : Vec := B.map (fun r => r.getD j 0)

def ncols : Mat → Nat
  | [] => 0
  | r :: _ => r.length

def matMul (A B : Mat) : Mat :=
  A.map (fun row => (List.range (ncols B)).map (fun j => dot row (col B j)))

def identity (d : Nat) : Mat :=
  (List.range d).map (fun i => (List.range d).map (fun j => if i = j then (1 : Rat) else 0))

def matPow (A : Mat) : Nat → Mat
  | 0 => identity A.length
  | n + 1 => matMul A (matPow A n)

/-- `A^n v` by iterated matrix–vector products -/
def matPowVec (A : Mat) (v : Vec) : Nat → Vec
  | 0 => v
  | n + 1 => matVec A (matPowVec A v n)

/-- `[v, Av, …, A^N v]`, computed incrementally -/
def seqUpTo (A : Mat) (v : Vec) : Nat → List Vec
  | 0 => [v]
  | N + 1 => v :: seqUpTo A (matVec A v) N

/-- square `d×d` matrix and vector of length `d` (with `d = A.length`) -/
def wellFormed (A : Mat) (v : Vec) : Bool :=
  v.length == A.length && A.all (fun r => r.length == A.length)

/-! ### exponential polynomials with rational bases -/

/-- the term `coef · n^deg · base^n` -/
structure ExpTerm where
  coef : Rat
  deg : Nat
  base : Rat
  deriving Repr, DecidableEq

def ExpTerm.eval (t : ExpTerm) (n : Nat) : Rat := t.coef * (n : Rat) ^ t.deg * t.base ^ n

/-- `Σ_t coef_t · n^deg_t · base_t^n` (with `0^0 = 1`) -/
def expPolyEval (ts : List ExpTerm) (n : Nat) : Rat := rsum (ts.map (fun t => t.eval n))

/-- record that base `ρ` occurs with `n`-degree `< a`: distinct bases keep the maximal bound -/
def insertShape {β : Type} [DecidableEq β] (ρ : β) (a : Nat) : List (β × Nat) → List (β × Nat)
  | [] => [(ρ, a)]
  | (σ, b) :: r => if σ = ρ then (σ, max a b) :: r else (σ, b) :: insertShape ρ a r

/-- the term shape: each distinct base with (max degree at that base) + 1 -/
def shapeOf (ts : List ExpTerm) : List (Rat × Nat) :=
  ts.foldr (fun t acc => insertShape t.base (t.deg + 1) acc) []

/-- `Σ a_t` of a shape -/
def shapeSizeOf {β : Type} (s : List (β × Nat)) : Nat := nsum (s.map (fun p => p.2))

/-- window length of the extension principle for a `d×d` matrix: `d + Σ_bases (maxdeg + 1)` -/
def windowOf (d : Nat) (ts : List ExpTerm) : Nat := d + shapeSizeOf (shapeOf ts)

/-! ### the window check -/

/-- first disagreement: index, value of the matrix sequence `(A^n v)_i`, value of the closed form -/
structure Mismatch (α : Type) where
  n : Nat
  expected : Rat
  got : α
  deriving Repr, DecidableEq

/-- walk `k` steps from the state `w = A^n v`, testing `ok n (w_i)` at each step; returns the first
index (and the matrix value there) at which the test fails -/
def checkFrom (A : Mat) (i : Nat) (ok : Nat → Rat → Bool) : Vec → Nat → Nat → Option (Nat × Rat)
  | _, _, 0 => none
  | w, n, k + 1 =>
    if ok n (w.getD i 0) then checkFrom A i ok (matVec A w) (n + 1) k else some (n, w.getD i 0)

/-- test `ok n ((A^n v)_i)` for `n₀ ≤ n < n₀ + W` -/
def checkWindow (A : Mat) (v : Vec) (i n₀ W : Nat) (ok : Nat → Rat → Bool) : Option (Nat × Rat) :=
  checkFrom A i ok (matPowVec A v n₀) n₀ W

def checkShape (A : Mat) (v : Vec) (i : Nat) : Except String Unit :=
  if !wellFormed A v then .error "cfinite: A must be square and v of the same dimension"
  else if A.length ≤ i then .error "cfinite: component index out of range"
  else .ok ()

/-- **The executable check** (rational bases, Lean evaluates the closed form itself): compare
`expPolyEval terms n` with `(A^n v)_i` for `n₀ ≤ n < n₀ + W`, `W = windowOf d terms`.
Returns `W` and the first disagreement (`none` = agreement on the whole window, which by
`cfiniteCheck_sound` implies agreement for every `n ≥ n₀`). -/
def cfiniteCheck (A : Mat) (v : Vec) (i n₀ : Nat) (terms : List ExpTerm) :
    Except String (Nat × Option (Mismatch Rat)) :=
  match checkShape A v i with
  | .error e => .error e
  | .ok () =>
    let W := windowOf A.length terms
    .ok (W, (checkWindow A v i n₀ W (fun n x => expPolyEval terms n == x)).map
      (fun p => ⟨p.1, p.2, expPolyEval terms p.1⟩))

/-- variant with externally supplied exact values `values[k] = g(n₀ + k)` of a closed form whose
shape has the degree bounds `degs` (`a_t = deg_t + 1` per distinct base); the window is
`d + Σ degs` and `values` must cover it -/
def cfiniteCheckValues (A : Mat) (v : Vec) (i n₀ : Nat) (values : List Rat) (degs : List Nat) :
    Except String (Nat × Option (Mismatch Rat)) :=
  match checkShape A v i with
  | .error e => .error e
  | .ok () =>
    let W := A.length + nsum degs
    if values.length < W then .error s!"cfinite: need {W} values, got {values.length}"
    else
      .ok (W, (checkWindow A v i n₀ W (fun n x => values.getD (n - n₀) 0 == x)).map
        (fun p => ⟨p.1, p.2, values.getD (p.1 - n₀) 0⟩))

/-! ### the quadratic ring ℚ[√D] as pairs `a + b√D` (D fixed per request; any rational D) -/

abbrev QD := Rat × Rat

namespace QD
def ofRat (r : Rat) : QD := (r, 0)
def add (x y : QD) : QD := (x.1 + y.1, x.2 + y.2)
def mul (D : Rat) (x y : QD) : QD := (x.1 * y.1 + D * x.2 * y.2, x.1 * y.2 + x.2 * y.1)
def pow (D : Rat) (x : QD) : Nat → QD
  | 0 => (1, 0)
  | n + 1 => mul D x (pow D x n)
def sum : List QD → QD
  | [] => (0, 0)
  | a :: l => add a (sum l)
end QD

/-- the term `coef · n^deg · base^n` with `coef, base ∈ ℚ[√D]` -/
structure ExpTermQD where
  coef : QD
  deg : Nat
  base : QD
  deriving Repr, DecidableEq

def ExpTermQD.eval (D : Rat) (t : ExpTermQD) (n : Nat) : QD :=
  QD.mul D (QD.mul D t.coef (QD.ofRat ((n : Rat) ^ t.deg))) (QD.pow D t.base n)

def expPolyEvalQD (D : Rat) (ts : List ExpTermQD) (n : Nat) : QD := QD.sum (ts.map (fun t => t.eval D n))

def shapeOfQD (ts : List ExpTermQD) : List (QD × Nat) :=
  ts.foldr (fun t acc => insertShape t.base (t.deg + 1) acc) []

def windowOfQD (d : Nat) (ts : List ExpTermQD) : Nat := d + shapeSizeOf (shapeOfQD ts)

/-- the check for closed forms with bases in ℚ[√D] (Fibonacci: D = 5): the closed form must equal
`(A^n v)_i + 0·√D` exactly on the window -/
def cfiniteCheckQD (D : Rat) (A : Mat) (v : Vec) (i n₀ : Nat) (terms : List ExpTermQD) :
    Except String (Nat × Option (Mismatch QD)) :=
  match checkShape A v i with
  | .error e => .error e
  | .ok () =>
    let W := windowOfQD A.length terms
    .ok (W, (checkWindow A v i n₀ W (fun n x => expPolyEvalQD D terms n == QD.ofRat x)).map
      (fun p => ⟨p.1, p.2, expPolyEvalQD D terms p.1⟩))

end Polar.LinAlg
