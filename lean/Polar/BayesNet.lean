/-
  Polar/BayesNet.lean — model of /repo/bayesnet (property C15).  No Mathlib.

  * the *code model*: CPT assembly of `NetworkTransformer.__add_cpt__` (`scanItems`, `assembleCpt`),
    the network-level checks of `start`/`variable_block`/`type` (`assembleNet`), Kahn's topological sort of
    `CodeGenerator.__topological_sort__` (`topoOrder`), the law of one iteration of the generated
    if/elif/else program (`genLaw`), what the two queries compute from it (`genCondMoment`,
    `countSeq`), the name sanitiser (`sanitize`);
  * the *specification*: `jointProb`/`joint` by enumeration, `evidenceProb`, `condMoment`.

  Conventions.  A domain value is its position in the domain tuple (that is what the generated program
  uses).  A CPT is a list of rows, row number = position of the parent combination in
  `itertools.product(*parent_domains)` (first parent slowest) = `rowIndex`; a row lists P(child = i | row).
  The BIF `table` notation is a flat list with the child's value slowest: entry `row + i * rows`.
  Python's `NaN`-filled row is `none`.
-/
namespace Polar.BN

/-! ## mixed radix: `itertools.product` and its index -/

def numRows (pd : List Nat) : Nat := pd.foldr (· * ·) 1

/-- `itertools.product(range d₁, …, range d_k)` in its order (first component slowest). -/
def combos : List Nat → List (List Nat)
  | [] => [[]]
  | d :: ds => (List.range d).flatMap (fun x => (combos ds).map (fun c => x :: c))

/-- position of a combination in `combos pd` -/
def rowIndex : List Nat → List Nat → Nat
  | _ :: ds, x :: xs => x * numRows ds + rowIndex ds xs
  | _, _ => 0

/-- the condition tuple has the right length and every clause is a value of the parent's domain -/
def validComb : List Nat → List Nat → Bool
  | [], [] => true
  | d :: ds, x :: xs => decide (x < d) && validComb ds xs
  | _, _ => false

/-! ## CPT assembly (`bayesnet/transformer.py`) -/

def absRat (r : Rat) : Rat := if r < 0 then -r else r

/-- `BayesNetwork.cpt_entry_sum_valid`: `abs(1 - sum(probabilities)) < cpt_tolerance` -/
def sumOk (tol : Rat) (p : List Rat) : Bool := decide (absRat (1 - p.sum) < tol)

/-- one attribute of a `probability` block, conditions of type `κ` -/
inductive Item (κ : Type) where
  | dflt (p : List Rat)
  | table (p : List Rat)
  | entry (c : κ) (p : List Rat)
  | prop    -- a `property` line: the grammar admits it in a probability block, `__add_cpt__` hits `assert False`

structure Scanned (κ : Type) where
  dflt : Option (List Rat) := none
  table : Option (List Rat) := none
  entries : List (κ × List Rat) := []

/-- first loop of `__add_cpt__`: at most one default, one table, no two entries with the same condition -/
def scanItems {κ : Type} [BEq κ] : List (Item κ) → Scanned κ → Except String (Scanned κ)
  | [], s => .ok s
  | .dflt p :: t, s =>
    if s.dflt.isSome then .error "multiple-default" else scanItems t { s with dflt := some p }
  | .table p :: t, s =>
    if s.table.isSome then .error "multiple-table" else scanItems t { s with table := some p }
  | .entry c p :: t, s =>
    if s.entries.any (fun e => e.1 == c) then .error "double-entry"
    else scanItems t { s with entries := s.entries ++ [(c, p)] }
  | .prop :: _, _ => .error "assert-property"

abbrev Rows := List (Option (List Rat))

/-- `__add_default__` followed by `cpt_init` -/
def initRows (tol : Rat) (dom rows : Nat) : Option (List Rat) → Except String Rows
  | none => .ok (List.replicate rows none)
  | some p =>
    if p.length ≠ dom then .error "default-length"
    else if !sumOk tol p then .error "default-sum"
    else .ok (List.replicate rows (some p))

/-- the probabilities the code collects for row `r` of a `table`: `table[row + i * cpt_num_rows]` -/
def tableRow (t : List Rat) (rows dom r : Nat) : List Rat :=
  (List.range dom).map (fun i => t.getD (r + i * rows) 0)

/-- the BIF `table` attribute that denotes the conditional probability function `P i c`
    (`i` = value of the child, `c` = parent combination): child value slowest, parents in product order -/
def bifTable (P : Nat → List Nat → Rat) (dom : Nat) (pd : List Nat) : List Rat :=
  (List.range dom).flatMap (fun i => (combos pd).map (fun c => P i c))

/-- `__add_table__` -/
def addTable (tol : Rat) (dom rows : Nat) (cur : Rows) : Option (List Rat) → Except String Rows
  | none => .ok cur
  | some t =>
    if t.length ≠ dom * rows then .error "table-length"
    else if (List.range rows).all (fun r => sumOk tol (tableRow t rows dom r)) then
      .ok ((List.range rows).map (fun r => some (tableRow t rows dom r)))
    else .error "table-row-sum"

/-- `__add_entry__` -/
def addEntry (tol : Rat) (dom : Nat) (pd : List Nat) (cur : Rows) (e : List Nat × List Rat) :
    Except String Rows :=
  if e.1.length ≠ pd.length then .error "entry-cond-length"
  else if e.2.length ≠ dom then .error "entry-probs-length"
  else if !sumOk tol e.2 then .error "entry-sum"
  else if !validComb pd e.1 then .error "entry-value"
  else .ok (cur.set (rowIndex pd e.1) (some e.2))

def addEntries (tol : Rat) (dom : Nat) (pd : List Nat) : Rows → List (List Nat × List Rat) → Except String Rows
  | cur, [] => .ok cur
  | cur, e :: es =>
    match addEntry tol dom pd cur e with
    | .error m => .error m
    | .ok cur' => addEntries tol dom pd cur' es

/-- `cpt_has_nan` -/
def finishRows (cur : Rows) : Except String (List (List Rat)) :=
  if cur.all Option.isSome then .ok (cur.map (fun r => r.getD [])) else .error "incomplete"

/-- default, then table, then the entries in file order, then the completeness check -/
def assembleCpt (tol : Rat) (dom : Nat) (pd : List Nat) (s : Scanned (List Nat)) :
    Except String (List (List Rat)) :=
  match initRows tol dom (numRows pd) s.dflt with
  | .error m => .error m
  | .ok r0 =>
    match addTable tol dom (numRows pd) r0 s.table with
    | .error m => .error m
    | .ok r1 =>
      match addEntries tol dom pd r1 s.entries with
      | .error m => .error m
      | .ok r2 => finishRows r2

/-! ## the network -/

structure Var where
  name : String
  domain : List String
  parents : List Nat          -- positions in the network's variable list (dict insertion order)
  cpt : List (List Rat)
  deriving Repr

abbrev Net := List Var

def Var.dom (v : Var) : Nat := v.domain.length

def domOf (net : Net) (i : Nat) : Nat :=
  match net[i]? with
  | some v => v.dom
  | none => 0

def parentDoms (net : Net) (v : Var) : List Nat := v.parents.map (domOf net)

/-! ### raw file content and the network-level checks -/

structure RawVar where
  name : String
  types : List (Nat × List String)   -- every `type discrete [n] {…}` line of the block

structure RawCpt where
  child : String
  parents : List String
  items : List (Item (List String))

def hasDup : List String → Bool
  | [] => false
  | x :: xs => xs.contains x || hasDup xs

/-- `NetworkTransformer.type` -/
def checkType (t : Nat × List String) : Except String (List String) :=
  if hasDup t.2 then .error "domain-duplicates"
  else if t.1 ≠ t.2.length then .error "domain-count"
  else .ok t.2

def checkTypes : List (Nat × List String) → Except String (List (List String))
  | [] => .ok []
  | t :: ts =>
    match checkType t with
    | .error m => .error m
    | .ok d => match checkTypes ts with
      | .error m => .error m
      | .ok ds => .ok (d :: ds)

/-- `variable_block` -/
def checkVarBlock (v : RawVar) : Except String (String × List String) :=
  match checkTypes v.types with
  | .error m => .error m
  | .ok [] => .error "no-type"
  | .ok [d] => .ok (v.name, d)
  | .ok _ => .error "multiple-types"

def checkVarBlocks : List RawVar → Except String (List (String × List String))
  | [] => .ok []
  | v :: vs =>
    match checkVarBlock v with
    | .error m => .error m
    | .ok d => match checkVarBlocks vs with
      | .error m => .error m
      | .ok ds => .ok (d :: ds)

def dupNames : List String → List String → Bool
  | _, [] => false
  | seen, x :: xs => seen.contains x || dupNames (x :: seen) xs

/-- half-built network: declaration plus (parents, cpt) once its `probability` block was processed -/
abbrev Partial := List (String × List String × Option (List Nat × List (List Rat)))

def findVar (p : Partial) (name : String) : Option Nat :=
  let i := (p.map (·.1)).idxOf name
  if i < p.length then some i else none

def resolveParents (p : Partial) : List String → Option (List Nat)
  | [] => some []
  | x :: xs =>
    match findVar p x, resolveParents p xs with
    | some i, some is => some (i :: is)
    | _, _ => none

/-- the resolved condition keeps the length of the written one (so the arity check sees the same length);
    a value that is not in the parent's domain becomes the out-of-range index `domain.length` -/
def resolveScanned (pdoms : List (List String)) (s : Scanned (List String)) : Scanned (List Nat) :=
  { dflt := s.dflt, table := s.table,
    entries := s.entries.map (fun e =>
      ((e.1.zip pdoms).map (fun cd => cd.2.idxOf cd.1) ++ (e.1.drop pdoms.length).map (fun _ => 0), e.2)) }

/-- domain of the j-th declared variable -/
def pdomOf (p : Partial) (j : Nat) : List String :=
  match p[j]? with
  | some (_, d, _) => d
  | none => []

/-- `__add_cpt__` -/
def addCpt (tol : Rat) (p : Partial) (c : RawCpt) : Except String Partial :=
  match findVar p c.child with
  | none => .error "cpt-undefined-variable"
  | some i =>
    match resolveParents p c.parents with
    | none => .error "undefined-parent"
    | some ps =>
      match p[i]? with
      | none => .error "cpt-undefined-variable"
      | some (nm, dm, cur) =>
        if cur.isSome then .error "two-cpts"
        else
          match scanItems c.items {} with
          | .error m => .error m
          | .ok s =>
            let pdoms := ps.map (pdomOf p)
            match assembleCpt tol dm.length (pdoms.map List.length) (resolveScanned pdoms s) with
            | .error m => .error m
            | .ok rows => .ok (p.set i (nm, dm, some (ps, rows)))

def addCpts (tol : Rat) : Partial → List RawCpt → Except String Partial
  | p, [] => .ok p
  | p, c :: cs =>
    match addCpt tol p c with
    | .error m => .error m
    | .ok p' => addCpts tol p' cs

def finishNet : Partial → Except String Net
  | [] => .ok []
  | (_, _, none) :: _ => .error "no-cpt"
  | (nm, dm, some (ps, rows)) :: t =>
    match finishNet t with
    | .error m => .error m
    | .ok vs => .ok ({ name := nm, domain := dm, parents := ps, cpt := rows } :: vs)

/-- `NetworkTransformer.start` after the per-block callbacks -/
def assembleNet (tol : Rat) (vars : List RawVar) (cpts : List RawCpt) : Except String Net :=
  match checkVarBlocks vars with
  | .error m => .error m
  | .ok decls =>
    if dupNames [] (decls.map (·.1)) then .error "duplicate-variable"
    else
      match addCpts tol (decls.map (fun d => (d.1, d.2, none))) cpts with
      | .error m => .error m
      | .ok p => finishNet p

/-! ## topological order (`CodeGenerator.__topological_sort__`, Kahn with a FIFO queue) -/

/-- parents of the i-th variable (none for an index outside the network) -/
def parentsOf (net : Net) (i : Nat) : List Nat :=
  match net[i]? with
  | some v => v.parents
  | none => []

/-- visit of one source: every variable that has it among its parents loses one pending parent, and
    is queued when it reaches zero (scan in declaration order) -/
def relax (net : Net) (src : Nat) : List Int → Nat → List Int × List Nat
  | [], _ => ([], [])
  | c :: cs, i =>
    let hit := (parentsOf net i).contains src
    let c' := if hit then c - 1 else c
    let r := relax net src cs (i + 1)
    (c' :: r.1, if hit && c' == 0 then i :: r.2 else r.2)

def kahn (net : Net) : Nat → List Nat → List Int → List Nat → List Nat
  | 0, _, _, out => out
  | _ + 1, [], _, out => out
  | fuel + 1, s :: q, cnt, out =>
    let r := relax net s cnt 0
    kahn net fuel (q ++ r.2) r.1 (out ++ [s])

/-- `none` models the failing `assert len(topological_sort) == len(num_parents)` -/
def topoOrder (net : Net) : Option (List Nat) :=
  let cnt : List Int := net.map (fun v => (v.parents.length : Int))
  let srcs := (List.range net.length).filter (fun i => (parentsOf net i).isEmpty)
  let out := kahn net (net.length + 1) srcs cnt []
  if out.length = net.length then some out else none

/-- decidable validation of an order: a permutation of the variables in which parents come first -/
def parentsOK (net : Net) (done : List Nat) (v : Nat) : Bool :=
  match net[v]? with
  | some var => var.parents.all (fun p => done.contains p)
  | none => false

def topoOK (net : Net) : List Nat → List Nat → Bool
  | _, [] => true
  | done, v :: vs => parentsOK net done v && topoOK net (v :: done) vs

def nodupB : List Nat → Bool
  | [] => true
  | x :: xs => !xs.contains x && nodupB xs

def isTopo (net : Net) (o : List Nat) : Bool :=
  o.length == net.length && o.all (fun v => decide (v < net.length)) && nodupB o && topoOK net [] o

/-! ## specification: the joint law by enumeration -/

abbrev St := Nat → Nat

def valAt (a : List Nat) : St := fun i => a.getD i 0

/-- P(variable i = a i | its parents' values in a) as stored in the CPT -/
def cptProb (net : Net) (i : Nat) (a : St) : Rat :=
  match net[i]? with
  | none => 1
  | some v => (v.cpt.getD (rowIndex (parentDoms net v) (v.parents.map a)) []).getD (a i) 0

def prodRat (l : List Rat) : Rat := l.foldr (· * ·) 1

/-- probability of a full assignment = product of the CPT entries -/
def jointProb (net : Net) (a : St) : Rat := prodRat ((List.range net.length).map (fun i => cptProb net i a))

def assignments (net : Net) : List (List Nat) := combos (net.map Var.dom)

def joint (net : Net) : List (List Nat × Rat) := (assignments net).map (fun a => (a, jointProb net (valAt a)))

def matchesEv (ev : List (Nat × Nat)) (a : St) : Bool := ev.all (fun e => a e.1 == e.2)

def ind (ev : List (Nat × Nat)) (a : St) : Rat := if matchesEv ev a then 1 else 0

/-- Σ over all assignments of joint(a) · g(a) -/
def expect (net : Net) (g : St → Rat) : Rat :=
  ((assignments net).map (fun a => jointProb net (valAt a) * g (valAt a))).sum

def evidenceProb (net : Net) (ev : List (Nat × Nat)) : Rat := expect net (ind ev)

/-- E(X_t^k | evidence), values numbered by domain position -/
def condMoment (net : Net) (ev : List (Nat × Nat)) (t k : Nat) : Rat :=
  expect net (fun a => ind ev a * ((a t : Nat) : Rat) ^ k) / evidenceProb net ev

/-! ## the generated program (`code_generator.py`): law of one loop iteration -/

def upd (σ : St) (v i : Nat) : St := fun u => if u = v then i else σ u

/-- which branch of the if/elif/…/else chain is taken: the first of the first `rows-1` combinations that
    equals the parents' current values, else the last one (`else:`) -/
def branchRow (pd : List Nat) (vals : List Nat) : Nat :=
  let r := (combos pd).idxOf vals
  if r + 1 < numRows pd then r else numRows pd - 1

/-- `x = 0 {p₀} 1 {p₁} … d-1`: the last value gets the remaining probability -/
def drawProb (row : List Rat) (dom i : Nat) : Rat :=
  if i + 1 < dom then row.getD i 0
  else if i + 1 = dom then 1 - ((List.range (dom - 1)).map (fun j => row.getD j 0)).sum
  else 0

def stepProb (net : Net) (v : Nat) (σ : St) (i : Nat) : Rat :=
  match net[v]? with
  | none => 0
  | some var => drawProb (var.cpt.getD (branchRow (parentDoms net var) (var.parents.map σ)) []) var.dom i

/-- one generated statement block.  (A variable with parents but a single parent combination is emitted as
    `if cond: x = … end` without `else`; all variables start at 0 and only ever receive domain positions, so a
    parent with a one-element domain always holds 0 and `cond` is true in every reachable state — the model
    therefore treats that block like the others.) -/
def step (net : Net) (v : Nat) (σ : St) : List (St × Rat) :=
  match net[v]? with
  | none => [(σ, 1)]
  | some var => (List.range var.dom).map (fun i => (upd σ v i, stepProb net v σ i))

def genLawAux (net : Net) : List Nat → St → List (St × Rat)
  | [], σ => [(σ, 1)]
  | v :: vs, σ => (step net v σ).flatMap (fun p => (genLawAux net vs p.1).map (fun q => (q.1, p.2 * q.2)))

/-- law of the network variables after one iteration started in state σ -/
def genLaw (net : Net) (σ : St) : List (St × Rat) :=
  match topoOrder net with
  | some o => genLawAux net o σ
  | none => []

/-- Σ over the outcomes of weight · g(outcome) -/
def expectL (d : List (St × Rat)) (g : St → Rat) : Rat := (d.map (fun p => p.2 * g p.1)).sum

/-- total weight of the outcomes that agree with `a` on the first `n` variables -/
def massAt (n : Nat) (d : List (St × Rat)) (a : St) : Rat :=
  expectL d (fun τ => if (List.range n).all (fun u => τ u == a u) then 1 else 0)

/-- what the exact-inference query reports: E(inf^k)/E(ind) with `ind = [evidence]`, `inf = x_t * ind`, for
    n ≥ 1 (both are constant in n from the first iteration on); for target power 0 the numerator asked for is
    E(ind) itself (`generate_query`, since repo commit 854e393) -/
def genCondMoment (net : Net) (σ : St) (ev : List (Nat × Nat)) (t k : Nat) : Rat :=
  (if k = 0 then expectL (genLaw net σ) (ind ev)
   else expectL (genLaw net σ) (fun τ => (((τ t : Nat) : Rat) * ind ev τ) ^ k)) / expectL (genLaw net σ) (ind ev)

/-- sampling-time query: (E(count), E(continue)) after n iterations when an iteration matches with
    probability q independently of the past: `continue = 0` on a match, then `count = count + continue` -/
def countSeq (q : Rat) : Nat → Rat × Rat
  | 0 => (1, 1)
  | n + 1 =>
    let p := countSeq q n
    let c := p.2 * (1 - q)
    (p.1 + c, c)

/-- the same two expectations from the program itself: state (σ, continue, count), one iteration draws the
    network variables with `genLaw`, clears `continue` on a match and adds it to `count` -/
def iterCount (net : Net) (ev : List (Nat × Nat)) (s : St × Rat × Rat) : List ((St × Rat × Rat) × Rat) :=
  (genLaw net s.1).map (fun p =>
    let c := if matchesEv ev p.1 then 0 else s.2.1
    ((p.1, c, s.2.2 + c), p.2))

/-- E(count) after n iterations from state s -/
def expCount (net : Net) (ev : List (Nat × Nat)) : Nat → St × Rat × Rat → Rat
  | 0, s => s.2.2
  | n + 1, s => ((iterCount net ev s).map (fun p => p.2 * expCount net ev n p.1)).sum

/-! ## names (`CodeGenerator.__generate_mapping__`) -/

/-- `RESERVED_NAMES` of bayesnet/code_generator.py: identifiers that Polar's loop language or symengine's
    sympify do not read as a plain variable -/
def reservedNames : List String :=
  ["true", "false", "if", "elif", "else", "end", "while", "types", "e", "pi", "oo", "zoo", "nan", "inf"]

/-- `re.sub("[^A-Za-z0-9_]+", "", name.lower())`, `"_"` when nothing is left, a `"_"` appended when the result
    is a reserved name; the random digits appended on a collision are not modelled (the harness checks
    base + digits and distinctness) -/
def sanitize (s : String) : String :=
  let t := String.ofList ((s.toList.map Char.toLower).filter (fun c => c.isAlphanum || c == '_'))
  let t := if t.isEmpty then "_" else t
  if reservedNames.contains t then t ++ "_" else t

/-! ## well-formedness used by the theorems -/

/-- every CPT has one row per parent combination, rows have one entry per value and sum to exactly 1,
    parents are declared variables -/
def Var.wf (net : Net) (v : Var) : Bool :=
  v.cpt.length == numRows (parentDoms net v) &&
  v.cpt.all (fun r => r.length == v.dom && r.sum == 1) &&
  v.parents.all (fun p => p < net.length) && decide (0 < v.dom)

def Net.wf (net : Net) : Bool := net.all (fun v => v.wf net)

end Polar.BN
