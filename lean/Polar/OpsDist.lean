/-
  Polar/OpsDist.lean — line-protocol operations for C08 (distribution families).

    distimpl     {"family":…,"params":["p/q",…],"kmax":n}   momentImpl k = 0..kmax (null where the code delegates)
    distsupport  {"family":…,"params":[…],"probe":["p/q",…]} supportImpl, isDiscreteImpl, membership of probe values
    locscale     {"kind":"normal"|"normal_sq"|"uniform"|"laplace"|"exponential","params":[…],"kmax":n}
                 moments of the *rewritten* draw (DistTransformer) by the binomial formula
                 ("beta_scaled" [a,b,scale]: scale^k · betaMoment; "generic" see `opLocScaleAtom`)
    locscale_atom {"mu":q,"sigma":q,"family":…,"params":[…],"kmax":n}  Σ_j C(k,j) mu^(k−j) sigma^j momentSpec_j
    truncrec     {"params":[mu,s2,sigma,a,b,pa,pb,dP],"kmax":n}  TruncNormal recursion with opaque φ/Φ inputs
-/
import Polar.Proto
import Polar.Ops
import Polar.DistImpl

namespace Polar
open Lean

def jsonOptRat : Option Rat → Json
  | some r => jsonRat r
  | none => Json.null

def jsonSuppItem : SuppItem → Json
  | .point v => Json.mkObj [("point", jsonRat v)]
  | .interval lo hi => Json.mkObj [("lo", jsonOptRat lo), ("hi", jsonOptRat hi)]

def opDistImpl (j : Json) : D Json := do
  let fam ← jStr (← jField j "family")
  let ps ← decRatList (← jField j "params")
  let kmax ← jNat (← jField j "kmax")
  let vals := (List.range (kmax + 1)).map (fun k => momentImpl ⟨fam, ps⟩ k)
  pure (okJson [("moments", Json.arr (vals.map jsonOptRat).toArray)])

def opDistSupport (j : Json) : D Json := do
  let fam ← jStr (← jField j "family")
  let ps ← decRatList (← jField j "params")
  let probe ← decRatList (jFieldD j "probe" (Json.arr #[]))
  match supportImpl ⟨fam, ps⟩, isDiscreteImpl fam with
  | some items, some disc =>
    pure (okJson [("support", Json.arr (items.map jsonSuppItem).toArray),
                  ("discrete", Json.bool disc),
                  ("contains", Json.arr (probe.map (fun v => Json.bool (items.any (SuppItem.contains v)))).toArray)])
  | _, _ => throw s!"no-support:{fam}"

def opLocScale (j : Json) : D Json := do
  let kind ← jStr (← jField j "kind")
  let ps ← decRatList (← jField j "params")
  let kmax ← jNat (← jField j "kmax")
  let f ← match kind, ps with
    | "normal", [mu, sigma] => pure (normalRewriteMoments mu sigma)
    | "normal_sq", [mu, s2] => pure (normalRewriteMomentsSq mu s2)
    | "uniform", [a, b] => pure (uniformRewriteMoments a b)
    | "laplace", [mu, b] => pure (laplaceRewriteMoments mu b)
    | "exponential", [num, den] =>
      if num = 0 then throw "locscale: zero rate" else pure (exponentialRewriteMoments num den)
    | "beta_scaled", [a, b, sc] => pure (betaScaledMoment a b sc)
    | _, _ => throw s!"locscale: bad request {kind}"
  pure (okJson [("moments", Json.arr ((List.range (kmax + 1)).map (fun k => jsonRat (f k))).toArray)])

def opLocScaleAtom (j : Json) : D Json := do
  let mu ← jRat (← jField j "mu")
  let sigma ← jRat (← jField j "sigma")
  let fam ← jStr (← jField j "family")
  let ps ← decRatList (← jField j "params")
  let kmax ← jNat (← jField j "kmax")
  let ms ← (List.range (kmax + 1)).mapM (fun k =>
    match momentSpec ⟨fam, ps⟩ k with
    | some v => pure v
    | none => throw s!"no-moment:{fam}")
  let f := locScaleMoments mu sigma (fun i => ms.getD i 0)
  pure (okJson [("moments", Json.arr ((List.range (kmax + 1)).map (fun k => jsonRat (f k))).toArray)])

def opTruncRec (j : Json) : D Json := do
  let ps ← decRatList (← jField j "params")
  let kmax ← jNat (← jField j "kmax")
  match ps with
  | [mu, s2, sigma, a, b, pa, pb, dP] =>
    if dP = 0 then throw "truncrec: zero mass" else
    pure (okJson [("moments", Json.arr ((List.range (kmax + 1)).map
      (fun k => jsonRat (truncNormalRec mu s2 sigma a b pa pb dP k))).toArray)])
  | _ => throw "truncrec: 8 parameters expected"

def distOps : List (String × (Json → D Json)) :=
  [("distimpl", opDistImpl), ("distsupport", opDistSupport), ("locscale", opLocScale),
   ("locscale_atom", opLocScaleAtom), ("truncrec", opTruncRec)]

end Polar
