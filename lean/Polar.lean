import Polar.Poly
import Polar.Dist
import Polar.Sem
import Polar.Proto
import Polar.Ops
