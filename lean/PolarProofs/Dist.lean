import Mathlib.Algebra.BigOperators.Intervals
import Mathlib.Algebra.Ring.GeomSum
import Mathlib.Data.Nat.Choose.Sum
import Mathlib.Tactic
import Polar.DistImpl

/-!
  C08 — theorems about the distribution families (DESIGN §4 C08).

  * bridges from the Mathlib-free model definitions (`Polar.choose`, `Polar.factorial`, `foldl` sums) to Mathlib;
  * `momentImpl = momentSpec` per family where the code has a formula of its own;
  * the four location/scale rewritings of `DistTransformer` as identities of moment sequences.
-/

open Finset

namespace Polar.DistProofs

/-! ### bridges -/

theorem choose_eq (n k : ℕ) : Polar.choose n k = Nat.choose n k := by
  induction n generalizing k with
  | zero => cases k <;> simp [Polar.choose]
  | succ n ih => cases k with
    | zero => simp [Polar.choose]
    | succ k => simp [Polar.choose, ih, Nat.choose_succ_succ]

theorem factorial_eq (n : ℕ) : Polar.factorial n = Nat.factorial n := by
  induction n with
  | zero => rfl
  | succ n ih => simp [Polar.factorial, ih, Nat.factorial_succ]

theorem foldl_add_eq (f : ℕ → ℚ) (l : List ℕ) (c : ℚ) :
    l.foldl (fun acc i => acc + f i) c = c + (l.map f).sum := by
  induction l generalizing c with
  | nil => simp
  | cons a t ih => simp [ih, add_assoc]

theorem foldl_range_eq_sum (f : ℕ → ℚ) (n : ℕ) :
    (List.range n).foldl (fun acc i => acc + f i) 0 = ∑ i ∈ range n, f i := by
  rw [foldl_add_eq, zero_add]
  induction n with
  | zero => simp
  | succ n ih => rw [List.range_succ, List.map_append, List.sum_append, ih, sum_range_succ]; simp

/-! ### binomial transform `B μ w k = Σ_{j ≤ k} C(k,j) μ^(k−j) w_j` over a commutative ring -/

section Binom
variable {R : Type*} [CommRing R]

/-- moments of `μ + W` from the "moments" `w` of `W` -/
def binom (μ : R) (w : ℕ → R) (k : ℕ) : R :=
  ∑ j ∈ range (k + 1), (k.choose j : R) * μ ^ (k - j) * w j

/-- Pascal: `B μ w (k+1) = μ · B μ w k + B μ (shift w) k` -/
theorem binom_succ (μ : R) (w : ℕ → R) (k : ℕ) :
    binom μ w (k + 1) = μ * binom μ w k + binom μ (fun j => w (j + 1)) k := by
  unfold binom
  have h := Finset.sum_choose_succ_mul (R := R) (fun i e => μ ^ e * w i) k
  have e1 : ∑ j ∈ range (k + 1 + 1), ((k + 1).choose j : R) * μ ^ (k + 1 - j) * w j
      = ∑ i ∈ range (k + 2), ((k + 1).choose i : R) * (μ ^ (k + 1 - i) * w i) := by
    refine sum_congr rfl fun i _ => by ring
  rw [e1, h, mul_sum]
  congr 1
  · refine sum_congr rfl fun i hi => ?_
    have hi' : i ≤ k := Nat.lt_succ_iff.mp (mem_range.mp hi)
    rw [show k + 1 - i = (k - i) + 1 by omega, pow_succ]; ring
  · refine sum_congr rfl fun i _ => by ring

theorem binom_zero_left (w : ℕ → R) (k : ℕ) : binom (0 : R) w k = w k := by
  unfold binom
  rw [sum_range_succ, sum_eq_zero]
  · simp
  · intro j hj
    have : k - j ≠ 0 := by have := mem_range.mp hj; omega
    simp [zero_pow this]

/-- the `j = 0` and the shifted part -/
theorem binom_peel (μ : R) (w : ℕ → R) (k : ℕ) :
    binom μ w (k + 1) = μ ^ (k + 1) * w 0
      + ∑ j ∈ range (k + 1), ((k + 1).choose (j + 1) : R) * μ ^ (k - j) * w (j + 1) := by
  unfold binom
  rw [sum_range_succ']
  simp only [Nat.choose_zero_right, Nat.cast_one, one_mul, Nat.sub_zero, Nat.add_sub_add_right]
  ring

/-- scaling: `B μ (σ^j z_j)` is what `locScaleMoments` computes -/
def locScale (μ σ : R) (z : ℕ → R) (k : ℕ) : R := binom μ (fun j => σ ^ j * z j) k

/-- the three-term recurrence that characterises the raw moments of Normal(μ, v) -/
def IsNormalMoments (μ v : R) (m : ℕ → R) : Prop :=
  m 0 = 1 ∧ m 1 = μ ∧ ∀ k, m (k + 2) = μ * m (k + 1) + ((k : R) + 1) * v * m k

theorem IsNormalMoments.unique {μ v : R} {m m' : ℕ → R}
    (h : IsNormalMoments μ v m) (h' : IsNormalMoments μ v m') : ∀ k, m k = m' k := by
  intro k
  induction k using Nat.strong_induction_on with
  | _ k ih =>
    match k with
    | 0 => rw [h.1, h'.1]
    | 1 => rw [h.2.1, h'.2.1]
    | k + 2 => rw [h.2.2, h'.2.2, ih (k + 1) (by omega), ih k (by omega)]

/-- core of the Normal location/scale argument: if `w₀ = 1`, `w₁ = 0`, `w_{l+2} = (l+1)·v·w_l`
    (the moments of a centred normal with variance `v`) then `B μ w` satisfies the Normal(μ, v) recurrence -/
theorem binom_normal (μ v : R) (w : ℕ → R) (w0 : w 0 = 1) (w1 : w 1 = 0)
    (wrec : ∀ l, w (l + 2) = ((l : R) + 1) * v * w l) :
    IsNormalMoments μ v (binom μ w) := by
  refine ⟨?_, ?_, ?_⟩
  · simp [binom, w0]
  · simp [binom, sum_range_succ, w0, w1]
  · intro k
    rw [binom_succ μ _ (k + 1)]
    congr 1
    -- the shifted part: Σ_j C(k+1,j) μ^(k+1−j) w_(j+1) = (k+1) v Σ_l C(k,l) μ^(k−l) w_l
    rw [binom_peel]
    simp only [zero_add, w1, mul_zero]
    unfold binom
    rw [mul_sum]
    refine sum_congr rfl fun l _ => ?_
    have hc : ((k + 1).choose (l + 1) : R) * ((l : R) + 1) = ((k : R) + 1) * (k.choose l : R) := by
      have := Nat.add_one_mul_choose_eq k l
      have h2 : ((k + 1 : ℕ) : R) * (k.choose l : R) = ((k + 1).choose (l + 1) : R) * ((l + 1 : ℕ) : R) := by
        exact_mod_cast congrArg (Nat.cast (R := R)) this
      push_cast at h2
      rw [h2]
    rw [wrec l]
    calc ((k + 1).choose (l + 1) : R) * μ ^ (k - l) * (((l : R) + 1) * v * w l)
        = (((k + 1).choose (l + 1) : R) * ((l : R) + 1)) * (μ ^ (k - l) * v * w l) := by ring
      _ = (((k : R) + 1) * (k.choose l : R)) * (μ ^ (k - l) * v * w l) := by rw [hc]
      _ = ((k : R) + 1) * v * ((k.choose l : R) * μ ^ (k - l) * w l) := by ring

/-- **Normal location/scale**: if `z` are the moments of Normal(0,1) then the binomial formula for
    `μ + σ·Z` yields a sequence satisfying the Normal(μ, σ²) recurrence. -/
theorem locScale_normal (μ σ : R) (z : ℕ → R) (hz : IsNormalMoments 0 1 z) :
    IsNormalMoments μ (σ ^ 2) (locScale μ σ z) := by
  obtain ⟨z0, z1, zrec⟩ := hz
  refine binom_normal μ (σ ^ 2) _ (by simp [z0]) (by simp [z1]) ?_
  intro l
  have := zrec l
  simp only [zero_mul, zero_add, mul_one] at this
  rw [this]; ring

end Binom

/-! ### the model's `locScaleMoments` is the binomial transform -/

open Polar

theorem locScaleMoments_eq (mu sigma : ℚ) (ms : ℕ → ℚ) (k : ℕ) :
    locScaleMoments mu sigma ms k = locScale mu sigma ms k := by
  unfold locScaleMoments locScale binom
  rw [foldl_range_eq_sum]
  refine sum_congr rfl fun j _ => ?_
  rw [choose_eq]; ring

/-! ### Normal -/

theorem normalMoment_isNormalMoments (mu s2 : ℚ) : IsNormalMoments mu s2 (normalMoment mu s2) :=
  ⟨rfl, rfl, fun k => by simp [normalMoment]⟩

-- non-vacuity of the hypothesis of `locScale_normal`: the standard normal moments satisfy the (0,1) recurrence
example : IsNormalMoments (0 : ℚ) 1 (normalMoment 0 1) := normalMoment_isNormalMoments 0 1

/-- **C08 / DistTransformer._transform_normal** (σ rational): the moments Polar derives for
    `mu + sigma·t`, `t ~ Normal(0,1)`, are the moments of `Normal(mu, sigma²)`, for every order. -/
theorem normalRewrite_eq_spec (mu sigma : ℚ) (k : ℕ) :
    normalRewriteMoments mu sigma k = normalMoment mu (sigma ^ 2) k := by
  unfold normalRewriteMoments
  rw [locScaleMoments_eq]
  exact (locScale_normal mu sigma _ (normalMoment_isNormalMoments 0 1)).unique
    (normalMoment_isNormalMoments mu (sigma ^ 2)) k

example : normalRewriteMoments (1/2) 2 4 = normalMoment (1/2) 4 4 := normalRewrite_eq_spec _ _ _

/-- the same when only `s2` is rational (σ = √s2 possibly irrational): odd powers of σ only ever meet the
    vanishing odd moments of Normal(0,1), so the result is a polynomial in `s2` — and it is the Normal(μ, s2)
    moment for **every** rational `s2`. -/
theorem normalRewriteSq_eq_spec (mu s2 : ℚ) (k : ℕ) :
    normalRewriteMomentsSq mu s2 k = normalMoment mu s2 k := by
  unfold normalRewriteMomentsSq
  rw [foldl_range_eq_sum]
  have hb : ∑ j ∈ range (k + 1), (choose k j : ℚ) * mu ^ (k - j) *
        (if j % 2 = 0 then s2 ^ (j / 2) * normalMoment 0 1 j else 0)
      = binom mu (fun j => if j % 2 = 0 then s2 ^ (j / 2) * normalMoment 0 1 j else 0) k := by
    unfold binom
    refine sum_congr rfl fun j _ => by rw [choose_eq]
  rw [hb]
  refine (binom_normal mu s2 _ ?_ ?_ ?_).unique (normalMoment_isNormalMoments mu s2) k
  · simp [normalMoment]
  · simp
  · intro l
    have h2 : (l + 2) % 2 = l % 2 := by omega
    have h3 : (l + 2) / 2 = l / 2 + 1 := by omega
    simp only [h2, h3]
    split
    · simp [normalMoment]; ring
    · simp

example : normalRewriteMomentsSq 1 2 4 = normalMoment 1 2 4 := normalRewriteSq_eq_spec _ _ _

/-! ### Uniform -/

theorem uniformMoment_eq_sum (a b : ℚ) (k : ℕ) :
    uniformMoment a b k = (∑ i ∈ range (k + 1), a ^ i * b ^ (k - i)) / ((k : ℚ) + 1) := by
  unfold uniformMoment; rw [foldl_range_eq_sum]

theorem geom_sum₂_eq (a b : ℚ) (k : ℕ) :
    (∑ i ∈ range (k + 1), a ^ i * b ^ (k - i)) * (b - a) = b ^ (k + 1) - a ^ (k + 1) := by
  have h := geom_sum₂_mul a b (k + 1)
  simp only [Nat.add_sub_cancel] at h
  linear_combination -h

/-- **C08 / Uniform.get_moment**: the code's closed formula `(b^{k+1} − a^{k+1})/((k+1)(b−a))` is the true
    k-th moment `(Σ_{i≤k} a^i b^{k−i})/(k+1)` of Uniform(a,b) whenever `a ≠ b`, for every order. -/
theorem uniformImpl_eq_spec (a b : ℚ) (h : a ≠ b) (k : ℕ) : uniformImpl a b k = uniformMoment a b k := by
  rw [uniformMoment_eq_sum, uniformImpl, ← geom_sum₂_eq]
  have hba : b - a ≠ 0 := sub_ne_zero.mpr (Ne.symm h)
  have hk : (k : ℚ) + 1 ≠ 0 := by positivity
  field_simp

example : uniformImpl 1 3 2 = uniformMoment 1 3 2 := uniformImpl_eq_spec 1 3 (by norm_num) 2

theorem uniformMoment01 (j : ℕ) : uniformMoment 0 1 j = 1 / ((j : ℚ) + 1) := by
  rw [uniformMoment_eq_sum, sum_range_succ']
  simp

/-- `(k+1)·(b−a)·Σ_j C(k,j) a^{k−j} (b−a)^j/(j+1) = b^{k+1} − a^{k+1}` -/
theorem uniform_binom_mul (a d : ℚ) (k : ℕ) :
    ((k : ℚ) + 1) * d * binom a (fun j => d ^ j * (1 / ((j : ℚ) + 1))) k = (a + d) ^ (k + 1) - a ^ (k + 1) := by
  rw [add_comm a d, add_pow, sum_range_succ']
  simp only [pow_zero, Nat.sub_zero, Nat.choose_zero_right, Nat.cast_one, mul_one, one_mul, add_sub_cancel_right]
  unfold binom
  rw [mul_sum]
  refine sum_congr rfl fun j hj => ?_
  have hj' : j ≤ k := Nat.lt_succ_iff.mp (mem_range.mp hj)
  have hc : ((k : ℚ) + 1) * (k.choose j : ℚ) = ((k + 1).choose (j + 1) : ℚ) * ((j : ℚ) + 1) := by
    have := Nat.add_one_mul_choose_eq k j
    exact_mod_cast this
  have hj1 : (j : ℚ) + 1 ≠ 0 := by positivity
  rw [show k + 1 - (j + 1) = k - j by omega]
  field_simp
  linear_combination (a ^ (k - j) * d ^ j * d) * hc

/-- **C08 / DistTransformer._transform_uniform**: the moments Polar derives for `a + (b−a)·t`,
    `t ~ Uniform(0,1)`, are the moments of `Uniform(a,b)`, for every order and all `a, b` (also `a = b`). -/
theorem uniformRewrite_eq_spec (a b : ℚ) (k : ℕ) : uniformRewriteMoments a b k = uniformMoment a b k := by
  unfold uniformRewriteMoments
  rw [locScaleMoments_eq]
  unfold locScale
  simp only [uniformMoment01]
  by_cases h : a = b
  · subst h
    -- degenerate: both sides are a^k
    rw [uniformMoment_eq_sum]
    have hk : (k : ℚ) + 1 ≠ 0 := by positivity
    have hs : ∑ i ∈ range (k + 1), a ^ i * a ^ (k - i) = ((k : ℚ) + 1) * a ^ k := by
      rw [sum_congr rfl (fun i hi => by
        have hi' : i ≤ k := Nat.lt_succ_iff.mp (mem_range.mp hi)
        rw [← pow_add, Nat.add_sub_cancel' hi']), sum_const, card_range]
      simp
    rw [hs, mul_div_cancel_left₀ _ hk]
    unfold binom
    rw [sum_range_succ']
    simp
  · have hd : b - a ≠ 0 := sub_ne_zero.mpr (Ne.symm h)
    have hk : (k : ℚ) + 1 ≠ 0 := by positivity
    have h1 := uniform_binom_mul a (b - a) k
    rw [show a + (b - a) = b by ring] at h1
    rw [← uniformImpl_eq_spec a b h, uniformImpl, ← h1]
    field_simp

example : uniformRewriteMoments 2 5 3 = uniformMoment 2 5 3 := uniformRewrite_eq_spec _ _ _

/-! ### Exponential -/

/-- Exponential.get_moment is literally the textbook formula `k!/λ^k` (nothing to prove beyond unfolding);
    the tie of `k!/λ^k` to the defining integral is `PolarProofs/DistAnalysis.lean`. -/
theorem exponentialImpl_eq_spec (lam : ℚ) (k : ℕ) : exponentialImpl lam k = exponentialMoment lam k := rfl

/-- **C08 / DistTransformer._transform_exponential**: the moments Polar derives for `den·t`,
    `t ~ Exponential(num)`, are the moments `k!/(num/den)^k` of `Exponential(num/den)`, for every order. -/
theorem exponentialRewrite_eq_spec (num den : ℚ) (k : ℕ) :
    exponentialRewriteMoments num den k = exponentialMoment (num / den) k := by
  unfold exponentialRewriteMoments
  rw [locScaleMoments_eq]
  unfold locScale
  rw [binom_zero_left]
  unfold exponentialMoment
  rw [div_pow, div_div_eq_mul_div]; ring

example : exponentialRewriteMoments 2 3 4 = exponentialMoment (2 / 3) 4 := exponentialRewrite_eq_spec _ _ _

/-! ### Laplace -/

theorem laplaceMoment_eq_binom (mu b : ℚ) (k : ℕ) : laplaceMoment mu b k = binom mu (laplace0Moment b) k := by
  unfold laplaceMoment binom
  rw [foldl_range_eq_sum]
  refine sum_congr rfl fun j _ => by rw [choose_eq]

theorem laplaceMoment_zero_loc (b : ℚ) (k : ℕ) : laplaceMoment 0 b k = laplace0Moment b k := by
  rw [laplaceMoment_eq_binom, binom_zero_left]

/-- **C08 / DistTransformer._transform_laplace**: the moments Polar derives for `mu + t`,
    `t ~ Laplace(0,b)`, are the moments of `Laplace(mu,b)`, for every order. -/
theorem laplaceRewrite_eq_spec (mu b : ℚ) (k : ℕ) : laplaceRewriteMoments mu b k = laplaceMoment mu b k := by
  unfold laplaceRewriteMoments
  rw [locScaleMoments_eq, laplaceMoment_eq_binom]
  unfold locScale
  congr 1
  funext j
  rw [laplaceMoment_zero_loc]; simp

example : laplaceRewriteMoments 3 (1/2) 5 = laplaceMoment 3 (1/2) 5 := laplaceRewrite_eq_spec _ _ _

/-- Laplace(0,b): `l₀ = 1`, `l₁ = 0`, `l_{j+2} = (j+2)(j+1)·b²·l_j` -/
theorem laplace0Moment_rec (b : ℚ) (j : ℕ) :
    laplace0Moment b (j + 2) = ((j : ℚ) + 2) * ((j : ℚ) + 1) * b ^ 2 * laplace0Moment b j := by
  unfold laplace0Moment
  have h2 : (j + 2) % 2 = j % 2 := by omega
  rw [h2]
  split
  · simp
  · simp only [factorial_eq, Nat.factorial_succ]; push_cast; ring

/-- Laplace(0,b) is the equal mixture of `Exp(1/b)` and its mirror image: `l_j = ½·e_j + ½·(−1)^j·e_j` -/
theorem laplace0Moment_mixture (b : ℚ) (j : ℕ) :
    laplace0Moment b j = (1 / 2) * exponentialMoment (1 / b) j + (1 / 2) * ((-1) ^ j * exponentialMoment (1 / b) j) := by
  unfold laplace0Moment exponentialMoment
  have hb : (factorial j : ℚ) / (1 / b) ^ j = (factorial j : ℚ) * b ^ j := by
    rw [one_div, inv_pow, div_inv_eq_mul]
  rw [hb]
  rcases Nat.even_or_odd j with he | ho
  · have : j % 2 ≠ 1 := by have := Nat.even_iff.mp he; omega
    rw [if_neg this, he.neg_one_pow]; ring
  · have : j % 2 = 1 := Nat.odd_iff.mp ho
    rw [if_pos this, ho.neg_one_pow]; ring

example : laplace0Moment 2 4 = (1 / 2) * exponentialMoment (1 / 2) 4 + (1 / 2) * ((-1) ^ 4 * exponentialMoment (1 / 2) 4) :=
  laplace0Moment_mixture 2 4

/-- **Laplace(μ,b) recurrence** (coefficient form of `M(t)·(1 − b²t²) = e^{μt}`, i.e. of the mgf the code states):
    `m₀ = 1`, `m₁ = μ`, `m_{k+2} = μ^{k+2} + (k+2)(k+1)·b²·m_k`. -/
theorem laplaceMoment_rec (mu b : ℚ) (k : ℕ) :
    laplaceMoment mu b (k + 2) = mu ^ (k + 2) + ((k : ℚ) + 2) * ((k : ℚ) + 1) * b ^ 2 * laplaceMoment mu b k := by
  simp only [laplaceMoment_eq_binom]
  rw [binom_peel]
  have l0 : laplace0Moment b 0 = 1 := by simp [laplace0Moment, factorial]
  have l1 : laplace0Moment b 1 = 0 := by simp [laplace0Moment]
  rw [l0, mul_one, sum_range_succ']
  simp only [zero_add, l1, mul_zero, add_zero]
  congr 1
  unfold binom
  rw [mul_sum]
  refine sum_congr rfl fun i hi => ?_
  have hi' : i ≤ k := Nat.lt_succ_iff.mp (mem_range.mp hi)
  rw [laplace0Moment_rec, show k + 1 - (i + 1) = k - i by omega]
  have hc1 : ((k : ℚ) + 1) * (k.choose i : ℚ) = ((k + 1).choose (i + 1) : ℚ) * ((i : ℚ) + 1) := by
    exact_mod_cast Nat.add_one_mul_choose_eq k i
  have hc2 : ((k : ℚ) + 2) * ((k + 1).choose (i + 1) : ℚ) = ((k + 2).choose (i + 2) : ℚ) * ((i : ℚ) + 2) := by
    have := Nat.add_one_mul_choose_eq (k + 1) (i + 1)
    have h : ((k + 1 + 1 : ℕ) : ℚ) * ((k + 1).choose (i + 1) : ℚ)
        = ((k + 1 + 1).choose (i + 1 + 1) : ℚ) * ((i + 1 + 1 : ℕ) : ℚ) := by exact_mod_cast this
    push_cast at h
    rw [show (k : ℚ) + 2 = k + 1 + 1 by ring, show (i : ℚ) + 2 = i + 1 + 1 by ring]
    exact h
  have hc : ((k + 1 + 1).choose (i + 1 + 1) : ℚ) * (((i : ℚ) + 2) * ((i : ℚ) + 1))
      = ((k : ℚ) + 2) * ((k : ℚ) + 1) * (k.choose i : ℚ) := by
    calc ((k + 1 + 1).choose (i + 1 + 1) : ℚ) * (((i : ℚ) + 2) * ((i : ℚ) + 1))
        = (((k + 2).choose (i + 2) : ℚ) * ((i : ℚ) + 2)) * ((i : ℚ) + 1) := by ring
      _ = ((k : ℚ) + 2) * (((k + 1).choose (i + 1) : ℚ) * ((i : ℚ) + 1)) := by rw [← hc2]; ring
      _ = ((k : ℚ) + 2) * ((k : ℚ) + 1) * (k.choose i : ℚ) := by rw [← hc1]; ring
  calc ((k + 1 + 1).choose (i + 1 + 1) : ℚ) * mu ^ (k - i) *
        (((i : ℚ) + 2) * ((i : ℚ) + 1) * b ^ 2 * laplace0Moment b i)
      = (((k + 1 + 1).choose (i + 1 + 1) : ℚ) * (((i : ℚ) + 2) * ((i : ℚ) + 1))) *
        (mu ^ (k - i) * b ^ 2 * laplace0Moment b i) := by ring
    _ = ((k : ℚ) + 2) * ((k : ℚ) + 1) * b ^ 2 * ((k.choose i : ℚ) * mu ^ (k - i) * laplace0Moment b i) := by
        rw [hc]; ring

example : laplaceMoment 1 2 2 = 1 ^ 2 + 2 * 1 * 2 ^ 2 * laplaceMoment 1 2 0 := by
  have := laplaceMoment_rec 1 2 0; simpa using this

/-! ### finite families: the expectation of `X^k` under a finite law -/

/-- `finiteMoment` IS the expectation `Σ_i p_i · v_i^k` of `X^k` under the finite law `pv` -/
theorem finiteMoment_eq_map_sum (pv : List (ℚ × ℚ)) (k : ℕ) :
    finiteMoment pv k = (pv.map fun x => x.1 * x.2 ^ k).sum := by
  unfold finiteMoment
  induction pv with
  | nil => rfl
  | cons x t ih => simp [ih]

/-- `finiteMoment` IS the expectation `Σ_i p_i · v_i^k` of `X^k` under the finite law `pv` -/
theorem finiteMoment_eq_sum (pv : List (ℚ × ℚ)) (k : ℕ) :
    finiteMoment pv k = ∑ i : Fin pv.length, (pv.get i).1 * (pv.get i).2 ^ k := by
  rw [finiteMoment_eq_map_sum]
  exact (Fin.sum_univ_fun_getElem pv (fun x => x.1 * x.2 ^ k)).symm

/-- total mass: the 0-th moment of a finite law is the sum of its weights -/
theorem finiteMoment_zero (pv : List (ℚ × ℚ)) : finiteMoment pv 0 = (pv.map Prod.fst).sum := by
  rw [finiteMoment_eq_map_sum]; simp

/-- Bernoulli(p) as a finite law -/
def bernoulliPV (p : ℚ) : List (ℚ × ℚ) := [(1 - p, 0), (p, 1)]

theorem bernoulliMoment_eq_finite (p : ℚ) (k : ℕ) : bernoulliMoment p k = finiteMoment (bernoulliPV p) k := by
  cases k with
  | zero => simp [bernoulliMoment, finiteMoment, bernoulliPV]
  | succ k => simp [bernoulliMoment, finiteMoment, bernoulliPV]

/-- **C08 / Bernoulli.get_moment** (repaired code: `One() if k == 0 else p`): the true moment for every order -/
theorem bernoulliImpl_eq_spec (p : ℚ) (k : ℕ) : bernoulliImpl p k = bernoulliMoment p k := by
  cases k with
  | zero => rfl
  | succ k => simp [bernoulliImpl, bernoulliMoment]

example : bernoulliImpl (1/3) 0 = bernoulliMoment (1/3) 0 := bernoulliImpl_eq_spec _ 0
example : bernoulliImpl (1/3) 2 = bernoulliMoment (1/3) 2 := bernoulliImpl_eq_spec _ 2

/-- Categorical: generalised loop invariant -/
theorem categoricalImplAux_eq (k : ℕ) (ps : List ℚ) (i : ℕ) (m : ℚ) :
    categoricalImplAux k i ps m
      = m + finiteMoment ((List.range' i ps.length).zipWith (fun (i : ℕ) (p : ℚ) => (p, (i : ℚ))) ps) k := by
  induction ps generalizing i m with
  | nil => simp [categoricalImplAux, finiteMoment]
  | cons p t ih =>
    rw [categoricalImplAux, ih, List.length_cons, List.range'_succ, List.zipWith_cons_cons]
    simp only [finiteMoment, List.foldr_cons]
    ring

/-- **C08 / Categorical.get_moment**: the loop computes `E(X^k)` of the law `P(X = i) = p_i`, every order -/
theorem categoricalImpl_eq_spec (ps : List ℚ) (k : ℕ) :
    categoricalImpl ps k = finiteMoment (categoricalPV ps) k := by
  unfold categoricalImpl categoricalPV
  rw [categoricalImplAux_eq, zero_add, List.range_eq_range']

example : categoricalImpl [1/4, 1/4, 1/2] 3 = finiteMoment (categoricalPV [1/4, 1/4, 1/2]) 3 :=
  categoricalImpl_eq_spec _ _

theorem foldl_add_map {α : Type} (g : α → ℚ) (l : List α) (c : ℚ) :
    l.foldl (fun m v => m + g v) c = c + (l.map g).sum := by
  induction l generalizing c with
  | nil => simp
  | cons a t ih => simp [ih, add_assoc]

/-- **C08 / DiscreteUniform.get_moment**: the loop computes `E(X^k)` of the uniform law on `lo..hi`, every order -/
theorem discreteUniformImpl_eq_spec (lo hi : ℤ) (k : ℕ) :
    discreteUniformImpl lo hi k = finiteMoment (discreteUniformPV lo hi) k := by
  unfold discreteUniformImpl discreteUniformPV discreteUniformValues
  rw [finiteMoment_eq_map_sum, foldl_add_map, zero_add]
  have h : hi + 1 - lo = hi - lo + 1 := by ring
  simp only [h, List.map_map, List.length_map, List.length_range]
  congr 1
  refine List.map_congr_left fun i _ => ?_
  simp only [Function.comp]
  ring

example : discreteUniformImpl (-2) 3 4 = finiteMoment (discreteUniformPV (-2) 3) 4 :=
  discreteUniformImpl_eq_spec _ _ _

/-! ### TruncNormal: the code's recursion without truncation terms is the Normal recurrence -/

theorem truncNormalRec_untruncated (mu s2 sigma a b dP : ℚ) (k : ℕ) :
    truncNormalRec mu s2 sigma a b 0 0 dP k = normalMoment mu s2 k := by
  induction k using Nat.strong_induction_on with
  | _ k ih =>
    match k with
    | 0 => rfl
    | 1 => simp [truncNormalRec, normalMoment]
    | k + 2 =>
      rw [truncNormalRec, normalMoment, ih k (by omega), ih (k + 1) (by omega)]
      simp; ring

example : truncNormalRec 1 4 2 (-1) 3 0 0 (1/2) 3 = normalMoment 1 4 3 := truncNormalRec_untruncated _ _ _ _ _ _ _

/-! ### the combined statement -/

/-- **C08, `get_moment` of the formula families**: whenever the code's own formula produces a value, it is
    the specification moment — for every family that has a formula and every order `k`. -/
theorem momentImpl_eq_momentSpec (a : Atom) (k : ℕ)
    (v : ℚ) (hv : momentImpl a k = some v) : momentSpec a k = some v := by
  obtain ⟨fam, ps⟩ := a
  unfold momentImpl at hv
  unfold momentSpec
  split at hv
  · -- Bernoulli
    rename_i p hf hp
    simp only at hf hp
    subst hf; subst hp
    simp only [Option.some.injEq] at hv ⊢
    rw [← hv, bernoulliImpl_eq_spec p k]
  · rename_i lo hi hf hp
    simp only at hf hp
    subst hf; subst hp
    split at hv
    · exact absurd hv (by simp)
    · rename_i hne
      simp only [Option.some.injEq] at hv ⊢
      rw [← hv, uniformImpl_eq_spec lo hi hne]
  · rename_i lam hf hp
    simp only at hf hp
    subst hf; subst hp
    split at hv
    · exact absurd hv (by simp)
    · rename_i hne
      simp only [hne, if_false, Option.some.injEq] at hv ⊢
      rw [← hv]; rfl
  · rename_i _ _ hf
    simp only at hf
    subst hf
    split at hv
    · exact absurd hv (by simp)
    · simp only [Option.some.injEq] at hv ⊢
      rw [← hv, categoricalImpl_eq_spec]
  · rename_i lo hi hf hp
    simp only at hf hp
    subst hf; subst hp
    split at hv
    · rename_i hc
      simp only [hc, and_self, if_true, Option.some.injEq] at hv ⊢
      rw [← hv, discreteUniformImpl_eq_spec]
    · exact absurd hv (by simp)
  · exact absurd hv (by simp)

example : momentSpec ⟨"Uniform", [1, 3]⟩ 2 = some (uniformImpl 1 3 2) :=
  momentImpl_eq_momentSpec ⟨"Uniform", [1, 3]⟩ 2 _ (by simp [momentImpl])

example : momentSpec ⟨"Bernoulli", [1/3]⟩ 0 = some (bernoulliImpl (1/3) 0) :=
  momentImpl_eq_momentSpec ⟨"Bernoulli", [1/3]⟩ 0 _ (by simp [momentImpl])

/-! ### support of the finite families: every atom of the true law is in the declared support -/

/-- `v` lies in the support the code declares for `a` -/
def SupportContains (a : Atom) (v : ℚ) : Prop :=
  ∃ items, supportImpl a = some items ∧ items.any (SuppItem.contains v) = true

theorem bernoulli_support (p : ℚ) : ∀ x ∈ bernoulliPV p, SupportContains ⟨"Bernoulli", [p]⟩ x.2 := by
  intro x hx
  refine ⟨[.point 0, .point 1], rfl, ?_⟩
  simp only [bernoulliPV, List.mem_cons, List.not_mem_nil, or_false] at hx
  rcases hx with rfl | rfl <;> simp [SuppItem.contains]

example : ∀ x ∈ bernoulliPV (1/3), SupportContains ⟨"Bernoulli", [1/3]⟩ x.2 := bernoulli_support (1/3)

theorem categoricalPV_values (ps : List ℚ) (s : ℕ) :
    ∀ x ∈ (List.range' s ps.length).zipWith (fun (i : ℕ) (p : ℚ) => (p, (i : ℚ))) ps,
      ∃ i : ℕ, s ≤ i ∧ i < s + ps.length ∧ x.2 = (i : ℚ) := by
  induction ps generalizing s with
  | nil => simp
  | cons p t ih =>
    intro x hx
    rw [List.length_cons, List.range'_succ, List.zipWith_cons_cons, List.mem_cons] at hx
    rcases hx with rfl | hx
    · exact ⟨s, le_refl _, by simp, rfl⟩
    · obtain ⟨i, h1, h2, h3⟩ := ih (s + 1) x hx
      exact ⟨i, by omega, by simp only [List.length_cons]; omega, h3⟩

theorem categorical_support (ps : List ℚ) (hps : ps ≠ []) :
    ∀ x ∈ categoricalPV ps, SupportContains ⟨"Categorical", ps⟩ x.2 := by
  intro x hx
  unfold categoricalPV at hx
  rw [List.range_eq_range'] at hx
  obtain ⟨i, _, hi, hxi⟩ := categoricalPV_values ps 0 x hx
  refine ⟨(List.range ps.length).map (fun (i : ℕ) => SuppItem.point (i : ℚ)), ?_, ?_⟩
  · simp [supportImpl, hps]
  · rw [List.any_eq_true]
    exact ⟨.point (i : ℚ), List.mem_map.mpr ⟨i, List.mem_range.mpr (by omega), rfl⟩, by simp [SuppItem.contains, hxi]⟩

theorem discreteUniform_support (lo hi : ℤ) (h : lo ≤ hi) :
    ∀ x ∈ discreteUniformPV lo hi, SupportContains ⟨"DiscreteUniform", [(lo : ℚ), (hi : ℚ)]⟩ x.2 := by
  intro x hx
  refine ⟨(discreteUniformValues lo hi).map SuppItem.point, ?_, ?_⟩
  · have : ((lo : ℚ) ≤ (hi : ℚ)) := by exact_mod_cast h
    simp [supportImpl, this]
  · unfold discreteUniformPV at hx
    simp only [List.mem_map, List.mem_range] at hx
    obtain ⟨i, hi', rfl⟩ := hx
    rw [List.any_eq_true]
    refine ⟨.point ((lo : ℚ) + (i : ℚ)), ?_, by simp [SuppItem.contains]⟩
    refine List.mem_map.mpr ⟨(lo : ℚ) + (i : ℚ), ?_, rfl⟩
    unfold discreteUniformValues
    refine List.mem_map.mpr ⟨i, List.mem_range.mpr ?_, rfl⟩
    have : hi + 1 - lo = hi - lo + 1 := by ring
    rw [this]; exact hi'

-- non-vacuity: the law has atoms
example : (discreteUniformPV (-2) 3).length = 6 := by simp [discreteUniformPV]
example : (categoricalPV [1/4, 3/4]).length = 2 := by simp [categoricalPV]

end Polar.DistProofs



