/-
  PolarProofs/Validate.lean — soundness of the validators of `Polar/Validate.lean` (C05 / C03 / C01 glue):
  a sampled correspondence check becomes, per instance, a statement for ALL n and ALL initial values.

  Property theorems (each followed at the end of the file by non-vacuity `example`s on the program
  `f = 0; x = 0; while true: f = Bernoulli(1/2); x = x + f`, Γ = {f ↦ {0,1}}, M = x·f):

  * `exec_sim` (`block_sim`, `iter_sim`) — **symbolic execution is sound**: if the block / the iteration succeeds from
    a symbolic store `S` (values are polynomials in free symbols) and from a concrete store `σ` that agrees with `S`
    under the valuation `ρ` (`Rel ρ S σ`), the two weighted path lists correspond position by position: same
    weight, and every concrete value is the constant obtained by evaluating the symbolic value under `ρ`
    (`List.Forall₂ (PRel ρ)`).  `isConst_sound` (PolyEval): a polynomial recognised as the constant `c` evaluates
    to `c` under every valuation.
  * `inv_of_step` / `inv_run` — **invariant principle**: a property of paths that holds after the init block and is
    preserved by one `iter P` holds on every path of non-zero weight of `iterN P false n` / `run P false n`.
  * `checkInductive_sound0` / `checkInductive_sound` — **V1**: `checkInductive cap Γ0 Γ P = .ok true` ⇒ ∀ n, ∀ concrete
    σ₀, every path of non-zero weight of `run P false n σ₀` [of `run P false (n+1) σ₀`] holds rational constants only
    and every Γ0-typed [Γ-typed] variable that is set holds a constant of its set.  `Γ0 ⊆ Γ`: the typed variables the
    init block assigns / all typed variables (normalisation adds typed auxiliaries without initial assignment).
  * `checkOneStep_sound` — **V2**: `checkOneStep cap Γ P M terms = .ok true` ⇒ from every concrete state satisfying Γ:
    E over one `iter P` of `M` = Σ cᵢ · Mᵢ(state).
  * `moment_succ` — **law of total expectation**: E(M)(n+1) = E over `run n` of the one-step expectation of M.
  * `recurrence_holds_forall_n` / `recurrence_momentU` — V1 ∧ V2 on Γ ⇒ ∀ n σ₀: E(M)(n+2) = Σ cᵢ · E(Mᵢ)(n+1);
    `recurrence_holds_from_zero` / `recurrence_momentU_from_zero` — V1 ∧ V2 on Γ0 ⇒ ∀ n σ₀: E(M)(n+1) = Σ cᵢ · E(Mᵢ)(n)
    (with Γ0 = Γ: the statement for all n from one pair of checks);
    `mass_preserved` — the instance M = 1: the total weight is the same at every n.

  Restrictions.  `Fragment P`: flat guarded assignments with right side expression / choice / Bernoulli / Categorical /
  DiscreteUniform (no `simult`, no `ite`, no continuous draw — draw atoms never occur).  V1 for programs WITH continuous
  draws is in `PolarProofs/ValidateCont.lean` (`checkInductiveC_sound0/_sound`, semantic reading of "constant"); V2 with
  continuous draws is in `PolarProofs/ValidateStepC.lean` (`checkOneStepC_sound`, `recurrence_holds_forall_nC`,
  `recurrence_holds_from_zeroC`).  "Whenever the quantities are
  defined": the theorems assume that the concrete run and the expectations return `.ok` (the semantics refuses e.g.
  division by zero or an unset variable); they do NOT assume anything about what the concrete run looks like.
  Zero-weight paths are exempt in V1 because the executable check exempts them (a `Bernoulli(1)` branch of weight 0
  may leave the type).  Typed variables that are not set on a path are exempt (`SatΓ`): nothing forces σ₀ to define
  them; `Store`s that define every variable (as the harness builds them) keep them defined.
  The results are about the UN-MERGED run (`run P false`); `Polar.moment` uses `run P true`, whose `mergeFast` goes
  through `Std.HashMap` — merging equal paths changes neither side of the recurrence (it adds the weights of equal
  paths), but that is not proved here.
-/
import Mathlib.Tactic
import Polar.Validate
import PolarProofs.PolyEval
open Polar Polar.Validate

namespace Polar.VP

/-! ### the simulation relation: symbolic store `S`, concrete store `σ`, valuation `ρ` of the free symbols

Where both stores define a variable, the concrete value is the constant obtained by evaluating the symbolic
value under `ρ`.  Nothing is required about the domains: whenever BOTH executions succeed, every variable that
is read is defined on both sides. -/

def Rel (ρ : String → Rat) (S σ : Store) : Prop :=
  ∀ x v v', S.get? x = some v → σ.get? x = some v' → v' = MPoly.const (MPoly.eval ρ v)

theorem Rel.set {ρ : String → Rat} {S σ : Store} (h : Rel ρ S σ) (x : String) (v : MPoly) :
    Rel ρ (S.set x v) (σ.set x (MPoly.const (MPoly.eval ρ v))) := by
  intro y a a' h1 h2
  rw [store_get_set] at h1 h2
  by_cases hy : y = x
  · simp only [hy, if_true, Option.some.injEq] at h1 h2
    rw [← h1, ← h2]
  · simp only [hy, if_false] at h1 h2
    exact h y a a' h1 h2

/-- setting a variable on the symbolic side only -/
theorem Rel.set_left {ρ : String → Rat} {S σ : Store} (h : Rel ρ S σ) (x : String) (v : MPoly)
    (hx : ∀ v', σ.get? x = some v' → v' = MPoly.const (MPoly.eval ρ v)) : Rel ρ (S.set x v) σ := by
  intro y a a' h1 h2
  rw [store_get_set] at h1
  by_cases hy : y = x
  · simp only [hy, if_true, Option.some.injEq] at h1
    subst hy
    rw [← h1]; exact hx a' h2
  · simp only [hy, if_false] at h1
    exact h y a a' h1 h2

theorem evalExpr_sim {ρ : String → Rat} {S σ : Store} (h : Rel ρ S σ) (e : Expr) {v v' : MPoly}
    (hs : evalExpr S e = .ok v) (hc : evalExpr σ e = .ok v') : v' = MPoly.const (MPoly.eval ρ v) := by
  induction e generalizing v v' with
  | num r =>
    simp only [evalExpr, pure, Except.pure, Except.ok.injEq] at hs hc
    rw [← hs, ← hc, MPoly.eval_const]
  | var x =>
    simp only [evalExpr] at hs hc
    cases hg : S.get? x with
    | none => simp [hg, throw_ne_ok] at hs
    | some w =>
      cases hg' : σ.get? x with
      | none => simp [hg', throw_ne_ok] at hc
      | some w' =>
        simp only [hg, hg', pure, Except.pure, Except.ok.injEq] at hs hc
        subst hs hc
        exact h x w w' hg hg'
  | add a b iha ihb =>
    simp only [evalExpr] at hs hc
    obtain ⟨va, h1, hs⟩ := bind_ok.mp hs
    obtain ⟨vb, h2, hs⟩ := bind_ok.mp hs
    obtain ⟨va', h1', hc⟩ := bind_ok.mp hc
    obtain ⟨vb', h2', hc⟩ := bind_ok.mp hc
    rw [pure_ok] at hs hc
    rw [← hs, ← hc, iha h1 h1', ihb h2 h2', const_add, MPoly.eval_add]
  | sub a b iha ihb =>
    simp only [evalExpr] at hs hc
    obtain ⟨va, h1, hs⟩ := bind_ok.mp hs
    obtain ⟨vb, h2, hs⟩ := bind_ok.mp hs
    obtain ⟨va', h1', hc⟩ := bind_ok.mp hc
    obtain ⟨vb', h2', hc⟩ := bind_ok.mp hc
    rw [pure_ok] at hs hc
    rw [← hs, ← hc, iha h1 h1', ihb h2 h2', const_sub, MPoly.eval_sub]
  | mul a b iha ihb =>
    simp only [evalExpr] at hs hc
    obtain ⟨va, h1, hs⟩ := bind_ok.mp hs
    obtain ⟨vb, h2, hs⟩ := bind_ok.mp hs
    obtain ⟨va', h1', hc⟩ := bind_ok.mp hc
    obtain ⟨vb', h2', hc⟩ := bind_ok.mp hc
    rw [pure_ok] at hs hc
    rw [← hs, ← hc, iha h1 h1', ihb h2 h2', const_mul, MPoly.eval_mul]
  | neg a iha =>
    simp only [evalExpr] at hs hc
    obtain ⟨va, h1, hs⟩ := bind_ok.mp hs
    obtain ⟨va', h1', hc⟩ := bind_ok.mp hc
    rw [pure_ok] at hs hc
    rw [← hs, ← hc, iha h1 h1', const_neg, MPoly.eval_neg]
  | pow a k iha =>
    simp only [evalExpr] at hs hc
    obtain ⟨va, h1, hs⟩ := bind_ok.mp hs
    obtain ⟨va', h1', hc⟩ := bind_ok.mp hc
    rw [pure_ok] at hs hc
    rw [← hs, ← hc, iha h1 h1', const_pow, MPoly.eval_pow]
  | div a b iha ihb =>
    simp only [evalExpr] at hs hc
    obtain ⟨vb, h2, hs⟩ := bind_ok.mp hs
    obtain ⟨vb', h2', hc⟩ := bind_ok.mp hc
    have hb := ihb h2 h2'
    cases hk : MPoly.isConst? vb with
    | none => simp [hk, throw_ne_ok] at hs
    | some c =>
      have hcv : MPoly.eval ρ vb = c := isConst_sound hk ρ
      rw [hb, hcv, isConst_const] at hc
      simp only [hk] at hs
      simp only at hc
      by_cases hz : c = 0
      · simp [hz, throw_ne_ok] at hs
      · simp only [hz, if_false] at hs hc
        obtain ⟨va, h1, hs⟩ := bind_ok.mp hs
        obtain ⟨va', h1', hc⟩ := bind_ok.mp hc
        rw [pure_ok] at hs hc
        rw [← hs, ← hc, iha h1 h1', const_scale, MPoly.eval_scale]

theorem evalConst_sim {ρ : String → Rat} {S σ : Store} (h : Rel ρ S σ) (e : Expr) {c c' : Rat}
    (hs : evalConst S e = .ok c) (hc : evalConst σ e = .ok c') : c' = c := by
  simp only [evalConst] at hs hc
  obtain ⟨v, h1, hs⟩ := bind_ok.mp hs
  obtain ⟨v', h1', hc⟩ := bind_ok.mp hc
  have hv := evalExpr_sim h e h1 h1'
  cases hk : MPoly.isConst? v with
  | none => simp [hk, throw_ne_ok] at hs
  | some k =>
    rw [hv, isConst_sound hk ρ, isConst_const] at hc
    simp only [hk, pure, Except.pure, Except.ok.injEq] at hs hc
    rw [← hs, ← hc]

theorem evalCond_sim {ρ : String → Rat} {S σ : Store} (h : Rel ρ S σ) (c : Cond) {b b' : Bool}
    (hs : evalCond S c = .ok b) (hc : evalCond σ c = .ok b') : b' = b := by
  induction c generalizing b b' with
  | tt =>
    simp only [evalCond, pure, Except.pure, Except.ok.injEq] at hs hc
    rw [← hs, ← hc]
  | ff =>
    simp only [evalCond, pure, Except.pure, Except.ok.injEq] at hs hc
    rw [← hs, ← hc]
  | cmp op l r =>
    simp only [evalCond] at hs hc
    obtain ⟨vl, h1, hs⟩ := bind_ok.mp hs
    obtain ⟨vr, h2, hs⟩ := bind_ok.mp hs
    obtain ⟨vl', h1', hc⟩ := bind_ok.mp hc
    obtain ⟨vr', h2', hc⟩ := bind_ok.mp hc
    rw [evalExpr_sim h l h1 h1', evalExpr_sim h r h2 h2', const_sub, isConst_const] at hc
    cases hk : MPoly.isConst? (MPoly.sub vl vr) with
    | none => simp [hk, throw_ne_ok] at hs
    | some k =>
      have := isConst_sound hk ρ
      rw [MPoly.eval_sub] at this
      simp only [hk, pure, Except.pure, Except.ok.injEq] at hs hc
      rw [← hs, ← hc, this]
  | not c ih =>
    simp only [evalCond] at hs hc
    obtain ⟨v, h1, hs⟩ := bind_ok.mp hs
    obtain ⟨v', h1', hc⟩ := bind_ok.mp hc
    rw [pure_ok] at hs hc
    rw [← hs, ← hc, ih h1 h1']
  | and a b iha ihb =>
    simp only [evalCond] at hs hc
    obtain ⟨va, h1, hs⟩ := bind_ok.mp hs
    obtain ⟨vb, h2, hs⟩ := bind_ok.mp hs
    obtain ⟨va', h1', hc⟩ := bind_ok.mp hc
    obtain ⟨vb', h2', hc⟩ := bind_ok.mp hc
    rw [pure_ok] at hs hc
    rw [← hs, ← hc, iha h1 h1', ihb h2 h2']
  | or a b iha ihb =>
    simp only [evalCond] at hs hc
    obtain ⟨va, h1, hs⟩ := bind_ok.mp hs
    obtain ⟨vb, h2, hs⟩ := bind_ok.mp hs
    obtain ⟨va', h1', hc⟩ := bind_ok.mp hc
    obtain ⟨vb', h2', hc⟩ := bind_ok.mp hc
    rw [pure_ok] at hs hc
    rw [← hs, ← hc, iha h1 h1', ihb h2 h2']

/-! ### right-hand sides -/

theorem evalRhs_expr_ok {p : Path} {e : Expr} {outs : List (Rat × MPoly × List Atom)}
    (h : evalRhs p (.expr e) = .ok outs) : ∃ v, evalExpr p.vals e = .ok v ∧ outs = [(1, v, p.atoms)] := by
  simp only [evalRhs] at h
  obtain ⟨v, h1, h⟩ := bind_ok.mp h
  exact ⟨v, h1, (pure_ok.mp h).symm⟩

theorem evalRhs_choice_ok {p : Path} {alts : List (Expr × Expr)} {outs : List (Rat × MPoly × List Atom)}
    (h : evalRhs p (.choice alts) = .ok outs) : List.Forall₂ (SemAlt p.vals p.atoms) alts outs := by
  simp only [evalRhs] at h
  obtain ⟨res, h1, h⟩ := bind_ok.mp h
  rw [pure_ok] at h
  subst h
  obtain ⟨l, hres, hl⟩ := choice_loop p.vals p.atoms alts [] res h1
  rw [hres, List.nil_append]
  exact hl

/-- the outcomes of a discrete draw -/
inductive DistOut (p : Path) (name : String) (params : List Expr) (outs : List (Rat × MPoly × List Atom)) : Prop
  | bern (e : Expr) (q : Rat) (hn : name = "Bernoulli") (hp : params = [e]) (h : evalConst p.vals e = .ok q)
      (ho : outs = [(q, MPoly.const 1, p.atoms), (1 - q, MPoly.const 0, p.atoms)])
  | cat (qs : List Rat) (hn : name = "Categorical")
      (h : List.Forall₂ (fun e q => evalConst p.vals e = .ok q) params qs) (ho : outs = mkCat p.atoms 0 qs)
  | du (a b : Expr) (lo hi : Rat) (hn : name = "DiscreteUniform") (hp : params = [a, b])
      (ha : evalConst p.vals a = .ok lo) (hb : evalConst p.vals b = .ok hi)
      (ho : outs = (List.range (hi.num - lo.num + 1).toNat).map (fun (k : Nat) =>
          ((1 : Rat) / ((hi.num - lo.num + 1).toNat : Rat), MPoly.const (lo + (k : Rat)), p.atoms)))

theorem evalRhs_dist_ok {p : Path} {name : String} {params : List Expr} {outs : List (Rat × MPoly × List Atom)}
    (hok : rhsOK (.dist name params) = true) (h : evalRhs p (.dist name params) = .ok outs) :
    DistOut p name params outs := by
  simp only [evalRhs] at h
  split at h
  · -- Bernoulli
    rename_i e
    obtain ⟨q, hq, h⟩ := bind_ok.mp h
    rw [pure_ok] at h
    exact DistOut.bern e q rfl rfl hq h.symm
  · -- Categorical
    obtain ⟨res, h1, h⟩ := bind_ok.mp h
    rw [pure_ok] at h
    subst h
    obtain ⟨qs, hq, hres⟩ := cat_loop p.vals p.atoms _ ([], 0) res h1
    rw [List.nil_append] at hres
    exact DistOut.cat qs rfl hq hres
  · -- DiscreteUniform
    rename_i a b
    obtain ⟨lo, hlo, h⟩ := bind_ok.mp h
    obtain ⟨hi, hhi, h⟩ := bind_ok.mp h
    split at h
    · simp [throw, throwThe, MonadExceptOf.throw, bind, Except.bind] at h
    · simp only [pure, Except.pure, Except.ok.injEq] at h
      exact DistOut.du a b lo hi rfl rfl hlo hhi h.symm
  all_goals first
    | (exfalso; revert hok; simp [rhsOK]; done)
    | (exfalso; exact throw_ne_ok h)

/-- symbolic outcome vs. concrete outcome of one right-hand side -/
def ORel (ρ : String → Rat) (o o' : Rat × MPoly × List Atom) : Prop :=
  o.1 = o'.1 ∧ o'.2.1 = MPoly.const (MPoly.eval ρ o.2.1)

theorem evalConsts_sim {ρ : String → Rat} {S σ : Store} (h : Rel ρ S σ) {ps : List Expr} {qs qs' : List Rat}
    (h1 : List.Forall₂ (fun e q => evalConst S e = .ok q) ps qs)
    (h2 : List.Forall₂ (fun e q => evalConst σ e = .ok q) ps qs') : qs' = qs := by
  induction h1 generalizing qs' with
  | nil => cases h2; rfl
  | @cons e q t qs₁ he _ ih =>
    cases h2 with
    | @cons _ q' _ qs₂ he' ht' =>
      rw [evalConst_sim h e he he', ih ht']

theorem mkCat_rel (ρ : String → Rat) (at1 at2 : List Atom) (qs : List Rat) (k : Nat) :
    List.Forall₂ (ORel ρ) (mkCat at1 k qs) (mkCat at2 k qs) := by
  induction qs generalizing k with
  | nil => exact List.Forall₂.nil
  | cons q t ih =>
    simp only [mkCat]
    exact List.Forall₂.cons ⟨rfl, by simp [MPoly.eval_const]⟩ (ih (k + 1))

theorem choice_sim {ρ : String → Rat} {S σ : Store} (h : Rel ρ S σ) {at1 at2 : List Atom}
    {alts : List (Expr × Expr)} {l l' : List (Rat × MPoly × List Atom)}
    (h1 : List.Forall₂ (SemAlt S at1) alts l) (h2 : List.Forall₂ (SemAlt σ at2) alts l') :
    List.Forall₂ (ORel ρ) l l' := by
  induction h1 generalizing l' with
  | nil => cases h2; exact List.Forall₂.nil
  | @cons a o t l₁ hao _ ih =>
    cases h2 with
    | @cons _ o' _ l₂ hao' ht' =>
      refine List.Forall₂.cons ⟨?_, ?_⟩ (ih ht')
      · exact (evalConst_sim h a.2 hao.1 hao'.1).symm
      · exact evalExpr_sim h a.1 hao.2.1 hao'.2.1

theorem rhs_sim {ρ : String → Rat} {ps pc : Path} (h : Rel ρ ps.vals pc.vals)
    (rhs : Rhs) (hok : rhsOK rhs = true) {os oc : List (Rat × MPoly × List Atom)}
    (hs : evalRhs ps rhs = .ok os) (hc : evalRhs pc rhs = .ok oc) : List.Forall₂ (ORel ρ) os oc := by
  cases rhs with
  | expr e =>
    obtain ⟨v, h1, rfl⟩ := evalRhs_expr_ok hs
    obtain ⟨v', h1', rfl⟩ := evalRhs_expr_ok hc
    exact List.Forall₂.cons ⟨rfl, evalExpr_sim h e h1 h1'⟩ List.Forall₂.nil
  | choice alts =>
    exact choice_sim h (evalRhs_choice_ok hs) (evalRhs_choice_ok hc)
  | dist name params =>
    have d1 := evalRhs_dist_ok hok hs
    have d2 := evalRhs_dist_ok hok hc
    cases d1 with
    | bern e q hn hp hq ho =>
      cases d2 with
      | bern e' q' hn' hp' hq' ho' =>
        rw [hp] at hp'
        simp only [List.cons.injEq, and_true] at hp'
        subst hp'
        have := evalConst_sim h e hq hq'
        subst this
        rw [ho, ho']
        exact List.Forall₂.cons ⟨rfl, by simp [MPoly.eval_const]⟩
          (List.Forall₂.cons ⟨rfl, by simp [MPoly.eval_const]⟩ List.Forall₂.nil)
      | cat _ hn' => exact absurd (hn.symm.trans hn') (by decide)
      | du _ _ _ _ hn' => exact absurd (hn.symm.trans hn') (by decide)
    | cat qs hn hq ho =>
      cases d2 with
      | bern _ _ hn' => exact absurd (hn.symm.trans hn') (by decide)
      | cat qs' hn' hq' ho' =>
        have := evalConsts_sim h hq hq'
        subst this
        rw [ho, ho']
        exact mkCat_rel ρ _ _ qs' 0
      | du _ _ _ _ hn' => exact absurd (hn.symm.trans hn') (by decide)
    | du a b lo hi hn hp ha hb ho =>
      cases d2 with
      | bern _ _ hn' => exact absurd (hn.symm.trans hn') (by decide)
      | cat _ hn' => exact absurd (hn.symm.trans hn') (by decide)
      | du a' b' lo' hi' hn' hp' ha' hb' ho' =>
        rw [hp] at hp'
        simp only [List.cons.injEq, and_true] at hp'
        obtain ⟨rfl, rfl⟩ := hp'
        have e1 := evalConst_sim h a ha ha'
        have e2 := evalConst_sim h b hb hb'
        subst e1 e2
        rw [ho, ho', List.forall₂_map_left_iff, List.forall₂_map_right_iff, List.forall₂_same]
        intro k _
        exact ⟨rfl, by simp [MPoly.eval_const]⟩

/-! ### statements, blocks, one iteration -/

/-- symbolic weighted path vs. concrete weighted path -/
def PRel (ρ : String → Rat) (a b : Rat × Path) : Prop :=
  a.1 = b.1 ∧ Rel ρ a.2.vals b.2.vals

theorem outs_sim {ρ : String → Rat} {ps pc : Path} (h : Rel ρ ps.vals pc.vals) (x : String)
    {os oc : List (Rat × MPoly × List Atom)} (ho : List.Forall₂ (ORel ρ) os oc) :
    List.Forall₂ (PRel ρ)
      (os.map (fun o => (o.1, ({ vals := ps.vals.set x o.2.1, atoms := o.2.2 } : Path))))
      (oc.map (fun o => (o.1, ({ vals := pc.vals.set x o.2.1, atoms := o.2.2 } : Path)))) := by
  induction ho with
  | nil => exact List.Forall₂.nil
  | @cons o o' _ _ hoo _ ih =>
    simp only [List.map_cons]
    refine List.Forall₂.cons ⟨hoo.1, ?_⟩ ih
    simp only
    rw [hoo.2]
    exact h.set x _

theorem assign_sim {ρ : String → Rat} {ps pc : Path} (h : Rel ρ ps.vals pc.vals)
    (x : String) (rhs : Rhs) (g : Cond) (d : String) (hok : rhsOK rhs = true) {Ds Dc : WD}
    (hs : execStmt (.assign x rhs g d) ps = .ok Ds) (hc : execStmt (.assign x rhs g d) pc = .ok Dc) :
    List.Forall₂ (PRel ρ) Ds Dc := by
  rw [execStmt] at hs hc
  obtain ⟨b, hb, hs⟩ := bind_ok.mp hs
  obtain ⟨b', hb', hc⟩ := bind_ok.mp hc
  have := evalCond_sim h g hb hb'
  subst this
  cases b' with
  | true =>
    simp only [if_true] at hs hc
    obtain ⟨os, ho, hs⟩ := bind_ok.mp hs
    obtain ⟨oc, ho', hc⟩ := bind_ok.mp hc
    rw [pure_ok] at hs hc
    subst hs hc
    exact outs_sim h x (rhs_sim h rhs hok ho ho')
  | false =>
    simp only [Bool.false_eq_true, if_false] at hs hc
    cases hg : ps.vals.get? d with
    | none => simp [hg, throw_ne_ok] at hs
    | some v =>
      cases hg' : pc.vals.get? d with
      | none => simp [hg', throw_ne_ok] at hc
      | some v' =>
        simp only [hg, hg', pure, Except.pure, Except.ok.injEq] at hs hc
        subst hs hc
        refine List.Forall₂.cons ⟨rfl, ?_⟩ List.Forall₂.nil
        simp only
        rw [h d v v' hg hg']
        exact h.set x v

theorem scale_sim {ρ : String → Rat} (w : Rat) {Da Db : WD} (h : List.Forall₂ (PRel ρ) Da Db) :
    List.Forall₂ (PRel ρ) (Da.map (fun x => (w * x.1, x.2))) (Db.map (fun x => (w * x.1, x.2))) := by
  induction h with
  | nil => exact List.Forall₂.nil
  | @cons a b _ _ hab _ ih =>
    simp only [List.map_cons]
    exact List.Forall₂.cons ⟨by rw [hab.1], hab.2⟩ ih

theorem forall₂_append' {α β : Type} {R : α → β → Prop} {a1 a2 : List α} {b1 b2 : List β}
    (h1 : List.Forall₂ R a1 b1) (h2 : List.Forall₂ R a2 b2) : List.Forall₂ R (a1 ++ a2) (b1 ++ b2) := by
  induction h1 with
  | nil => simpa using h2
  | cons hab _ ih => exact List.Forall₂.cons hab ih

theorem bind_sim {ρ : String → Rat} {f f' : Path → M WD} {Ds Dc : WD} (hd : List.Forall₂ (PRel ρ) Ds Dc)
    (hf : ∀ a b, PRel ρ a b → ∀ Da Db, f a.2 = .ok Da → f' b.2 = .ok Db → List.Forall₂ (PRel ρ) Da Db)
    {Es Ec : WD} (hs : bindW Ds f = .ok Es) (hc : bindW Dc f' = .ok Ec) : List.Forall₂ (PRel ρ) Es Ec := by
  induction hd generalizing Es Ec with
  | nil =>
    rw [bindW_nil_ok hs, bindW_nil_ok hc]
    exact List.Forall₂.nil
  | @cons a b ta tb hab _ ih =>
    obtain ⟨w, q⟩ := a
    obtain ⟨w', q'⟩ := b
    obtain ⟨A, B, hA, hB, rfl⟩ := bindW_cons_ok hs
    obtain ⟨A', B', hA', hB', rfl⟩ := bindW_cons_ok hc
    have hw : w = w' := hab.1
    subst hw
    exact forall₂_append' (scale_sim w (hf _ _ hab A A' hA hA')) (ih hB hB')

theorem block_sim {ρ : String → Rat} (blk : List Stmt) (hok : blk.all stmtOK = true) {ps pc : Path}
    (h : Rel ρ ps.vals pc.vals) {Ds Dc : WD}
    (hs : execBlock blk ps = .ok Ds) (hc : execBlock blk pc = .ok Dc) : List.Forall₂ (PRel ρ) Ds Dc := by
  induction blk generalizing ps pc Ds Dc with
  | nil =>
    rw [execBlock_nil, pure_ok] at hs hc
    subst hs hc
    exact List.Forall₂.cons ⟨rfl, h⟩ List.Forall₂.nil
  | cons st rest ih =>
    simp only [List.all_cons, Bool.and_eq_true] at hok
    cases st with
    | assign x rhs g dflt =>
      rw [execBlock_cons] at hs hc
      obtain ⟨d, hd, hs⟩ := bind_ok.mp hs
      obtain ⟨d', hd', hc⟩ := bind_ok.mp hc
      have h1 := assign_sim h x rhs g dflt (by simpa [stmtOK] using hok.1) hd hd'
      exact bind_sim h1 (fun a b hab Da Db hA hB => ih hok.2 hab.2 hA hB) hs hc
    | simult xs rhss => simp [stmtOK] at hok
    | ite c t e => simp [stmtOK] at hok

theorem iter_sim {ρ : String → Rat} (P : Program) (hok : P.body.all stmtOK = true) {ps pc : Path}
    (h : Rel ρ ps.vals pc.vals) {Ds Dc : WD}
    (hs : iter P ps = .ok Ds) (hc : iter P pc = .ok Dc) : List.Forall₂ (PRel ρ) Ds Dc := by
  simp only [iter] at hs hc
  obtain ⟨b, hb, hs⟩ := bind_ok.mp hs
  obtain ⟨b', hb', hc⟩ := bind_ok.mp hc
  have := evalCond_sim h P.guard hb hb'
  subst this
  cases b' with
  | true =>
    simp only [if_true] at hs hc
    exact block_sim P.body hok h hs hc
  | false =>
    simp only [Bool.false_eq_true, if_false] at hs hc
    rw [pure_ok] at hs hc
    subst hs hc
    exact List.Forall₂.cons ⟨rfl, h⟩ List.Forall₂.nil

/-! ### concrete stores, type environments, the valuation read off a concrete store -/

/-- every value of the store is a rational constant -/
def ConcStore (σ : Store) : Prop := ∀ x v, σ.get? x = some v → ∃ c, v = MPoly.const c

/-- every typed variable that is set holds a constant of its set -/
def SatΓ (Γ : TypeEnv) (σ : Store) : Prop :=
  ∀ e ∈ Γ, ∀ v, σ.get? e.1 = some v → ∃ c ∈ e.2, v = MPoly.const c

/-- the invariant of V1 on a path -/
def Inv (Γ : TypeEnv) (q : Path) : Prop := ConcStore q.vals ∧ SatΓ Γ q.vals

/-- the valuation of the free symbols a concrete store induces -/
def valOf (σ : Store) : String → Rat := fun x =>
  match σ.get? x with
  | some v => MPoly.eval (fun _ => 0) v
  | none => 0

theorem valOf_spec {σ : Store} (hσ : ConcStore σ) {x : String} {v : MPoly} (h : σ.get? x = some v) :
    v = MPoly.const (valOf σ x) := by
  obtain ⟨c, rfl⟩ := hσ x v h
  simp [valOf, h, MPoly.eval_const]

theorem concStore_iff_rel (ρ : String → Rat) (σ : Store) : ConcStore σ ↔ Rel ρ σ σ := by
  constructor
  · intro h x v v' h1 h2
    rw [h1] at h2
    simp only [Option.some.injEq] at h2
    subst h2
    obtain ⟨c, rfl⟩ := h x v h1
    rw [MPoly.eval_const]
  · intro h x v h1
    exact ⟨_, h x v v h1 h1⟩

theorem rel_nil (ρ : String → Rat) (σ : Store) : Rel ρ [] σ := by
  intro x v v' h1
  simp [store_get_nil] at h1

theorem rel_free {ρ : String → Rat} {σ : Store} (hρ : ∀ x v, σ.get? x = some v → v = MPoly.const (ρ x))
    (xs : List String) (S : Store) (h : Rel ρ S σ) :
    Rel ρ (xs.foldl (fun s x => s.set x (MPoly.var x)) S) σ := by
  induction xs generalizing S with
  | nil => exact h
  | cons x t ih =>
    simp only [List.foldl_cons]
    exact ih _ (h.set_left x _ (fun v' hv' => by rw [MPoly.eval_var]; exact hρ x v' hv'))

theorem rel_freeStore {σ : Store} (hσ : ConcStore σ) (xs : List String) : Rel (valOf σ) (freeStore xs) σ :=
  rel_free (fun _ _ h => valOf_spec hσ h) xs [] (rel_nil _ _)

theorem rel_assignStore {ρ : String → Rat} {σ : Store} (a : Assign)
    (ha : ∀ xc ∈ a, ∀ v, σ.get? xc.1 = some v → v = MPoly.const xc.2) (S : Store) (h : Rel ρ S σ) :
    Rel ρ (assignStore S a) σ := by
  unfold assignStore
  induction a generalizing S with
  | nil => exact h
  | cons xc t ih =>
    simp only [List.foldl_cons]
    refine ih (fun y hy => ha y (by simp [hy])) _ (h.set_left xc.1 _ (fun v' hv' => ?_))
    rw [MPoly.eval_const]
    exact ha xc (by simp) v' hv'

/-- the Γ-state a concrete store is in (unset variables: the first value of the type) -/
def stateOf (Γ : TypeEnv) (σ : Store) : Assign :=
  Γ.map (fun e => (e.1, match σ.get? e.1 with
    | some v => MPoly.eval (fun _ => 0) v
    | none => e.2.headD 0))

theorem mem_enumΓ (g : String × List Rat → Rat) (Γ : TypeEnv) (hg : ∀ e ∈ Γ, g e ∈ e.2) :
    Γ.map (fun e => (e.1, g e)) ∈ enumΓ Γ := by
  induction Γ with
  | nil => simp [enumΓ]
  | cons e t ih =>
    obtain ⟨x, vs⟩ := e
    simp only [List.map_cons, enumΓ, List.mem_flatMap, List.mem_map]
    exact ⟨g (x, vs), hg (x, vs) (by simp), _, ih (fun e he => hg e (by simp [he])), rfl⟩

theorem stateOf_mem {Γ : TypeEnv} {σ : Store} (hne : ∀ e ∈ Γ, e.2 ≠ []) (hΓ : SatΓ Γ σ) :
    stateOf Γ σ ∈ enumΓ Γ := by
  refine mem_enumΓ _ Γ (fun e he => ?_)
  cases hg : σ.get? e.1 with
  | none =>
    simp only
    cases hv : e.2 with
    | nil => exact absurd hv (hne e he)
    | cons c t => simp
  | some v =>
    obtain ⟨c, hc, rfl⟩ := hΓ e he v hg
    simpa [MPoly.eval_const] using hc

theorem stateOf_agrees {Γ : TypeEnv} {σ : Store} (hΓ : SatΓ Γ σ) :
    ∀ xc ∈ stateOf Γ σ, ∀ v, σ.get? xc.1 = some v → v = MPoly.const xc.2 := by
  intro xc hxc v hv
  simp only [stateOf, List.mem_map] at hxc
  obtain ⟨e, he, rfl⟩ := hxc
  simp only at hv ⊢
  obtain ⟨c, _, rfl⟩ := hΓ e he v hv
  simp [hv, MPoly.eval_const]

/-- the symbolic start store of a concrete Γ-state is related to it -/
theorem rel_symStore {Γ : TypeEnv} {σ : Store} (hσ : ConcStore σ) (hΓ : SatΓ Γ σ) (xs : List String) :
    Rel (valOf σ) (assignStore (freeStore xs) (stateOf Γ σ)) σ :=
  rel_assignStore _ (stateOf_agrees hΓ) _ (rel_freeStore hσ xs)

/-! ### reading the executable checks -/

theorem satΓ_sound {ρ : String → Rat} {Γ : TypeEnv} {S σ : Store} (h : Rel ρ S σ) (hs : satΓ Γ S = true) :
    SatΓ Γ σ := by
  intro e he v' hv'
  simp only [satΓ, List.all_eq_true] at hs
  have := hs e he
  unfold holdsIn at this
  cases hg : S.get? e.1 with
  | none => simp [hg] at this
  | some p =>
    cases hk : MPoly.isConst? p with
    | none => simp [hg, hk] at this
    | some c =>
      simp only [hg, hk, List.contains_eq_mem, decide_eq_true_eq] at this
      refine ⟨c, this, ?_⟩
      rw [h e.1 p v' hg hv', isConst_sound hk ρ]

theorem badPath_none {Γ : TypeEnv} {D : WD} (h : badPath Γ D = none) :
    ∀ wp ∈ D, wp.1 ≠ 0 → satΓ Γ wp.2.vals = true := by
  intro wp hwp hw
  simp only [badPath, List.find?_eq_none] at h
  have := h wp hwp
  simpa [hw] using this

theorem firstFail_none {α β : Type} {f : α → M (Option β)} {l : List α} (h : firstFail f l = .ok none) :
    ∀ a ∈ l, f a = .ok none := by
  induction l with
  | nil => intro a ha; cases ha
  | cons x t ih =>
    simp only [firstFail] at h
    obtain ⟨r, hr, h⟩ := bind_ok.mp h
    cases r with
    | some b => simp [pure, Except.pure] at h
    | none =>
      intro a ha
      rcases List.mem_cons.mp ha with rfl | ha
      · exact hr
      · exact ih h a ha

theorem admissible_ok {cap : Nat} {Γ : TypeEnv} {P : Program} {u : Unit} (h : admissible cap Γ P = .ok u) :
    Fragment P = true ∧ ∀ e ∈ Γ, e.2 ≠ [] := by
  unfold admissible at h
  split at h
  · exact absurd h throw_ne_ok
  · rename_i hf
    split at h
    · exact absurd h throw_ne_ok
    · rename_i hne
      refine ⟨by simpa using hf, fun e he hnil => hne ?_⟩
      simp only [List.any_eq_true]
      exact ⟨e, he, by simp [hnil]⟩

theorem forall₂_mem_right {α β : Type} {R : α → β → Prop} {l1 : List α} {l2 : List β}
    (h : List.Forall₂ R l1 l2) {b : β} (hb : b ∈ l2) : ∃ a ∈ l1, R a b := by
  induction h with
  | nil => cases hb
  | @cons a b' _ _ hab _ ih =>
    rcases List.mem_cons.mp hb with rfl | hb
    · exact ⟨a, by simp, hab⟩
    · obtain ⟨a', ha', hr⟩ := ih hb
      exact ⟨a', by simp [ha'], hr⟩

/-! ### the generic invariant principle -/

/-- the property holds on every path of non-zero weight -/
def AllInv (I : Path → Prop) (D : WD) : Prop := ∀ wq ∈ D, wq.1 ≠ 0 → I wq.2

theorem bindW_inv {I J : Path → Prop} {f : Path → M WD}
    (hf : ∀ q, I q → ∀ D, f q = .ok D → AllInv J D) {D E : WD} (hD : AllInv I D) (h : bindW D f = .ok E) :
    AllInv J E := by
  induction D generalizing E with
  | nil =>
    rw [bindW_nil_ok h]
    intro wq hwq; cases hwq
  | cons a t ih =>
    obtain ⟨w, q⟩ := a
    obtain ⟨A, B, hA, hB, rfl⟩ := bindW_cons_ok h
    intro wq hwq hne
    rcases List.mem_append.mp hwq with hm | hm
    · obtain ⟨x, hx, rfl⟩ := List.mem_map.mp hm
      simp only [ne_eq, mul_eq_zero, not_or] at hne
      exact hf q (hD (w, q) (by simp) hne.1) A hA x hx hne.2
    · exact ih (fun y hy => hD y (by simp [hy])) hB wq hm hne

/-- **Invariant principle.**  A property of paths that is preserved by one `iter P` (on the paths of non-zero
    weight) is preserved by any number of iterations. -/
theorem inv_of_step {I : Path → Prop} (P : Program)
    (hstep : ∀ q, I q → ∀ D, iter P q = .ok D → AllInv I D) :
    ∀ (n : Nat) (D E : WD), AllInv I D → iterN P false n D = .ok E → AllInv I E := by
  intro n
  induction n with
  | zero =>
    intro D E hD h
    simp only [iterN] at h
    rw [pure_ok] at h
    subst h; exact hD
  | succ n ih =>
    intro D E hD h
    simp only [iterN, Bool.false_eq_true, if_false] at h
    obtain ⟨D', h1, h⟩ := bind_ok.mp h
    rw [bindM_eq] at h1
    exact ih D' E (bindW_inv hstep hD h1) h

/-- the same for `run`: the property holds after the init block and is preserved by `iter` -/
theorem inv_run {I : Path → Prop} (P : Program) (σ₀ : Store)
    (hinit : ∀ D, execBlock P.init ⟨σ₀, []⟩ = .ok D → AllInv I D)
    (hstep : ∀ q, I q → ∀ D, iter P q = .ok D → AllInv I D)
    (n : Nat) {E : WD} (h : run P false n σ₀ = .ok E) : AllInv I E := by
  simp only [run, Bool.false_eq_true, if_false] at h
  obtain ⟨D0, h0, h⟩ := bind_ok.mp h
  exact inv_of_step P hstep n D0 E (hinit D0 h0) h

/-! ### V1: soundness of `checkInductive` -/

/-- transfer along a successful symbolic execution: every concrete path of non-zero weight satisfies `Inv` -/
theorem inv_transfer {ρ : String → Rat} {Γ : TypeEnv} {Ds Dc : WD}
    (hsim : List.Forall₂ (PRel ρ) Ds Dc) (hself : List.Forall₂ (PRel ρ) Dc Dc)
    (hbad : badPath Γ Ds = none) : AllInv (Inv Γ) Dc := by
  intro wq hwq hne
  obtain ⟨a, ha, hr⟩ := forall₂_mem_right hsim hwq
  refine ⟨(concStore_iff_rel ρ _).mpr ((List.forall₂_same.mp hself) wq hwq).2, ?_⟩
  exact satΓ_sound hr.2 (badPath_none hbad a ha (by rw [hr.1]; exact hne))

theorem subEnv_sat {Γ0 Γ : TypeEnv} (h : subEnv Γ0 Γ = true) {σ : Store} (hΓ : SatΓ Γ σ) : SatΓ Γ0 σ := by
  intro e he
  simp only [subEnv, List.all_eq_true, List.contains_eq_mem, decide_eq_true_eq] at h
  exact hΓ e (h e he)

theorem inductiveCex_none {cap : Nat} {Γ0 Γ : TypeEnv} {P : Program} (h : inductiveCex cap Γ0 Γ P = .ok none) :
    Fragment P = true ∧ (∀ e ∈ Γ0, e.2 ≠ []) ∧ subEnv Γ0 Γ = true ∧
    (∃ D0, execBlock P.init ⟨freeStore (symVars Γ P []), []⟩ = .ok D0 ∧ badPath Γ0 D0 = none) ∧
    ∀ a ∈ enumΓ Γ0, stepCex Γ P (freeStore (symVars Γ P [])) a = .ok none := by
  simp only [inductiveCex] at h
  obtain ⟨u, hu, h⟩ := bind_ok.mp h
  obtain ⟨hF, hne⟩ := admissible_ok hu
  split at h
  · exact absurd h throw_ne_ok
  · rename_i hsub
    obtain ⟨D0, h0, h⟩ := bind_ok.mp h
    cases hb : badPath Γ0 D0 with
    | some wp => simp [hb, pure, Except.pure] at h
    | none =>
      simp only [hb] at h
      exact ⟨hF, hne, by simpa using hsub, ⟨D0, h0, hb⟩, firstFail_none h⟩

theorem stepCex_none {Γ : TypeEnv} {P : Program} {S0 : Store} {a : Assign} (h : stepCex Γ P S0 a = .ok none) :
    ∃ D, iter P ⟨assignStore S0 a, []⟩ = .ok D ∧ badPath Γ D = none := by
  simp only [stepCex] at h
  obtain ⟨D, hD, h⟩ := bind_ok.mp h
  rw [pure_ok] at h
  refine ⟨D, hD, ?_⟩
  cases hb : badPath Γ D with
  | none => rfl
  | some wp => simp [hb] at h

theorem fragment_parts {P : Program} (h : Fragment P = true) :
    P.init.all stmtOK = true ∧ P.body.all stmtOK = true := by
  simpa [Fragment] using h

/-- one iteration from a concrete state satisfying `Γ0`, given the step part of the check: `Γ` holds afterwards -/
theorem step_preserves {Γ0 Γ : TypeEnv} {P : Program} {xs : List String} (hF : Fragment P = true)
    (hne : ∀ e ∈ Γ0, e.2 ≠ [])
    (hstep : ∀ a ∈ enumΓ Γ0, stepCex Γ P (freeStore xs) a = .ok none)
    (q : Path) (hq : Inv Γ0 q) (D : WD) (hD : iter P q = .ok D) : AllInv (Inv Γ) D := by
  obtain ⟨hc, hΓ⟩ := hq
  obtain ⟨Ds, hDs, hbad⟩ := stepCex_none (hstep _ (stateOf_mem hne hΓ))
  have hrel : Rel (valOf q.vals) (assignStore (freeStore xs) (stateOf Γ0 q.vals)) q.vals :=
    rel_symStore hc hΓ xs
  have hbody := (fragment_parts hF).2
  exact inv_transfer (iter_sim P hbody (ps := ⟨_, []⟩) hrel hDs hD)
    (iter_sim P hbody ((concStore_iff_rel _ _).mp hc) hD hD) hbad

theorem AllInv.mono {I J : Path → Prop} (h : ∀ q, I q → J q) {D : WD} (hD : AllInv I D) : AllInv J D :=
  fun wq hwq hne => h _ (hD wq hwq hne)

theorem checkInductive_ok {cap : Nat} {Γ0 Γ : TypeEnv} {P : Program} (h : checkInductive cap Γ0 Γ P = .ok true) :
    inductiveCex cap Γ0 Γ P = .ok none := by
  simp only [checkInductive] at h
  obtain ⟨r, hr, h⟩ := bind_ok.mp h
  rw [pure_ok] at h
  cases r with
  | none => exact hr
  | some c => simp at h

/-- **V1 (from n = 0).**  If `checkInductive` accepts, then for EVERY number of iterations `n` and EVERY concrete
    initial store `σ₀` (all values rational constants), on every path of non-zero weight of `run P false n σ₀`
    every value is a rational constant and every `Γ0`-typed variable that is set holds a constant of its set. -/
theorem checkInductive_sound0 {cap : Nat} {Γ0 Γ : TypeEnv} {P : Program}
    (h : checkInductive cap Γ0 Γ P = .ok true)
    (n : Nat) (σ₀ : Store) (hσ : ConcStore σ₀) {D : WD} (hrun : run P false n σ₀ = .ok D) :
    AllInv (Inv Γ0) D := by
  obtain ⟨hF, hne, hsub, ⟨D0, h0, hb0⟩, hstep⟩ := inductiveCex_none (checkInductive_ok h)
  refine inv_run P σ₀ (fun Dc hDc => ?_)
    (fun q hq Dq hDq => (step_preserves hF hne hstep q hq Dq hDq).mono
      (fun _ hi => ⟨hi.1, subEnv_sat hsub hi.2⟩)) n hrun
  have hinit := (fragment_parts hF).1
  exact inv_transfer (block_sim P.init hinit (ps := ⟨_, []⟩) (pc := ⟨σ₀, []⟩) (rel_freeStore hσ _) h0 hDc)
    (block_sim P.init hinit (ps := ⟨σ₀, []⟩) (pc := ⟨σ₀, []⟩) ((concStore_iff_rel (valOf σ₀) _).mp hσ) hDc hDc)
    hb0

/-! ### V2: expectations -/

/-- weighted sum over a list of paths of an `M`-valued quantity (`WD.E D m = wsumM D (pathE m)`) -/
def wsumM (D : WD) (g : Path → M Rat) : M Rat :=
  D.foldrM (fun (wp : Rat × Path) acc => do pure (wp.1 * (← g wp.2) + acc)) 0

theorem E_eq_wsumM (D : WD) (m : Mono) : D.E m = wsumM D (pathE m) := rfl

theorem wsumM_nil (g : Path → M Rat) : wsumM [] g = .ok 0 := rfl

theorem wsumM_cons (w : Rat) (q : Path) (t : WD) (g : Path → M Rat) :
    wsumM ((w, q) :: t) g = (do let acc ← wsumM t g; let v ← g q; pure (w * v + acc)) := by
  simp only [wsumM, List.foldrM_cons]

theorem wsumM_cons_ok {w : Rat} {q : Path} {t : WD} {g : Path → M Rat} {r : Rat}
    (h : wsumM ((w, q) :: t) g = .ok r) : ∃ acc v, wsumM t g = .ok acc ∧ g q = .ok v ∧ r = w * v + acc := by
  rw [wsumM_cons] at h
  obtain ⟨acc, h1, h⟩ := bind_ok.mp h
  obtain ⟨v, h2, h⟩ := bind_ok.mp h
  exact ⟨acc, v, h1, h2, (pure_ok.mp h).symm⟩

theorem wsumM_cons_mk {w : Rat} {q : Path} {t : WD} {g : Path → M Rat} {acc v : Rat}
    (h1 : wsumM t g = .ok acc) (h2 : g q = .ok v) : wsumM ((w, q) :: t) g = .ok (w * v + acc) := by
  rw [wsumM_cons, h1, bind_ok]
  exact ⟨acc, rfl, by rw [h2]; rfl⟩

theorem wsumM_append_ok {A B : WD} {g : Path → M Rat} {r : Rat} (h : wsumM (A ++ B) g = .ok r) :
    ∃ a b, wsumM A g = .ok a ∧ wsumM B g = .ok b ∧ r = a + b := by
  induction A generalizing r with
  | nil => exact ⟨0, r, rfl, by simpa using h, by simp⟩
  | cons x t ih =>
    obtain ⟨w, q⟩ := x
    rw [List.cons_append] at h
    obtain ⟨acc, v, h1, h2, rfl⟩ := wsumM_cons_ok h
    obtain ⟨a, b, ha, hb, rfl⟩ := ih h1
    exact ⟨w * v + a, b, wsumM_cons_mk ha h2, hb, by ring⟩

theorem wsumM_scale_ok {w : Rat} {A : WD} {g : Path → M Rat} {r : Rat}
    (h : wsumM (A.map (fun x => (w * x.1, x.2))) g = .ok r) : ∃ a, wsumM A g = .ok a ∧ r = w * a := by
  induction A generalizing r with
  | nil =>
    simp only [List.map_nil, wsumM_nil, Except.ok.injEq] at h
    exact ⟨0, rfl, by simp [← h]⟩
  | cons x t ih =>
    obtain ⟨u, q⟩ := x
    rw [List.map_cons] at h
    obtain ⟨acc, v, h1, h2, rfl⟩ := wsumM_cons_ok h
    obtain ⟨a, ha, rfl⟩ := ih h1
    exact ⟨u * v + a, wsumM_cons_mk ha h2, by ring⟩

/-- expectation of a monomial after one more application of `f` to every path: the law of total expectation
    for the weighted bind -/
theorem E_bindW {D E : WD} {f : Path → M WD} {m : Mono} {lhs : Rat}
    (hb : bindW D f = .ok E) (hE : E.E m = .ok lhs) :
    wsumM D (fun q => do (← f q).E m) = .ok lhs := by
  induction D generalizing E lhs with
  | nil =>
    rw [bindW_nil_ok hb] at hE
    exact hE
  | cons x t ih =>
    obtain ⟨w, q⟩ := x
    obtain ⟨A, B, hA, hB, rfl⟩ := bindW_cons_ok hb
    rw [E_eq_wsumM] at hE
    obtain ⟨a, b, ha, hb', rfl⟩ := wsumM_append_ok hE
    obtain ⟨a', ha', rfl⟩ := wsumM_scale_ok ha
    refine wsumM_cons_mk (ih hB hb') ?_
    rw [hA]
    exact ha'

/-- one more iteration at the END of `iterN` -/
theorem iterN_succ_end (P : Program) (n : Nat) (D : WD) :
    iterN P false (n + 1) D = (do let D' ← iterN P false n D; bindW D' (iter P)) := by
  induction n generalizing D with
  | zero =>
    simp only [iterN, Bool.false_eq_true, if_false, bindM_eq, pure_bind]
    simp [bind, Except.bind]
    cases bindW D (iter P) <;> rfl
  | succ n ih =>
    have e1 : iterN P false (n + 1 + 1) D = (do let d' ← bindW D (iter P); iterN P false (n + 1) d') := by
      rw [iterN]; simp only [Bool.false_eq_true, if_false, bindM_eq]
    have e2 : iterN P false (n + 1) D = (do let d' ← bindW D (iter P); iterN P false n d') := by
      rw [iterN]; simp only [Bool.false_eq_true, if_false, bindM_eq]
    rw [e1, e2, bind_assoc]
    congr 1
    funext d'
    exact ih d'

/-- the run of length n+1 is the run of length n followed by one more iteration of every path -/
theorem run_succ {P : Program} {n : Nat} {σ₀ : Store} {E1 : WD} (h1 : run P false (n + 1) σ₀ = .ok E1) :
    ∃ E0, run P false n σ₀ = .ok E0 ∧ bindW E0 (iter P) = .ok E1 := by
  simp only [run, Bool.false_eq_true, if_false] at h1 ⊢
  obtain ⟨D0, hd, h1⟩ := bind_ok.mp h1
  rw [iterN_succ_end] at h1
  obtain ⟨E0, h0, h1⟩ := bind_ok.mp h1
  exact ⟨E0, by rw [hd]; exact h0, h1⟩

/-- **V1 (after at least one iteration).**  If `checkInductive` accepts, then for EVERY `n` and EVERY concrete initial
    store, on every path of non-zero weight of `run P false (n+1) σ₀` every value is a rational constant and every
    `Γ`-typed variable that is set holds a constant of its set.  (When the init block assigns every typed variable
    take `Γ0 = Γ`; then `checkInductive_sound0` gives the same at n = 0.) -/
theorem checkInductive_sound {cap : Nat} {Γ0 Γ : TypeEnv} {P : Program}
    (h : checkInductive cap Γ0 Γ P = .ok true)
    (n : Nat) (σ₀ : Store) (hσ : ConcStore σ₀) {D : WD} (hrun : run P false (n + 1) σ₀ = .ok D) :
    AllInv (Inv Γ) D := by
  obtain ⟨E0, h0, hb⟩ := run_succ hrun
  obtain ⟨hF, hne, _, _, hstep⟩ := inductiveCex_none (checkInductive_ok h)
  exact bindW_inv (step_preserves hF hne hstep) (checkInductive_sound0 h n σ₀ hσ h0) hb

/-- one-step expectation of `m` from the path `q` -/
def stepE (P : Program) (m : Mono) (q : Path) : M Rat := do (← iter P q).E m

/-- **Law of total expectation.**  E(M)(n+1) is the expectation over the run of length n of the one-step
    expectation of M. -/
theorem moment_succ {P : Program} {m : Mono} {n : Nat} {σ₀ : Store} {E0 E1 : WD} {lhs : Rat}
    (h0 : run P false n σ₀ = .ok E0) (h1 : run P false (n + 1) σ₀ = .ok E1) (hE : E1.E m = .ok lhs) :
    wsumM E0 (stepE P m) = .ok lhs := by
  obtain ⟨E0', h0', hb⟩ := run_succ h1
  rw [h0] at h0'
  simp only [Except.ok.injEq] at h0'
  subst h0'
  exact E_bindW (f := iter P) hb hE

/-! #### symbolic expectation vs. concrete expectation -/

theorem monoValue_nil (s : Store) : monoValue s [] = .ok MPoly.one := rfl

theorem monoValue_cons_ok {s : Store} {x : String} {k : Nat} {m : Mono} {r : MPoly}
    (h : monoValue s ((x, k) :: m) = .ok r) :
    ∃ acc v, monoValue s m = .ok acc ∧ s.get? x = some v ∧ r = MPoly.mul (MPoly.pow v k) acc := by
  simp only [monoValue, List.foldrM_cons] at h
  obtain ⟨acc, h1, h⟩ := bind_ok.mp h
  cases hg : s.get? x with
  | none => simp [hg, throw_ne_ok] at h
  | some v =>
    simp only [hg] at h
    exact ⟨acc, v, h1, rfl, (pure_ok.mp h).symm⟩

theorem monoValue_sim {ρ : String → Rat} {S σ : Store} (h : Rel ρ S σ) (m : Mono) {p v' : MPoly}
    (hs : monoValue S m = .ok p) (hc : monoValue σ m = .ok v') : v' = MPoly.const (MPoly.eval ρ p) := by
  induction m generalizing p v' with
  | nil =>
    rw [monoValue_nil] at hs hc
    simp only [Except.ok.injEq] at hs hc
    rw [← hs, ← hc, MPoly.eval_one, one_eq_const]
  | cons xk t ih =>
    obtain ⟨x, k⟩ := xk
    obtain ⟨acc, v, h1, hg, rfl⟩ := monoValue_cons_ok hs
    obtain ⟨acc', w, h1', hg', rfl⟩ := monoValue_cons_ok hc
    rw [ih h1 h1', h x v w hg hg', const_pow, const_mul, MPoly.eval_mul, MPoly.eval_pow]

theorem polyE_const (atoms : List Atom) (c : Rat) : polyE atoms (MPoly.const c) = .ok c := by
  unfold MPoly.const
  split
  · subst_vars; rfl
  · simp [polyE, atomMonoE, List.foldrM_cons, bind, Except.bind, pure, Except.pure]

theorem pathE_sim {ρ : String → Rat} {S : Store} {q : Path} (h : Rel ρ S q.vals) (m : Mono) {p : MPoly} {r : Rat}
    (hs : monoValue S m = .ok p) (hc : pathE m q = .ok r) : r = MPoly.eval ρ p := by
  simp only [pathE] at hc
  obtain ⟨v', h1, hc⟩ := bind_ok.mp hc
  rw [monoValue_sim h m hs h1, polyE_const] at hc
  simp only [Except.ok.injEq] at hc
  exact hc.symm

theorem expPoly_cons_ok {w : Rat} {q : Path} {t : WD} {m : Mono} {L : MPoly}
    (h : expPoly ((w, q) :: t) m = .ok L) :
    ∃ acc p, expPoly t m = .ok acc ∧ monoValue q.vals m = .ok p ∧ L = MPoly.add (MPoly.scale w p) acc := by
  simp only [expPoly, List.foldrM_cons] at h
  obtain ⟨acc, h1, h⟩ := bind_ok.mp h
  obtain ⟨p, h2, h⟩ := bind_ok.mp h
  exact ⟨acc, p, h1, h2, (pure_ok.mp h).symm⟩

theorem expPoly_sim {ρ : String → Rat} {Ds Dc : WD} (hd : List.Forall₂ (PRel ρ) Ds Dc) (m : Mono)
    {L : MPoly} {r : Rat} (hs : expPoly Ds m = .ok L) (hc : Dc.E m = .ok r) : r = MPoly.eval ρ L := by
  induction hd generalizing L r with
  | nil =>
    simp only [expPoly, List.foldrM_nil, pure, Except.pure, Except.ok.injEq] at hs
    rw [E_eq_wsumM, wsumM_nil] at hc
    simp only [Except.ok.injEq] at hc
    rw [← hs, ← hc]; rfl
  | @cons a b _ _ hab _ ih =>
    obtain ⟨w, qs⟩ := a
    obtain ⟨w', qc⟩ := b
    obtain ⟨acc, p, h1, h2, rfl⟩ := expPoly_cons_ok hs
    rw [E_eq_wsumM] at hc
    obtain ⟨acc', v, h1', h2', rfl⟩ := wsumM_cons_ok hc
    have hw : w = w' := hab.1
    subst hw
    rw [MPoly.eval_add, MPoly.eval_scale, ← ih h1 h1', ← pathE_sim hab.2 m h2 h2']

theorem linE_nil (q : Path) : linE q [] = .ok 0 := rfl

theorem linE_cons (q : Path) (t : Mono × Rat) (ts : Terms) :
    linE q (t :: ts) = (do let acc ← linE q ts; let v ← pathE t.1 q; pure (t.2 * v + acc)) := by
  simp only [linE, List.foldrM_cons]

theorem linPoly_cons_ok {s : Store} {t : Mono × Rat} {ts : Terms} {R : MPoly}
    (h : linPoly s (t :: ts) = .ok R) :
    ∃ acc p, linPoly s ts = .ok acc ∧ monoValue s t.1 = .ok p ∧ R = MPoly.add (MPoly.scale t.2 p) acc := by
  simp only [linPoly, List.foldrM_cons] at h
  obtain ⟨acc, h1, h⟩ := bind_ok.mp h
  obtain ⟨p, h2, h⟩ := bind_ok.mp h
  exact ⟨acc, p, h1, h2, (pure_ok.mp h).symm⟩

theorem linPoly_sim {ρ : String → Rat} {S : Store} {q : Path} (h : Rel ρ S q.vals) (terms : Terms)
    {R : MPoly} {r : Rat} (hs : linPoly S terms = .ok R) (hc : linE q terms = .ok r) : r = MPoly.eval ρ R := by
  induction terms generalizing R r with
  | nil =>
    simp only [linPoly, List.foldrM_nil, pure, Except.pure, Except.ok.injEq] at hs
    rw [linE_nil] at hc
    simp only [Except.ok.injEq] at hc
    rw [← hs, ← hc]; rfl
  | cons t ts ih =>
    obtain ⟨acc, p, h1, h2, rfl⟩ := linPoly_cons_ok hs
    rw [linE_cons] at hc
    obtain ⟨acc', h1', hc⟩ := bind_ok.mp hc
    obtain ⟨v, h2', hc⟩ := bind_ok.mp hc
    rw [pure_ok] at hc
    rw [← hc, MPoly.eval_add, MPoly.eval_scale, ← ih h1 h1', ← pathE_sim h t.1 h2 h2']

/-! #### soundness of `checkOneStep` -/

theorem oneStepCex_none {cap : Nat} {Γ : TypeEnv} {P : Program} {m : Mono} {terms : Terms}
    (h : oneStepCex cap Γ P m terms = .ok none) :
    Fragment P = true ∧ (∀ e ∈ Γ, e.2 ≠ []) ∧
    ∀ a ∈ enumΓ Γ, oneStepAt P (freeStore (symVars Γ P (termVars m terms))) m terms a = .ok none := by
  simp only [oneStepCex] at h
  obtain ⟨u, hu, h⟩ := bind_ok.mp h
  obtain ⟨hF, hne⟩ := admissible_ok hu
  exact ⟨hF, hne, firstFail_none h⟩

theorem oneStepAt_none {P : Program} {S0 : Store} {m : Mono} {terms : Terms} {a : Assign}
    (h : oneStepAt P S0 m terms a = .ok none) :
    ∃ D L R, iter P ⟨assignStore S0 a, []⟩ = .ok D ∧ expPoly D m = .ok L ∧
      linPoly (assignStore S0 a) terms = .ok R ∧ MPoly.normalize L = MPoly.normalize R := by
  simp only [oneStepAt] at h
  obtain ⟨D, hD, h⟩ := bind_ok.mp h
  obtain ⟨L, hL, h⟩ := bind_ok.mp h
  obtain ⟨R, hR, h⟩ := bind_ok.mp h
  refine ⟨D, L, R, hD, hL, hR, ?_⟩
  by_contra hne
  simp [hne, pure, Except.pure] at h

/-- **V2.**  If `checkOneStep` accepts, then from EVERY concrete state `q` that satisfies the types the
    expectation of `M` after one iteration equals `Σ cᵢ · Mᵢ(q)`. -/
theorem checkOneStep_sound {cap : Nat} {Γ : TypeEnv} {P : Program} {m : Mono} {terms : Terms}
    (h : checkOneStep cap Γ P m terms = .ok true) (q : Path) (hq : Inv Γ q)
    {D : WD} (hD : iter P q = .ok D) {lhs rhs : Rat} (hl : D.E m = .ok lhs) (hr : linE q terms = .ok rhs) :
    lhs = rhs := by
  simp only [checkOneStep] at h
  obtain ⟨r, hr', h⟩ := bind_ok.mp h
  rw [pure_ok] at h
  have hnone : oneStepCex cap Γ P m terms = .ok none := by
    cases r with
    | none => exact hr'
    | some c => simp at h
  obtain ⟨hF, hne, hall⟩ := oneStepCex_none hnone
  obtain ⟨hc, hΓ⟩ := hq
  obtain ⟨Ds, L, R, hDs, hL, hR, hnorm⟩ := oneStepAt_none (hall _ (stateOf_mem hne hΓ))
  have hrel : Rel (valOf q.vals) (assignStore (freeStore (symVars Γ P (termVars m terms))) (stateOf Γ q.vals)) q.vals :=
    rel_symStore hc hΓ _
  have hsim := iter_sim P (fragment_parts hF).2 (ps := ⟨_, []⟩) hrel hDs hD
  rw [expPoly_sim hsim m hL hl, linPoly_sim hrel terms hR hr]
  exact MPoly.eval_eq_of_normalize_eq _ hnorm

/-! #### the recurrence holds for every n -/

theorem wsumM_congr {D : WD} {g g' : Path → M Rat} {a b : Rat}
    (hg : ∀ wq ∈ D, wq.1 ≠ 0 → ∀ v v', g wq.2 = .ok v → g' wq.2 = .ok v' → v = v')
    (ha : wsumM D g = .ok a) (hb : wsumM D g' = .ok b) : a = b := by
  induction D generalizing a b with
  | nil =>
    rw [wsumM_nil] at ha hb
    simp only [Except.ok.injEq] at ha hb
    rw [← ha, ← hb]
  | cons x t ih =>
    obtain ⟨w, q⟩ := x
    obtain ⟨acc, v, h1, h2, rfl⟩ := wsumM_cons_ok ha
    obtain ⟨acc', v', h1', h2', rfl⟩ := wsumM_cons_ok hb
    have := ih (fun wq hwq => hg wq (by simp [hwq])) h1 h1'
    subst this
    by_cases hw : w = 0
    · simp [hw]
    · rw [hg (w, q) (by simp) hw v v' h2 h2']

theorem wsumM_zero (D : WD) : wsumM D (fun q => linE q []) = .ok 0 := by
  induction D with
  | nil => rfl
  | cons x t ih =>
    obtain ⟨w, q⟩ := x
    have := wsumM_cons_mk (w := w) (q := q) ih (linE_nil q)
    simpa using this

theorem wsumM_lin {D : WD} {g1 g2 : Path → M Rat} {c v acc : Rat}
    (h1 : wsumM D g1 = .ok v) (h2 : wsumM D g2 = .ok acc) :
    wsumM D (fun q => do let a ← g2 q; let u ← g1 q; pure (c * u + a)) = .ok (c * v + acc) := by
  induction D generalizing v acc with
  | nil =>
    rw [wsumM_nil] at h1 h2
    simp only [Except.ok.injEq] at h1 h2
    rw [← h1, ← h2, wsumM_nil]
    simp
  | cons x t ih =>
    obtain ⟨w, q⟩ := x
    obtain ⟨s1, u, ht1, hq1, rfl⟩ := wsumM_cons_ok h1
    obtain ⟨s2, a, ht2, hq2, rfl⟩ := wsumM_cons_ok h2
    have := wsumM_cons_mk (w := w) (q := q) (ih ht1 ht2)
      (show (do let a ← g2 q; let u ← g1 q; pure (c * u + a) : M Rat) = .ok (c * u + a) by
        rw [hq2, hq1]; rfl)
    rw [this]
    congr 1
    ring

theorem linCombE_cons (D : WD) (t : Mono × Rat) (ts : Terms) :
    linCombE D (t :: ts) = (do let acc ← linCombE D ts; let v ← D.E t.1; pure (t.2 * v + acc)) := by
  simp only [linCombE, List.foldrM_cons]

/-- exchange of the two finite sums: Σ_paths w · Σᵢ cᵢ Mᵢ(path) = Σᵢ cᵢ · E(Mᵢ) -/
theorem wsumM_linE {D : WD} {terms : Terms} {rhs : Rat} (h : linCombE D terms = .ok rhs) :
    wsumM D (fun q => linE q terms) = .ok rhs := by
  induction terms generalizing rhs with
  | nil =>
    simp only [linCombE, List.foldrM_nil, pure, Except.pure, Except.ok.injEq] at h
    rw [← h]
    exact wsumM_zero D
  | cons t ts ih =>
    rw [linCombE_cons] at h
    obtain ⟨acc, h1, h⟩ := bind_ok.mp h
    obtain ⟨v, h2, h⟩ := bind_ok.mp h
    rw [pure_ok] at h
    rw [← h]
    have := wsumM_lin (c := t.2) (g1 := pathE t.1) (g2 := fun q => linE q ts) h2 (ih h1)
    simpa only [linE_cons] using this

/-- the recurrence at one n, from the invariant at n and the one-step check -/
theorem recurrence_of_inv {cap : Nat} {Γ : TypeEnv} {P : Program} {m : Mono} {terms : Terms}
    (hS : checkOneStep cap Γ P m terms = .ok true) {n : Nat} {σ₀ : Store} {E0 E1 : WD}
    (hinv : AllInv (Inv Γ) E0)
    (h0 : run P false n σ₀ = .ok E0) (h1 : run P false (n + 1) σ₀ = .ok E1)
    {lhs rhs : Rat} (hl : E1.E m = .ok lhs) (hr : linCombE E0 terms = .ok rhs) : lhs = rhs := by
  refine wsumM_congr (fun wq hwq hne v v' hv hv' => ?_) (moment_succ h0 h1 hl) (wsumM_linE hr)
  simp only [stepE] at hv
  obtain ⟨Dq, hDq, hv⟩ := bind_ok.mp hv
  exact checkOneStep_sound hS wq.2 (hinv wq hwq hne) hDq hv hv'

/-- **The recurrence holds at every n ≥ 1.**  If the types are inductive (`checkInductive cap Γ0 Γ P`) and the
    recurrence is a one-step identity on every `Γ`-state (`checkOneStep cap' Γ P M terms`), then for EVERY `n` and
    EVERY concrete initial store: `E(M)(n+2) = Σ cᵢ · E(Mᵢ)(n+1)` over the un-merged runs (whenever the quantities
    are defined, i.e. the runs and the expectations do not refuse). -/
theorem recurrence_holds_forall_n {cap cap' : Nat} {Γ0 Γ : TypeEnv} {P : Program} {m : Mono} {terms : Terms}
    (hI : checkInductive cap Γ0 Γ P = .ok true) (hS : checkOneStep cap' Γ P m terms = .ok true)
    (n : Nat) (σ₀ : Store) (hσ : ConcStore σ₀) {E0 E1 : WD}
    (h0 : run P false (n + 1) σ₀ = .ok E0) (h1 : run P false (n + 2) σ₀ = .ok E1)
    {lhs rhs : Rat} (hl : E1.E m = .ok lhs) (hr : linCombE E0 terms = .ok rhs) : lhs = rhs :=
  recurrence_of_inv hS (checkInductive_sound hI n σ₀ hσ h0) h0 h1 hl hr

/-- **The recurrence holds at every n ≥ 0** when the one-step identity is checked on the `Γ0`-states (the typed
    variables the init block does not assign stay symbolic).  With `Γ0 = Γ` (every typed variable is assigned by
    the init block) this is: `checkInductive cap Γ Γ P ∧ checkOneStep cap' Γ P M terms ⇒
    ∀ n σ₀, E(M)(n+1) = Σ cᵢ · E(Mᵢ)(n)`. -/
theorem recurrence_holds_from_zero {cap cap' : Nat} {Γ0 Γ : TypeEnv} {P : Program} {m : Mono} {terms : Terms}
    (hI : checkInductive cap Γ0 Γ P = .ok true) (hS : checkOneStep cap' Γ0 P m terms = .ok true)
    (n : Nat) (σ₀ : Store) (hσ : ConcStore σ₀) {E0 E1 : WD}
    (h0 : run P false n σ₀ = .ok E0) (h1 : run P false (n + 1) σ₀ = .ok E1)
    {lhs rhs : Rat} (hl : E1.E m = .ok lhs) (hr : linCombE E0 terms = .ok rhs) : lhs = rhs :=
  recurrence_of_inv hS (checkInductive_sound0 hI n σ₀ hσ h0) h0 h1 hl hr

/-- `recurrence_holds_forall_n` with `momentU` (E over the un-merged run) on both sides -/
theorem recurrence_momentU {cap cap' : Nat} {Γ0 Γ : TypeEnv} {P : Program} {m : Mono} {terms : Terms}
    (hI : checkInductive cap Γ0 Γ P = .ok true) (hS : checkOneStep cap' Γ P m terms = .ok true)
    (n : Nat) (σ₀ : Store) (hσ : ConcStore σ₀) {lhs rhs : Rat}
    (hl : momentU P m (n + 2) σ₀ = .ok lhs)
    (hr : (do linCombE (← run P false (n + 1) σ₀) terms) = .ok rhs) : lhs = rhs := by
  simp only [momentU] at hl
  obtain ⟨E1, h1, hl⟩ := bind_ok.mp hl
  obtain ⟨E0, h0, hr⟩ := bind_ok.mp hr
  exact recurrence_holds_forall_n hI hS n σ₀ hσ h0 h1 hl hr

/-- `recurrence_holds_from_zero` with `momentU` on both sides -/
theorem recurrence_momentU_from_zero {cap cap' : Nat} {Γ0 Γ : TypeEnv} {P : Program} {m : Mono} {terms : Terms}
    (hI : checkInductive cap Γ0 Γ P = .ok true) (hS : checkOneStep cap' Γ0 P m terms = .ok true)
    (n : Nat) (σ₀ : Store) (hσ : ConcStore σ₀) {lhs rhs : Rat}
    (hl : momentU P m (n + 1) σ₀ = .ok lhs)
    (hr : (do linCombE (← run P false n σ₀) terms) = .ok rhs) : lhs = rhs := by
  simp only [momentU] at hl
  obtain ⟨E1, h1, hl⟩ := bind_ok.mp hl
  obtain ⟨E0, h0, hr⟩ := bind_ok.mp hr
  exact recurrence_holds_from_zero hI hS n σ₀ hσ h0 h1 hl hr

/-- the total weight (M = 1) is the same at every n, provided the one-step check accepts `E(1) = 1` -/
theorem mass_preserved {cap cap' : Nat} {Γ0 Γ : TypeEnv} {P : Program}
    (hI : checkInductive cap Γ0 Γ P = .ok true) (hS : checkOneStep cap' Γ0 P [] [([], 1)] = .ok true)
    (n : Nat) (σ₀ : Store) (hσ : ConcStore σ₀) {E0 E1 : WD}
    (h0 : run P false n σ₀ = .ok E0) (h1 : run P false (n + 1) σ₀ = .ok E1)
    {a b : Rat} (hl : E1.E [] = .ok a) (hr : E0.E [] = .ok b) : a = b := by
  have hlin : linCombE E0 [([], 1)] = .ok (1 * b + 0) := by
    rw [linCombE_cons, bind_ok]
    refine ⟨0, rfl, ?_⟩
    simp only []
    rw [hr]; rfl
  have := recurrence_holds_from_zero hI hS n σ₀ hσ h0 h1 hl hlin
  simpa using this

/-- the main simulation theorem under the name used in the documentation -/
theorem exec_sim {ρ : String → Rat} (blk : List Stmt) (hok : blk.all stmtOK = true) {S σ : Store}
    (h : Rel ρ S σ) {Ds Dc : WD}
    (hs : execBlock blk ⟨S, []⟩ = .ok Ds) (hc : execBlock blk ⟨σ, []⟩ = .ok Dc) :
    List.Forall₂ (fun a b => a.1 = b.1 ∧
      ∀ x v v', a.2.vals.get? x = some v → b.2.vals.get? x = some v' → v' = MPoly.const (MPoly.eval ρ v)) Ds Dc :=
  block_sim blk hok (ps := ⟨S, []⟩) (pc := ⟨σ, []⟩) h hs hc

/-! ### concrete stores as the protocol builds them -/

theorem concStore_nil : ConcStore [] := by
  intro x v h
  simp [store_get_nil] at h

theorem ConcStore.set {σ : Store} (h : ConcStore σ) (x : String) (c : Rat) : ConcStore (σ.set x (MPoly.const c)) := by
  intro y v hv
  rw [store_get_set] at hv
  by_cases hy : y = x
  · simp only [hy, if_true, Option.some.injEq] at hv
    exact ⟨c, hv.symm⟩
  · simp only [hy, if_false] at hv
    exact h y v hv

/-! ### non-vacuity: `f = 0; x = 0; while true: f = Bernoulli(1/2); x = x + f` -/

def exP : Program :=
  { init := [.assign "f" (.expr (.num 0)) .tt "f", .assign "x" (.expr (.num 0)) .tt "x"],
    guard := .tt,
    body := [.assign "f" (.dist "Bernoulli" [.num (1/2)]) .tt "f",
             .assign "x" (.expr (.add (.var "x") (.var "f"))) .tt "x"] }

def exΓ : TypeEnv := [("f", [0, 1])]
/-- M = x·f -/
def exM : Mono := [("f", 1), ("x", 1)]
/-- E(x·f)(n+1) = 1/2 · E(x)(n) + 1/2 -/
def exT : Terms := [([("x", 1)], 1/2), ([], 1/2)]

-- the hypotheses of V1 and V2 are satisfiable
example : checkInductive 4096 exΓ exΓ exP = .ok true := by decide +kernel
example : checkOneStep 4096 exΓ exP exM exT = .ok true := by decide +kernel
example : checkOneStep 4096 exΓ exP [] [([], 1)] = .ok true := by decide +kernel
-- … and not trivially so: a type that misses a value, a wrong coefficient, a cap that is too small
example : checkInductive 4096 [("f", [0])] [("f", [0])] exP = .ok false := by decide +kernel
example : checkOneStep 4096 exΓ exP exM [([("x", 1)], 1/3), ([], 1/2)] = .ok false := by decide +kernel
example : (checkInductive 1 exΓ exΓ exP).isOk = false := by decide +kernel
-- `x` is untyped: the step is checked with `x` a free symbol; typing it {0} is refuted
example : checkInductive 4096 [("f", [0, 1]), ("x", [0])] [("f", [0, 1]), ("x", [0])] exP = .ok false := by
  decide +kernel

/-- the same loop without `f = 0` in the init block (as normalisation leaves its auxiliary variables):
    `f` is arbitrary at n = 0 (`Γ0 = []`) and of type {0,1} from n = 1 on -/
def exP' : Program := { exP with init := [.assign "x" (.expr (.num 0)) .tt "x"] }

example : checkInductive 4096 [] exΓ exP' = .ok true := by decide +kernel
example : checkInductive 4096 exΓ exΓ exP' = .ok false := by decide +kernel
example : initTypes exΓ exP' = [] ∧ initTypes exΓ exP = exΓ := by decide +kernel
-- the one-step identity for x·f holds with `f` symbolic as well (f is overwritten before it is read)
example : checkOneStep 4096 [] exP' exM exT = .ok true := by decide +kernel

/-- V1 on the example, for every n: `f` only ever holds 0 or 1 -/
example (n : Nat) (D : WD) (h : run exP false n [] = .ok D) :
    ∀ wq ∈ D, wq.1 ≠ 0 → ∀ v, wq.2.vals.get? "f" = some v → v = MPoly.const 0 ∨ v = MPoly.const 1 := by
  intro wq hwq hne v hv
  have := checkInductive_sound0 (cap := 4096) (Γ0 := exΓ) (Γ := exΓ) (P := exP) (by decide +kernel) n []
    concStore_nil h
  obtain ⟨c, hc, rfl⟩ := (this wq hwq hne).2 ("f", [0, 1]) (by simp [exΓ]) v hv
  simp only [List.mem_cons, List.not_mem_nil, or_false] at hc
  rcases hc with rfl | rfl
  · exact Or.inl rfl
  · exact Or.inr rfl

/-- V1 on the variant without initialisation of `f`: from n = 1 on, whatever `f` was initially -/
example (n : Nat) (σ₀ : Store) (hσ : ConcStore σ₀) (D : WD) (h : run exP' false (n + 1) σ₀ = .ok D) :
    ∀ wq ∈ D, wq.1 ≠ 0 → ∀ v, wq.2.vals.get? "f" = some v → v = MPoly.const 0 ∨ v = MPoly.const 1 := by
  intro wq hwq hne v hv
  have := checkInductive_sound (cap := 4096) (Γ0 := []) (Γ := exΓ) (P := exP') (by decide +kernel) n σ₀ hσ h
  obtain ⟨c, hc, rfl⟩ := (this wq hwq hne).2 ("f", [0, 1]) (by simp [exΓ]) v hv
  simp only [List.mem_cons, List.not_mem_nil, or_false] at hc
  rcases hc with rfl | rfl
  · exact Or.inl rfl
  · exact Or.inr rfl

/-- the recurrence on the example, for every n ≥ 0 and every initial store -/
example (n : Nat) (σ₀ : Store) (hσ : ConcStore σ₀) (lhs rhs : Rat)
    (hl : momentU exP exM (n + 1) σ₀ = .ok lhs)
    (hr : (do linCombE (← run exP false n σ₀) exT) = .ok rhs) : lhs = rhs :=
  recurrence_momentU_from_zero (cap := 4096) (cap' := 4096) (Γ0 := exΓ) (Γ := exΓ)
    (by decide +kernel) (by decide +kernel) n σ₀ hσ hl hr

/-- … and on the variant, for every n ≥ 1 (one-step identity checked on the {0,1}-states of `f`) -/
example (n : Nat) (σ₀ : Store) (hσ : ConcStore σ₀) (lhs rhs : Rat)
    (hl : momentU exP' exM (n + 2) σ₀ = .ok lhs)
    (hr : (do linCombE (← run exP' false (n + 1) σ₀) exT) = .ok rhs) : lhs = rhs :=
  recurrence_momentU (cap := 4096) (cap' := 4096) (Γ0 := []) (Γ := exΓ)
    (by decide +kernel) (by decide +kernel) n σ₀ hσ hl hr

-- the remaining hypotheses ("the quantities are defined") are satisfiable, and the two sides are what they should be:
-- E(x·f)(3) = 1 = 1/2 · E(x)(2) + 1/2
example : momentU exP exM 3 [] = .ok 1 := by decide +kernel
example : (do linCombE (← run exP false 2 []) exT) = .ok 1 := by decide +kernel
example : momentU exP [("x", 1)] 2 [] = .ok 1 := by decide +kernel
-- a concrete store satisfying Γ from which one step is taken (hypotheses of `checkOneStep_sound`): x = 7, f = 1
def exσ : Store := Store.set (Store.set [] "x" (MPoly.const 7)) "f" (MPoly.const 1)

example : Inv exΓ ⟨exσ, []⟩ := by
  refine ⟨(concStore_nil.set "x" 7).set "f" 1, ?_⟩
  intro e he v hv
  simp only [exΓ, List.mem_cons, List.not_mem_nil, or_false] at he
  subst he
  simp only [exσ] at hv
  rw [store_get_set] at hv
  simp only [if_true, Option.some.injEq] at hv
  exact ⟨1, by simp, hv.symm⟩
example : (do (← iter exP ⟨exσ, []⟩).E exM) = .ok 4 := by decide +kernel
example : linE ⟨exσ, []⟩ exT = .ok 4 := by decide +kernel

end Polar.VP
