/-
  PolarProofs/ValidateSimCont.lean — soundness of V3C (`Polar/ValidateSimCont.lean`, `checkSameStepC`): per-instance
  translation validation for ALL n (property C02) for programs WITH continuous draws (Normal, Uniform, Laplace,
  Exponential, Gamma, Beta), nested `ite` allowed.  Namespace `Polar.V3C` (the algebra lives in
  `PolarProofs/MvExpect.lean`, same namespace).

  What "same law" means here.  A path `r` of a run holds polynomials over its draw atoms.  Its observed tuple is described
  by the MOMENT FUNCTIONAL  `Lq O r : MvPolynomial String ℚ → ℚ`,  g ↦ E[g(observed values of r)]  (the expectation is
  the product moment functional `EA r.atoms`, which is what `polyE` computes: `polyE_eq_EA`).  A run is a finite mixture
  of such functionals.  `SameLawC O E E'`: every test function `F` of the moment functional has the same weighted sum
  over both runs — i.e. after merging paths with equal moment functionals the two mixtures coincide.  (For discrete
  programs the functional determines the value tuple, so this is `SameLaw` of V3.)

  Property theorems (non-vacuity `example`s at the end of the file):

  * `checkSameStepC_sound` — `checkSameStepC cap Γ V P P' = .ok true` ⇒ ∀ n, ∀ initial stores σ₀, σ₀' holding rational
    constants, defining the names of the respective program, equal on `V`:
    `SameLawC (V ++ dom Γ) (run P false n σ₀) (run P' false n σ₀')` and on both runs every Γ-typed variable is, as a
    function of the draws, one constant of its set (`InvS`).
  * `checkSameStepC_moments` — hence `momentU P M n σ₀ = momentU P' M n σ₀'` for every monomial `M` over the observed
    variables, whenever both are defined (error-aware like `checkSameStep_moments`).
  * `checkSameStepC_poly` — the same for every polynomial test function of the observed variables.

  Proof structure:
  * `stmtA_sim` / `blockA_sim` / `iterA_sim` — symbolic execution is sound for `FragmentIC` w.r.t. the semantic relation
    of `PolarProofs/ValidateCont.lean` (`SRel`, `rhsS_sim`), with the atom tables (`concrete = A ++ symbolic`) and the
    domain bookkeeping `Dom`.
  * `path_step` — ONE symbolic outcome against the corresponding concrete outcome: the moment functional of the new
    path is the one of the old path composed with `preT O (key, atoms)` ("substitute the key, integrate the atoms of
    this step"); this is `fubini` (`MvExpect.lean`) for the product moment functional; the key may mention only
    `V`-symbols and the atoms of the step, the old `V`-values only the old atoms, so old and new atoms are independent.
  * `step_PC` / `step_PC'` — one-step lemma: from any state of `P` or `P'` satisfying the invariant, the weighted sum of
    `F(moment functional)` after one iteration is ONE function `HvalC` of the moment functional of the state (the Γ-state
    is read off the functional, `stateOf_eq_stateL`; equal masses per key give equal sums, `wsumKC_of_sameMass`).
  * `sim_stepC`, `sim_initC`, `sameLaw_runC` — induction over n.

  Restrictions: `FragmentIC` (guarded assignments, nested `ite`; no `simult`); un-merged runs; initial stores hold
  constants; Γ must be established by both init blocks; the atoms of a step are compared index by index (same family,
  same constant parameters, same order) — a pass that reorders, adds or removes draws is refused although it may be
  law-preserving; parameters of draws and conditions must evaluate to constants in the symbolic run (as in the
  reference semantics: `evalCond` needs constants).
-/
import Mathlib.Tactic
import Polar.ValidateSimCont
import PolarProofs.MvExpect
import PolarProofs.ValidateCont
import PolarProofs.ValidateSim
open Polar Polar.Validate Polar.VP

namespace Polar.V3C

/-! ### atom names and atom tables -/

theorem atomIndex_atomName (i : Nat) : atomIndex? (atomName i) = some i := by
  unfold atomIndex? atomName
  have h1 : ("@" ++ Nat.repr i).startsWith "@" = true := by simp
  rw [if_pos h1, ← Nat.toNat?_repr i, ← String.toNat?_toSlice]
  apply String.Slice.toNat?_congr
  simp only [String.copy_toSlice]
  rw [← String.toList_inj, String.toList_copy_drop, String.toList_append]
  have : ("@" : String).toList = ['@'] := by decide
  rw [this]; rfl

theorem muA_atomName (A : List Atom) (i e : Nat) :
    muA A (atomName i) e = if e = 0 then 1 else
      match A[i]? with
      | some a => (momentSpec a e).getD 0
      | none => 0 := by
  simp only [muA, atomIndex_atomName]
  rfl

theorem muA_append_left {A : List Atom} (B : List Atom) {i : Nat} (hi : i < A.length) (e : Nat) :
    muA (A ++ B) (atomName i) e = muA A (atomName i) e := by
  rw [muA_atomName, muA_atomName, List.getElem?_append_left hi]

theorem muA_append_right (A B : List Atom) (i e : Nat) :
    muA (A ++ B) (atomName (A.length + i)) e = muA B (atomName i) e := by
  rw [muA_atomName, muA_atomName, List.getElem?_append_right (by omega)]
  simp

/-- the names of the atoms `@0 … @(k-1)` -/
def below (k : Nat) : Set String := {x | ∃ i, i < k ∧ x = atomName i}

theorem below_mono {k k' : Nat} (h : k ≤ k') : below k ⊆ below k' := by
  rintro x ⟨i, hi, rfl⟩
  exact ⟨i, by omega, rfl⟩

def IsAt (x : String) : Prop := ∃ i, x = atomName i

/-- `@i ↦ @(k+i)` -/
noncomputable def shiftN (k : Nat) (x : String) : String :=
  open Classical in if h : ∃ i, x = atomName i then atomName (k + h.choose) else x

theorem shiftN_atom (k i : Nat) : shiftN k (atomName i) = atomName (k + i) := by
  unfold shiftN
  have h : ∃ j, atomName i = atomName j := ⟨i, rfl⟩
  rw [dif_pos h]
  have : h.choose = i := (atomName_inj h.choose_spec).symm
  rw [this]

theorem not_isAt_of_head {x : String} (hx : x.toList.head? ≠ some '@') : ¬ IsAt x := by
  rintro ⟨i, rfl⟩
  exact hx (atomName_head i)

/-! ### statements, blocks (with nested `ite`), one iteration -/

/-- symbolic outcome vs. concrete outcome: same weight, the concrete atom table is `A` followed by the symbolic one,
    values related semantically, every name the symbolic store defines is defined in the concrete store -/
def PRelA (θ : (String → Rat) → String → Rat) (A : List Atom) (a b : Rat × Path) : Prop :=
  a.1 = b.1 ∧ b.2.atoms = A ++ a.2.atoms ∧ SRel θ a.2.vals b.2.vals ∧ Dom a.2.vals b.2.vals

theorem PRelA.scale {θ : (String → Rat) → String → Rat} {A : List Atom} (w : Rat) (a b : Rat × Path)
    (h : PRelA θ A a b) : PRelA θ A (w * a.1, a.2) (w * b.1, b.2) := ⟨by simp only; rw [h.1], h.2⟩

theorem outsA_sim {θ : (String → Rat) → String → Rat} {A : List Atom} {ps pc : Path} (h : SRel θ ps.vals pc.vals)
    (hd : Dom ps.vals pc.vals)
    (x : String) {os oc : List (Rat × MPoly × List Atom)} (ho : List.Forall₂ (ORelS θ A) os oc) :
    List.Forall₂ (PRelA θ A)
      (os.map (fun o => (o.1, ({ vals := ps.vals.set x o.2.1, atoms := o.2.2 } : Path))))
      (oc.map (fun o => (o.1, ({ vals := pc.vals.set x o.2.1, atoms := o.2.2 } : Path)))) := by
  induction ho with
  | nil => exact List.Forall₂.nil
  | @cons o o' _ _ hoo _ ih =>
    simp only [List.map_cons]
    exact List.Forall₂.cons ⟨hoo.1, hoo.2.2, h.set x _ _ hoo.2.1, hd.set x _ _⟩ ih

theorem assignA_sim {θ : (String → Rat) → String → Rat} {A : List Atom}
    (hθ : ∀ τ i, θ τ (atomName i) = τ (atomName (A.length + i))) {ps pc : Path} (h : SRel θ ps.vals pc.vals)
    (hat : pc.atoms = A ++ ps.atoms) (hd : Dom ps.vals pc.vals)
    (x : String) (rhs : Rhs) (g : Cond) (d : String) (hok : rhsOKC rhs = true) {Ds Dc : WD}
    (hs : execStmt (.assign x rhs g d) ps = .ok Ds) (hc : execStmt (.assign x rhs g d) pc = .ok Dc) :
    List.Forall₂ (PRelA θ A) Ds Dc := by
  rw [execStmt] at hs hc
  obtain ⟨b, hb, hs⟩ := bind_ok.mp hs
  obtain ⟨b', hb', hc⟩ := bind_ok.mp hc
  have := evalCondS_sim h g hb hb'
  subst this
  cases b' with
  | true =>
    simp only [if_true] at hs hc
    obtain ⟨os, ho, hs⟩ := bind_ok.mp hs
    obtain ⟨oc, ho', hc⟩ := bind_ok.mp hc
    rw [pure_ok] at hs hc
    subst hs hc
    exact outsA_sim h hd x (rhsS_sim hθ h hat rhs hok ho ho')
  | false =>
    simp only [Bool.false_eq_true, if_false] at hs hc
    cases hg : ps.vals.get? d with
    | none => simp [hg, throw_ne_ok] at hs
    | some v =>
      cases hg' : pc.vals.get? d with
      | none => simp [hg', throw_ne_ok] at hc
      | some v' =>
        simp only [hg, hg', pure, Except.pure, Except.ok.injEq] at hs hc
        subst hs hc
        exact List.Forall₂.cons ⟨rfl, hat, h.set x v v' (h d v v' hg hg'), hd.set x _ _⟩ List.Forall₂.nil

mutual
theorem stmtA_sim {θ : (String → Rat) → String → Rat} {A : List Atom}
    (hθ : ∀ τ i, θ τ (atomName i) = τ (atomName (A.length + i))) (st : Stmt) (hok : stmtOKIC st = true)
    {ps pc : Path} (h : SRel θ ps.vals pc.vals) (hat : pc.atoms = A ++ ps.atoms) (hd : Dom ps.vals pc.vals)
    {Ds Dc : WD}
    (hs : execStmt st ps = .ok Ds) (hc : execStmt st pc = .ok Dc) : List.Forall₂ (PRelA θ A) Ds Dc := by
  cases st with
  | assign x rhs g d =>
    exact assignA_sim hθ h hat hd x rhs g d (by simpa [stmtOKIC] using hok) hs hc
  | simult xs rhss => simp [stmtOKIC] at hok
  | ite c t e =>
    simp only [stmtOKIC, Bool.and_eq_true] at hok
    rw [execStmt] at hs hc
    obtain ⟨b, hb, hs⟩ := bind_ok.mp hs
    obtain ⟨b', hb', hc⟩ := bind_ok.mp hc
    have := evalCondS_sim h c hb hb'
    subst this
    cases b' with
    | true =>
      simp only [if_true] at hs hc
      exact blockA_sim hθ t hok.1 h hat hd hs hc
    | false =>
      simp only [Bool.false_eq_true, if_false] at hs hc
      exact blockA_sim hθ e hok.2 h hat hd hs hc

theorem blockA_sim {θ : (String → Rat) → String → Rat} {A : List Atom}
    (hθ : ∀ τ i, θ τ (atomName i) = τ (atomName (A.length + i))) (blk : List Stmt) (hok : blockOKIC blk = true)
    {ps pc : Path} (h : SRel θ ps.vals pc.vals) (hat : pc.atoms = A ++ ps.atoms) (hd : Dom ps.vals pc.vals)
    {Ds Dc : WD}
    (hs : execBlock blk ps = .ok Ds) (hc : execBlock blk pc = .ok Dc) : List.Forall₂ (PRelA θ A) Ds Dc := by
  cases blk with
  | nil =>
    rw [execBlock_nil, pure_ok] at hs hc
    subst hs hc
    exact List.Forall₂.cons ⟨rfl, hat, h, hd⟩ List.Forall₂.nil
  | cons st rest =>
    simp only [blockOKIC, Bool.and_eq_true] at hok
    rw [execBlock_cons] at hs hc
    obtain ⟨d, h1, hs⟩ := bind_ok.mp hs
    obtain ⟨d', h1', hc⟩ := bind_ok.mp hc
    have hdd := stmtA_sim hθ st hok.1 h hat hd h1 h1'
    exact bindG (fun _ _ hab => hab.1) PRelA.scale hdd
      (fun a b hab Da Db e1 e2 => blockA_sim hθ rest hok.2 hab.2.2.1 hab.2.1 hab.2.2.2 e1 e2) hs hc
end

theorem iterA_sim {θ : (String → Rat) → String → Rat} {A : List Atom}
    (hθ : ∀ τ i, θ τ (atomName i) = τ (atomName (A.length + i))) (P : Program) (hok : blockOKIC P.body = true)
    {ps pc : Path} (h : SRel θ ps.vals pc.vals) (hat : pc.atoms = A ++ ps.atoms) (hd : Dom ps.vals pc.vals)
    {Ds Dc : WD}
    (hs : iter P ps = .ok Ds) (hc : iter P pc = .ok Dc) : List.Forall₂ (PRelA θ A) Ds Dc := by
  simp only [iter] at hs hc
  obtain ⟨b, hb, hs⟩ := bind_ok.mp hs
  obtain ⟨b', hb', hc⟩ := bind_ok.mp hc
  have := evalCondS_sim h P.guard hb hb'
  subst this
  cases b' with
  | true =>
    simp only [if_true] at hs hc
    exact blockA_sim hθ P.body hok h hat hd hs hc
  | false =>
    simp only [Bool.false_eq_true, if_false] at hs hc
    rw [pure_ok] at hs hc
    subst hs hc
    exact List.Forall₂.cons ⟨rfl, hat, h, hd⟩ List.Forall₂.nil

/-! ### the moment functional of a path over the observed variables -/

section Semantic
open MvPolynomial

noncomputable instance : DecidablePred IsAt := Classical.decPred _

/-- the values of the listed variables as polynomials over the atom names (0 for other names) -/
noncomputable def obsMv (O : List String) (σ : Store) : String → MvPolynomial String ℚ := fun x =>
  if x ∈ O then (match σ.get? x with | some v => toMv v | none => 0) else 0

/-- **the moment functional of a path**: a polynomial `g` in the observed variables goes to the expectation of
    `g(observed values)` over the draws of the path (all mixed moments of the observed tuple at once) -/
noncomputable def Lq (O : List String) (q : Path) : MvPolynomial String ℚ → ℚ :=
  fun g => EA q.atoms (bind₁ (obsMv O q.vals) g)

/-- the substitution a concrete path induces on the names of a symbolic run started with `k` atoms less -/
noncomputable def ThetaMv (k : Nat) (σ : Store) : String → MvPolynomial String ℚ := fun name =>
  open Classical in
  if h : ∃ i, name = atomName i then X (atomName (k + h.choose))
  else match σ.get? name with
    | some v => toMv v
    | none => 0

theorem ThetaMv_atom (k : Nat) (σ : Store) (i : Nat) : ThetaMv k σ (atomName i) = X (atomName (k + i)) := by
  unfold ThetaMv
  have h : ∃ j, atomName i = atomName j := ⟨i, rfl⟩
  rw [dif_pos h]
  have : h.choose = i := (atomName_inj h.choose_spec).symm
  rw [this]

theorem ThetaMv_var (k : Nat) (σ : Store) {x : String} (hx : ¬ IsAt x) :
    ThetaMv k σ x = match σ.get? x with
      | some v => toMv v
      | none => 0 := by
  unfold ThetaMv
  have hx' : ¬ ∃ i, x = atomName i := hx
  rw [dif_neg hx']

theorem eval_ThetaMv (k : Nat) (σ : Store) (τ : String → ℚ) (name : String) :
    eval τ (ThetaMv k σ name) = theta k σ τ name := by
  unfold ThetaMv theta
  split
  · rw [eval_X]
  · cases σ.get? name with
    | none => simp
    | some v => simp [eval_toMv]

/-- the semantic relation of `PolarProofs/ValidateCont.lean` as an identity of polynomials -/
theorem srel_toMv {k : Nat} {σ : Store} {v v' : MPoly}
    (h : ∀ τ, MPoly.eval τ v' = MPoly.eval (theta k σ τ) v) : toMv v' = bind₁ (ThetaMv k σ) (toMv v) := by
  refine toMv_ext (fun τ => ?_)
  rw [h τ]
  show _ = eval₂Hom (RingHom.id ℚ) τ (bind₁ (ThetaMv k σ) (toMv v))
  rw [eval₂Hom_bind₁]
  have : (fun i => eval₂Hom (RingHom.id ℚ) τ (ThetaMv k σ i)) = theta k σ τ :=
    funext (fun i => eval_ThetaMv k σ τ i)
  rw [this]
  exact (eval_toMv _ v).symm

/-! ### keys -/

/-- the entry of an observed variable in a key (first occurrence) -/
def keyLookup : List String → Key → String → Option MPoly
  | y :: ys, k :: ks, x => if y = x then some k else keyLookup ys ks x
  | _, _, _ => none

noncomputable def keyMv (O : List String) (K : Key) : String → MvPolynomial String ℚ := fun x =>
  match keyLookup O K x with
  | some p => toMv p
  | none => 0

theorem keyLookup_spec {S : Store} {O : List String} {K : Key} (hK : projKey S O = some K) {x : String}
    (hx : x ∈ O) : ∃ v, S.get? x = some v ∧ keyLookup O K x = some (MPoly.normalize v) := by
  induction O generalizing K with
  | nil => cases hx
  | cons y ys ih =>
    simp only [projKey] at hK
    cases hg : S.get? y with
    | none => simp [hg] at hK
    | some v =>
      cases hr : projKey S ys with
      | none => simp [hg, hr] at hK
      | some k' =>
        simp only [hg, hr, Option.some.injEq] at hK
        subst hK
        by_cases hyx : y = x
        · subst hyx
          exact ⟨v, hg, by simp [keyLookup]⟩
        · have hx' : x ∈ ys := by
            rcases List.mem_cons.mp hx with h | h
            · exact absurd h.symm hyx
            · exact h
          obtain ⟨w, hw, hl⟩ := ih hr hx'
          exact ⟨w, hw, by simp [keyLookup, hyx, hl]⟩

theorem keyLookup_not_mem {O : List String} {K : Key} {x : String} (hx : x ∉ O) : keyLookup O K x = none := by
  induction O generalizing K with
  | nil => cases K <;> rfl
  | cons y ys ih =>
    cases K with
    | nil => rfl
    | cons k ks =>
      have hyx : ¬ y = x := fun h => hx (by simp [h])
      simp only [keyLookup, hyx, if_false]
      exact ih (fun h => hx (by simp [h]))

theorem keyLookup_mem {O : List String} {K : Key} {x : String} {p : MPoly} (h : keyLookup O K x = some p) :
    p ∈ K := by
  induction O generalizing K with
  | nil => cases K <;> simp [keyLookup] at h
  | cons y ys ih =>
    cases K with
    | nil => simp [keyLookup] at h
    | cons k ks =>
      simp only [keyLookup] at h
      split at h
      · simp only [Option.some.injEq] at h
        subst h; simp
      · exact List.mem_cons_of_mem _ (ih h)

theorem atomNames_mem {n : Nat} {x : String} (h : (atomNames n).contains x = true) : x ∈ below n := by
  simp only [atomNames, List.contains_eq_mem, List.mem_map, List.mem_range, decide_eq_true_eq] at h
  obtain ⟨i, hi, rfl⟩ := h
  exact ⟨i, hi, by simp [atomName, toString]⟩

theorem polyOverC_supported {V : List String} {n : Nat} {p : MPoly} (h : polyOverC V n p = true) :
    toMv p ∈ supported ℚ ({x | x ∈ V} ∪ below n) := by
  refine toMv_mem_supported (fun t ht xe hxe => ?_)
  simp only [polyOverC, List.all_eq_true] at h
  have h1 := h t ht
  simp only [monoOverC, List.all_eq_true, Bool.or_eq_true] at h1
  rcases h1 xe hxe with h2 | h2
  · exact Or.inl (by simpa using h2)
  · exact Or.inr (atomNames_mem h2)

theorem keyMv_supported {O V : List String} {n : Nat} {K : Key} (h : K.all (polyOverC V n) = true) (x : String) :
    keyMv O K x ∈ supported ℚ ({x | x ∈ V} ∪ below n) := by
  unfold keyMv
  cases hl : keyLookup O K x with
  | none => exact zero_mem _
  | some p => exact polyOverC_supported (List.all_eq_true.mp h p (keyLookup_mem hl))

/-! ### one symbolic outcome against one concrete outcome -/

/-- integrate the atoms of the step (table `KB.2`) out of `g(key)`: a polynomial over the `V`-symbols -/
noncomputable def preT (O : List String) (KB : KeyC) (g : MvPolynomial String ℚ) : MvPolynomial String ℚ :=
  NB IsAt KB.2 (bind₁ (keyMv O KB.1) g)

theorem obsMv_supported {V : List String} {q : Path}
    (hcl : ∀ x ∈ V, ∀ v, q.vals.get? x = some v → toMv v ∈ supported ℚ (below q.atoms.length)) (x : String) :
    obsMv V q.vals x ∈ supported ℚ (below q.atoms.length) := by
  unfold obsMv
  split
  · rename_i hx
    cases hg : q.vals.get? x with
    | none => exact zero_mem _
    | some v => exact hcl x hx v hg
  · exact zero_mem _

theorem atomName_not_below {k i : Nat} : atomName (k + i) ∉ below k := by
  rintro ⟨j, hj, h⟩
  have := atomName_inj h
  omega

/-- **One outcome.**  `q`: the concrete path before the step (its `V`-values are polynomials over its own atoms);
    `s`: an outcome of the symbolic step (started with the empty atom table); `r`: the corresponding concrete
    outcome.  Then the moment functional of `r` is the one of `q` composed with `preT` of the key of `s`, and the
    observed values of `r` are polynomials over the atoms of `r`. -/
theorem path_step {O V : List String} (hVO : ∀ x ∈ V, x ∈ O) (hOat : ∀ x ∈ O, x.toList.head? ≠ some '@')
    {q : Path} (hcl : ∀ x ∈ V, ∀ v, q.vals.get? x = some v → toMv v ∈ supported ℚ (below q.atoms.length))
    {s r : Path} (hat : r.atoms = q.atoms ++ s.atoms)
    (hrel : SRel (theta q.atoms.length q.vals) s.vals r.vals) (hdom : Dom s.vals r.vals)
    {K : Key} (hK : projKey s.vals O = some K) (hfor : K.all (polyOverC V s.atoms.length) = true) :
    Lq O r = (fun g => EA q.atoms (bind₁ (obsMv V q.vals) (preT O (K, s.atoms) g))) ∧
    (∀ x ∈ O, ∀ v, r.vals.get? x = some v → toMv v ∈ supported ℚ (below r.atoms.length)) := by
  -- the observed values of `r` are the key entries under the substitution `Θ`
  have hobs : obsMv O r.vals = fun x => bind₁ (ThetaMv q.atoms.length q.vals) (keyMv O K x) := by
    funext x
    unfold obsMv keyMv
    by_cases hx : x ∈ O
    · obtain ⟨v, hv, hl⟩ := keyLookup_spec hK hx
      rw [if_pos hx, hl]
      cases hg : r.vals.get? x with
      | none => exact absurd hg (hdom x (by simp [hv]))
      | some v' =>
        simp only
        refine srel_toMv (fun τ => ?_)
        rw [MPoly.eval_normalize]
        exact hrel x v v' hv hg τ
    · rw [if_neg hx, keyLookup_not_mem hx]
      simp
  have hΘV : ∀ y, y ∈ V → ThetaMv q.atoms.length q.vals y = obsMv V q.vals y := by
    intro y hy
    rw [ThetaMv_var _ _ (not_isAt_of_head (hOat y (hVO y hy)))]
    unfold obsMv
    rw [if_pos hy]
  refine ⟨?_, ?_⟩
  · funext g
    have hG : bind₁ (keyMv O K) g ∈ supported ℚ ({x | x ∈ V} ∪ below s.atoms.length) :=
      bind₁_mem_supported (S := Set.univ) (fun y _ => keyMv_supported hfor y) g (by rw [supported_univ]; trivial)
    unfold Lq preT
    rw [hobs, ← bind₁_bind₁, hat]
    refine fubini (Sold := below q.atoms.length) (Snew := below s.atoms.length) (V := {x | x ∈ V})
      (shift := shiftN q.atoms.length) IsAt ?_ ?_ ?_ ?_ ?_ ?_ _ hG
    · rintro x ⟨i, hi, rfl⟩ e
      exact muA_append_left _ hi e
    · rintro x ⟨i, _, rfl⟩ e
      rw [shiftN_atom]
      exact muA_append_right _ _ i e
    · rintro x ⟨i, _, rfl⟩
      rw [shiftN_atom]
      exact atomName_not_below
    · rintro x ⟨i, _, rfl⟩ y ⟨j, _, rfl⟩ h
      rw [shiftN_atom, shiftN_atom] at h
      have := atomName_inj h
      have : i = j := by omega
      rw [this]
    · intro x hx hat'
      rcases hx with hx | hx
      · exact absurd hat' (not_isAt_of_head (hOat x (hVO x hx)))
      · obtain ⟨i, hi, rfl⟩ := hx
        exact ⟨⟨i, hi, rfl⟩, by rw [ThetaMv_atom, shiftN_atom]⟩
    · intro x hx hnat
      rcases hx with hx | hx
      · exact ⟨hΘV x hx, obsMv_supported hcl x⟩
      · obtain ⟨i, _, rfl⟩ := hx
        exact absurd ⟨i, rfl⟩ hnat
  · intro x hx v hv
    have h1 : toMv v = obsMv O r.vals x := by
      unfold obsMv
      rw [if_pos hx, hv]
    rw [h1, hobs, hat, List.length_append]
    refine bind₁_mem_supported (S := {x | x ∈ V} ∪ below s.atoms.length) (fun y hy => ?_) _ (keyMv_supported hfor x)
    rcases hy with hy | hy
    · rw [hΘV y hy]
      exact supported_mono (below_mono (Nat.le_add_right _ _)) (obsMv_supported hcl y)
    · obtain ⟨i, hi, rfl⟩ := hy
      rw [ThetaMv_atom]
      exact X_mem_supported.mpr ⟨q.atoms.length + i, by omega, rfl⟩

end Semantic

/-! ### weighted lists of keys -/

/-- Σ over the keys of weight · F(key) -/
def wsumKC (l : List (KeyC × Rat)) (F : KeyC → Rat) : Rat := (l.map (fun kw => kw.2 * F kw.1)).sum

theorem wsumKC_cons (k : KeyC) (w : Rat) (l : List (KeyC × Rat)) (F : KeyC → Rat) :
    wsumKC ((k, w) :: l) F = w * F k + wsumKC l F := by
  simp [wsumKC]

theorem massC_nil (k : KeyC) : massC [] k = 0 := rfl

theorem massC_cons (k0 : KeyC) (w0 : Rat) (l : List (KeyC × Rat)) (k : KeyC) :
    massC ((k0, w0) :: l) k = (if k0 = k then w0 else 0) + massC l k := by
  simp only [massC, List.foldr_cons]
  split <;> simp

theorem wsumKC_eq_finset (l : List (KeyC × Rat)) (F : KeyC → Rat) (S : Finset KeyC) (hS : ∀ kw ∈ l, kw.1 ∈ S) :
    wsumKC l F = ∑ k ∈ S, massC l k * F k := by
  induction l with
  | nil => simp [wsumKC, massC_nil]
  | cons x t ih =>
    obtain ⟨k0, w0⟩ := x
    rw [wsumKC_cons, ih (fun kw hkw => hS kw (by simp [hkw]))]
    have h0 : k0 ∈ S := hS (k0, w0) (by simp)
    simp only [massC_cons, add_mul, Finset.sum_add_distrib]
    congr 1
    rw [Finset.sum_eq_single k0]
    · simp
    · intro b _ hb
      have : ¬ k0 = b := fun h => hb h.symm
      simp [this]
    · intro h; exact absurd h0 h

theorem firstDiffC_none {l l' : List (KeyC × Rat)} (h : firstDiffC l l' = none) :
    ∀ kw ∈ l ++ l', massC l kw.1 = massC l' kw.1 := by
  intro kw hkw
  simp only [firstDiffC, Option.map_eq_none_iff, List.find?_eq_none] at h
  have := h kw hkw
  simpa using this

/-- two weighted lists with the same total weight on every key have the same sum of every function -/
theorem wsumKC_of_sameMass {l l' : List (KeyC × Rat)} (h : firstDiffC l l' = none) (F : KeyC → Rat) :
    wsumKC l F = wsumKC l' F := by
  have hm := firstDiffC_none h
  classical
  let S : Finset KeyC := ((l ++ l').map Prod.fst).toFinset
  have hS : ∀ kw ∈ l ++ l', kw.1 ∈ S := by
    intro kw hkw
    simp only [S, List.mem_toFinset, List.mem_map]
    exact ⟨kw, hkw, rfl⟩
  rw [wsumKC_eq_finset l F S (fun kw hkw => hS kw (by simp [hkw])),
      wsumKC_eq_finset l' F S (fun kw hkw => hS kw (by simp [hkw]))]
  refine Finset.sum_congr rfl (fun k hk => ?_)
  simp only [S, List.mem_toFinset, List.mem_map] at hk
  obtain ⟨kw, hkw, rfl⟩ := hk
  rw [hm kw hkw]

theorem firstForeignC_none {V : List String} {l : List (KeyC × Rat)} (h : firstForeignC V l = none) :
    ∀ kw ∈ l, kw.2 ≠ 0 → kw.1.1.all (polyOverC V kw.1.2.length) = true := by
  intro kw hkw hne
  simp only [firstForeignC, List.find?_eq_none] at h
  have := h kw hkw
  simpa [hne] using this

theorem projListC_mem {O : List String} {D : WD} {l : List (KeyC × Rat)} (hl : projListC O D = some l) :
    ∀ a ∈ D, ∃ K, projKey a.2.vals O = some K ∧ ((K, a.2.atoms), a.1) ∈ l := by
  induction D generalizing l with
  | nil => intro a ha; cases ha
  | cons x t ih =>
    obtain ⟨w, q⟩ := x
    simp only [projListC] at hl
    cases hk : projKey q.vals O with
    | none => simp [hk] at hl
    | some k =>
      cases hr : projListC O t with
      | none => simp [hk, hr] at hl
      | some l' =>
        simp only [hk, hr, Option.some.injEq] at hl
        subst hl
        intro a ha
        rcases List.mem_cons.mp ha with h | h
        · subst h
          exact ⟨k, hk, by simp⟩
        · obtain ⟨K, hK, hmem⟩ := ih hr a h
          exact ⟨K, hK, List.mem_cons_of_mem _ hmem⟩

/-! ### the invariant of the concrete runs and its transfer -/

section Transfer
open MvPolynomial

/-- observed values are polynomials over the path's own atoms, types respected (as functions of the atoms), all
    names of the program set -/
def InvC (Γ : TypeEnv) (O xs : List String) (q : Path) : Prop :=
  (∀ x ∈ O, ∀ v, q.vals.get? x = some v → toMv v ∈ supported ℚ (below q.atoms.length)) ∧
  InvS Γ q ∧ DefAll xs q.vals

/-- the moment functional of the `V`-values of a path -/
noncomputable def LV (V : List String) (q : Path) : MvPolynomial String ℚ → ℚ :=
  fun h => EA q.atoms (bind₁ (obsMv V q.vals) h)

/-- the weighted sum over the concrete outcomes, computed from the symbolic outcomes -/
theorem projListC_sim {O V : List String} (hVO : ∀ x ∈ V, x ∈ O) (hOat : ∀ x ∈ O, x.toList.head? ≠ some '@')
    {q : Path} (hcl : ∀ x ∈ V, ∀ v, q.vals.get? x = some v → toMv v ∈ supported ℚ (below q.atoms.length))
    {Ds Dc : WD} (hsim : List.Forall₂ (PRelA (theta q.atoms.length q.vals) q.atoms) Ds Dc)
    {l : List (KeyC × Rat)} (hl : projListC O Ds = some l)
    (hfor : ∀ kw ∈ l, kw.2 ≠ 0 → kw.1.1.all (polyOverC V kw.1.2.length) = true)
    (F : (MvPolynomial String ℚ → ℚ) → ℚ) :
    wsum Dc (fun r => F (Lq O r)) = wsumKC l (fun KB => F (fun g => LV V q (preT O KB g))) := by
  induction hsim generalizing l with
  | nil =>
    simp only [projListC, Option.some.injEq] at hl
    subst hl; rfl
  | @cons a b ta tb hab _ ih =>
    obtain ⟨w, s⟩ := a
    obtain ⟨w', r⟩ := b
    simp only [projListC] at hl
    cases hk : projKey s.vals O with
    | none => simp [hk] at hl
    | some K =>
      cases hr : projListC O ta with
      | none => simp [hk, hr] at hl
      | some l' =>
        simp only [hk, hr, Option.some.injEq] at hl
        subst hl
        have hw : w = w' := hab.1
        subst hw
        rw [wsum_cons, wsumKC_cons, ih hr (fun kw hkw => hfor kw (List.mem_cons_of_mem _ hkw))]
        by_cases hw0 : w = 0
        · simp [hw0]
        · have hK := hfor ((K, s.atoms), w) (by simp) hw0
          have := (path_step hVO hOat hcl hab.2.1 hab.2.2.1 hab.2.2.2 hk hK).1
          simp only at this
          rw [this]
          rfl

theorem invC_transfer {Γ : TypeEnv} {O V xs : List String} (hVO : ∀ x ∈ V, x ∈ O)
    (hOat : ∀ x ∈ O, x.toList.head? ≠ some '@')
    {q : Path} (hcl : ∀ x ∈ V, ∀ v, q.vals.get? x = some v → toMv v ∈ supported ℚ (below q.atoms.length))
    {Ds Dc : WD} (hsim : List.Forall₂ (PRelA (theta q.atoms.length q.vals) q.atoms) Ds Dc)
    {l : List (KeyC × Rat)} (hl : projListC O Ds = some l) (hfor : firstForeignC V l = none)
    (hbad : badPath Γ Ds = none) (hdef : definedAll xs Ds = true) : AllInv (InvC Γ O xs) Dc := by
  intro wq hwq hne
  obtain ⟨a, ha, hr⟩ := forall₂_mem_right hsim hwq
  have hane : a.1 ≠ 0 := by rw [hr.1]; exact hne
  obtain ⟨K, hK, hmem⟩ := projListC_mem hl a ha
  have hKfor := firstForeignC_none hfor _ hmem hane
  refine ⟨(path_step hVO hOat hcl hr.2.1 hr.2.2.1 hr.2.2.2 hK hKfor).2, ?_, ?_⟩
  · exact satΓ_soundS hr.2.2.1 (badPath_none hbad a ha hane)
  · intro x hx
    exact hr.2.2.2 x (definedAll_spec hdef a ha x hx)

end Transfer

/-! ### reading the check -/

/-- what the check establishes about the outcomes `D`, `D'` of the two symbolic executions -/
def AgreeC (Γ : TypeEnv) (V : List String) (P P' : Program) (D D' : WD) : Prop :=
  ∃ l l', definedAll (symVarsI (obsVars Γ V) P) D = true ∧ definedAll (symVarsI (obsVars Γ V) P') D' = true ∧
    projListC (obsVars Γ V) D = some l ∧ projListC (obsVars Γ V) D' = some l' ∧
    badPath Γ D = none ∧ badPath Γ D' = none ∧ firstForeignC V l = none ∧ firstForeignC V l' = none ∧
    firstDiffC l l' = none

theorem compareAtC_none {Γ : TypeEnv} {V : List String} {P P' : Program} {stage : String} {a : Assign} {D D' : WD}
    (h : compareAtC Γ (obsVars Γ V) V (symVarsI (obsVars Γ V) P) (symVarsI (obsVars Γ V) P') stage a D D' = .ok none) :
    AgreeC Γ V P P' D D' := by
  unfold compareAtC at h
  split at h
  · exact absurd h throw_ne_ok
  · rename_i hdef
    have hdef' : definedAll (symVarsI (obsVars Γ V) P) D = true ∧ definedAll (symVarsI (obsVars Γ V) P') D' = true := by
      simpa using hdef
    split at h
    · rename_i l l' hl hl'
      refine ⟨l, l', hdef'.1, hdef'.2, hl, hl', ?_⟩
      split at h
      · simp [pure, Except.pure] at h
      · simp [pure, Except.pure] at h
      · rename_i hb hb'
        refine ⟨hb, hb', ?_⟩
        split at h
        · simp [pure, Except.pure] at h
        · rename_i hf
          refine ⟨hf, ?_⟩
          split at h
          · simp [pure, Except.pure] at h
          · rename_i hf'
            refine ⟨hf', ?_⟩
            split at h
            · simp [pure, Except.pure] at h
            · rename_i hd
              exact hd
    · exact absurd h throw_ne_ok

theorem atomFree_spec {xs : List String} (h : atomFree xs = true) : ∀ x ∈ xs, x.toList.head? ≠ some '@' := by
  intro x hx
  simp only [atomFree, List.all_eq_true] at h
  simpa using h x hx

theorem admissibleIC_ok {cap : Nat} {Γ : TypeEnv} {V : List String} {P P' : Program} {u : Unit}
    (h : admissibleIC cap Γ V P P' = .ok u) :
    FragmentIC P = true ∧ FragmentIC P' = true ∧
    (∀ x ∈ symVarsI (obsVars Γ V) P, x.toList.head? ≠ some '@') ∧
    (∀ x ∈ symVarsI (obsVars Γ V) P', x.toList.head? ≠ some '@') ∧ ∀ e ∈ Γ, e.2 ≠ [] := by
  unfold admissibleIC at h
  split at h
  · exact absurd h throw_ne_ok
  · rename_i hf
    have hf' : FragmentIC P = true ∧ FragmentIC P' = true := by simpa using hf
    split at h
    · exact absurd h throw_ne_ok
    · rename_i hat
      have hat' : atomFree (symVarsI (obsVars Γ V) P) = true ∧ atomFree (symVarsI (obsVars Γ V) P') = true := by
        simpa using hat
      split at h
      · exact absurd h throw_ne_ok
      · rename_i hne
        refine ⟨hf'.1, hf'.2, atomFree_spec hat'.1, atomFree_spec hat'.2, fun e he hnil => hne ?_⟩
        simp only [List.any_eq_true]
        exact ⟨e, he, by simp [hnil]⟩

theorem fragmentIC_parts {P : Program} (h : FragmentIC P = true) :
    blockOKIC P.init = true ∧ blockOKIC P.body = true := by
  simpa [FragmentIC] using h

theorem sameStepAtC_none {Γ : TypeEnv} {V : List String} {P P' : Program} {a : Assign}
    (h : sameStepAtC Γ V P P' a = .ok none) :
    ∃ D D', iter P ⟨assignStore (freeStore (symVarsI (obsVars Γ V) P)) a, []⟩ = .ok D ∧
      iter P' ⟨assignStore (freeStore (symVarsI (obsVars Γ V) P')) a, []⟩ = .ok D' ∧ AgreeC Γ V P P' D D' := by
  simp only [sameStepAtC] at h
  obtain ⟨D, hD, h⟩ := bind_ok.mp h
  obtain ⟨D', hD', h⟩ := bind_ok.mp h
  exact ⟨D, D', hD, hD', compareAtC_none h⟩

/-- what the step part of the check establishes -/
def StepFactsC (Γ : TypeEnv) (V : List String) (P P' : Program) : Prop :=
  blockOKIC P.body = true ∧ blockOKIC P'.body = true ∧
  (∀ x ∈ symVarsI (obsVars Γ V) P, x.toList.head? ≠ some '@') ∧
  (∀ x ∈ symVarsI (obsVars Γ V) P', x.toList.head? ≠ some '@') ∧ (∀ e ∈ Γ, e.2 ≠ []) ∧
  ∀ a ∈ enumΓ Γ, ∃ D D',
    iter P ⟨assignStore (freeStore (symVarsI (obsVars Γ V) P)) a, []⟩ = .ok D ∧
    iter P' ⟨assignStore (freeStore (symVarsI (obsVars Γ V) P')) a, []⟩ = .ok D' ∧ AgreeC Γ V P P' D D'

def InitFactsC (Γ : TypeEnv) (V : List String) (P P' : Program) : Prop :=
  blockOKIC P.init = true ∧ blockOKIC P'.init = true ∧ ∃ D D',
    execBlock P.init ⟨freeStore (symVarsI (obsVars Γ V) P), []⟩ = .ok D ∧
    execBlock P'.init ⟨freeStore (symVarsI (obsVars Γ V) P'), []⟩ = .ok D' ∧ AgreeC Γ V P P' D D'

theorem checkSameStepC_facts {cap : Nat} {Γ : TypeEnv} {V : List String} {P P' : Program}
    (h : checkSameStepC cap Γ V P P' = .ok true) : InitFactsC Γ V P P' ∧ StepFactsC Γ V P P' := by
  simp only [checkSameStepC] at h
  obtain ⟨r, hr, h⟩ := bind_ok.mp h
  rw [pure_ok] at h
  have hnone : sameStepCexC cap Γ V P P' = .ok none := by
    cases r with
    | none => exact hr
    | some c => simp at h
  simp only [sameStepCexC] at hnone
  obtain ⟨u, hu, hnone⟩ := bind_ok.mp hnone
  obtain ⟨hF, hF', hat, hat', hne⟩ := admissibleIC_ok hu
  obtain ⟨D0, h0, hnone⟩ := bind_ok.mp hnone
  obtain ⟨D0', h0', hnone⟩ := bind_ok.mp hnone
  obtain ⟨c, hc, hnone⟩ := bind_ok.mp hnone
  cases c with
  | some c => simp [pure, Except.pure] at hnone
  | none =>
    simp only at hnone
    refine ⟨⟨(fragmentIC_parts hF).1, (fragmentIC_parts hF').1, D0, D0', h0, h0', compareAtC_none hc⟩,
      ⟨(fragmentIC_parts hF).2, (fragmentIC_parts hF').2, hat, hat', hne, fun a ha => ?_⟩⟩
    exact sameStepAtC_none (firstFail_none hnone a ha)

/-! ### one iteration on the concrete side, computed from the symbolic outcomes -/

section Step
open MvPolynomial

/-- keep the `V`-symbols, kill every other variable -/
noncomputable def restrV (V : List String) : String → MvPolynomial String ℚ := fun x => if x ∈ V then X x else 0

/-- **the action of one symbolic outcome on moment functionals**: `L ↦ L ∘ stepT O V (key, atoms)` -/
noncomputable def stepT (O V : List String) (KB : KeyC) (g : MvPolynomial String ℚ) : MvPolynomial String ℚ :=
  bind₁ (restrV V) (preT O KB g)

theorem LV_eq_Lq {O V : List String} (hVO : ∀ x ∈ V, x ∈ O) (q : Path) (h : MvPolynomial String ℚ) :
    LV V q h = Lq O q (bind₁ (restrV V) h) := by
  unfold LV Lq
  rw [bind₁_bind₁]
  have : (fun i => bind₁ (obsMv O q.vals) (restrV V i)) = obsMv V q.vals := by
    funext x
    unfold restrV obsMv
    by_cases hx : x ∈ V
    · rw [if_pos hx, if_pos hx, bind₁_X_right, if_pos (hVO x hx)]
    · rw [if_neg hx, if_neg hx, map_zero]
  rw [this]

/-- the Γ-state read off a moment functional -/
noncomputable def stateL (Γ : TypeEnv) (L : MvPolynomial String ℚ → ℚ) : Assign := Γ.map (fun e => (e.1, L (X e.1)))

theorem stateOf_eq_stateL {Γ : TypeEnv} {O xs : List String} (hΓO : ∀ e ∈ Γ, e.1 ∈ O) (hOxs : ∀ x ∈ O, x ∈ xs)
    {q : Path} (hq : InvC Γ O xs q) : stateOf Γ q.vals = stateL Γ (Lq O q) := by
  unfold stateOf stateL
  refine List.map_congr_left (fun e he => ?_)
  have hO := hΓO e he
  cases hg : q.vals.get? e.1 with
  | none => exact absurd hg (hq.2.2 e.1 (hOxs _ hO))
  | some v =>
    obtain ⟨c, _, hc⟩ := hq.2.1 e he v hg
    have hv : toMv v = C c := toMv_ext (fun τ => by rw [hc τ, eval_C])
    simp only
    unfold Lq obsMv
    rw [bind₁_X_right, if_pos hO, hg]
    simp only
    rw [hv, EA_C, hc]

/-- the projected symbolic outcomes of `iter P` from the Γ-state `a` -/
def symListC (Γ : TypeEnv) (V : List String) (P : Program) (a : Assign) : List (KeyC × Rat) :=
  match iter P ⟨assignStore (freeStore (symVarsI (obsVars Γ V) P)) a, []⟩ with
  | .ok D => (projListC (obsVars Γ V) D).getD []
  | .error _ => []

theorem symListC_eq {Γ : TypeEnv} {V : List String} {P : Program} {a : Assign} {D : WD} {l : List (KeyC × Rat)}
    (hD : iter P ⟨assignStore (freeStore (symVarsI (obsVars Γ V) P)) a, []⟩ = .ok D)
    (hl : projListC (obsVars Γ V) D = some l) : symListC Γ V P a = l := by
  simp [symListC, hD, hl]

/-- the expectation of `F(moment functional)` after one iteration, as a function of the moment functional `L` of the
    state, read off the symbolic outcomes of `P` -/
noncomputable def HvalC (Γ : TypeEnv) (V : List String) (P : Program) (F : (MvPolynomial String ℚ → ℚ) → ℚ)
    (L : MvPolynomial String ℚ → ℚ) : ℚ :=
  wsumKC (symListC Γ V P (stateL Γ L)) (fun KB => F (fun g => L (stepT (obsVars Γ V) V KB g)))

theorem invC_clV {Γ : TypeEnv} {V xs : List String} {q : Path} (hq : InvC Γ (obsVars Γ V) xs q) :
    ∀ x ∈ V, ∀ v, q.vals.get? x = some v → toMv v ∈ supported ℚ (below q.atoms.length) :=
  fun x hx => hq.1 x (obs_of_V hx)

/-- one concrete iteration of a program `Q` against its symbolic outcomes -/
theorem step_evalC {Γ : TypeEnv} {V : List String} {Q : Program} (hF : blockOKIC Q.body = true)
    (hat : ∀ x ∈ symVarsI (obsVars Γ V) Q, x.toList.head? ≠ some '@') {q : Path}
    (hq : InvC Γ (obsVars Γ V) (symVarsI (obsVars Γ V) Q) q) {Ds : WD}
    (hDs : iter Q ⟨assignStore (freeStore (symVarsI (obsVars Γ V) Q)) (stateOf Γ q.vals), []⟩ = .ok Ds)
    {l : List (KeyC × Rat)} (hl : projListC (obsVars Γ V) Ds = some l) (hfor : firstForeignC V l = none)
    (hbad : badPath Γ Ds = none)
    (hdef : definedAll (symVarsI (obsVars Γ V) Q) Ds = true) {D : WD} (hD : iter Q q = .ok D)
    (F : (MvPolynomial String ℚ → ℚ) → ℚ) :
    wsum D (fun r => F (Lq (obsVars Γ V) r))
      = wsumKC l (fun KB => F (fun g => Lq (obsVars Γ V) q (stepT (obsVars Γ V) V KB g))) ∧
    AllInv (InvC Γ (obsVars Γ V) (symVarsI (obsVars Γ V) Q)) D := by
  have hrel : SRel (theta q.atoms.length q.vals)
      (assignStore (freeStore (symVarsI (obsVars Γ V) Q)) (stateOf Γ q.vals)) q.vals :=
    srel_assign _ (stateOf_agreesS hq.2.1) _ (srel_free _ hat [] (srel_nil _ _))
  have hdom := dom_symStore (Γ := Γ) (V := V) Q hq.2.2
  have hsim := iterA_sim (theta_atom _ _) Q hF (ps := ⟨_, []⟩) (pc := q) hrel (by simp) hdom hDs hD
  have hVO : ∀ x ∈ V, x ∈ obsVars Γ V := fun x hx => obs_of_V hx
  have hOat : ∀ x ∈ obsVars Γ V, x.toList.head? ≠ some '@' := fun x hx => hat x (obs_sub_symVars _ Q x hx)
  refine ⟨?_, invC_transfer hVO hOat (invC_clV hq) hsim hl hfor hbad hdef⟩
  rw [projListC_sim hVO hOat (invC_clV hq) hsim hl (firstForeignC_none hfor) F]
  congr 1
  funext KB
  congr 1
  funext g
  exact LV_eq_Lq hVO q _

/-- **One-step lemma.**  From states of `P` and of `P'` that satisfy the invariant, the expectation of any function of
    the moment functional after one iteration is the same function `HvalC` of the moment functional of the state. -/
theorem step_PC {Γ : TypeEnv} {V : List String} {P P' : Program} (hS : StepFactsC Γ V P P')
    (F : (MvPolynomial String ℚ → ℚ) → ℚ) {q : Path}
    (hq : InvC Γ (obsVars Γ V) (symVarsI (obsVars Γ V) P) q) {D : WD} (hD : iter P q = .ok D) :
    wsum D (fun r => F (Lq (obsVars Γ V) r)) = HvalC Γ V P F (Lq (obsVars Γ V) q) ∧
    AllInv (InvC Γ (obsVars Γ V) (symVarsI (obsVars Γ V) P)) D := by
  obtain ⟨hF, _, hat, _, hne, hstep⟩ := hS
  obtain ⟨Ds, Ds', hDs, _, l, l', hdef, _, hl, _, hbad, _, hfor, _, _⟩ := hstep _ (stateOf_memS hne hq.2.1)
  have := step_evalC hF hat hq hDs hl hfor hbad hdef hD F
  refine ⟨?_, this.2⟩
  rw [this.1, HvalC,
    ← stateOf_eq_stateL (fun e he => typed_in_obs he) (fun x hx => obs_sub_symVars _ P x hx) hq,
    symListC_eq hDs hl]

theorem step_PC' {Γ : TypeEnv} {V : List String} {P P' : Program} (hS : StepFactsC Γ V P P')
    (F : (MvPolynomial String ℚ → ℚ) → ℚ) {q : Path}
    (hq : InvC Γ (obsVars Γ V) (symVarsI (obsVars Γ V) P') q) {D : WD} (hD : iter P' q = .ok D) :
    wsum D (fun r => F (Lq (obsVars Γ V) r)) = HvalC Γ V P F (Lq (obsVars Γ V) q) ∧
    AllInv (InvC Γ (obsVars Γ V) (symVarsI (obsVars Γ V) P')) D := by
  obtain ⟨_, hF', _, hat', hne, hstep⟩ := hS
  obtain ⟨Ds, Ds', hDs, hDs', l, l', _, hdef', hl, hl', _, hbad', _, hfor', hdiff⟩ :=
    hstep _ (stateOf_memS hne hq.2.1)
  have := step_evalC hF' hat' hq hDs' hl' hfor' hbad' hdef' hD F
  refine ⟨?_, this.2⟩
  rw [this.1, HvalC,
    ← stateOf_eq_stateL (fun e he => typed_in_obs he) (fun x hx => obs_sub_symVars _ P' x hx) hq,
    symListC_eq hDs hl]
  exact (wsumKC_of_sameMass hdiff _).symm

/-- **same law over the observed tuple**: the two weighted lists of paths are the same mixture of moment functionals
    (`Lq O r` collects all mixed moments `E[g(observed values)]`, `g` a polynomial, of the path `r`) — every test
    function `F` of the moment functional has the same weighted sum. -/
def SameLawC (O : List String) (E E' : WD) : Prop :=
  ∀ F : (MvPolynomial String ℚ → ℚ) → ℚ, wsum E (fun r => F (Lq O r)) = wsum E' (fun r => F (Lq O r))

/-- **Bisimulation step.** -/
theorem sim_stepC {Γ : TypeEnv} {V : List String} {P P' : Program} (hS : StepFactsC Γ V P P') {E E' E1 E1' : WD}
    (hE : AllInv (InvC Γ (obsVars Γ V) (symVarsI (obsVars Γ V) P)) E)
    (hE' : AllInv (InvC Γ (obsVars Γ V) (symVarsI (obsVars Γ V) P')) E')
    (heq : SameLawC (obsVars Γ V) E E')
    (hb : bindW E (iter P) = .ok E1) (hb' : bindW E' (iter P') = .ok E1') :
    AllInv (InvC Γ (obsVars Γ V) (symVarsI (obsVars Γ V) P)) E1 ∧
    AllInv (InvC Γ (obsVars Γ V) (symVarsI (obsVars Γ V) P')) E1' ∧
    SameLawC (obsVars Γ V) E1 E1' := by
  refine ⟨bindW_inv (fun q hq D hD => (step_PC hS (fun _ => 0) hq hD).2) hE hb,
          bindW_inv (fun q hq D hD => (step_PC' hS (fun _ => 0) hq hD).2) hE' hb', ?_⟩
  intro F
  rw [wsum_bindW (G := fun q => HvalC Γ V P F (Lq (obsVars Γ V) q)) hb
        (fun wq hwq hne A hA => (step_PC hS F (hE wq hwq hne) hA).1),
      wsum_bindW (G := fun q => HvalC Γ V P F (Lq (obsVars Γ V) q)) hb'
        (fun wq hwq hne A hA => (step_PC' hS F (hE' wq hwq hne) hA).1)]
  exact heq (HvalC Γ V P F)

/-! ### the init blocks -/

theorem init_evalC {Γ : TypeEnv} {V : List String} {Q : Program} (hF : blockOKIC Q.init = true)
    (hat : ∀ x ∈ symVarsI (obsVars Γ V) Q, x.toList.head? ≠ some '@') {σ₀ : Store}
    (hc : ConcStore σ₀) (hd : DefAll (symVarsI (obsVars Γ V) Q) σ₀) {Ds : WD}
    (hDs : execBlock Q.init ⟨freeStore (symVarsI (obsVars Γ V) Q), []⟩ = .ok Ds)
    {l : List (KeyC × Rat)} (hl : projListC (obsVars Γ V) Ds = some l) (hfor : firstForeignC V l = none)
    (hbad : badPath Γ Ds = none)
    (hdef : definedAll (symVarsI (obsVars Γ V) Q) Ds = true) {D : WD} (hD : execBlock Q.init ⟨σ₀, []⟩ = .ok D)
    (F : (MvPolynomial String ℚ → ℚ) → ℚ) :
    wsum D (fun r => F (Lq (obsVars Γ V) r))
      = wsumKC l (fun KB => F (fun g => LV V ⟨σ₀, []⟩ (preT (obsVars Γ V) KB g))) ∧
    AllInv (InvC Γ (obsVars Γ V) (symVarsI (obsVars Γ V) Q)) D := by
  have hrel : SRel (theta 0 σ₀) (freeStore (symVarsI (obsVars Γ V) Q)) σ₀ := srel_free _ hat [] (srel_nil _ _)
  have hdom : Dom (freeStore (symVarsI (obsVars Γ V) Q)) σ₀ := dom_free _ hd [] (dom_nil σ₀)
  have hsim := blockA_sim (A := []) (theta_atom _ _) Q.init hF (ps := ⟨_, []⟩) (pc := ⟨σ₀, []⟩) hrel (by simp) hdom
    hDs hD
  have hVO : ∀ x ∈ V, x ∈ obsVars Γ V := fun x hx => obs_of_V hx
  have hOat : ∀ x ∈ obsVars Γ V, x.toList.head? ≠ some '@' := fun x hx => hat x (obs_sub_symVars _ Q x hx)
  have hcl : ∀ x ∈ V, ∀ v, (⟨σ₀, []⟩ : Path).vals.get? x = some v →
      toMv v ∈ supported ℚ (below (⟨σ₀, []⟩ : Path).atoms.length) := by
    intro x _ v hv
    obtain ⟨c, rfl⟩ := hc x v hv
    rw [toMv_const]
    exact Subalgebra.algebraMap_mem _ c
  exact ⟨projListC_sim (q := ⟨σ₀, []⟩) hVO hOat hcl hsim hl (firstForeignC_none hfor) F,
    invC_transfer (q := ⟨σ₀, []⟩) hVO hOat hcl hsim hl hfor hbad hdef⟩

theorem obsMv_congr {V : List String} {σ σ' : Store} (h : ∀ x ∈ V, σ.get? x = σ'.get? x) :
    obsMv V σ = obsMv V σ' := by
  funext x
  unfold obsMv
  by_cases hx : x ∈ V
  · rw [if_pos hx, if_pos hx, h x hx]
  · rw [if_neg hx, if_neg hx]

theorem sim_initC {Γ : TypeEnv} {V : List String} {P P' : Program} (hI : InitFactsC Γ V P P')
    (hat : ∀ x ∈ symVarsI (obsVars Γ V) P, x.toList.head? ≠ some '@')
    (hat' : ∀ x ∈ symVarsI (obsVars Γ V) P', x.toList.head? ≠ some '@') {σ₀ σ₀' : Store}
    (hc : ConcStore σ₀) (hc' : ConcStore σ₀')
    (hd : DefAll (symVarsI (obsVars Γ V) P) σ₀) (hd' : DefAll (symVarsI (obsVars Γ V) P') σ₀')
    (hV : ∀ x ∈ V, σ₀.get? x = σ₀'.get? x) {E E' : WD}
    (hE : execBlock P.init ⟨σ₀, []⟩ = .ok E) (hE' : execBlock P'.init ⟨σ₀', []⟩ = .ok E') :
    AllInv (InvC Γ (obsVars Γ V) (symVarsI (obsVars Γ V) P)) E ∧
    AllInv (InvC Γ (obsVars Γ V) (symVarsI (obsVars Γ V) P')) E' ∧
    SameLawC (obsVars Γ V) E E' := by
  obtain ⟨hF, hF', D, D', hD, hD', l, l', hdef, hdef', hl, hl', hbad, hbad', hfor, hfor', hdiff⟩ := hI
  have h1 := fun F => init_evalC hF hat hc hd hD hl hfor hbad hdef hE F
  have h2 := fun F => init_evalC hF' hat' hc' hd' hD' hl' hfor' hbad' hdef' hE' F
  refine ⟨(h1 (fun _ => 0)).2, (h2 (fun _ => 0)).2, fun F => ?_⟩
  rw [(h1 F).1, (h2 F).1, ← wsumKC_of_sameMass hdiff]
  have : LV V (⟨σ₀, []⟩ : Path) = LV V (⟨σ₀', []⟩ : Path) := by
    funext h
    unfold LV
    rw [obsMv_congr hV]
  rw [this]

/-! ### all n -/

theorem sameLaw_runC {Γ : TypeEnv} {V : List String} {P P' : Program} (hI : InitFactsC Γ V P P')
    (hS : StepFactsC Γ V P P') {σ₀ σ₀' : Store} (hc : ConcStore σ₀) (hc' : ConcStore σ₀')
    (hd : DefAll (symVarsI (obsVars Γ V) P) σ₀) (hd' : DefAll (symVarsI (obsVars Γ V) P') σ₀')
    (hV : ∀ x ∈ V, σ₀.get? x = σ₀'.get? x) :
    ∀ (n : Nat) (E E' : WD), run P false n σ₀ = .ok E → run P' false n σ₀' = .ok E' →
      AllInv (InvC Γ (obsVars Γ V) (symVarsI (obsVars Γ V) P)) E ∧
      AllInv (InvC Γ (obsVars Γ V) (symVarsI (obsVars Γ V) P')) E' ∧
      SameLawC (obsVars Γ V) E E' := by
  intro n
  induction n with
  | zero =>
    intro E E' hE hE'
    simp only [run, Bool.false_eq_true, if_false, iterN] at hE hE'
    obtain ⟨D, hD, hE⟩ := bind_ok.mp hE
    obtain ⟨D', hD', hE'⟩ := bind_ok.mp hE'
    rw [pure_ok] at hE hE'
    subst hE hE'
    exact sim_initC hI hS.2.2.1 hS.2.2.2.1 hc hc' hd hd' hV hD hD'
  | succ n ih =>
    intro E1 E1' hE hE'
    obtain ⟨E0, h0, hb⟩ := run_succ hE
    obtain ⟨E0', h0', hb'⟩ := run_succ hE'
    obtain ⟨i1, i2, i3⟩ := ih E0 E0' h0 h0'
    exact sim_stepC hS i1 i2 i3 hb hb'

/-- **V3C (translation validation for all n, continuous draws).**  If `checkSameStepC cap Γ V P P'` accepts, then for
    EVERY number of iterations `n` and all initial stores `σ₀` (for `P`) and `σ₀'` (for `P'`) that hold rational
    constants, define the variables of the respective program and agree on the observed source variables `V`: the
    un-merged runs are the same mixture of moment functionals of the observed tuple `V ++ dom Γ` (`SameLawC`), and
    both satisfy the types `Γ` (each typed variable is, as a function of the draws, one constant of its set). -/
theorem checkSameStepC_sound {cap : Nat} {Γ : TypeEnv} {V : List String} {P P' : Program}
    (h : checkSameStepC cap Γ V P P' = .ok true) (n : Nat) {σ₀ σ₀' : Store}
    (hc : ConcStore σ₀) (hc' : ConcStore σ₀')
    (hd : DefAll (symVarsI (obsVars Γ V) P) σ₀) (hd' : DefAll (symVarsI (obsVars Γ V) P') σ₀')
    (hV : ∀ x ∈ V, σ₀.get? x = σ₀'.get? x) {E E' : WD}
    (hE : run P false n σ₀ = .ok E) (hE' : run P' false n σ₀' = .ok E') :
    SameLawC (obsVars Γ V) E E' ∧ AllInv (InvS Γ) E ∧ AllInv (InvS Γ) E' := by
  obtain ⟨hI, hS⟩ := checkSameStepC_facts h
  obtain ⟨i1, i2, i3⟩ := sameLaw_runC hI hS hc hc' hd hd' hV n E E' hE hE'
  exact ⟨i3, i1.mono (fun _ hq => hq.2.1), i2.mono (fun _ hq => hq.2.1)⟩

/-! ### moments -/

/-- the value of a monomial is in normal form whatever the store holds (`MPoly.mul` normalises its result) -/
theorem monoValue_NF {σ : Store} (m : Mono) {p : MPoly} (h : monoValue σ m = .ok p) : PolyNF p := by
  induction m generalizing p with
  | nil =>
    rw [monoValue_nil] at h
    simp only [Except.ok.injEq] at h
    rw [← h]; exact polyNF_one
  | cons xk t ih =>
    obtain ⟨x, k⟩ := xk
    obtain ⟨acc, v, h1, _, rfl⟩ := monoValue_cons_ok h
    exact PolyNF.mul _ (ih h1)

theorem monoValue_toMv {O : List String} {σ : Store} (m : Mono) (hm : ∀ xe ∈ m, xe.1 ∈ O) {p : MPoly}
    (h : monoValue σ m = .ok p) : toMv p = bind₁ (obsMv O σ) (monoMv m) := by
  induction m generalizing p with
  | nil =>
    rw [monoValue_nil] at h
    simp only [Except.ok.injEq] at h
    rw [← h, toMv_one, monoMv_nil, map_one]
  | cons xk t ih =>
    obtain ⟨x, k⟩ := xk
    obtain ⟨acc, v, h1, hg, rfl⟩ := monoValue_cons_ok h
    rw [toMv_mul, toMv_pow, ih (fun xe hxe => hm xe (by simp [hxe])) h1, monoMv_cons, map_mul, map_pow,
      bind₁_X_right]
    congr 2
    unfold obsMv
    rw [if_pos (hm (x, k) (by simp)), hg]

/-- the expectation of a monomial over the observed variables is the value of the moment functional at that monomial -/
theorem pathE_eq_Lq {O : List String} {r : Path} (m : Mono) (hm : ∀ xe ∈ m, xe.1 ∈ O)
    {v : Rat} (h : pathE m r = .ok v) : v = Lq O r (monoMv m) := by
  simp only [pathE] at h
  obtain ⟨p, hp, h⟩ := bind_ok.mp h
  rw [polyE_eq_EA (monoValue_NF m hp) h, monoValue_toMv m hm hp]
  rfl

theorem wsumM_eq_wsum_of {D : WD} {g : Path → M Rat} {g' : Path → Rat} {r : Rat} (h : wsumM D g = .ok r)
    (hg : ∀ wq ∈ D, ∀ v, g wq.2 = .ok v → v = g' wq.2) : r = wsum D g' := by
  induction D generalizing r with
  | nil =>
    rw [wsumM_nil] at h
    simp only [Except.ok.injEq] at h
    rw [← h]; rfl
  | cons x t ih =>
    obtain ⟨w, q⟩ := x
    obtain ⟨acc, v, h1, h2, rfl⟩ := wsumM_cons_ok h
    rw [wsum_cons, ← ih h1 (fun wq hwq => hg wq (by simp [hwq])), hg (w, q) (by simp) v h2]

/-- **V3C, polynomial test functions.**  Under the hypotheses of `checkSameStepC_sound`, every polynomial `g` in the
    observed variables has the same expectation `Σ_paths w · E[g(observed values)]` at every `n` in both programs. -/
theorem checkSameStepC_poly {cap : Nat} {Γ : TypeEnv} {V : List String} {P P' : Program}
    (h : checkSameStepC cap Γ V P P' = .ok true) (n : Nat) {σ₀ σ₀' : Store}
    (hc : ConcStore σ₀) (hc' : ConcStore σ₀')
    (hd : DefAll (symVarsI (obsVars Γ V) P) σ₀) (hd' : DefAll (symVarsI (obsVars Γ V) P') σ₀')
    (hV : ∀ x ∈ V, σ₀.get? x = σ₀'.get? x) {E E' : WD}
    (hE : run P false n σ₀ = .ok E) (hE' : run P' false n σ₀' = .ok E') (g : MvPolynomial String ℚ) :
    wsum E (fun r => Lq (obsVars Γ V) r g) = wsum E' (fun r => Lq (obsVars Γ V) r g) :=
  (checkSameStepC_sound h n hc hc' hd hd' hV hE hE').1 (fun L => L g)

/-- **V3C, moments.**  If `checkSameStepC cap Γ V P P'` accepts, then for every `n`, all constant initial stores that
    define the names of the respective program and agree on `V`, and every monomial `m` over the observed variables:
    `momentU P m n σ₀ = momentU P' m n σ₀'` whenever both are defined. -/
theorem checkSameStepC_moments {cap : Nat} {Γ : TypeEnv} {V : List String} {P P' : Program}
    (h : checkSameStepC cap Γ V P P' = .ok true) (n : Nat) {σ₀ σ₀' : Store}
    (hc : ConcStore σ₀) (hc' : ConcStore σ₀')
    (hd : DefAll (symVarsI (obsVars Γ V) P) σ₀) (hd' : DefAll (symVarsI (obsVars Γ V) P') σ₀')
    (hV : ∀ x ∈ V, σ₀.get? x = σ₀'.get? x) (m : Mono) (hm : ∀ xe ∈ m, xe.1 ∈ obsVars Γ V) {a b : Rat}
    (ha : momentU P m n σ₀ = .ok a) (hb : momentU P' m n σ₀' = .ok b) : a = b := by
  simp only [momentU] at ha hb
  obtain ⟨E, hE, ha⟩ := bind_ok.mp ha
  obtain ⟨E', hE', hb⟩ := bind_ok.mp hb
  have i3 := (checkSameStepC_sound h n hc hc' hd hd' hV hE hE').1
  rw [E_eq_wsumM] at ha hb
  rw [wsumM_eq_wsum_of (g' := fun r => Lq (obsVars Γ V) r (monoMv m)) ha
        (fun wq _ v hv => pathE_eq_Lq m hm hv),
      wsumM_eq_wsum_of (g' := fun r => Lq (obsVars Γ V) r (monoMv m)) hb
        (fun wq _ v hv => pathE_eq_Lq m hm hv)]
  exact i3 (fun L => L (monoMv m))

end Step

/-! ### non-vacuity -/

/-- `x = 0; while true: x = x + Normal(0,1)` -/
def cSrc : Program :=
  { init := [.assign "x" (.expr (.num 0)) .tt "x"], guard := .tt,
    body := [.assign "x" (.expr (.var "x")) .tt "x",
             .assign "x" (.dist "Normal" [.var "x", .num 1]) .tt "x"] }

/-- the draw moved into a temporary: `_t = Normal(0,1); x = x + _t` -/
def cTmp : Program :=
  { cSrc with body := [.assign "_t" (.dist "Normal" [.num 0, .num 1]) .tt "_t",
                       .assign "x" (.expr (.add (.var "x") (.var "_t"))) .tt "x"] }

/-- a wrong variance -/
def cBad : Program :=
  { cSrc with body := [.assign "_t" (.dist "Normal" [.num 0, .num 2]) .tt "_t",
                       .assign "x" (.expr (.add (.var "x") (.var "_t"))) .tt "x"] }

/-- the temporary leaks into the next iteration (`x` reads the draw of the PREVIOUS iteration) -/
def cLeak : Program :=
  { cSrc with body := [.assign "x" (.expr (.add (.var "x") (.var "_t"))) .tt "x",
                       .assign "_t" (.dist "Normal" [.num 0, .num 1]) .tt "_t"] }

example : checkSameStepC 4096 [] ["x"] cSrc cTmp = .ok true := by decide +kernel
example : checkSameStepC 4096 [] ["x"] cSrc cBad = .ok false := by decide +kernel
example : checkSameStepC 4096 [] ["x"] cSrc cLeak = .ok false := by decide +kernel
-- the discrete validator V3 refuses these programs
example : (checkSameStep 4096 [] ["x"] cSrc cTmp).isOk = false := by decide +kernel

/-- a Bernoulli guard and a Uniform draw inside an `ite`:
    `f = 0; x = 0; while true: f = Bernoulli(1/2); if f == 1: x = Uniform(x, x+2) else: x = x - 1` -/
def mSrc : Program :=
  { init := [.assign "f" (.expr (.num 0)) .tt "f", .assign "x" (.expr (.num 0)) .tt "x"],
    guard := .tt,
    body := [.assign "f" (.dist "Bernoulli" [.num (1/2)]) .tt "f",
             .ite (.cmp .eq (.var "f") (.num 1))
               [.assign "x" (.dist "Uniform" [.var "x", .add (.var "x") (.num 2)]) .tt "x"]
               [.assign "x" (.expr (.sub (.var "x") (.num 1))) .tt "x"]] }

def mG : Cond := .cmp .eq (.var "f") (.num 1)

/-- its flattened single-assignment form -/
def mFlat : Program :=
  { mSrc with body :=
     [.assign "f" (.dist "Bernoulli" [.num (1/2)]) .tt "f",
      .assign "_x1" (.dist "Uniform" [.var "x", .add (.var "x") (.num 2)]) mG "x",
      .assign "x" (.expr (.sub (.var "_x1") (.num 1))) (.not mG) "_x1"] }

/-- a broken flattening: the draw has the wrong range -/
def mBad : Program :=
  { mSrc with body :=
     [.assign "f" (.dist "Bernoulli" [.num (1/2)]) .tt "f",
      .assign "_x1" (.dist "Uniform" [.var "x", .add (.var "x") (.num 3)]) mG "x",
      .assign "x" (.expr (.sub (.var "_x1") (.num 1))) (.not mG) "_x1"] }

def mΓ : TypeEnv := [("f", [0, 1])]
def mV : List String := ["f", "x"]

example : checkSameStepC 4096 mΓ mV mSrc mFlat = .ok true := by decide +kernel
example : checkSameStepC 4096 mΓ mV mSrc mBad = .ok false := by decide +kernel
example : (checkSameStepC 1 mΓ mV mSrc mFlat).isOk = false := by decide +kernel

/-- the two programs have the same moments of every monomial over `f`, `x` at every n, from all constant initial stores
    that agree on `f`, `x` -/
example (n : Nat) (σ₀ σ₀' : Store) (hc : ConcStore σ₀) (hc' : ConcStore σ₀')
    (hd : DefAll (symVarsI (obsVars mΓ mV) mSrc) σ₀) (hd' : DefAll (symVarsI (obsVars mΓ mV) mFlat) σ₀')
    (hV : ∀ x ∈ mV, σ₀.get? x = σ₀'.get? x) (m : Mono) (hm : ∀ xe ∈ m, xe.1 ∈ obsVars mΓ mV) (a b : Rat)
    (ha : momentU mSrc m n σ₀ = .ok a) (hb : momentU mFlat m n σ₀' = .ok b) : a = b :=
  checkSameStepC_moments (cap := 4096) (by decide +kernel) n hc hc' hd hd' hV m hm ha hb

-- the remaining hypotheses are satisfiable: stores that define the names of the programs and agree on f, x
def mσ : Store := Store.set (Store.set [] "f" (MPoly.const 0)) "x" (MPoly.const 3)
def mσ' : Store := Store.set (Store.set (Store.set [] "f" (MPoly.const 0)) "x" (MPoly.const 3)) "_x1" (MPoly.const 7)

example : ConcStore mσ ∧ ConcStore mσ' :=
  ⟨(concStore_nil.set "f" 0).set "x" 3, ((concStore_nil.set "f" 0).set "x" 3).set "_x1" 7⟩
example : (symVarsI (obsVars mΓ mV) mSrc).all (fun x => (mσ.get? x).isSome) = true := by decide +kernel
example : (symVarsI (obsVars mΓ mV) mFlat).all (fun x => (mσ'.get? x).isSome) = true := by decide +kernel
example : mV.all (fun x => mσ.get? x == mσ'.get? x) = true := by decide +kernel
-- the runs are defined and their paths carry draw atoms
example : (run mSrc false 2 mσ).isOk = true ∧ (run mFlat false 2 mσ').isOk = true := by decide +kernel

/-! the hypotheses "both moments are defined" are satisfiable on runs with draw atoms, and the common value is the true
one: `E(x²)` after one iteration of `x = x + Normal(0,1)` from `x = 0` is 1 in both programs.  (`atomIndex?` goes
through `String.Slice` functions the kernel does not unfold, so the expectation is computed by rewriting.) -/

def cσ : Store := Store.set [] "x" (MPoly.const 0)
def cσ' : Store := Store.set (Store.set [] "x" (MPoly.const 0)) "_t" (MPoly.const 5)

theorem atomIndex_at0 : atomIndex? "@0" = some 0 := by
  have e : atomName 0 = "@0" := by decide +kernel
  rw [← e]; exact atomIndex_atomName 0

theorem polyE_sq : polyE [⟨"Normal", [0, 1]⟩] [([("@0", 2)], 1)] = .ok 1 := by
  simp only [polyE, atomMonoE, List.foldrM_cons, List.foldrM_nil, atomIndex_at0, momentSpec,
    normalMoment, bind, Except.bind, pure, Except.pure, List.getElem?_cons_zero]
  norm_num

theorem cSrc_moment : momentU cSrc [("x", 2)] 1 cσ = .ok 1 := by
  have hrun : run cSrc false 1 cσ = .ok [(1, ⟨[("x", [([("@0", 1)], 1)])], [⟨"Normal", [0, 1]⟩]⟩)] := by
    decide +kernel
  have hmv : monoValue [("x", [([("@0", 1)], 1)])] [("x", 2)] = .ok [([("@0", 2)], 1)] := by decide +kernel
  simp only [momentU, hrun, WD.E, List.foldrM_cons, List.foldrM_nil, pathE, hmv, polyE_sq, bind, Except.bind, pure,
    Except.pure]
  norm_num

theorem cTmp_moment : momentU cTmp [("x", 2)] 1 cσ' = .ok 1 := by
  have hrun : run cTmp false 1 cσ' =
      .ok [(1, ⟨[("_t", [([("@0", 1)], 1)]), ("x", [([("@0", 1)], 1)])], [⟨"Normal", [0, 1]⟩]⟩)] := by
    decide +kernel
  have hmv : monoValue [("_t", [([("@0", 1)], 1)]), ("x", [([("@0", 1)], 1)])] [("x", 2)]
      = .ok [([("@0", 2)], 1)] := by decide +kernel
  simp only [momentU, hrun, WD.E, List.foldrM_cons, List.foldrM_nil, pathE, hmv, polyE_sq, bind, Except.bind, pure,
    Except.pure]
  norm_num

example : ConcStore cσ ∧ ConcStore cσ' := ⟨concStore_nil.set "x" 0, (concStore_nil.set "x" 0).set "_t" 5⟩
example : (symVarsI (obsVars [] ["x"]) cSrc).all (fun x => (cσ.get? x).isSome) = true := by decide +kernel
example : (symVarsI (obsVars [] ["x"]) cTmp).all (fun x => (cσ'.get? x).isSome) = true := by decide +kernel
example : ["x"].all (fun x => cσ.get? x == cσ'.get? x) = true := by decide +kernel

end Polar.V3C
