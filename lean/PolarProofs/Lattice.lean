import Mathlib.Tactic
import Mathlib.NumberTheory.Padics.PadicVal.Basic
import Polar.Lattice
import PolarProofs.LatticeKernel
import PolarProofs.LatticeCoded

/-! C16 — exponent lattices of non-zero rationals: the relation `∏ bᵢ^eᵢ = 1` in terms of
p-adic valuations and signs, the verified basis `latticeBasis`, soundness of the checker used by
the harness, the coprimality shortcut, and the correctness of the algorithm as coded (`latticeAsCoded`,
`c16_code_correct`). -/

namespace Polar.Lattice

/-- the product `∏ bᵢ^eᵢ` in ℚ (`zpow` of the field ℚ) -/
def zprod : List ℚ → List ℤ → ℚ
  | b :: bs, e :: es => b ^ e * zprod bs es
  | _, _ => 1

@[simp] lemma zprod_cons (b : ℚ) (e : ℤ) (bs : List ℚ) (es : List ℤ) :
    zprod (b :: bs) (e :: es) = b ^ e * zprod bs es := rfl
@[simp] lemma zprod_nil_left (es : List ℤ) : zprod [] es = 1 := by cases es <;> rfl
@[simp] lemma zprod_nil_right (bs : List ℚ) : zprod bs [] = 1 := by cases bs <;> rfl

lemma ratZpow_eq (b : ℚ) (e : ℤ) : ratZpow b e = b ^ e := by
  cases e with
  | ofNat n => simp [ratZpow]
  | negSucc n => simp [ratZpow, zpow_negSucc]

lemma prodPow_eq (bs : List ℚ) (es : List ℤ) : prodPow bs es = zprod bs es := by
  induction bs generalizing es with
  | nil => cases es <;> simp [prodPow]
  | cons b bs ih => cases es with
    | nil => simp [prodPow]
    | cons e es => simp [prodPow, ratZpow_eq, ih]

/-- `relationHolds` decides the relation `∏ bᵢ^eᵢ = 1` (real `zpow` in ℚ) -/
theorem relationHolds_iff (bs : List ℚ) (e : List ℤ) :
    relationHolds bs e = true ↔ e.length = bs.length ∧ zprod bs e = 1 := by
  simp [relationHolds, prodPow_eq]


/-! ### the relation in terms of valuations and signs -/

/-- `Σ eᵢ · v_p(bᵢ)` -/
def valSum (p : ℕ) : List ℚ → List ℤ → ℤ
  | b :: bs, e :: es => e * padicValRat p b + valSum p bs es
  | _, _ => 0

/-- `Σ_{bᵢ < 0} eᵢ` -/
def negSum : List ℚ → List ℤ → ℤ
  | b :: bs, e :: es => (if b < 0 then e else 0) + negSum bs es
  | _, _ => 0

lemma zprod_ne_zero {bs : List ℚ} (h : ∀ b ∈ bs, b ≠ 0) (es : List ℤ) : zprod bs es ≠ 0 := by
  induction bs generalizing es with
  | nil => simp
  | cons b bs ih => cases es with
    | nil => simp
    | cons e es =>
      simp only [zprod_cons]
      exact mul_ne_zero (zpow_ne_zero _ (h b (by simp))) (ih (fun x hx => h x (by simp [hx])) es)

lemma padicValRat_zprod (p : ℕ) [Fact p.Prime] {bs : List ℚ} (h : ∀ b ∈ bs, b ≠ 0) (es : List ℤ) :
    padicValRat p (zprod bs es) = valSum p bs es := by
  induction bs generalizing es with
  | nil => simp [valSum]
  | cons b bs ih => cases es with
    | nil => simp [valSum]
    | cons e es =>
      have hb : b ≠ 0 := h b (by simp)
      have hbs : ∀ x ∈ bs, x ≠ 0 := fun x hx => h x (by simp [hx])
      simp only [zprod_cons, valSum]
      rw [padicValRat.mul (zpow_ne_zero _ hb) (zprod_ne_zero hbs es), padicValRat.zpow, ih hbs]

lemma zprod_abs_pos {bs : List ℚ} (h : ∀ b ∈ bs, b ≠ 0) (es : List ℤ) :
    0 < zprod (bs.map (fun b => |b|)) es := by
  induction bs generalizing es with
  | nil => simp
  | cons b bs ih => cases es with
    | nil => simp
    | cons e es =>
      simp only [List.map_cons, zprod_cons]
      exact mul_pos (zpow_pos (abs_pos.2 (h b (by simp))) _) (ih (fun x hx => h x (by simp [hx])) es)

lemma zprod_eq_sign_mul_abs {bs : List ℚ} (h : ∀ b ∈ bs, b ≠ 0) (es : List ℤ) :
    zprod bs es = (-1 : ℚ) ^ negSum bs es * zprod (bs.map (fun b => |b|)) es := by
  induction bs generalizing es with
  | nil => simp [negSum]
  | cons b bs ih => cases es with
    | nil => simp [negSum]
    | cons e es =>
      have hbs : ∀ x ∈ bs, x ≠ 0 := fun x hx => h x (by simp [hx])
      simp only [List.map_cons, zprod_cons, negSum]
      rw [ih hbs, zpow_add₀ (by norm_num : (-1 : ℚ) ≠ 0)]
      by_cases hb : b < 0
      · rw [if_pos hb, abs_of_neg hb]
        have : b = -1 * (-b) := by ring
        conv_lhs => rw [this, mul_zpow]
        ring
      · rw [if_neg hb, abs_of_nonneg (not_lt.1 hb)]
        simp; ring

lemma zprod_pos_iff {bs : List ℚ} (h : ∀ b ∈ bs, b ≠ 0) (es : List ℤ) :
    0 < zprod bs es ↔ Even (negSum bs es) := by
  rw [zprod_eq_sign_mul_abs h]
  have hP := zprod_abs_pos h es
  rcases Int.even_or_odd (negSum bs es) with he | ho
  · rw [he.neg_one_zpow]; simp [hP, he]
  · rw [ho.neg_one_zpow]
    have : ¬ Even (negSum bs es) := Int.not_even_iff_odd.2 ho
    simp [this]; linarith

/-- a positive rational all of whose p-adic valuations vanish is 1 -/
lemma eq_one_of_padicValRat_eq_zero {q : ℚ} (hq : 0 < q)
    (h : ∀ p : ℕ, p.Prime → padicValRat p q = 0) : q = 1 := by
  have hnum : 0 < q.num := Rat.num_pos.2 hq
  have hcop : Nat.Coprime q.num.natAbs q.den := q.reduced
  have hn0 : q.num.natAbs ≠ 0 := by omega
  have key : ∀ p : ℕ, p.Prime → ¬ p ∣ q.num.natAbs ∧ ¬ p ∣ q.den := by
    intro p hp
    have : Fact p.Prime := ⟨hp⟩
    have hv := h p hp
    rw [padicValRat_def] at hv
    have hv' : padicValNat p q.num.natAbs = padicValNat p q.den := by
      have : (padicValInt p q.num : ℤ) = padicValNat p q.den := by linarith
      unfold padicValInt at this
      exact_mod_cast this
    constructor
    · intro hd
      have h1 : ¬ p ∣ q.den := fun hd2 => hp.one_lt.ne' (Nat.eq_one_of_dvd_coprimes hcop hd hd2)
      have h2 := padicValNat.eq_zero_of_not_dvd h1
      have h3 := (dvd_iff_padicValNat_ne_zero hn0).1 hd
      omega
    · intro hd
      have h1 : ¬ p ∣ q.num.natAbs := fun hd2 => hp.one_lt.ne' (Nat.eq_one_of_dvd_coprimes hcop hd2 hd)
      have h2 := padicValNat.eq_zero_of_not_dvd h1
      have h3 := (dvd_iff_padicValNat_ne_zero q.den_nz).1 hd
      omega
  have h1 : q.num.natAbs = 1 := Nat.eq_one_iff_not_exists_prime_dvd.2 (fun p hp => (key p hp).1)
  have h2 : q.den = 1 := Nat.eq_one_iff_not_exists_prime_dvd.2 (fun p hp => (key p hp).2)
  have h3 : q.num = 1 := by omega
  rw [← Rat.num_div_den q, h3, h2]; simp

/-- **`∏ bᵢ^eᵢ = 1` iff every prime's weighted valuation sum vanishes and the number of negative
bases raised to an odd power is even** (stated with the exponent sum over the negative bases) -/
theorem relation_iff_valuations {bs : List ℚ} (h : ∀ b ∈ bs, b ≠ 0) (es : List ℤ) :
    zprod bs es = 1 ↔ (∀ p : ℕ, p.Prime → valSum p bs es = 0) ∧ Even (negSum bs es) := by
  constructor
  · intro h1
    refine ⟨fun p hp => ?_, ?_⟩
    · have : Fact p.Prime := ⟨hp⟩
      rw [← padicValRat_zprod p h, h1, padicValRat.one]
    · rw [← zprod_pos_iff h, h1]; norm_num
  · rintro ⟨hv, he⟩
    apply eq_one_of_padicValRat_eq_zero ((zprod_pos_iff h es).2 he)
    intro p hp
    have : Fact p.Prime := ⟨hp⟩
    rw [padicValRat_zprod p h, hv p hp]

example : (∀ b ∈ ([4, 8] : List ℚ), b ≠ 0) ∧ zprod [4, 8] [-3, 2] = 1 := by
  refine ⟨by simp, ?_⟩
  norm_num [zprod]


/-! ### the model's trial-division valuations are the p-adic valuations -/

lemma multAux_eq (p : ℕ) [hp : Fact p.Prime] (fuel n : ℕ) (hn : 0 < n) (hf : n ≤ fuel) :
    multAux fuel p n = padicValNat p n := by
  induction fuel generalizing n with
  | zero => omega
  | succ f ih =>
    unfold multAux
    have h2 : 2 ≤ p := hp.out.two_le
    by_cases hd : n % p = 0
    · rw [if_pos ⟨h2, hn, hd⟩]
      have hdvd : p ∣ n := Nat.dvd_of_mod_eq_zero hd
      have hlt : n / p < n := Nat.div_lt_self hn (by omega)
      have hpos : 0 < n / p := Nat.div_pos (Nat.le_of_dvd hn hdvd) (by omega)
      rw [ih (n / p) hpos (by omega), padicValNat.div hdvd]
      have := one_le_padicValNat_of_dvd (p := p) (by omega : n ≠ 0) hdvd
      omega
    · rw [if_neg (fun h => hd h.2.2)]
      exact (padicValNat.eq_zero_of_not_dvd (fun h => hd (Nat.mod_eq_zero_of_dvd h))).symm

lemma mult_eq (p : ℕ) [Fact p.Prime] (n : ℕ) (hn : 0 < n) : mult p n = padicValNat p n :=
  multAux_eq p n n hn le_rfl

lemma vpRat_eq (p : ℕ) [Fact p.Prime] {b : ℚ} (hb : b ≠ 0) : vpRat p b = padicValRat p b := by
  have hnum : 0 < b.num.natAbs := Int.natAbs_pos.2 (Rat.num_ne_zero.2 hb)
  unfold vpRat
  rw [mult_eq p _ hnum, mult_eq p _ b.den_pos, padicValRat_def]
  rfl

lemma isPrimeTD_iff (p : ℕ) : isPrimeTD p = true ↔ p.Prime := by
  unfold isPrimeTD
  rw [Nat.prime_def_lt]
  simp only [Bool.and_eq_true, decide_eq_true_eq, List.all_eq_true, List.mem_range, Bool.or_eq_true,
    bne_iff_ne, ne_eq]
  constructor
  · rintro ⟨h2, h⟩
    refine ⟨h2, fun m hm hd => ?_⟩
    rcases h m hm with h1 | h1
    · have : m ≠ 0 := by
        rintro rfl
        have := Nat.eq_zero_of_zero_dvd hd
        omega
      omega
    · exact absurd (Nat.mod_eq_zero_of_dvd hd) h1
  · rintro ⟨h2, h⟩
    refine ⟨h2, fun d hd => ?_⟩
    by_cases hd2 : d < 2
    · exact Or.inl hd2
    · right
      intro hmod
      have := h d hd (Nat.dvd_of_mod_eq_zero hmod)
      omega

lemma mem_primesSlow {n : ℕ} (hn : 0 < n) (p : ℕ) : p ∈ primesSlow n ↔ p.Prime ∧ p ∣ n := by
  unfold primesSlow
  simp only [List.mem_filter, List.mem_range, Bool.and_eq_true, beq_iff_eq, isPrimeTD_iff]
  constructor
  · rintro ⟨_, hd, hp⟩
    exact ⟨hp, Nat.dvd_of_mod_eq_zero hd⟩
  · rintro ⟨hp, hd⟩
    exact ⟨Nat.lt_succ_of_le (Nat.le_of_dvd hn hd), Nat.mod_eq_zero_of_dvd hd, hp⟩

lemma noDivFrom_spec (fuel d p : ℕ) (h : noDivFrom fuel d p = true) :
    ∀ m, d ≤ m → m * m ≤ p → ¬ m ∣ p := by
  induction fuel generalizing d with
  | zero => simp [noDivFrom] at h
  | succ f ih =>
    unfold noDivFrom at h
    intro m hdm hmm
    split_ifs at h with h1 h2
    · have : d * d ≤ m * m := Nat.mul_le_mul hdm hdm
      omega
    · rcases Nat.eq_or_lt_of_le hdm with rfl | hlt
      · intro hd; exact h2 (Nat.mod_eq_zero_of_dvd hd)
      · exact ih (d + 1) h m hlt hmm

lemma isPrimeSq_prime {p : ℕ} (h : isPrimeSq p = true) : p.Prime := by
  unfold isPrimeSq at h
  simp only [Bool.and_eq_true, decide_eq_true_eq] at h
  rw [Nat.prime_def_le_sqrt]
  refine ⟨h.1, fun m hm hs => ?_⟩
  exact noDivFrom_spec p 2 p h.2 m hm (Nat.le_sqrt.1 hs)

lemma mem_of_prime_dvd_prodPows {q n : ℕ} (hq : q.Prime) (c : List ℕ) (hc : ∀ p ∈ c, p.Prime)
    (hd : q ∣ prodPows c n) : q ∈ c := by
  induction c with
  | nil =>
    simp [prodPows] at hd
    exact absurd hd hq.one_lt.ne'
  | cons p c ih =>
    have hstep : prodPows (p :: c) n = p ^ mult p n * prodPows c n := rfl
    rw [hstep] at hd
    rcases (Nat.Prime.dvd_mul hq).1 hd with h | h
    · have h1 := Nat.Prime.dvd_of_dvd_pow hq h
      have := (Nat.prime_dvd_prime_iff_eq hq (hc p (by simp))).1 h1
      simp [this]
    · exact List.mem_cons_of_mem _ (ih (fun x hx => hc x (by simp [hx])) h)

lemma mem_primesOf {n : ℕ} (hn : 0 < n) (p : ℕ) : p ∈ primesOf n ↔ p.Prime ∧ p ∣ n := by
  unfold primesOf
  simp only
  split_ifs with h
  · simp only [Bool.and_eq_true, List.all_eq_true, beq_iff_eq] at h
    obtain ⟨hall, hprod⟩ := h
    constructor
    · intro hp
      exact ⟨isPrimeSq_prime (hall p hp).1, Nat.dvd_of_mod_eq_zero (hall p hp).2⟩
    · rintro ⟨hp, hd⟩
      apply mem_of_prime_dvd_prodPows hp _ (fun q hq => isPrimeSq_prime (hall q hq).1)
      rw [hprod]; exact hd
  · exact mem_primesSlow hn p

lemma mem_foldl_insertNew (l acc : List ℕ) (p : ℕ) :
    p ∈ l.foldl insertNew acc ↔ p ∈ acc ∨ p ∈ l := by
  induction l generalizing acc with
  | nil => simp
  | cons a l ih =>
    simp only [List.foldl_cons, ih, List.mem_cons]
    unfold insertNew
    split_ifs with h
    · have : a ∈ acc := by simpa using h
      constructor
      · rintro (h | h)
        · exact Or.inl h
        · exact Or.inr (Or.inr h)
      · rintro (h | rfl | h)
        · exact Or.inl h
        · exact Or.inl this
        · exact Or.inr h
    · simp only [List.mem_append, List.mem_singleton]
      tauto

lemma mem_allPrimes {bs : List ℚ} (h : ∀ b ∈ bs, b ≠ 0) (p : ℕ) :
    p ∈ allPrimes bs ↔ p.Prime ∧ ∃ b ∈ bs, p ∣ b.num.natAbs ∨ p ∣ b.den := by
  unfold allPrimes
  rw [mem_foldl_insertNew]
  simp only [List.not_mem_nil, false_or, List.mem_flatMap, List.mem_append]
  constructor
  · rintro ⟨b, hb, hp | hp⟩
    · have hnum : 0 < b.num.natAbs := Int.natAbs_pos.2 (Rat.num_ne_zero.2 (h b hb))
      have := (mem_primesOf hnum p).1 hp
      exact ⟨this.1, b, hb, Or.inl this.2⟩
    · have := (mem_primesOf b.den_pos p).1 hp
      exact ⟨this.1, b, hb, Or.inr this.2⟩
  · rintro ⟨hp, b, hb, hd | hd⟩
    · have hnum : 0 < b.num.natAbs := Int.natAbs_pos.2 (Rat.num_ne_zero.2 (h b hb))
      exact ⟨b, hb, Or.inl ((mem_primesOf hnum p).2 ⟨hp, hd⟩)⟩
    · exact ⟨b, hb, Or.inr ((mem_primesOf b.den_pos p).2 ⟨hp, hd⟩)⟩

lemma dot_vpRat_row (p : ℕ) [Fact p.Prime] {bs : List ℚ} (h : ∀ b ∈ bs, b ≠ 0) (es : List ℤ) :
    dot (bs.map (vpRat p)) es = valSum p bs es := by
  induction bs generalizing es with
  | nil => simp [valSum]
  | cons b bs ih => cases es with
    | nil => simp [valSum]
    | cons e es =>
      simp only [List.map_cons, dot_cons, valSum]
      rw [ih (fun x hx => h x (by simp [hx])), vpRat_eq p (h b (by simp))]; ring

lemma dot_signRow (bs : List ℚ) (es : List ℤ) : dot (signRow bs) es = negSum bs es := by
  induction bs generalizing es with
  | nil => simp [signRow, negSum]
  | cons b bs ih => cases es with
    | nil => simp [signRow, negSum]
    | cons e es =>
      have := ih es
      simp only [signRow] at this
      simp only [signRow, List.map_cons, dot_cons, negSum, this]
      split_ifs <;> simp

lemma padicValRat_eq_zero_of_not_dvd (p : ℕ) {b : ℚ} (h1 : ¬ p ∣ b.num.natAbs) (h2 : ¬ p ∣ b.den) :
    padicValRat p b = 0 := by
  rw [padicValRat_def, padicValNat.eq_zero_of_not_dvd h2]
  unfold padicValInt
  rw [padicValNat.eq_zero_of_not_dvd h1]; simp

lemma valSum_eq_zero_of_not_mem (p : ℕ) {bs : List ℚ}
    (hp : ∀ b ∈ bs, ¬ p ∣ b.num.natAbs ∧ ¬ p ∣ b.den) (es : List ℤ) : valSum p bs es = 0 := by
  induction bs generalizing es with
  | nil => simp [valSum]
  | cons b bs ih => cases es with
    | nil => simp [valSum]
    | cons e es =>
      simp only [valSum]
      rw [ih (fun x hx => hp x (by simp [hx])),
        padicValRat_eq_zero_of_not_dvd p (hp b (by simp)).1 (hp b (by simp)).2]
      simp

/-- the relation, expressed through the rows of the multiplicity matrix of the model -/
theorem relation_iff_rows {bs : List ℚ} (h : ∀ b ∈ bs, b ≠ 0) (es : List ℤ) :
    zprod bs es = 1 ↔ (∀ r ∈ primeRows bs, dot r es = 0) ∧ (2 : ℤ) ∣ dot (signRow bs) es := by
  rw [relation_iff_valuations h, dot_signRow, even_iff_two_dvd]
  refine and_congr_left (fun _ => ?_)
  constructor
  · intro hv r hr
    unfold primeRows at hr
    obtain ⟨p, hp, rfl⟩ := List.mem_map.1 hr
    have hpp := ((mem_allPrimes h p).1 hp).1
    have : Fact p.Prime := ⟨hpp⟩
    rw [dot_vpRat_row p h]
    exact hv p hpp
  · intro hr p hp
    have : Fact p.Prime := ⟨hp⟩
    by_cases hmem : p ∈ allPrimes bs
    · rw [← dot_vpRat_row p h]
      exact hr _ (List.mem_map.2 ⟨p, hmem, rfl⟩)
    · apply valSum_eq_zero_of_not_mem
      intro b hb
      constructor
      · intro hd; exact hmem ((mem_allPrimes h p).2 ⟨hp, b, hb, Or.inl hd⟩)
      · intro hd; exact hmem ((mem_allPrimes h p).2 ⟨hp, b, hb, Or.inr hd⟩)


/-! ### the verified basis `latticeBasis` -/

lemma dot_comb_eq_zero {k : ℕ} {r z : List ℤ} {K : List (List ℤ)} (hK : ∀ b ∈ K, b.length = k)
    (h : ∀ b ∈ K, dot r b = 0) : dot r (comb k z K) = 0 := by
  rw [dot_comb k r z K hK, dot_comm]
  apply dot_eq_zero_of_forall_zero
  intro x hx
  obtain ⟨b, hb, rfl⟩ := List.mem_map.1 hx
  exact h b hb

/-- dropping the auxiliary parity unknown `t` (first coordinate) from a basis of the augmented system -/
lemma IsBasisOf.tail_aug {n : ℕ} {rows : List (List ℤ)} {s : List ℤ} {K : List (List ℤ)}
    (hK : IsBasisOf (n + 1)
      (fun x => ∀ r ∈ rows.map (fun r => (0 : ℤ) :: r) ++ [2 :: s], dot r x = 0) K) :
    IsBasisOf n (fun e => (∀ r ∈ rows, dot r e = 0) ∧ (2 : ℤ) ∣ dot s e) (K.map List.tail) where
  len := by
    intro b hb
    obtain ⟨x, hx, rfl⟩ := List.mem_map.1 hb
    simp [hK.len x hx]
  sound := by
    intro b hb
    obtain ⟨x, hx, rfl⟩ := List.mem_map.1 hb
    have hl := hK.len x hx
    have hs := hK.sound x hx
    cases x with
    | nil => simp at hl
    | cons t e =>
      refine ⟨fun r hr => ?_, ?_⟩
      · have := hs (0 :: r) (List.mem_append_left _ (List.mem_map.2 ⟨r, hr, rfl⟩))
        simpa using this
      · have := hs (2 :: s) (by simp)
        simp only [dot_cons] at this
        exact ⟨-t, by simp only [List.tail_cons]; linarith⟩
  complete := by
    intro e he ⟨h1, ⟨m, hm⟩⟩
    have hx : ∀ r ∈ rows.map (fun r => (0 : ℤ) :: r) ++ [2 :: s], dot r ((-m) :: e) = 0 := by
      intro r hr
      rcases List.mem_append.1 hr with hr | hr
      · obtain ⟨r', hr', rfl⟩ := List.mem_map.1 hr
        simpa using h1 r' hr'
      · simp at hr; subst hr
        simp only [dot_cons]; linarith
    obtain ⟨z, hzl, hz⟩ := hK.complete ((-m) :: e) (by simp [he]) hx
    refine ⟨z, by simpa using hzl, ?_⟩
    rw [comb_map_tail n z K hK.len, hz]; rfl
  indep := by
    intro z hzl hz
    rw [comb_map_tail n z K hK.len] at hz
    have hl := length_comb (n + 1) z K hK.len
    have hker : ∀ r ∈ rows.map (fun r => (0 : ℤ) :: r) ++ [2 :: s], dot r (comb (n + 1) z K) = 0 :=
      fun r hr => dot_comb_eq_zero hK.len (fun b hb => hK.sound b hb r hr)
    cases hc : comb (n + 1) z K with
    | nil => rw [hc] at hl; simp at hl
    | cons t e =>
      rw [hc] at hz hker
      simp only [List.tail_cons] at hz
      subst hz
      have := hker (2 :: s) (by simp)
      simp only [dot_cons, dot_zeros_right, add_zero] at this
      have ht : t = 0 := by omega
      subst ht
      exact hK.indep z (by simpa using hzl) (by rw [hc]; simp)

/-- **C16 for the specification-side algorithm.**  For every list of non-zero rationals,
`latticeBasis bs` consists of exponent vectors with `∏ bᵢ^eᵢ = 1`, every integer exponent vector with
that property is an integer combination of its rows, and its rows are linearly independent. -/
theorem c16_rational (bs : List ℚ) (h : ∀ b ∈ bs, b ≠ 0) :
    IsBasisOf bs.length (fun e => zprod bs e = 1) (latticeBasis bs) := by
  have h1 := intKernel_isBasis (bs.length + 1) (augRows bs)
  have h2 := IsBasisOf.tail_aug (rows := primeRows bs) (s := signRow bs) h1
  exact h2.congr (fun e _ => (relation_iff_rows h e).symm)

example : (∀ b ∈ ([4, 1/2, -1] : List ℚ), b ≠ 0) ∧ latticeBasis [4, 1/2, -1] ≠ [] := by
  refine ⟨by simp, by decide +kernel⟩

/-! ### soundness of the verdicts of `lattice_check` -/

lemma exists_fit (k : ℕ) (B : List (List ℤ)) (hB : ∀ b ∈ B, b.length = k) (z : List ℤ) :
    ∃ z' : List ℤ, z'.length = B.length ∧ comb k z' B = comb k z B := by
  induction B generalizing z with
  | nil => exact ⟨[], rfl, by simp⟩
  | cons b bs ih =>
    have hbs : ∀ r ∈ bs, r.length = k := fun r hr => hB r (by simp [hr])
    cases z with
    | nil =>
      refine ⟨zeros (bs.length + 1), by simp, ?_⟩
      rw [comb_zeros k _ _ hB]; simp
    | cons x xs =>
      obtain ⟨z', hl, hz'⟩ := ih hbs xs
      exact ⟨x :: z', by simp [hl], by simp [hz']⟩

/-- **what a green verdict of the harness means**: if every proposed row satisfies the relation
(`relationHolds`), the rows pass `independent`, and every row of `latticeBasis bs` passes `inIntSpan`
against the proposed rows, then the proposed rows are a ℤ-basis of the exponent lattice. -/
theorem c16_check_sound (bs : List ℚ) (h : ∀ b ∈ bs, b ≠ 0) (R : List (List ℤ))
    (hsound : ∀ r ∈ R, relationHolds bs r = true)
    (hindep : independent bs.length R = true)
    (hcomplete : ∀ s ∈ latticeBasis bs, inIntSpan bs.length R s = true) :
    IsBasisOf bs.length (fun e => zprod bs e = 1) R := by
  have hlen : ∀ r ∈ R, r.length = bs.length := fun r hr => ((relationHolds_iff bs r).1 (hsound r hr)).1
  have hspec := c16_rational bs h
  refine ⟨hlen, fun r hr => ((relationHolds_iff bs r).1 (hsound r hr)).2, ?_,
    independent_sound bs.length R hlen hindep⟩
  intro x hx hrel
  obtain ⟨z, hzl, hz⟩ := hspec.complete x hx hrel
  -- every row of the specification basis is a combination of the proposed rows
  have hrows : ∀ s ∈ latticeBasis bs, ∃ y : List ℤ, y.length = R.length ∧ comb bs.length y R = s := by
    intro s hs
    obtain ⟨y, hy⟩ := inIntSpan_sound _ R s (hcomplete s hs)
    obtain ⟨y', hl, hy'⟩ := exists_fit bs.length R hlen y
    exact ⟨y', hl, hy'.trans hy⟩
  -- choose the coefficient vectors
  have hY : ∃ Y : List (List ℤ), (∀ y ∈ Y, y.length = R.length) ∧
      Y.map (fun y => comb bs.length y R) = latticeBasis bs := by
    generalize latticeBasis bs = S at hrows
    induction S with
    | nil => exact ⟨[], by simp, rfl⟩
    | cons s S ih =>
      obtain ⟨Y, hYl, hY⟩ := ih (fun s' hs' => hrows s' (by simp [hs']))
      obtain ⟨y, hyl, hy⟩ := hrows s (by simp)
      refine ⟨y :: Y, ?_, by simp [hy, hY]⟩
      intro y' hy'
      rcases List.mem_cons.1 hy' with rfl | hy'
      · exact hyl
      · exact hYl y' hy'
  obtain ⟨Y, hYl, hY⟩ := hY
  obtain ⟨z', hl', hz'⟩ := exists_fit bs.length R hlen (comb R.length z Y)
  refine ⟨z', hl', ?_⟩
  rw [hz', comb_comb bs.length R.length z Y R hYl hlen, hY, hz]


/-- **the verdicts of `lattice_check` are exact**: the three executable checks hold if and only if
the proposed rows are a ℤ-basis of the exponent lattice — no false alarms and no missed defects on the
specification side. -/
theorem c16_check_iff (bs : List ℚ) (h : ∀ b ∈ bs, b ≠ 0) (R : List (List ℤ)) :
    ((∀ r ∈ R, relationHolds bs r = true) ∧ independent bs.length R = true ∧
        ∀ s ∈ latticeBasis bs, inIntSpan bs.length R s = true) ↔
      IsBasisOf bs.length (fun e => zprod bs e = 1) R := by
  constructor
  · rintro ⟨h1, h2, h3⟩
    exact c16_check_sound bs h R h1 h2 h3
  · intro hb
    have hspec := c16_rational bs h
    refine ⟨fun r hr => (relationHolds_iff bs r).2 ⟨hb.len r hr, hb.sound r hr⟩,
      independent_complete bs.length R hb.len hb.indep, fun s hs => ?_⟩
    obtain ⟨z, hz, hzs⟩ := hb.complete s (hspec.len s hs) (hspec.sound s hs)
    exact inIntSpan_complete bs.length R hb.len s (hspec.len s hs) z hz hzs

/-- non-vacuity of `c16_check_sound` / `c16_check_iff`: the verdicts are all green for a correct answer
and not all green for the code's answer on 4, 8 -/
example : (∀ b ∈ ([4, 8, -2] : List ℚ), b ≠ 0) ∧
    (∀ r ∈ ([[3, -2, 0], [1, 0, -2]] : List (List ℤ)), relationHolds [4, 8, -2] r = true) ∧
    independent 3 [[3, -2, 0], [1, 0, -2]] = true ∧
    (∀ s ∈ latticeBasis [4, 8, -2], inIntSpan 3 [[3, -2, 0], [1, 0, -2]] s = true) ∧
    relationHolds [4, 8] [-1, 1] = false := by
  refine ⟨by simp, by decide +kernel, by decide +kernel, by decide +kernel, by decide +kernel⟩

/-! ### the coprimality shortcut `is_trivially_empty` (not taken when a base equals 1) is right -/

def numsNe1 (bs : List ℚ) : List ℤ := (bs.map (fun b => b.num)).filter (fun n => n != 1)
def densNe1 (bs : List ℚ) : List ℤ := (bs.map (fun b => (b.den : ℤ))).filter (fun d => d != 1)

lemma pairwiseCoprime_iff (l : List ℤ) :
    pairwiseCoprime l = true ↔ l.Pairwise (fun a b => Int.gcd a b = 1) := by
  induction l with
  | nil => simp [pairwiseCoprime]
  | cons a l ih =>
    simp only [pairwiseCoprime, Bool.and_eq_true, List.all_eq_true, beq_iff_eq, ih, List.pairwise_cons]

/-- the shortcut's condition in propositional form -/
structure TrivEmpty (bs : List ℚ) : Prop where
  big : ∀ b ∈ bs, b.num ≠ 1 → 1 < b.num.natAbs
  cop : (numsNe1 bs ++ densNe1 bs).Pairwise (fun a b => Int.gcd a b = 1)

lemma trivEmpty_of_isTriviallyEmpty {bs : List ℚ} (h : isTriviallyEmpty bs = true) :
    TrivEmpty bs ∧ ∀ b ∈ bs, b ≠ 1 := by
  unfold isTriviallyEmpty at h
  split_ifs at h with he hone
  · have : bs = [] := by simpa using he
    subst this
    exact ⟨⟨by simp, by simp [numsNe1, densNe1]⟩, by simp⟩
  · simp only [Bool.and_eq_true, List.all_eq_true, decide_eq_true_eq, pairwiseCoprime_iff] at h
    refine ⟨⟨fun b hb hne => ?_, h.2⟩, fun b hb hb1 => hone ?_⟩
    · apply h.1
      simp only [List.mem_filter, List.mem_map, bne_iff_ne, ne_eq]
      exact ⟨⟨b, hb, rfl⟩, hne⟩
    · simp only [List.any_eq_true, beq_iff_eq]
      exact ⟨b, hb, hb1⟩

lemma numsNe1_cons (b : ℚ) (bs : List ℚ) :
    numsNe1 (b :: bs) = (if b.num != 1 then [b.num] else []) ++ numsNe1 bs := by
  unfold numsNe1
  simp only [List.map_cons, List.filter_cons]
  split_ifs <;> simp

lemma densNe1_cons (b : ℚ) (bs : List ℚ) :
    densNe1 (b :: bs) = (if (b.den : ℤ) != 1 then [(b.den : ℤ)] else []) ++ densNe1 bs := by
  unfold densNe1
  simp only [List.map_cons, List.filter_cons]
  split_ifs <;> simp

lemma gcd_symm_rel {a b : ℤ} (h : Int.gcd a b = 1) : Int.gcd b a = 1 := by
  rw [Int.gcd_comm]; exact h

lemma TrivEmpty.tail {b : ℚ} {bs : List ℚ} (h : TrivEmpty (b :: bs)) :
    TrivEmpty bs ∧
      (∀ x ∈ numsNe1 bs ++ densNe1 bs,
        (b.num ≠ 1 → Int.gcd b.num x = 1) ∧ ((b.den : ℤ) ≠ 1 → Int.gcd (b.den : ℤ) x = 1)) := by
  have hperm : (numsNe1 (b :: bs) ++ densNe1 (b :: bs)).Perm
      (((if b.num != 1 then [b.num] else []) ++ (if (b.den : ℤ) != 1 then [(b.den : ℤ)] else [])) ++
        (numsNe1 bs ++ densNe1 bs)) := by
    rw [numsNe1_cons, densNe1_cons]
    simp only [List.append_assoc]
    apply List.Perm.append_left
    rw [← List.append_assoc, ← List.append_assoc]
    exact List.Perm.append_right _ List.perm_append_comm
  have hp := hperm.pairwise h.cop (fun {x y} hxy => gcd_symm_rel hxy)
  rw [List.pairwise_append] at hp
  obtain ⟨_, htail, hcross⟩ := hp
  refine ⟨⟨fun b' hb' => h.big b' (by simp [hb']), htail⟩, fun x hx => ⟨fun hn => ?_, fun hd => ?_⟩⟩
  · apply hcross b.num _ x hx
    simp [hn]
  · apply hcross (b.den : ℤ) _ x hx
    simp [hd]

lemma not_dvd_of_gcd_eq_one {p : ℕ} (hp : p.Prime) {a x : ℤ} (h : Int.gcd a x = 1) (ha : p ∣ a.natAbs) :
    ¬ p ∣ x.natAbs := by
  intro hx
  have : p ∣ Nat.gcd a.natAbs x.natAbs := Nat.dvd_gcd ha hx
  have h1 : Nat.gcd a.natAbs x.natAbs = 1 := h
  rw [h1] at this
  exact hp.one_lt.ne' (Nat.dvd_one.1 this)

/-- a prime that separates the first base from all the others -/
lemma exists_private_prime {b : ℚ} {bs : List ℚ} (hb1 : b ≠ 1) (h : TrivEmpty (b :: bs)) :
    ∃ p : ℕ, p.Prime ∧ padicValRat p b ≠ 0 ∧ ∀ b' ∈ bs, ¬ p ∣ b'.num.natAbs ∧ ¬ p ∣ b'.den := by
  obtain ⟨_, hcross⟩ := h.tail
  have hcop : Nat.Coprime b.num.natAbs b.den := b.reduced
  -- the others: whatever divides an element of the first base's list does not divide theirs
  have others : ∀ (p : ℕ), p.Prime → ∀ a : ℤ, p ∣ a.natAbs →
      (∀ x ∈ numsNe1 bs ++ densNe1 bs, Int.gcd a x = 1) →
      ∀ b' ∈ bs, ¬ p ∣ b'.num.natAbs ∧ ¬ p ∣ b'.den := by
    intro p hp a ha hall b' hb'
    constructor
    · by_cases h1 : b'.num = 1
      · rw [h1]; simpa using hp.one_lt.ne'
      · apply not_dvd_of_gcd_eq_one hp (hall b'.num _) ha
        apply List.mem_append_left
        simp only [numsNe1, List.mem_filter, List.mem_map, bne_iff_ne, ne_eq]
        exact ⟨⟨b', hb', rfl⟩, h1⟩
    · by_cases h1 : (b'.den : ℤ) = 1
      · have : b'.den = 1 := by exact_mod_cast h1
        rw [this]; simpa using hp.one_lt.ne'
      · have := not_dvd_of_gcd_eq_one hp (hall (b'.den : ℤ) (by
          apply List.mem_append_right
          simp only [densNe1, List.mem_filter, List.mem_map, bne_iff_ne, ne_eq]
          exact ⟨⟨b', hb', rfl⟩, h1⟩)) ha
        simpa using this
  by_cases hn : b.num = 1
  · -- numerator 1: the denominator is not 1
    have hd : b.den ≠ 1 := by
      intro hd
      apply hb1
      rw [← Rat.num_div_den b, hn, hd]; simp
    obtain ⟨p, hp, hpd⟩ := Nat.exists_prime_and_dvd hd
    have : Fact p.Prime := ⟨hp⟩
    refine ⟨p, hp, ?_, ?_⟩
    · rw [padicValRat_def, hn]
      have := (dvd_iff_padicValNat_ne_zero b.den_nz).1 hpd
      rw [padicValInt.one]
      intro h0
      have h2 : (padicValNat p b.den : ℤ) = 0 := by
        simp only [Nat.cast_zero, zero_sub, neg_eq_zero] at h0
        exact h0
      exact this (by exact_mod_cast h2)
    · have hd' : (b.den : ℤ) ≠ 1 := by exact_mod_cast hd
      exact others p hp (b.den : ℤ) (by simpa using hpd) (fun x hx => (hcross x hx).2 hd')
  · have hbig := h.big b (by simp) hn
    obtain ⟨p, hp, hpd⟩ := Nat.exists_prime_and_dvd (by omega : b.num.natAbs ≠ 1)
    have : Fact p.Prime := ⟨hp⟩
    have hnd : ¬ p ∣ b.den := fun hd => hp.one_lt.ne' (Nat.eq_one_of_dvd_coprimes hcop hpd hd)
    refine ⟨p, hp, ?_, others p hp b.num hpd (fun x hx => (hcross x hx).1 hn)⟩
    rw [padicValRat_def, padicValNat.eq_zero_of_not_dvd hnd]
    have hnum0 : b.num.natAbs ≠ 0 := by omega
    have := (dvd_iff_padicValNat_ne_zero hnum0).1 hpd
    unfold padicValInt
    simp only [Nat.cast_zero, sub_zero, ne_eq]
    exact_mod_cast this

/-- if the shortcut fires and no base is 1, the only relation is the trivial one -/
theorem trivEmpty_only_zero {bs : List ℚ} (h0 : ∀ b ∈ bs, b ≠ 0) (h1 : ∀ b ∈ bs, b ≠ 1)
    (ht : TrivEmpty bs) (es : List ℤ) (hl : es.length = bs.length) (hrel : zprod bs es = 1) :
    ∀ c ∈ es, c = 0 := by
  induction bs generalizing es with
  | nil =>
    have : es = [] := List.length_eq_zero_iff.1 (by simpa using hl)
    subst this; simp
  | cons b bs ih =>
    cases es with
    | nil => simp at hl
    | cons e es =>
      simp only [List.length_cons, add_left_inj] at hl
      obtain ⟨p, hp, hv, hothers⟩ := exists_private_prime (h1 b (by simp)) ht
      have hval := ((relation_iff_valuations h0 (e :: es)).1 hrel).1 p hp
      simp only [valSum] at hval
      rw [valSum_eq_zero_of_not_mem p hothers, add_zero] at hval
      have he : e = 0 := by
        rcases mul_eq_zero.1 hval with h | h
        · exact h
        · exact absurd h hv
      subst he
      have hrel' : zprod bs es = 1 := by simpa using hrel
      intro c hc
      rcases List.mem_cons.1 hc with rfl | hc
      · rfl
      · exact ih (fun x hx => h0 x (by simp [hx])) (fun x hx => h1 x (by simp [hx])) ht.tail.1 es hl hrel' c hc

/-- **the shortcut as coded is right**: when `is_trivially_empty` fires the exponent lattice is
trivial, i.e. the empty list is a basis. -/
theorem isTriviallyEmpty_sound (bs : List ℚ) (h0 : ∀ b ∈ bs, b ≠ 0) (ht : isTriviallyEmpty bs = true) :
    IsBasisOf bs.length (fun e => zprod bs e = 1) [] := by
  obtain ⟨hte, h1⟩ := trivEmpty_of_isTriviallyEmpty ht
  refine ⟨by simp, by simp, fun x hx hrel => ⟨[], rfl, ?_⟩, fun z hz _ c hc => ?_⟩
  · have := trivEmpty_only_zero h0 h1 hte x hx hrel
    rw [comb_nil_left, ← hx]
    exact (eq_zeros_of_forall this).symm
  · have : z = [] := List.length_eq_zero_iff.1 (by simpa using hz)
    subst this; simp at hc

example : (∀ b ∈ ([4, 9/5, 1/7] : List ℚ), b ≠ 0) ∧ isTriviallyEmpty [4, 9/5, 1/7] = true ∧
    isTriviallyEmpty [4, 1, 1/7] = false := by
  refine ⟨by simp, by decide +kernel, by decide +kernel⟩

/-! ### the algorithm as coded: `compute_basis_rational` with `_integer_kernel` -/

lemma dot_append_singleton (r e : List ℤ) (a t : ℤ) (h : r.length = e.length) :
    dot (r ++ [a]) (e ++ [t]) = dot r e + a * t := by
  induction r generalizing e with
  | nil =>
    have : e = [] := List.length_eq_zero_iff.1 h.symm
    subst this; simp
  | cons x xs ih =>
    cases e with
    | nil => simp at h
    | cons y ys =>
      simp at h
      simp [ih ys h]; ring

lemma take_vadd (n : ℕ) (a b : List ℤ) : (vadd a b).take n = vadd (a.take n) (b.take n) := by
  induction a generalizing b n with
  | nil => simp
  | cons x xs ih =>
    cases b with
    | nil => simp
    | cons y ys =>
      cases n with
      | zero => simp
      | succ n => simp [ih]

lemma take_zeros (n : ℕ) : (zeros (n + 1)).take n = zeros n := by
  simp [zeros, List.take_replicate]

lemma comb_map_take (n : ℕ) (z : List ℤ) (K : List (List ℤ)) :
    comb n z (K.map (fun v => v.take n)) = (comb (n + 1) z K).take n := by
  induction z generalizing K with
  | nil => rw [comb_nil_left, comb_nil_left, take_zeros]
  | cons x xs ih =>
    cases K with
    | nil => rw [List.map_nil, comb_nil_right, comb_nil_right, take_zeros]
    | cons k ks => simp only [List.map_cons, comb_cons, take_vadd, take_smul, ih ks]

/-- dropping the parity unknown `t` (last coordinate) from a basis of the system built by the code -/
lemma IsBasisOf.take_aug {n : ℕ} {rows : List (List ℤ)} {s : List ℤ} {K : List (List ℤ)}
    (hrows : ∀ r ∈ rows, r.length = n) (hs : s.length = n)
    (hK : IsBasisOf (n + 1)
      (fun x => ∀ r ∈ rows.map (fun r => r ++ [(0 : ℤ)]) ++ [s ++ [2]], dot r x = 0) K) :
    IsBasisOf n (fun e => (∀ r ∈ rows, dot r e = 0) ∧ (2 : ℤ) ∣ dot s e)
      (K.map (fun v => v.take n)) where
  len := by
    intro b hb
    obtain ⟨x, hx, rfl⟩ := List.mem_map.1 hb
    simp [hK.len x hx]
  sound := by
    intro b hb
    obtain ⟨x, hx, rfl⟩ := List.mem_map.1 hb
    have hl := hK.len x hx
    have hsnd := hK.sound x hx
    have hsplit := eq_take_append_getD x n hl
    have htl : (x.take n).length = n := by simp [hl]
    refine ⟨fun r hr => ?_, ?_⟩
    · have := hsnd (r ++ [0]) (List.mem_append_left _ (List.mem_map.2 ⟨r, hr, rfl⟩))
      rw [hsplit, dot_append_singleton _ _ _ _ (by rw [hrows r hr, htl])] at this
      simpa using this
    · have := hsnd (s ++ [2]) (by simp)
      rw [hsplit, dot_append_singleton _ _ _ _ (by rw [hs, htl])] at this
      exact ⟨-(x.getD n 0), by linarith⟩
  complete := by
    intro e he ⟨h1, ⟨m, hm⟩⟩
    have hx : ∀ r ∈ rows.map (fun r => r ++ [(0 : ℤ)]) ++ [s ++ [2]], dot r (e ++ [-m]) = 0 := by
      intro r hr
      rcases List.mem_append.1 hr with hr | hr
      · obtain ⟨r', hr', rfl⟩ := List.mem_map.1 hr
        rw [dot_append_singleton _ _ _ _ (by rw [hrows r' hr', he]), h1 r' hr']; simp
      · simp at hr; subst hr
        rw [dot_append_singleton _ _ _ _ (by rw [hs, he]), hm]; ring
    obtain ⟨z, hzl, hz⟩ := hK.complete (e ++ [-m]) (by simp [he]) hx
    refine ⟨z, by simpa using hzl, ?_⟩
    rw [comb_map_take, hz, ← he]; simp
  indep := by
    intro z hzl hz
    rw [comb_map_take] at hz
    have hl := length_comb (n + 1) z K hK.len
    have hker : ∀ r ∈ rows.map (fun r => r ++ [(0 : ℤ)]) ++ [s ++ [2]], dot r (comb (n + 1) z K) = 0 :=
      fun r hr => dot_comb_eq_zero hK.len (fun b hb => hK.sound b hb r hr)
    have hsplit := eq_take_append_getD (comb (n + 1) z K) n hl
    rw [hz] at hsplit
    have h2 := hker (s ++ [2]) (by simp)
    rw [hsplit, dot_append_singleton _ _ _ _ (by simp [hs])] at h2
    simp only [dot_zeros_right, zero_add] at h2
    have ht : (comb (n + 1) z K).getD n 0 = 0 := by omega
    rw [ht] at hsplit
    have hzero : comb (n + 1) z K = zeros (n + 1) := by
      rw [hsplit]; simp [zeros, List.replicate_succ']
    exact hK.indep z (by simpa using hzl) hzero

lemma length_primeRows (bs : List ℚ) : ∀ r ∈ primeRows bs, r.length = bs.length := by
  intro r hr
  obtain ⟨p, _, rfl⟩ := List.mem_map.1 hr
  simp

/-- `compute_basis_rational` as coded returns a ℤ-basis of the exponent lattice -/
theorem rationalBasisAsCoded_isBasis (bs : List ℚ) (h : ∀ b ∈ bs, b ≠ 0) :
    IsBasisOf bs.length (fun e => zprod bs e = 1) (rationalBasisAsCoded bs) := by
  have h1 := integerKernelAsCoded_isBasis (equationsAsCoded bs) (bs.length + 1)
  have h2 := IsBasisOf.take_aug (rows := primeRows bs) (s := signRow bs) (length_primeRows bs)
    (by simp [signRow]) h1
  exact h2.congr (fun e _ => (relation_iff_rows h e).symm)

/-- **C16 for the code's algorithm.**  For every list of non-zero rationals, what
`ExponentLattice(bs).compute_basis()` computes (shortcut `is_trivially_empty`, otherwise the
multiplicity/parity system reduced by `_integer_kernel` — model `latticeAsCoded`, tied to the code
row for row by the correspondence run) is a ℤ-basis of the exponent lattice: every row `e` satisfies
`∏ bᵢ^eᵢ = 1`, every integer exponent vector with that property is an integer combination of the rows,
and the rows are linearly independent. -/
theorem c16_code_correct (bs : List ℚ) (h : ∀ b ∈ bs, b ≠ 0) :
    IsBasisOf bs.length (fun e => zprod bs e = 1) (latticeAsCoded bs) := by
  unfold latticeAsCoded
  split_ifs with ht
  · exact isTriviallyEmpty_sound bs h ht
  · exact rationalBasisAsCoded_isBasis bs h

/-- the three clauses of the property, spelled out -/
theorem c16_code_correct_clauses (bs : List ℚ) (h : ∀ b ∈ bs, b ≠ 0) :
    (∀ e ∈ latticeAsCoded bs, e.length = bs.length ∧ zprod bs e = 1) ∧
    (∀ x : List ℤ, x.length = bs.length → zprod bs x = 1 →
      ∃ z : List ℤ, z.length = (latticeAsCoded bs).length ∧ comb bs.length z (latticeAsCoded bs) = x) ∧
    (∀ z : List ℤ, z.length = (latticeAsCoded bs).length →
      comb bs.length z (latticeAsCoded bs) = zeros bs.length → ∀ c ∈ z, c = 0) :=
  let hb := c16_code_correct bs h
  ⟨fun e he => ⟨hb.len e he, hb.sound e he⟩, hb.complete, hb.indep⟩

/-- non-vacuity, and the former counterexample inputs (regression): the coded algorithm now returns
correct bases on 4, 8 / 4, 1/2 / 9, 27, 3 / 1, 2 -/
example : (∀ b ∈ ([4, 8] : List ℚ), b ≠ 0) ∧
    latticeAsCoded [4, 8] = [[3, -2]] ∧ latticeAsCoded [4, 1/2] = [[1, 2]] ∧
    latticeAsCoded [1, 2] = [[1, 0]] ∧ (latticeAsCoded [9, 27, 3]).length = 2 := by
  refine ⟨by simp, by decide +kernel, by decide +kernel, by decide +kernel, by decide +kernel⟩

end Polar.Lattice
