import Polar.Invariant
import PolarProofs.LinAlgBridge
import PolarProofs.InvariantCert
import Mathlib.RingTheory.Ideal.Maps
import Mathlib.Algebra.MvPolynomial.CommRing
import Mathlib.Tactic

/-!
# C06 / C07: soundness of the invariant validators of `Polar/Invariant.lean`

* `IsHom R φ` / `Interp R φ` : the operations record `R : RingOps α` is interpreted in a commutative
  ℚ-algebra `K` by a (injective) map `φ` (`ratInterp`: ℚ → ℚ, `qdInterp D`: pairs → ℚ[x]/(x² − D),
  `qdHomAlg`: pairs → any ℚ-algebra with a square root of `D`).
* `evalK_substPoly` : the term list `substPoly R cfs p` denotes `p(f₁(n),…,f_k(n))`
  (`aevalP` of `PolarProofs/InvariantCert.lean`, i.e. `MvPolynomial.aeval`, `aeval_toMv`).
* `checkInvariant_sound` : no failing `n` on the window ⇒ `p(f(n)) = 0` for **every** `n ≥ n₀`
  (`CFin.expPoly_vanish` on the grouped shape of the normalised product term list).
* `c06_ideal_sound`, `latticeGen_vanishes_iff`, `latticeGenInv_vanishes` : the ideal-theoretic skeleton
  of `InvariantIdeal.compute_basis` (generators vanish ⇒ the ideal vanishes; lattice binomials vanish
  iff the exponent vector is a multiplicative relation — soundness reduces to C16).
* `relations_in_kernel`, `c07_validator_sound` : every polynomial of degree ≤ k in the goals that
  vanishes on the sequences for all `n ≥ n₀` lies in `Ideal.span` of the reported basis whenever
  `relationsCheck` accepts; `kernel_vector_is_relation` is the converse direction for the window
  (a kernel vector of the window matrix is a relation for all `n ≥ n₀`), so a rejected instance has
  a genuine witness.
-/

open Polynomial CFin Polar.LinAlg

set_option linter.unusedSectionVars false

namespace Polar.Inv

variable {α : Type} {K : Type*} [CommRing K] [Algebra ℚ K]

/-! ## interpretations of a coefficient domain -/

/-- `φ` respects the operations of `R` -/
structure IsHom (R : RingOps α) (φ : α → K) : Prop where
  map_zero : φ R.zero = 0
  map_one : φ R.one = 1
  map_add : ∀ x y, φ (R.add x y) = φ x + φ y
  map_mul : ∀ x y, φ (R.mul x y) = φ x * φ y
  map_ofRat : ∀ r : ℚ, φ (R.ofRat r) = algebraMap ℚ K r

namespace IsHom
variable {R : RingOps α} {φ : α → K} (h : IsHom R φ)
include h

lemma map_pow (x : α) (n : ℕ) : φ (R.pow x n) = φ x ^ n := by
  induction n with
  | zero => simpa [RingOps.pow] using h.map_one
  | succ n ih => rw [RingOps.pow, h.map_mul, ih, pow_succ']

lemma map_sum (l : List α) : φ (R.sum l) = (l.map φ).sum := by
  induction l with
  | nil => simpa [RingOps.sum] using h.map_zero
  | cons a l ih => rw [RingOps.sum, h.map_add, ih]; simp

end IsHom

/-- the value in `K` of a term list at `n` -/
def evalK (φ : α → K) (ts : List (GTerm α)) (n : ℕ) : K :=
  (ts.map (fun t => φ t.coef * (n : K) ^ t.deg * φ t.base ^ n)).sum

@[simp] lemma evalK_nil (φ : α → K) (n : ℕ) : evalK φ ([] : List (GTerm α)) n = 0 := rfl

@[simp] lemma evalK_cons (φ : α → K) (t : GTerm α) (ts : List (GTerm α)) (n : ℕ) :
    evalK φ (t :: ts) n = φ t.coef * (n : K) ^ t.deg * φ t.base ^ n + evalK φ ts n := by
  simp [evalK]

lemma evalK_append (φ : α → K) (ts ss : List (GTerm α)) (n : ℕ) :
    evalK φ (ts ++ ss) n = evalK φ ts n + evalK φ ss n := by
  simp [evalK]

section Hom
variable {R : RingOps α} {φ : α → K} (h : IsHom R φ)
include h

lemma IsHom.map_termEval (t : GTerm α) (n : ℕ) :
    φ (t.eval R n) = φ t.coef * (n : K) ^ t.deg * φ t.base ^ n := by
  rw [GTerm.eval, GTerm.evalP, h.map_mul, h.map_mul, h.map_ofRat, h.map_pow, _root_.map_pow, map_natCast]

/-- the executable evaluation, read in `K` -/
theorem IsHom.map_evalTerms (ts : List (GTerm α)) (n : ℕ) : φ (evalTerms R ts n) = evalK φ ts n := by
  rw [evalTerms, h.map_sum, evalK, List.map_map]
  congr 1
  exact List.map_congr_left (fun t _ => h.map_termEval t n)

lemma evalK_map_mulTerm (t : GTerm α) (ss : List (GTerm α)) (n : ℕ) :
    evalK φ (ss.map (mulTerm R t)) n = φ t.coef * (n : K) ^ t.deg * φ t.base ^ n * evalK φ ss n := by
  induction ss with
  | nil => simp
  | cons s ss ih =>
    rw [List.map_cons, evalK_cons, ih, evalK_cons]
    simp only [mulTerm, h.map_mul, pow_add, mul_pow]
    ring

theorem evalK_mulTerms (ts ss : List (GTerm α)) (n : ℕ) :
    evalK φ (mulTerms R ts ss) n = evalK φ ts n * evalK φ ss n := by
  induction ts with
  | nil => simp [mulTerms]
  | cons t ts ih => rw [mulTerms, evalK_append, evalK_map_mulTerm h, ih, evalK_cons]; ring

lemma evalK_constTerms (c : ℚ) (n : ℕ) : evalK φ (constTerms R c) n = algebraMap ℚ K c := by
  simp [constTerms, h.map_ofRat, h.map_one]

lemma evalK_scaleTerms (c : ℚ) (ts : List (GTerm α)) (n : ℕ) :
    evalK φ (scaleTerms R c ts) n = algebraMap ℚ K c * evalK φ ts n := by
  induction ts with
  | nil => simp [scaleTerms]
  | cons t ts ih =>
    have : scaleTerms R c (t :: ts) = ⟨R.mul (R.ofRat c) t.coef, t.deg, t.base⟩ :: scaleTerms R c ts := rfl
    rw [this, evalK_cons, ih, evalK_cons]
    simp only [h.map_mul, h.map_ofRat]
    ring

variable [DecidableEq α]

lemma evalK_insertG (t : GTerm α) (l : List (GTerm α)) (n : ℕ) :
    evalK φ (insertG R t l) n = φ t.coef * (n : K) ^ t.deg * φ t.base ^ n + evalK φ l n := by
  induction l with
  | nil => simp [insertG]
  | cons s l ih =>
    rw [insertG]
    split
    · rename_i hs
      rw [evalK_cons, evalK_cons]
      simp only [h.map_add, hs.1, hs.2]
      ring
    · rw [evalK_cons, ih, evalK_cons]; ring

lemma evalK_foldr_insertG (ts : List (GTerm α)) (n : ℕ) :
    evalK φ (ts.foldr (insertG R) []) n = evalK φ ts n := by
  induction ts with
  | nil => rfl
  | cons t ts ih => rw [List.foldr_cons, evalK_insertG h, ih, evalK_cons]

lemma evalK_filter_nonzero (ts : List (GTerm α)) (n : ℕ) :
    evalK φ (ts.filter (fun t => !(t.coef == R.zero))) n = evalK φ ts n := by
  induction ts with
  | nil => rfl
  | cons t ts ih =>
    rw [List.filter_cons]
    split
    · rw [evalK_cons, ih, evalK_cons]
    · rename_i hz
      have hz' : t.coef = R.zero := by simpa using hz
      rw [ih, evalK_cons, hz', h.map_zero]; ring

/-- normalisation does not change the value -/
theorem evalK_normTerms (ts : List (GTerm α)) (n : ℕ) : evalK φ (normTerms R ts) n = evalK φ ts n := by
  rw [normTerms, evalK_filter_nonzero h, evalK_foldr_insertG h]

theorem evalK_powTerms (ts : List (GTerm α)) (k n : ℕ) :
    evalK φ (powTerms R ts k) n = evalK φ ts n ^ k := by
  induction k with
  | zero => rw [powTerms, evalK_constTerms h]; simp
  | succ k ih => rw [powTerms, evalK_normTerms h, evalK_mulTerms h, ih, pow_succ']

/-- the term list of a monomial in the goals denotes the monomial of the goal values -/
theorem evalK_substMono (cfs : Env α) (m : Mono) (n : ℕ) :
    evalK φ (substMono R cfs m) n = aevalMono (fun g => evalK φ (envOf cfs g) n) m := by
  induction m with
  | nil => rw [substMono, evalK_constTerms h]; simp
  | cons p m ih =>
    obtain ⟨x, k⟩ := p
    rw [substMono, evalK_normTerms h, evalK_mulTerms h, evalK_powTerms h, ih, aevalMono_cons]

/-- **`substPoly` is the evaluation homomorphism**: the term list of `p(f₁,…,f_k)` denotes the value
of `p` at the goal values. -/
theorem evalK_substPoly (cfs : Env α) (p : MPoly) (n : ℕ) :
    evalK φ (substPoly R cfs p) n = aevalP (fun g => evalK φ (envOf cfs g) n) p := by
  induction p with
  | nil => rfl
  | cons t p ih =>
    obtain ⟨m, c⟩ := t
    rw [substPoly, evalK_append, evalK_scaleTerms h, evalK_substMono h, ih, aevalP_cons]

end Hom


/-! ## the grouped Mathlib shape of a term list -/

section Shape
variable {φ : α → K} [DecidableEq α] [DecidableEq K]

/-- the Mathlib shape of a term list: terms grouped by base -/
noncomputable def groupShapeG (φ : α → K) (ts : List (GTerm α)) : Shape K :=
  ts.foldr (fun t acc => insertT (C (φ t.coef) * X ^ t.deg, φ t.base, t.deg + 1) acc) []

theorem termSum_groupShapeG (ts : List (GTerm α)) (n : ℕ) :
    termSum (groupShapeG φ ts) n = evalK φ ts n := by
  induction ts with
  | nil => rfl
  | cons t ts ih =>
    rw [groupShapeG, List.foldr_cons, termSum_insertT, ← groupShapeG, ih, evalK_cons]
    simp [expSeq]

theorem groupShapeG_wf (ts : List (GTerm α)) : (groupShapeG φ ts).WF := by
  induction ts with
  | nil => intro t ht; simp [groupShapeG] at ht
  | cons t ts ih =>
    rw [groupShapeG, List.foldr_cons]
    exact insertT_wf (lt_of_le_of_lt (degree_C_mul_X_pow_le _ _) (by exact_mod_cast Nat.lt_succ_self _)) ih

theorem shapeKeys_groupShapeG (hinj : Function.Injective φ) (ts : List (GTerm α)) :
    shapeKeys (groupShapeG φ ts) = (shapeOfG ts).map (Prod.map φ id) := by
  induction ts with
  | nil => rfl
  | cons t ts ih =>
    rw [groupShapeG, List.foldr_cons, ← groupShapeG, shapeOfG, List.foldr_cons, ← shapeOfG]
    exact shapeKeys_insertT φ hinj _ t.base (t.deg + 1) (shapeOfG ts) (groupShapeG φ ts) ih

theorem shapeSize_groupShapeG (hinj : Function.Injective φ) (ts : List (GTerm α)) :
    shapeSize (groupShapeG φ ts) = windowOf ts := by
  rw [shapeSize_eq_shapeKeys, shapeKeys_groupShapeG hinj, windowOf, shapeSizeOf, List.map_map]
  rfl

omit [DecidableEq K] in
/-- **Vanishing on the window of the formal shape implies vanishing from the window start on.** -/
theorem evalK_vanish (hinj : Function.Injective φ) (ts : List (GTerm α)) (n₀ : ℕ)
    (hwin : ∀ j, j < windowOf ts → evalK φ ts (n₀ + j) = 0) : ∀ n, n₀ ≤ n → evalK φ ts n = 0 := by
  classical
  intro n hn
  obtain ⟨k, rfl⟩ := Nat.exists_eq_add_of_le hn
  have := expPoly_vanish (groupShapeG φ ts) (groupShapeG_wf ts) n₀ (by
    intro j hj
    rw [termSum_groupShapeG]
    exact hwin j (by rwa [shapeSize_groupShapeG hinj] at hj)) k
  rwa [termSum_groupShapeG] at this

end Shape

/-! ## the incremental evaluation computes `evalTerms` -/

section Incremental
variable (R : RingOps α)

lemma evalWith_powsAt (ts : List (GTerm α)) (n : ℕ) :
    evalWith R ts (powsAt R ts n) n = evalTerms R ts n := by
  induction ts with
  | nil => rfl
  | cons t ts ih =>
    show R.add (t.evalP R (R.pow t.base n) n) (evalWith R ts (powsAt R ts n) n) =
      R.add (t.eval R n) (evalTerms R ts n)
    rw [ih]; rfl

lemma stepPows_powsAt (ts : List (GTerm α)) (n : ℕ) :
    stepPows R ts (powsAt R ts n) = powsAt R ts (n + 1) := by
  induction ts with
  | nil => rfl
  | cons t ts ih =>
    show R.mul t.base (R.pow t.base n) :: stepPows R ts (powsAt R ts n) =
      R.pow t.base (n + 1) :: powsAt R ts (n + 1)
    rw [ih]; rfl

lemma valuesFrom_powsAt (ts : List (GTerm α)) : ∀ (k n : ℕ),
    valuesFrom R ts (powsAt R ts n) n k = (List.range k).map (fun j => evalTerms R ts (n + j))
  | 0, _ => rfl
  | k + 1, n => by
    rw [valuesFrom, evalWith_powsAt, stepPows_powsAt, valuesFrom_powsAt ts k (n + 1),
      List.range_succ_eq_map, List.map_cons, List.map_map]
    refine congrArg₂ _ rfl (List.map_congr_left (fun j _ => ?_))
    simp [Nat.add_assoc, Nat.add_comm 1 j]

/-- `valuesOn` lists the values `g(n₀), …, g(n₀+k-1)` -/
theorem valuesOn_eq (ts : List (GTerm α)) (n₀ k : ℕ) :
    valuesOn R ts n₀ k = (List.range k).map (fun j => evalTerms R ts (n₀ + j)) :=
  valuesFrom_powsAt R ts k n₀

lemma valuesOn_getD (ts : List (GTerm α)) (n₀ k j : ℕ) (hj : j < k) (d : α) :
    (valuesOn R ts n₀ k).getD j d = evalTerms R ts (n₀ + j) := by
  rw [valuesOn_eq]; simp [List.getD_eq_getElem?_getD, hj]

lemma firstNonzero_none [DecidableEq α] (z : α) : ∀ (vs : List α) (n : ℕ),
    firstNonzero z vs n = none → ∀ v ∈ vs, v = z
  | [], _, _, v, hv => by simp at hv
  | w :: vs, n, h, v, hv => by
    rw [firstNonzero] at h
    split at h
    · rename_i hw
      rcases List.mem_cons.mp hv with rfl | hv
      · exact hw
      · exact firstNonzero_none z vs (n + 1) h v hv
    · cases h

lemma firstNonzero_some [DecidableEq α] (z : α) : ∀ (vs : List α) (n m : ℕ) (x : α),
    firstNonzero z vs n = some (m, x) → ∃ j, j < vs.length ∧ m = n + j ∧ vs[j]? = some x ∧ x ≠ z
  | [], _, _, _, h => by simp [firstNonzero] at h
  | w :: vs, n, m, x, h => by
    rw [firstNonzero] at h
    split at h
    · obtain ⟨j, hj, hm, hx, hne⟩ := firstNonzero_some z vs (n + 1) m x h
      exact ⟨j + 1, by simpa using hj, by omega, by simpa using hx, hne⟩
    · rename_i hw
      simp only [Option.some.injEq, Prod.mk.injEq] at h
      obtain ⟨rfl, rfl⟩ := h
      exact ⟨0, by simp, rfl, by simp, hw⟩

/-- what a passing `checkInvariant` has tested -/
theorem checkInvariant_window [DecidableEq α] (p : MPoly) (cfs : Env α) (n₀ : ℕ)
    (h : (checkInvariant R p cfs n₀).2.2 = none) :
    ∀ j, j < windowOf (normTerms R (substPoly R cfs p)) →
      evalTerms R (normTerms R (substPoly R cfs p)) (n₀ + j) = R.zero := by
  intro j hj
  simp only [checkInvariant] at h
  refine firstNonzero_none R.zero _ n₀ h _ ?_
  rw [valuesOn_eq]
  exact List.mem_map.mpr ⟨j, List.mem_range.mpr hj, rfl⟩

/-- **no false alarms**: a reported failing index is a genuine one -/
theorem checkInvariant_complete [DecidableEq α] (p : MPoly) (cfs : Env α) (n₀ m : ℕ) (x : α)
    (h : (checkInvariant R p cfs n₀).2.2 = some (m, x)) :
    n₀ ≤ m ∧ x = evalTerms R (normTerms R (substPoly R cfs p)) m ∧ x ≠ R.zero := by
  simp only [checkInvariant] at h
  obtain ⟨j, hj, hm, hx, hne⟩ := firstNonzero_some R.zero _ n₀ m x h
  rw [valuesOn_eq] at hx hj
  simp only [List.length_map, List.length_range] at hj
  simp only [List.getElem?_map, List.getElem?_range hj, Option.map_some, Option.some.injEq] at hx
  exact ⟨by omega, by rw [hm, ← hx], hne⟩

end Incremental

/-! ## soundness of `checkInvariant` -/

/-- an injective interpretation whose rational coordinates are ℚ-linear -/
structure Interp (R : RingOps α) (φ : α → K) : Prop where
  hom : IsHom R φ
  inj : Function.Injective φ
  lin : ∀ (xs : List ℚ) (vs : List α),
    (List.zipWith (fun x v => algebraMap ℚ K x * φ v) xs vs).sum = 0 →
      ∀ i, i < R.ncomp → dot xs (vs.map (fun v => (R.comps v).getD i 0)) = 0
  colin : ∀ (xs : List ℚ) (vs : List α),
    (∀ i, i < R.ncomp → dot xs (vs.map (fun v => (R.comps v).getD i 0)) = 0) →
      (List.zipWith (fun x v => algebraMap ℚ K x * φ v) xs vs).sum = 0

section Sound
variable {R : RingOps α} {φ : α → K} [DecidableEq α]
variable {L : Type*} [CommRing L] [Algebra ℚ L] {ψ : α → L}

/-- a passing check makes the *executable* value zero for every `n ≥ n₀` -/
theorem checkInvariant_zero (I : Interp R φ) (p : MPoly) (cfs : Env α) (n₀ : ℕ)
    (h : (checkInvariant R p cfs n₀).2.2 = none) :
    ∀ n, n₀ ≤ n → evalTerms R (normTerms R (substPoly R cfs p)) n = R.zero := by
  intro n hn
  apply I.inj
  rw [I.hom.map_evalTerms, I.hom.map_zero]
  exact evalK_vanish I.inj _ n₀ (fun j hj => by
    rw [← I.hom.map_evalTerms, checkInvariant_window R p cfs n₀ h j hj, I.hom.map_zero]) n hn

/-- **Soundness of `checkInvariant`, read through any homomorphism `ψ`** (e.g. pairs → ℝ):
if the check reports no failing index on its window then `p(f₁(n),…,f_k(n)) = 0` for every `n ≥ n₀`,
where `f_g(n) = Σ ψ(coef)·n^deg·ψ(base)^n` is the closed form of goal `g`. -/
theorem checkInvariant_sound_hom (I : Interp R φ) (H : IsHom R ψ) (p : MPoly) (cfs : Env α) (n₀ : ℕ)
    (h : (checkInvariant R p cfs n₀).2.2 = none) :
    ∀ n, n₀ ≤ n → aevalP (fun g => evalK ψ (envOf cfs g) n) p = 0 := by
  intro n hn
  rw [← evalK_substPoly H, ← evalK_normTerms H, ← H.map_evalTerms,
    checkInvariant_zero I p cfs n₀ h n hn, H.map_zero]

/-- **`checkInvariant_sound`** (C06 validator): verdict true ⇒ `∀ n ≥ n₀, p(f(n)) = 0`. -/
theorem checkInvariant_sound (I : Interp R φ) (p : MPoly) (cfs : Env α) (n₀ : ℕ)
    (h : (checkInvariant R p cfs n₀).2.2 = none) :
    ∀ n, n₀ ≤ n → aevalP (fun g => evalK φ (envOf cfs g) n) p = 0 :=
  checkInvariant_sound_hom I I.hom p cfs n₀ h

/-- the same in Mathlib's language: the evaluation homomorphism `MvPolynomial.aeval` at the goal values
kills the polynomial -/
theorem checkInvariant_sound_aeval (I : Interp R φ) (p : MPoly) (cfs : Env α) (n₀ : ℕ)
    (h : (checkInvariant R p cfs n₀).2.2 = none) :
    ∀ n, n₀ ≤ n → MvPolynomial.aeval (fun g => evalK φ (envOf cfs g) n) (toMv p) = 0 := by
  intro n hn
  rw [aeval_toMv]; exact checkInvariant_sound I p cfs n₀ h n hn

end Sound

/-! ## the two coefficient domains -/

lemma dot_eq_zipWith_sum : ∀ (xs ys : List ℚ), dot xs ys = (List.zipWith (fun x y => x * y) xs ys).sum
  | [], _ => by simp [dot]
  | _ :: _, [] => by simp [dot]
  | x :: xs, y :: ys => by simp [dot, dot_eq_zipWith_sum xs ys]

lemma ratHom : IsHom (K := ℚ) ratOps (fun x : ℚ => x) :=
  ⟨rfl, rfl, fun _ _ => rfl, fun _ _ => rfl, fun _ => by simp [ratOps]⟩

/-- ℚ interpreted in itself -/
theorem ratInterp : Interp (K := ℚ) ratOps (fun x : ℚ => x) where
  hom := ratHom
  inj := fun _ _ h => h
  lin := by
    intro xs vs h i hi
    have hi0 : i = 0 := by simpa [ratOps] using hi
    subst hi0
    rw [dot_eq_zipWith_sum, List.zipWith_map_right]
    simpa [ratOps] using h
  colin := by
    intro xs vs h
    have := h 0 (by simp [ratOps])
    rw [dot_eq_zipWith_sum, List.zipWith_map_right] at this
    simpa [ratOps] using this

lemma QD.toQA_re (D : ℚ) (v : QD) : (QD.toQA D v).re = v.1 := rfl
lemma QD.toQA_im (D : ℚ) (v : QD) : (QD.toQA D v).im = v.2 := rfl

lemma qdHom (D : ℚ) : IsHom (qdOps D) (QD.toQA D) :=
  ⟨by ext <;> simp [qdOps, QD.toQA],
   by ext <;> simp [qdOps, QD.toQA, QuadraticAlgebra.re_one, QuadraticAlgebra.im_one],
   QD.toQA_add D, QD.toQA_mul D, QD.toQA_ofRat D⟩

lemma qd_sum_re_im (D : ℚ) : ∀ (xs : List ℚ) (vs : List QD),
    ((List.zipWith (fun x v => algebraMap ℚ (QuadraticAlgebra ℚ D 0) x * QD.toQA D v) xs vs).sum).re =
        dot xs (vs.map (fun v => v.1)) ∧
    ((List.zipWith (fun x v => algebraMap ℚ (QuadraticAlgebra ℚ D 0) x * QD.toQA D v) xs vs).sum).im =
        dot xs (vs.map (fun v => v.2))
  | [], _ => by simp [dot]
  | _ :: _, [] => by simp [dot]
  | x :: xs, v :: vs => by
    obtain ⟨h1, h2⟩ := qd_sum_re_im D xs vs
    simp [dot, h1, h2, QD.toQA_re, QD.toQA_im, QuadraticAlgebra.algebraMap_re]

/-- pairs `a + b√D` interpreted in `ℚ[x]/(x² − D)` -/
theorem qdInterp (D : ℚ) : Interp (qdOps D) (QD.toQA D) where
  hom := qdHom D
  inj := QD.toQA_injective D
  lin := by
    intro xs vs h i hi
    obtain ⟨h1, h2⟩ := qd_sum_re_im D xs vs
    rw [h] at h1 h2
    have hi2 : i < 2 := hi
    interval_cases i
    · simpa [qdOps] using h1.symm
    · simpa [qdOps] using h2.symm
  colin := by
    intro xs vs h
    obtain ⟨h1, h2⟩ := qd_sum_re_im D xs vs
    have e0 := h 0 (by simp [qdOps])
    have e1 := h 1 (by simp [qdOps])
    ext
    · rw [h1]; simpa [qdOps] using e0
    · rw [h2]; simpa [qdOps] using e1

/-- pairs read in any commutative ℚ-algebra with a square root `s` of `D` (ℝ, ℂ, a number field) -/
lemma qdHomAlg {L : Type*} [CommRing L] [Algebra ℚ L] (D : ℚ) (s : L) (hs : s * s = algebraMap ℚ L D) :
    IsHom (qdOps D) (QD.toAlg s) :=
  ⟨by simp [qdOps, QD.toAlg], by simp [qdOps, QD.toAlg], QD.toAlg_add s, QD.toAlg_mul D s hs,
    QD.toAlg_ofRat s⟩

/-- **C06 validator, rational bases**, stated with the model's own `MPoly.eval`:
`p(f₁(n),…,f_k(n)) = 0` for every `n ≥ n₀`, `f_g(n) = Σ coef·n^deg·base^n`. -/
theorem checkInvariant_sound_rat (p : MPoly) (cfs : Env ℚ) (n₀ : ℕ)
    (h : (checkInvariant ratOps p cfs n₀).2.2 = none) :
    ∀ n, n₀ ≤ n → MPoly.eval (fun g => evalTerms ratOps (envOf cfs g) n) p = 0 := by
  intro n hn
  have := checkInvariant_sound ratInterp p cfs n₀ h n hn
  rw [aevalP_eq_eval] at this
  simpa [ratHom.map_evalTerms] using this

/-- **C06 validator, bases in ℚ(√D)**, read in a ℚ-algebra `L` with `s² = D` (`L = ℝ`, `s = √D`;
`L = ℂ`, `s = i√|D|`): the real / complex exponential polynomial `p(f(n))` vanishes for `n ≥ n₀`. -/
theorem checkInvariantQD_sound_alg {L : Type*} [CommRing L] [Algebra ℚ L] (D : ℚ) (s : L)
    (hs : s * s = algebraMap ℚ L D) (p : MPoly) (cfs : Env QD) (n₀ : ℕ)
    (h : (checkInvariant (qdOps D) p cfs n₀).2.2 = none) :
    ∀ n, n₀ ≤ n → aevalP (fun g => evalK (QD.toAlg s) (envOf cfs g) n) p = 0 :=
  checkInvariant_sound_hom (qdInterp D) (qdHomAlg D s hs) p cfs n₀ h


/-! ## the ideal-theoretic skeleton of `InvariantIdeal.compute_basis` (C06) -/

/-- **`c06_ideal_sound`**: if every generator of an ideal vanishes under a ring homomorphism `φ`
(here: the evaluation `φ_n : n ↦ n, b_r ↦ r^n, g ↦ f_g(n)`), so does every element of the ideal —
in particular every element of any basis of the elimination ideal that a Gröbner computation returns.
This reduces the soundness of the Gröbner / elimination step to the soundness of the generators. -/
theorem c06_ideal_sound {A B : Type*} [CommRing A] [CommRing B] (φ : A →+* B) (gens : Set A)
    (h : ∀ g ∈ gens, φ g = 0) : ∀ p ∈ Ideal.span gens, φ p = 0 := by
  intro p hp
  have hle : Ideal.span gens ≤ RingHom.ker φ :=
    Ideal.span_le.mpr (fun g hg => (RingHom.mem_ker).mpr (h g hg))
  exact (RingHom.mem_ker).mp (hle hp)

/-- the same for the family of evaluations `φ_n = aeval (σ n)`, `n ≥ n₀` -/
theorem c06_ideal_sound_seq {ι : Type*} (σ : ℕ → ι → K) (gens : Set (MvPolynomial ι ℚ)) (n₀ : ℕ)
    (h : ∀ g ∈ gens, ∀ n, n₀ ≤ n → MvPolynomial.aeval (σ n) g = 0) :
    ∀ p ∈ Ideal.span gens, ∀ n, n₀ ≤ n → MvPolynomial.aeval (σ n) p = 0 :=
  fun p hp n hn =>
    c06_ideal_sound (MvPolynomial.aeval (σ n) : MvPolynomial ι ℚ →ₐ[ℚ] K).toRingHom gens
      (fun g hg => h g hg n hn) p hp

section LatticeGen
open MvPolynomial
variable {F : Type*} [Field F] [Algebra ℚ F] {k : ℕ}

lemma zpow_eq_toNat_div (x : F) (hx : x ≠ 0) (e : ℤ) : x ^ e = x ^ e.toNat / x ^ (-e).toNat := by
  rw [eq_div_iff (pow_ne_zero _ hx), ← zpow_natCast, ← zpow_natCast, ← zpow_add₀ hx]
  congr 1
  omega

/-- **`latticeGen_vanishes_iff`**: the lattice binomial `∏ bᵢ^{e⁺ᵢ} − ∏ bᵢ^{e⁻ᵢ}` vanishes under
`bᵢ ↦ rᵢ^n` for all `n` iff `∏ rᵢ^{eᵢ} = 1`, i.e. iff `e` is in the exponent lattice (C16). -/
theorem latticeGen_vanishes_iff (r : Fin k → F) (hr : ∀ i, r i ≠ 0) (e : Fin k → ℤ) :
    (∀ n : ℕ, aeval (fun i => r i ^ n)
        ((∏ i, X i ^ (e i).toNat) - ∏ i, X i ^ (-e i).toNat : MvPolynomial (Fin k) ℚ) = 0)
      ↔ ∏ i, r i ^ e i = 1 := by
  have key : ∀ n : ℕ, aeval (fun i => r i ^ n)
      ((∏ i, X i ^ (e i).toNat) - ∏ i, X i ^ (-e i).toNat : MvPolynomial (Fin k) ℚ)
      = (∏ i, r i ^ (e i).toNat) ^ n - (∏ i, r i ^ (-e i).toNat) ^ n := by
    intro n
    simp only [map_sub, map_prod, map_pow, MvPolynomial.aeval_X]
    rw [← Finset.prod_pow, ← Finset.prod_pow]
    congr 1 <;> exact Finset.prod_congr rfl (fun i _ => pow_right_comm _ _ _)
  have hQ : (∏ i, r i ^ (-e i).toNat) ≠ 0 :=
    Finset.prod_ne_zero_iff.mpr (fun i _ => pow_ne_zero _ (hr i))
  have hrel : ∏ i, r i ^ e i = (∏ i, r i ^ (e i).toNat) / ∏ i, r i ^ (-e i).toNat := by
    rw [← Finset.prod_div_distrib]
    exact Finset.prod_congr rfl (fun i _ => zpow_eq_toNat_div _ (hr i) _)
  constructor
  · intro h
    have h1 := h 1
    rw [key, pow_one, pow_one, sub_eq_zero] at h1
    rw [hrel, h1, div_self hQ]
  · intro h n
    rw [hrel, div_eq_one_iff_eq hQ] at h
    rw [key, h, sub_self]

/-- the generators as `LatticeIdeal.compute_basis` builds them, with inverse symbols `cᵢ` (`inr i`)
for negative exponents and the relations `bᵢ·cᵢ − 1`: for a lattice vector `e` they all vanish under
`bᵢ ↦ rᵢ^n`, `cᵢ ↦ rᵢ^{-n}`. -/
theorem latticeGenInv_vanishes (r : Fin k → F) (hr : ∀ i, r i ≠ 0) (e : Fin k → ℤ)
    (he : ∏ i, r i ^ e i = 1) (n : ℕ) :
    aeval (Sum.elim (fun i => r i ^ n) (fun i => (r i)⁻¹ ^ n))
        ((∏ i, X (Sum.inl i) ^ (e i).toNat) * (∏ i, X (Sum.inr i) ^ (-e i).toNat) - 1 :
          MvPolynomial (Fin k ⊕ Fin k) ℚ) = 0 ∧
    ∀ i, aeval (Sum.elim (fun i => r i ^ n) (fun i => (r i)⁻¹ ^ n))
        (X (Sum.inl i) * X (Sum.inr i) - 1 : MvPolynomial (Fin k ⊕ Fin k) ℚ) = 0 := by
  constructor
  · simp only [map_sub, map_mul, map_prod, map_pow, MvPolynomial.aeval_X, Sum.elim_inl, Sum.elim_inr, map_one]
    rw [← Finset.prod_mul_distrib]
    have : ∀ i, (r i ^ n) ^ (e i).toNat * ((r i)⁻¹ ^ n) ^ (-e i).toNat = (r i ^ e i) ^ n := by
      intro i
      rw [zpow_eq_toNat_div _ (hr i), div_pow, inv_pow, inv_pow, ← pow_mul, ← pow_mul, ← pow_mul,
        ← pow_mul, mul_comm n, mul_comm n, div_eq_mul_inv]
    rw [Finset.prod_congr rfl (fun i _ => this i), Finset.prod_pow, he, one_pow, sub_self]
  · intro i
    simp only [map_sub, map_mul, MvPolynomial.aeval_X, Sum.elim_inl, Sum.elim_inr, map_one]
    rw [← mul_pow, mul_inv_cancel₀ (hr i), one_pow, sub_self]

end LatticeGen

/-! ## non-vacuity of the C06 validator -/

/-- `x = 2^n`, `y = 4^n`: `y − x²` passes … -/
example : (checkInvariant ratOps [([("y", 1)], 1), ([("x", 2)], -1)]
    [("x", [⟨1, 0, 2⟩]), ("y", [⟨1, 0, 4⟩])] 0).2.2 = none := by decide +kernel

/-- … hence `4^n − (2^n)² = 0` for every `n` (through `MPoly.eval`) … -/
example : ∀ n : ℕ, MPoly.eval (fun g => evalTerms ratOps
    (envOf [("x", [⟨1, 0, 2⟩]), ("y", [⟨1, 0, 4⟩])] g) n) [([("y", 1)], 1), ([("x", 2)], -1)] = 0 :=
  fun n => checkInvariant_sound_rat _ _ 0 (by decide +kernel) n (Nat.zero_le n)

/-- … while `x − y` for `x = 4^n`, `y = 8^n` (what Polar reports, finding F4) fails at `n = 1`. -/
example : (checkInvariant ratOps [([("x", 1)], 1), ([("y", 1)], -1)]
    [("x", [⟨1, 0, 4⟩]), ("y", [⟨1, 0, 8⟩])] 0).2.2 = some (1, -4) := by decide +kernel

/-- a check with a non-trivial window: `x = n·2^n`, `y = 2^n`, `z = n`: `x − y·z` (window 2 after
cancellation is 0; the un-cancelled polynomial `x − y` has window 2 and fails) -/
example : (checkInvariant ratOps [([("x", 1)], 1), ([("y", 1)], -1)]
    [("x", [⟨1, 1, 2⟩]), ("y", [⟨1, 0, 2⟩])] 0) = (2, 2, some (0, -1)) := by decide +kernel

/-- Fibonacci: `a = F_n`, `b = F_{n+1}` by Binet's formulas over ℚ(√5) -/
def fibCfs : Env QD :=
  [("a", [⟨(0, 1/5), 0, (1/2, 1/2)⟩, ⟨(0, -1/5), 0, (1/2, -1/2)⟩]),
   ("b", [⟨(1/2, 1/10), 0, (1/2, 1/2)⟩, ⟨(1/2, -1/10), 0, (1/2, -1/2)⟩])]

/-- the README invariant `a⁴ + 2a³b − a²b² − 2ab³ + b⁴ − 1` -/
def fibInv : MPoly :=
  [([("a", 4)], 1), ([("a", 3), ("b", 1)], 2), ([("a", 2), ("b", 2)], -1), ([("a", 1), ("b", 3)], -2),
   ([("b", 4)], 1), ([], -1)]

example : (checkInvariant (qdOps 5) fibInv fibCfs 0).2.2 = none := by decide +kernel

/-- the Fibonacci invariant holds for every `n`, read in ℝ with `s = √5` -/
example : ∀ n : ℕ, aevalP (fun g => evalK (QD.toAlg (Real.sqrt 5)) (envOf fibCfs g) n) fibInv = 0 :=
  fun n => checkInvariantQD_sound_alg 5 (Real.sqrt 5)
    (by rw [Real.mul_self_sqrt (by norm_num)]; simp) fibInv fibCfs 0 (by decide +kernel) n (Nat.zero_le n)

/-- the hypotheses of `latticeGen_vanishes_iff` are satisfiable: bases `(4, 8)`, `e = (3, −2)` -/
example : ∏ i : Fin 2, (![4, 8] : Fin 2 → ℚ) i ^ (![3, -2] : Fin 2 → ℤ) i = 1 := by
  simp [Fin.prod_univ_two]; norm_num


/-! ## backward extension: "vanishes for all sufficiently large n" (bases are units) -/

section Backward
variable {K' : Type*} [CommRing K']

/-- a sequence annihilated by a polynomial with invertible constant coefficient that vanishes from
some index on vanishes everywhere (run the recurrence backwards) -/
theorem eq_zero_of_ann_of_eventually {p : K'[X]} (hp0 : IsUnit (p.coeff 0)) {u : ℕ → K'}
    (h : Ann p u) (N : ℕ) (hN : ∀ n, N ≤ n → u n = 0) : ∀ n, u n = 0 := by
  have key : ∀ d n, n + d = N → u n = 0 := by
    intro d
    induction d using Nat.strong_induction_on with
    | _ d ih =>
      intro n hn
      by_cases hd : d = 0
      · exact hN n (by omega)
      have hlater : ∀ i, 0 < i → u (n + i) = 0 := by
        intro i hi
        by_cases hge : N ≤ n + i
        · exact hN _ hge
        · exact ih (d - i) (by omega) (n + i) (by omega)
      have := congrFun h n
      rw [aeval_shift_apply, Polynomial.sum_over_range' _ (by simp) (p.natDegree + 1) (by omega),
        Finset.sum_range_succ'] at this
      have hz : ∑ x ∈ Finset.range p.natDegree, p.coeff (x + 1) * u (n + (x + 1)) = 0 :=
        Finset.sum_eq_zero (fun i _ => by rw [hlater (i + 1) (Nat.succ_pos i), mul_zero])
      rw [hz, zero_add, Nat.add_zero] at this
      exact (hp0.mul_right_eq_zero).mp (by simpa using this)
  intro n
  by_cases hn : N ≤ n
  · exact hN n hn
  · exact key (N - n) n (by omega)

lemma coeff_zero_annPoly (T : Shape K') : (annPoly T).coeff 0 = (T.map (fun t => (-t.2.1) ^ t.2.2)).prod := by
  induction T with
  | nil => simp
  | cons t T ih =>
    rw [annPoly_cons, Polynomial.mul_coeff_zero, ih, List.map_cons, List.prod_cons]
    congr 1
    rw [Polynomial.coeff_zero_eq_eval_zero]
    simp

/-- an exponential polynomial whose bases are units and which vanishes from some index on is zero -/
theorem termSum_eq_zero_of_eventually (T : Shape K') (hT : T.WF) (hu : ∀ t ∈ T, IsUnit t.2.1) (N : ℕ)
    (hN : ∀ n, N ≤ n → termSum T n = 0) : ∀ n, termSum T n = 0 := by
  refine eq_zero_of_ann_of_eventually ?_ (ann_termSum hT) N hN
  rw [coeff_zero_annPoly]
  clear hN hT
  induction T with
  | nil => simp
  | cons t T ih =>
    rw [List.map_cons, List.prod_cons]
    exact ((hu t (List.mem_cons_self ..)).neg.pow _).mul
      (ih (fun s hs => hu s (List.mem_cons_of_mem _ hs)))

end Backward

section BackwardG
variable {φ : α → K} [DecidableEq α]

lemma mem_insertT_base [DecidableEq K] (t : K[X] × K × ℕ) (T : Shape K) :
    ∀ s ∈ insertT t T, s.2.1 = t.2.1 ∨ ∃ s' ∈ T, s.2.1 = s'.2.1 := by
  induction T with
  | nil =>
    intro s hs
    simp only [insertT, List.mem_singleton] at hs
    exact Or.inl (by rw [hs])
  | cons a T ih =>
    intro s hs
    rw [insertT] at hs
    split at hs
    · rcases List.mem_cons.mp hs with rfl | hs
      · exact Or.inr ⟨a, List.mem_cons_self .., rfl⟩
      · exact Or.inr ⟨s, List.mem_cons_of_mem _ hs, rfl⟩
    · rcases List.mem_cons.mp hs with rfl | hs
      · exact Or.inr ⟨s, List.mem_cons_self .., rfl⟩
      · rcases ih s hs with h | ⟨s', hs', h⟩
        · exact Or.inl h
        · exact Or.inr ⟨s', List.mem_cons_of_mem _ hs', h⟩

lemma groupShapeG_bases [DecidableEq K] (ts : List (GTerm α)) :
    ∀ s ∈ groupShapeG φ ts, ∃ t ∈ ts, s.2.1 = φ t.base := by
  induction ts with
  | nil => intro s hs; simp [groupShapeG] at hs
  | cons t ts ih =>
    intro s hs
    rw [groupShapeG, List.foldr_cons, ← groupShapeG] at hs
    rcases mem_insertT_base _ _ s hs with h | ⟨s', hs', h⟩
    · exact ⟨t, List.mem_cons_self .., h⟩
    · obtain ⟨t', ht', h'⟩ := ih s' hs'
      exact ⟨t', List.mem_cons_of_mem _ ht', h.trans h'⟩

/-- a term list with unit bases that vanishes from some index on vanishes for every `n` -/
theorem evalK_eq_zero_of_eventually (ts : List (GTerm α)) (hu : ∀ t ∈ ts, IsUnit (φ t.base)) (N : ℕ)
    (hN : ∀ n, N ≤ n → evalK φ ts n = 0) : ∀ n, evalK φ ts n = 0 := by
  classical
  intro n
  rw [← termSum_groupShapeG]
  refine termSum_eq_zero_of_eventually (groupShapeG φ ts) (groupShapeG_wf ts) ?_ N
    (fun m hm => by rw [termSum_groupShapeG]; exact hN m hm) n
  intro s hs
  obtain ⟨t, ht, h⟩ := groupShapeG_bases ts s hs
  rw [h]; exact hu t ht

end BackwardG

/-! ## C07: the relation space of bounded degree and the reported ideal -/

section C07
variable {R : RingOps α} {φ : α → K}

lemma lookup_map_snd {β γ : Type} (f : β → γ) (l : List (String × β)) (g : String) :
    (l.map (fun gc => (gc.1, f gc.2))).lookup g = (l.lookup g).map f := by
  induction l with
  | nil => rfl
  | cons a l ih =>
    obtain ⟨a1, a2⟩ := a
    cases hg : g == a1 <;> simp [List.lookup, hg, ih]

/-- the value table holds the goal values at the window points -/
lemma tableAt_valueTable (R : RingOps α) (cfs : Env α) (n₀ W j : ℕ) (hj : j < W) (g : String) :
    tableAt R (valueTable R cfs n₀ W) j g = evalTerms R (envOf cfs g) (n₀ + j) := by
  unfold tableAt valueTable envOf
  rw [lookup_map_snd (fun ts => valuesOn R ts n₀ W)]
  cases h : cfs.lookup g with
  | none => simp [evalTerms, RingOps.sum]
  | some ts =>
    show ((some (valuesOn R ts n₀ W)).getD []).getD j R.zero = evalTerms R ((some ts).getD []) (n₀ + j)
    exact valuesOn_getD R ts n₀ W j hj R.zero

lemma IsHom.map_monoVal (h : IsHom R φ) (σ : String → α) (m : Mono) :
    φ (monoVal R σ m) = aevalMono (fun g => φ (σ g)) m := by
  induction m with
  | nil => simpa [monoVal] using h.map_one
  | cons p m ih =>
    obtain ⟨x, k⟩ := p
    rw [monoVal, h.map_mul, h.map_pow, ih, aevalMono_cons]

/-- the rows of the evaluation matrix -/
lemma mem_evalMatrix {cfs : Env α} {monos : List Mono} {n₀ W : ℕ} {row : List ℚ}
    (h : row ∈ evalMatrix R cfs monos n₀ W) :
    ∃ j, j < W ∧ ∃ i, i < R.ncomp ∧ row = (monos.map (fun m =>
      monoVal R (fun g => evalTerms R (envOf cfs g) (n₀ + j)) m)).map (fun v => (R.comps v).getD i 0) := by
  simp only [evalMatrix, List.mem_flatMap, List.mem_range, List.mem_map] at h
  obtain ⟨j, hj, i, hi, rfl⟩ := h
  refine ⟨j, hj, i, hi, ?_⟩
  have : tableAt R (valueTable R cfs n₀ W) j = fun g => evalTerms R (envOf cfs g) (n₀ + j) :=
    funext (tableAt_valueTable R cfs n₀ W j hj)
  rw [this, List.map_map, List.map_map]
  rfl

lemma dot_comm : ∀ (xs ys : List ℚ), dot xs ys = dot ys xs
  | [], [] => rfl
  | [], _ :: _ => rfl
  | _ :: _, [] => rfl
  | x :: xs, y :: ys => by simp [dot, dot_comm xs ys, mul_comm]

/-- the value of `Σ xⱼ·mⱼ` -/
lemma aevalP_polyOfVec {A : Type*} [CommRing A] [Algebra ℚ A] (σ : String → A) :
    ∀ (monos : List Mono) (x : List ℚ), aevalP σ (polyOfVec monos x) =
      (List.zipWith (fun c m => algebraMap ℚ A c * aevalMono σ m) x monos).sum
  | [], _ => by simp [polyOfVec]
  | _ :: _, [] => by simp [polyOfVec]
  | m :: ms, c :: cs => by simp [polyOfVec, aevalP_polyOfVec σ ms cs]

/-- **Every relation is a kernel vector**: if `q = Σ xⱼ·mⱼ` vanishes on the goal sequences for all
`n ≥ n₀` then the coefficient vector `x` is annihilated by every row of the evaluation matrix (any
number `W` of window points). -/
theorem relations_in_kernel (I : Interp R φ) (cfs : Env α) (monos : List Mono) (n₀ W : ℕ) (x : List ℚ)
    (hrel : ∀ n, n₀ ≤ n → aevalP (fun g => evalK φ (envOf cfs g) n) (polyOfVec monos x) = 0) :
    ∀ row ∈ evalMatrix R cfs monos n₀ W, dot row x = 0 := by
  intro row hrow
  obtain ⟨j, _, i, hi, rfl⟩ := mem_evalMatrix hrow
  rw [dot_comm]
  refine I.lin x _ ?_ i hi
  have := hrel (n₀ + j) (Nat.le_add_right _ _)
  rw [aevalP_polyOfVec] at this
  have hf : (fun (c : ℚ) (m : Mono) => algebraMap ℚ K c *
        φ (monoVal R (fun g => evalTerms R (envOf cfs g) (n₀ + j)) m)) =
      fun c m => algebraMap ℚ K c * aevalMono (fun g => evalK φ (envOf cfs g) (n₀ + j)) m := by
    funext c m
    rw [I.hom.map_monoVal]
    simp only [I.hom.map_evalTerms]
  rw [List.zipWith_map_right, hf]
  exact this

lemma getD_mem_of_lt {β : Type} (l : List β) (i : ℕ) (d : β) (hi : i < l.length) : l.getD i d ∈ l := by
  rw [List.getD_eq_getElem?_getD, List.getElem?_eq_getElem hi]
  exact List.getElem_mem hi

/-- `Σ xⱼ·mⱼ` as a sum over column indices -/
lemma aevalP_polyOfVec_range {A : Type*} [CommRing A] [Algebra ℚ A] (σ : String → A) :
    ∀ (monos : List Mono) (x : List ℚ), x.length = monos.length →
      aevalP σ (polyOfVec monos x) =
        ∑ j ∈ Finset.range monos.length, algebraMap ℚ A (x.getD j 0) * aevalMono σ (monos.getD j [])
  | [], x, _ => by simp [polyOfVec]
  | m :: ms, [], h => by simp at h
  | m :: ms, c :: cs, h => by
    have ih := aevalP_polyOfVec_range σ ms cs (by simpa using h)
    rw [polyOfVec, aevalP_cons, ih, List.length_cons, Finset.sum_range_succ']
    simp [add_comm]

lemma all_zipWith {β γ : Type} (f : β → γ → Bool) : ∀ (l₁ : List β) (l₂ : List γ),
    (List.zipWith f l₁ l₂).all id = true → l₁.length = l₂.length →
      ∀ i (d₁ : β) (d₂ : γ), i < l₁.length → f (l₁.getD i d₁) (l₂.getD i d₂) = true
  | [], _, _, _, i, _, _, hi => by simp at hi
  | _ :: _, [], _, h, _, _, _, _ => by simp at h
  | a :: l₁, b :: l₂, hall, hlen, i, d₁, d₂, hi => by
    simp only [List.zipWith_cons_cons, List.all_cons, id_eq, Bool.and_eq_true] at hall
    cases i with
    | zero => simpa using hall.1
    | succ i =>
      simpa using all_zipWith f l₁ l₂ hall.2 (by simpa using hlen) i d₁ d₂ (by simpa using hi)

/-- **`c07_validator_sound`** (C07): if `relationsCheck` accepts — the proposed `B` is certified as a
basis of the kernel of the evaluation matrix of all monomials of total degree ≤ k in the goals, and
every `b ∈ B`, read as a polynomial, is certified as a combination of the reported `basis` — then
every polynomial `q = Σ xⱼ·mⱼ` over these monomials that vanishes on the goal sequences for all
`n ≥ n₀` lies in the ideal generated by the reported basis.  (Empty `basis`: there is no non-zero
such `q`, see `c07_no_invariants`.) -/
theorem c07_validator_sound [DecidableEq α] (I : Interp R φ) (cfs : Env α) (k n₀ : ℕ)
    (basis : List MPoly) (B : Mat) (free pivR pivC : List ℕ) (cofs : List (List MPoly))
    (h : (relationsCheck R cfs k n₀ basis B free pivR pivC cofs).ok = true)
    (x : List ℚ) (hx : x.length = (monosUpTo (cfs.map (fun gc => gc.1)) k).length)
    (hrel : ∀ n, n₀ ≤ n → aevalP (fun g => evalK φ (envOf cfs g) n)
      (polyOfVec (monosUpTo (cfs.map (fun gc => gc.1)) k) x) = 0) :
    toMv (polyOfVec (monosUpTo (cfs.map (fun gc => gc.1)) k) x) ∈
      Ideal.span {q | ∃ g ∈ basis, q = toMv g} := by
  generalize hmonos : monosUpTo (cfs.map (fun gc => gc.1)) k = monos at *
  simp only [RelVerdict.ok, relationsCheck, hmonos, Bool.and_eq_true, beq_iff_eq] at h
  obtain ⟨⟨hker, hlen⟩, hmem⟩ := h
  have Kc := checkKernel_unpack hker
  obtain ⟨_, hspan, _⟩ := checkKernel_sound hker
  have hx_j := hspan x hx (relations_in_kernel I cfs monos n₀ _ x hrel)
  have hmemB : ∀ i, i < B.length →
      toMv (polyOfVec monos (B.getD i [])) ∈ Ideal.span {q | ∃ g ∈ basis, q = toMv g} :=
    fun i hi => checkMember_sound (all_zipWith _ B cofs hmem hlen i [] [] hi)
  have hB : ∀ i ∈ Finset.range B.length, toMv (polyOfVec monos (B.getD i [])) =
      ∑ j ∈ Finset.range monos.length,
        algebraMap ℚ (MvPolynomial String ℚ) (entry B i j) * aevalMono MvPolynomial.X (monos.getD j []) := by
    intro i hi
    rw [toMv, aevalP_polyOfVec_range _ monos _
      (Kc.hB _ (getD_mem_of_lt B i [] (Finset.mem_range.mp hi)))]
    rfl
  have hdecomp : toMv (polyOfVec monos x) = ∑ i ∈ Finset.range B.length,
      algebraMap ℚ (MvPolynomial String ℚ) (x.getD (free.getD i 0) 0) *
        toMv (polyOfVec monos (B.getD i [])) := by
    rw [toMv, aevalP_polyOfVec_range _ monos x hx]
    have hR : ∑ i ∈ Finset.range B.length,
        algebraMap ℚ (MvPolynomial String ℚ) (x.getD (free.getD i 0) 0) *
          toMv (polyOfVec monos (B.getD i [])) =
        ∑ i ∈ Finset.range B.length, ∑ j ∈ Finset.range monos.length,
          algebraMap ℚ (MvPolynomial String ℚ) (x.getD (free.getD i 0) 0) *
            (algebraMap ℚ (MvPolynomial String ℚ) (entry B i j) *
              aevalMono MvPolynomial.X (monos.getD j [])) :=
      Finset.sum_congr rfl (fun i hi => by rw [hB i hi, Finset.mul_sum])
    rw [hR, Finset.sum_comm]
    refine Finset.sum_congr rfl (fun j hj => ?_)
    rw [hx_j j (Finset.mem_range.mp hj), map_sum, Finset.sum_mul]
    refine Finset.sum_congr rfl (fun i _ => ?_)
    rw [map_mul]; ring
  rw [hdecomp]
  exact Ideal.sum_mem _ (fun i hi => Ideal.mul_mem_left _ _ (hmemB i (Finset.mem_range.mp hi)))

/-- "Polar reports no invariants": with the empty basis and an accepted `relationsCheck` (necessarily
with the empty kernel basis) no non-zero polynomial of degree ≤ k in the goals vanishes on the
sequences: every coefficient of such a polynomial is `0`. -/
theorem c07_no_invariants [DecidableEq α] (I : Interp R φ) (cfs : Env α) (k n₀ : ℕ)
    (free pivR pivC : List ℕ)
    (h : (relationsCheck R cfs k n₀ [] [] free pivR pivC []).ok = true)
    (x : List ℚ) (hx : x.length = (monosUpTo (cfs.map (fun gc => gc.1)) k).length)
    (hrel : ∀ n, n₀ ≤ n → aevalP (fun g => evalK φ (envOf cfs g) n)
      (polyOfVec (monosUpTo (cfs.map (fun gc => gc.1)) k) x) = 0) :
    ∀ j, j < x.length → x.getD j 0 = 0 := by
  generalize hmonos : monosUpTo (cfs.map (fun gc => gc.1)) k = monos at *
  simp only [RelVerdict.ok, relationsCheck, hmonos, Bool.and_eq_true, beq_iff_eq] at h
  obtain ⟨⟨hker, _⟩, _⟩ := h
  obtain ⟨_, hspan, _⟩ := checkKernel_sound hker
  intro j hj
  have := hspan x hx (relations_in_kernel I cfs monos n₀ _ x hrel) j (hx ▸ hj)
  simpa using this

/-! ### the converse: a kernel vector of the window matrix is a relation for all `n ≥ n₀` -/

/-- the term list of `Σ xⱼ·mⱼ(f(n))`, monomial by monomial (no cancellation across monomials) -/
def relTerms [DecidableEq α] (R : RingOps α) (cfs : Env α) : List Mono → List ℚ → List (GTerm α)
  | m :: ms, c :: cs => scaleTerms R c (normTerms R (substMono R cfs m)) ++ relTerms R cfs ms cs
  | _, _ => []

lemma evalK_relTerms [DecidableEq α] (h : IsHom R φ) (cfs : Env α) (n : ℕ) :
    ∀ (monos : List Mono) (x : List ℚ), evalK φ (relTerms R cfs monos x) n =
      aevalP (fun g => evalK φ (envOf cfs g) n) (polyOfVec monos x)
  | [], _ => by simp [relTerms, polyOfVec]
  | _ :: _, [] => by simp [relTerms, polyOfVec]
  | m :: ms, c :: cs => by
    rw [relTerms, evalK_append, evalK_scaleTerms h, evalK_normTerms h, evalK_substMono h,
      evalK_relTerms h cfs n ms cs, polyOfVec, aevalP_cons]

/-- the formal shape only depends on the (base, degree) keys -/
lemma shapeOfG_congr [DecidableEq α] : ∀ (ts ss : List (GTerm α)),
    ts.map (fun t => (t.base, t.deg)) = ss.map (fun t => (t.base, t.deg)) → shapeOfG ts = shapeOfG ss
  | [], [], _ => rfl
  | [], _ :: _, h => by simp at h
  | _ :: _, [], h => by simp at h
  | t :: ts, s :: ss, h => by
    simp only [List.map_cons, List.cons.injEq, Prod.mk.injEq] at h
    obtain ⟨⟨hb, hd⟩, ht⟩ := h
    show insertShape t.base (t.deg + 1) (shapeOfG ts) = insertShape s.base (s.deg + 1) (shapeOfG ss)
    rw [shapeOfG_congr ts ss ht, hb, hd]

lemma keys_relTerms [DecidableEq α] (cfs : Env α) : ∀ (monos : List Mono) (x : List ℚ),
    x.length = monos.length →
    (relTerms R cfs monos x).map (fun t => (t.base, t.deg)) =
      (monos.flatMap (fun m => normTerms R (substMono R cfs m))).map (fun t => (t.base, t.deg))
  | [], _, _ => by simp [relTerms]
  | m :: ms, [], h => by simp at h
  | m :: ms, c :: cs, h => by
    rw [relTerms, List.flatMap_cons, List.map_append, List.map_append,
      keys_relTerms cfs ms cs (by simpa using h)]
    congr 1
    simp [scaleTerms, Function.comp_def]

lemma windowOf_relTerms [DecidableEq α] (cfs : Env α) (monos : List Mono) (x : List ℚ)
    (hx : x.length = monos.length) : windowOf (relTerms R cfs monos x) = windowK R cfs monos := by
  rw [windowOf, windowK, windowOf, shapeOfG_congr _ _ (keys_relTerms cfs monos x hx)]

lemma evalMatrix_row_mem (cfs : Env α) (monos : List Mono) (n₀ W j i : ℕ) (hj : j < W)
    (hi : i < R.ncomp) :
    (monos.map (fun m => monoVal R (fun g => evalTerms R (envOf cfs g) (n₀ + j)) m)).map
      (fun v => (R.comps v).getD i 0) ∈ evalMatrix R cfs monos n₀ W := by
  simp only [evalMatrix, List.mem_flatMap, List.mem_range, List.mem_map]
  refine ⟨j, hj, i, hi, ?_⟩
  have : tableAt R (valueTable R cfs n₀ W) j = fun g => evalTerms R (envOf cfs g) (n₀ + j) :=
    funext (tableAt_valueTable R cfs n₀ W j hj)
  rw [this, List.map_map, List.map_map]
  rfl

/-- **The window kernel is exactly the relation space** (converse of `relations_in_kernel`): a
rational vector annihilated by all rows of the evaluation matrix on the window `windowK` gives a
polynomial that vanishes on the goal sequences for every `n ≥ n₀`.  Hence a rejected instance of the
C07 check always has a genuine witness among the kernel vectors. -/
theorem kernel_vector_is_relation [DecidableEq α] (I : Interp R φ) (cfs : Env α) (monos : List Mono)
    (n₀ : ℕ) (x : List ℚ) (hx : x.length = monos.length)
    (hker : ∀ row ∈ evalMatrix R cfs monos n₀ (windowK R cfs monos), dot row x = 0) :
    ∀ n, n₀ ≤ n → aevalP (fun g => evalK φ (envOf cfs g) n) (polyOfVec monos x) = 0 := by
  intro n hn
  rw [← evalK_relTerms I.hom]
  refine evalK_vanish I.inj _ n₀ (fun j hj => ?_) n hn
  rw [windowOf_relTerms cfs monos x hx] at hj
  rw [evalK_relTerms I.hom, aevalP_polyOfVec]
  have hsum := I.colin x (monos.map (fun m => monoVal R (fun g => evalTerms R (envOf cfs g) (n₀ + j)) m))
    (fun i hi => by
      rw [dot_comm]
      exact hker _ (evalMatrix_row_mem cfs monos n₀ _ j i hj hi))
  have hf : (fun (c : ℚ) (m : Mono) => algebraMap ℚ K c *
        φ (monoVal R (fun g => evalTerms R (envOf cfs g) (n₀ + j)) m)) =
      fun c m => algebraMap ℚ K c * aevalMono (fun g => evalK φ (envOf cfs g) (n₀ + j)) m := by
    funext c m
    rw [I.hom.map_monoVal]
    simp only [I.hom.map_evalTerms]
  rw [List.zipWith_map_right, hf] at hsum
  exact hsum

/-- **C07 in the wording of the property** ("vanishes for all sufficiently large `n`"): if the bases
occurring in the term lists of the monomials are units of `K` (non-zero, when `K` is a field), a
polynomial over the monomials of degree ≤ k that vanishes on the goal sequences from *some* index on
lies in the ideal of the reported basis whenever `relationsCheck` accepts. -/
theorem c07_validator_sound_eventually [DecidableEq α] (I : Interp R φ) (cfs : Env α) (k n₀ : ℕ)
    (basis : List MPoly) (B : Mat) (free pivR pivC : List ℕ) (cofs : List (List MPoly))
    (h : (relationsCheck R cfs k n₀ basis B free pivR pivC cofs).ok = true)
    (x : List ℚ) (hx : x.length = (monosUpTo (cfs.map (fun gc => gc.1)) k).length)
    (hu : ∀ t ∈ relTerms R cfs (monosUpTo (cfs.map (fun gc => gc.1)) k) x, IsUnit (φ t.base))
    (hrel : ∃ N, ∀ n, N ≤ n → aevalP (fun g => evalK φ (envOf cfs g) n)
      (polyOfVec (monosUpTo (cfs.map (fun gc => gc.1)) k) x) = 0) :
    toMv (polyOfVec (monosUpTo (cfs.map (fun gc => gc.1)) k) x) ∈
      Ideal.span {q | ∃ g ∈ basis, q = toMv g} := by
  obtain ⟨N, hN⟩ := hrel
  refine c07_validator_sound I cfs k n₀ basis B free pivR pivC cofs h x hx (fun n _ => ?_)
  rw [← evalK_relTerms I.hom]
  exact evalK_eq_zero_of_eventually _ hu N (fun m hm => by rw [evalK_relTerms I.hom]; exact hN m hm) n

/-! ### non-vacuity of the C07 validator -/

/-- `x = 2^n`, `y = 4^n`, k = 2: monomials `1, y, y², x, xy, x²`; the kernel of the 5×6 window matrix is
spanned by `x² − y`, which is `(−1)·(y − x²)`: `relationsCheck` accepts … -/
example : (relationsCheck ratOps [("x", [⟨1, 0, 2⟩]), ("y", [⟨1, 0, 4⟩])] 2 0
    [[([("y", 1)], 1), ([("x", 2)], -1)]] [[0, -1, 0, 0, 0, 1]] [5] [0, 1, 2, 3, 4] [0, 1, 2, 3, 4]
    [[[([], -1)]]]).ok = true := by decide +kernel

/-- … hence every polynomial of degree ≤ 2 in `x, y` that vanishes on `(2^n, 4^n)` for all `n` lies
in `⟨y − x²⟩`. -/
example (c : List ℚ) (hc : c.length = 6)
    (hrel : ∀ n : ℕ, 0 ≤ n → aevalP (fun g => evalK (fun q : ℚ => q)
      (envOf [("x", [⟨1, 0, 2⟩]), ("y", [⟨1, 0, 4⟩])] g) n) (polyOfVec (monosUpTo ["x", "y"] 2) c) = 0) :
    toMv (polyOfVec (monosUpTo ["x", "y"] 2) c) ∈
      Ideal.span {q | ∃ g ∈ [[([("y", 1)], (1 : ℚ)), ([("x", 2)], -1)]], q = toMv g} :=
  c07_validator_sound ratInterp [("x", [⟨1, 0, 2⟩]), ("y", [⟨1, 0, 4⟩])] 2 0 _
    [[0, -1, 0, 0, 0, 1]] [5] [0, 1, 2, 3, 4] [0, 1, 2, 3, 4] [[[([], -1)]]]
    (by decide +kernel) c hc hrel

/-- "no invariants": `x = 2^n + 1`, `y = n`, k = 2 — the empty kernel basis is accepted, so no non-zero
polynomial of degree ≤ 2 vanishes on the sequences (`c07_no_invariants`). -/
example : (relationsCheck ratOps [("x", [⟨1, 0, 2⟩, ⟨1, 0, 1⟩]), ("y", [⟨1, 1, 1⟩])] 2 0 [] [] []
    [0, 1, 2, 3, 4, 5] [0, 1, 2, 3, 4, 5] []).ok = true := by decide +kernel

/-- … and the wrong claim "no invariants" for `x = 2^n`, `y = 4^n` is rejected. -/
example : (relationsCheck ratOps [("x", [⟨1, 0, 2⟩]), ("y", [⟨1, 0, 4⟩])] 2 0 [] [] []
    [0, 1, 2, 3, 4, 5] [0, 1, 2, 3, 4, 5] []).ok = false := by decide +kernel

end C07

end Polar.Inv
