/-
  PolarProofs/Indicator.lean — C17 / C02: the arithmetic encoding of conditions over finitely typed variables
  (option `--cond2arithm`, `program/transformer/conditions_to_arithm.py`, `Condition.to_arithm`) and the expansion
  of categorical assignments (`--transform_categoricals`, `inputparser/structure_transformer.py:_transform_categorical`).

  What the code does (and what is modelled here):
  * `Atom.to_arithm` accepts only normalised atoms `x == c` with `x` of type `Finite(values)`; it returns `0` if
    `c ∉ values`, otherwise the Lagrange polynomial  Π_{d ∈ values, d ≠ c} (x − d)/(c − d)   (`ind`, `indPoly`).
  * `And.to_arithm = a·b`, `Not.to_arithm = 1 − a`, `Or.to_arithm = 1 − (1−a)(1−b)`, `True ↦ 1`, `False ↦ 0`
    (`NCond.arithm`).
  * Order comparisons never reach `to_arithm`: `Atom.get_normalized` replaces `x cop c` by `false`, one `==` atom or
    a left-nested `Or` of `==` atoms over `get_valid_values(values, cop, c)`, popped from a Python set in arbitrary
    order (`orChain`, any enumeration `vals` of the satisfying values).  `/=` is in the grammar but
    `get_valid_values` raises on it (a refusal); "not equal" is written `!(x == c)` and becomes `1 − ind`.
  * `ConditionsToArithm`: `x = e | C : d` ↦ `x = [C]·e + (1−[C])·d`; for a draw `x = D | C : d` ↦ `t = D; x = [C]·t + (1−[C])·d`.
  * `_transform_categorical`: `x = v₀ {p₀} … v_k {p_k}` ↦ `c = Categorical(p₀..p_k); if c == 0: x = v₀ elif c == 1: …`.

  Property theorems:
  * `lagrange_indicator`  : for `v ∈ dom` (no duplicate-freeness needed, `c` arbitrary): `ind c dom v = if v = c then 1 else 0`.
  * `indPoly_eval`        : the symbolic polynomial evaluates to `ind`.
  * `and_or_not_arithm`   : the connective rules on 0/1 values.
  * `to_arithm_sound`     : in every state whose finitely typed variables lie in their types, `C.arithm = [C holds]`.
  * `cmp_arithm`, `cmp_arithm_sum`, `ne_arithm` : `<, <=, >, >=, ==` (any enumeration order) and `!(x == c)`.
  * `ite_eq_arithm`, `guarded_assign_arithm`, `guarded_draw_arithm` : guarded assignments and their encodings agree.
  * `categorical_eq_choice` : in the reference semantics `evalRhs` of `Categorical(ps)` and of the choice
    `0 {p₀} 1 {p₁} …` are the same weighted list (same failures).
  * `transform_categorical_select`, `transform_categorical_outcomes` : the arithmetised if-chain picks the branch of
    the drawn category; the weighted outcomes of `x` are those of the original choice.
-/
import Mathlib.Tactic
import Polar.Sem

open Polar

namespace Polar.Indicator

/-- `Atom.to_arithm` evaluated at the value `v` of the variable -/
def ind (c : ℚ) (dom : List ℚ) (v : ℚ) : ℚ :=
  if c ∈ dom then ((dom.filter (fun d => d ≠ c)).map (fun d => (v - d) / (c - d))).prod else 0

theorem ind_self {c : ℚ} {dom : List ℚ} (h : c ∈ dom) : ind c dom c = 1 := by
  unfold ind
  rw [if_pos h]
  apply List.prod_eq_one
  intro y hy
  obtain ⟨d, hd, rfl⟩ := List.mem_map.mp hy
  have hne : d ≠ c := by simpa using (List.mem_filter.mp hd).2
  exact div_self (sub_ne_zero.mpr (Ne.symm hne))

theorem ind_other {c v : ℚ} {dom : List ℚ} (hv : v ∈ dom) (hne : v ≠ c) : ind c dom v = 0 := by
  unfold ind
  split_ifs with h
  · apply List.prod_eq_zero
    refine List.mem_map.mpr ⟨v, List.mem_filter.mpr ⟨hv, by simpa using hne⟩, ?_⟩
    rw [sub_self, zero_div]
  · rfl

theorem lagrange_indicator (c : ℚ) {dom : List ℚ} {v : ℚ} (hv : v ∈ dom) :
    ind c dom v = if v = c then 1 else 0 := by
  split_ifs with h
  · subst h; exact ind_self hv
  · exact ind_other hv h


/-- the same object as a polynomial in the variable (what `to_arithm` returns symbolically) -/
noncomputable def indPoly (c : ℚ) (dom : List ℚ) : Polynomial ℚ :=
  if c ∈ dom then
    ((dom.filter (fun d => d ≠ c)).map
      (fun d => Polynomial.C (1 / (c - d)) * (Polynomial.X - Polynomial.C d))).prod
  else 0

theorem indPoly_eval (c : ℚ) (dom : List ℚ) (v : ℚ) : (indPoly c dom).eval v = ind c dom v := by
  unfold indPoly ind
  split_ifs with h
  · rw [Polynomial.eval_list_prod, List.map_map]
    congr 1
    apply List.map_congr_left
    intro d _
    simp only [Function.comp_apply, Polynomial.eval_mul, Polynomial.eval_C, Polynomial.eval_sub,
      Polynomial.eval_X]
    ring
  · exact Polynomial.eval_zero

/-! ### 0/1 indicators and the connectives -/

/-- Iverson bracket -/
def b2q (b : Bool) : ℚ := if b then 1 else 0

@[simp] theorem b2q_true : b2q true = 1 := rfl
@[simp] theorem b2q_false : b2q false = 0 := rfl

/-- **`And.to_arithm`, `Not.to_arithm`, `Or.to_arithm`** on 0/1 values: product, `1 - ·`, `1 - (1-a)(1-b)`
(the last equals `a + b - a*b`). -/
theorem and_or_not_arithm (A B : Bool) :
    b2q (A && B) = b2q A * b2q B ∧
    b2q (!A) = 1 - b2q A ∧
    b2q (A || B) = 1 - (1 - b2q A) * (1 - b2q B) ∧
    b2q (A || B) = b2q A + b2q B - b2q A * b2q B := by
  cases A <;> cases B <;> norm_num [b2q]

/-- **if-then-else as arithmetic** in any ring, for any value `a` that is the 0/1 indicator of `A`. -/
theorem ite_eq_arithm {R : Type*} [Ring R] (A : Bool) (a : R) (ha : a = if A then 1 else 0) (e₁ e₂ : R) :
    (if A then e₁ else e₂) = a * e₁ + (1 - a) * e₂ := by
  subst ha
  cases A <;> simp

/-! ### normalised conditions over finitely typed variables and `to_arithm` -/

/-- conditions after `ConditionsNormalizer`: every atom is `x == c` -/
inductive NCond where
  | tt
  | ff
  | eqc (x : String) (c : ℚ)
  | not (a : NCond)
  | and (a b : NCond)
  | or (a b : NCond)

namespace NCond

/-- truth value in a state (`Condition.evaluate`) -/
def holds (σ : String → ℚ) : NCond → Bool
  | tt => true
  | ff => false
  | eqc x c => decide (σ x = c)
  | not a => ! a.holds σ
  | and a b => a.holds σ && b.holds σ
  | or a b => a.holds σ || b.holds σ

/-- `Condition.to_arithm(program)` evaluated in a state; `ty x` are the values of the declared `Finite` type -/
def arithm (ty : String → List ℚ) (σ : String → ℚ) : NCond → ℚ
  | tt => 1
  | ff => 0
  | eqc x c => ind c (ty x) (σ x)
  | not a => 1 - a.arithm ty σ
  | and a b => a.arithm ty σ * b.arithm ty σ
  | or a b => 1 - (1 - a.arithm ty σ) * (1 - b.arithm ty σ)

def vars : NCond → List String
  | tt => []
  | ff => []
  | eqc x _ => [x]
  | not a => a.vars
  | and a b => a.vars ++ b.vars
  | or a b => a.vars ++ b.vars

end NCond

/-- the finitely typed variables of the condition have values inside their declared types -/
def WellTyped (ty : String → List ℚ) (σ : String → ℚ) (C : NCond) : Prop := ∀ x ∈ C.vars, σ x ∈ ty x

/-- **`to_arithm` is the indicator of the condition** in every well-typed state. -/
theorem to_arithm_sound (ty : String → List ℚ) (σ : String → ℚ) (C : NCond) (h : WellTyped ty σ C) :
    C.arithm ty σ = b2q (C.holds σ) := by
  induction C with
  | tt => rfl
  | ff => rfl
  | eqc x c =>
    have hx : σ x ∈ ty x := h x (by simp [NCond.vars])
    simp only [NCond.arithm, NCond.holds, lagrange_indicator c hx, b2q]
    by_cases e : σ x = c <;> simp [e]
  | not a ih =>
    simp only [NCond.arithm, NCond.holds, ih h, (and_or_not_arithm (a.holds σ) true).2.1]
  | and a b iha ihb =>
    have ha : WellTyped ty σ a := fun x hx => h x (by simp [NCond.vars, hx])
    have hb : WellTyped ty σ b := fun x hx => h x (by simp [NCond.vars, hx])
    simp only [NCond.arithm, NCond.holds, iha ha, ihb hb, (and_or_not_arithm (a.holds σ) (b.holds σ)).1]
  | or a b iha ihb =>
    have ha : WellTyped ty σ a := fun x hx => h x (by simp [NCond.vars, hx])
    have hb : WellTyped ty σ b := fun x hx => h x (by simp [NCond.vars, hx])
    simp only [NCond.arithm, NCond.holds, iha ha, ihb hb,
      (and_or_not_arithm (a.holds σ) (b.holds σ)).2.2.1]

/-- the arithmetic value is 0 or 1 -/
theorem to_arithm_zero_one (ty : String → List ℚ) (σ : String → ℚ) (C : NCond) (h : WellTyped ty σ C) :
    C.arithm ty σ = 0 ∨ C.arithm ty σ = 1 := by
  rw [to_arithm_sound ty σ C h]
  cases C.holds σ <;> simp

/-! ### comparison atoms: `Atom.get_normalized` followed by `to_arithm` -/

/-- `Atom.get_normalized` for `x cop c`: `vals` is the set `get_valid_values(type.values, cop, c)` in the
(arbitrary) order in which Python pops it; the result is `false`, a single `==` atom, or a left-nested `Or`. -/
def orChain (x : String) : List ℚ → NCond
  | [] => .ff
  | v :: rest => rest.foldl (fun r d => .or r (.eqc x d)) (.eqc x v)

theorem foldl_or_vars (x : String) (rest : List ℚ) (init : NCond) :
    ∀ y ∈ (rest.foldl (fun r d => NCond.or r (.eqc x d)) init).vars, y ∈ init.vars ∨ y = x := by
  induction rest generalizing init with
  | nil => intro y hy; exact Or.inl hy
  | cons d t ih =>
    intro y hy
    rcases ih (.or init (.eqc x d)) y hy with h | h
    · simp only [NCond.vars, List.mem_append, List.mem_singleton] at h
      exact h
    · exact Or.inr h

theorem orChain_wellTyped (ty : String → List ℚ) (σ : String → ℚ) (x : String) (vals : List ℚ)
    (hx : σ x ∈ ty x) : WellTyped ty σ (orChain x vals) := by
  intro y hy
  cases vals with
  | nil => simp [orChain, NCond.vars] at hy
  | cons v rest =>
    rcases foldl_or_vars x rest (.eqc x v) y hy with h | h
    · simp only [NCond.vars, List.mem_singleton] at h; subst h; exact hx
    · subst h; exact hx

theorem foldl_or_holds (σ : String → ℚ) (x : String) (rest : List ℚ) (init : NCond) :
    (rest.foldl (fun r d => NCond.or r (.eqc x d)) init).holds σ = (init.holds σ || decide (σ x ∈ rest)) := by
  induction rest generalizing init with
  | nil => simp
  | cons d t ih =>
    rw [List.foldl_cons, ih]
    simp only [NCond.holds, List.mem_cons, Bool.decide_or, Bool.or_assoc]

theorem orChain_holds (σ : String → ℚ) (x : String) (vals : List ℚ) :
    (orChain x vals).holds σ = decide (σ x ∈ vals) := by
  cases vals with
  | nil => simp [orChain, NCond.holds]
  | cons v rest =>
    simp only [orChain, foldl_or_holds, NCond.holds, List.mem_cons, Bool.decide_or]

/-- **order comparisons / `==` against the type** (`<, <=, >, >=, ==`; `Polar.Cop.holds` is the model's
comparison): the normalised atom's arithmetic form is the indicator of `σ x cop c`, whatever order the valid
values were enumerated in. (`/=` is accepted by the grammar but `get_valid_values` raises on it; written as
`!(x == c)` it is `1 - ind`, see `ne_arithm`.) -/
theorem cmp_arithm (ty : String → List ℚ) (σ : String → ℚ) (x : String) (op : Cop) (c : ℚ)
    (vals : List ℚ) (hvals : ∀ d, d ∈ vals ↔ d ∈ ty x ∧ op.holds d c = true) (hx : σ x ∈ ty x) :
    (orChain x vals).arithm ty σ = b2q (op.holds (σ x) c) := by
  rw [to_arithm_sound ty σ _ (orChain_wellTyped ty σ x vals hx), orChain_holds]
  congr 1
  by_cases h : op.holds (σ x) c = true
  · rw [h]; exact decide_eq_true ((hvals _).mpr ⟨hx, h⟩)
  · rw [Bool.not_eq_true] at h
    rw [h]; exact decide_eq_false (fun hm => by simpa [h] using ((hvals _).mp hm).2)

/-- spelled out as "sum of the indicators of the satisfying values" (they are mutually exclusive) -/
theorem cmp_arithm_sum (ty : String → List ℚ) (σ : String → ℚ) (x : String) (op : Cop) (c : ℚ)
    (hnd : (ty x).Nodup) (hx : σ x ∈ ty x) :
    (((ty x).filter (fun d => op.holds d c)).map (fun d => ind d (ty x) (σ x))).sum = b2q (op.holds (σ x) c) := by
  have key : ∀ (l : List ℚ), l.Nodup →
      (l.map (fun d => ind d (ty x) (σ x))).sum = b2q (decide (σ x ∈ l)) := by
    intro l
    induction l with
    | nil => intro _; simp
    | cons d t ih =>
      intro hnd
      rw [List.nodup_cons] at hnd
      rw [List.map_cons, List.sum_cons, ih hnd.2, lagrange_indicator d hx]
      by_cases e : σ x = d
      · have : σ x ∉ t := e ▸ hnd.1
        simp [e, b2q, hnd.1]
      · by_cases m : σ x ∈ t <;> simp [e, m, b2q]
  rw [key _ (hnd.filter _)]
  congr 1
  simp [List.mem_filter, hx]

theorem ne_arithm (ty : String → List ℚ) (σ : String → ℚ) (x : String) (c : ℚ) (hx : σ x ∈ ty x) :
    (NCond.not (.eqc x c)).arithm ty σ = b2q (Cop.ne.holds (σ x) c) ∧
    (NCond.not (.eqc x c)).arithm ty σ = 1 - ind c (ty x) (σ x) := by
  refine ⟨?_, rfl⟩
  rw [to_arithm_sound ty σ _ (fun y hy => by simp only [NCond.vars, List.mem_singleton] at hy; subst hy; exact hx)]
  by_cases e : σ x = c
  · simp [NCond.holds, Cop.holds, e]
  · have hb : (σ x == c) = false := beq_eq_false_iff_ne.mpr e
    simp only [NCond.holds, Cop.holds, bne, hb, e, decide_false, Bool.not_false]

/-! ### guarded assignments: `x = rhs | C : default`  ↦  `x = [C]*rhs + (1-[C])*default` -/

/-- **`ConditionsToArithm` on a `PolyAssignment`** assigns the same value in every well-typed state. -/
theorem guarded_assign_arithm (ty : String → List ℚ) (σ : String → ℚ) (C : NCond) (h : WellTyped ty σ C)
    (e₁ e₂ : ℚ) :
    (if C.holds σ then e₁ else e₂) = C.arithm ty σ * e₁ + (1 - C.arithm ty σ) * e₂ :=
  ite_eq_arithm (C.holds σ) _ (to_arithm_sound ty σ C h) e₁ e₂

/-- **`ConditionsToArithm` on a `DistAssignment`** (`t ~ D; x = [C]*t + (1-[C])*default`): the extra draw is
made on both branches, but for a law of total mass 1 the expectation of any function of the new value of `x`
is unchanged. -/
theorem guarded_draw_arithm (ty : String → List ℚ) (σ : String → ℚ) (C : NCond) (h : WellTyped ty σ C)
    (outs : List (ℚ × ℚ)) (hmass : (outs.map Prod.fst).sum = 1) (f : ℚ → ℚ) (dflt : ℚ) :
    (outs.map (fun o => o.1 * f (C.arithm ty σ * o.2 + (1 - C.arithm ty σ) * dflt))).sum =
      if C.holds σ then (outs.map (fun o => o.1 * f o.2)).sum else f dflt := by
  rw [to_arithm_sound ty σ C h]
  cases C.holds σ
  · simp only [b2q_false, zero_mul, zero_add, sub_zero, one_mul, Bool.false_eq_true, if_false]
    have e : (outs.map (fun o : ℚ × ℚ => o.1 * f dflt)).sum = (outs.map Prod.fst).sum * f dflt :=
      List.sum_map_mul_right ..
    rw [e, hmass, one_mul]
  · simp

/-- the well-typedness hypothesis cannot be dropped: outside the declared type the Lagrange polynomial is not
an indicator (type {0,1}, atom `x == 1`, state `x = 2`: value 2). -/
example : ind 1 [0, 1] 2 = 2 ∧ b2q (decide ((2 : ℚ) = 1)) = 0 := by
  constructor
  · norm_num [ind]
  · norm_num [b2q]

/-! non-vacuity -/

example : ind 1 [0, 1, 3] 1 = 1 ∧ ind 1 [0, 1, 3] 0 = 0 ∧ ind 1 [0, 1, 3] 3 = 0 :=
  ⟨ind_self (by simp), ind_other (by simp) (by norm_num), ind_other (by simp) (by norm_num)⟩

/-- `x < 2` over `Finite(0,1,3)` with the valid values popped in the order 1, 0 -/
example : (orChain "x" [1, 0]).arithm (fun _ => [0, 1, 3]) (fun _ => 1) = 1 := by
  have := cmp_arithm (fun _ => [0, 1, 3]) (fun _ => 1) "x" .lt 2 [1, 0]
    (by intro d; simp only [List.mem_cons, List.not_mem_nil, or_false, Cop.holds, decide_eq_true_eq]
        constructor
        · rintro (rfl | rfl) <;> norm_num
        · rintro ⟨rfl | rfl | rfl, h⟩
          · norm_num
          · norm_num
          · norm_num at h)
    (by simp)
  rw [this]; simp [Cop.holds, b2q]

example : WellTyped (fun _ => [0, 1]) (fun _ => 1) (.and (.eqc "x" 1) (.not (.eqc "y" 0))) := by
  intro x _; simp


/-! ### categorical assignments (`--transform_categoricals`) -/

/-- the alternatives `0 {p₀} 1 {p₁} … k {p_k}` (value, probability), numbered from `i` -/
def catAlts : Nat → List Expr → List (Expr × Expr)
  | _, [] => []
  | i, e :: es => (Expr.num (i : Rat), e) :: catAlts (i + 1) es

theorem cat_choice_loop (s : Store) (atoms : List Atom) (ps : List Expr)
    (acc : List (Rat × MPoly × List Atom)) (i : Nat) :
    ((forIn ps (acc, i) (fun (e : Expr) (st : List (Rat × MPoly × List Atom) × Nat) => do
        let q ← Polar.evalConst s e
        (pure (ForInStep.yield (st.1 ++ [(q, MPoly.const (st.2 : Rat), atoms)], st.2 + 1)) : Polar.M _)))
      >>= fun st => (pure st.1 : Polar.M _)) =
    forIn (catAlts i ps) acc (fun (x : Expr × Expr) (st : List (Rat × MPoly × List Atom)) => do
        let w ← Polar.evalConst s x.2
        let v ← Polar.evalExpr s x.1
        (pure (ForInStep.yield (st ++ [(w, v, atoms)])) : Polar.M _)) := by
  induction ps generalizing acc i with
  | nil => simp [catAlts]
  | cons e es ih =>
    rw [catAlts, List.forIn_cons, List.forIn_cons]
    cases h : Polar.evalConst s e with
    | error err => simp [bind, Except.bind]
    | ok q =>
      simp only [bind, Except.bind, pure, Except.pure, Polar.evalExpr]
      exact ih _ _

/-- **`Categorical(p₀,…,p_k)` is the probabilistic choice `0 {p₀} 1 {p₁} … k {p_k}`** in the reference semantics:
the two right-hand sides have literally the same weighted outcome list (and fail on the same inputs). -/
theorem categorical_eq_choice (p : Path) (ps : List Expr) :
    evalRhs p (.dist "Categorical" ps) = evalRhs p (.choice (catAlts 0 ps)) := by
  simp only [evalRhs]
  rw [cat_choice_loop p.vals p.atoms ps [] 0]
  exact (bind_pure _).symm

/-! #### the if-chain that replaces the choice

`_transform_categorical` turns `x = v₀ {p₀} … v_k {p_k}` into `c = Categorical(p₀,…,p_k)` followed by the mutually
exclusive `if c == 0: x = v₀ elif c == 1: x = v₁ …`, which the if-transformer flattens into the sequence of guarded
assignments `x = v_i | c == i : x` (i = 0,…,k); with `cond2arithm` each becomes `x = [c==i]·v_i + (1-[c==i])·x`.
The right-hand sides may mention `x` itself, so a branch is a function of the current value of `x`. -/

/-- run the flattened, arithmetised chain on the current value `x` of the assigned variable; `c` is the drawn
category, `dom` the declared/inferred type of `c` -/
def chain (dom : List ℚ) (c : ℚ) : List (ℚ × (ℚ → ℚ)) → ℚ → ℚ
  | [], x => x
  | (d, v) :: rest, x => chain dom c rest (ind d dom c * v x + (1 - ind d dom c) * x)

/-- branches numbered from `k` -/
def brsFrom : Nat → List (ℚ → ℚ) → List (ℚ × (ℚ → ℚ))
  | _, [] => []
  | k, v :: t => ((k : ℚ), v) :: brsFrom (k + 1) t

/-- the support `{0,…,n-1}` of a categorical draw with `n` parameters (`Categorical.get_support`) -/
def catDom (n : Nat) : List ℚ := (List.range n).map (fun (i : Nat) => (i : ℚ))

theorem chain_skip (dom : List ℚ) (c : ℚ) (hc : c ∈ dom) (brs : List (ℚ × (ℚ → ℚ)))
    (h : ∀ b ∈ brs, b.1 ≠ c) (x : ℚ) : chain dom c brs x = x := by
  induction brs generalizing x with
  | nil => rfl
  | cons b t ih =>
    obtain ⟨d, v⟩ := b
    have hd : c ≠ d := fun e => h (d, v) (by simp) e.symm
    rw [chain, lagrange_indicator d hc, if_neg hd, zero_mul, zero_add, sub_zero, one_mul]
    exact ih (fun b hb => h b (List.mem_cons_of_mem _ hb)) x

theorem brsFrom_index_ge (k : Nat) (vs : List (ℚ → ℚ)) :
    ∀ b ∈ brsFrom k vs, ∃ l : Nat, k ≤ l ∧ b.1 = (l : ℚ) := by
  induction vs generalizing k with
  | nil => intro b hb; simp [brsFrom] at hb
  | cons v t ih =>
    intro b hb
    rw [brsFrom, List.mem_cons] at hb
    rcases hb with rfl | hb
    · exact ⟨k, le_refl k, rfl⟩
    · obtain ⟨l, hl, e⟩ := ih (k + 1) b hb
      exact ⟨l, by omega, e⟩

theorem chain_brsFrom (dom : List ℚ) (vs : List (ℚ → ℚ)) (k j : Nat) (hj : j < vs.length)
    (hc : ((k + j : Nat) : ℚ) ∈ dom) (x0 : ℚ) :
    chain dom ((k + j : Nat) : ℚ) (brsFrom k vs) x0 = vs[j] x0 := by
  induction vs generalizing k j with
  | nil => simp at hj
  | cons v t ih =>
    rw [brsFrom, chain]
    cases j with
    | zero =>
      rw [Nat.add_zero] at hc ⊢
      rw [lagrange_indicator _ hc, if_pos rfl, one_mul, sub_self, zero_mul, add_zero]
      rw [chain_skip dom _ hc]
      · rfl
      · intro b hb e
        obtain ⟨l, hl, e'⟩ := brsFrom_index_ge (k + 1) t b hb
        rw [e'] at e
        have := Nat.cast_injective (R := ℚ) e
        omega
    | succ j =>
      have hne : ((k + (j + 1) : Nat) : ℚ) ≠ (k : ℚ) := by
        intro e
        have := Nat.cast_injective (R := ℚ) e
        omega
      rw [lagrange_indicator _ hc, if_neg hne, zero_mul, zero_add, sub_zero, one_mul]
      have e : k + (j + 1) = (k + 1) + j := by omega
      rw [e] at hc ⊢
      rw [ih (k + 1) j (by simpa using hj) hc]
      rfl

/-- **the if-chain selects the branch of the drawn category** (for every category in the support). -/
theorem transform_categorical_select (vs : List (ℚ → ℚ)) (i : Nat) (hi : i < vs.length) (x0 : ℚ) :
    chain (catDom vs.length) (i : ℚ) (brsFrom 0 vs) x0 = vs[i] x0 := by
  have hc : ((0 + i : Nat) : ℚ) ∈ catDom vs.length := by
    rw [Nat.zero_add]
    unfold catDom
    exact List.mem_map_of_mem (f := fun i : ℕ => (i : ℚ)) (List.mem_range.mpr hi)
  have := chain_brsFrom (catDom vs.length) vs 0 i hi hc x0
  rwa [Nat.zero_add] at this

/-- **`--transform_categoricals` preserves the weighted outcomes of the assigned variable**: drawing the category
`i` with weight `p_i` and running the chain gives the same weighted list as the original choice
`x = v₀ {p₀} … v_k {p_k}` evaluated at the old value `x0`. -/
theorem transform_categorical_outcomes (ps : List ℚ) (vs : List (ℚ → ℚ)) (h : ps.length = vs.length) (x0 : ℚ) :
    ps.zipIdx.map (fun pi => (pi.1, chain (catDom vs.length) (pi.2 : ℚ) (brsFrom 0 vs) x0)) =
      (ps.zip vs).map (fun pv => (pv.1, pv.2 x0)) := by
  apply List.ext_getElem
  · simp [h]
  · intro n h1 h2
    have hn : n < vs.length := by simpa [h] using h1
    simp only [List.getElem_map, List.getElem_zipIdx, List.getElem_zip, Nat.zero_add]
    rw [transform_categorical_select vs n hn x0]

example : chain (catDom 3) 1 (brsFrom 0 [fun x => x + 1, fun x => x - 1, fun _ => 7]) 10 = 9 := by
  have := transform_categorical_select [fun x => x + 1, fun x => x - 1, fun _ => (7 : ℚ)] 1 (by simp) 10
  simp only [List.length_cons, List.length_nil, Nat.cast_one, List.getElem_cons_succ,
    List.getElem_cons_zero] at this
  rw [this]; norm_num

/-- the draw really produces outcomes (weights 1/4, 3/4) on a concrete input -/
example : (match evalRhs ⟨[], []⟩ (.dist "Categorical" [.num (1/4), .num (3/4)]) with
    | .ok o => o.map (fun t => t.1)
    | .error _ => []) = [1/4, 3/4] := by
  decide +kernel

end Polar.Indicator
