import Mathlib.Tactic
import Polar.BayesNet
import PolarProofs.BayesNetComb

/-! C15, part 2 — the law of one iteration of the generated program is the joint law of the network. -/

namespace Polar.BN

/-! ### expectations over weighted outcome lists -/

@[simp] lemma expectL_nil {g : St → ℚ} : expectL [] g = 0 := rfl
lemma expectL_cons (p : St × ℚ) (d : List (St × ℚ)) (g : St → ℚ) :
    expectL (p :: d) g = p.2 * g p.1 + expectL d g := by
  simp [expectL]
lemma expectL_append (d e : List (St × ℚ)) (g : St → ℚ) :
    expectL (d ++ e) g = expectL d g + expectL e g := by
  simp [expectL]

lemma expectL_scale (w : ℚ) (d : List (St × ℚ)) (g : St → ℚ) :
    expectL (d.map (fun q => (q.1, w * q.2))) g = w * expectL d g := by
  induction d with
  | nil => simp
  | cons q d ih =>
    rw [List.map_cons, expectL_cons, expectL_cons, ih]
    ring

lemma expectL_bind (d : List (St × ℚ)) (f : St → List (St × ℚ)) (g : St → ℚ) :
    expectL (d.flatMap (fun p => (f p.1).map (fun q => (q.1, p.2 * q.2)))) g
      = expectL d (fun σ => expectL (f σ) g) := by
  induction d with
  | nil => simp
  | cons p d ih =>
    rw [List.flatMap_cons, expectL_append, ih, expectL_cons, expectL_scale]

lemma expectL_range (n : ℕ) (st : ℕ → St) (w : ℕ → ℚ) (h : St → ℚ) :
    expectL ((List.range n).map (fun i => (st i, w i))) h = ((List.range n).map (fun i => w i * h (st i))).sum := by
  simp [expectL, List.map_map, Function.comp_def]

lemma expectL_genLawAux_cons (net : Net) (v : ℕ) (vs : List ℕ) (σ : St) (g : St → ℚ) (var : Var)
    (hv : net[v]? = some var) :
    expectL (genLawAux net (v :: vs) σ) g
      = ((List.range var.dom).map (fun i => stepProb net v σ i * expectL (genLawAux net vs (upd σ v i)) g)).sum := by
  simp only [genLawAux]
  rw [expectL_bind (step net v σ) (genLawAux net vs) g]
  simp only [step, hv]
  exact expectL_range _ _ _ _

/-! ### the probability of one path -/

/-- probability that the walk along `vs` started in `σ` assigns to every visited variable the value `a` has -/
def pathProb (net : Net) (a : St) : List ℕ → St → ℚ
  | [], _ => 1
  | v :: vs, σ => stepProb net v σ (a v) * pathProb net a vs (upd σ v (a v))

lemma agree_iff (n : ℕ) (τ a : St) :
    ((List.range n).all (fun u => τ u == a u)) = true ↔ ∀ u, u < n → τ u = a u := by
  simp [List.all_eq_true]

lemma domOf_eq {net : Net} {v : ℕ} {var : Var} (h : net[v]? = some var) : domOf net v = var.dom := by
  simp [domOf, h]

open Classical in
/-- mass of the walk at the assignment `a` = probability of the unique path that produces `a` -/
lemma massAt_genLawAux (net : Net) (n : ℕ) (a : St) :
    ∀ (vs : List ℕ) (σ : St), vs.Nodup → (∀ v ∈ vs, v < n ∧ v < net.length ∧ a v < domOf net v) →
      massAt n (genLawAux net vs σ) a
        = if (∀ u, u < n → u ∉ vs → σ u = a u) then pathProb net a vs σ else 0 := by
  intro vs
  induction vs with
  | nil =>
    intro σ _ _
    simp only [massAt, genLawAux, expectL_cons, expectL_nil, pathProb, agree_iff]
    by_cases h : ∀ u, u < n → σ u = a u
    · simp
    · simp [h]
  | cons v vs ih =>
    intro σ hnd hvs
    obtain ⟨hvn, hvl, hav⟩ := hvs v List.mem_cons_self
    have hvnot : v ∉ vs := (List.nodup_cons.mp hnd).1
    obtain ⟨var, hvar⟩ : ∃ var, net[v]? = some var := ⟨net[v], List.getElem?_eq_getElem hvl⟩
    rw [domOf_eq hvar] at hav
    unfold massAt
    rw [expectL_genLawAux_cons net v vs σ _ var hvar]
    have hterm : ∀ i, i < var.dom → i ≠ a v →
        stepProb net v σ i * expectL (genLawAux net vs (upd σ v i))
          (fun τ => if ((List.range n).all (fun u => τ u == a u)) = true then 1 else 0) = 0 := by
      intro i _ hne
      have := ih (upd σ v i) (List.nodup_cons.mp hnd).2 (fun w hw => hvs w (List.mem_cons_of_mem _ hw))
      unfold massAt at this
      rw [this, if_neg, mul_zero]
      intro hall
      have := hall v hvn hvnot
      simp [upd] at this
      exact hne this
    rw [sum_range_single _ var.dom (a v) hterm, if_pos hav]
    have := ih (upd σ v (a v)) (List.nodup_cons.mp hnd).2 (fun w hw => hvs w (List.mem_cons_of_mem _ hw))
    unfold massAt at this
    rw [this]
    by_cases hc : ∀ u, u < n → u ∉ v :: vs → σ u = a u
    · rw [if_pos hc, if_pos, pathProb]
      intro u hu hnot
      by_cases huv : u = v
      · subst huv; simp [upd]
      · simp only [upd, if_neg huv]
        exact hc u hu (by simp [huv, hnot])
    · rw [if_neg hc, if_neg, mul_zero]
      intro hall
      apply hc
      intro u hu hnot
      have huv : u ≠ v := fun h => hnot (by simp [h])
      have := hall u hu (fun h => hnot (List.mem_cons_of_mem _ h))
      simpa [upd, huv] using this

/-! ### every step is a probability distribution: total mass 1 -/

lemma sum_eq_sum_range_getD (l : List ℚ) :
    l.sum = ((List.range l.length).map (fun j => l.getD j 0)).sum := by
  induction l using List.reverseRecOn with
  | nil => simp
  | append_singleton l x ih =>
    rw [List.sum_append, List.length_append, List.length_singleton, sum_range_succ']
    have : (List.range l.length).map (fun j => (l ++ [x]).getD j 0) = (List.range l.length).map (fun j => l.getD j 0) := by
      apply List.map_congr_left
      intro j hj
      have hj := List.mem_range.mp hj
      simp [List.getD_eq_getElem?_getD, List.getElem?_append_left hj]
    rw [this, ← ih]
    simp [List.getD_eq_getElem?_getD]

lemma sum_drawProb (row : List ℚ) (dom : ℕ) (hd : 0 < dom) :
    ((List.range dom).map (fun i => drawProb row dom i)).sum = 1 := by
  obtain ⟨d, rfl⟩ : ∃ d, dom = d + 1 := ⟨dom - 1, by omega⟩
  rw [sum_range_succ']
  have h1 : (List.range d).map (fun i => drawProb row (d + 1) i) = (List.range d).map (fun j => row.getD j 0) := by
    apply List.map_congr_left
    intro i hi
    have hi := List.mem_range.mp hi
    simp [drawProb, hi]
  have h2 : drawProb row (d + 1) d = 1 - ((List.range d).map (fun j => row.getD j 0)).sum := by
    simp [drawProb]
  rw [h1, h2]
  ring

lemma total_genLawAux (net : Net) :
    ∀ (vs : List ℕ) (σ : St), (∀ v ∈ vs, ∀ var, net[v]? = some var → 0 < var.dom) →
      expectL (genLawAux net vs σ) (fun _ => 1) = 1 := by
  intro vs
  induction vs with
  | nil => intro σ _; simp [genLawAux, expectL_cons]
  | cons v vs ih =>
    intro σ h
    cases hvar : net[v]? with
    | none =>
      simp only [genLawAux, step, hvar, List.flatMap_cons, List.flatMap_nil, List.append_nil]
      rw [expectL_scale, one_mul]
      exact ih σ (fun w hw => h w (List.mem_cons_of_mem _ hw))
    | some var =>
      rw [expectL_genLawAux_cons net v vs σ _ var hvar]
      have : (List.range var.dom).map (fun i => stepProb net v σ i * expectL (genLawAux net vs (upd σ v i)) (fun _ => 1))
          = (List.range var.dom).map (fun i => drawProb (var.cpt.getD (branchRow (parentDoms net var) (var.parents.map σ)) []) var.dom i) := by
        apply List.map_congr_left
        intro i _
        rw [ih (upd σ v i) (fun w hw => h w (List.mem_cons_of_mem _ hw)), mul_one]
        simp [stepProb, hvar]
      rw [this]
      exact sum_drawProb _ _ (h v List.mem_cons_self var hvar)

/-! ### outcomes stay inside the domains -/

lemma outcomes_genLawAux (net : Net) :
    ∀ (vs : List ℕ) (σ : St) (p : St × ℚ), p ∈ genLawAux net vs σ →
      (∀ u ∈ vs, u < net.length → p.1 u < domOf net u) ∧ (∀ u, u ∉ vs → p.1 u = σ u) := by
  intro vs
  induction vs with
  | nil =>
    intro σ p hp
    simp only [genLawAux, List.mem_singleton] at hp
    subst hp
    exact ⟨fun u hu => (by cases hu), fun _ _ => rfl⟩
  | cons v vs ih =>
    intro σ p hp
    simp only [genLawAux, List.mem_flatMap, List.mem_map] at hp
    obtain ⟨s, hs, q, hq, rfl⟩ := hp
    obtain ⟨h1, h2⟩ := ih s.1 q hq
    have hs' : (∀ u, u ≠ v → s.1 u = σ u) ∧ (v < net.length → s.1 v < domOf net v) := by
      cases hvar : net[v]? with
      | none =>
        simp only [step, hvar, List.mem_singleton] at hs
        subst hs
        refine ⟨fun _ _ => rfl, fun hv => ?_⟩
        rw [List.getElem?_eq_getElem hv] at hvar
        cases hvar
      | some var =>
        simp only [step, hvar, List.mem_map, List.mem_range] at hs
        obtain ⟨i, hi, rfl⟩ := hs
        refine ⟨fun u hu => by simp [upd, hu], fun _ => ?_⟩
        rw [domOf_eq hvar]
        simpa [upd] using hi
    refine ⟨fun u hu hul => ?_, fun u hu => ?_⟩
    · by_cases huvs : u ∈ vs
      · exact h1 u huvs hul
      · rw [h2 u huvs]
        have : u = v := by
          rcases List.mem_cons.mp hu with h | h
          · exact h
          · exact absurd h huvs
        subst this
        exact hs'.2 hul
    · have huv : u ≠ v := fun h => hu (by simp [h])
      have huvs : u ∉ vs := fun h => hu (List.mem_cons_of_mem _ h)
      rw [h2 u huvs, hs'.1 u huv]

/-! ### along a topological order the path probability is the product of the CPT entries -/

structure VarWF (net : Net) (var : Var) : Prop where
  rows : var.cpt.length = numRows (parentDoms net var)
  row : ∀ r ∈ var.cpt, r.length = var.dom ∧ r.sum = 1
  parents : ∀ p ∈ var.parents, p < net.length
  dom_pos : 0 < var.dom

lemma wf_var {net : Net} (h : Net.wf net = true) {v : ℕ} {var : Var} (hv : net[v]? = some var) :
    VarWF net var := by
  have hmem : var ∈ net := List.mem_of_getElem? hv
  have := (List.all_eq_true.mp h) var hmem
  simp only [Var.wf, Bool.and_eq_true, beq_iff_eq, List.all_eq_true, decide_eq_true_eq] at this
  obtain ⟨⟨⟨h1, h2⟩, h3⟩, h4⟩ := this
  exact ⟨h1, h2, h3, h4⟩

lemma validComb_map (net : Net) (a : St) (ps : List ℕ) (h : ∀ p ∈ ps, a p < domOf net p) :
    validComb (ps.map (domOf net)) (ps.map a) = true := by
  induction ps with
  | nil => rfl
  | cons p ps ih =>
    simp only [List.map_cons, validComb_cons]
    exact ⟨h p List.mem_cons_self, ih (fun q hq => h q (List.mem_cons_of_mem _ hq))⟩

lemma branchRow_valid {pd c : List ℕ} (h : validComb pd c = true) : branchRow pd c = rowIndex pd c := by
  have := rowIndex_lt h
  simp only [branchRow, idxOf_combos h]
  split_ifs <;> omega

lemma drawProb_eq {row : List ℚ} {dom i : ℕ} (hl : row.length = dom) (hs : row.sum = 1) (hi : i < dom) :
    drawProb row dom i = row.getD i 0 := by
  unfold drawProb
  by_cases h1 : i + 1 < dom
  · rw [if_pos h1]
  · have h2 : i + 1 = dom := by omega
    rw [if_neg h1, if_pos h2]
    have := sum_eq_sum_range_getD row
    rw [hl, ← h2, sum_range_succ', hs] at this
    rw [← h2, Nat.add_sub_cancel]
    linarith

lemma stepProb_eq_cptProb {net : Net} {v : ℕ} {var : Var} (hv : net[v]? = some var) (hw : VarWF net var)
    {σ a : St} (hσ : ∀ p ∈ var.parents, σ p = a p) (ha : ∀ p ∈ var.parents, a p < domOf net p)
    (hav : a v < var.dom) : stepProb net v σ (a v) = cptProb net v a := by
  have hmap : var.parents.map σ = var.parents.map a := List.map_congr_left hσ
  have hvalid : validComb (parentDoms net var) (var.parents.map a) = true := validComb_map net a _ ha
  simp only [stepProb, cptProb, hv, hmap, branchRow_valid hvalid]
  have hr : rowIndex (parentDoms net var) (var.parents.map a) < var.cpt.length := by
    rw [hw.rows]; exact rowIndex_lt hvalid
  have hrow : var.cpt.getD (rowIndex (parentDoms net var) (var.parents.map a)) [] ∈ var.cpt := by
    rw [List.getD_eq_getElem?_getD, List.getElem?_eq_getElem hr]
    exact List.getElem_mem hr
  obtain ⟨h1, h2⟩ := hw.row _ hrow
  exact drawProb_eq h1 h2 hav

lemma pathProb_eq_prod (net : Net) (hwf : Net.wf net = true) (a : St)
    (ha : ∀ u, u < net.length → a u < domOf net u) :
    ∀ (vs done : List ℕ) (σ : St), topoOK net done vs = true → (∀ p ∈ done, σ p = a p) →
      (∀ v ∈ vs, v < net.length) →
      pathProb net a vs σ = prodRat (vs.map (fun v => cptProb net v a)) := by
  intro vs
  induction vs with
  | nil => intro _ _ _ _ _; rfl
  | cons v vs ih =>
    intro done σ ht hd hvs
    have hvl := hvs v List.mem_cons_self
    obtain ⟨var, hvar⟩ : ∃ var, net[v]? = some var := ⟨net[v], List.getElem?_eq_getElem hvl⟩
    simp only [topoOK, parentsOK, hvar, Bool.and_eq_true, List.all_eq_true, List.contains_iff_mem] at ht
    have hw := wf_var hwf hvar
    have hstep : stepProb net v σ (a v) = cptProb net v a :=
      stepProb_eq_cptProb hvar hw (fun p hp => hd p (ht.1 p hp)) (fun p hp => ha p (hw.parents p hp))
        (by rw [← domOf_eq hvar]; exact ha v hvl)
    have hrest := ih (v :: done) (upd σ v (a v)) ht.2 (fun p hp => by
      by_cases hpv : p = v
      · subst hpv; simp [upd]
      · simp only [upd, if_neg hpv]
        rcases List.mem_cons.mp hp with h | h
        · exact absurd h hpv
        · exact hd p h) (fun w hw => hvs w (List.mem_cons_of_mem _ hw))
    simp only [pathProb, hstep, hrest, List.map_cons, prodRat, List.foldr_cons]

lemma nodupB_iff (l : List ℕ) : nodupB l = true ↔ l.Nodup := by
  induction l with
  | nil => simp [nodupB]
  | cons x xs ih => simp [nodupB, ih]

lemma prodRat_eq_prod (l : List ℚ) : prodRat l = l.prod := by
  induction l with
  | nil => rfl
  | cons x xs ih =>
    rw [List.prod_cons, ← ih]
    rfl

structure IsTopo (net : Net) (o : List ℕ) : Prop where
  perm : o.Perm (List.range net.length)
  nodup : o.Nodup
  lt : ∀ v ∈ o, v < net.length
  ok : topoOK net [] o = true

lemma isTopo_iff {net : Net} {o : List ℕ} (h : isTopo net o = true) : IsTopo net o := by
  simp only [isTopo, Bool.and_eq_true, beq_iff_eq, List.all_eq_true, decide_eq_true_eq, nodupB_iff] at h
  obtain ⟨⟨⟨h1, h2⟩, h3⟩, h4⟩ := h
  refine ⟨?_, h3, h2, h4⟩
  apply List.Subperm.perm_of_length_le
  · exact List.subperm_of_subset h3 (fun v hv => List.mem_range.mpr (h2 v hv))
  · simp [h1]

/-- **gen_draws_joint, pointwise.**  Started in any state, one iteration of the generated program ends in
the full assignment `a` with probability `jointProb a` (the product of the CPT entries). -/
theorem massAt_genLawAux_topo (net : Net) (hwf : Net.wf net = true) (o : List ℕ) (ho : IsTopo net o)
    (σ a : St) (ha : ∀ u, u < net.length → a u < domOf net u) :
    massAt net.length (genLawAux net o σ) a = jointProb net a := by
  rw [massAt_genLawAux net net.length a o σ ho.nodup
    (fun v hv => ⟨ho.lt v hv, ho.lt v hv, ha v (ho.lt v hv)⟩), if_pos]
  · rw [pathProb_eq_prod net hwf a ha o [] σ ho.ok (fun p hp => by cases hp) ho.lt]
    unfold jointProb
    rw [prodRat_eq_prod, prodRat_eq_prod]
    exact (ho.perm.map _).prod_eq
  · intro u hu hnot
    exact absurd (ho.perm.mem_iff.mpr (List.mem_range.mpr hu)) hnot

/-! ### from point masses to expectations -/

lemma validComb_iff_forall {ds l : List ℕ} :
    validComb ds l = true ↔ l.length = ds.length ∧ ∀ i, i < ds.length → l.getD i 0 < ds.getD i 0 := by
  induction ds generalizing l with
  | nil => cases l <;> simp [validComb]
  | cons d ds ih =>
    cases l with
    | nil => simp [validComb]
    | cons x xs =>
      rw [validComb_cons, ih]
      constructor
      · rintro ⟨hx, hl, hall⟩
        refine ⟨by simp [hl], fun i hi => ?_⟩
        cases i with
        | zero => simpa using hx
        | succ i => simpa using hall i (by simpa using hi)
      · rintro ⟨hl, hall⟩
        refine ⟨by simpa using hall 0 (by simp), by simpa using hl, fun i hi => ?_⟩
        simpa using hall (i + 1) (by simpa using hi)

lemma valAt_map_range (n : ℕ) (τ : St) (u : ℕ) (hu : u < n) : valAt ((List.range n).map τ) u = τ u := by
  simp [valAt, List.getD_eq_getElem?_getD, List.getElem?_map, List.getElem?_range hu]

lemma domOf_eq_getD (net : Net) (u : ℕ) : domOf net u = (net.map Var.dom).getD u 0 := by
  unfold domOf
  rw [List.getD_eq_getElem?_getD, List.getElem?_map]
  cases net[u]? <;> rfl

/-- the restriction of a state with values inside the domains is one of the enumerated assignments -/
lemma restrict_mem_assignments (net : Net) (τ : St) (hτ : ∀ u, u < net.length → τ u < domOf net u) :
    (List.range net.length).map τ ∈ assignments net := by
  unfold assignments
  rw [mem_combos_iff, validComb_iff_forall]
  refine ⟨by simp, fun i hi => ?_⟩
  have hi' : i < net.length := by simpa using hi
  rw [← domOf_eq_getD]
  have := valAt_map_range net.length τ i hi'
  unfold valAt at this
  rw [this]
  exact hτ i hi'

/-- among the enumerated assignments exactly the restriction of τ agrees with τ -/
lemma agree_iff_eq_restrict (net : Net) (τ : St) (a : List ℕ) (ha : a ∈ assignments net) :
    (∀ u, u < net.length → τ u = valAt a u) ↔ a = (List.range net.length).map τ := by
  have hlen : a.length = net.length := by
    have := validComb_length (mem_combos_iff.mp ha)
    simpa using this
  constructor
  · intro h
    apply List.ext_getElem
    · simp [hlen]
    · intro i h1 h2
      have hi : i < net.length := by omega
      have := h i hi
      simp only [valAt, List.getD_eq_getElem?_getD, List.getElem?_eq_getElem h1, Option.getD_some] at this
      simp [this]
  · rintro rfl u hu
    exact (valAt_map_range _ τ u hu).symm

/-- `g` looks only at the network's variables -/
def Local (n : ℕ) (g : St → ℚ) : Prop := ∀ τ τ' : St, (∀ u, u < n → τ u = τ' u) → g τ = g τ'

lemma sum_map_single_of_nodup {α : Type} (l : List α) (hl : l.Nodup) (b : α) (hb : b ∈ l) (f : α → ℚ)
    (h : ∀ a ∈ l, a ≠ b → f a = 0) : (l.map f).sum = f b := by
  induction l with
  | nil => cases hb
  | cons x xs ih =>
    rw [List.map_cons, List.sum_cons]
    obtain ⟨hx, hxs⟩ := List.nodup_cons.mp hl
    by_cases hxb : x = b
    · subst hxb
      have : (xs.map f).sum = 0 := by
        apply List.sum_eq_zero
        intro y hy
        obtain ⟨a, ha, rfl⟩ := List.mem_map.mp hy
        exact h a (List.mem_cons_of_mem _ ha) (fun e => hx (e ▸ ha))
      rw [this, add_zero]
    · have hb' : b ∈ xs := by
        rcases List.mem_cons.mp hb with e | e
        · exact absurd e.symm hxb
        · exact e
      rw [h x List.mem_cons_self hxb, zero_add]
      exact ih hxs hb' (fun a ha => h a (List.mem_cons_of_mem _ ha))

lemma point_sum (net : Net) (g : St → ℚ) (hg : Local net.length g) (τ : St)
    (hτ : ∀ u, u < net.length → τ u < domOf net u) :
    ((assignments net).map (fun a =>
      (if ((List.range net.length).all (fun u => τ u == valAt a u)) = true then (1 : ℚ) else 0) * g (valAt a))).sum
      = g τ := by
  have hmem := restrict_mem_assignments net τ hτ
  rw [sum_map_single_of_nodup (assignments net) (nodup_combos _) ((List.range net.length).map τ) hmem]
  · rw [if_pos, one_mul]
    · exact hg _ _ (fun u hu => valAt_map_range _ τ u hu)
    · rw [agree_iff]
      exact fun u hu => (valAt_map_range _ τ u hu).symm
  · intro a ha hne
    rw [if_neg, zero_mul]
    rw [agree_iff, agree_iff_eq_restrict net τ a ha]
    exact hne

/-- an expectation over outcomes inside the domains is the sum over the assignments of mass × value -/
lemma expectL_eq_sum_massAt (net : Net) (g : St → ℚ) (hg : Local net.length g) :
    ∀ d : List (St × ℚ), (∀ p ∈ d, ∀ u, u < net.length → p.1 u < domOf net u) →
      expectL d g = ((assignments net).map (fun a => massAt net.length d (valAt a) * g (valAt a))).sum := by
  intro d
  induction d with
  | nil => intro _; simp [massAt]
  | cons p d ih =>
    intro h
    rw [expectL_cons, ih (fun q hq => h q (List.mem_cons_of_mem _ hq))]
    have : ∀ a : List ℕ, massAt net.length (p :: d) (valAt a) * g (valAt a)
        = p.2 * ((if ((List.range net.length).all (fun u => p.1 u == valAt a u)) = true then (1 : ℚ) else 0) * g (valAt a))
          + massAt net.length d (valAt a) * g (valAt a) := by
      intro a
      simp only [massAt, expectL_cons]
      ring
    simp only [this]
    rw [List.sum_map_add, List.sum_map_mul_left, point_sum net g hg p.1 (h p List.mem_cons_self)]

/-- **gen_draws_joint / genLaw_eq_joint.**  For every function `g` of the network's variables, the expectation
of `g` after one iteration of the generated program — started in an arbitrary state — is its expectation under
the joint law of the network. -/
theorem expectL_genLawAux_topo (net : Net) (hwf : Net.wf net = true) (o : List ℕ) (ho : IsTopo net o)
    (σ : St) (g : St → ℚ) (hg : Local net.length g) :
    expectL (genLawAux net o σ) g = expect net g := by
  have hval : ∀ p ∈ genLawAux net o σ, ∀ u, u < net.length → p.1 u < domOf net u := by
    intro p hp u hu
    exact (outcomes_genLawAux net o σ p hp).1 u (ho.perm.mem_iff.mpr (List.mem_range.mpr hu)) hu
  rw [expectL_eq_sum_massAt net g hg _ hval]
  unfold expect
  apply congrArg
  apply List.map_congr_left
  intro a ha
  rw [massAt_genLawAux_topo net hwf o ho σ (valAt a)]
  intro u hu
  have := (validComb_iff_forall.mp (mem_combos_iff.mp ha)).2 u (by simpa using hu)
  rw [domOf_eq_getD]
  exact this

theorem genLaw_eq_joint (net : Net) (hwf : Net.wf net = true) (o : List ℕ) (hto : topoOrder net = some o)
    (ho : isTopo net o = true) (σ : St) (g : St → ℚ) (hg : Local net.length g) :
    expectL (genLaw net σ) g = expect net g := by
  simp only [genLaw, hto]
  exact expectL_genLawAux_topo net hwf o (isTopo_iff ho) σ g hg

/-- **joint_sums_to_one.**  If every CPT row sums to 1 (and the network is acyclic), the joint table sums to 1. -/
theorem joint_sums_to_one (net : Net) (hwf : Net.wf net = true) (o : List ℕ) (ho : isTopo net o = true) :
    ((joint net).map (fun p => p.2)).sum = 1 := by
  have h1 := expectL_genLawAux_topo net hwf o (isTopo_iff ho) (fun _ => 0) (fun _ => 1) (fun _ _ _ => rfl)
  rw [total_genLawAux net o _ (fun v _ var hvar => (wf_var hwf hvar).dom_pos)] at h1
  rw [h1]
  simp [expect, joint, List.map_map, Function.comp_def]

end Polar.BN
