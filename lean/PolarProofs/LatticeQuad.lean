import Mathlib.Tactic
import Polar.Lattice

/-! C16, quadratic fields: the pair arithmetic of `Polar/Lattice.lean` (`Quad`, used by the op
`lattice_check_quad` to decide `∏ bᵢ^eᵢ = 1` for bases `a + b√D`) is exact.  Stated for an arbitrary
field `K` of characteristic 0 containing an element `s` with `s² = D` such that `1, s` are linearly
independent over ℚ (i.e. `D` is not a rational square): ℚ(√2) ⊂ ℝ, ℚ(i) ⊂ ℂ, … -/

namespace Polar.Lattice

variable {K : Type*} [Field K] [CharZero K]

/-- the element `a + b·s` of `K` -/
def Quad.toK (s : K) (x : Quad) : K := (x.a : K) + (x.b : K) * s

/-- `∏ toK(bᵢ)^eᵢ` with the `zpow` of `K` -/
def zprodK (s : K) : List Quad → List ℤ → K
  | b :: bs, e :: es => b.toK s ^ e * zprodK s bs es
  | _, _ => 1

section
variable (s : K) (D : ℤ) (hs : s * s = (D : K))
include hs

lemma Quad.toK_mul (x y : Quad) : (Quad.mul D x y).toK s = x.toK s * y.toK s := by
  simp only [Quad.toK, Quad.mul]
  push_cast
  linear_combination (-(x.b : K) * (y.b : K)) * hs

omit hs [CharZero K] in
lemma Quad.toK_one : (Quad.one).toK s = 1 := by simp [Quad.toK, Quad.one]

lemma Quad.toK_npow (x : Quad) (n : ℕ) : (Quad.npow D x n).toK s = x.toK s ^ n := by
  induction n with
  | zero => simp [Quad.npow, Quad.toK_one]
  | succ n ih => rw [Quad.npow, Quad.toK_mul s D hs, ih, pow_succ]

variable (hind : ∀ a b : ℚ, (a : K) + (b : K) * s = 0 → a = 0 ∧ b = 0)
include hind

lemma Quad.toK_inv (x : Quad) (hx : x.toK s ≠ 0) : (Quad.inv D x).toK s = (x.toK s)⁻¹ := by
  have hconj : (x.a : K) - (x.b : K) * s ≠ 0 := by
    intro h
    have := hind x.a (-x.b) (by push_cast; linear_combination h)
    apply hx
    have hb : x.b = 0 := by linarith [this.2]
    simp [Quad.toK, this.1, hb]
  have hnorm : ((x.a * x.a - (D : ℚ) * x.b * x.b : ℚ) : K) = x.toK s * ((x.a : K) - (x.b : K) * s) := by
    simp only [Quad.toK]
    push_cast
    linear_combination ((x.b : K) * (x.b : K)) * hs
  have hn0 : ((x.a * x.a - (D : ℚ) * x.b * x.b : ℚ) : K) ≠ 0 := by
    rw [hnorm]; exact mul_ne_zero hx hconj
  apply eq_inv_of_mul_eq_one_left
  simp only [Quad.inv]
  have key : (Quad.toK s ⟨x.a / (x.a * x.a - (D : ℚ) * x.b * x.b), -x.b / (x.a * x.a - (D : ℚ) * x.b * x.b)⟩)
      = ((x.a : K) - (x.b : K) * s) / ((x.a * x.a - (D : ℚ) * x.b * x.b : ℚ) : K) := by
    simp only [Quad.toK]
    push_cast
    ring
  rw [key, div_mul_eq_mul_div, mul_comm, ← hnorm, div_self hn0]

lemma Quad.toK_zpow (x : Quad) (hx : x.toK s ≠ 0) (e : ℤ) : (Quad.zpow D x e).toK s = x.toK s ^ e := by
  cases e with
  | ofNat n => simp [Quad.zpow, Quad.toK_npow s D hs]
  | negSucc n =>
    have hp : (Quad.npow D x (n + 1)).toK s ≠ 0 := by
      rw [Quad.toK_npow s D hs]; exact pow_ne_zero _ hx
    simp only [Quad.zpow]
    rw [Quad.toK_inv s D hs hind _ hp, Quad.toK_npow s D hs, zpow_negSucc]

lemma toK_prodPowQuad (bs : List Quad) (hb : ∀ b ∈ bs, b.toK s ≠ 0) (es : List ℤ) :
    (prodPowQuad D bs es).toK s = zprodK s bs es := by
  induction bs generalizing es with
  | nil => cases es <;> simp [prodPowQuad, zprodK, Quad.toK_one]
  | cons b bs ih => cases es with
    | nil => simp [prodPowQuad, zprodK, Quad.toK_one]
    | cons e es =>
      simp only [prodPowQuad, zprodK]
      rw [Quad.toK_mul s D hs, Quad.toK_zpow s D hs hind b (hb b (by simp)),
        ih (fun x hx => hb x (by simp [hx]))]

omit hs in
lemma Quad.isOne_iff (x : Quad) : x.isOne = true ↔ x.toK s = 1 := by
  simp only [Quad.isOne, Bool.and_eq_true, beq_iff_eq]
  constructor
  · rintro ⟨ha, hb⟩
    simp [Quad.toK, ha, hb]
  · intro h
    have := hind (x.a - 1) x.b (by
      simp only [Quad.toK] at h
      push_cast
      linear_combination h)
    exact ⟨by linarith [this.1], this.2⟩

/-- **`relationHoldsQuad` decides `∏ (aᵢ + bᵢ√D)^eᵢ = 1`** in any field containing ℚ(√D) -/
theorem relationHoldsQuad_iff (bs : List Quad) (hb : ∀ b ∈ bs, b.toK s ≠ 0) (es : List ℤ) :
    relationHoldsQuad D bs es = true ↔ es.length = bs.length ∧ zprodK s bs es = 1 := by
  simp only [relationHoldsQuad, Bool.and_eq_true, beq_iff_eq]
  rw [Quad.isOne_iff s hind, toK_prodPowQuad s D hs hind bs hb]

end

/-- non-vacuity: `K = ℚ` itself is excluded by the independence hypothesis, but the hypotheses are
satisfiable, e.g. in `ℂ` with `s = i`, `D = -1` -/
example : ∃ (s : ℂ) (D : ℤ), s * s = (D : ℂ) ∧
    ∀ a b : ℚ, (a : ℂ) + (b : ℂ) * s = 0 → a = 0 ∧ b = 0 := by
  refine ⟨Complex.I, -1, by simp, fun a b h => ?_⟩
  have hre := congrArg Complex.re h
  have him := congrArg Complex.im h
  simp at hre him
  exact ⟨hre, him⟩

end Polar.Lattice
