/-
  PolarProofs/PolyEval.lean — general lemmas about the reference semantics used by the validators of
  `PolarProofs/Validate.lean`:

  * the `Except` monad (`bind_ok`), the weighted bind `bindW` as the specification of the `for`-loops of
    `execBlock` / `WD.bindM`, inversion of the `for`-loops of `evalRhs` (`choice_loop`, `cat_loop`);
  * constant polynomials are closed under the operations (`const_add`, …) and `isConst?` is sound for `eval`;
  * `Store.get?` after `Store.set`.

  The evaluation homomorphism lemmas (`MPoly.eval_add`, `eval_mul`, …) are imported from
  `PolarProofs/SynthPoly.lean` (builder C14).  The loop and constant lemmas have the same statements as the ones
  inside `PolarProofs/SimModel.lean` (builder C12, namespace `SimProofs`); they are re-proved here so that this
  file does not depend on a file that is still being edited.
-/
import Mathlib.Tactic
import Polar.Sem
import PolarProofs.SynthPoly
open Polar

namespace Polar.VP

/-! ### Except -/

theorem bind_ok {α β : Type} {x : Except String α} {f : α → Except String β} {b : β} :
    (x >>= f) = .ok b ↔ ∃ a, x = .ok a ∧ f a = .ok b := by
  cases x with
  | error e => simp [bind, Except.bind]
  | ok a => simp [bind, Except.bind]

theorem throw_ne_ok {α : Type} {e : String} {a : α} : (throw e : Except String α) ≠ .ok a := by
  simp [throw, throwThe, MonadExceptOf.throw]

theorem pure_ok {α : Type} {a b : α} : (pure a : Except String α) = .ok b ↔ a = b := by
  simp [pure, Except.pure]

/-! ### weighted bind -/

/-- specification of the weighted bind used by `execBlock` / `WD.bindM` -/
def bindW : WD → (Path → M WD) → M WD
  | [], _ => pure []
  | (w, q) :: ds, f => do
    let a ← f q
    let b ← bindW ds f
    pure (a.map (fun x => (w * x.1, x.2)) ++ b)

theorem inner_loop (w : Rat) (d' : WD) (out : Array (Rat × Path)) :
    (forIn d' out (fun (x : Rat × Path) (s : Array (Rat × Path)) =>
        (pure (ForInStep.yield (s.push (w * x.1, x.2))) : M _)))
      = pure (out ++ (d'.map (fun x => (w * x.1, x.2))).toArray) := by
  induction d' generalizing out with
  | nil => simp
  | cons a t ih =>
    rw [List.forIn_cons, pure_bind]
    simp only []
    rw [ih]
    simp

theorem outer_loop (f : Path → M WD) (d : WD) (out : Array (Rat × Path)) :
    (forIn d out (fun (x : Rat × Path) (s : Array (Rat × Path)) => do
        let d' ← f x.2
        (pure (ForInStep.yield (s ++ (d'.map (fun y => (x.1 * y.1, y.2))).toArray)) : M _)))
      = (do let l ← bindW d f; pure (out ++ l.toArray)) := by
  induction d generalizing out with
  | nil => simp [bindW]
  | cons a t ih =>
    rw [List.forIn_cons]
    obtain ⟨w, q⟩ := a
    simp only [bindW, bind_assoc, pure_bind]
    cases hf : f q with
    | error e => rfl
    | ok d' =>
      have h := ih (out ++ (List.map (fun x => (w * x.1, x.2)) d').toArray)
      simp only [Except.bind, bind] at h ⊢
      rw [h]
      cases bindW t f with
      | error e => rfl
      | ok l => simp

theorem bindM_eq (d : WD) (f : Path → M WD) : WD.bindM d f = bindW d f := by
  unfold WD.bindM
  simp only [inner_loop, pure_bind]
  have := outer_loop f d #[]
  rw [this]
  cases bindW d f with
  | error e => rfl
  | ok l => simp [bind, Except.bind, pure, Except.pure]

theorem execBlock_nil (p : Path) : execBlock [] p = pure [(1, p)] := by
  rw [execBlock]

theorem execBlock_cons (s : Stmt) (rest : List Stmt) (p : Path) :
    execBlock (s :: rest) p = (do let d ← execStmt s p; bindW d (execBlock rest)) := by
  rw [execBlock]
  simp only [inner_loop, pure_bind]
  congr 1
  funext d
  have := outer_loop (execBlock rest) d #[]
  rw [this]
  cases bindW d (execBlock rest) with
  | error e => rfl
  | ok l => simp [bind, Except.bind, pure, Except.pure]

theorem bindW_nil_ok {f : Path → M WD} {D : WD} (h : bindW [] f = .ok D) : D = [] := by
  simp only [bindW, pure, Except.pure, Except.ok.injEq] at h
  exact h.symm

theorem bindW_cons_ok {w : Rat} {q : Path} {ds : WD} {f : Path → M WD} {D : WD}
    (h : bindW ((w, q) :: ds) f = .ok D) :
    ∃ a b, f q = .ok a ∧ bindW ds f = .ok b ∧ D = a.map (fun x => (w * x.1, x.2)) ++ b := by
  simp only [bindW] at h
  obtain ⟨a, ha, h⟩ := bind_ok.mp h
  obtain ⟨b, hb, h⟩ := bind_ok.mp h
  exact ⟨a, b, ha, hb, (pure_ok.mp h).symm⟩

/-! ### constant polynomials -/

theorem isConst_const (c : Rat) : MPoly.isConst? (MPoly.const c) = some c := by
  unfold MPoly.const
  split
  · subst_vars; rfl
  · rfl

theorem const_add (a b : Rat) : MPoly.add (MPoly.const a) (MPoly.const b) = MPoly.const (a + b) := by
  unfold MPoly.const MPoly.add
  by_cases ha : a = 0 <;> by_cases hb : b = 0 <;> simp [ha, hb, MPoly.insertTerm, Mono.cmp]

theorem const_neg (a : Rat) : MPoly.neg (MPoly.const a) = MPoly.const (-a) := by
  unfold MPoly.const MPoly.neg
  by_cases ha : a = 0 <;> simp [ha]

theorem const_sub (a b : Rat) : MPoly.sub (MPoly.const a) (MPoly.const b) = MPoly.const (a - b) := by
  unfold MPoly.sub
  rw [const_neg, const_add, sub_eq_add_neg]

theorem const_mul (a b : Rat) : MPoly.mul (MPoly.const a) (MPoly.const b) = MPoly.const (a * b) := by
  unfold MPoly.const MPoly.mul
  by_cases ha : a = 0 <;> by_cases hb : b = 0 <;>
    simp [ha, hb, MPoly.mulTerm, MPoly.add, MPoly.insertTerm, Mono.mul]

theorem const_pow (a : Rat) (k : Nat) : MPoly.pow (MPoly.const a) k = MPoly.const (a ^ k) := by
  induction k with
  | zero => simp [MPoly.pow, MPoly.one, MPoly.const]
  | succ k ih => rw [MPoly.pow, ih, const_mul, pow_succ, mul_comm]

theorem const_scale (c a : Rat) : MPoly.scale c (MPoly.const a) = MPoly.const (c * a) := by
  unfold MPoly.const MPoly.scale
  by_cases hc : c = 0 <;> by_cases ha : a = 0 <;> simp [hc, ha]

theorem one_eq_const : MPoly.one = MPoly.const 1 := by
  simp [MPoly.one, MPoly.const]

/-- a polynomial recognised as the constant `c` evaluates to `c` under every valuation -/
theorem isConst_sound {p : MPoly} {c : Rat} (h : MPoly.isConst? p = some c) (ρ : String → Rat) :
    MPoly.eval ρ p = c := by
  unfold MPoly.isConst? at h
  split at h
  · simp only [Option.some.injEq] at h
    subst h; rfl
  · simp only [Option.some.injEq] at h
    subst h
    simp [MPoly.eval_cons, MPoly.eval_nil, Mono.eval_nil]
  · cases h

/-! ### stores -/

theorem store_get_nil (y : String) : Store.get? [] y = none := rfl

theorem store_get_cons (z : String) (w : MPoly) (t : Store) (y : String) :
    Store.get? ((z, w) :: t) y = if z = y then some w else Store.get? t y := by
  simp only [Store.get?, List.find?]
  by_cases h : z = y
  · simp [h]
  · have : (z == y) = false := by simpa using h
    simp [this, h]

theorem store_get_set (s : Store) (x y : String) (v : MPoly) :
    (s.set x v).get? y = if y = x then some v else s.get? y := by
  induction s with
  | nil =>
    simp only [Store.set, store_get_cons, store_get_nil]
    by_cases h : y = x
    · simp [h]
    · have : ¬ x = y := fun h' => h h'.symm
      simp [h, this]
  | cons a t ih =>
    obtain ⟨z, w⟩ := a
    simp only [Store.set]
    by_cases hxz : x = z
    · subst hxz
      simp only [if_true, store_get_cons]
      by_cases h : y = x
      · simp [h]
      · have : ¬ x = y := fun h' => h h'.symm
        simp [h, this]
    · simp only [hxz, if_false]
      by_cases hlt : x < z
      · simp only [hlt, if_true, store_get_cons]
        by_cases h : y = x
        · simp [h]
        · have : ¬ x = y := fun h' => h h'.symm
          simp [h, this]
      · simp only [hlt, if_false, store_get_cons, ih]
        by_cases hz : z = y
        · have : ¬ y = x := by rintro rfl; exact hxz hz.symm
          simp [hz, this]
        · simp [hz]

/-! ### inversion of the loops of `evalRhs` -/

def SemAlt (s : Store) (atoms : List Atom) (alt : Expr × Expr) (o : Rat × MPoly × List Atom) : Prop :=
  Polar.evalConst s alt.2 = .ok o.1 ∧ Polar.evalExpr s alt.1 = .ok o.2.1 ∧ o.2.2 = atoms

theorem choice_loop (s : Store) (atoms : List Atom) (alts : List (Expr × Expr))
    (acc res : List (Rat × MPoly × List Atom))
    (h : (forIn alts acc (fun (x : Expr × Expr) (st : List (Rat × MPoly × List Atom)) => do
        let w ← Polar.evalConst s x.2
        let v ← Polar.evalExpr s x.1
        (pure (ForInStep.yield (st ++ [(w, v, atoms)])) : Polar.M _))) = .ok res) :
    ∃ l, res = acc ++ l ∧ List.Forall₂ (SemAlt s atoms) alts l := by
  induction alts generalizing acc with
  | nil =>
    simp only [List.forIn_nil, pure, Except.pure, Except.ok.injEq] at h
    exact ⟨[], by simp [h], List.Forall₂.nil⟩
  | cons a t ih =>
    rw [List.forIn_cons] at h
    obtain ⟨st, h1, h⟩ := bind_ok.mp h
    obtain ⟨w, hw, h1⟩ := bind_ok.mp h1
    obtain ⟨v, hv, h1⟩ := bind_ok.mp h1
    simp only [pure, Except.pure, Except.ok.injEq] at h1
    subst h1
    simp only at h
    obtain ⟨l, hl, hf⟩ := ih _ h
    exact ⟨(w, v, atoms) :: l, by simp [hl], List.Forall₂.cons ⟨hw, hv, rfl⟩ hf⟩

def mkCat (atoms : List Atom) : Nat → List Rat → List (Rat × MPoly × List Atom)
  | _, [] => []
  | k, q :: qs => (q, MPoly.const (k : Rat), atoms) :: mkCat atoms (k + 1) qs

theorem cat_loop (s : Store) (atoms : List Atom) (ps : List Expr)
    (acc res : List (Rat × MPoly × List Atom) × Nat)
    (h : (forIn ps acc (fun (e : Expr) (st : List (Rat × MPoly × List Atom) × Nat) => do
        let q ← Polar.evalConst s e
        (pure (ForInStep.yield (st.1 ++ [(q, MPoly.const (st.2 : Rat), atoms)], st.2 + 1)) : Polar.M _))) = .ok res) :
    ∃ qs, List.Forall₂ (fun e q => Polar.evalConst s e = .ok q) ps qs ∧ res.1 = acc.1 ++ mkCat atoms acc.2 qs := by
  induction ps generalizing acc with
  | nil =>
    simp only [List.forIn_nil, pure, Except.pure, Except.ok.injEq] at h
    exact ⟨[], List.Forall₂.nil, by simp [h, mkCat]⟩
  | cons a t ih =>
    rw [List.forIn_cons] at h
    obtain ⟨st, h1, h⟩ := bind_ok.mp h
    obtain ⟨q, hq, h1⟩ := bind_ok.mp h1
    simp only [pure, Except.pure, Except.ok.injEq] at h1
    subst h1
    simp only at h
    obtain ⟨qs, hf, hr⟩ := ih _ h
    exact ⟨q :: qs, List.Forall₂.cons hq hf, by simp [hr, mkCat]⟩

end Polar.VP
