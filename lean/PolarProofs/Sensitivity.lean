/-
  PolarProofs/Sensitivity.lean — C10: universal soundness of the "differentiated recurrence" method
  (`recurrences/diff_rec_builder.py:DiffRecBuilder`) and of the "differentiate the closed form" method
  (`cli/actions/sensitivity_action.py:_diff_closed_form`).

  Setting.  After `RecBuilder` the moments of the (finitely many) monomials needed for a goal satisfy a
  linear system  x_{n+1} = A(p) x_n + b(p),  x_0 = x0(p)  whose coefficients are functions of the symbolic
  parameter `p` (all other symbolic constants are fixed; a partial derivative is the derivative in `p`).
  `DiffRecBuilder.get_recurrence(δ·M)` takes the recurrence of `M`, goes through its summands `c(p)·M_j`
  and emits, per summand, exactly the product rule with the *syntactically zero* parts left out:

      param ∈ c,  M_j p-dependent     ↦  c'(p)·M_j + c(p)·δM_j
      param ∈ c,  M_j p-independent   ↦  c'(p)·M_j
      param ∉ c,  M_j p-dependent     ↦  c(p)·δM_j                (`summand * delta`)
      neither                         ↦  (skipped)

  (the constant summand `b(p)` is the case `M_j = 1`, which is never p-dependent, so it yields `b'(p)`),
  and `get_initial_value(δ·M) = ∂/∂p (initial value of M)`.  `dxPruned` below is literally this system;
  `dx` is the unpruned product rule.  Rows without `δ` keep the original recurrence, i.e. the solver sees the
  augmented system (x, δx).

  Property theorems (k, a, b, x0, p arbitrary; hypotheses only *at the point p*):

  * `sens_recurrence_sound`  : HasDerivAt (x n i) (dx n i) p  for all n, i.
  * `x_differentiableAt`, `x_differentiable` : every moment is differentiable in the parameter.
  * `deriv_x_eq_dx`          : deriv (x n i) p = dx n i.
  * `sens_unique`, `aug_unique`, `aug_solution_is_derivative` : any sequence pair (y, d) solving the augmented
    system with the augmented initial values is (x · p, dx); hence d n i is the derivative for every n.
  * `sens_diff_closed_form`, `sens_methods_agree` : a closed form that agrees with the moment near p has
    derivative dx n i at p; both methods agree.
  * `dxPruned_eq_dx`, `dx_eq_zero_of_closed`, `sens_pruned_sound` : the pruned system DiffRecBuilder really builds
    is sound when the dependence information is a sound over-approximation that is closed under the recurrence
    (what `SensivitiyAnalyzer.get_dependent_variables` computes).
  * `sens_poly_sound` : polynomial coefficients (`Polynomial ℝ`): no differentiability hypotheses left, the
    augmented system is written with `Polynomial.derivative`.
-/
import Mathlib.Analysis.Calculus.Deriv.Mul
import Mathlib.Analysis.Calculus.Deriv.Add
import Mathlib.Analysis.Calculus.Deriv.Polynomial

open Finset Filter Topology

namespace Polar.Sens

variable {k : ℕ}

/-- the moment system `x_{n+1} = A(q) x_n + b(q)`, `x_0 = x0(q)`, as functions of the parameter `q` -/
def x (a : Fin k → Fin k → ℝ → ℝ) (b x0 : Fin k → ℝ → ℝ) : ℕ → Fin k → ℝ → ℝ
  | 0 => x0
  | n + 1 => fun i q => ∑ j, a i j q * x a b x0 n j q + b i q

/-- the δ-rows of the augmented system at the point `p` (full product rule) -/
noncomputable def dx (a : Fin k → Fin k → ℝ → ℝ) (b x0 : Fin k → ℝ → ℝ) (p : ℝ) : ℕ → Fin k → ℝ
  | 0 => fun i => deriv (x0 i) p
  | n + 1 => fun i =>
      ∑ j, (deriv (a i j) p * x a b x0 n j p + a i j p * dx a b x0 p n j) + deriv (b i) p

@[simp] theorem x_zero (a : Fin k → Fin k → ℝ → ℝ) (b x0 : Fin k → ℝ → ℝ) : x a b x0 0 = x0 := rfl

theorem x_succ (a : Fin k → Fin k → ℝ → ℝ) (b x0 : Fin k → ℝ → ℝ) (n : ℕ) (i : Fin k) (q : ℝ) :
    x a b x0 (n + 1) i q = ∑ j, a i j q * x a b x0 n j q + b i q := rfl

@[simp] theorem dx_zero (a : Fin k → Fin k → ℝ → ℝ) (b x0 : Fin k → ℝ → ℝ) (p : ℝ) (i : Fin k) :
    dx a b x0 p 0 i = deriv (x0 i) p := rfl

theorem dx_succ (a : Fin k → Fin k → ℝ → ℝ) (b x0 : Fin k → ℝ → ℝ) (p : ℝ) (n : ℕ) (i : Fin k) :
    dx a b x0 p (n + 1) i =
      ∑ j, (deriv (a i j) p * x a b x0 n j p + a i j p * dx a b x0 p n j) + deriv (b i) p := rfl

section general

variable (a : Fin k → Fin k → ℝ → ℝ) (b x0 : Fin k → ℝ → ℝ) (p : ℝ)

/-- **C10, method 1**: the δ-rows of the augmented system are the parameter derivatives of the moments, for
every iteration count `n` and every row `i`. -/
theorem sens_recurrence_sound
    (ha : ∀ i j, DifferentiableAt ℝ (a i j) p) (hb : ∀ i, DifferentiableAt ℝ (b i) p)
    (hx0 : ∀ i, DifferentiableAt ℝ (x0 i) p) :
    ∀ n i, HasDerivAt (x a b x0 n i) (dx a b x0 p n i) p := by
  intro n
  induction n with
  | zero => intro i; exact (hx0 i).hasDerivAt
  | succ n ih =>
    intro i
    have h1 : ∀ j ∈ (univ : Finset (Fin k)),
        HasDerivAt (fun q => a i j q * x a b x0 n j q)
          (deriv (a i j) p * x a b x0 n j p + a i j p * dx a b x0 p n j) p :=
      fun j _ => (ha i j).hasDerivAt.fun_mul (ih j)
    exact (HasDerivAt.fun_sum h1).fun_add (hb i).hasDerivAt

/-- every moment is differentiable in the parameter at `p` -/
theorem x_differentiableAt
    (ha : ∀ i j, DifferentiableAt ℝ (a i j) p) (hb : ∀ i, DifferentiableAt ℝ (b i) p)
    (hx0 : ∀ i, DifferentiableAt ℝ (x0 i) p) (n : ℕ) (i : Fin k) :
    DifferentiableAt ℝ (x a b x0 n i) p :=
  (sens_recurrence_sound a b x0 p ha hb hx0 n i).differentiableAt

/-- global version -/
theorem x_differentiable
    (ha : ∀ i j, Differentiable ℝ (a i j)) (hb : ∀ i, Differentiable ℝ (b i))
    (hx0 : ∀ i, Differentiable ℝ (x0 i)) (n : ℕ) (i : Fin k) :
    Differentiable ℝ (x a b x0 n i) :=
  fun q => x_differentiableAt a b x0 q (fun i j => ha i j q) (fun i => hb i q) (fun i => hx0 i q) n i

theorem deriv_x_eq_dx
    (ha : ∀ i j, DifferentiableAt ℝ (a i j) p) (hb : ∀ i, DifferentiableAt ℝ (b i) p)
    (hx0 : ∀ i, DifferentiableAt ℝ (x0 i) p) (n : ℕ) (i : Fin k) :
    deriv (x a b x0 n i) p = dx a b x0 p n i :=
  (sens_recurrence_sound a b x0 p ha hb hx0 n i).deriv

/-- **uniqueness of the δ-rows**: a sequence with the same initial values and the same recursion is `dx`. -/
theorem sens_unique (d : ℕ → Fin k → ℝ) (h0 : d 0 = dx a b x0 p 0)
    (hs : ∀ n i, d (n + 1) i =
      ∑ j, (deriv (a i j) p * x a b x0 n j p + a i j p * d n j) + deriv (b i) p) :
    ∀ n, d n = dx a b x0 p n := by
  intro n
  induction n with
  | zero => exact h0
  | succ n ih => funext i; rw [hs, ih, dx_succ]

/-- **uniqueness for the whole augmented system** (what the recurrence solver is handed: rows `y` for the
monomials, rows `d` for the δ-monomials; the `d` rows refer to the `y` rows). -/
theorem aug_unique (y d : ℕ → Fin k → ℝ)
    (hy0 : ∀ i, y 0 i = x0 i p) (hd0 : ∀ i, d 0 i = deriv (x0 i) p)
    (hys : ∀ n i, y (n + 1) i = ∑ j, a i j p * y n j + b i p)
    (hds : ∀ n i, d (n + 1) i =
      ∑ j, (deriv (a i j) p * y n j + a i j p * d n j) + deriv (b i) p) :
    ∀ n i, y n i = x a b x0 n i p ∧ d n i = dx a b x0 p n i := by
  have hy : ∀ n i, y n i = x a b x0 n i p := by
    intro n
    induction n with
    | zero => exact hy0
    | succ n ih => intro i; rw [hys, x_succ]; simp only [ih]
  have hd : ∀ n, d n = dx a b x0 p n := by
    refine sens_unique a b x0 p d (funext hd0) ?_
    intro n i; rw [hds]; simp only [hy]
  exact fun n i => ⟨hy n i, congrFun (hd n) i⟩

/-- **C10, method 1, as used**: any solution of the augmented linear system (e.g. the closed form returned by
the solver, once it is validated as a solution of that system for all n) is the parameter derivative. -/
theorem aug_solution_is_derivative
    (ha : ∀ i j, DifferentiableAt ℝ (a i j) p) (hb : ∀ i, DifferentiableAt ℝ (b i) p)
    (hx0 : ∀ i, DifferentiableAt ℝ (x0 i) p)
    (y d : ℕ → Fin k → ℝ)
    (hy0 : ∀ i, y 0 i = x0 i p) (hd0 : ∀ i, d 0 i = deriv (x0 i) p)
    (hys : ∀ n i, y (n + 1) i = ∑ j, a i j p * y n j + b i p)
    (hds : ∀ n i, d (n + 1) i =
      ∑ j, (deriv (a i j) p * y n j + a i j p * d n j) + deriv (b i) p) :
    ∀ n i, HasDerivAt (x a b x0 n i) (d n i) p := by
  intro n i
  rw [(aug_unique a b x0 p y d hy0 hd0 hys hds n i).2]
  exact sens_recurrence_sound a b x0 p ha hb hx0 n i

/-- **C10, method 2**: if a closed form `m` agrees with the moment in a neighbourhood of `p`, its derivative
at `p` is the δ-row. -/
theorem sens_diff_closed_form
    (ha : ∀ i j, DifferentiableAt ℝ (a i j) p) (hb : ∀ i, DifferentiableAt ℝ (b i) p)
    (hx0 : ∀ i, DifferentiableAt ℝ (x0 i) p)
    (n : ℕ) (i : Fin k) (m : ℝ → ℝ) (hm : ∀ᶠ q in 𝓝 p, m q = x a b x0 n i q) :
    HasDerivAt m (dx a b x0 p n i) p ∧ deriv m p = dx a b x0 p n i := by
  have h : HasDerivAt m (dx a b x0 p n i) p :=
    (sens_recurrence_sound a b x0 p ha hb hx0 n i).congr_of_eventuallyEq hm
  exact ⟨h, h.deriv⟩

/-- **both methods agree** wherever both apply. -/
theorem sens_methods_agree
    (ha : ∀ i j, DifferentiableAt ℝ (a i j) p) (hb : ∀ i, DifferentiableAt ℝ (b i) p)
    (hx0 : ∀ i, DifferentiableAt ℝ (x0 i) p)
    (y d : ℕ → Fin k → ℝ)
    (hy0 : ∀ i, y 0 i = x0 i p) (hd0 : ∀ i, d 0 i = deriv (x0 i) p)
    (hys : ∀ n i, y (n + 1) i = ∑ j, a i j p * y n j + b i p)
    (hds : ∀ n i, d (n + 1) i =
      ∑ j, (deriv (a i j) p * y n j + a i j p * d n j) + deriv (b i) p)
    (n : ℕ) (i : Fin k) (m : ℝ → ℝ) (hm : ∀ᶠ q in 𝓝 p, m q = x a b x0 n i q) :
    deriv m p = d n i := by
  rw [(sens_diff_closed_form a b x0 p ha hb hx0 n i m hm).2,
    (aug_unique a b x0 p y d hy0 hd0 hys hds n i).2]

end general

/-! ### the pruned system that `DiffRecBuilder.get_recurrence` emits -/

/-- syntactic dependence information used by `DiffRecBuilder`:
`depC i j` – `param ∈ constant_part.free_symbols` for the summand `a i j · M_j` of row `i`;
`depB i` – the same for the constant summand; `depM j` – `_is_monomial_p_dependent(M_j)`. -/
structure DepInfo (k : ℕ) where
  depC : Fin k → Fin k → Prop
  depB : Fin k → Prop
  depM : Fin k → Prop

open Classical in
/-- the δ-rows exactly as built by `DiffRecBuilder.get_recurrence` (four-way case split per summand) -/
noncomputable def dxPruned (D : DepInfo k) (a : Fin k → Fin k → ℝ → ℝ) (b x0 : Fin k → ℝ → ℝ) (p : ℝ) :
    ℕ → Fin k → ℝ
  | 0 => fun i => deriv (x0 i) p
  | n + 1 => fun i =>
      ∑ j, (if D.depC i j then
              (if D.depM j then deriv (a i j) p * x a b x0 n j p + a i j p * dxPruned D a b x0 p n j
               else deriv (a i j) p * x a b x0 n j p)
            else
              (if D.depM j then a i j p * dxPruned D a b x0 p n j else 0))
        + (if D.depB i then deriv (b i) p else 0)

section pruned

variable (D : DepInfo k) (a : Fin k → Fin k → ℝ → ℝ) (b x0 : Fin k → ℝ → ℝ) (p : ℝ)

open Classical in
theorem dxPruned_succ (n : ℕ) (i : Fin k) :
    dxPruned D a b x0 p (n + 1) i =
      ∑ j, (if D.depC i j then
              (if D.depM j then deriv (a i j) p * x a b x0 n j p + a i j p * dxPruned D a b x0 p n j
               else deriv (a i j) p * x a b x0 n j p)
            else
              (if D.depM j then a i j p * dxPruned D a b x0 p n j else 0))
        + (if D.depB i then deriv (b i) p else 0) := rfl

/-- If the rows marked independent are closed under the recurrence and really do not involve the parameter,
their δ-rows vanish identically (soundness of `get_dependent_variables` as used by the pruning). -/
theorem dx_eq_zero_of_closed
    (hx0 : ∀ i, ¬ D.depM i → deriv (x0 i) p = 0)
    (hb : ∀ i, ¬ D.depM i → deriv (b i) p = 0)
    (ha : ∀ i j, ¬ D.depM i → deriv (a i j) p = 0)
    (hcl : ∀ i j, ¬ D.depM i → a i j p = 0 ∨ ¬ D.depM j) :
    ∀ n i, ¬ D.depM i → dx a b x0 p n i = 0 := by
  intro n
  induction n with
  | zero => intro i hi; exact hx0 i hi
  | succ n ih =>
    intro i hi
    rw [dx_succ, hb i hi, add_zero]
    refine Finset.sum_eq_zero fun j _ => ?_
    rw [ha i j hi, zero_mul, zero_add]
    rcases hcl i j hi with h | h
    · rw [h, zero_mul]
    · rw [ih j h, mul_zero]

/-- the pruned system coincides with the full product rule when the pruned parts are really zero -/
theorem dxPruned_eq_dx
    (hC : ∀ i j, ¬ D.depC i j → deriv (a i j) p = 0)
    (hB : ∀ i, ¬ D.depB i → deriv (b i) p = 0)
    (hM : ∀ n j, ¬ D.depM j → dx a b x0 p n j = 0) :
    ∀ n, dxPruned D a b x0 p n = dx a b x0 p n := by
  intro n
  induction n with
  | zero => rfl
  | succ n ih =>
    funext i
    rw [dxPruned_succ, dx_succ]
    congr 1
    · refine Finset.sum_congr rfl fun j _ => ?_
      rw [ih]
      by_cases h1 : D.depC i j
      · by_cases h2 : D.depM j
        · rw [if_pos h1, if_pos h2]
        · rw [if_pos h1, if_neg h2, hM n j h2, mul_zero, add_zero]
      · by_cases h2 : D.depM j
        · rw [if_neg h1, if_pos h2, hC i j h1, zero_mul, zero_add]
        · rw [if_neg h1, if_neg h2, hC i j h1, hM n j h2, zero_mul, mul_zero, add_zero]
    · by_cases h : D.depB i
      · simp only [h, if_true]
      · simp only [h, if_false]; exact (hB i h).symm

/-- **C10, method 1, for the system DiffRecBuilder really builds.** -/
theorem sens_pruned_sound
    (ha : ∀ i j, DifferentiableAt ℝ (a i j) p) (hb : ∀ i, DifferentiableAt ℝ (b i) p)
    (hx0 : ∀ i, DifferentiableAt ℝ (x0 i) p)
    (hC : ∀ i j, ¬ D.depC i j → deriv (a i j) p = 0)
    (hB : ∀ i, ¬ D.depB i → deriv (b i) p = 0)
    (hx0' : ∀ i, ¬ D.depM i → deriv (x0 i) p = 0)
    (hMB : ∀ i, ¬ D.depM i → ¬ D.depB i)
    (hMC : ∀ i j, ¬ D.depM i → ¬ D.depC i j)
    (hcl : ∀ i j, ¬ D.depM i → a i j p = 0 ∨ ¬ D.depM j) :
    ∀ n i, HasDerivAt (x a b x0 n i) (dxPruned D a b x0 p n i) p := by
  intro n i
  have hM := dx_eq_zero_of_closed D a b x0 p hx0' (fun i hi => hB i (hMB i hi))
    (fun i j hi => hC i j (hMC i j hi)) hcl
  rw [dxPruned_eq_dx D a b x0 p hC hB hM n]
  exact sens_recurrence_sound a b x0 p ha hb hx0 n i

end pruned

/-! ### polynomial coefficients -/

section poly

open Polynomial

variable (A : Fin k → Fin k → ℝ[X]) (B X0 : Fin k → ℝ[X]) (p : ℝ)

/-- the moment system with polynomial coefficients -/
noncomputable def xPoly : ℕ → Fin k → ℝ → ℝ :=
  x (fun i j q => (A i j).eval q) (fun i q => (B i).eval q) (fun i q => (X0 i).eval q)

/-- the augmented rows, written with the formal derivative of the coefficients -/
noncomputable def dxPoly : ℕ → Fin k → ℝ
  | 0 => fun i => (derivative (X0 i)).eval p
  | n + 1 => fun i =>
      ∑ j, ((derivative (A i j)).eval p * xPoly A B X0 n j p + (A i j).eval p * dxPoly n j)
        + (derivative (B i)).eval p

theorem dxPoly_succ (n : ℕ) (i : Fin k) :
    dxPoly A B X0 p (n + 1) i =
      ∑ j, ((derivative (A i j)).eval p * xPoly A B X0 n j p + (A i j).eval p * dxPoly A B X0 p n j)
        + (derivative (B i)).eval p := rfl

theorem dxPoly_eq_dx : ∀ n,
    dxPoly A B X0 p n =
      dx (fun i j q => (A i j).eval q) (fun i q => (B i).eval q) (fun i q => (X0 i).eval q) p n := by
  intro n
  induction n with
  | zero => funext i; rw [dx_zero, Polynomial.deriv]; rfl
  | succ n ih =>
    funext i
    rw [dxPoly_succ, dx_succ, ih, Polynomial.deriv]
    congr 1
    refine Finset.sum_congr rfl fun j _ => ?_
    rw [Polynomial.deriv]; rfl

/-- **polynomial-coefficient corollary**: no analytic hypotheses are left. -/
theorem sens_poly_sound (n : ℕ) (i : Fin k) :
    HasDerivAt (xPoly A B X0 n i) (dxPoly A B X0 p n i) p := by
  rw [dxPoly_eq_dx]
  exact sens_recurrence_sound _ _ _ p (fun i j => (A i j).differentiableAt)
    (fun i => (B i).differentiableAt) (fun i => (X0 i).differentiableAt) n i

end poly

/-! ### non-vacuity: x_{n+1} = q·x_n + q², x_0 = q  (k = 1) -/

section examples

/-- a concrete one-row system with the parameter in the coefficient, the constant and the initial value -/
example : ∀ n i, HasDerivAt
    (x (k := 1) (fun _ _ q => q) (fun _ q => q ^ 2) (fun _ q => q) n i)
    (dx (k := 1) (fun _ _ q => q) (fun _ q => q ^ 2) (fun _ q => q) 3 n i) 3 :=
  sens_recurrence_sound _ _ _ 3 (fun _ _ => differentiableAt_id)
    (fun _ => differentiableAt_pow 2) (fun _ => differentiableAt_id)

/-- and the derivative is the expected number: x_1 = q² + q², so ∂x_1/∂q at 3 is 12 -/
example : dx (k := 1) (fun _ _ q => q) (fun _ q => q ^ 2) (fun _ q => q) 3 1 0 = 12 := by
  simp only [dx_succ, dx_zero, x_zero, Finset.univ_unique, Finset.sum_singleton]
  have h1 : deriv (fun q : ℝ => q) 3 = 1 := by simp
  have h2 : deriv (fun q : ℝ => q ^ 2) 3 = 6 := by simp; norm_num
  rw [h1, h2]; norm_num

/-- polynomial version of the same system -/
example : HasDerivAt (xPoly (k := 1) (fun _ _ => Polynomial.X) (fun _ => Polynomial.X ^ 2) (fun _ => Polynomial.X) 1 0)
    12 3 := by
  have h := sens_poly_sound (k := 1) (fun _ _ => Polynomial.X) (fun _ => Polynomial.X ^ 2)
    (fun _ => Polynomial.X) 3 1 0
  have e : dxPoly (k := 1) (fun _ _ => Polynomial.X) (fun _ => Polynomial.X ^ 2) (fun _ => Polynomial.X) 3 1 0
      = 12 := by
    simp [dxPoly, xPoly, x]
    norm_num
  rwa [e] at h

/-- hypotheses of `aug_unique` / `aug_solution_is_derivative` are satisfiable: take y = x(p), d = dx -/
example (a : Fin k → Fin k → ℝ → ℝ) (b x0 : Fin k → ℝ → ℝ) (p : ℝ) :
    ∃ y d : ℕ → Fin k → ℝ, (∀ i, y 0 i = x0 i p) ∧ (∀ i, d 0 i = deriv (x0 i) p) ∧
      (∀ n i, y (n + 1) i = ∑ j, a i j p * y n j + b i p) ∧
      (∀ n i, d (n + 1) i = ∑ j, (deriv (a i j) p * y n j + a i j p * d n j) + deriv (b i) p) :=
  ⟨fun n i => x a b x0 n i p, dx a b x0 p, fun _ => rfl, fun _ => rfl, fun _ _ => rfl, fun _ _ => rfl⟩

/-- hypotheses of `sens_pruned_sound` are satisfiable with a non-trivial pruning: two rows,
x₀' = q·x₀ + x₁ (dependent), x₁' = 2·x₁ + 1 (independent of q). -/
example : ∀ n i, HasDerivAt
    (x (k := 2) (fun i j q => if i = 0 then (if j = 0 then q else 1) else (if j = 0 then 0 else 2))
       (fun i _ => if i = 0 then 0 else 1) (fun _ _ => 1) n i)
    (dxPruned (k := 2) ⟨fun i j => i = 0 ∧ j = 0, fun _ => False, fun i => i = 0⟩
       (fun i j q => if i = 0 then (if j = 0 then q else 1) else (if j = 0 then 0 else 2))
       (fun i _ => if i = 0 then 0 else 1) (fun _ _ => 1) 5 n i) 5 := by
  apply sens_pruned_sound
  · intro i j; split_ifs <;> simp
  · intro i; split_ifs <;> simp
  · intro i; simp
  · intro i j h
    by_cases hi : i = 0 <;> by_cases hj : j = 0 <;> simp_all
  · intro i _; split_ifs <;> simp
  · intro i _; simp
  · intro i h; simp
  · intro i j h; simp only [not_and]; intro hi; exact absurd hi h
  · intro i j h
    by_cases hj : j = 0
    · left
      have h' : ¬ i = 0 := h
      simp [h', hj]
    · right; exact hj

end examples

end Polar.Sens
