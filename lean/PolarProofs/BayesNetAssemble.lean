import Mathlib.Tactic
import Polar.BayesNet
import PolarProofs.BayesNetComb

/-! C15, part 1 — CPT assembly: the flat index of the `table` notation, soundness of acceptance, and
agreement of the three notations. -/

namespace Polar.BN

lemma absRat_eq_abs (r : ℚ) : absRat r = |r| := by
  unfold absRat
  split_ifs with h
  · exact (abs_of_neg h).symm
  · exact (abs_of_nonneg (not_lt.mp h)).symm

lemma sumOk_iff (tol : ℚ) (p : List ℚ) : sumOk tol p = true ↔ |1 - p.sum| < tol := by
  simp [sumOk, absRat_eq_abs]

/-- a complete probability row within the tolerance -/
def RowOK (tol : ℚ) (dom : ℕ) (p : List ℚ) : Prop := p.length = dom ∧ |1 - p.sum| < tol

/-! ### `table_index` -/

lemma length_bifTable (P : ℕ → List ℕ → ℚ) (dom : ℕ) (pd : List ℕ) :
    (bifTable P dom pd).length = dom * numRows pd := by
  unfold bifTable
  rw [List.length_flatMap]
  simp [length_combos]

lemma bifTable_getElem? (P : ℕ → List ℕ → ℚ) (dom : ℕ) (pd : List ℕ) (i r : ℕ) (hi : i < dom)
    (hr : r < numRows pd) :
    (bifTable P dom pd)[r + i * numRows pd]? = ((combos pd)[r]?).map (P i) := by
  unfold bifTable
  rw [getElem?_flatMap_range (fun i => (combos pd).map (fun c => P i c)) (numRows pd) dom
    (fun i _ => by simp [length_combos]) i r hi hr]
  simp

/-- **table_index.**  If a `table` attribute lists P(child = i | parents = c) in the BIF layout (child value
slowest, parent combinations in product order), then the entry the code reads for (value `i`, row of the
combination `c`), namely `table[row + i * rows]` with `row = rowIndex c`, is P(child = i | c). -/
theorem table_index (P : ℕ → List ℕ → ℚ) (dom : ℕ) (pd c : List ℕ) (hc : validComb pd c = true)
    (i : ℕ) (hi : i < dom) :
    (tableRow (bifTable P dom pd) (numRows pd) dom (rowIndex pd c))[i]? = some (P i c) := by
  unfold tableRow
  rw [List.getElem?_map, List.getElem?_range hi]
  simp only [Option.map_some, List.getD_eq_getElem?_getD]
  rw [bifTable_getElem? P dom pd i _ hi (rowIndex_lt hc), combos_getElem?_rowIndex hc]
  rfl

example : (tableRow (bifTable (fun i c => (i : ℚ) + 10 * (rowIndex [2, 3] c : ℚ)) 2 [2, 3]) 6 2
    (rowIndex [2, 3] [1, 2]))[1]? = some 51 := by
  rw [show (6 : ℕ) = numRows [2, 3] from rfl, table_index _ 2 [2, 3] [1, 2] (by decide) 1 (by decide)]
  norm_num [rowIndex, numRows]

/-! ### soundness of acceptance -/

/-- invariant of the half-built CPT: right number of rows, every filled row is a valid row -/
def RowsInv (tol : ℚ) (dom n : ℕ) (cur : Rows) : Prop :=
  cur.length = n ∧ ∀ p, some p ∈ cur → RowOK tol dom p

lemma initRows_inv {tol : ℚ} {dom n : ℕ} {d : Option (List ℚ)} {r : Rows}
    (h : initRows tol dom n d = .ok r) : RowsInv tol dom n r := by
  cases d with
  | none =>
    simp only [initRows] at h
    injection h with h; subst h
    exact ⟨by simp, fun p hp => by simp [List.mem_replicate] at hp⟩
  | some p =>
    simp only [initRows] at h
    split_ifs at h with h1 h2
    injection h with h; subst h
    refine ⟨by simp, fun q hq => ?_⟩
    have : q = p := by
      have := (List.mem_replicate.mp hq).2
      exact (Option.some.inj this)
    subst this
    exact ⟨by simpa using h1, (sumOk_iff _ _).mp (by simpa using h2)⟩

lemma length_tableRow (t : List ℚ) (rows dom r : ℕ) : (tableRow t rows dom r).length = dom := by
  simp [tableRow]

lemma addTable_inv {tol : ℚ} {dom n : ℕ} {cur r : Rows} {t : Option (List ℚ)}
    (hc : RowsInv tol dom n cur) (h : addTable tol dom n cur t = .ok r) : RowsInv tol dom n r := by
  cases t with
  | none => simp only [addTable] at h; injection h with h; subst h; exact hc
  | some t =>
    simp only [addTable] at h
    split_ifs at h with h1 h2
    injection h with h; subst h
    refine ⟨by simp, fun q hq => ?_⟩
    simp only [List.mem_map, List.mem_range] at hq
    obtain ⟨k, hk, hq⟩ := hq
    have hq := Option.some.inj hq
    subst hq
    have := (List.all_eq_true.mp h2) k (List.mem_range.mpr hk)
    exact ⟨length_tableRow _ _ _ _, (sumOk_iff _ _).mp this⟩

lemma addEntry_inv {tol : ℚ} {dom n : ℕ} {pd : List ℕ} {cur r : Rows} {e : List ℕ × List ℚ}
    (hc : RowsInv tol dom n cur) (h : addEntry tol dom pd cur e = .ok r) : RowsInv tol dom n r := by
  simp only [addEntry] at h
  split_ifs at h with h1 h2 h3 h4
  injection h with h; subst h
  refine ⟨by simpa using hc.1, fun q hq => ?_⟩
  rcases List.mem_or_eq_of_mem_set hq with hq | hq
  · exact hc.2 q hq
  · have hq := Option.some.inj hq
    subst hq
    exact ⟨by simpa using h2, (sumOk_iff _ _).mp (by simpa using h3)⟩

lemma addEntries_inv {tol : ℚ} {dom n : ℕ} {pd : List ℕ} {es : List (List ℕ × List ℚ)} :
    ∀ {cur r : Rows}, RowsInv tol dom n cur → addEntries tol dom pd cur es = .ok r → RowsInv tol dom n r := by
  induction es with
  | nil => intro cur r hc h; simp only [addEntries] at h; injection h with h; subst h; exact hc
  | cons e es ih =>
    intro cur r hc h
    simp only [addEntries] at h
    cases he : addEntry tol dom pd cur e with
    | error m => rw [he] at h; cases h
    | ok cur' => rw [he] at h; exact ih (addEntry_inv hc he) h

lemma finishRows_ok {cur : Rows} {rows : List (List ℚ)} (h : finishRows cur = .ok rows) :
    rows.length = cur.length ∧ ∀ p ∈ rows, some p ∈ cur := by
  simp only [finishRows] at h
  split_ifs at h with h1
  injection h with h; subst h
  refine ⟨by simp, fun p hp => ?_⟩
  simp only [List.mem_map] at hp
  obtain ⟨o, ho, rfl⟩ := hp
  have := (List.all_eq_true.mp h1) o ho
  cases o with
  | none => simp at this
  | some q => simpa using ho

/-- **accept ⇒ complete and normalised** (`accept_iff_rows_complete_and_sum`, the direction the property states):
whatever mix of `default`, `table` and entries is given, an accepted CPT has exactly one row per parent
combination, every row has one probability per value of the child and sums to 1 within the tolerance. -/
theorem assembleCpt_sound {tol : ℚ} {dom : ℕ} {pd : List ℕ} {s : Scanned (List ℕ)} {rows : List (List ℚ)}
    (h : assembleCpt tol dom pd s = .ok rows) :
    rows.length = numRows pd ∧ ∀ p ∈ rows, p.length = dom ∧ |1 - p.sum| < tol := by
  cases h0 : initRows tol dom (numRows pd) s.dflt with
  | error m => simp [assembleCpt, h0] at h
  | ok r0 =>
    cases h1 : addTable tol dom (numRows pd) r0 s.table with
    | error m => simp [assembleCpt, h0, h1] at h
    | ok r1 =>
      cases h2 : addEntries tol dom pd r1 s.entries with
      | error m => simp [assembleCpt, h0, h1, h2] at h
      | ok r2 =>
        simp only [assembleCpt, h0, h1, h2] at h
        have inv := addEntries_inv (addTable_inv (initRows_inv h0) h1) h2
        obtain ⟨hl, hm⟩ := finishRows_ok h
        exact ⟨hl.trans inv.1, fun p hp => inv.2 p (hm p hp)⟩

example : assembleCpt (1/1000) 2 [2] { dflt := some [1/2, 1/2], entries := [([1], [1/4, 3/4])] }
    = .ok [[1/2, 1/2], [1/4, 3/4]] := by decide +kernel

/-! ### the three notations -/

/-- the rows of the conditional probability function `P` in the internal layout -/
def rowsOf (P : List ℕ → List ℚ) (pd : List ℕ) : List (List ℚ) := (combos pd).map P

lemma tableRow_bifTable (P : List ℕ → List ℚ) (dom : ℕ) (pd : List ℕ)
    (hP : ∀ c, validComb pd c = true → (P c).length = dom) (r : ℕ) (hr : r < numRows pd) :
    ∃ c, (combos pd)[r]? = some c ∧
      tableRow (bifTable (fun i c => (P c).getD i 0) dom pd) (numRows pd) dom r = P c := by
  obtain ⟨c, hc, rfl⟩ := exists_comb_of_lt hr
  refine ⟨c, combos_getElem?_rowIndex hc, ?_⟩
  apply List.ext_getElem?
  intro i
  by_cases hi : i < dom
  · rw [table_index (fun i c => (P c).getD i 0) dom pd c hc i hi]
    have : i < (P c).length := by rw [hP c hc]; exact hi
    simp [List.getD_eq_getElem?_getD, List.getElem?_eq_getElem this]
  · have h1 : (tableRow (bifTable (fun i c => (P c).getD i 0) dom pd) (numRows pd) dom (rowIndex pd c)).length ≤ i := by
      rw [length_tableRow]; omega
    have h2 : (P c).length ≤ i := by rw [hP c hc]; omega
    rw [List.getElem?_eq_none h1, List.getElem?_eq_none h2]

lemma finishRows_map_some (l : List (List ℚ)) : finishRows (l.map some) = .ok l := by
  simp only [finishRows]
  have : (l.map some).all Option.isSome = true := by simp [List.all_eq_true]
  rw [if_pos this]
  congr 1
  rw [List.map_map]
  conv_rhs => rw [← List.map_id l]
  apply List.map_congr_left
  intro a _
  rfl

/-- **table notation.** -/
theorem assemble_table {tol : ℚ} {dom : ℕ} {pd : List ℕ} (P : List ℕ → List ℚ)
    (hP : ∀ c, validComb pd c = true → RowOK tol dom (P c)) :
    assembleCpt tol dom pd { table := some (bifTable (fun i c => (P c).getD i 0) dom pd) }
      = .ok (rowsOf P pd) := by
  have hlen := fun c hc => (hP c hc).1
  have hrow : ∀ r, r < numRows pd →
      ∃ c, (combos pd)[r]? = some c ∧ validComb pd c = true ∧
        tableRow (bifTable (fun i c => (P c).getD i 0) dom pd) (numRows pd) dom r = P c := by
    intro r hr
    obtain ⟨c, hc1, hc2⟩ := tableRow_bifTable P dom pd hlen r hr
    exact ⟨c, hc1, mem_combos_iff.mp (List.mem_of_getElem? hc1), hc2⟩
  simp only [assembleCpt, initRows, addTable, length_bifTable]
  have hall : (List.range (numRows pd)).all (fun r => sumOk tol
      (tableRow (bifTable (fun i c => (P c).getD i 0) dom pd) (numRows pd) dom r)) = true := by
    rw [List.all_eq_true]
    intro r hr
    obtain ⟨c, _, hv, he⟩ := hrow r (List.mem_range.mp hr)
    rw [he, sumOk_iff]
    exact (hP c hv).2
  simp only [ne_eq, not_true_eq_false, if_false, hall, if_true, addEntries]
  have : (List.range (numRows pd)).map (fun r => some
      (tableRow (bifTable (fun i c => (P c).getD i 0) dom pd) (numRows pd) dom r)) = (rowsOf P pd).map some := by
    apply List.ext_getElem?
    intro r
    unfold rowsOf
    simp only [List.getElem?_map]
    by_cases hr : r < numRows pd
    · obtain ⟨c, hc1, _, he⟩ := hrow r hr
      rw [List.getElem?_range hr, hc1]
      simp only [Option.map_some, he]
    · have h1 : (List.range (numRows pd)).length ≤ r := by simp; omega
      have h2 : (combos pd).length ≤ r := by rw [length_combos]; omega
      rw [List.getElem?_eq_none h1, List.getElem?_eq_none h2]
      rfl
  rw [this]
  exact finishRows_map_some _

/-- effect of a list of entries that are all valid and all taken from `P` -/
lemma addEntries_consistent {tol : ℚ} {dom : ℕ} {pd : List ℕ} (P : List ℕ → List ℚ)
    (hP : ∀ c, validComb pd c = true → RowOK tol dom (P c)) :
    ∀ (es : List (List ℕ × List ℚ)) (cur : Rows),
      (∀ e ∈ es, validComb pd e.1 = true ∧ e.2 = P e.1) → cur.length = numRows pd →
      ∃ cur', addEntries tol dom pd cur es = .ok cur' ∧ cur'.length = numRows pd ∧
        ∀ c, validComb pd c = true →
          ((∃ e ∈ es, e.1 = c) → cur'[rowIndex pd c]? = some (some (P c))) ∧
          ((¬ ∃ e ∈ es, e.1 = c) → cur'[rowIndex pd c]? = cur[rowIndex pd c]?) := by
  intro es
  induction es with
  | nil =>
    intro cur _ hl
    exact ⟨cur, rfl, hl, fun c _ => ⟨fun ⟨e, he, _⟩ => (by cases he), fun _ => rfl⟩⟩
  | cons e es ih =>
    intro cur hes hl
    obtain ⟨hv, he2⟩ := hes e (List.mem_cons_self)
    have hrow := hP e.1 hv
    have hstep : addEntry tol dom pd cur e = .ok (cur.set (rowIndex pd e.1) (some e.2)) := by
      simp only [addEntry]
      rw [if_neg (by simp [validComb_length hv]), if_neg (by rw [he2]; simp [hrow.1]),
        if_neg (by rw [he2]; simp [(sumOk_iff _ _).mpr hrow.2]), if_neg (by simp [hv])]
    obtain ⟨cur', h1, h2, h3⟩ := ih (cur.set (rowIndex pd e.1) (some e.2))
      (fun e' he' => hes e' (List.mem_cons_of_mem _ he')) (by simpa using hl)
    refine ⟨cur', by simp only [addEntries, hstep]; exact h1, h2, fun c hc => ?_⟩
    obtain ⟨hA, hB⟩ := h3 c hc
    constructor
    · rintro ⟨e', he', rfl⟩
      by_cases hin : ∃ e'' ∈ es, e''.1 = e'.1
      · exact hA hin
      · rw [hB hin]
        rcases List.mem_cons.mp he' with rfl | he'
        · rw [List.getElem?_set_self (by rw [hl]; exact rowIndex_lt hv), he2]
        · exact absurd ⟨e', he', rfl⟩ hin
    · intro hnot
      have hnot' : ¬ ∃ e'' ∈ es, e''.1 = c := fun ⟨e'', h1, h2⟩ => hnot ⟨e'', List.mem_cons_of_mem _ h1, h2⟩
      rw [hB hnot']
      have hne : e.1 ≠ c := fun h => hnot ⟨e, List.mem_cons_self, h⟩
      have : rowIndex pd e.1 ≠ rowIndex pd c := fun h => hne (rowIndex_inj hv hc h)
      rw [List.getElem?_set_ne this]

/-- **default and per-entry notations** (the default is optional): entries that are rows of `P`, in any
order and with any redundancy, on top of a default that equals `P` wherever no entry is given. -/
theorem assemble_default_entries {tol : ℚ} {dom : ℕ} {pd : List ℕ} (P : List ℕ → List ℚ)
    (hP : ∀ c, validComb pd c = true → RowOK tol dom (P c))
    (d : Option (List ℚ)) (hd : ∀ p, d = some p → RowOK tol dom p)
    (es : List (List ℕ × List ℚ)) (hes : ∀ e ∈ es, validComb pd e.1 = true ∧ e.2 = P e.1)
    (hcover : ∀ c, validComb pd c = true → (∃ e ∈ es, e.1 = c) ∨ d = some (P c)) :
    assembleCpt tol dom pd { dflt := d, entries := es } = .ok (rowsOf P pd) := by
  have h0 : initRows tol dom (numRows pd) d = .ok (List.replicate (numRows pd) d) := by
    cases d with
    | none => rfl
    | some p =>
      have := hd p rfl
      simp only [initRows]
      rw [if_neg (by simp [this.1]), if_neg (by simp [(sumOk_iff _ _).mpr this.2])]
  obtain ⟨cur', h1, h2, h3⟩ := addEntries_consistent P hP es (List.replicate (numRows pd) d) hes (by simp)
  simp only [assembleCpt, h0, addTable, h1]
  have : cur' = (rowsOf P pd).map some := by
    apply List.ext_getElem?
    intro r
    unfold rowsOf
    by_cases hr : r < numRows pd
    · obtain ⟨c, hc, rfl⟩ := exists_comb_of_lt hr
      simp only [List.getElem?_map, combos_getElem?_rowIndex hc, Option.map_some]
      by_cases hin : ∃ e ∈ es, e.1 = c
      · exact (h3 c hc).1 hin
      · rw [(h3 c hc).2 hin]
        have := (hcover c hc).resolve_left hin
        rw [List.getElem?_replicate, if_pos hr, this]
    · have h1 : cur'.length ≤ r := by omega
      have h2' : (List.map some (List.map P (combos pd))).length ≤ r := by simp [length_combos]; omega
      rw [List.getElem?_eq_none h1, List.getElem?_eq_none h2']
  rw [this]
  exact finishRows_map_some _

/-- **notations_agree.**  The `table` attribute, the list of all per-condition entries (in any order) and a
`default` with entries for the deviating conditions import the same conditional probability table. -/
theorem notations_agree {tol : ℚ} {dom : ℕ} {pd : List ℕ} (P : List ℕ → List ℚ)
    (hP : ∀ c, validComb pd c = true → RowOK tol dom (P c))
    (es : List (List ℕ × List ℚ)) (hes : ∀ e ∈ es, validComb pd e.1 = true ∧ e.2 = P e.1)
    (hall : ∀ c, validComb pd c = true → ∃ e ∈ es, e.1 = c)
    (d : List ℚ) (hd : RowOK tol dom d)
    (es' : List (List ℕ × List ℚ)) (hes' : ∀ e ∈ es', validComb pd e.1 = true ∧ e.2 = P e.1)
    (hrest : ∀ c, validComb pd c = true → (∃ e ∈ es', e.1 = c) ∨ P c = d) :
    assembleCpt tol dom pd { table := some (bifTable (fun i c => (P c).getD i 0) dom pd) } = .ok (rowsOf P pd) ∧
    assembleCpt tol dom pd { entries := es } = .ok (rowsOf P pd) ∧
    assembleCpt tol dom pd { dflt := some d, entries := es' } = .ok (rowsOf P pd) := by
  refine ⟨assemble_table P hP, ?_, ?_⟩
  · exact assemble_default_entries P hP none (fun p h => by cases h) es hes (fun c hc => Or.inl (hall c hc))
  · refine assemble_default_entries P hP (some d) (fun p h => by cases h; exact hd) es' hes' (fun c hc => ?_)
    rcases hrest c hc with h | h
    · exact Or.inl h
    · exact Or.inr (by rw [h])

/-- the hypotheses are satisfiable: a 2×2 table written in the three ways -/
example :
    let P : List ℕ → List ℚ := fun c => if c = [0] then [1/4, 3/4] else [1/2, 1/2]
    assembleCpt (1/1000) 2 [2] { table := some (bifTable (fun i c => (P c).getD i 0) 2 [2]) } = .ok (rowsOf P [2]) ∧
    assembleCpt (1/1000) 2 [2] { entries := [([1], [1/2, 1/2]), ([0], [1/4, 3/4])] } = .ok (rowsOf P [2]) ∧
    assembleCpt (1/1000) 2 [2] { dflt := some [1/2, 1/2], entries := [([0], [1/4, 3/4])] } = .ok (rowsOf P [2]) := by
  decide +kernel

/-! ### the whole file: `assembleNet` accepts only complete, normalised networks -/

def pdomLen (p : Partial) (j : ℕ) : ℕ :=
  match p[j]? with
  | some (_, d, _) => d.length
  | none => 0

/-- invariant of the half-built network: every CPT already attached is complete and normalised -/
def PInv (tol : ℚ) (p : Partial) : Prop :=
  ∀ (i : ℕ) (nm : String) (dm : List String) (ps : List ℕ) (rows : List (List ℚ)),
    p[i]? = some (nm, dm, some (ps, rows)) →
    rows.length = numRows (ps.map (pdomLen p)) ∧ ∀ r ∈ rows, r.length = dm.length ∧ |1 - r.sum| < tol

lemma pdomLen_set (p : Partial) (i : ℕ) (nm : String) (dm : List String)
    (cur x : Option (List ℕ × List (List ℚ))) (hi : p[i]? = some (nm, dm, cur)) :
    pdomLen (p.set i (nm, dm, x)) = pdomLen p := by
  funext j
  unfold pdomLen
  by_cases hj : i = j
  · subst hj
    have hlt : i < p.length := by
      by_contra h
      rw [List.getElem?_eq_none (by omega)] at hi
      cases hi
    rw [List.getElem?_set_self hlt, hi]
  · rw [List.getElem?_set_ne hj]

lemma addCpt_ok {tol : ℚ} {p p' : Partial} {c : RawCpt} (h : addCpt tol p c = .ok p') :
    ∃ i nm dm cur ps rows s, p[i]? = some (nm, dm, cur) ∧ p' = p.set i (nm, dm, some (ps, rows)) ∧
      assembleCpt tol dm.length (ps.map (pdomLen p)) s = .ok rows := by
  unfold addCpt at h
  cases h1 : findVar p c.child with
  | none => simp [h1] at h
  | some i =>
    cases h2 : resolveParents p c.parents with
    | none => simp [h1, h2] at h
    | some ps =>
      cases h3 : p[i]? with
      | none => simp [h1, h2, h3] at h
      | some e =>
        obtain ⟨nm, dm, cur⟩ := e
        simp only [h1, h2, h3] at h
        split_ifs at h with hc
        cases h4 : scanItems c.items {} with
        | error m => simp [h4] at h
        | ok s =>
          simp only [h4] at h
          have hmap : (ps.map (pdomOf p)).map List.length = ps.map (pdomLen p) := by
            rw [List.map_map]
            apply List.map_congr_left
            intro j _
            simp only [Function.comp, pdomLen, pdomOf]
            cases p[j]? with
            | none => rfl
            | some e => rfl
          rw [hmap] at h
          cases h5 : assembleCpt tol dm.length (ps.map (pdomLen p))
              (resolveScanned (ps.map (pdomOf p)) s) with
          | error m => simp [h5] at h
          | ok rows =>
            simp only [h5] at h
            injection h with h
            exact ⟨i, nm, dm, cur, ps, rows, _, h3, h.symm, h5⟩

lemma addCpt_inv {tol : ℚ} {p p' : Partial} {c : RawCpt} (hp : PInv tol p) (h : addCpt tol p c = .ok p') :
    PInv tol p' := by
  obtain ⟨i, nm, dm, cur, ps, rows, s, hi, rfl, hs⟩ := addCpt_ok h
  have hlen := pdomLen_set p i nm dm cur (some (ps, rows)) hi
  have hlt : i < p.length := by
    by_contra hh
    rw [List.getElem?_eq_none (by omega)] at hi
    cases hi
  intro i' nm' dm' ps' rows' he
  rw [hlen]
  by_cases hii : i = i'
  · subst hii
    rw [List.getElem?_set_self hlt] at he
    injection he with he
    injection he with h1 he
    injection he with h2 he
    injection he with he
    injection he with h3 h4
    subst h1 h2 h3 h4
    exact assembleCpt_sound hs
  · rw [List.getElem?_set_ne hii] at he
    exact hp i' nm' dm' ps' rows' he

lemma addCpts_inv {tol : ℚ} {cs : List RawCpt} :
    ∀ {p p' : Partial}, PInv tol p → addCpts tol p cs = .ok p' → PInv tol p' := by
  induction cs with
  | nil => intro p p' hp h; simp only [addCpts] at h; injection h with h; subst h; exact hp
  | cons c cs ih =>
    intro p p' hp h
    simp only [addCpts] at h
    cases hc : addCpt tol p c with
    | error m => simp [hc] at h
    | ok p1 => simp only [hc] at h; exact ih (addCpt_inv hp hc) h

lemma finishNet_ok : ∀ {p : Partial} {net : Net}, finishNet p = .ok net →
    p = net.map (fun v => (v.name, v.domain, some (v.parents, v.cpt))) := by
  intro p
  induction p with
  | nil => intro net h; simp only [finishNet] at h; injection h with h; subst h; rfl
  | cons e p ih =>
    intro net h
    obtain ⟨nm, dm, o⟩ := e
    cases o with
    | none => simp [finishNet] at h
    | some pr =>
      obtain ⟨ps, rows⟩ := pr
      simp only [finishNet] at h
      cases hf : finishNet p with
      | error m => simp [hf] at h
      | ok vs =>
        simp only [hf] at h
        injection h with h
        subst h
        simp [ih hf]

/-- **accepted ⇒ complete and normalised, for the whole file.**  If the import accepts a file, every variable of
the resulting network has exactly one CPT row per combination of its parents' values, each row has one
probability per value of the variable and sums to 1 within the tolerance. -/
theorem assembleNet_sound {tol : ℚ} {vars : List RawVar} {cpts : List RawCpt} {net : Net}
    (h : assembleNet tol vars cpts = .ok net) :
    ∀ v ∈ net, v.cpt.length = numRows (parentDoms net v) ∧
      ∀ r ∈ v.cpt, r.length = v.dom ∧ |1 - r.sum| < tol := by
  unfold assembleNet at h
  cases h1 : checkVarBlocks vars with
  | error m => simp [h1] at h
  | ok decls =>
    simp only [h1] at h
    split_ifs at h with hd
    cases h2 : addCpts tol (decls.map (fun d => (d.1, d.2, none))) cpts with
    | error m => simp [h2] at h
    | ok p =>
      simp only [h2] at h
      have h0 : PInv tol (decls.map (fun d => (d.1, d.2, (none : Option (List ℕ × List (List ℚ)))))) := by
        intro i nm dm ps rows he
        rw [List.getElem?_map] at he
        cases hdi : decls[i]? with
        | none => simp [hdi] at he
        | some d => simp [hdi] at he
      have hinv := addCpts_inv h0 h2
      have hp := finishNet_ok h
      intro v hv
      obtain ⟨i, hi, rfl⟩ := List.getElem_of_mem hv
      have hget : p[i]? = some (net[i].name, net[i].domain, some (net[i].parents, net[i].cpt)) := by
        rw [hp, List.getElem?_map, List.getElem?_eq_getElem hi]
        rfl
      have hdom : pdomLen p = domOf net := by
        funext j
        unfold pdomLen domOf
        rw [hp, List.getElem?_map]
        cases net[j]? with
        | none => rfl
        | some w => rfl
      have := hinv i _ _ _ _ hget
      rw [hdom] at this
      exact this

/-- non-vacuity: a two-variable file in mixed notation is accepted -/
example : (match assembleNet (1/1000)
    [⟨"A", [(2, ["a", "b"])]⟩, ⟨"X", [(2, ["0", "1"])]⟩]
    [⟨"X", ["A"], [.dflt [1/2, 1/2], .entry ["b"] [1/4, 3/4]]⟩, ⟨"A", [], [.table [1/4, 3/4]]⟩] with
    | .ok net => net.length == 2
    | .error _ => false) = true := by
  decide +kernel

end Polar.BN
