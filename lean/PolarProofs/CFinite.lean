import Mathlib.Algebra.Polynomial.AlgebraMap
import Mathlib.Algebra.Polynomial.Degree.Lemmas
import Mathlib.Algebra.Polynomial.Monic
import Mathlib.Algebra.Polynomial.Taylor
import Mathlib.Data.Nat.WithBot
import Mathlib.LinearAlgebra.Matrix.Charpoly.Basic
import Mathlib.Tactic

/-! C-finite sequences: annihilating polynomials of the shift operator (DESIGN §2.4). -/

open Polynomial

namespace CFin
variable {K : Type*} [CommRing K]

def shiftEnd : Module.End K (ℕ → K) where
  toFun u := fun n => u (n+1)
  map_add' _ _ := rfl
  map_smul' _ _ := rfl

@[simp] lemma shiftEnd_apply (u : ℕ → K) (n : ℕ) : shiftEnd u n = u (n+1) := rfl

lemma shiftEnd_pow_apply (i : ℕ) (u : ℕ → K) (n : ℕ) : (shiftEnd ^ i) u n = u (n+i) := by
  induction i generalizing u n with
  | zero => simp
  | succ i ih =>
    rw [pow_succ, Module.End.mul_apply, ih]
    simp [Nat.add_assoc]

def Ann (p : K[X]) (u : ℕ → K) : Prop := aeval (shiftEnd (K := K)) p u = 0

lemma aeval_shift_apply (p : K[X]) (u : ℕ → K) (n : ℕ) :
    aeval (shiftEnd (K := K)) p u n = p.sum (fun i a => a * u (n+i)) := by
  rw [aeval_def, eval₂_eq_sum, Polynomial.sum]
  simp only [LinearMap.sum_apply, Finset.sum_apply, Polynomial.sum]
  refine Finset.sum_congr rfl (fun i _ => ?_)
  simp [Module.algebraMap_end_apply, shiftEnd_pow_apply]

lemma Ann.mul_left {p : K[X]} {u : ℕ → K} (h : Ann p u) (q : K[X]) : Ann (q * p) u := by
  unfold Ann at *
  rw [map_mul, Module.End.mul_apply, h, map_zero]

lemma Ann.mul_right {p : K[X]} {u : ℕ → K} (h : Ann p u) (q : K[X]) : Ann (p * q) u := by
  rw [mul_comm]; exact h.mul_left q

lemma Ann.sub {p q : K[X]} {u w : ℕ → K} (hu : Ann p u) (hw : Ann q w) : Ann (p * q) (u - w) := by
  have h1 := hu.mul_right q
  have h2 := hw.mul_left p
  unfold Ann at *
  rw [map_sub, h1, h2, sub_zero]

lemma Ann.add {p q : K[X]} {u w : ℕ → K} (hu : Ann p u) (hw : Ann q w) : Ann (p * q) (u + w) := by
  have h1 := hu.mul_right q
  have h2 := hw.mul_left p
  unfold Ann at *
  rw [map_add, h1, h2, add_zero]

/-- A sequence annihilated by a monic polynomial of degree `d` whose first `d` values vanish is zero. -/
theorem eq_zero_of_ann_monic {p : K[X]} (hp : p.Monic) {u : ℕ → K} (h : Ann p u)
    (h0 : ∀ n < p.natDegree, u n = 0) : ∀ n, u n = 0 := by
  intro n
  induction n using Nat.strong_induction_on with
  | _ n ih =>
    by_cases hn : n < p.natDegree
    · exact h0 n hn
    · push_neg at hn
      obtain ⟨m, rfl⟩ := Nat.exists_eq_add_of_le hn
      have := congrFun h m
      rw [aeval_shift_apply, Polynomial.sum_over_range' _ (by simp) (p.natDegree + 1) (by omega),
        Finset.sum_range_succ] at this
      have hlead : p.coeff p.natDegree = 1 := hp
      rw [hlead, one_mul] at this
      have hz : ∑ x ∈ Finset.range p.natDegree, p.coeff x * u (m + x) = 0 := by
        apply Finset.sum_eq_zero
        intro i hi
        rw [ih (m + i) (by have := Finset.mem_range.mp hi; omega), mul_zero]
      rw [hz, zero_add] at this
      simpa [Nat.add_comm] using this

end CFin



open Polynomial

namespace CFin
variable {K : Type*} [CommRing K]

/-- the sequence `n ↦ q(n) ρ^n` -/
def expSeq (q : K[X]) (ρ : K) : ℕ → K := fun n => q.eval (n : K) * ρ ^ n

lemma expSeq_zero (ρ : K) : expSeq (0 : K[X]) ρ = 0 := by
  funext n; simp [expSeq]

lemma aeval_X_sub_C_expSeq (q : K[X]) (ρ : K) :
    aeval (shiftEnd (K := K)) (X - C ρ) (expSeq q ρ) = expSeq (C ρ * (taylor 1 q - q)) ρ := by
  funext n
  simp only [map_sub, aeval_X, aeval_C, LinearMap.sub_apply, shiftEnd_apply,
    Module.algebraMap_end_apply, Pi.sub_apply, Pi.smul_apply, smul_eq_mul, expSeq, eval_mul, eval_C,
    eval_sub, taylor_eval, Nat.cast_add, Nat.cast_one]
  ring

lemma degree_taylor_sub_lt {q : K[X]} (hq : q ≠ 0) : (taylor 1 q - q).degree < q.degree := by
  have h := degree_sub_lt_left (p := taylor 1 q) (q := q) (degree_taylor q 1)
    (by simpa using hq) (leadingCoeff_taylor (r := (1:K)) (f := q))
  rwa [degree_taylor] at h

theorem ann_expSeq (ρ : K) : ∀ (a : ℕ) (q : K[X]), q.degree < a → Ann ((X - C ρ) ^ a) (expSeq q ρ)
  | 0, q, h => by
    have : q = 0 := by
      have : q.degree = ⊥ := Nat.WithBot.lt_zero_iff.mp (by simpa using h)
      exact degree_eq_bot.mp this
    subst this
    unfold Ann; rw [expSeq_zero, map_zero]
  | a+1, q, h => by
    unfold Ann
    rw [pow_succ, map_mul, Module.End.mul_apply, aeval_X_sub_C_expSeq]
    by_cases hq : q = 0
    · subst hq; simp only [map_zero, sub_self, mul_zero, expSeq_zero]
    · apply ann_expSeq ρ a
      calc (C ρ * (taylor 1 q - q)).degree ≤ (C ρ).degree + (taylor 1 q - q).degree := degree_mul_le _ _
        _ ≤ 0 + (taylor 1 q - q).degree := by gcongr; exact degree_C_le
        _ = (taylor 1 q - q).degree := zero_add _
        _ < a := by
          have h1 := degree_taylor_sub_lt hq
          have h2 : q.degree ≤ a := by
            apply natDegree_le_iff_degree_le.mp
            have := (natDegree_lt_iff_degree_lt hq).mpr h
            omega
          exact lt_of_lt_of_le h1 h2

end CFin



open Polynomial Matrix

namespace CFin
variable {K : Type*} [CommRing K] {d : ℕ}

/-- the sequence `n ↦ (A^n v)_i` is annihilated by the characteristic polynomial of `A` -/
theorem ann_matrix_seq (A : Matrix (Fin d) (Fin d) K) (v : Fin d → K) (i : Fin d) :
    Ann A.charpoly (fun n => (A ^ n *ᵥ v) i) := by
  unfold Ann
  funext n
  rw [aeval_shift_apply]
  have hCH : aeval A A.charpoly = 0 := Matrix.aeval_self_charpoly A
  have key : (A ^ n * aeval A A.charpoly) *ᵥ v = 0 := by rw [hCH]; simp
  have := congrFun key i
  rw [aeval_def, eval₂_eq_sum, Polynomial.sum, Finset.mul_sum] at this
  simp only [Polynomial.sum]
  rw [Matrix.sum_mulVec] at this
  simp only [Finset.sum_apply, Pi.zero_apply] at this ⊢
  rw [← this]
  refine Finset.sum_congr rfl (fun k _ => ?_)
  rw [Algebra.algebraMap_eq_smul_one, smul_mul_assoc, one_mul, Matrix.mul_smul, ← pow_add,
    Matrix.smul_mulVec, Pi.smul_apply, smul_eq_mul]

end CFin
