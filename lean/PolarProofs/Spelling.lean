/-
  PolarProofs/Spelling.lean — C19: universal theorems about the reference semantics (`Polar/Sem.lean`) that justify
  the meaning-preserving respellings the C19 check uses.  All statements are about the un-merged run `run P false`;
  `MR r x y` (from `PolarProofs/Renaming.lean`) says: both computations fail, or both succeed with `r`-related results.

  Property theorems (each followed by a non-vacuity `example`):

  * elif chains: `elif_eq_nested` (an if/elif/else chain IS the nested else-if AST; executing it is the cascade of
    the two tests), `ite_first_match`, `elifChain_first_match`, `elifChain_no_match` — the first branch whose
    condition holds is the one executed, for chains of any length.
  * explicit last probability: `evalRhs_choice_congr` (a choice depends on its alternatives only through the values of
    the expressions and the constant values of the probabilities), `explicit_last_prob`,
    `evalConst_remainder` (the expression `1 - p₁ - … - p_k` evaluates to `1 - Σ pᵢ`).
  * printer congruences: `neg_eq_mul_neg_one`, `sub_eq_add_neg` (equal under every valuation of the atoms),
    `num_depends_on_value`.
  * `execBlock_append` — sequencing: a concatenated block is the weighted bind of its parts (with `bindW_assoc`).
  * `simult_eq_temporaries` — **simultaneous assignment = explicit temporaries**, for ALL right sides (expressions,
    choices, discrete AND continuous draws: the atom table is threaded identically): from paths that agree off the
    temporaries `T`, `xs = rhss` (simultaneous) and `t₁ = rhs₁; …; t_k = rhs_k; x₁ = t₁; …; x_k = t_k` fail together or
    yield the same weights in the same order, the same atom tables, and stores that agree off `T`.
  * `execBlock_respell`, `run_respell`, `moment_respell` — lifted to whole programs: if `P'` is obtained from `P` by
    replacing any number of simultaneous assignments (at any nesting depth) by temporaries blocks and any right sides
    by semantically equal ones (`Respell`), then for every `n` the runs agree off `T` and every monomial that avoids `T`
    has the same expectation.  `Respell.refl` — every block that avoids `T` is related to itself.

  Not covered here: whitespace / comments / parentheses / decimal notation do not exist in the AST (they are the
  parser's business, checked differentially); the printer congruences are proved at the level of evaluated
  polynomials under every valuation, not lifted to runs (the two polynomial lists can differ syntactically).
-/
import Mathlib.Tactic
import Polar.Sem
import Polar.Validate
import PolarProofs.PolyEval
import PolarProofs.Renaming
open Polar Polar.VP Polar.Ren

namespace Polar.Spell

/-! ### the weighted bind: units, append, scaling, associativity -/

theorem map_one_mul (a : WD) : a.map (fun x => ((1 : Rat) * x.1, x.2)) = a := by
  induction a with
  | nil => rfl
  | cons x t ih => simp

theorem bindW_single (q : Path) (f : Path → M WD) : bindW [(1, q)] f = f q := by
  simp only [bindW]
  cases f q with
  | error e => rfl
  | ok a =>
    show Except.ok (a.map (fun x => ((1 : Rat) * x.1, x.2)) ++ []) = Except.ok a
    rw [List.append_nil, map_one_mul]

theorem bindW_pure (d : WD) : bindW d (fun q => (pure [(1, q)] : M WD)) = pure d := by
  induction d with
  | nil => rfl
  | cons a t ih =>
    obtain ⟨w, q⟩ := a
    simp only [bindW, ih, pure_bind]
    simp

theorem execBlock_singleton (s : Stmt) (p : Path) : execBlock [s] p = execStmt s p := by
  rw [execBlock_cons]
  have : (fun q => execBlock [] q) = (fun q => (pure [(1, q)] : M WD)) := by
    funext q; exact execBlock_nil q
  cases h : execStmt s p with
  | error e => rfl
  | ok d =>
    show bindW d (execBlock []) = Except.ok d
    have e : execBlock [] = (fun q => execBlock [] q) := rfl
    rw [e, this, bindW_pure]
    rfl

theorem bindW_append (X Y : WD) (g : Path → M WD) :
    bindW (X ++ Y) g = (do let x ← bindW X g; let y ← bindW Y g; pure (x ++ y)) := by
  induction X with
  | nil =>
    simp only [List.nil_append, bindW, pure_bind]
    cases bindW Y g <;> rfl
  | cons a t ih =>
    obtain ⟨w, q⟩ := a
    simp only [List.cons_append, bindW, ih, bind_assoc, pure_bind, List.append_assoc]

theorem bindW_scale (w : Rat) (A : WD) (g : Path → M WD) :
    bindW (A.map (fun x => (w * x.1, x.2))) g = (do let a ← bindW A g; pure (a.map (fun x => (w * x.1, x.2)))) := by
  induction A with
  | nil => rfl
  | cons a t ih =>
    obtain ⟨u, q⟩ := a
    simp only [List.map_cons, bindW, ih, bind_assoc, pure_bind, List.map_append, List.map_map]
    congr 1
    funext a
    congr 1
    funext b
    congr 2
    apply List.map_congr_left
    intro x _
    simp [mul_assoc]

theorem bindW_congr_MR {f f' : Path → M WD} (hf : ∀ q, MR Eq (f q) (f' q)) (d : WD) :
    MR Eq (bindW d f) (bindW d f') := by
  induction d with
  | nil => exact MR.refl
  | cons a t ih =>
    obtain ⟨w, q⟩ := a
    simp only [bindW]
    refine MR.bind (hf q) (fun x x' hx => MR.bind ih (fun y y' hy => ?_))
    subst hx hy; exact MR.refl

/-- associativity of the weighted bind (the two sides may report different errors, they fail together) -/
theorem bindW_assoc (D : WD) (f g : Path → M WD) :
    MR Eq (bindW D (fun q => f q >>= fun d => bindW d g)) (bindW D f >>= fun d => bindW d g) := by
  induction D with
  | nil => exact MR.refl
  | cons a t ih =>
    obtain ⟨w, q⟩ := a
    simp only [bindW, bind_assoc, pure_bind]
    cases hfq : f q with
    | error e =>
      exact MR.error _ _
    | ok A =>
      show MR Eq (bindW A g >>= fun a => bindW t (fun q => f q >>= fun d => bindW d g) >>= fun b =>
          pure (a.map (fun x => (w * x.1, x.2)) ++ b))
        (bindW t f >>= fun B => bindW (A.map (fun x => (w * x.1, x.2)) ++ B) g)
      cases hA : bindW A g with
      | error e =>
        cases hB : bindW t f with
        | error e' => exact MR.error _ _
        | ok B =>
          show MR Eq (Except.error e) (bindW (A.map (fun x => (w * x.1, x.2)) ++ B) g)
          rw [bindW_append, bindW_scale, hA]
          exact MR.error _ _
      | ok a =>
        have key : ∀ B, bindW (A.map (fun x => (w * x.1, x.2)) ++ B) g =
            (bindW B g >>= fun y => pure (a.map (fun x => (w * x.1, x.2)) ++ y)) := by
          intro B
          rw [bindW_append, bindW_scale, hA]
          rfl
        simp only [key]
        show MR Eq (bindW t (fun q => f q >>= fun d => bindW d g) >>= fun b =>
            pure (a.map (fun x => (w * x.1, x.2)) ++ b))
          (bindW t f >>= fun B => bindW B g >>= fun y => pure (a.map (fun x => (w * x.1, x.2)) ++ y))
        rw [← bind_assoc]
        refine MR.bind ih (fun b b' hb => ?_)
        subst hb; exact MR.refl

/-- **Sequencing.**  Executing `a ++ b` is executing `a` and then `b` from every resulting path. -/
theorem execBlock_append (a b : List Stmt) (p : Path) :
    MR Eq (execBlock (a ++ b) p) (execBlock a p >>= fun d => bindW d (execBlock b)) := by
  induction a generalizing p with
  | nil =>
    rw [List.nil_append, execBlock_nil]
    show MR Eq (execBlock b p) (bindW [(1, p)] (execBlock b))
    rw [bindW_single]
    exact MR.refl
  | cons s a ih =>
    rw [List.cons_append, execBlock_cons, execBlock_cons, bind_assoc]
    refine MR.bind (MR.refl (x := execStmt s p)) (fun d d' hd => ?_)
    subst hd
    exact MR.trans (bindW_congr_MR (fun q => ih q) d) (bindW_assoc d (execBlock a) (execBlock b))
      (fun _ _ _ h1 h2 => h1.trans h2)

/-! ### A.1  elif chains are nested else-if -/

/-- the first-match rule for one test -/
theorem ite_first_match {c : Cond} {t e : List Stmt} {p : Path} {b : Bool} (h : evalCond p.vals c = .ok b) :
    execStmt (.ite c t e) p = if b then execBlock t p else execBlock e p := by
  rw [execStmt, h]
  cases b <;> rfl

theorem ite_true {c : Cond} {t e : List Stmt} {p : Path} (h : evalCond p.vals c = .ok true) :
    execStmt (.ite c t e) p = execBlock t p := by
  rw [ite_first_match h]; rfl

theorem ite_false {c : Cond} {t e : List Stmt} {p : Path} (h : evalCond p.vals c = .ok false) :
    execStmt (.ite c t e) p = execBlock e p := by
  rw [ite_first_match h]; rfl

/-- and conversely: whatever the statement returns was returned by the selected branch -/
theorem ite_first_match_iff {c : Cond} {t e : List Stmt} {p : Path} {b : Bool} (h : evalCond p.vals c = .ok b)
    (D : WD) : execStmt (.ite c t e) p = .ok D ↔ (if b then execBlock t p else execBlock e p) = .ok D := by
  rw [ite_first_match h]

/-- `if c: t elif c': t' else: e` and `if c: t else: (if c': t' else: e)` are the same AST `ite c t [ite c' t' e]`;
    executing it is the cascade of the two tests -/
theorem elif_eq_nested (c c' : Cond) (t t' e : List Stmt) (p : Path) :
    execStmt (.ite c t [.ite c' t' e]) p = (do
      if ← evalCond p.vals c then execBlock t p
      else if ← evalCond p.vals c' then execBlock t' p else execBlock e p) := by
  rw [execStmt, execBlock_singleton, execStmt]

/-- an if / elif / … / else chain of any length as nested else-if -/
def elifChain : List (Cond × List Stmt) → List Stmt → List Stmt
  | [], e => e
  | (c, t) :: rest, e => [.ite c t (elifChain rest e)]

/-- all tests fail: the else block runs -/
theorem elifChain_no_match (branches : List (Cond × List Stmt)) (e : List Stmt) (p : Path)
    (h : ∀ b ∈ branches, evalCond p.vals b.1 = .ok false) :
    execBlock (elifChain branches e) p = execBlock e p := by
  induction branches with
  | nil => rfl
  | cons b rest ih =>
    obtain ⟨c, t⟩ := b
    simp only [elifChain]
    rw [execBlock_singleton, ite_false (h (c, t) (by simp))]
    exact ih (fun b hb => h b (by simp [hb]))

/-- the first branch whose test holds is the one executed -/
theorem elifChain_first_match (pre post : List (Cond × List Stmt)) (c : Cond) (t e : List Stmt) (p : Path)
    (hpre : ∀ b ∈ pre, evalCond p.vals b.1 = .ok false) (hc : evalCond p.vals c = .ok true) :
    execBlock (elifChain (pre ++ (c, t) :: post) e) p = execBlock t p := by
  induction pre with
  | nil =>
    simp only [List.nil_append, elifChain]
    rw [execBlock_singleton, ite_true hc]
  | cons b rest ih =>
    obtain ⟨c0, t0⟩ := b
    simp only [List.cons_append, elifChain]
    rw [execBlock_singleton, ite_false (hpre (c0, t0) (by simp))]
    exact ih (fun b hb => hpre b (by simp [hb]))

/-- non-vacuity: a three-way chain on `x = 2`: the second test is the first that holds -/
example : ∃ D, execBlock (elifChain
      [(.cmp .eq (.var "x") (.num 1), [.assign "y" (.expr (.num 10)) .tt "y"]),
       (.cmp .eq (.var "x") (.num 2), [.assign "y" (.expr (.num 20)) .tt "y"]),
       (.cmp .le (.var "x") (.num 2), [.assign "y" (.expr (.num 30)) .tt "y"])]
      [.assign "y" (.expr (.num 40)) .tt "y"]) ⟨[("x", MPoly.const 2)], []⟩ = .ok D ∧
    execBlock [.assign "y" (.expr (.num 20)) .tt "y"] ⟨[("x", MPoly.const 2)], []⟩ = .ok D := by
  have h := elifChain_first_match [(.cmp .eq (.var "x") (.num 1), [.assign "y" (.expr (.num 10)) .tt "y"])]
    [(.cmp .le (.var "x") (.num 2), [.assign "y" (.expr (.num 30)) .tt "y"])]
    (.cmp .eq (.var "x") (.num 2)) [.assign "y" (.expr (.num 20)) .tt "y"] [.assign "y" (.expr (.num 40)) .tt "y"]
    ⟨[("x", MPoly.const 2)], []⟩ (by intro b hb; simp at hb; subst hb; decide +kernel) (by decide +kernel)
  simp only [List.cons_append, List.nil_append] at h
  rw [h]
  have : isOk (execBlock [.assign "y" (.expr (.num 20)) .tt "y"] ⟨[("x", MPoly.const 2)], []⟩) = true := by
    decide +kernel
  obtain ⟨D, hD⟩ := isOk_iff.mp this
  exact ⟨D, hD, hD⟩

/-! ### A.2  explicit last probability -/

theorem forIn_congr₂ {α α' σ : Type} {R : α' → α → Prop} {f' : α' → σ → M (ForInStep σ)}
    {f : α → σ → M (ForInStep σ)} {l' : List α'} {l : List α} (hl : List.Forall₂ R l' l)
    (hf : ∀ a' a st, R a' a → f' a' st = f a st) (st : σ) : forIn l' st f' = forIn l st f := by
  induction hl generalizing st with
  | nil => rfl
  | @cons a' a t' t haa _ ih =>
    rw [List.forIn_cons, List.forIn_cons, hf a' a st haa]
    congr 1
    funext x
    cases x with
    | done b => rfl
    | yield b => exact ih b

/-- a choice depends on its alternatives only through the values of the expressions and the constant values of
    the probabilities (equality of the computations, error texts included) -/
theorem evalRhs_choice_congr (p : Path) {alts alts' : List (Expr × Expr)}
    (h : List.Forall₂ (fun a a' => evalExpr p.vals a.1 = evalExpr p.vals a'.1 ∧
      evalConst p.vals a.2 = evalConst p.vals a'.2) alts alts') :
    evalRhs p (.choice alts) = evalRhs p (.choice alts') := by
  simp only [evalRhs]
  congr 1
  refine forIn_congr₂ h ?_ _
  rintro ⟨e, pr⟩ ⟨e', pr'⟩ st ⟨h1, h2⟩
  simp only at h1 h2
  simp only [h1, h2]

theorem evalConst_num (s : Store) (c : Rat) : evalConst s (.num c) = .ok c := by
  simp only [evalConst, evalExpr, pure_bind, isConst_const]
  rfl

theorem forall₂_refl_eq {α : Type} {R : α → α → Prop} (hR : ∀ a, R a a) (l : List α) : List.Forall₂ R l l := by
  rw [List.forall₂_same]
  exact fun a _ => hR a

/-- **Explicit last probability.**  Writing the last probability of a choice as any expression whose constant value
    is `c` (e.g. `1 - p₁ - … - p_k`) gives the same outcomes as writing the number `c`. -/
theorem explicit_last_prob (p : Path) (init : List (Expr × Expr)) (e pr : Expr) (c : Rat)
    (h : evalConst p.vals pr = .ok c) :
    evalRhs p (.choice (init ++ [(e, pr)])) = evalRhs p (.choice (init ++ [(e, .num c)])) := by
  refine evalRhs_choice_congr p (List.rel_append (forall₂_refl_eq (fun a => ⟨rfl, rfl⟩) init) ?_)
  exact List.Forall₂.cons ⟨rfl, by rw [h, evalConst_num]⟩ List.Forall₂.nil

/-- the remainder expression `1 - p₁ - … - p_k` (iterated subtraction, as the parser computes it) -/
def remainderExpr (ps : List Expr) : Expr := ps.foldl (fun acc p => .sub acc p) (.num 1)

theorem isConst_cases {v : MPoly} {k : Rat} (h : MPoly.isConst? v = some k) : (v = [] ∧ k = 0) ∨ v = [([], k)] := by
  unfold MPoly.isConst? at h
  split at h
  · simp only [Option.some.injEq] at h
    exact Or.inl ⟨rfl, h.symm⟩
  · simp only [Option.some.injEq] at h
    subst h
    exact Or.inr rfl
  · cases h

theorem isConst_sub {va vb : MPoly} {x y : Rat} (ha : MPoly.isConst? va = some x) (hb : MPoly.isConst? vb = some y) :
    MPoly.isConst? (MPoly.sub va vb) = some (x - y) := by
  rcases isConst_cases ha with ⟨rfl, rfl⟩ | rfl <;> rcases isConst_cases hb with ⟨rfl, rfl⟩ | rfl
  · simp [MPoly.sub, MPoly.add, MPoly.neg, MPoly.isConst?]
  · simp [MPoly.sub, MPoly.add, MPoly.neg, MPoly.isConst?]
  · by_cases hx : x = 0 <;> simp [MPoly.sub, MPoly.add, MPoly.neg, MPoly.insertTerm, MPoly.isConst?, hx]
  · by_cases hxy : x + -y = 0
    · have : x - y = 0 := by rw [sub_eq_add_neg]; exact hxy
      simp [MPoly.sub, MPoly.add, MPoly.neg, MPoly.insertTerm, Mono.cmp, MPoly.isConst?, hxy, this]
    · simp [MPoly.sub, MPoly.add, MPoly.neg, MPoly.insertTerm, Mono.cmp, MPoly.isConst?, hxy, sub_eq_add_neg]

theorem evalConst_ok {s : Store} {e : Expr} {c : Rat} (h : evalConst s e = .ok c) :
    ∃ v, evalExpr s e = .ok v ∧ MPoly.isConst? v = some c := by
  simp only [evalConst] at h
  obtain ⟨v, h1, h⟩ := bind_ok.mp h
  refine ⟨v, h1, ?_⟩
  cases hc : MPoly.isConst? v with
  | none => simp [hc, throw_ne_ok] at h
  | some k =>
    simp only [hc, pure_ok] at h
    rw [h]

theorem evalConst_sub {s : Store} {a b : Expr} {x y : Rat} (ha : evalConst s a = .ok x) (hb : evalConst s b = .ok y) :
    evalConst s (.sub a b) = .ok (x - y) := by
  obtain ⟨va, h1, hca⟩ := evalConst_ok ha
  obtain ⟨vb, h2, hcb⟩ := evalConst_ok hb
  simp only [evalConst, evalExpr, h1, h2]
  show (match MPoly.isConst? (MPoly.sub va vb) with
    | some c => pure c
    | none => throw "nonconstant" : M Rat) = .ok (x - y)
  rw [isConst_sub hca hcb]
  rfl

/-- `1 - p₁ - … - p_k` evaluates to `1 - Σ pᵢ` -/
theorem evalConst_remainder (s : Store) (ps : List Expr) (qs : List Rat)
    (h : List.Forall₂ (fun p q => evalConst s p = .ok q) ps qs) :
    evalConst s (remainderExpr ps) = .ok (1 - qs.sum) := by
  have gen : ∀ (acc : Expr) (x : Rat), evalConst s acc = .ok x →
      evalConst s (ps.foldl (fun acc p => .sub acc p) acc) = .ok (x - qs.sum) := by
    induction h with
    | nil => intro acc x hx; simpa using hx
    | @cons p q ps' qs' hpq _ ih =>
      intro acc x hx
      simp only [List.foldl_cons, List.sum_cons]
      rw [ih (.sub acc p) (x - q) (evalConst_sub hx hpq)]
      congr 1
      ring
  exact gen (.num 1) 1 (evalConst_num s 1)

/-- non-vacuity: `x = a {1/4} b {1/2} c {1 - 1/4 - 1/2}` against `x = a {1/4} b {1/2} c {1/4}` -/
example (p : Path) :
    evalRhs p (.choice ([(.var "a", .num (1/4)), (.var "b", .num (1/2))] ++
      [(.var "c", remainderExpr [.num (1/4), .num (1/2)])])) =
    evalRhs p (.choice ([(.var "a", .num (1/4)), (.var "b", .num (1/2))] ++ [(.var "c", .num (1/4))])) := by
  have h := evalConst_remainder p.vals [.num (1/4), .num (1/2)] [1/4, 1/2]
    (List.Forall₂.cons (evalConst_num _ _) (List.Forall₂.cons (evalConst_num _ _) List.Forall₂.nil))
  have e : (1 : Rat) - [1/4, 1/2].sum = 1/4 := by norm_num
  rw [e] at h
  exact explicit_last_prob p _ _ _ _ h

/-! ### A.3  what the printer relies on -/

/-- a numeral contributes only its rational value: decimal and fraction notation of the same rational are the
    same AST node `num r` -/
theorem num_depends_on_value (s : Store) (r r' : Rat) (h : r = r') : evalExpr s (.num r) = evalExpr s (.num r') := by
  rw [h]

/-- the printer writes a negated compound as `(-1)*(…)`: same value under every valuation of the atoms -/
theorem neg_eq_mul_neg_one (s : Store) (a : Expr) (ρ : String → Rat) :
    (evalExpr s (.neg a)).map (MPoly.eval ρ) = (evalExpr s (.mul (.num (-1)) a)).map (MPoly.eval ρ) := by
  simp only [evalExpr, pure_bind]
  cases evalExpr s a with
  | error e => rfl
  | ok v =>
    show Except.ok (MPoly.eval ρ (MPoly.neg v)) = Except.ok (MPoly.eval ρ (MPoly.mul (MPoly.const (-1)) v))
    rw [MPoly.eval_neg, MPoly.eval_mul, MPoly.eval_const]
    ring_nf

/-- `a - b` and `a + (-b)`: the same value under every valuation of the atoms (in fact the same polynomial) -/
theorem sub_eq_add_neg (s : Store) (a b : Expr) : evalExpr s (.sub a b) = evalExpr s (.add a (.neg b)) := by
  simp only [evalExpr, bind_assoc, pure_bind]
  rfl

theorem sub_eq_add_neg_eval (s : Store) (a b : Expr) (ρ : String → Rat) :
    (evalExpr s (.sub a b)).map (MPoly.eval ρ) = (evalExpr s (.add a (.neg b))).map (MPoly.eval ρ) := by
  rw [sub_eq_add_neg]

/-- non-vacuity -/
example : ∃ v, evalExpr [("x", MPoly.var "@0")] (.neg (.add (.var "x") (.num 1))) = .ok v := by
  have : isOk (evalExpr [("x", MPoly.var "@0")] (.neg (.add (.var "x") (.num 1)))) = true := by decide +kernel
  exact isOk_iff.mp this

/-! ### paths that agree off a set `T` of temporaries -/

/-- the names outside `T` -/
abbrev NotT (T : String → Prop) : String → Prop := fun x => ¬ T x

/-- same atom table, same value of every variable outside `T` -/
abbrev OffT (T : String → Prop) : Path → Path → Prop := PRen id (NotT T)

theorem offT_iff {T : String → Prop} {q q' : Path} :
    OffT T q q' ↔ q'.atoms = q.atoms ∧ ∀ x, ¬ T x → q'.vals.get? x = q.vals.get? x := Iff.rfl

theorem renameExpr_id (e : Expr) : renameExpr id e = e := by
  induction e <;> simp_all [renameExpr]

theorem renameCond_id (c : Cond) : renameCond id c = c := by
  induction c <;> simp_all [renameCond, renameExpr_id]

theorem renameRhs_id (r : Rhs) : renameRhs id r = r := by
  cases r with
  | expr e => simp [renameRhs, renameExpr_id]
  | choice alts =>
    simp only [renameRhs, renameExpr_id]
    congr 1
    exact List.map_id' alts
  | dist name params =>
    simp only [renameRhs]
    congr 1
    rw [List.map_congr_left (fun e _ => renameExpr_id e)]
    exact List.map_id' params

theorem renameRhss_id (rs : List Rhs) : rs.map (renameRhs id) = rs := by
  rw [List.map_congr_left (fun r _ => renameRhs_id r)]
  exact List.map_id' rs

theorem evalCond_off {N : String → Prop} {s s' : Store} (h : Look id N s s') (c : Cond) (hc : condIn N c) :
    MR Eq (evalCond s c) (evalCond s' c) := by
  have := evalCond_rename h c hc
  rwa [renameCond_id] at this

theorem evalRhs_off {N : String → Prop} {q q' : Path} (hq : PRen id N q q') (r : Rhs) (hr : rhsIn N r) :
    MR Eq (evalRhs q r) (evalRhs q' r) := by
  have := evalRhs_rename hq r hr
  rwa [renameRhs_id] at this

theorem evalRhss_off {N : String → Prop} {s s' : Store} (h : Look id N s s') (rs : List Rhs)
    (hr : ∀ r ∈ rs, rhsIn N r) (atoms : List Atom) : MR Eq (evalRhss s rs atoms) (evalRhss s' rs atoms) := by
  have := evalRhss_rename h rs hr atoms
  rwa [renameRhss_id] at this

theorem look_set_both {N : String → Prop} {s s' : Store} (h : Look id N s s') (x : String) (v : MPoly) :
    Look id N (s.set x v) (s'.set x v) := by
  intro y hy
  simp only [id, store_get_set]
  by_cases hyx : y = x
  · simp [hyx]
  · simp only [hyx, if_false]
    exact h y hy

theorem look_setMany_both {N : String → Prop} (xs : List String) (vs : List MPoly) {s s' : Store}
    (h : Look id N s s') : Look id N (setMany s xs vs) (setMany s' xs vs) := by
  induction xs generalizing vs s s' with
  | nil => simpa [setMany] using h
  | cons x xs ih =>
    cases vs with
    | nil => simpa [setMany] using h
    | cons v vs =>
      simp only [setMany]
      exact ih vs (look_set_both h x v)

/-- assigning a temporary on one side only -/
theorem look_set_tmp {T : String → Prop} {s s' : Store} (h : Look id (NotT T) s s') {t : String} (ht : T t)
    (v : MPoly) : Look id (NotT T) s (s'.set t v) := by
  intro y hy
  simp only [id, store_get_set]
  have : ¬ y = t := by rintro rfl; exact hy ht
  simp only [this, if_false]
  exact h y hy

/-! ### A.4  simultaneous assignment = explicit temporaries -/

/-- `t₁ = rhs₁; …; t_k = rhs_k` -/
def tempAssigns : List String → List Rhs → List Stmt
  | t :: ts, r :: rs => .assign t r .tt t :: tempAssigns ts rs
  | _, _ => []

/-- `x₁ = t₁; …; x_k = t_k` -/
def copyAssigns : List String → List String → List Stmt
  | x :: xs, t :: ts => .assign x (.expr (.var t)) .tt x :: copyAssigns xs ts
  | _, _ => []

/-- the parser's desugaring of `xs = rhss` through the temporaries `ts` -/
def viaTemps (xs ts : List String) (rhss : List Rhs) : List Stmt := tempAssigns ts rhss ++ copyAssigns xs ts

theorem plain_assign (x : String) (r : Rhs) (d : String) (p : Path) :
    execStmt (.assign x r .tt d) p = (do
      let outs ← evalRhs p r
      pure (outs.map (fun (o : Rat × MPoly × List Atom) => (o.1, ({ vals := p.vals.set x o.2.1, atoms := o.2.2 } : Path))))) := by
  rw [execStmt]
  simp only [evalCond, pure_bind, if_true]

/-- after phase 1: the temporaries hold the right sides' values, nothing else changed -/
def R1 (p' : Path) (ts : List String) (o : Rat × List MPoly × List Atom) (d : Rat × Path) : Prop :=
  o.1 = d.1 ∧ d.2.atoms = o.2.2 ∧ o.2.1.length = ts.length ∧
    (∀ y, y ∉ ts → d.2.vals.get? y = p'.vals.get? y) ∧
    (∀ tv ∈ ts.zip o.2.1, d.2.vals.get? tv.1 = some tv.2)

theorem R1_lift {p' : Path} {t : String} {ts : List String} (hnt : t ∉ ts) (w : Rat) (v : MPoly) (at1 : List Atom)
    {a : List (Rat × List MPoly × List Atom)} {a' : WD}
    (h : List.Forall₂ (R1 ⟨p'.vals.set t v, at1⟩ ts) a a') :
    List.Forall₂ (R1 p' (t :: ts)) (a.map (fun y => (w * y.1, v :: y.2.1, y.2.2)))
      (a'.map (fun x => (w * x.1, x.2))) := by
  induction h with
  | nil => exact List.Forall₂.nil
  | @cons o d _ _ hod _ ih =>
    simp only [List.map_cons]
    refine List.Forall₂.cons ?_ ih
    obtain ⟨h1, h2, h3, h4, h5⟩ := hod
    refine ⟨by simp only; rw [h1], h2, by simp [h3], ?_, ?_⟩
    · intro y hy
      simp only [List.mem_cons, not_or] at hy
      rw [h4 y hy.2]
      simp only [store_get_set, hy.1, if_false]
    · intro tv htv
      simp only [List.zip_cons_cons, List.mem_cons] at htv
      rcases htv with rfl | htv
      · simp only
        rw [h4 t hnt]
        simp [store_get_set]
      · exact h5 tv htv

theorem temps_phase {T : String → Prop} (rhss : List Rhs) (hr : ∀ r ∈ rhss, rhsIn (NotT T) r) (ts : List String)
    (hts : ∀ t ∈ ts, T t) (hnd : ts.Nodup) (hlen : ts.length = rhss.length) (s₀ : Store) (p' : Path)
    (h : Look id (NotT T) s₀ p'.vals) :
    MR (List.Forall₂ (R1 p' ts)) (evalRhss s₀ rhss p'.atoms) (execBlock (tempAssigns ts rhss) p') := by
  induction rhss generalizing ts p' with
  | nil =>
    have : ts = [] := List.length_eq_zero_iff.mp hlen
    subst this
    rw [evalRhss_nil]
    simp only [tempAssigns]
    rw [execBlock_nil]
    exact MR.pure (List.Forall₂.cons ⟨rfl, rfl, rfl, fun _ _ => rfl, by simp⟩ List.Forall₂.nil)
  | cons r rs ih =>
    cases ts with
    | nil => simp at hlen
    | cons t ts =>
      have hnt : t ∉ ts := (List.nodup_cons.mp hnd).1
      rw [evalRhss_cons]
      simp only [tempAssigns]
      rw [execBlock_cons, plain_assign, bind_assoc]
      simp only [pure_bind]
      refine MR.bind (evalRhs_off (q := ⟨s₀, p'.atoms⟩) (q' := p') ⟨rfl, h⟩ r (hr r (by simp))) (fun fs fs' hfs => ?_)
      subst hfs
      induction fs with
      | nil => exact MR.pure List.Forall₂.nil
      | cons o fs ihf =>
        obtain ⟨w, v, at1⟩ := o
        simp only [bindR, List.map_cons, bindW]
        have hrec := ih (fun r' hr' => hr r' (by simp [hr'])) ts (fun t' ht' => hts t' (by simp [ht']))
          (List.nodup_cons.mp hnd).2 (by simpa using hlen) ⟨p'.vals.set t v, at1⟩
          (look_set_tmp h (hts t (by simp)) v)
        refine MR.bind hrec (fun a a' ha => MR.bind ihf (fun b b' hb => ?_))
        exact MR.pure (List.rel_append (R1_lift hnt w v at1 ha) hb)

/-- phase 2: the copies are deterministic -/
theorem copies_exec {T : String → Prop} (xs : List String) (hx : ∀ x ∈ xs, ¬ T x) (ts : List String)
    (hts : ∀ t ∈ ts, T t) (vs : List MPoly) (hl1 : xs.length = ts.length) (hl2 : vs.length = ts.length) (q : Path)
    (hg : ∀ tv ∈ ts.zip vs, q.vals.get? tv.1 = some tv.2) :
    execBlock (copyAssigns xs ts) q = .ok [(1, ⟨setMany q.vals xs vs, q.atoms⟩)] := by
  induction xs generalizing ts vs q with
  | nil => simp only [copyAssigns, setMany]; rw [execBlock_nil]; rfl
  | cons x xs ih =>
    cases ts with
    | nil => simp at hl1
    | cons t ts =>
      cases vs with
      | nil => simp at hl2
      | cons v vs =>
        have hgt : q.vals.get? t = some v := hg (t, v) (by simp)
        simp only [copyAssigns]
        rw [execBlock_cons, plain_assign]
        simp only [evalRhs, evalExpr, hgt, pure_bind, List.map_cons, List.map_nil]
        show bindW [(1, _)] (execBlock (copyAssigns xs ts)) = _
        rw [bindW_single]
        have hxt : ∀ t' ∈ t :: ts, ¬ t' = x := fun t' ht' hxe => hx x (by simp) (hxe ▸ hts t' ht')
        rw [ih (fun x' hx' => hx x' (by simp [hx'])) ts (fun t' ht' => hts t' (by simp [ht'])) vs
          (by simpa using hl1) (by simpa using hl2) ⟨q.vals.set x v, q.atoms⟩ (fun tv htv => by
            simp only [store_get_set]
            have hm : tv.1 ∈ t :: ts := by
              have := (List.of_mem_zip htv).1
              simp [this]
            simp only [hxt tv.1 hm, if_false]
            exact hg tv (by simp [htv]))]
        rfl

/-- **Simultaneous assignment = explicit temporaries.**  `xs = rhss` and the block
    `t₁ = rhs₁; …; t_k = rhs_k; x₁ = t₁; …; x_k = t_k`, run from paths that agree off `T`, fail together or produce
    the same weights in the same order, the same atom tables and stores that agree off `T`.  Hypotheses: the
    temporaries `ts` are pairwise distinct names in `T`; no assigned variable and no variable read by a right side
    is in `T`.  ALL right sides are covered (expressions, choices, discrete and continuous draws). -/
theorem simult_eq_temporaries {T : String → Prop} (xs ts : List String) (rhss : List Rhs)
    (hlen : xs.length = rhss.length) (hlt : ts.length = rhss.length) (hts : ∀ t ∈ ts, T t) (hnd : ts.Nodup)
    (hx : ∀ x ∈ xs, ¬ T x) (hr : ∀ r ∈ rhss, rhsIn (NotT T) r) {p p' : Path} (hp : OffT T p p') :
    MR (WR (OffT T)) (execStmt (.simult xs rhss) p) (execBlock (viaTemps xs ts rhss) p') := by
  refine MR.trans (r' := fun a b => b = a) ?_ (MR.symm (execBlock_append (tempAssigns ts rhss) (copyAssigns xs ts) p'))
    (fun _ _ _ h1 h2 => h2 ▸ h1)
  rw [execStmt]
  simp only [hlen, ne_eq, not_true_eq_false, if_false]
  have h1 := temps_phase rhss hr ts hts hnd hlt p.vals p' hp.2
  rw [hp.1] at h1
  refine MR.bind h1 (fun outs D1 hD => ?_)
  clear h1
  induction hD with
  | nil => exact MR.pure List.Forall₂.nil
  | @cons o d outs' D1' hod _ ih =>
    obtain ⟨w, vs, at'⟩ := o
    obtain ⟨w', q⟩ := d
    obtain ⟨h1, h2, h3, h4, h5⟩ := hod
    simp only at h1 h2 h3 h4 h5
    subst h1
    simp only [List.map_cons, bindW]
    rw [copies_exec xs hx ts hts vs (by rw [hlen, hlt]) h3 q h5]
    cases hB : bindW D1' (execBlock (copyAssigns xs ts)) with
    | error e => rw [hB] at ih; exact ih.elim
    | ok b' =>
      rw [hB] at ih
      refine MR.ok (List.Forall₂.cons ⟨by simp, h2, ?_⟩ ih)
      refine look_setMany_both xs vs ?_
      intro y hy
      have : y ∉ ts := fun hm => hy (hts y hm)
      simp only [id]
      rw [h4 y this]
      exact hp.2 y hy

/-- non-vacuity: `x, y, z = y, (x+y {1/3} x {2/3}), Normal(x, 1)` through `_t0, _t1, _t2` from x = 1, y = 2:
    the simultaneous assignment succeeds, hence so does the temporaries block, with related results -/
example : ∃ D D', execStmt (.simult ["x", "y", "z"] [.expr (.var "y"),
        .choice [(.add (.var "x") (.var "y"), .num (1/3)), (.var "x", .num (2/3))],
        .dist "Normal" [.var "x", .num 1]]) ⟨[("x", MPoly.const 1), ("y", MPoly.const 2)], []⟩ = .ok D ∧
    execBlock (viaTemps ["x", "y", "z"] ["_t0", "_t1", "_t2"] [.expr (.var "y"),
        .choice [(.add (.var "x") (.var "y"), .num (1/3)), (.var "x", .num (2/3))],
        .dist "Normal" [.var "x", .num 1]]) ⟨[("x", MPoly.const 1), ("y", MPoly.const 2)], []⟩ = .ok D' ∧
    WR (OffT (fun x => x ∈ ["_t0", "_t1", "_t2"])) D D' ∧ D.length = 2 := by
  have h1 : isOk (execStmt (.simult ["x", "y", "z"] [.expr (.var "y"),
        .choice [(.add (.var "x") (.var "y"), .num (1/3)), (.var "x", .num (2/3))],
        .dist "Normal" [.var "x", .num 1]]) ⟨[("x", MPoly.const 1), ("y", MPoly.const 2)], []⟩) = true := by
    decide +kernel
  obtain ⟨D, hD⟩ := isOk_iff.mp h1
  have hrel := simult_eq_temporaries (T := fun x => x ∈ ["_t0", "_t1", "_t2"]) ["x", "y", "z"] ["_t0", "_t1", "_t2"]
    [.expr (.var "y"), .choice [(.add (.var "x") (.var "y"), .num (1/3)), (.var "x", .num (2/3))],
      .dist "Normal" [.var "x", .num 1]] rfl rfl (fun t ht => ht) (by decide)
    (by intro x hx; simp at hx; rcases hx with rfl | rfl | rfl <;> decide)
    (by
      intro r hr
      simp only [List.mem_cons, List.not_mem_nil, or_false] at hr
      rcases hr with rfl | rfl | rfl
      · simp [rhsIn, exprIn, NotT]
      · simp only [rhsIn, List.mem_cons, List.not_mem_nil, or_false]
        rintro a (rfl | rfl) <;> simp [exprIn, NotT]
      · simp only [rhsIn, List.mem_cons, List.not_mem_nil, or_false]
        rintro a (rfl | rfl) <;> simp [exprIn, NotT])
    (p := ⟨[("x", MPoly.const 1), ("y", MPoly.const 2)], []⟩)
    (p' := ⟨[("x", MPoly.const 1), ("y", MPoly.const 2)], []⟩) ⟨rfl, fun _ _ => rfl⟩
  obtain ⟨D', hD', hr⟩ := hrel.ok_left hD
  refine ⟨D, D', hD, hD', hr, ?_⟩
  have h3 : (match execStmt (.simult ["x", "y", "z"] [.expr (.var "y"),
        .choice [(.add (.var "x") (.var "y"), .num (1/3)), (.var "x", .num (2/3))],
        .dist "Normal" [.var "x", .num 1]]) ⟨[("x", MPoly.const 1), ("y", MPoly.const 2)], []⟩ with
      | .ok d => d.length | .error _ => 0) = 2 := by decide +kernel
  rw [hD] at h3
  exact h3

/-! ### A.5  whole programs -/

/-- `b'` respells `b`: simultaneous assignments (at any depth) may have been replaced by temporaries blocks, right
    sides by semantically equal ones; everything read avoids the temporaries `T` -/
inductive Respell (T : String → Prop) : List Stmt → List Stmt → Prop
  | nil : Respell T [] []
  | assign {x : String} {rhs rhs' : Rhs} {g : Cond} {d : String} {b b' : List Stmt}
      (hrhs : ∀ q q', OffT T q q' → MR Eq (evalRhs q rhs) (evalRhs q' rhs'))
      (hg : condIn (NotT T) g) (hd : ¬ T d) (hb : Respell T b b') :
      Respell T (.assign x rhs g d :: b) (.assign x rhs' g d :: b')
  | simult {xs : List String} {rhss : List Rhs} {b b' : List Stmt}
      (hr : ∀ r ∈ rhss, rhsIn (NotT T) r) (hb : Respell T b b') :
      Respell T (.simult xs rhss :: b) (.simult xs rhss :: b')
  | temps {xs ts : List String} {rhss : List Rhs} {b b' : List Stmt}
      (hlen : xs.length = rhss.length) (hlt : ts.length = rhss.length) (hts : ∀ t ∈ ts, T t) (hnd : ts.Nodup)
      (hx : ∀ x ∈ xs, ¬ T x) (hr : ∀ r ∈ rhss, rhsIn (NotT T) r) (hb : Respell T b b') :
      Respell T (.simult xs rhss :: b) (viaTemps xs ts rhss ++ b')
  | ite {c : Cond} {t t' e e' b b' : List Stmt} (hc : condIn (NotT T) c)
      (ht : Respell T t t') (he : Respell T e e') (hb : Respell T b b') :
      Respell T (.ite c t e :: b) (.ite c t' e' :: b')

theorem assign_off {T : String → Prop} {q q' : Path} (hq : OffT T q q') (x : String) {rhs rhs' : Rhs} (g : Cond)
    (d : String) (hrhs : ∀ q q', OffT T q q' → MR Eq (evalRhs q rhs) (evalRhs q' rhs'))
    (hg : condIn (NotT T) g) (hd : ¬ T d) :
    MR (WR (OffT T)) (execStmt (.assign x rhs g d) q) (execStmt (.assign x rhs' g d) q') := by
  rw [execStmt, execStmt]
  refine MR.bind (evalCond_off hq.2 g hg) (fun b b' hb => ?_)
  subst hb
  cases b with
  | true =>
    simp only [if_true]
    refine MR.bind (hrhs q q' hq) (fun o o' ho => ?_)
    subst ho
    refine MR.pure ?_
    induction o with
    | nil => exact List.Forall₂.nil
    | cons a t ih => exact List.Forall₂.cons ⟨rfl, rfl, look_set_both hq.2 x _⟩ ih
  | false =>
    simp only [Bool.false_eq_true, if_false]
    have := hq.2 d hd
    simp only [id] at this
    rw [this]
    cases q.vals.get? d with
    | none => exact MR.throw _ _
    | some v => exact MR.pure (List.Forall₂.cons ⟨rfl, hq.1, look_set_both hq.2 x v⟩ List.Forall₂.nil)

theorem simult_off {T : String → Prop} {q q' : Path} (hq : OffT T q q') (xs : List String) (rhss : List Rhs)
    (hr : ∀ r ∈ rhss, rhsIn (NotT T) r) :
    MR (WR (OffT T)) (execStmt (.simult xs rhss) q) (execStmt (.simult xs rhss) q') := by
  rw [execStmt, execStmt]
  by_cases hlen : xs.length = rhss.length
  · simp only [hlen, ne_eq, not_true_eq_false, if_false]
    rw [hq.1]
    refine MR.bind (evalRhss_off hq.2 rhss hr q.atoms) (fun o o' ho => ?_)
    subst ho
    refine MR.pure ?_
    induction o with
    | nil => exact List.Forall₂.nil
    | cons a t ih => exact List.Forall₂.cons ⟨rfl, rfl, look_setMany_both xs _ hq.2⟩ ih
  · simp only [ne_eq, hlen, not_false_eq_true, if_true]
    exact MR.throw _ _

/-- respelled blocks, run from paths that agree off `T`, fail together or agree position by position off `T` -/
theorem execBlock_respell {T : String → Prop} {b b' : List Stmt} (h : Respell T b b') :
    ∀ {q q' : Path}, OffT T q q' → MR (WR (OffT T)) (execBlock b q) (execBlock b' q') := by
  induction h with
  | nil =>
    intro q q' hq
    rw [execBlock_nil, execBlock_nil]
    exact MR.pure (List.Forall₂.cons ⟨rfl, hq⟩ List.Forall₂.nil)
  | assign hrhs hg hd _ ih =>
    intro q q' hq
    rw [execBlock_cons, execBlock_cons]
    exact MR.bind (assign_off hq _ _ _ hrhs hg hd) (fun D D' hD => bindW_MR hD (fun a a' ha => ih ha))
  | simult hr _ ih =>
    intro q q' hq
    rw [execBlock_cons, execBlock_cons]
    exact MR.bind (simult_off hq _ _ hr) (fun D D' hD => bindW_MR hD (fun a a' ha => ih ha))
  | @temps xs ts rhss b b' hlen hlt hts hnd hx hr _ ih =>
    intro q q' hq
    refine MR.trans (r' := fun a b => b = a) ?_ (MR.symm (execBlock_append (viaTemps xs ts rhss) b' q'))
      (fun _ _ _ h1 h2 => h2 ▸ h1)
    rw [execBlock_cons]
    exact MR.bind (simult_eq_temporaries xs ts rhss hlen hlt hts hnd hx hr hq)
      (fun D D' hD => bindW_MR hD (fun a a' ha => ih ha))
  | ite hc _ _ _ iht ihe ihb =>
    intro q q' hq
    rw [execBlock_cons, execBlock_cons]
    refine MR.bind ?_ (fun D D' hD => bindW_MR hD (fun a a' ha => ihb ha))
    rw [execStmt, execStmt]
    refine MR.bind (evalCond_off hq.2 _ hc) (fun v v' hv => ?_)
    subst hv
    cases v with
    | true => simpa using iht hq
    | false => simpa using ihe hq

/-- `P'` respells `P` -/
structure RespellProg (T : String → Prop) (P P' : Program) : Prop where
  init : Respell T P.init P'.init
  guard : P'.guard = P.guard
  guardIn : condIn (NotT T) P.guard
  body : Respell T P.body P'.body

/-- **C19, runs.**  For every `n`, the un-merged runs of a program and of any respelling of it, from initial stores
    that agree off the temporaries, fail together or agree position by position: same weights, same atom tables,
    same values of all variables outside `T`. -/
theorem run_respell {T : String → Prop} {P P' : Program} (h : RespellProg T P P') {σ₀ σ₀' : Store}
    (hσ : ∀ x, ¬ T x → σ₀'.get? x = σ₀.get? x) (n : Nat) :
    MR (WR (OffT T)) (run P false n σ₀) (run P' false n σ₀') := by
  refine run_MR (execBlock_respell h.init (q := ⟨σ₀, []⟩) (q' := ⟨σ₀', []⟩) ⟨rfl, hσ⟩) (fun q q' hq => ?_) n
  refine iter_MR ?_ (execBlock_respell h.body hq) hq
  rw [h.guard]
  exact evalCond_off hq.2 P.guard h.guardIn

theorem renameMono_id (m : Mono) : renameMono id m = m := by
  simp only [renameMono, id]
  exact List.map_id' m

open Polar.Validate in
/-- **C19, moments.**  Every monomial over non-temporary variables has the same expectation at every `n` in a
    program and in any respelling of it (both undefined, or both defined and equal). -/
theorem moment_respell {T : String → Prop} {P P' : Program} (h : RespellProg T P P') {σ₀ σ₀' : Store}
    (hσ : ∀ x, ¬ T x → σ₀'.get? x = σ₀.get? x) (m : Mono) (hm : ∀ xe ∈ m, ¬ T xe.1) (n : Nat) :
    MR Eq (momentU P m n σ₀) (momentU P' m n σ₀') := by
  refine momentU_MR (run_respell h hσ n) (fun q q' hq => ?_)
  have := pathE_rename hq m hm
  rwa [renameMono_id] at this

open Polar.Validate in
theorem moment_respell_ok {T : String → Prop} {P P' : Program} (h : RespellProg T P P') {σ₀ σ₀' : Store}
    (hσ : ∀ x, ¬ T x → σ₀'.get? x = σ₀.get? x) (m : Mono) (hm : ∀ xe ∈ m, ¬ T xe.1) (n : Nat) (a : Rat) :
    momentU P m n σ₀ = .ok a ↔ momentU P' m n σ₀' = .ok a :=
  (moment_respell h hσ m hm n).eq_ok_iff a

/-! ### building `Respell` derivations -/

theorem Respell.assign_same {T : String → Prop} {x : String} {rhs : Rhs} {g : Cond} {d : String} {b b' : List Stmt}
    (hr : rhsIn (NotT T) rhs) (hg : condIn (NotT T) g) (hd : ¬ T d) (hb : Respell T b b') :
    Respell T (.assign x rhs g d :: b) (.assign x rhs g d :: b') :=
  Respell.assign (fun _ _ hq => evalRhs_off hq rhs hr) hg hd hb

/-- a choice whose probabilities were respelled by expressions with the same constant values -/
theorem Respell.assign_choice {T : String → Prop} {x : String} {alts alts' : List (Expr × Expr)} {g : Cond}
    {d : String} {b b' : List Stmt}
    (ha : List.Forall₂ (fun a a' => a'.1 = a.1 ∧ exprIn (NotT T) a.1 ∧
      ∃ c, (∀ s, evalConst s a.2 = .ok c) ∧ (∀ s, evalConst s a'.2 = .ok c)) alts alts')
    (hg : condIn (NotT T) g) (hd : ¬ T d) (hb : Respell T b b') :
    Respell T (.assign x (.choice alts) g d :: b) (.assign x (.choice alts') g d :: b') := by
  refine Respell.assign (fun q q' hq => ?_) hg hd hb
  simp only [evalRhs]
  rw [hq.1]
  refine MR.bind (forIn_MR ha ?_ _) (fun u u' hu => ?_)
  · rintro ⟨e, pr⟩ ⟨e', pr'⟩ st ⟨h1, h2, c, h3, h4⟩
    simp only at h1 h2 h3 h4
    simp only [h1, h3, h4]
    have := evalExpr_rename hq.2 e h2
    rw [renameExpr_id] at this
    refine MR.bind (x := Except.ok c) (y := Except.ok c) (r := Eq) (MR.ok rfl) (fun w w' hw => ?_)
    subst hw
    refine MR.bind this (fun v v' hv => ?_)
    subst hv; exact MR.refl
  · subst hu; exact MR.refl

mutual
/-- every statement that avoids `T` respells itself -/
theorem Respell.refl_cons {T : String → Prop} (st : Stmt) (hst : stmtIn (NotT T) st) {b b' : List Stmt}
    (hb : Respell T b b') : Respell T (st :: b) (st :: b') := by
  cases st with
  | assign x rhs g d =>
    simp only [stmtIn] at hst
    exact Respell.assign_same hst.2.1 hst.2.2.1 hst.2.2.2 hb
  | simult xs rhss =>
    simp only [stmtIn] at hst
    exact Respell.simult hst.2 hb
  | ite c t e =>
    simp only [stmtIn] at hst
    exact Respell.ite hst.1 (Respell.refl t hst.2.1) (Respell.refl e hst.2.2) hb

theorem Respell.refl {T : String → Prop} (b : List Stmt) (hb : blockIn (NotT T) b) : Respell T b b := by
  cases b with
  | nil => exact Respell.nil
  | cons st rest =>
    simp only [blockIn] at hb
    exact Respell.refl_cons st hb.1 (Respell.refl rest hb.2)
end

/-! ### non-vacuity of the program-level theorems -/

/-- `x = 1; y = 2; f = 0; while f == 0: f = Bernoulli(1/2); if f == 1: x, y = y, x + y
    else: x = x + 1 {1/4} x {1 - 1/4}` -/
def exSrc : Program :=
  { init := [.assign "x" (.expr (.num 1)) .tt "x", .assign "y" (.expr (.num 2)) .tt "y",
             .assign "f" (.expr (.num 0)) .tt "f"],
    guard := .cmp .eq (.var "f") (.num 0),
    body := [.assign "f" (.dist "Bernoulli" [.num (1/2)]) .tt "f",
             .ite (.cmp .eq (.var "f") (.num 1))
               [.simult ["x", "y"] [.expr (.var "y"), .expr (.add (.var "x") (.var "y"))]]
               [.assign "x" (.choice [(.add (.var "x") (.num 1), .num (1/4)),
                                      (.var "x", remainderExpr [.num (1/4)])]) .tt "x"]] }

/-- the same loop with explicit temporaries and the numeric remainder `3/4` -/
def exRespelt : Program :=
  { init := exSrc.init,
    guard := exSrc.guard,
    body := [.assign "f" (.dist "Bernoulli" [.num (1/2)]) .tt "f",
             .ite (.cmp .eq (.var "f") (.num 1))
               (viaTemps ["x", "y"] ["_t0", "_t1"] [.expr (.var "y"), .expr (.add (.var "x") (.var "y"))] ++ [])
               [.assign "x" (.choice [(.add (.var "x") (.num 1), .num (1/4)), (.var "x", .num (3/4))]) .tt "x"]] }

example : viaTemps ["x", "y"] ["_t0", "_t1"] [.expr (.var "y"), .expr (.add (.var "x") (.var "y"))] ++ [] =
    [.assign "_t0" (.expr (.var "y")) .tt "_t0", .assign "_t1" (.expr (.add (.var "x") (.var "y"))) .tt "_t1",
     .assign "x" (.expr (.var "_t0")) .tt "x", .assign "y" (.expr (.var "_t1")) .tt "y"] := rfl

def exT (x : String) : Prop := x ∈ ["_t0", "_t1"]

theorem exRespell : RespellProg exT exSrc exRespelt where
  init := Respell.refl _ (by simp [exSrc, blockIn, stmtIn, rhsIn, condIn, exprIn, NotT, exT])
  guard := rfl
  guardIn := by simp [exSrc, condIn, exprIn, NotT, exT]
  body := by
    refine Respell.assign_same (by simp [rhsIn, exprIn]) (by simp [condIn]) (by simp [exT]) ?_
    refine Respell.ite (by simp [condIn, exprIn, NotT, exT]) ?_ ?_ Respell.nil
    · refine Respell.temps rfl rfl (fun t ht => ht) (by decide) ?_ ?_ Respell.nil
      · intro x hx
        simp only [List.mem_cons, List.not_mem_nil, or_false] at hx
        rcases hx with rfl | rfl <;> simp [exT]
      · intro r hr
        simp only [List.mem_cons, List.not_mem_nil, or_false] at hr
        rcases hr with rfl | rfl <;> simp [rhsIn, exprIn, NotT, exT]
    · refine Respell.assign_choice ?_ (by simp [condIn]) (by simp [exT]) Respell.nil
      refine List.Forall₂.cons ⟨rfl, by simp [exprIn, NotT, exT], 1/4, fun s => evalConst_num s _,
        fun s => evalConst_num s _⟩ (List.Forall₂.cons ⟨rfl, by simp [exprIn, NotT, exT], 3/4, fun s => ?_,
        fun s => evalConst_num s _⟩ List.Forall₂.nil)
      have h := evalConst_remainder s [.num (1/4)] [1/4] (List.Forall₂.cons (evalConst_num _ _) List.Forall₂.nil)
      rw [show (1 : Rat) - [1/4].sum = 3/4 by norm_num] at h
      exact h

open Polar.Validate in
set_option maxRecDepth 100000 in
/-- E(x·y) after three iterations exists in the source spelling, hence exists and is the same in the respelling -/
example : ∃ a, momentU exSrc [("x", 1), ("y", 1)] 3 [] = .ok a ∧ momentU exRespelt [("x", 1), ("y", 1)] 3 [] = .ok a := by
  have h1 : isOk (momentU exSrc [("x", 1), ("y", 1)] 3 []) = true := by decide +kernel
  obtain ⟨a, ha⟩ := isOk_iff.mp h1
  refine ⟨a, ha, (moment_respell_ok exRespell (fun _ _ => rfl) _ ?_ 3 a).mp ha⟩
  intro xe hxe
  simp only [List.mem_cons, List.not_mem_nil, or_false] at hxe
  rcases hxe with rfl | rfl <;> simp [exT]

set_option maxRecDepth 100000 in
example : ∃ D D', run exSrc false 3 [] = .ok D ∧ run exRespelt false 3 [] = .ok D' ∧ WR (OffT exT) D D' := by
  have h1 : isOk (run exSrc false 3 []) = true := by decide +kernel
  obtain ⟨D, hD⟩ := isOk_iff.mp h1
  obtain ⟨D', hD', hr⟩ := (run_respell exRespell (σ₀ := []) (σ₀' := []) (fun _ _ => rfl) 3).ok_left hD
  exact ⟨D, D', hD, hD', hr⟩

end Polar.Spell
