/-
  PolarProofs/Termination.lean — facts about the reference semantics (`Polar/Sem.lean`) that make

        E(M · 1[¬G])(n) / P(¬G)(n)

  (what the harness computes from op `moments` with `"given": ¬G`, and what C09 compares with Polar's
  moment-given-termination sequence) the conditional expectation of M given that the loop has stopped by
  iteration n.  `G` is the loop guard, `T` the first iteration at which `G` is false along a branch of the path tree.

  * `iter_frozen`        : guard false at `p` ⇒ `iter P p = [(1, p)]`  (the state is frozen).
  * `guard_false_stays`  : a weighted list all of whose paths have the guard false is a fixed point of `iterN P false k`
                           (same paths, same weights); `guard_false_stays_single` for `[(w, p)]`.
  * `iterN_decompose`    : `iterN P false m D` is the concatenation, path by path of `D`, of the descendants of that
                           path; `stopped_part` : the descendants of a stopped path are that path itself with the same
                           weight.  `stopped_sublist` / `run_stopped_sublist` : the guard-false paths of `run n` occur,
                           with their weights and in order, among the guard-false paths of `run (n+m)` — the event
                           {guard false at n} is increasing in n.
  * `stopped_by_iff`     : along every branch `c 0 → c 1 → … → c n` of the path tree (`Step`: `c (i+1)` is an outcome
                           of `iter P (c i)`):  guard false at `c n`  ↔  ∃ k ≤ n, guard false at `c k`, i.e.
                           1[¬G at iteration n] = 1[T ≤ n];  `frozen_along` : then `c n = c k`, the state at n IS the
                           exit state.  `run_branch` : every path of `run P false n σ₀` is the end of such a branch
                           that starts at an outcome of the init block.
  * `E_restrict`, `mass_restrict` : E and mass over the selected sub-list are E(M·1[sel]) and Σ w·1[sel] over the
                           whole list.
  * `cond_expectation_def` : for a finite weighted list D and an event `sel` of non-zero mass, the quotient
                           E(M·1[sel]) / P(sel) is the expectation of M under the conditional distribution
                           `condDist D sel` (the selected paths with weights divided by P(sel), total weight 1);
                           `cond_expectation_const` : if M is the constant c on the selected paths the quotient is c.
  * `given_not_guard`    : the condition the harness passes (`.not G`) selects exactly the stopped paths.

  Everything is about the UN-MERGED run (`run P false`) and holds for arbitrary stores (no `ConcStore` hypothesis is
  needed: the statements do not evaluate M except through `pathE`).  Not proved here: the same for `run P true`
  (`mergeFast` goes through `Std.HashMap`).
-/
import Mathlib.Tactic
import Polar.Sem
import PolarProofs.PolyEval
import PolarProofs.Validate
open Polar Polar.VP

namespace Polar.Term

/-! ### the frozen state -/

/-- the loop guard is (definedly) false in the state of the path: the loop has stopped -/
def Stopped (P : Program) (q : Path) : Prop := evalCond q.vals P.guard = .ok false

/-- executable version -/
def stoppedB (P : Program) (q : Path) : Bool :=
  match evalCond q.vals P.guard with
  | .ok false => true
  | _ => false

theorem stoppedB_iff {P : Program} {q : Path} : stoppedB P q = true ↔ Stopped P q := by
  unfold stoppedB Stopped
  split
  · rename_i h; simp [h]
  · rename_i h
    constructor
    · intro h'; cases h'
    · intro h'; exact absurd h' (h)

/-- **Once the guard is false one iteration does nothing.** -/
theorem iter_frozen {P : Program} {p : Path} (h : evalCond p.vals P.guard = .ok false) :
    iter P p = .ok [(1, p)] := by
  unfold iter
  rw [h]
  rfl

theorem bindW_frozen {P : Program} {D : WD} (h : ∀ wq ∈ D, Stopped P wq.2) : bindW D (iter P) = .ok D := by
  induction D with
  | nil => rfl
  | cons x t ih =>
    obtain ⟨w, q⟩ := x
    have hq : iter P q = .ok [(1, q)] := iter_frozen (h (w, q) (by simp))
    have ht := ih (fun y hy => h y (by simp [hy]))
    simp only [bindW, hq, ht]
    simp [bind, Except.bind, pure, Except.pure]

/-- **A stopped list is a fixed point of any number of iterations** (same paths, same weights, same order). -/
theorem guard_false_stays {P : Program} {D : WD} (h : ∀ wq ∈ D, Stopped P wq.2) (k : Nat) :
    iterN P false k D = .ok D := by
  induction k with
  | zero => rfl
  | succ k ih =>
    rw [iterN]
    simp only [Bool.false_eq_true, if_false, bindM_eq, bindW_frozen h]
    exact ih

/-- on every path of `iterN P false k [(w,p)]` started from a path whose guard is false, the path is `p` itself with
the same weight -/
theorem guard_false_stays_single {P : Program} {p : Path} (h : evalCond p.vals P.guard = .ok false)
    (w : Rat) (k : Nat) : iterN P false k [(w, p)] = .ok [(w, p)] :=
  guard_false_stays (fun wq hwq => by
    simp only [List.mem_singleton] at hwq
    subst hwq
    exact h) k

/-! ### the path tree: `iterN` path by path -/

theorem bindW_append (A B : WD) (f : Path → M WD) :
    bindW (A ++ B) f = (do let a ← bindW A f; let b ← bindW B f; pure (a ++ b)) := by
  induction A with
  | nil =>
    simp only [List.nil_append, bindW]
    cases bindW B f <;> rfl
  | cons x A ih =>
    obtain ⟨w, q⟩ := x
    simp only [List.cons_append, bindW, ih]
    cases f q <;> cases bindW A f <;> cases bindW B f <;> simp [bind, Except.bind, pure, Except.pure]

theorem bindW_append_ok {A B E : WD} {f : Path → M WD} (h : bindW (A ++ B) f = .ok E) :
    ∃ a b, bindW A f = .ok a ∧ bindW B f = .ok b ∧ E = a ++ b := by
  rw [bindW_append] at h
  obtain ⟨a, ha, h⟩ := bind_ok.mp h
  obtain ⟨b, hb, h⟩ := bind_ok.mp h
  exact ⟨a, b, ha, hb, (pure_ok.mp h).symm⟩

theorem iterN_succ_front (P : Program) (n : Nat) (D : WD) :
    iterN P false (n + 1) D = (do let d' ← bindW D (iter P); iterN P false n d') := by
  rw [iterN]; simp only [Bool.false_eq_true, if_false, bindM_eq]

theorem iterN_append_ok {P : Program} {k : Nat} {A B E : WD} (h : iterN P false k (A ++ B) = .ok E) :
    ∃ a b, iterN P false k A = .ok a ∧ iterN P false k B = .ok b ∧ E = a ++ b := by
  induction k generalizing A B E with
  | zero =>
    simp only [iterN] at h ⊢
    rw [pure_ok] at h
    exact ⟨A, B, rfl, rfl, h.symm⟩
  | succ k ih =>
    rw [iterN_succ_front] at h
    obtain ⟨d', hd', h⟩ := bind_ok.mp h
    obtain ⟨a', b', ha', hb', rfl⟩ := bindW_append_ok hd'
    obtain ⟨a, b, ha, hb, rfl⟩ := ih h
    refine ⟨a, b, ?_, ?_, rfl⟩
    · rw [iterN_succ_front, ha']; exact ha
    · rw [iterN_succ_front, hb']; exact hb

/-- **`iterN` works path by path**: the result is the concatenation, over the paths of `D` in order, of the
descendants of each path. -/
theorem iterN_decompose {P : Program} {m : Nat} {D D' : WD} (h : iterN P false m D = .ok D') :
    ∃ parts : List WD, List.Forall₂ (fun wq part => iterN P false m [wq] = .ok part) D parts ∧
      D' = parts.flatten := by
  induction D generalizing D' with
  | nil =>
    have := guard_false_stays (P := P) (D := []) (fun wq hwq => by cases hwq) m
    rw [this] at h
    simp only [Except.ok.injEq] at h
    exact ⟨[], List.Forall₂.nil, by simp [← h]⟩
  | cons x t ih =>
    have h' : iterN P false m ([x] ++ t) = .ok D' := h
    obtain ⟨a, b, ha, hb, rfl⟩ := iterN_append_ok h'
    obtain ⟨parts, hparts, rfl⟩ := ih hb
    exact ⟨a :: parts, List.Forall₂.cons ha hparts, by simp⟩

/-- the descendants of a stopped path are the path itself, with the same weight -/
theorem stopped_part {P : Program} {m : Nat} {wq : Rat × Path} {part : WD} (hs : Stopped P wq.2)
    (h : iterN P false m [wq] = .ok part) : part = [wq] := by
  rw [guard_false_stays_single hs wq.1 m] at h
  simp only [Except.ok.injEq] at h
  exact h.symm

/-- **The event {guard false at iteration n} is increasing in n, weights included**: the stopped paths of `D` occur,
in order and with their weights, among the stopped paths of `iterN P false m D`. -/
theorem stopped_sublist {P : Program} {m : Nat} {D D' : WD} (h : iterN P false m D = .ok D') :
    List.Sublist (D.filter (fun wq => stoppedB P wq.2)) (D'.filter (fun wq => stoppedB P wq.2)) := by
  obtain ⟨parts, hparts, rfl⟩ := iterN_decompose h
  clear h
  induction hparts with
  | nil => simp
  | @cons x p t ps hx _ ih =>
    rw [List.flatten_cons, List.filter_append, List.filter_cons]
    by_cases hs : stoppedB P x.2 = true
    · have := stopped_part (stoppedB_iff.mp hs) hx
      subst this
      simp only [hs, if_true, List.filter_cons, List.filter_nil, List.singleton_append]
      exact List.Sublist.cons_cons _ ih
    · simp only [hs]
      exact ih.trans (List.sublist_append_right _ _)

theorem iterN_add (P : Program) (n m : Nat) (D : WD) :
    iterN P false (n + m) D = (do let E ← iterN P false n D; iterN P false m E) := by
  induction m with
  | zero =>
    simp only [Nat.add_zero, iterN]
    cases iterN P false n D <;> rfl
  | succ m ih =>
    rw [← Nat.add_assoc, iterN_succ_end, ih, bind_assoc]
    congr 1
    funext E
    rw [iterN_succ_end]

/-- the run of length n+m is the run of length n followed by m more iterations -/
theorem run_add {P : Program} {n m : Nat} {σ₀ : Store} {D' : WD} (h : run P false (n + m) σ₀ = .ok D') :
    ∃ D, run P false n σ₀ = .ok D ∧ iterN P false m D = .ok D' := by
  simp only [run, Bool.false_eq_true, if_false] at h ⊢
  obtain ⟨D0, hd, h⟩ := bind_ok.mp h
  rw [iterN_add] at h
  obtain ⟨D, hD, h⟩ := bind_ok.mp h
  exact ⟨D, by rw [hd]; exact hD, h⟩

/-- the stopped paths at iteration n are still there, unchanged and with the same weights, at iteration n+m -/
theorem run_stopped_sublist {P : Program} {n m : Nat} {σ₀ : Store} {D D' : WD}
    (h : run P false n σ₀ = .ok D) (h' : run P false (n + m) σ₀ = .ok D') :
    List.Sublist (D.filter (fun wq => stoppedB P wq.2)) (D'.filter (fun wq => stoppedB P wq.2)) := by
  obtain ⟨E, hE, hm⟩ := run_add h'
  rw [h] at hE
  simp only [Except.ok.injEq] at hE
  subst hE
  exact stopped_sublist hm

/-! ### branches of the path tree and the stopping time -/

/-- `q'` is a successor of `q`: one of the outcomes of one loop iteration from `q` -/
def Step (P : Program) (q q' : Path) : Prop := ∃ D, iter P q = .ok D ∧ ∃ w, (w, q') ∈ D

theorem step_of_stopped {P : Program} {q q' : Path} (h : Stopped P q) (hs : Step P q q') : q' = q := by
  obtain ⟨D, hD, w, hw⟩ := hs
  rw [iter_frozen h] at hD
  simp only [Except.ok.injEq] at hD
  subst hD
  simp only [List.mem_singleton, Prod.mk.injEq] at hw
  exact hw.2

/-- a branch `c 0 → c 1 → … → c n` -/
def Branch (P : Program) (c : Nat → Path) (n : Nat) : Prop := ∀ i, i < n → Step P (c i) (c (i + 1))

/-- along a branch the state is frozen from the first iteration at which the guard is false -/
theorem frozen_along {P : Program} {c : Nat → Path} {n k : Nat} (hc : Branch P c n) (hk : k ≤ n)
    (hs : Stopped P (c k)) : c n = c k := by
  induction n with
  | zero =>
    have : k = 0 := by omega
    rw [this]
  | succ n ih =>
    rcases Nat.lt_or_ge k (n + 1) with hlt | hge
    · have hn : c n = c k := ih (fun i hi => hc i (by omega)) (by omega)
      have hstep := hc n (by omega)
      rw [hn] at hstep
      exact step_of_stopped hs hstep
    · have : k = n + 1 := by omega
      rw [this]

/-- **1[guard false at iteration n] = 1[T ≤ n]** along every branch of the path tree: the state at iteration n has the
guard false iff the guard was false at some iteration k ≤ n of the same branch (and then the state at n is the state
at k, `frozen_along`). -/
theorem stopped_by_iff {P : Program} {c : Nat → Path} {n : Nat} (hc : Branch P c n) :
    Stopped P (c n) ↔ ∃ k, k ≤ n ∧ Stopped P (c k) := by
  constructor
  · intro h; exact ⟨n, le_refl n, h⟩
  · rintro ⟨k, hk, hs⟩
    rw [frozen_along hc hk hs]; exact hs

theorem mem_bindW {D E : WD} {f : Path → M WD} (h : bindW D f = .ok E) {x : Rat × Path} (hx : x ∈ E) :
    ∃ wq ∈ D, ∃ A, f wq.2 = .ok A ∧ ∃ y ∈ A, x = (wq.1 * y.1, y.2) := by
  induction D generalizing E with
  | nil => rw [bindW_nil_ok h] at hx; cases hx
  | cons a t ih =>
    obtain ⟨w, q⟩ := a
    obtain ⟨A, B, hA, hB, rfl⟩ := bindW_cons_ok h
    rcases List.mem_append.mp hx with hm | hm
    · obtain ⟨y, hy, rfl⟩ := List.mem_map.mp hm
      exact ⟨(w, q), by simp, A, hA, y, hy, rfl⟩
    · obtain ⟨wq, hwq, r⟩ := ih hB hm
      exact ⟨wq, by simp [hwq], r⟩

/-- every path of `iterN P false n D0` is the end of a branch of length n that starts at a path of `D0` -/
theorem iterN_branch {P : Program} {n : Nat} {D0 D : WD} (h : iterN P false n D0 = .ok D)
    {x : Rat × Path} (hx : x ∈ D) :
    ∃ c : Nat → Path, (∃ w0, (w0, c 0) ∈ D0) ∧ Branch P c n ∧ c n = x.2 := by
  induction n generalizing D x with
  | zero =>
    simp only [iterN] at h
    rw [pure_ok] at h
    subst h
    exact ⟨fun _ => x.2, ⟨x.1, hx⟩, fun i hi => by omega, rfl⟩
  | succ n ih =>
    rw [iterN_succ_end] at h
    obtain ⟨E, hE, hb⟩ := bind_ok.mp h
    obtain ⟨wq, hwq, A, hA, y, hy, rfl⟩ := mem_bindW hb hx
    obtain ⟨c, h0, hc, hn⟩ := ih hE hwq
    refine ⟨fun i => if i ≤ n then c i else y.2, ?_, ?_, by simp⟩
    · simpa using h0
    · intro i hi
      by_cases hin : i < n
      · have h1 : i ≤ n := by omega
        have h2 : i + 1 ≤ n := by omega
        simp only [h1, h2, if_true]
        exact hc i hin
      · have hi' : i = n := by omega
        subst hi'
        simp only [le_refl, if_true, Nat.add_one_le_iff, lt_irrefl, if_false]
        rw [hn]
        exact ⟨A, hA, y.1, hy⟩

/-- every path of `run P false n σ₀` is the end of a branch of length n from an outcome of the init block -/
theorem run_branch {P : Program} {n : Nat} {σ₀ : Store} {D : WD} (h : run P false n σ₀ = .ok D)
    {x : Rat × Path} (hx : x ∈ D) :
    ∃ c : Nat → Path, (∃ D0 w0, execBlock P.init ⟨σ₀, []⟩ = .ok D0 ∧ (w0, c 0) ∈ D0) ∧
      Branch P c n ∧ c n = x.2 := by
  simp only [run, Bool.false_eq_true, if_false] at h
  obtain ⟨D0, h0, h⟩ := bind_ok.mp h
  obtain ⟨c, ⟨w0, hw0⟩, hc, hn⟩ := iterN_branch h hx
  exact ⟨c, ⟨D0, w0, h0, hw0⟩, hc, hn⟩

/-- the two together: a path of `run P false n σ₀` has the guard false iff its branch met a guard-false state at some
iteration k ≤ n — and that state is the path itself (the exit state) -/
theorem run_stopped_iff {P : Program} {n : Nat} {σ₀ : Store} {D : WD} (h : run P false n σ₀ = .ok D)
    {x : Rat × Path} (hx : x ∈ D) :
    ∃ c : Nat → Path, Branch P c n ∧ c n = x.2 ∧
      (Stopped P x.2 ↔ ∃ k, k ≤ n ∧ Stopped P (c k) ∧ c k = x.2) := by
  obtain ⟨c, _, hc, hn⟩ := run_branch h hx
  refine ⟨c, hc, hn, ?_⟩
  constructor
  · intro hs
    exact ⟨n, le_refl n, by rw [hn]; exact hs, hn⟩
  · rintro ⟨k, _, hs, hk⟩
    rw [← hk]; exact hs

/-! ### restriction to an event and the conditional distribution -/

/-- the sub-list of the paths in the event `sel` -/
def restrict (D : WD) (sel : Path → Bool) : WD := D.filter (fun wq => sel wq.2)

/-- all weights multiplied by `c` -/
def scale (c : Rat) (D : WD) : WD := D.map (fun x => (c * x.1, x.2))

/-- the conditional distribution given the event `sel`: the selected paths, weights divided by the mass of the event -/
def condDist (D : WD) (sel : Path → Bool) : WD := scale (1 / (restrict D sel).mass) (restrict D sel)

theorem mass_nil : WD.mass [] = 0 := rfl

theorem mass_cons (x : Rat × Path) (t : WD) : WD.mass (x :: t) = x.1 + WD.mass t := rfl

theorem mass_scale (c : Rat) (D : WD) : (scale c D).mass = c * D.mass := by
  induction D with
  | nil => simp [scale, mass_nil]
  | cons x t ih =>
    have : scale c (x :: t) = (c * x.1, x.2) :: scale c t := rfl
    rw [this, mass_cons, mass_cons, ih]; ring

/-- P(sel) = Σ w · 1[sel] -/
theorem mass_restrict (D : WD) (sel : Path → Bool) :
    (restrict D sel).mass = (D.map (fun wq => if sel wq.2 then wq.1 else 0)).sum := by
  induction D with
  | nil => rfl
  | cons x t ih =>
    unfold restrict at ih ⊢
    rw [List.filter_cons]
    by_cases h : sel x.2 = true
    · simp [h, mass_cons, ih]
    · simp [h, ih]

theorem wsumM_scale {c : Rat} {A : WD} {g : Path → M Rat} {a : Rat} (h : wsumM A g = .ok a) :
    wsumM (scale c A) g = .ok (c * a) := by
  induction A generalizing a with
  | nil =>
    rw [wsumM_nil] at h
    simp only [Except.ok.injEq] at h
    subst h
    simp [scale, wsumM_nil]
  | cons x t ih =>
    obtain ⟨u, q⟩ := x
    obtain ⟨acc, v, h1, h2, rfl⟩ := wsumM_cons_ok h
    have : scale c ((u, q) :: t) = (c * u, q) :: scale c t := rfl
    rw [this, wsumM_cons_mk (ih h1) h2]
    congr 1; ring

/-- **E over the selected sub-list is E(M · 1[sel]) over the whole list** (as elements of `M Rat`: the value of `M` is
not even evaluated on the paths outside the event). -/
theorem E_restrict (D : WD) (sel : Path → Bool) (g : Path → M Rat) :
    wsumM (restrict D sel) g = wsumM D (fun q => if sel q then g q else pure 0) := by
  induction D with
  | nil => rfl
  | cons x t ih =>
    obtain ⟨w, q⟩ := x
    unfold restrict at ih ⊢
    rw [List.filter_cons]
    by_cases h : sel q = true
    · simp only [h, if_true]
      rw [wsumM_cons, wsumM_cons, ih]
      simp [h]
    · simp only [h]
      rw [wsumM_cons, ← ih]
      simp only [Bool.false_eq_true, if_false]
      cases wsumM (List.filter (fun wq => sel wq.2) t) g with
      | error e => rfl
      | ok a => simp [h, bind, Except.bind, pure, Except.pure]

/-- **Definition of the conditional expectation.**  For a finite weighted list `D`, an event `sel` of non-zero mass
`Z = P(sel)` and `num = E(M · 1[sel])` (`E_restrict`): the conditional distribution `condDist D sel` has total weight 1
and the expectation of `M` under it is `num / Z`. -/
theorem cond_expectation_def (D : WD) (sel : Path → Bool) (m : Mono) {num : Rat}
    (hE : (restrict D sel).E m = .ok num) (hZ : (restrict D sel).mass ≠ 0) :
    (condDist D sel).mass = 1 ∧ (condDist D sel).E m = .ok (num / (restrict D sel).mass) := by
  constructor
  · rw [condDist, mass_scale]
    field_simp
  · rw [condDist, E_eq_wsumM, wsumM_scale (by rw [← E_eq_wsumM]; exact hE)]
    congr 1
    field_simp

theorem wsumM_const {A : WD} {g : Path → M Rat} {c : Rat} (hc : ∀ wq ∈ A, g wq.2 = .ok c) :
    wsumM A g = .ok (c * A.mass) := by
  induction A with
  | nil => simp [wsumM_nil, mass_nil]
  | cons x t ih =>
    obtain ⟨w, q⟩ := x
    rw [wsumM_cons_mk (ih (fun y hy => hc y (by simp [hy]))) (hc (w, q) (by simp)), mass_cons]
    congr 1; ring

/-- sanity: if `M` has the same value `c` on every path of the event, the conditional expectation is `c` -/
theorem cond_expectation_const (D : WD) (sel : Path → Bool) (m : Mono) {c : Rat}
    (hc : ∀ wq ∈ D, sel wq.2 = true → pathE m wq.2 = .ok c) (hZ : (restrict D sel).mass ≠ 0) :
    (condDist D sel).E m = .ok c := by
  have hE : (restrict D sel).E m = .ok (c * (restrict D sel).mass) := by
    rw [E_eq_wsumM]
    refine wsumM_const (fun wq hwq => ?_)
    have := List.mem_filter.mp hwq
    exact hc wq this.1 (by simpa using this.2)
  rw [(cond_expectation_def D sel m hE hZ).2]
  congr 1
  field_simp

/-- the condition the harness passes as `"given"` — the negated guard — selects exactly the stopped paths -/
theorem given_not_guard (P : Program) (q : Path) :
    evalCond q.vals (.not P.guard) = .ok true ↔ Stopped P q := by
  unfold Stopped
  simp only [evalCond]
  cases evalCond q.vals P.guard with
  | error e => simp [bind, Except.bind]
  | ok b => cases b <;> simp [bind, Except.bind, pure, Except.pure]

/-- **C09, the conditional sequence.**  For the un-merged run of length n: the stopped paths are exactly the paths
whose branch has stopping time `T ≤ n` (`run_stopped_iff`), their states are the exit states, and the quotient
`E(M·1[stopped]) / P(stopped)` the harness computes is the expectation of `M` under the conditional distribution of
the state given `T ≤ n`. -/
theorem moment_given_termination {P : Program} {n : Nat} {σ₀ : Store} {D : WD} (m : Mono) {num : Rat}
    (hrun : run P false n σ₀ = .ok D)
    (hE : (restrict D (stoppedB P)).E m = .ok num) (hZ : (restrict D (stoppedB P)).mass ≠ 0) :
    (∀ x ∈ condDist D (stoppedB P), ∃ c : Nat → Path, Branch P c n ∧ c n = x.2 ∧
        ∃ k, k ≤ n ∧ Stopped P (c k) ∧ c k = x.2) ∧
    (∀ x ∈ D, (∃ c : Nat → Path, Branch P c n ∧ c n = x.2 ∧ ∃ k, k ≤ n ∧ Stopped P (c k)) →
        ∃ w, (w, x.2) ∈ condDist D (stoppedB P)) ∧
    (condDist D (stoppedB P)).mass = 1 ∧
    (condDist D (stoppedB P)).E m = .ok (num / (restrict D (stoppedB P)).mass) := by
  refine ⟨?_, ?_, (cond_expectation_def D _ m hE hZ).1, (cond_expectation_def D _ m hE hZ).2⟩
  · intro x hx
    simp only [condDist, scale, restrict, List.mem_map, List.mem_filter] at hx
    obtain ⟨y, ⟨hy, hs⟩, rfl⟩ := hx
    obtain ⟨c, hc, hn, hiff⟩ := run_stopped_iff hrun hy
    exact ⟨c, hc, hn, hiff.mp (stoppedB_iff.mp hs)⟩
  · rintro x hx ⟨c, hc, hn, k, hk, hs⟩
    have hstop : Stopped P x.2 := by
      rw [← hn]; exact (stopped_by_iff hc).mpr ⟨k, hk, hs⟩
    refine ⟨1 / (restrict D (stoppedB P)).mass * x.1, ?_⟩
    simp only [condDist, scale, restrict, List.mem_map, List.mem_filter]
    exact ⟨x, ⟨hx, stoppedB_iff.mpr hstop⟩, rfl⟩

/-! ### non-vacuity: the geometric loop `stop = 0; x = 0; while stop == 0: stop = Bernoulli(1/2); x = x + 1` -/

def exG : Program :=
  { init := [.assign "stop" (.expr (.num 0)) .tt "stop", .assign "x" (.expr (.num 0)) .tt "x"],
    guard := .cmp .eq (.var "stop") (.num 0),
    body := [.assign "stop" (.dist "Bernoulli" [.num (1/2)]) .tt "stop",
             .assign "x" (.expr (.add (.var "x") (.num 1))) .tt "x"] }

/-- a stopped state: stop = 1, x = 3 -/
def exStopped : Path := ⟨Store.set (Store.set [] "stop" (MPoly.const 1)) "x" (MPoly.const 3), []⟩

example : evalCond exStopped.vals exG.guard = .ok false := by decide +kernel
example : iter exG exStopped = .ok [(1, exStopped)] := iter_frozen (by decide +kernel)
example : iterN exG false 5 [(1/4, exStopped)] = .ok [(1/4, exStopped)] :=
  guard_false_stays_single (by decide +kernel) _ _

-- after 2 iterations: stopped at 1 (x = 1, weight 1/2), stopped at 2 (x = 2, weight 1/4), running (weight 1/4)
example : (do let D ← run exG false 2 []; pure (D.map (fun (wq : Rat × Path) => (wq.1, stoppedB exG wq.2)))) =
    .ok [(1/2, true), (1/4, true), (1/4, false)] := by decide +kernel

-- E(x·1[stopped])(2) = 1/2·1 + 1/4·2 = 1, P(stopped)(2) = 3/4: the hypotheses of `moment_given_termination` hold
example : (do let D ← run exG false 2 []; (restrict D (stoppedB exG)).E [("x", 1)]) = .ok 1 := by decide +kernel
example : (do let D ← run exG false 2 []; pure (restrict D (stoppedB exG)).mass) = .ok (3/4) := by decide +kernel
-- … and the conditional expectation E(x | T ≤ 2) = 4/3 is what `condDist` gives
example : (do let D ← run exG false 2 []; (condDist D (stoppedB exG)).E [("x", 1)]) = .ok (4/3) := by
  decide +kernel
-- the stopped paths of run 1 are among the stopped paths of run 3, same weights
example (D D' : WD) (h : run exG false 1 [] = .ok D) (h' : run exG false (1 + 2) [] = .ok D') :
    List.Sublist (D.filter (fun wq => stoppedB exG wq.2)) (D'.filter (fun wq => stoppedB exG wq.2)) :=
  run_stopped_sublist h h'
example : (run exG false 1 []).isOk = true ∧ (run exG false (1 + 2) []).isOk = true := by decide +kernel

end Polar.Term
