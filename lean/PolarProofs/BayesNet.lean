import Mathlib.Tactic
import Mathlib.Algebra.Field.GeomSum
import Mathlib.Analysis.SpecificLimits.Basic
import Polar.BayesNet
import PolarProofs.BayesNetComb
import PolarProofs.BayesNetAssemble
import PolarProofs.BayesNetLaw
import PolarProofs.BayesNetTopo

/-! C15 — property theorems about the Bayesian-network model (`Polar/BayesNet.lean`).

* `table_index`, `assembleCpt_sound`, `notations_agree`            (PolarProofs/BayesNetAssemble.lean)
* `massAt_genLawAux_topo`, `genLaw_eq_joint`, `joint_sums_to_one`  (PolarProofs/BayesNetLaw.lean)
* here: what the two queries compute — `exact_inference` (every target power; the k = 0 defect F32 of the
  code was repaired in /repo 854e393 and the model follows the repaired code),
  `sampling_time_closed`, `sampling_time_limit`, `sampling_time_program`.

The order produced by `topoOrder` (Kahn's algorithm as coded) is proved to be topological whenever the code's
final assertion holds (`topoOrder_isTopo`, PolarProofs/BayesNetTopo.lean), so the theorems below need only
`topoOrder net = some o` (the generator does not fail) and `Net.wf` (rows sum to exactly 1). -/

open Filter Topology

namespace Polar.BN

/-! ### exact inference -/

lemma local_ind (n : ℕ) (ev : List (ℕ × ℕ)) (hev : ∀ e ∈ ev, e.1 < n) : Local n (ind ev) := by
  intro τ τ' h
  unfold ind matchesEv
  have : ev.all (fun e => τ e.1 == e.2) = ev.all (fun e => τ' e.1 == e.2) := by
    rw [List.all_eq, List.all_eq]
    apply decide_eq_decide.mpr
    constructor
    · intro H e he; rw [← h e.1 (hev e he)]; exact H e he
    · intro H e he; rw [h e.1 (hev e he)]; exact H e he
  rw [this]

lemma ind_sq (ev : List (ℕ × ℕ)) (τ : St) (k : ℕ) (hk : 1 ≤ k) : (ind ev τ) ^ k = ind ev τ := by
  unfold ind
  split_ifs
  · simp
  · exact zero_pow (by omega)

/-- ratio identity on any finite weighted table: for k ≥ 1 the numerator the query asks for,
E((x·ind)^k), is E(ind·x^k) -/
theorem ratio_numerator (d : List (St × ℚ)) (ev : List (ℕ × ℕ)) (t k : ℕ) (hk : 1 ≤ k) :
    expectL d (fun τ => (((τ t : ℕ) : ℚ) * ind ev τ) ^ k) = expectL d (fun τ => ind ev τ * ((τ t : ℕ) : ℚ) ^ k) := by
  congr 1
  funext τ
  rw [mul_pow, ind_sq ev τ k hk, mul_comm]

/-- **exact_inference.**  What the exact-inference query reports — the ratio E(inf^k)/E(ind) of the generated
program (numerator E(ind) for k = 0), from any start state and hence at every iteration n ≥ 1 — is
E(X_t^k | evidence) computed from the joint table, for every target power k ≥ 0. -/
theorem exact_inference (net : Net) (hwf : Net.wf net = true) (o : List ℕ)
    (hto : topoOrder net = some o) (σ : St)
    (ev : List (ℕ × ℕ)) (hev : ∀ e ∈ ev, e.1 < net.length) (t : ℕ) (ht : t < net.length) (k : ℕ) :
    genCondMoment net σ ev t k = condMoment net ev t k := by
  have ho := topoOrder_isTopo net o hto
  unfold genCondMoment condMoment evidenceProb
  rw [genLaw_eq_joint net hwf o hto ho σ _ (local_ind _ ev hev)]
  by_cases hk : k = 0
  · subst hk
    simp only [if_true, pow_zero, mul_one]
  · rw [if_neg hk, ratio_numerator _ ev t k (by omega)]
    rw [genLaw_eq_joint net hwf o hto ho σ (fun τ => ind ev τ * ((τ t : ℕ) : ℚ) ^ k)]
    intro τ τ' h
    show ind ev τ * ((τ t : ℕ) : ℚ) ^ k = ind ev τ' * ((τ' t : ℕ) : ℚ) ^ k
    rw [local_ind _ ev hev τ τ' h, h t ht]

/-- a two-node network used as witness: A ∈ {a,b} with P = (1/4, 3/4); X | A with rows (1/2,1/4,1/4), (1/5,1/5,3/5) -/
def exNet : Net :=
  [ { name := "A", domain := ["a", "b"], parents := [], cpt := [[1/4, 3/4]] },
    { name := "X", domain := ["0", "1", "2"], parents := [0], cpt := [[1/2, 1/4, 1/4], [1/5, 1/5, 3/5]] } ]

lemma exNet_wf : Net.wf exNet = true := by decide +kernel
lemma exNet_topo : topoOrder exNet = some [0, 1] := by decide +kernel
lemma exNet_isTopo : isTopo exNet [0, 1] = true := by decide +kernel

/-- non-vacuity: the hypotheses hold for `exNet`, evidence A = b, target X² and X⁰ -/
example : genCondMoment exNet (fun _ => 0) [(0, 1)] 1 2 = condMoment exNet [(0, 1)] 1 2 :=
  exact_inference exNet exNet_wf [0, 1] exNet_topo _ [(0, 1)] (by decide) 1 (by decide) 2

example : genCondMoment exNet (fun _ => 0) [(0, 1)] 1 0 = 1 ∧ condMoment exNet [(0, 1)] 1 0 = 1 := by
  decide +kernel

/-! ### sampling time -/

lemma countSeq_snd (q : ℚ) (n : ℕ) : (countSeq q n).2 = (1 - q) ^ n := by
  induction n with
  | zero => simp [countSeq]
  | succ n ih => simp only [countSeq, ih, pow_succ]

lemma countSeq_fst (q : ℚ) (n : ℕ) : (countSeq q n).1 = ∑ i ∈ Finset.range (n + 1), (1 - q) ^ i := by
  induction n with
  | zero => simp [countSeq]
  | succ n ih =>
    rw [Finset.sum_range_succ, ← ih]
    simp only [countSeq, countSeq_snd, pow_succ]

/-- one more iteration: E(count) − 1 is multiplied by the probability of not matching -/
lemma countSeq_step (q : ℚ) (n : ℕ) : (countSeq q (n + 1)).1 - 1 = (1 - q) * (countSeq q n).1 := by
  rw [countSeq_fst, countSeq_fst, Finset.sum_range_succ', Finset.mul_sum]
  simp only [pow_zero, add_sub_cancel_right, pow_succ]
  apply Finset.sum_congr rfl
  intro i _
  ring

/-- **sampling_time, closed form**: the counter starts at 1 and grows while no iteration has matched;
with q = P(an iteration matches) ≠ 0, E(count)(n) = (1 − (1−q)^{n+1})/q for every n. -/
theorem sampling_time_closed (q : ℚ) (hq : q ≠ 0) (n : ℕ) :
    (countSeq q n).1 = (1 - (1 - q) ^ (n + 1)) / q := by
  rw [countSeq_fst, geom_sum_eq (by intro h; apply hq; linarith)]
  rw [div_eq_div_iff (by intro h; apply hq; linarith) hq]
  ring

example : (countSeq (1/2) 3).1 = (1 - (1 - 1/2 : ℚ) ^ 4) / (1/2) := sampling_time_closed _ (by norm_num) 3

/-- **sampling_time, limit**: for 0 < q ≤ 1 the expected counter tends to 1/q. -/
theorem sampling_time_limit (q : ℚ) (h0 : 0 < q) (h1 : q ≤ 1) :
    Tendsto (fun n => (((countSeq q n).1 : ℚ) : ℝ)) atTop (𝓝 (((1 / q : ℚ)) : ℝ)) := by
  have hq : q ≠ 0 := ne_of_gt h0
  have hform : ∀ n, (((countSeq q n).1 : ℚ) : ℝ) = (1 - (1 - (q : ℝ)) ^ (n + 1)) / (q : ℝ) := by
    intro n
    rw [sampling_time_closed q hq n]
    push_cast
    rfl
  simp only [hform]
  have hr0 : (0 : ℝ) ≤ 1 - (q : ℝ) := by
    have : (q : ℝ) ≤ 1 := by exact_mod_cast h1
    linarith
  have hr1 : 1 - (q : ℝ) < 1 := by
    have : (0 : ℝ) < (q : ℝ) := by exact_mod_cast h0
    linarith
  have hpow : Tendsto (fun n : ℕ => (1 - (q : ℝ)) ^ (n + 1)) atTop (𝓝 0) :=
    (tendsto_add_atTop_iff_nat 1).mpr (tendsto_pow_atTop_nhds_zero_of_lt_one hr0 hr1)
  have := (hpow.const_sub 1).div_const (q : ℝ)
  simpa using this

example : Tendsto (fun n => (((countSeq (57/625) n).1 : ℚ) : ℝ)) atTop (𝓝 (((1 / (57/625) : ℚ)) : ℝ)) :=
  sampling_time_limit _ (by norm_num) (by norm_num)

/-! ### the counter of the generated program follows that recurrence -/

lemma expectL_affine (d : List (St × ℚ)) (x y : ℚ) (h : St → ℚ) :
    expectL d (fun τ => x + y * h τ) = x * expectL d (fun _ => 1) + y * expectL d h := by
  induction d with
  | nil => simp
  | cons p d ih => rw [expectL_cons, expectL_cons, expectL_cons, ih]; ring

lemma expCount_succ (net : Net) (ev : List (ℕ × ℕ)) (n : ℕ) (σ : St) (c k : ℚ) :
    expCount net ev (n + 1) (σ, c, k)
      = expectL (genLaw net σ) (fun τ => expCount net ev n
          (τ, (if matchesEv ev τ then 0 else c), k + (if matchesEv ev τ then 0 else c))) := by
  simp only [expCount, iterCount, expectL, List.map_map, Function.comp_def]

/-- **sampling_time, program level.**  E(count) after n iterations of the generated program with the
sampling-time statements (`continue = 0` on a match, then `count = count + continue`), started with
count = continue = 1 in any state, is `countSeq P(evidence) n`. -/
theorem sampling_time_program (net : Net) (hwf : Net.wf net = true) (o : List ℕ)
    (hto : topoOrder net = some o)
    (ev : List (ℕ × ℕ)) (hev : ∀ e ∈ ev, e.1 < net.length) (n : ℕ) (σ : St) :
    expCount net ev n (σ, 1, 1) = (countSeq (evidenceProb net ev) n).1 := by
  have ho := topoOrder_isTopo net o hto
  have htot : ∀ σ, expectL (genLaw net σ) (fun _ => 1) = 1 := by
    intro σ
    simp only [genLaw, hto]
    exact total_genLawAux net o σ (fun v _ var hvar => (wf_var hwf hvar).dom_pos)
  have hq : ∀ σ, expectL (genLaw net σ) (ind ev) = evidenceProb net ev := fun σ =>
    genLaw_eq_joint net hwf o hto ho σ _ (local_ind _ ev hev)
  have key : ∀ n (σ : St) (c k : ℚ),
      expCount net ev n (σ, c, k) = k + c * ((countSeq (evidenceProb net ev) n).1 - 1) := by
    intro n
    induction n with
    | zero => intro σ c k; simp [expCount, countSeq]
    | succ n ih =>
      intro σ c k
      rw [expCount_succ]
      have : (fun τ => expCount net ev n
          (τ, (if matchesEv ev τ then 0 else c), k + (if matchesEv ev τ then 0 else c)))
          = fun τ => (k + c * (countSeq (evidenceProb net ev) n).1)
              + (-(c * (countSeq (evidenceProb net ev) n).1)) * ind ev τ := by
        funext τ
        rw [ih]
        unfold ind
        split_ifs <;> ring
      rw [this, expectL_affine, htot, hq, countSeq_step]
      ring
  rw [key]
  ring

example : expCount exNet [(0, 1)] 2 (fun _ => 0, 1, 1) = (countSeq (evidenceProb exNet [(0, 1)]) 2).1 :=
  sampling_time_program exNet exNet_wf [0, 1] exNet_topo [(0, 1)] (by decide) 2 _

/-- the three statements together for a concrete evidence probability -/
theorem sampling_time (net : Net) (hwf : Net.wf net = true) (o : List ℕ)
    (hto : topoOrder net = some o)
    (ev : List (ℕ × ℕ)) (hev : ∀ e ∈ ev, e.1 < net.length)
    (h0 : 0 < evidenceProb net ev) (h1 : evidenceProb net ev ≤ 1) (σ : St) :
    (∀ n, expCount net ev n (σ, 1, 1) = (1 - (1 - evidenceProb net ev) ^ (n + 1)) / evidenceProb net ev) ∧
    Tendsto (fun n => ((expCount net ev n (σ, 1, 1) : ℚ) : ℝ)) atTop (𝓝 (((1 / evidenceProb net ev : ℚ)) : ℝ)) := by
  constructor
  · intro n
    rw [sampling_time_program net hwf o hto ev hev n σ, sampling_time_closed _ (ne_of_gt h0) n]
  · simp only [sampling_time_program net hwf o hto ev hev _ σ]
    exact sampling_time_limit _ h0 h1

example : evidenceProb exNet [(0, 1)] = 3 / 4 := by decide +kernel

/-! ### restatements under the names used in DESIGN.md -/

/-- **gen_draws_joint**: `genLaw_eq_joint` with the validity of Kahn's order discharged by `topoOrder_isTopo` -/
theorem gen_draws_joint (net : Net) (hwf : Net.wf net = true) (o : List ℕ) (hto : topoOrder net = some o)
    (σ : St) (g : St → ℚ) (hg : Local net.length g) :
    expectL (genLaw net σ) g = expect net g :=
  genLaw_eq_joint net hwf o hto (topoOrder_isTopo net o hto) σ g hg

/-- **joint_sums_to_one** for every network the code generator does not fail on -/
theorem joint_sums_to_one_of_topoOrder (net : Net) (hwf : Net.wf net = true) (o : List ℕ)
    (hto : topoOrder net = some o) : ((joint net).map (fun p => p.2)).sum = 1 :=
  joint_sums_to_one net hwf o (topoOrder_isTopo net o hto)

alias accept_only_if_rows_complete_and_sum := assembleCpt_sound

/-- non-vacuity of `joint_sums_to_one` / `genLaw_eq_joint` -/
example : ((joint exNet).map (fun p => p.2)).sum = 1 := joint_sums_to_one exNet exNet_wf [0, 1] exNet_isTopo

example : expectL (genLaw exNet (fun _ => 7)) (fun τ => ((τ 1 : ℕ) : ℚ)) = expect exNet (fun τ => ((τ 1 : ℕ) : ℚ)) :=
  gen_draws_joint exNet exNet_wf [0, 1] exNet_topo _ _ (fun τ τ' h => by rw [h 1 (by decide)])

end Polar.BN
