import Mathlib.Tactic
import Polar.Lattice
import PolarProofs.LatticeKernel

/-! C16: the integer kernel **as coded** in `ExponentLattice._integer_kernel` (unimodular row reduction
of `[Aᵀ | I]`, model `integerKernelAsCoded`) is a ℤ-basis of the integer kernel.  Invariant: after the
columns `0..c-1` the active rows are a ℤ-basis of the kernel of the first `c` equations; the Euclid
passes are unimodular changes of that basis, the sum of the absolute values of the current column
strictly decreases in every pass (termination), and dropping the single row with a non-zero entry
leaves a basis of the kernel of one more equation. -/

namespace Polar.Lattice

/-! ### list surgery -/

lemma split_at_index {α : Type} (l : List α) (d : α) (p : Nat) (hp : p < l.length) :
    l = l.take p ++ l.getD p d :: l.drop (p + 1) := by
  induction l generalizing p with
  | nil => simp at hp
  | cons a as ih =>
    cases p with
    | zero => simp
    | succ p =>
      simp at hp
      have := ih p hp
      simp only [List.take_succ_cons, List.getD_cons_succ, List.drop_succ_cons, List.cons_append]
      rw [← this]

lemma exists_split2 (z : List Int) (a b : Nat) (h : z.length = a + b) :
    ∃ zl zr : List Int, z = zl ++ zr ∧ zl.length = a ∧ zr.length = b :=
  ⟨z.take a, z.drop a, (List.take_append_drop a z).symm, by simp [h], by simp [h]⟩

lemma exists_split3 (z : List Int) (a b : Nat) (h : z.length = a + 1 + b) :
    ∃ (zl : List Int) (zp : Int) (zr : List Int), z = zl ++ zp :: zr ∧ zl.length = a ∧ zr.length = b := by
  obtain ⟨zl, zr', rfl, hl, hr⟩ := exists_split2 z a (1 + b) (by omega)
  cases zr' with
  | nil => simp at hr; omega
  | cons zp zr => exact ⟨zl, zp, zr, rfl, hl, by simp at hr; omega⟩

lemma set_length_append {α : Type} (X : List α) (b a : α) (Y : List α) :
    (X ++ b :: Y).set X.length a = X ++ a :: Y := by
  induction X with
  | nil => simp
  | cons x X ih => simp [ih]

/-! ### vector identities used below -/

lemma vadd_zeros_left' {v : List Int} {k : Nat} (h : v.length = k) : vadd (zeros k) v = v := by
  rw [← h]; exact vadd_zeros_left v

lemma vadd_zeros_right' {v : List Int} {k : Nat} (h : v.length = k) : vadd v (zeros k) = v := by
  rw [← h]; exact vadd_zeros_right v

/-- `(A + a•b) + (p•b + (C + c•b)) = A + ((p + a + c)•b + C)` for vectors of equal length -/
lemma vadd_collect (a p c : Int) (A C b : List Int) (hA : A.length = b.length) (hC : C.length = b.length) :
    vadd (vadd A (smul a b)) (vadd (smul p b) (vadd C (smul c b)))
      = vadd A (vadd (smul (p + a + c) b) C) := by
  induction b generalizing A C with
  | nil => simp
  | cons x xs ih =>
    cases A with
    | nil => simp at hA
    | cons y ys =>
      cases C with
      | nil => simp at hC
      | cons w ws =>
        simp at hA hC
        simp only [smul_cons, vadd_cons, ih ys ws hA hC, List.cons.injEq, and_true]
        ring

/-- `comb` over rows reduced by a fixed row `bp` -/
lemma comb_map_reduce (k : Nat) (q : List Int → Int) (bp : List Int) (hbp : bp.length = k)
    (z : List Int) (L : List (List Int)) (hL : ∀ r ∈ L, r.length = k) :
    comb k z (L.map (fun r => vadd r (smul (-(q r)) bp)))
      = vadd (comb k z L) (smul (-(dot z (L.map q))) bp) := by
  induction z generalizing L with
  | nil => simp [zero_smul', hbp]; exact (vadd_zeros_left' (by simp)).symm
  | cons x xs ih =>
    cases L with
    | nil => simp [zero_smul', hbp]; exact (vadd_zeros_left' (by simp)).symm
    | cons l ls =>
      have hls : ∀ r ∈ ls, r.length = k := fun r hr => hL r (by simp [hr])
      have hl : l.length = k := hL l (by simp)
      simp only [List.map_cons, comb_cons, dot_cons]
      rw [ih ls hls, smul_vadd, smul_smul']
      -- (x•l + (x*-q l)•bp) + (comb + (-d)•bp) = (x•l + comb) + (-(x*q l + d))•bp
      have h := vadd_collect (x * -q l) 0 (-(dot xs (ls.map q))) (smul x l) (comb k xs ls) bp
        (by simp [hl, hbp]) (by rw [length_comb k xs ls hls, hbp])
      rw [zero_smul', hbp, vadd_zeros_left' (by
        rw [length_vadd _ _ (by rw [length_comb k xs ls hls]; simp [hbp]), length_comb k xs ls hls])] at h
      rw [h, ← vadd_assoc, vadd_assoc (smul x l), vadd_comm _ (comb k xs ls), ← vadd_assoc]
      congr 2
      ring


lemma comb_split3 (k : Nat) (zl : List Int) (zp : Int) (zr : List Int) (L : List (List Int)) (bp : List Int)
    (R : List (List Int)) (hzl : zl.length = L.length) (hL : ∀ r ∈ L, r.length = k) (hbp : bp.length = k)
    (hR : ∀ r ∈ R, r.length = k) :
    comb k (zl ++ zp :: zr) (L ++ bp :: R) = vadd (comb k zl L) (vadd (smul zp bp) (comb k zr R)) := by
  rw [comb_append k zl (zp :: zr) L (bp :: R) hzl hL (by
    intro b hb
    rcases List.mem_cons.1 hb with rfl | hb
    · exact hbp
    · exact hR b hb)]
  rfl

/-! ### a Euclid pass is a unimodular change of basis -/

lemma IsBasisOf.pass {k : Nat} {P : List Int → Prop} {L R : List (List Int)} {bp : List Int}
    (q : List Int → Int)
    (hB : IsBasisOf k P (L ++ bp :: R))
    (hP : ∀ r : List Int, r.length = k → P r → P (vadd r (smul (-(q r)) bp))) :
    IsBasisOf k P (L.map (fun r => vadd r (smul (-(q r)) bp)) ++ bp ::
      R.map (fun r => vadd r (smul (-(q r)) bp))) := by
  have hL : ∀ r ∈ L, r.length = k := fun r hr => hB.len r (by simp [hr])
  have hR : ∀ r ∈ R, r.length = k := fun r hr => hB.len r (by simp [hr])
  have hbp : bp.length = k := hB.len bp (by simp)
  set f := fun r => vadd r (smul (-(q r)) bp) with hf
  have hfl : ∀ r : List Int, r.length = k → (f r).length = k := by
    intro r hr
    simp only [hf]
    rw [length_vadd _ _ (by simp [hr, hbp]), hr]
  have hL' : ∀ r ∈ L.map f, r.length = k := by
    intro r hr
    obtain ⟨r', hr', rfl⟩ := List.mem_map.1 hr
    exact hfl r' (hL r' hr')
  have hR' : ∀ r ∈ R.map f, r.length = k := by
    intro r hr
    obtain ⟨r', hr', rfl⟩ := List.mem_map.1 hr
    exact hfl r' (hR r' hr')
  -- the key identity
  have key : ∀ (zl : List Int) (zp : Int) (zr : List Int), zl.length = L.length →
      comb k (zl ++ zp :: zr) (L.map f ++ bp :: R.map f)
        = comb k (zl ++ (zp - (dot zl (L.map q) + dot zr (R.map q))) :: zr) (L ++ bp :: R) := by
    intro zl zp zr hzl
    rw [comb_split3 k zl zp zr (L.map f) bp (R.map f) (by simpa using hzl) hL' hbp hR',
      comb_split3 k zl _ zr L bp R hzl hL hbp hR,
      comb_map_reduce k q bp hbp zl L hL, comb_map_reduce k q bp hbp zr R hR,
      vadd_collect _ zp _ (comb k zl L) (comb k zr R) bp
        (by rw [length_comb k zl L hL, hbp]) (by rw [length_comb k zr R hR, hbp])]
    congr 3
    ring
  refine ⟨?_, ?_, ?_, ?_⟩
  · intro b hb
    rcases List.mem_append.1 hb with hb | hb
    · exact hL' b hb
    · rcases List.mem_cons.1 hb with rfl | hb
      · exact hbp
      · exact hR' b hb
  · intro b hb
    rcases List.mem_append.1 hb with hb | hb
    · obtain ⟨r', hr', rfl⟩ := List.mem_map.1 hb
      exact hP r' (hL r' hr') (hB.sound r' (by simp [hr']))
    · rcases List.mem_cons.1 hb with rfl | hb
      · exact hB.sound _ (by simp)
      · obtain ⟨r', hr', rfl⟩ := List.mem_map.1 hb
        exact hP r' (hR r' hr') (hB.sound r' (by simp [hr']))
  · intro x hx hPx
    obtain ⟨z, hzl, hz⟩ := hB.complete x hx hPx
    obtain ⟨zl, zp, zr, rfl, hl, hr⟩ := exists_split3 z L.length R.length (by simp at hzl; omega)
    refine ⟨zl ++ (zp + (dot zl (L.map q) + dot zr (R.map q))) :: zr, by simp [hl, hr], ?_⟩
    rw [key zl _ zr hl, ← hz]
    congr 3
    ring
  · intro z hzl hz
    obtain ⟨zl, zp, zr, rfl, hl, hr⟩ := exists_split3 z L.length R.length (by simp at hzl; omega)
    rw [key zl zp zr hl] at hz
    have h0 := hB.indep _ (by simp [hl, hr]) hz
    have hzl0 : ∀ c ∈ zl, c = 0 := fun c hc => h0 c (by simp [hc])
    have hzr0 : ∀ c ∈ zr, c = 0 := fun c hc => h0 c (by simp [hc])
    have hs : dot zl (L.map q) + dot zr (R.map q) = 0 := by
      rw [dot_eq_zero_of_forall_zero hzl0, dot_eq_zero_of_forall_zero hzr0]; rfl
    have hp0 : zp - (dot zl (L.map q) + dot zr (R.map q)) = 0 := h0 _ (by simp)
    intro c hc
    rcases List.mem_append.1 hc with hc | hc
    · exact hzl0 c hc
    · rcases List.mem_cons.1 hc with rfl | hc
      · rw [hs] at hp0; simpa using hp0
      · exact hzr0 c hc

/-! ### dropping the row with the non-zero entry, moving a row -/

lemma IsBasisOf.remove {k : Nat} {P : List Int → Prop} {X Y : List (List Int)} {b eq : List Int}
    (hB : IsBasisOf k P (X ++ b :: Y)) (hb : dot eq b ≠ 0) (hXY : ∀ r ∈ X ++ Y, dot eq r = 0) :
    IsBasisOf k (fun x => P x ∧ dot eq x = 0) (X ++ Y) := by
  have hX : ∀ r ∈ X, r.length = k := fun r hr => hB.len r (by simp [hr])
  have hY : ∀ r ∈ Y, r.length = k := fun r hr => hB.len r (by simp [hr])
  have hbl : b.length = k := hB.len b (by simp)
  have hXY' : ∀ r ∈ X ++ Y, r.length = k := fun r hr => by
    rcases List.mem_append.1 hr with h | h
    · exact hX r h
    · exact hY r h
  have hvX : ∀ z : List Int, dot eq (comb k z X) = 0 := fun z =>
    dot_comb_eq_zero' hX (fun r hr => hXY r (by simp [hr]))
  have hvY : ∀ z : List Int, dot eq (comb k z Y) = 0 := fun z =>
    dot_comb_eq_zero' hY (fun r hr => hXY r (by simp [hr]))
  have key : ∀ (zx zy : List Int), zx.length = X.length →
      comb k (zx ++ zy) (X ++ Y) = comb k (zx ++ 0 :: zy) (X ++ b :: Y) := by
    intro zx zy hzx
    rw [comb_split3 k zx 0 zy X b Y hzx hX hbl hY, comb_append k zx zy X Y hzx hX hY, zero_smul', hbl,
      vadd_zeros_left' (length_comb k zy Y hY)]
  refine ⟨hXY', fun r hr => ⟨hB.sound r ?_, hXY r hr⟩, ?_, ?_⟩
  · rcases List.mem_append.1 hr with h | h
    · simp [h]
    · simp [h]
  · rintro x hx ⟨hPx, hvx⟩
    obtain ⟨z, hzl, hz⟩ := hB.complete x hx hPx
    obtain ⟨zx, zb, zy, rfl, hl, hr⟩ := exists_split3 z X.length Y.length (by simp at hzl; omega)
    rw [comb_split3 k zx zb zy X b Y hl hX hbl hY] at hz
    have hv : zb * dot eq b = 0 := by
      have := hvx
      rw [← hz, dot_vadd_right _ _ _ (by
          rw [length_comb k zx X hX, length_vadd _ _ (by simp [hbl, length_comb k zy Y hY])]; simp [hbl]),
        dot_vadd_right _ _ _ (by simp [hbl, length_comb k zy Y hY]), dot_smul_right, hvX, hvY] at this
      linarith
    have hzb : zb = 0 := by
      rcases mul_eq_zero.1 hv with h | h
      · exact h
      · exact absurd h hb
    subst hzb
    refine ⟨zx ++ zy, by simp [hl, hr], ?_⟩
    rw [key zx zy hl, comb_split3 k zx 0 zy X b Y hl hX hbl hY, hz]
  · intro z hzl hz
    obtain ⟨zx, zy, rfl, hl, hr⟩ := exists_split2 z X.length Y.length (by simpa using hzl)
    rw [key zx zy hl] at hz
    have h0 := hB.indep _ (by simp [hl, hr]) hz
    intro c hc
    rcases List.mem_append.1 hc with hc | hc
    · exact h0 c (by simp [hc])
    · exact h0 c (by simp [hc])

lemma IsBasisOf.move {k : Nat} {P : List Int → Prop} {L R : List (List Int)} {a : List Int}
    (hB : IsBasisOf k P (a :: (L ++ R))) : IsBasisOf k P (L ++ a :: R) := by
  have hL : ∀ r ∈ L, r.length = k := fun r hr => hB.len r (by simp [hr])
  have hR : ∀ r ∈ R, r.length = k := fun r hr => hB.len r (by simp [hr])
  have ha : a.length = k := hB.len a (by simp)
  have key : ∀ (zl : List Int) (za : Int) (zr : List Int), zl.length = L.length →
      comb k (zl ++ za :: zr) (L ++ a :: R) = comb k (za :: (zl ++ zr)) (a :: (L ++ R)) := by
    intro zl za zr hzl
    rw [comb_split3 k zl za zr L a R hzl hL ha hR, comb_cons, comb_append k zl zr L R hzl hL hR,
      ← vadd_assoc, vadd_comm (comb k zl L), vadd_assoc]
  refine ⟨?_, ?_, ?_, ?_⟩
  · intro b hb
    apply hB.len
    simp only [List.mem_append, List.mem_cons] at hb ⊢
    tauto
  · intro b hb
    apply hB.sound
    simp only [List.mem_append, List.mem_cons] at hb ⊢
    tauto
  · intro x hx hPx
    obtain ⟨z, hzl, hz⟩ := hB.complete x hx hPx
    cases z with
    | nil => simp at hzl
    | cons za z' =>
      obtain ⟨zl, zr, rfl, hl, hr⟩ := exists_split2 z' L.length R.length (by simpa using hzl)
      exact ⟨zl ++ za :: zr, by simp [hl, hr], by rw [key zl za zr hl, hz]⟩
  · intro z hzl hz
    obtain ⟨zl, za, zr, rfl, hl, hr⟩ := exists_split3 z L.length R.length (by simp at hzl; omega)
    rw [key zl za zr hl] at hz
    have h0 := hB.indep _ (by simp [hl, hr]) hz
    intro c hc
    apply h0
    simp only [List.mem_append, List.mem_cons] at hc ⊢
    tauto

lemma IsBasisOf.add_vanishing {k : Nat} {P : List Int → Prop} {B : List (List Int)} {eq : List Int}
    (hB : IsBasisOf k P B) (h0 : ∀ r ∈ B, dot eq r = 0) :
    IsBasisOf k (fun x => P x ∧ dot eq x = 0) B := by
  refine hB.congr (fun x hx => ⟨fun hPx => ⟨hPx, ?_⟩, fun h => h.1⟩)
  obtain ⟨z, _, hz⟩ := hB.complete x hx hPx
  rw [← hz]
  exact dot_comb_eq_zero' hB.len h0


/-! ### the pivot, the first non-zero row -/

lemma bestIdx_map_none {α : Type} (v : α → Int) (act : List α) (h : bestIdx (act.map v) = none) :
    ∀ r ∈ act, v r = 0 := by
  induction act with
  | nil => simp
  | cons x xs ih =>
    simp only [List.map_cons, bestIdx] at h
    cases hb : bestIdx (xs.map v) with
    | none =>
      rw [hb] at h
      simp only at h
      split_ifs at h with hx
      intro r hr
      rcases List.mem_cons.1 hr with rfl | hr
      · exact hx
      · exact ih hb r hr
    | some ia =>
      rw [hb] at h
      obtain ⟨i, a⟩ := ia
      simp only at h
      split_ifs at h

lemma bestIdx_map_some {α : Type} (v : α → Int) (act : List α) (p a : Nat)
    (h : bestIdx (act.map v) = some (p, a)) :
    ∃ (L : List α) (b : α) (R : List α), act = L ++ b :: R ∧ L.length = p ∧ v b ≠ 0 ∧
      (v b).natAbs = a ∧ ∀ r ∈ act, v r ≠ 0 → a ≤ (v r).natAbs := by
  induction act generalizing p a with
  | nil => simp [bestIdx] at h
  | cons x xs ih =>
    simp only [List.map_cons, bestIdx] at h
    cases hb : bestIdx (xs.map v) with
    | none =>
      rw [hb] at h
      simp only at h
      split_ifs at h with hx
      simp only [Option.some.injEq, Prod.mk.injEq] at h
      obtain ⟨rfl, rfl⟩ := h
      refine ⟨[], x, xs, rfl, rfl, hx, rfl, ?_⟩
      intro r hr hv
      rcases List.mem_cons.1 hr with rfl | hr
      · exact le_rfl
      · exact absurd (bestIdx_map_none v xs hb r hr) hv
    | some ia =>
      rw [hb] at h
      obtain ⟨i, a'⟩ := ia
      obtain ⟨L', b', R', hxs, hl, hvb, hab, hmin⟩ := ih i a' hb
      simp only at h
      split_ifs at h with hx
      · simp only [Option.some.injEq, Prod.mk.injEq] at h
        obtain ⟨rfl, rfl⟩ := h
        refine ⟨[], x, xs, rfl, rfl, hx.1, rfl, ?_⟩
        intro r hr hv
        rcases List.mem_cons.1 hr with rfl | hr
        · exact le_rfl
        · exact le_trans hx.2 (hmin r hr hv)
      · simp only [Option.some.injEq, Prod.mk.injEq] at h
        obtain ⟨rfl, rfl⟩ := h
        refine ⟨x :: L', b', R', by rw [hxs]; rfl, by simp [hl], hvb, hab, ?_⟩
        intro r hr hv
        rcases List.mem_cons.1 hr with rfl | hr
        · by_contra hlt
          exact hx ⟨hv, by omega⟩
        · exact hmin r hr hv

lemma firstNonzero_none (eq : List Int) (act : List (List Int)) (h : firstNonzero eq act = none) :
    ∀ r ∈ act, dot eq r = 0 := by
  induction act with
  | nil => simp
  | cons x xs ih =>
    simp only [firstNonzero] at h
    split_ifs at h with hx
    intro r hr
    rcases List.mem_cons.1 hr with rfl | hr
    · simpa using hx
    · exact ih (by simpa using h) r hr

lemma firstNonzero_some (eq : List Int) (act : List (List Int)) (j : Nat)
    (h : firstNonzero eq act = some j) :
    ∃ (X : List (List Int)) (b : List Int) (Y : List (List Int)), act = X ++ b :: Y ∧ X.length = j ∧
      (∀ r ∈ X, dot eq r = 0) ∧ dot eq b ≠ 0 := by
  induction act generalizing j with
  | nil => simp [firstNonzero] at h
  | cons x xs ih =>
    simp only [firstNonzero] at h
    split_ifs at h with hx
    · simp only [Option.some.injEq] at h
      subst h
      exact ⟨[], x, xs, rfl, rfl, by simp, by simpa using hx⟩
    · simp only [Option.map_eq_some_iff] at h
      obtain ⟨j', hj', rfl⟩ := h
      obtain ⟨X, b, Y, hxs, hl, hX, hb⟩ := ih j' hj'
      refine ⟨x :: X, b, Y, by rw [hxs]; rfl, by simp [hl], ?_, hb⟩
      intro r hr
      rcases List.mem_cons.1 hr with rfl | hr
      · simpa using hx
      · exact hX r hr

lemma numNonzero_split (eq : List Int) (L : List (List Int)) (b : List Int) (R : List (List Int)) :
    numNonzero eq (L ++ b :: R) =
      numNonzero eq L + (if dot eq b ≠ 0 then 1 else 0) + numNonzero eq R := by
  simp only [numNonzero, List.filter_append, List.filter_cons, List.length_append]
  split_ifs with h1 h2 h2
  · simp; omega
  · exact absurd (by simpa using h1) h2
  · exact absurd (by simpa using h2) h1
  · simp

lemma numNonzero_eq_zero {eq : List Int} {X : List (List Int)} (h : numNonzero eq X = 0) :
    ∀ r ∈ X, dot eq r = 0 := by
  intro r hr
  by_contra hne
  have : r ∈ X.filter (fun r => dot eq r != 0) := List.mem_filter.2 ⟨hr, by simpa using hne⟩
  have := List.length_pos_of_mem this
  unfold numNonzero at h
  omega

lemma exists_of_numNonzero_pos {eq : List Int} {X : List (List Int)} (h : 0 < numNonzero eq X) :
    ∃ r ∈ X, dot eq r ≠ 0 := by
  unfold numNonzero at h
  obtain ⟨r, hr⟩ := List.exists_mem_of_length_pos h
  obtain ⟨h1, h2⟩ := List.mem_filter.1 hr
  exact ⟨r, h1, by simpa using h2⟩

lemma absSum_split (eq : List Int) (L : List (List Int)) (b : List Int) (R : List (List Int)) :
    absSum eq (L ++ b :: R) = absSum eq L + (dot eq b).natAbs + absSum eq R := by
  simp [absSum, List.sum_append]; omega

lemma euclidPass_split (eq : List Int) (L : List (List Int)) (b : List Int) (R : List (List Int)) :
    euclidPass eq (L ++ b :: R) L.length = L.map (reduceBy eq b) ++ b :: R.map (reduceBy eq b) := by
  simp [euclidPass]

/-! ### termination: the column's absolute sum strictly decreases -/

lemma natAbs_fmod_lt (x y : Int) (hy : y ≠ 0) : (x.fmod y).natAbs < y.natAbs := by
  rcases lt_or_gt_of_ne hy with h | h
  · have h1 := Int.fmod_nonneg_of_pos (-x) (b := -y) (by omega)
    have h2 := Int.fmod_lt_of_pos (-x) (b := -y) (by omega)
    rw [Int.neg_fmod_neg] at h1 h2
    omega
  · have h1 := Int.fmod_nonneg_of_pos x h
    have h2 := Int.fmod_lt_of_pos x h
    omega

lemma dot_reduceBy (eq bp r : List Int) (h : r.length = bp.length) :
    dot eq (reduceBy eq bp r) = (dot eq r).fmod (dot eq bp) := by
  unfold reduceBy
  rw [dot_vadd_right _ _ _ (by simp [h]), dot_smul_right, Int.fmod_def]
  ring

lemma absSum_map_le (eq bp : List Int) (hbp : dot eq bp ≠ 0) (X : List (List Int))
    (hX : ∀ r ∈ X, r.length = bp.length)
    (hmin : ∀ r ∈ X, dot eq r ≠ 0 → (dot eq bp).natAbs ≤ (dot eq r).natAbs) :
    absSum eq (X.map (reduceBy eq bp)) ≤ absSum eq X ∧
      ((∃ r ∈ X, dot eq r ≠ 0) → absSum eq (X.map (reduceBy eq bp)) < absSum eq X) := by
  induction X with
  | nil => simp [absSum]
  | cons x xs ih =>
    obtain ⟨ih1, ih2⟩ := ih (fun r hr => hX r (by simp [hr])) (fun r hr => hmin r (by simp [hr]))
    have hx := dot_reduceBy eq bp x (hX x (by simp))
    have hlt := natAbs_fmod_lt (dot eq x) (dot eq bp) hbp
    have hstep : absSum eq ((x :: xs).map (reduceBy eq bp))
        = (dot eq (reduceBy eq bp x)).natAbs + absSum eq (xs.map (reduceBy eq bp)) := by
      simp [absSum]
    have hstep' : absSum eq (x :: xs) = (dot eq x).natAbs + absSum eq xs := by simp [absSum]
    rw [hstep, hstep', hx]
    by_cases hx0 : dot eq x = 0
    · have : (dot eq x).fmod (dot eq bp) = 0 := by rw [hx0]; simp
      rw [this, hx0]
      refine ⟨by simpa using ih1, ?_⟩
      rintro ⟨r, hr, hv⟩
      rcases List.mem_cons.1 hr with rfl | hr
      · exact absurd hx0 hv
      · simpa using ih2 ⟨r, hr, hv⟩
    · have := hmin x (by simp) hx0
      exact ⟨by omega, fun _ => by omega⟩


/-! ### the `while True` loop of one column -/

/-- kernels of linear forms are closed under `x - c•y` -/
lemma kerPred_reduce {M : List (List Int)} {x y : List Int} (c : Int) (h : x.length = y.length)
    (hx : ∀ r ∈ M, dot r x = 0) (hy : ∀ r ∈ M, dot r y = 0) :
    ∀ r ∈ M, dot r (vadd x (smul c y)) = 0 := by
  intro r hr
  rw [dot_vadd_right _ _ _ (by simp [h]), dot_smul_right, hx r hr, hy r hr]; simp

lemma euclidLoop_spec (eq : List Int) (k : Nat) (M : List (List Int)) :
    ∀ (fuel : Nat) (act : List (List Int)),
      IsBasisOf k (fun x => ∀ r ∈ M, dot r x = 0) act → absSum eq act < fuel →
      IsBasisOf k (fun x => ∀ r ∈ M, dot r x = 0) (euclidLoop fuel eq act) ∧
        numNonzero eq (euclidLoop fuel eq act) ≤ 1 := by
  intro fuel
  induction fuel with
  | zero => intro act _ h; omega
  | succ fuel ih =>
    intro act hB hfuel
    unfold euclidLoop
    split_ifs with hnn
    · exact ⟨hB, hnn⟩
    · cases hb : bestIdx (act.map (dot eq)) with
      | none =>
        exfalso
        have h0 := bestIdx_map_none (dot eq) act hb
        have : numNonzero eq act = 0 := by
          unfold numNonzero
          rw [List.length_eq_zero_iff, List.filter_eq_nil_iff]
          intro r hr
          simp [h0 r hr]
        omega
      | some pa =>
        obtain ⟨p, a⟩ := pa
        obtain ⟨L, bp, R, rfl, rfl, hvb, rfl, hmin⟩ := bestIdx_map_some (dot eq) act p a hb
        simp only
        rw [euclidPass_split]
        have hbpl : bp.length = k := hB.len bp (by simp)
        have hLl : ∀ r ∈ L, r.length = bp.length := fun r hr => by rw [hbpl]; exact hB.len r (by simp [hr])
        have hRl : ∀ r ∈ R, r.length = bp.length := fun r hr => by rw [hbpl]; exact hB.len r (by simp [hr])
        have hpass := IsBasisOf.pass (fun r => Int.fdiv (dot eq r) (dot eq bp)) hB
          (fun r hr hPr => kerPred_reduce _ (by rw [hr, hbpl]) hPr (hB.sound bp (by simp)))
        have hmeasure : absSum eq (L.map (reduceBy eq bp) ++ bp :: R.map (reduceBy eq bp))
            < absSum eq (L ++ bp :: R) := by
          rw [absSum_split, absSum_split]
          obtain ⟨hL1, hL2⟩ := absSum_map_le eq bp hvb L hLl (fun r hr => hmin r (by simp [hr]))
          obtain ⟨hR1, hR2⟩ := absSum_map_le eq bp hvb R hRl (fun r hr => hmin r (by simp [hr]))
          rw [numNonzero_split, if_pos hvb] at hnn
          have : 0 < numNonzero eq L ∨ 0 < numNonzero eq R := by omega
          rcases this with h | h
          · have := hL2 (exists_of_numNonzero_pos h); omega
          · have := hR2 (exists_of_numNonzero_pos h); omega
        exact ih _ hpass (by omega)

/-! ### one column, all columns -/

lemma columnStep_spec (k : Nat) (M : List (List Int)) (act : List (List Int)) (eq : List Int)
    (hB : IsBasisOf k (fun x => ∀ r ∈ M, dot r x = 0) act) :
    IsBasisOf k (fun x => ∀ r ∈ M ++ [eq], dot r x = 0) (columnStep act eq) := by
  obtain ⟨hB', hnn⟩ := euclidLoop_spec eq k M (absSum eq act + 1) act hB (Nat.lt_succ_self _)
  have hcongr : ∀ {B : List (List Int)},
      IsBasisOf k (fun x => (∀ r ∈ M, dot r x = 0) ∧ dot eq x = 0) B →
      IsBasisOf k (fun x => ∀ r ∈ M ++ [eq], dot r x = 0) B := by
    intro B h
    refine h.congr (fun x _ => ⟨fun ⟨h1, h2⟩ r hr => ?_, fun h' => ⟨fun r hr => h' r (by simp [hr]), h' eq (by simp)⟩⟩)
    rcases List.mem_append.1 hr with hr | hr
    · exact h1 r hr
    · simp at hr; subst hr; exact h2
  unfold columnStep
  simp only
  set act' := euclidLoop (absSum eq act + 1) eq act with hact'
  cases hf : firstNonzero eq act' with
  | none =>
    exact hcongr (hB'.add_vanishing (firstNonzero_none eq act' hf))
  | some j =>
    obtain ⟨X, b, Y, hsplit, hl, hX, hb⟩ := firstNonzero_some eq act' j hf
    simp only
    rw [hsplit] at hB' hnn
    rw [numNonzero_split, if_pos hb] at hnn
    have hY : ∀ r ∈ Y, dot eq r = 0 := numNonzero_eq_zero (by omega)
    have hXY : ∀ r ∈ X ++ Y, dot eq r = 0 := by
      intro r hr
      rcases List.mem_append.1 hr with h | h
      · exact hX r h
      · exact hY r h
    have hrem := hB'.remove hb hXY
    rw [hsplit, ← hl]
    cases X with
    | nil => simpa using hcongr hrem
    | cons a X' =>
      have : ((a :: X' ++ b :: Y).set (a :: X').length ((a :: X' ++ b :: Y).getD 0 [])).tail
          = X' ++ a :: Y := by
        rw [set_length_append]; simp
      rw [this]
      exact hcongr (IsBasisOf.move (by simpa using hrem))

lemma foldl_columnStep_spec (k : Nat) (eqs M₀ : List (List Int)) (act : List (List Int))
    (hB : IsBasisOf k (fun x => ∀ r ∈ M₀, dot r x = 0) act) :
    IsBasisOf k (fun x => ∀ r ∈ M₀ ++ eqs, dot r x = 0) (eqs.foldl columnStep act) := by
  induction eqs generalizing M₀ act with
  | nil => simpa using hB
  | cons eq eqs ih =>
    have := ih (M₀ ++ [eq]) (columnStep act eq) (columnStep_spec k M₀ act eq hB)
    simpa using this

/-- **the coded `_integer_kernel` returns a ℤ-basis of the integer kernel** of the equations:
every returned row has length `n` and is annihilated by every equation, every integer solution is an
integer combination of the returned rows, and the rows are linearly independent. -/
theorem integerKernelAsCoded_isBasis (eqs : List (List Int)) (n : Nat) :
    IsBasisOf n (fun x => ∀ r ∈ eqs, dot r x = 0) (integerKernelAsCoded eqs n) := by
  have h0 : IsBasisOf n (fun x => ∀ r' ∈ ([] : List (List Int)), dot r' x = 0) (identity n) :=
    (isBasisOf_identity n).congr (fun x _ => by simp)
  have := foldl_columnStep_spec n eqs [] (identity n) h0
  simpa [integerKernelAsCoded] using this

example : integerKernelAsCoded [[2, 3, 0], [0, 0, 2]] 3 = [[3, -2, 0]] := by decide +kernel

end Polar.Lattice
