/-
  PolarProofs/SynthPoly.lean — evaluation lemmas for the executable polynomials of `Polar/Poly.lean`:
  `MPoly.eval σ` is a ring homomorphism on the (normalising) operations `add`, `scale`, `neg`, `sub`,
  `mul`, `pow`, commutes with `subst` and is invariant under `normalize`.  Used by C14
  (`PolarProofs/Synth.lean`); nothing here depends on canonical form of the arguments.
-/
import Polar.Poly
import Mathlib.Tactic.Ring
import Mathlib.Tactic.Linarith

namespace Polar

/-! ### monomials -/

theorem Mono.eval_nil (σ : String → Rat) : Mono.eval σ [] = 1 := rfl

theorem Mono.eval_cons (σ : String → Rat) (p : String × Nat) (m : Mono) :
    Mono.eval σ (p :: m) = σ p.1 ^ p.2 * Mono.eval σ m := rfl

theorem Mono.eval_insert (σ : String → Rat) (x : String) (k : Nat) (m : Mono) :
    Mono.eval σ (Mono.insert x k m) = σ x ^ k * Mono.eval σ m := by
  induction m with
  | nil =>
    unfold Mono.insert
    split
    · subst_vars; simp [Mono.eval]
    · simp [Mono.eval]
  | cons p m ih =>
    obtain ⟨y, j⟩ := p
    unfold Mono.insert
    split
    · subst_vars; simp
    · split
      · subst_vars
        simp only [Mono.eval_cons]
        rw [pow_add]; ring
      · split
        · simp only [Mono.eval_cons]
        · simp only [Mono.eval_cons, ih]; ring

theorem Mono.eval_norm (σ : String → Rat) (m : Mono) : Mono.eval σ (Mono.norm m) = Mono.eval σ m := by
  induction m with
  | nil => rfl
  | cons p m ih =>
    have : Mono.norm (p :: m) = Mono.insert p.1 p.2 (Mono.norm m) := rfl
    rw [this, Mono.eval_insert, ih, Mono.eval_cons]

theorem Mono.eval_mul (σ : String → Rat) (a b : Mono) :
    Mono.eval σ (Mono.mul a b) = Mono.eval σ a * Mono.eval σ b := by
  induction a with
  | nil => simp [Mono.mul, Mono.eval]
  | cons p a ih =>
    have : Mono.mul (p :: a) b = Mono.insert p.1 p.2 (Mono.mul a b) := rfl
    rw [this, Mono.eval_insert, ih, Mono.eval_cons]; ring

theorem Mono.cmp_eq : ∀ (a b : Mono), Mono.cmp a b = .eq → a = b
  | [], [], _ => rfl
  | [], _ :: _, h => by simp [Mono.cmp] at h
  | _ :: _, [], h => by simp [Mono.cmp] at h
  | (x, i) :: a, (y, j) :: b, h => by
    unfold Mono.cmp at h
    split at h
    · cases h
    · cases h
    · rename_i hxy
      split at h
      · cases h
      · cases h
      · rename_i hij
        have e1 : x = y := Std.LawfulEqOrd.eq_of_compare hxy
        have e2 : i = j := Nat.compare_eq_eq.mp hij
        have e3 := Mono.cmp_eq a b h
        subst e1 e2 e3; rfl

/-! ### polynomials -/

namespace MPoly

theorem eval_nil (σ : String → Rat) : eval σ [] = 0 := rfl

theorem eval_cons (σ : String → Rat) (t : Term) (p : MPoly) :
    eval σ (t :: p) = t.2 * Mono.eval σ t.1 + eval σ p := rfl

theorem eval_insertTerm (σ : String → Rat) (m : Mono) (c : Rat) (p : MPoly) :
    eval σ (insertTerm m c p) = c * Mono.eval σ m + eval σ p := by
  induction p with
  | nil =>
    unfold insertTerm
    split
    · subst_vars; simp [eval_nil]
    · simp [eval_cons, eval_nil]
  | cons t p ih =>
    obtain ⟨m', c'⟩ := t
    unfold insertTerm
    split
    · split
      · subst_vars; simp
      · simp only [eval_cons]
    · rename_i heq
      have hm : m = m' := Mono.cmp_eq m m' heq
      subst hm
      split
      · rename_i hz
        simp only [eval_cons]
        have : (c + c') * Mono.eval σ m = 0 := by rw [hz]; ring
        linarith
      · simp only [eval_cons]; ring
    · simp only [eval_cons, ih]; ring

theorem eval_add (σ : String → Rat) (p q : MPoly) : eval σ (add p q) = eval σ p + eval σ q := by
  induction p with
  | nil => simp [add, eval_nil]
  | cons t p ih =>
    have : add (t :: p) q = insertTerm t.1 t.2 (add p q) := rfl
    rw [this, eval_insertTerm, ih, eval_cons]; ring

theorem eval_map_scale (σ : String → Rat) (c : Rat) (p : MPoly) :
    eval σ (p.map (fun (t : Term) => (t.1, c * t.2))) = c * eval σ p := by
  induction p with
  | nil => simp [eval_nil]
  | cons t p ih => simp only [List.map_cons, eval_cons, ih]; ring

theorem eval_scale (σ : String → Rat) (c : Rat) (p : MPoly) : eval σ (scale c p) = c * eval σ p := by
  unfold scale
  split
  · subst_vars; simp [eval_nil]
  · exact eval_map_scale σ c p

theorem eval_neg (σ : String → Rat) (p : MPoly) : eval σ (neg p) = - eval σ p := by
  unfold neg
  induction p with
  | nil => simp [eval_nil]
  | cons t p ih => simp only [List.map_cons, eval_cons, ih]; ring

theorem eval_sub (σ : String → Rat) (p q : MPoly) : eval σ (sub p q) = eval σ p - eval σ q := by
  unfold sub; rw [eval_add, eval_neg]; ring

theorem eval_mulTerm (σ : String → Rat) (m : Mono) (c : Rat) (q : MPoly) :
    eval σ (mulTerm m c q) = c * Mono.eval σ m * eval σ q := by
  induction q with
  | nil => simp [mulTerm, eval_nil]
  | cons t q ih =>
    have : mulTerm m c (t :: q) = insertTerm (Mono.mul m t.1) (c * t.2) (mulTerm m c q) := rfl
    rw [this, eval_insertTerm, ih, eval_cons, Mono.eval_mul]; ring

theorem eval_mul (σ : String → Rat) (p q : MPoly) : eval σ (mul p q) = eval σ p * eval σ q := by
  induction p with
  | nil => simp [mul, eval_nil]
  | cons t p ih =>
    have : mul (t :: p) q = add (mulTerm t.1 t.2 q) (mul p q) := rfl
    rw [this, eval_add, eval_mulTerm, ih, eval_cons]; ring

theorem eval_one (σ : String → Rat) : eval σ one = 1 := by
  simp [one, eval_cons, eval_nil, Mono.eval_nil]

theorem eval_pow (σ : String → Rat) (p : MPoly) (k : Nat) : eval σ (pow p k) = eval σ p ^ k := by
  induction k with
  | zero => simp [pow, eval_one]
  | succ k ih => rw [pow, eval_mul, ih]; ring

theorem eval_var (σ : String → Rat) (x : String) : eval σ (var x) = σ x := by
  simp [var, eval_cons, eval_nil, Mono.eval_cons, Mono.eval_nil]

theorem eval_const (σ : String → Rat) (c : Rat) : eval σ (const c) = c := by
  unfold const
  split
  · subst_vars; rfl
  · simp [eval_cons, eval_nil, Mono.eval_nil]

/-- the state a substitution induces: bound variables read the value of their polynomial -/
def substState (σ : String → Rat) (s : String → Option MPoly) : String → Rat :=
  fun y => match s y with
    | some q => eval σ q
    | none => σ y

theorem eval_substMono (σ : String → Rat) (s : String → Option MPoly) (m : Mono) :
    eval σ (substMono s m) = Mono.eval (substState σ s) m := by
  induction m with
  | nil => simp [substMono, eval_one, Mono.eval_nil]
  | cons p m ih =>
    have : substMono s (p :: m) =
        (match s p.1 with
          | some q => mul (pow q p.2) (substMono s m)
          | none => mul [([(p.1, p.2)], 1)] (substMono s m)) := rfl
    rw [this, Mono.eval_cons]
    unfold substState
    cases hs : s p.1 with
    | some q =>
      simp only [eval_mul, eval_pow, ih]
      rfl
    | none =>
      simp only [eval_mul, ih, eval_cons, eval_nil, Mono.eval_cons, Mono.eval_nil]
      unfold substState
      ring

theorem eval_subst (σ : String → Rat) (s : String → Option MPoly) (p : MPoly) :
    eval σ (subst s p) = eval (substState σ s) p := by
  induction p with
  | nil => rfl
  | cons t p ih =>
    have : subst s (t :: p) = add (scale t.2 (substMono s t.1)) (subst s p) := rfl
    rw [this, eval_add, eval_scale, eval_substMono, ih, eval_cons]

theorem eval_normalize (σ : String → Rat) (p : MPoly) : eval σ (normalize p) = eval σ p := by
  induction p with
  | nil => rfl
  | cons t p ih =>
    have : normalize (t :: p) = insertTerm (Mono.norm t.1) t.2 (normalize p) := rfl
    rw [this, eval_insertTerm, ih, Mono.eval_norm, eval_cons]

/-- polynomials with the same canonical form have the same values -/
theorem eval_eq_of_normalize_eq (σ : String → Rat) {p q : MPoly} (h : normalize p = normalize q) :
    eval σ p = eval σ q := by
  rw [← eval_normalize σ p, ← eval_normalize σ q, h]

end MPoly
end Polar
