/-
  PolarProofs/Synth.lean — C14: synthesised invariants and solvable loops agree with the unsolvable loop.

  Model: `Polar/Synth.lean` (polynomial fragment, `oneStepPoly`, weighted-outcome semantics `runS`,
  certificates `checkSynth` / `checkSystem`).  Evaluation lemmas: `PolarProofs/SynthPoly.lean`.

  * `oneStep_sound`           the one-step operator is the conditional expectation of the semantics
  * `c14_invariant_sound`     u(n+1) = k·u(n) + r(n), u(0) = q₀ ⇒ u(n) = kⁿ q₀ + Σ_{j<n} k^{n−1−j} r(j)
                              (any commutative ring); `c14_summation_as_coded` is the index order of
                              `utils/solvers.py:solve_rec_by_summing`
  * `c14_any_solution_ok`     *any* (Q, k, R) passing the polynomial identity `checkSynth` yields the
                              recurrence E(Q)(n+1) = k·E(Q)(n) + E(R)(n) — however the coefficients were found
  * `c14_invariant_closed_form` the two combined
  * `system_sound`, `synth_closed_form_sound`  closure certificate ⇒ the moment vector is `Aⁿ v`; together
                              with `cfiniteCheck_sound` the returned closed form holds for **every** n
  * `c14_loop_equiv`          equal closure matrices and initial vectors ⇒ equal moment sequences

  Draws: the semantics is parametrised by a finitely supported (possibly signed) weighted value list
  `law a` per distribution atom; the theorems assume it has the raw moments `mom a k` of the
  specification `Polar.momentSpec` (exact for Bernoulli / Categorical / DiscreteUniform — see the
  non-vacuity examples; for continuous families this is the moment-transfer argument of DESIGN §2.2).
-/
import Polar.Synth
import PolarProofs.SynthPoly
import PolarProofs.LinAlgBridge
import Mathlib.Algebra.BigOperators.Intervals

open Polar Polar.LinAlg

namespace Polar.Synth

/-- hypothesis on the law table: every draw of the block has the specification moments -/
def LawOK (law : Atom → List (Rat × Rat)) (b : List SStmt) : Prop :=
  ∀ x a, SStmt.draw x a ∈ b → ∀ k, finiteMoment (law a) k = mom a k

/-! ### tiny unsolvable loops used by the non-vacuity examples and the counterexamples -/

/-- deterministic assignment -/
def det1 (v : MPoly) : List (MPoly × MPoly) := [(v, MPoly.one)]

/-- `tests/unsolvable_benchmarks/squares.prob`:
    `z = 0; while true: z = 1 - z; x = 2*x + y**2 + z; y = 2*y - y**2 + 2*z end` -/
def squares : SProg :=
  { init := [.assign "z" (det1 [])],
    body := [.assign "z" (det1 [([], 1), ([("z", 1)], -1)]),
             .assign "x" (det1 [([("x", 1)], 2), ([("y", 2)], 1), ([("z", 1)], 1)]),
             .assign "y" (det1 [([("y", 1)], 2), ([("y", 2)], -1), ([("z", 1)], 2)])] }

/-- the loop `SolvLoopSynthesizer` returns for it (with `_u = 3`, `x0 = 3`, `y0 = 5`):
    `t = 0; s = 8; z = t; while true: t = 1 - z; s = 2*s + 3 - 3*z; z = t end` -/
def squaresSynth : SProg :=
  { init := [.assign "t" (det1 []), .assign "s" (det1 [([], 8)]), .assign "z" (det1 [([("t", 1)], 1)])],
    body := [.assign "t" (det1 [([], 1), ([("z", 1)], -1)]),
             .assign "s" (det1 [([("s", 1)], 2), ([], 3), ([("z", 1)], -3)]),
             .assign "z" (det1 [([("t", 1)], 1)])] }

/-- a probabilistic variant: the non-linear term is switched by a Bernoulli coefficient and the effective
    part is chosen by a probabilistic choice:
    `while true: b = Bernoulli(1/2); x = x + b*y**2 + 1 {1/2} x + b*y**2; y = y - b*y**2 end` -/
def bern : Atom := ⟨"Bernoulli", [1 / 2]⟩
def coin : SProg :=
  { init := [],
    body := [.draw "b" bern,
             .assign "x" [([([("x", 1)], 1), ([("b", 1), ("y", 2)], 1), ([], 1)], [([], 1 / 2)]),
                          ([([("x", 1)], 1), ([("b", 1), ("y", 2)], 1)], [([], 1 / 2)])],
             .assign "y" (det1 [([("y", 1)], 1), ([("b", 1), ("y", 2)], -1)])] }

def noLaw : Atom → List (Rat × Rat) := fun _ => []
/-- the true law of `Bernoulli(1/2)` -/
def bernLaw : Atom → List (Rat × Rat) := fun a => if a = bern then [(1 / 2, 1), (1 / 2, 0)] else []

def Qxy : MPoly := [([("x", 1)], 1), ([("y", 1)], 1)]
def σ35 : St := fun v => if v = "x" then 3 else if v = "y" then 5 else 0

theorem lawOK_squares_body : LawOK noLaw squares.body := by intro x a hm; simp [squares] at hm
theorem lawOK_squares_init : LawOK noLaw squares.init := by intro x a hm; simp [squares] at hm

/-! ### expectations of weighted outcome lists -/

theorem EW_nil (f : St → Rat) : EW [] f = 0 := rfl

theorem EW_cons (wq : Rat × St) (d : WDist) (f : St → Rat) : EW (wq :: d) f = wq.1 * f wq.2 + EW d f := rfl

theorem EW_append (d e : WDist) (f : St → Rat) : EW (d ++ e) f = EW d f + EW e f := by
  induction d with
  | nil => simp [EW_nil]
  | cons wq d ih => simp only [List.cons_append, EW_cons, ih]; ring

theorem EW_map_weight (w : Rat) (d : WDist) (f : St → Rat) :
    EW (d.map (fun (wr : Rat × St) => (w * wr.1, wr.2))) f = w * EW d f := by
  induction d with
  | nil => simp [EW_nil]
  | cons wq d ih => simp only [List.map_cons, EW_cons, ih]; ring

/-- expectation of a bind = iterated expectation -/
theorem EW_bindW (d : WDist) (g : St → WDist) (f : St → Rat) :
    EW (bindW d g) f = EW d (fun q => EW (g q) f) := by
  induction d with
  | nil => rfl
  | cons wq d ih =>
    have : bindW (wq :: d) g = (g wq.2).map (fun (wr : Rat × St) => (wq.1 * wr.1, wr.2)) ++ bindW d g := by
      simp [bindW]
    rw [this, EW_append, EW_map_weight, ih, EW_cons]

theorem EW_linear (d : WDist) (k : Rat) (f g : St → Rat) :
    EW d (fun τ => k * f τ + g τ) = k * EW d f + EW d g := by
  induction d with
  | nil => simp [EW_nil]
  | cons wq d ih => simp only [EW_cons, ih]; ring

theorem EW_congr (d : WDist) {f g : St → Rat} (h : ∀ τ, f τ = g τ) : EW d f = EW d g := by
  have : f = g := funext h
  rw [this]

/-! ### one statement -/

theorem substState_single (σ : St) (x : String) (v : MPoly) :
    MPoly.substState σ (single x v) = upd σ x (MPoly.eval σ v) := by
  funext y
  unfold MPoly.substState single upd
  by_cases h : y = x <;> simp [h]

theorem wpAssign_sound (law : Atom → List (Rat × Rat)) (x : String) (alts : List (MPoly × MPoly))
    (q : MPoly) (σ : St) :
    EW (execS law (.assign x alts) σ) (fun τ => MPoly.eval τ q) = MPoly.eval σ (wpAssign x alts q) := by
  unfold execS wpAssign
  induction alts with
  | nil => rfl
  | cons vw alts ih =>
    simp only [List.map_cons, EW_cons, List.foldr_cons, MPoly.eval_add, MPoly.eval_mul, MPoly.eval_subst,
      substState_single]
    rw [ih]

/-- value of a monomial after overwriting `x`: the power of `x` splits off -/
theorem Mono.eval_upd (σ : St) (x : String) (c : Rat) (m : Mono) :
    Mono.eval (upd σ x c) m = c ^ expOf x m * Mono.eval σ (eraseVar x m) := by
  induction m with
  | nil => simp [expOf, eraseVar, Mono.eval_nil]
  | cons p m ih =>
    have h1 : expOf x (p :: m) = if p.1 = x then p.2 + expOf x m else expOf x m := rfl
    rw [Mono.eval_cons, ih, h1]
    by_cases h : p.1 = x
    · have h2 : eraseVar x (p :: m) = eraseVar x m := by simp [eraseVar, h]
      rw [h2, if_pos h]
      unfold upd
      simp only [h, if_true]
      rw [pow_add]; ring
    · have h2 : eraseVar x (p :: m) = p :: eraseVar x m := by simp [eraseVar, h]
      rw [h2, if_neg h, Mono.eval_cons]
      unfold upd
      simp only [h, if_false]
      ring

/-- weighted sum over a finitely supported law -/
def wsum (l : List (Rat × Rat)) (g : Rat → Rat) : Rat := l.foldr (fun pc acc => pc.1 * g pc.2 + acc) 0

theorem finiteMoment_eq_wsum (l : List (Rat × Rat)) (k : Nat) : finiteMoment l k = wsum l (fun c => c ^ k) := rfl

theorem wsum_linear (l : List (Rat × Rat)) (a : Rat) (g h : Rat → Rat) :
    wsum l (fun c => a * g c + h c) = a * wsum l g + wsum l h := by
  unfold wsum
  induction l with
  | nil => simp
  | cons pc l ih => simp only [List.foldr_cons, ih]; ring

theorem wsum_zero (l : List (Rat × Rat)) : wsum l (fun _ => (0 : Rat)) = 0 := by
  unfold wsum
  induction l with
  | nil => rfl
  | cons pc l ih => simp only [List.foldr_cons, ih]; ring

theorem EW_draw (l : List (Rat × Rat)) (σ : St) (x : String) (f : St → Rat) :
    EW (l.map (fun (pc : Rat × Rat) => (pc.1, upd σ x pc.2))) f = wsum l (fun c => f (upd σ x c)) := by
  unfold wsum
  induction l with
  | nil => rfl
  | cons pc l ih => simp only [List.map_cons, EW_cons, List.foldr_cons, ih]

theorem wpDraw_sound (law : Atom → List (Rat × Rat)) (x : String) (a : Atom)
    (hlaw : ∀ k, finiteMoment (law a) k = mom a k) (q : MPoly) (σ : St) :
    EW (execS law (.draw x a) σ) (fun τ => MPoly.eval τ q) = MPoly.eval σ (wpDraw x a q) := by
  unfold execS
  rw [EW_draw]
  induction q with
  | nil =>
    simpa [MPoly.eval_nil, wpDraw] using wsum_zero (law a)
  | cons t q ih =>
    have hw : wpDraw x a (t :: q) =
        MPoly.insertTerm (eraseVar x t.1) (t.2 * mom a (expOf x t.1)) (wpDraw x a q) := rfl
    rw [hw, MPoly.eval_insertTerm, ← ih]
    have : (fun c => MPoly.eval (upd σ x c) (t :: q)) =
        (fun c => (t.2 * Mono.eval σ (eraseVar x t.1)) * c ^ expOf x t.1 + MPoly.eval (upd σ x c) q) := by
      funext c
      rw [MPoly.eval_cons, Mono.eval_upd]; ring
    rw [this, wsum_linear, ← finiteMoment_eq_wsum, hlaw]; ring

theorem wpStmt_sound (law : Atom → List (Rat × Rat)) (s : SStmt) (hs : LawOK law [s]) (q : MPoly) (σ : St) :
    EW (execS law s σ) (fun τ => MPoly.eval τ q) = MPoly.eval σ (wpStmt s q) := by
  cases s with
  | assign x alts => exact wpAssign_sound law x alts q σ
  | draw x a => exact wpDraw_sound law x a (hs x a (by simp)) q σ

/-- **`oneStepPoly` is the expectation after one execution of the block** (deterministic polynomial
assignments, probabilistic choices, draws): for every pre-state `σ` and polynomial `Q`,
`E[Q(state after body) | σ] = (oneStepPoly body Q)(σ)`. -/
theorem oneStep_sound (law : Atom → List (Rat × Rat)) (body : List SStmt) (h : LawOK law body)
    (q : MPoly) (σ : St) :
    EW (execB law body σ) (fun τ => MPoly.eval τ q) = MPoly.eval σ (oneStepPoly body q) := by
  induction body generalizing q σ with
  | nil => simp [execB, oneStepPoly, EW_cons, EW_nil]
  | cons s rest ih =>
    have hrest : LawOK law rest := fun x a hm => h x a (List.mem_cons_of_mem _ hm)
    have hs : LawOK law [s] := fun x a hm => h x a (by
      have : SStmt.draw x a = s := by simpa using hm
      rw [this]; exact List.mem_cons_self)
    have e1 : execB law (s :: rest) σ = bindW (execS law s σ) (execB law rest) := rfl
    have e2 : oneStepPoly (s :: rest) q = wpStmt s (oneStepPoly rest q) := rfl
    rw [e1, e2, EW_bindW, EW_congr _ (fun τ => ih hrest q τ)]
    exact wpStmt_sound law s hs _ σ

/-- non-vacuity: the Bernoulli law table satisfies `LawOK` for the probabilistic loop (all moments) … -/
theorem lawOK_coin : LawOK bernLaw coin.body := by
  intro x a hm k
  have ha : a = bern := by
    have : x = "b" ∧ a = bern := by simpa [coin] using hm
    exact this.2
  subst ha
  cases k with
  | zero => decide +kernel
  | succ k => simp [bernLaw, finiteMoment, mom, momentSpec, bern, bernoulliMoment]

/-- … and the operator computes what it should there: `E(x + y)` after one iteration is `x + y + 1/2`. -/
example : MPoly.normalize (oneStepPoly coin.body Qxy) = [([], 1 / 2), ([("x", 1)], 1), ([("y", 1)], 1)] := by
  decide +kernel

/-! ### moments along the run -/

theorem momentS_zero (law : Atom → List (Rat × Rat)) (P : SProg) (h : LawOK law P.init) (q : MPoly) (σ₀ : St) :
    momentS law P q 0 σ₀ = MPoly.eval σ₀ (oneStepPoly P.init q) :=
  oneStep_sound law P.init h q σ₀

/-- one more iteration = the one-step polynomial under the current law -/
theorem momentS_succ (law : Atom → List (Rat × Rat)) (P : SProg) (h : LawOK law P.body) (q : MPoly)
    (n : Nat) (σ₀ : St) :
    momentS law P q (n + 1) σ₀ = momentS law P (oneStepPoly P.body q) n σ₀ := by
  unfold momentS
  have : runS law P (n + 1) σ₀ = bindW (runS law P n σ₀) (execB law P.body) := rfl
  rw [this, EW_bindW]
  exact EW_congr _ (fun τ => oneStep_sound law P.body h q τ)

theorem momentS_congr (law : Atom → List (Rat × Rat)) (P : SProg) {p q : MPoly}
    (h : MPoly.normalize p = MPoly.normalize q) (n : Nat) (σ₀ : St) :
    momentS law P p n σ₀ = momentS law P q n σ₀ :=
  EW_congr _ (fun τ => MPoly.eval_eq_of_normalize_eq τ h)

theorem momentS_add_scale (law : Atom → List (Rat × Rat)) (P : SProg) (k : Rat) (q r : MPoly) (n : Nat) (σ₀ : St) :
    momentS law P (MPoly.add (MPoly.scale k q) r) n σ₀ = k * momentS law P q n σ₀ + momentS law P r n σ₀ := by
  unfold momentS
  rw [← EW_linear]
  exact EW_congr _ (fun τ => by rw [MPoly.eval_add, MPoly.eval_scale])

/-! ### the property theorems -/

/-- **C14, summation formula** (what `solve_rec_by_summing` implements): over any commutative ring, a
sequence with `u(n+1) = k·u(n) + r(n)` and `u(0) = q₀` is `u(n) = kⁿ q₀ + Σ_{j<n} k^{n−1−j} r(j)`. -/
theorem c14_invariant_sound {K : Type*} [CommRing K] (u r : ℕ → K) (k q₀ : K)
    (h0 : u 0 = q₀) (hrec : ∀ n, u (n + 1) = k * u n + r n) :
    ∀ n, u n = k ^ n * q₀ + ∑ j ∈ Finset.range n, k ^ (n - 1 - j) * r j := by
  intro n
  induction n with
  | zero => simp [h0]
  | succ n ih =>
    rw [hrec, ih, Finset.sum_range_succ, mul_add, Finset.mul_sum]
    have : ∀ j ∈ Finset.range n, k * (k ^ (n - 1 - j) * r j) = k ^ (n + 1 - 1 - j) * r j := by
      intro j hj
      have hj' : j < n := Finset.mem_range.mp hj
      have : n + 1 - 1 - j = (n - 1 - j) + 1 := by omega
      rw [this, pow_succ]; ring
    rw [Finset.sum_congr rfl this]
    have : n + 1 - 1 - n = 0 := by omega
    rw [this]; ring

/-- non-vacuity: `u(n) = 2^(n+1) − 1` satisfies `u(n+1) = 2·u(n) + 1`, `u(0) = 1` -/
example : ∃ u r : ℕ → ℤ, u 0 = 1 ∧ ∀ n, u (n + 1) = 2 * u n + r n :=
  ⟨fun n => 2 ^ (n + 1) - 1, fun _ => 1, by norm_num, fun n => by ring⟩

/-- the same sum in the index order of the code: `Σ_{j=0}^{n−1} k^j · inhom(n − j)` with
`inhom(m) = r(m − 1)` (the `n ↦ n − 1` shift of `__solve_effective_part__`) -/
theorem c14_summation_as_coded {K : Type*} [CommRing K] (r : ℕ → K) (k : K) (n : ℕ) :
    ∑ j ∈ Finset.range n, k ^ j * r (n - j - 1) = ∑ j ∈ Finset.range n, k ^ (n - 1 - j) * r j := by
  rw [← Finset.sum_range_reflect]
  apply Finset.sum_congr rfl
  intro j hj
  have hj' : j < n := Finset.mem_range.mp hj
  have : n - (n - 1 - j) - 1 = j := by omega
  rw [this]

/-- **C14, soundness does not depend on the search.**  For *any* polynomial `Q`, number `k` and
polynomial `R` that pass the decidable identity check `oneStepPoly body Q = k·Q + R`, the expected values
satisfy `E(Q)(n+1) = k·E(Q)(n) + E(R)(n)` for every `n` and every initial state — `nonlinsolve`,
`linsolve` or a guess, it does not matter how `Q, k, R` were found. -/
theorem c14_any_solution_ok (law : Atom → List (Rat × Rat)) (P : SProg) (h : LawOK law P.body)
    (q r : MPoly) (k : Rat) (hc : checkSynth P.body q k r = true) (σ₀ : St) (n : Nat) :
    momentS law P q (n + 1) σ₀ = k * momentS law P q n σ₀ + momentS law P r n σ₀ := by
  rw [momentS_succ law P h, ← momentS_add_scale]
  apply momentS_congr
  simpa [checkSynth] using hc

/-- non-vacuity on the suite's `squares.prob`: `Q = x + y`, `k = 2`, `R = 3 − 3z` pass the check
(deterministic loop, no draws) … -/
example : LawOK noLaw squares.body ∧ checkSynth squares.body Qxy 2 [([], 3), ([("z", 1)], -3)] = true :=
  ⟨lawOK_squares_body, by decide +kernel⟩

/-- … and on the probabilistic loop `coin` with the true Bernoulli law: `Q = x + y`, `k = 1`, `R = 1/2`. -/
example : LawOK bernLaw coin.body ∧ checkSynth coin.body Qxy 1 [([], 1 / 2)] = true :=
  ⟨lawOK_coin, by decide +kernel⟩

/-- **C14 for invariants**: identity + summation: `E(Q)(n) = kⁿ·E(Q)(0) + Σ_{j<n} k^{n−1−j}·E(R)(j)`. -/
theorem c14_invariant_closed_form (law : Atom → List (Rat × Rat)) (P : SProg) (h : LawOK law P.body)
    (q r : MPoly) (k : Rat) (hc : checkSynth P.body q k r = true) (σ₀ : St) (n : Nat) :
    momentS law P q n σ₀ = k ^ n * momentS law P q 0 σ₀ +
      ∑ j ∈ Finset.range n, k ^ (n - 1 - j) * momentS law P r j σ₀ :=
  c14_invariant_sound (fun n => momentS law P q n σ₀) (fun n => momentS law P r n σ₀) k _ rfl
    (fun n => c14_any_solution_ok law P h q r k hc σ₀ n) n

/-! ### closed systems -/

theorem eval_linComb (σ : St) : ∀ (row : List Rat) (elems : List MPoly),
    MPoly.eval σ (linComb row elems) = dot row (elems.map (fun p => MPoly.eval σ p))
  | [], _ => by simp [linComb, dot, MPoly.eval_nil]
  | _ :: _, [] => by simp [linComb, dot, MPoly.eval_nil]
  | a :: as, p :: ps => by
    simp only [linComb, List.map_cons, dot, MPoly.eval_add, MPoly.eval_scale, eval_linComb σ as ps]

theorem EW_zero (d : WDist) : EW d (fun _ => (0 : Rat)) = 0 := by
  induction d with
  | nil => rfl
  | cons wq d ih => simp only [EW_cons, ih]; ring

theorem dot_nil_left (l : List Rat) : dot [] l = 0 := by cases l <;> rfl

theorem dot_nil_right (l : List Rat) : dot l [] = 0 := by cases l <;> rfl

theorem EW_dot (d : WDist) : ∀ (row : List Rat) (elems : List MPoly),
    EW d (fun τ => dot row (elems.map (fun p => MPoly.eval τ p))) =
      dot row (elems.map (fun p => EW d (fun τ => MPoly.eval τ p)))
  | [], _ => by simp only [dot_nil_left, EW_zero]
  | _ :: _, [] => by simp only [List.map_nil, dot_nil_right, EW_zero]
  | a :: as, p :: ps => by
    simp only [List.map_cons, dot]
    rw [EW_linear, EW_dot d as ps]

theorem checkRowsG_sound (law : Atom → List (Rat × Rat)) (P : SProg) (h : LawOK law P.body)
    (elems : List MPoly) (n : Nat) (σ₀ : St) :
    ∀ (ps : List MPoly) (rows : List (List Rat)), checkRowsG (oneStepPoly P.body) elems ps rows = true →
      ps.map (fun p => momentS law P p (n + 1) σ₀) =
        rows.map (fun row => dot row (elems.map (fun p => momentS law P p n σ₀)))
  | [], [], _ => rfl
  | [], _ :: _, hc => by simp [checkRowsG] at hc
  | _ :: _, [], hc => by simp [checkRowsG] at hc
  | p :: ps, row :: rows, hc => by
    simp only [checkRowsG, Bool.and_eq_true, beq_iff_eq] at hc
    obtain ⟨h1, h2⟩ := hc
    simp only [List.map_cons]
    rw [checkRowsG_sound law P h elems n σ₀ ps rows h2]
    congr 1
    rw [momentS_succ law P h, momentS_congr law P h1]
    unfold momentS
    rw [← EW_dot]
    exact EW_congr _ (fun τ => eval_linComb τ row elems)

/-- **closure certificate**: if `elems` is closed under the one-step operator with matrix `A`, the vector
of expected values advances by `A` in every iteration … -/
theorem system_step (law : Atom → List (Rat × Rat)) (P : SProg) (h : LawOK law P.body)
    (elems : List MPoly) (A : Mat) (hc : checkSystem P.body elems A = true) (n : Nat) (σ₀ : St) :
    elems.map (fun p => momentS law P p (n + 1) σ₀) = matVec A (elems.map (fun p => momentS law P p n σ₀)) :=
  checkRowsG_sound law P h elems n σ₀ elems A hc

/-- … hence is `Aⁿ v` with `v` the initial vector computed by the same operator over the init block. -/
theorem system_sound (law : Atom → List (Rat × Rat)) (P : SProg) (hb : LawOK law P.body) (hi : LawOK law P.init)
    (elems : List MPoly) (A : Mat) (hc : checkSystem P.body elems A = true) (σ₀ : St) (n : Nat) :
    elems.map (fun p => momentS law P p n σ₀) = matPowVec A (initVec P.init elems σ₀) n := by
  induction n with
  | zero =>
    unfold initVec matPowVec
    exact List.map_congr_left (fun p _ => momentS_zero law P hi p σ₀)
  | succ n ih => rw [system_step law P hb elems A hc, ih]; rfl

/-- non-vacuity: `[x + y, 1, z]` is closed for `squares.prob` with the matrix below -/
example : checkSystem squares.body [Qxy, [([], 1)], [([("z", 1)], 1)]] [[2, 3, -3], [0, 1, 0], [0, 1, -1]] = true := by
  decide +kernel

/-- **C14 for the returned closed form, every n.**  If the system with first component `Q` passes
`checkSystem` and the executable window check `cfiniteCheck` accepts the exponential polynomial `f` against
it, then `E(Q(state_n)) = f(n)` for **every** `n`. -/
theorem synth_closed_form_sound (law : Atom → List (Rat × Rat)) (P : SProg) (hb : LawOK law P.body)
    (hi : LawOK law P.init) (q : MPoly) (rest : List MPoly) (A : Mat)
    (hc : checkSystem P.body (q :: rest) A = true) (σ₀ : St) (terms : List ExpTerm) (W : Nat)
    (hf : cfiniteCheck A (initVec P.init (q :: rest) σ₀) 0 0 terms = .ok (W, none)) (n : Nat) :
    momentS law P q n σ₀ = expPolyEval terms n := by
  have h1 := cfiniteCheck_sound A _ 0 0 terms W hf n (Nat.zero_le n)
  have h2 := system_sound law P hb hi (q :: rest) A hc σ₀ n
  rw [h1, ← h2]
  simp

/-- non-vacuity, the whole chain on `squares.prob` at `x0 = 3, y0 = 5`: the closed form Polar returns for
`x + y` (here `−(−1)ⁿ/2 + 10·2ⁿ − 3/2`) is accepted, hence `E(x + y)(n)` equals it for every `n`. -/
example (n : Nat) : momentS noLaw squares Qxy n σ35 =
    expPolyEval [⟨-1 / 2, 0, -1⟩, ⟨10, 0, 2⟩, ⟨-3 / 2, 0, 1⟩] n :=
  synth_closed_form_sound noLaw squares lawOK_squares_body lawOK_squares_init Qxy
    [[([], 1)], [([("z", 1)], 1)]] [[2, 3, -3], [0, 1, 0], [0, 1, -1]] (by decide +kernel) σ35 _ 6
    (by decide +kernel) n

/-- **C14, loop equivalence.**  `elems` are polynomials over the source loop `P` (the images of the
synthesised loop's variables and monomials: retained variables, and `Q` for the fresh variable `s`),
`elems'` the corresponding monomials of the synthesised loop `P'`.  If both lists are closed under their
own one-step operators with the *same* matrix and start from the same vector, the moment sequences agree
for every `n`. -/
theorem c14_loop_equiv (law : Atom → List (Rat × Rat)) (P P' : SProg)
    (hb : LawOK law P.body) (hi : LawOK law P.init) (hb' : LawOK law P'.body) (hi' : LawOK law P'.init)
    (elems elems' : List MPoly) (A : Mat)
    (hc : checkSystem P.body elems A = true) (hc' : checkSystem P'.body elems' A = true) (σ₀ σ₀' : St)
    (hv : initVec P.init elems σ₀ = initVec P'.init elems' σ₀') (n : Nat) :
    elems.map (fun p => momentS law P p n σ₀) = elems'.map (fun p => momentS law P' p n σ₀') := by
  rw [system_sound law P hb hi elems A hc σ₀ n, system_sound law P' hb' hi' elems' A hc' σ₀' n, hv]

/-- non-vacuity: the loop synthesised for `squares.prob` (fresh variable `s` for `x + y`, retained `z`)
against the source: same matrix, same initial vector, hence `E(x + y)(n) = s(n)` and `z(n) = z(n)` for all n -/
example (n : Nat) :
    [Qxy, [([], 1)], [([("z", 1)], 1)]].map (fun p => momentS noLaw squares p n σ35) =
      [[([("s", 1)], 1)], [([], 1)], [([("z", 1)], 1)]].map (fun p => momentS noLaw squaresSynth p n σ35) :=
  c14_loop_equiv noLaw squares squaresSynth lawOK_squares_body lawOK_squares_init
    (by intro x a hm; simp [squaresSynth] at hm) (by intro x a hm; simp [squaresSynth] at hm)
    _ _ [[2, 3, -3], [0, 1, 0], [0, 1, -1]] (by decide +kernel) (by decide +kernel) σ35 σ35 (by decide +kernel) n

/-! ### what the code gets wrong (known findings F140, F141) — concrete witnesses, replayed on the real
code by the corpus cases of `harness/checks/c14.py`

Full statement of C14 for the code: *every* returned pair `(Q, f)` has `E(Q(state_n)) = f(n)` for all `n`, and every
synthesised loop reproduces `E(Q)` in its fresh variable.  The validator theorems above are the `_partial` forms: they
need the *exact* values `E(R)(j)` (`c14_invariant_closed_form`) resp. the same closure matrix including the non-linear
effective monomials (`c14_loop_equiv`).  The code violates both in the situations below. -/

/-- `n`-fold one-step operator -/
def stepN (body : List SStmt) : Nat → MPoly → MPoly
  | 0, q => q
  | n + 1, q => stepN body n (oneStepPoly body q)

/-- `E(Q)(n)` is the value at `σ₀` of the `n`-fold one-step polynomial pushed through the init block -/
theorem momentS_iterate (law : Atom → List (Rat × Rat)) (P : SProg) (hb : LawOK law P.body) (hi : LawOK law P.init)
    (σ₀ : St) (n : Nat) : ∀ q, momentS law P q n σ₀ = MPoly.eval σ₀ (oneStepPoly P.init (stepN P.body n q)) := by
  induction n with
  | zero => intro q; exact momentS_zero law P hi q σ₀
  | succ n ih => intro q; rw [momentS_succ law P hb, ih]; rfl

/-- F140 minimal program: `while true: x = x + y**2 + z; y = y - y**2; z = 1 end` -/
def initCase : SProg :=
  { init := [],
    body := [.assign "x" (det1 [([("x", 1)], 1), ([("y", 2)], 1), ([("z", 1)], 1)]),
             .assign "y" (det1 [([("y", 1)], 1), ([("y", 2)], -1)]),
             .assign "z" (det1 [([], 1)])] }

def σz5 : St := fun v => if v = "z" then 5 else 0

/-- **F140.**  Polar prints `x + y = n + x0 + y0` for `initCase`.  With `x0 = y0 = 0`, `z0 = 5` the loop has
`x + y = 5` after one iteration, the printed closed form gives `1` (the initial value of the effective variable
`z`, read before it is assigned, is lost when `solve_rec_by_summing` strips the `Piecewise`). -/
theorem c14_counterexample_initial_case :
    momentS noLaw initCase Qxy 1 σz5 = 5 ∧ ((1 : Rat) + σz5 "x" + σz5 "y" = 1) := by
  refine ⟨?_, by decide +kernel⟩
  rw [momentS_iterate noLaw initCase (by intro x a hm; simp [initCase] at hm)
    (by intro x a hm; simp [initCase] at hm)]
  decide +kernel

/-- F141 minimal program: `z = 0; while true: z = z + 1 {1/2} z - 1; x = x + y**2 + z**2; y = y - y**2 end` -/
def walkSrc : SProg :=
  { init := [.assign "z" (det1 [])],
    body := [.assign "z" [([([("z", 1)], 1), ([], 1)], [([], 1 / 2)]), ([([("z", 1)], 1), ([], -1)], [([], 1 / 2)])],
             .assign "x" (det1 [([("x", 1)], 1), ([("y", 2)], 1), ([("z", 2)], 1)]),
             .assign "y" (det1 [([("y", 1)], 1), ([("y", 2)], -1)])] }

/-- the loop `SolvLoopSynthesizer.synth_loop` returns for it (`_u = 1`, `x0 = y0 = 0`):
    `t = 0; s = 0; z = t; while true: t = z; s = s + 1 + z**2; z = t end` -/
def walkSynth : SProg :=
  { init := [.assign "t" (det1 []), .assign "s" (det1 []), .assign "z" (det1 [([("t", 1)], 1)])],
    body := [.assign "t" (det1 [([("z", 1)], 1)]),
             .assign "s" (det1 [([("s", 1)], 1), ([], 1), ([("z", 2)], 1)]),
             .assign "z" (det1 [([("t", 1)], 1)])] }

/-- **F141.**  After two iterations `E(x + y) = 3` in the source (`E(z₁²) + E(z₂²) = 1 + 2`), the fresh
variable of the synthesised loop holds `2`: the loop squares the *mean* of the random walk. -/
theorem c14_counterexample_loop :
    momentS noLaw walkSrc Qxy 2 (fun _ => 0) = 3 ∧ momentS noLaw walkSynth [([("s", 1)], 1)] 2 (fun _ => 0) = 2 := by
  constructor
  · rw [momentS_iterate noLaw walkSrc (by intro x a hm; simp [walkSrc] at hm)
      (by intro x a hm; simp [walkSrc] at hm)]
    decide +kernel
  · rw [momentS_iterate noLaw walkSynth (by intro x a hm; simp [walkSynth] at hm)
      (by intro x a hm; simp [walkSynth] at hm)]
    decide +kernel

end Polar.Synth
