/-
  PolarProofs/Merge.lean — the merged run (`run P true`, what the executable model computes: after the init block and
  after every iteration `WD.mergeFast` adds up the weights of equal paths in a `Std.HashMap Path Rat` and drops the
  entries of total weight 0) agrees with the un-merged run (`run P false`, what all theorems of `PolarProofs/*` and
  `Validate.momentU` speak about).

  Notions.  `wsum g d` = Σ w · g(q) over the entries (w, q) of `d`, for a TOTAL `g : Path → Rat`.
  `Equiv d d'` : `∀ g, wsum g d = wsum g d'`.  `Refines d d'` : every path of `d'` is a path of `d`, and `Equiv d d'`
  (the support condition is what makes definedness transfer: `Equiv` alone does not see entries of total weight 0).
  `weightOf d q` = total weight of the path `q` in `d`.  `dropZero d` = `d` without its entries of weight 0.
  `iterG P mrg` / `runG P mrg` = `iterN` / `run` with an arbitrary clean-up function `mrg : WD → WD`
  (`run_true_eq : run P true = runG P WD.mergeFast`, `run_false_eq : run P false = runG P id`).

  Property theorems.
  * `mergeFast_equiv`, `mergeFast_nodup`, `mergeFast_ne_zero`, `mem_mergeFast_iff` — the hash-table fold is correct:
    `(w, q) ∈ d.mergeFast ↔ w ≠ 0 ∧ weightOf d q = w`, and no path occurs twice.
    `mergeFast_refines : Refines d d.mergeFast`; sharper `mergeFast_refines_of_equiv : Equiv d d' → Refines (dropZero d)
    d'.mergeFast`.
  * `wsumM_refines` / `E_refines`, `wsumM_mergeFast` / `E_mergeFast` (`_nz`: over `dropZero d`) — expectations of any
    `f : Path → M Rat`: defined over `d` with value `a` ⇒ defined over the refinement with value `a`.  The converse is
    false (`E_mergeFast_converse_fails`): the merge drops a zero-weight path on which `f` fails.
  * `Refines.bindW` / `Refines.bindM` — one step is linear: `bindW d k = .ok e` and `Refines d d'` ⇒ `bindW d' k = .ok e'`
    with `Refines e e'`, for every kernel `k : Path → M WD`.  (`Equiv.bindT`, `Refines.bindT`: total kernels.)
  * `iterG_mono`, `runG_mono`, `runG_refines` — the loop is monotone in the clean-up function; abstract form: ANY
    `mrg` with `∀ d, Refines d (mrg d)` gives a run that refines the un-merged run.
  * `run_merge_equiv` — `run P false n σ₀ = .ok d → ∃ d', run P true n σ₀ = .ok d' ∧ Refines d d'`;
    `run_merge_exact` — … and `d'` has no repeated path and `(w, q) ∈ d' ↔ w ≠ 0 ∧ weightOf d q = w` (this determines
    `d'` up to the order of its entries); `run_merged_shape`; `run_merge_equiv_nz` (hypothesis only on the un-merged run
    that drops zero-weight entries, `run_nz_of_run`).
  * `moment_merged_eq_unmerged` — `momentU P m n σ₀ = .ok a → moment P m n σ₀ = .ok a`; `moment_merged_eq_nz`;
    `wsumM_run_merged` (any `M`-valued quantity, and the total mass).  The converse is false (`moment_converse_fails`).
  * `run_true_zero`, `run_true_succ` — the merged run unrolled at the END: exactly one pass of the loop of the op
    `moments` (`Polar/Ops.lean: opMoments` does not call `moment`; it inlines `execBlock P.init`, `mergeFast`, and per
    pass `bindM (iter P)`, `mergeFast`, `WD.E`; without a `budget`/size break its state after pass i is
    `run P true i σ₀`).  `Refines.filter`: restriction to an event (its `"given"`).
  Non-vacuity: `exB` (Bernoulli loop in which two of the four paths of length 2 coincide), `exC`.
-/
import Mathlib.Tactic
import Polar.Sem
import Polar.Validate
import PolarProofs.PolyEval
import PolarProofs.Validate
open Polar Polar.Validate Polar.VP

namespace Polar.Merge

/-! ### total weighted sums, equivalence and refinement of weighted path lists -/

/-- Σ w · g(path) over a weighted list of paths, for a TOTAL `g` -/
def wsum (g : Path → Rat) (d : WD) : Rat := (d.map (fun wp => wp.1 * g wp.2)).sum

@[simp] theorem wsum_nil (g : Path → Rat) : wsum g [] = 0 := rfl

@[simp] theorem wsum_cons (g : Path → Rat) (w : Rat) (q : Path) (t : WD) :
    wsum g ((w, q) :: t) = w * g q + wsum g t := by
  simp [wsum]

@[simp] theorem wsum_append (g : Path → Rat) (a b : WD) : wsum g (a ++ b) = wsum g a + wsum g b := by
  simp [wsum]

theorem wsum_scale (g : Path → Rat) (c : Rat) (a : WD) :
    wsum g (a.map (fun x => (c * x.1, x.2))) = c * wsum g a := by
  induction a with
  | nil => simp
  | cons x t ih =>
    obtain ⟨w, q⟩ := x
    simp only [List.map_cons, wsum_cons, ih]
    ring

/-- the two lists give the same weighted sum to every total function of the path -/
def Equiv (d d' : WD) : Prop := ∀ g : Path → Rat, wsum g d = wsum g d'

theorem Equiv.refl (d : WD) : Equiv d d := fun _ => rfl
theorem Equiv.symm {d d' : WD} (h : Equiv d d') : Equiv d' d := fun g => (h g).symm
theorem Equiv.trans {a b c : WD} (h1 : Equiv a b) (h2 : Equiv b c) : Equiv a c := fun g => (h1 g).trans (h2 g)

/-- `d'` refines `d`: every path of `d'` is a path of `d`, and the two are equivalent -/
structure Refines (d d' : WD) : Prop where
  sub : ∀ wp' ∈ d', ∃ wp ∈ d, wp.2 = wp'.2
  eqv : Equiv d d'

theorem Refines.refl (d : WD) : Refines d d := ⟨fun wp h => ⟨wp, h, rfl⟩, Equiv.refl d⟩

theorem Refines.trans {a b c : WD} (h1 : Refines a b) (h2 : Refines b c) : Refines a c := by
  refine ⟨fun wp h => ?_, h1.eqv.trans h2.eqv⟩
  obtain ⟨wp1, hm1, he1⟩ := h2.sub wp h
  obtain ⟨wp0, hm0, he0⟩ := h1.sub wp1 hm1
  exact ⟨wp0, hm0, he0.trans he1⟩

/-! ### the `Except` layer: `wsumM` (hence `WD.E`) through a refinement -/

/-- totalisation of an `M`-valued quantity -/
def tot (f : Path → M Rat) (q : Path) : Rat :=
  match f q with
  | .ok v => v
  | .error _ => 0

theorem tot_ok {f : Path → M Rat} {q : Path} {v : Rat} (h : f q = .ok v) : tot f q = v := by
  simp [tot, h]

theorem wsumM_ok_all {d : WD} {f : Path → M Rat} {a : Rat} (h : wsumM d f = .ok a) :
    (∀ wp ∈ d, ∃ v, f wp.2 = .ok v) ∧ a = wsum (tot f) d := by
  induction d generalizing a with
  | nil =>
    rw [wsumM_nil] at h
    simp only [Except.ok.injEq] at h
    exact ⟨fun wp hwp => (by cases hwp), by simp [← h]⟩
  | cons x t ih =>
    obtain ⟨w, q⟩ := x
    obtain ⟨acc, v, h1, h2, rfl⟩ := wsumM_cons_ok h
    obtain ⟨hall, rfl⟩ := ih h1
    refine ⟨fun wp hwp => ?_, by rw [wsum_cons, tot_ok h2]⟩
    rcases List.mem_cons.mp hwp with rfl | hm
    · exact ⟨v, h2⟩
    · exact hall wp hm

theorem wsumM_of_all {d : WD} {f : Path → M Rat} (h : ∀ wp ∈ d, ∃ v, f wp.2 = .ok v) :
    wsumM d f = .ok (wsum (tot f) d) := by
  induction d with
  | nil => rfl
  | cons x t ih =>
    obtain ⟨w, q⟩ := x
    obtain ⟨v, hv⟩ := h (w, q) (by simp)
    rw [wsumM_cons_mk (ih (fun wp hwp => h wp (by simp [hwp]))) hv, wsum_cons, tot_ok hv]

/-- **Expectations through a refinement.**  If `f` succeeds on every path of `d` (i.e. the weighted sum over `d`
    is defined) then the weighted sum over any refinement `d'` is defined and has the same value.  The converse
    is false: `d'` may have lost a (zero-weight) path on which `f` fails, see `E_mergeFast_converse_fails`. -/
theorem wsumM_refines {d d' : WD} (hr : Refines d d') {f : Path → M Rat} {a : Rat} (h : wsumM d f = .ok a) :
    wsumM d' f = .ok a := by
  obtain ⟨hall, rfl⟩ := wsumM_ok_all h
  rw [hr.eqv (tot f)]
  refine wsumM_of_all (fun wp' hwp' => ?_)
  obtain ⟨wp, hm, he⟩ := hr.sub wp' hwp'
  rw [← he]
  exact hall wp hm

theorem E_refines {d d' : WD} (hr : Refines d d') {m : Mono} {a : Rat} (h : d.E m = .ok a) : d'.E m = .ok a := by
  rw [E_eq_wsumM] at h ⊢
  exact wsumM_refines hr h

/-! ### the weighted bind preserves refinement -/

/-- totalisation of a kernel -/
def totK (k : Path → M WD) (q : Path) : WD :=
  match k q with
  | .ok x => x
  | .error _ => []

theorem totK_ok {k : Path → M WD} {q : Path} {x : WD} (h : k q = .ok x) : totK k q = x := by
  simp [totK, h]

/-- the weighted bind with a total kernel -/
def bindT : WD → (Path → WD) → WD
  | [], _ => []
  | (w, q) :: ds, K => (K q).map (fun x => (w * x.1, x.2)) ++ bindT ds K

theorem bindW_ok_all {d : WD} {k : Path → M WD} {e : WD} (h : bindW d k = .ok e) :
    (∀ wp ∈ d, ∃ x, k wp.2 = .ok x) ∧ e = bindT d (totK k) := by
  induction d generalizing e with
  | nil => exact ⟨fun wp hwp => (by cases hwp), bindW_nil_ok h⟩
  | cons x t ih =>
    obtain ⟨w, q⟩ := x
    obtain ⟨a, b, ha, hb, rfl⟩ := bindW_cons_ok h
    obtain ⟨hall, rfl⟩ := ih hb
    refine ⟨fun wp hwp => ?_, by rw [bindT, totK_ok ha]⟩
    rcases List.mem_cons.mp hwp with rfl | hm
    · exact ⟨a, ha⟩
    · exact hall wp hm

theorem bindW_of_all {d : WD} {k : Path → M WD} (h : ∀ wp ∈ d, ∃ x, k wp.2 = .ok x) :
    bindW d k = .ok (bindT d (totK k)) := by
  induction d with
  | nil => rfl
  | cons x t ih =>
    obtain ⟨w, q⟩ := x
    obtain ⟨a, ha⟩ := h (w, q) (by simp)
    rw [bindW, ha, ih (fun wp hwp => h wp (by simp [hwp])), bindT, totK_ok ha]
    rfl

theorem wsum_bindT (g : Path → Rat) (d : WD) (K : Path → WD) :
    wsum g (bindT d K) = wsum (fun q => wsum g (K q)) d := by
  induction d with
  | nil => rfl
  | cons x t ih =>
    obtain ⟨w, q⟩ := x
    rw [bindT, wsum_append, wsum_scale, ih, wsum_cons]

theorem mem_bindT {d : WD} {K : Path → WD} {r : Rat × Path} :
    r ∈ bindT d K ↔ ∃ wp ∈ d, ∃ x ∈ K wp.2, r = (wp.1 * x.1, x.2) := by
  induction d with
  | nil => simp [bindT]
  | cons y t ih =>
    obtain ⟨w, q⟩ := y
    rw [bindT, List.mem_append, ih, List.mem_map]
    constructor
    · rintro (⟨x, hx, rfl⟩ | ⟨wp, hwp, x, hx, rfl⟩)
      · exact ⟨(w, q), by simp, x, hx, rfl⟩
      · exact ⟨wp, by simp [hwp], x, hx, rfl⟩
    · rintro ⟨wp, hwp, x, hx, rfl⟩
      rcases List.mem_cons.mp hwp with rfl | hm
      · exact Or.inl ⟨x, hx, rfl⟩
      · exact Or.inr ⟨wp, hm, x, hx, rfl⟩

theorem Refines.bindT {d d' : WD} (hr : Refines d d') (K : Path → WD) : Refines (bindT d K) (bindT d' K) := by
  refine ⟨fun r hr' => ?_, fun g => ?_⟩
  · obtain ⟨wp', hwp', x, hx, rfl⟩ := mem_bindT.mp hr'
    obtain ⟨wp, hwp, he⟩ := hr.sub wp' hwp'
    exact ⟨(wp.1 * x.1, x.2), mem_bindT.mpr ⟨wp, hwp, x, by rw [he]; exact hx, rfl⟩, rfl⟩
  · rw [wsum_bindT, wsum_bindT]
    exact hr.eqv _

theorem Equiv.bindT {d d' : WD} (he : Equiv d d') (K : Path → WD) : Equiv (bindT d K) (bindT d' K) := fun g => by
  rw [wsum_bindT, wsum_bindT]
  exact he _

/-- **One step is linear.**  If `d'` refines `d` and the weighted bind of `d` with `k` is defined, then the bind of
    `d'` with `k` is defined and refines it. -/
theorem Refines.bindW {d d' : WD} (hr : Refines d d') {k : Path → M WD} {e : WD} (h : bindW d k = .ok e) :
    ∃ e', bindW d' k = .ok e' ∧ Refines e e' := by
  obtain ⟨hall, rfl⟩ := bindW_ok_all h
  refine ⟨_, bindW_of_all (fun wp' hwp' => ?_), hr.bindT _⟩
  obtain ⟨wp, hm, he⟩ := hr.sub wp' hwp'
  rw [← he]
  exact hall wp hm

theorem Refines.bindM {d d' : WD} (hr : Refines d d') {k : Path → M WD} {e : WD} (h : d.bindM k = .ok e) :
    ∃ e', d'.bindM k = .ok e' ∧ Refines e e' := by
  rw [bindM_eq] at h ⊢
  exact hr.bindW h

/-! ### `WD.mergeFast`: the hash table -/

/-- Σ v · g(k) over an association list path ↦ weight -/
def msum (g : Path → Rat) (l : List (Path × Rat)) : Rat := (l.map (fun kv => kv.2 * g kv.1)).sum

/-- one step of the fold of `WD.mergeFast` -/
def mstep (m : Std.HashMap Path Rat) (wp : Rat × Path) : Std.HashMap Path Rat :=
  m.insert wp.2 (m.getD wp.2 0 + wp.1)

/-- the table built by `WD.mergeFast` -/
def mtable (d : WD) : Std.HashMap Path Rat := d.foldl mstep {}

/-- the final pass of `WD.mergeFast` -/
def mout (l : List (Path × Rat)) : WD :=
  l.filterMap (fun (pw : Path × Rat) => if pw.2 = 0 then none else some (pw.2, pw.1))

theorem mergeFast_eq (d : WD) : d.mergeFast = mout (mtable d).toList := rfl

theorem mtable_nil : (mtable []).toList = [] := by
  simp [mtable]

/-- no entry of the list has key `k`: removing the key `k` changes nothing -/
theorem filter_ne_self {l : List (Path × Rat)} {k : Path} (h : ∀ p ∈ l, p.1 ≠ k) :
    l.filter (fun x => decide ¬(k == x.1)) = l := by
  rw [List.filter_eq_self]
  intro p hp
  have := h p hp
  simp only [beq_iff_eq, decide_not, Bool.not_eq_eq_eq_not, Bool.not_true, decide_eq_false_iff_not]
  exact fun e => this e.symm

/-- splitting off the (unique) entry with key `k` from an association list with distinct keys -/
theorem msum_split (g : Path → Rat) {l : List (Path × Rat)} {k : Path} {v : Rat}
    (hd : l.Pairwise (fun a b => (a.1 == b.1) = false)) (hm : (k, v) ∈ l) :
    msum g l = v * g k + msum g (l.filter (fun x => decide ¬(k == x.1))) := by
  induction l with
  | nil => cases hm
  | cons a t ih =>
    obtain ⟨ha, ht⟩ := List.pairwise_cons.mp hd
    rcases List.mem_cons.mp hm with rfl | hmt
    · have hne : ∀ p ∈ t, p.1 ≠ k := fun p hp e => by
        have := ha p hp
        simp [e] at this
      rw [List.filter_cons]
      simp only [BEq.rfl, not_true_eq_false, decide_false, Bool.false_eq_true, if_false]
      rw [filter_ne_self hne]
      simp [msum]
    · have hak : a.1 ≠ k := fun e => by
        have := ha (k, v) hmt
        simp [e] at this
      rw [List.filter_cons]
      have : (decide ¬(k == a.1)) = true := by
        simpa using fun e => hak e.symm
      rw [if_pos this]
      have e1 : ∀ l', msum g (a :: l') = a.2 * g a.1 + msum g l' := fun l' => by simp [msum]
      rw [e1, e1, ih ht hmt]
      ring

/-- **The table step adds `w · g k`.** -/
theorem msum_insert (g : Path → Rat) (m : Std.HashMap Path Rat) (k : Path) (w : Rat) :
    msum g (m.insert k (m.getD k 0 + w)).toList = msum g m.toList + w * g k := by
  have hp := (Std.HashMap.toList_insert_perm (m := m) (k := k) (v := m.getD k 0 + w)).map
    (fun kv => kv.2 * g kv.1)
  have hs := hp.sum_eq
  have e1 : ∀ (a : Path × Rat) l', msum g (a :: l') = a.2 * g a.1 + msum g l' := fun a l' => by simp [msum]
  change msum g _ = msum g (_ :: _) at hs
  rw [hs, e1]
  rw [Std.HashMap.getD_eq_getD_getElem?]
  cases hk : m[k]? with
  | some v =>
    have hm : (k, v) ∈ m.toList := Std.HashMap.mem_toList_iff_getElem?_eq_some.mpr hk
    rw [msum_split g Std.HashMap.distinct_keys_toList hm]
    simp only [Option.getD_some]
    ring
  | none =>
    have hne : ∀ p ∈ m.toList, p.1 ≠ k := fun p hp e => by
      have := Std.HashMap.mem_toList_iff_getElem?_eq_some.mp (show (p.1, p.2) ∈ m.toList from hp)
      rw [e, hk] at this
      cases this
    rw [filter_ne_self hne]
    simp only [Option.getD_none]
    ring

theorem msum_foldl (g : Path → Rat) (d : WD) (m : Std.HashMap Path Rat) :
    msum g (d.foldl mstep m).toList = msum g m.toList + wsum g d := by
  induction d generalizing m with
  | nil => simp
  | cons x t ih =>
    obtain ⟨w, q⟩ := x
    rw [List.foldl_cons, ih, mstep, msum_insert, wsum_cons]
    ring

theorem msum_mtable (g : Path → Rat) (d : WD) : msum g (mtable d).toList = wsum g d := by
  rw [mtable, msum_foldl]
  simp [msum]

theorem wsum_mout (g : Path → Rat) (l : List (Path × Rat)) : wsum g (mout l) = msum g l := by
  induction l with
  | nil => rfl
  | cons a t ih =>
    obtain ⟨k, v⟩ := a
    have e1 : msum g ((k, v) :: t) = v * g k + msum g t := by simp [msum]
    rw [e1, ← ih, mout, List.filterMap_cons]
    by_cases hv : v = 0
    · simp [hv]; rfl
    · simp [hv]; rfl

/-- **`mergeFast` preserves every total weighted sum.** -/
theorem mergeFast_equiv (d : WD) : Equiv d d.mergeFast := fun g => by
  rw [mergeFast_eq, wsum_mout, msum_mtable]

/-! ### shape of the result of `mergeFast`: distinct paths, non-zero weights, weight = total weight -/

theorem mem_mout {l : List (Path × Rat)} {w : Rat} {q : Path} : (w, q) ∈ mout l ↔ (q, w) ∈ l ∧ w ≠ 0 := by
  rw [mout, List.mem_filterMap]
  constructor
  · rintro ⟨⟨k, v⟩, hm, h⟩
    by_cases hv : v = 0
    · simp [hv] at h
    · simp only [hv, if_false, Option.some.injEq, Prod.mk.injEq] at h
      obtain ⟨rfl, rfl⟩ := h
      exact ⟨hm, hv⟩
  · rintro ⟨hm, hw⟩
    exact ⟨(q, w), hm, by simp [hw]⟩

theorem mout_nodup {l : List (Path × Rat)} (hd : l.Pairwise (fun a b => (a.1 == b.1) = false)) :
    ((mout l).map Prod.snd).Nodup := by
  rw [List.Nodup, List.pairwise_map, mout, List.pairwise_filterMap]
  refine hd.imp ?_
  intro a a' hne b hb b' hb' e
  by_cases ha : a.2 = 0
  · simp [ha] at hb
  by_cases ha' : a'.2 = 0
  · simp [ha'] at hb'
  simp only [ha, ha', if_false, Option.some.injEq] at hb hb'
  subst hb hb'
  simp only at e
  simp [e] at hne

/-- the merged list has pairwise distinct paths … -/
theorem mergeFast_nodup (d : WD) : (d.mergeFast.map Prod.snd).Nodup := by
  rw [mergeFast_eq]
  exact mout_nodup Std.HashMap.distinct_keys_toList

/-- … and no zero weights -/
theorem mergeFast_ne_zero (d : WD) : ∀ wp ∈ d.mergeFast, wp.1 ≠ 0 := by
  rintro ⟨w, q⟩ h
  rw [mergeFast_eq] at h
  exact (mem_mout.mp h).2

/-- indicator of the path `q` -/
def ind (q : Path) (p : Path) : Rat := if p = q then 1 else 0

/-- total weight of the path `q` in `d` -/
def weightOf (d : WD) (q : Path) : Rat := wsum (ind q) d

theorem weightOf_cons (w : Rat) (p : Path) (t : WD) (q : Path) :
    weightOf ((w, p) :: t) q = (if p = q then w else 0) + weightOf t q := by
  rw [weightOf, wsum_cons, ind]
  split <;> simp [weightOf]

theorem weightOf_eq_zero {d : WD} {q : Path} (h : ∀ wp ∈ d, wp.2 = q → wp.1 = 0) : weightOf d q = 0 := by
  induction d with
  | nil => rfl
  | cons x t ih =>
    obtain ⟨w, p⟩ := x
    rw [weightOf_cons, ih (fun wp hwp => h wp (by simp [hwp]))]
    by_cases hp : p = q
    · have hw : w = 0 := h (w, p) (by simp) hp
      simp [hw]
    · simp [hp]

theorem weightOf_nodup {d : WD} {w : Rat} {q : Path} (hd : (d.map Prod.snd).Nodup) (hm : (w, q) ∈ d) :
    weightOf d q = w := by
  induction d with
  | nil => cases hm
  | cons x t ih =>
    obtain ⟨u, p⟩ := x
    rw [List.map_cons, List.nodup_cons] at hd
    rw [weightOf_cons]
    rcases List.mem_cons.mp hm with e | hmt
    · obtain ⟨rfl, rfl⟩ := Prod.mk.inj e
      rw [weightOf_eq_zero (d := t)]
      · simp
      · intro wp hwp e
        exact absurd (List.mem_map.mpr ⟨wp, hwp, e⟩) hd.1
    · have : p ≠ q := fun e => hd.1 (List.mem_map.mpr ⟨(w, q), hmt, e.symm⟩)
      rw [if_neg this, ih hd.2 hmt]
      simp

/-- a list with distinct paths and non-zero weights that is equivalent to `d` is determined up to order: it consists
    of the pairs (total weight of `q` in `d`, `q`) for the paths `q` of non-zero total weight -/
theorem mem_iff_weightOf {d d' : WD} (he : Equiv d d') (hn : (d'.map Prod.snd).Nodup) (hz : ∀ wp ∈ d', wp.1 ≠ 0)
    {w : Rat} {q : Path} : (w, q) ∈ d' ↔ w ≠ 0 ∧ weightOf d q = w := by
  constructor
  · intro h
    refine ⟨hz _ h, ?_⟩
    rw [weightOf, he (ind q)]
    exact weightOf_nodup hn h
  · rintro ⟨hw, hq⟩
    by_contra hnot
    have h0 : weightOf d' q = 0 := by
      refine weightOf_eq_zero (fun wp hwp e => ?_)
      obtain ⟨w', p⟩ := wp
      simp only at e
      subst e
      have := weightOf_nodup hn hwp
      rw [weightOf, ← he (ind p)] at this
      change weightOf d p = w' at this
      rw [hq] at this
      subst this
      exact absurd hwp hnot
    rw [weightOf, ← he (ind q)] at h0
    change weightOf d q = 0 at h0
    exact hw (hq.symm.trans h0)

/-- **Exact description of `mergeFast`**: `(w, q)` occurs in the merged list iff `w` is the total weight of `q` in `d`
    and is not zero (together with `mergeFast_nodup`: each such pair occurs exactly once). -/
theorem mem_mergeFast_iff {d : WD} {w : Rat} {q : Path} : (w, q) ∈ d.mergeFast ↔ w ≠ 0 ∧ weightOf d q = w :=
  mem_iff_weightOf (mergeFast_equiv d) (mergeFast_nodup d) (mergeFast_ne_zero d)

theorem mergeFast_all_zero {d : WD} (h : ∀ wp ∈ d, wp.1 = 0) : d.mergeFast = [] := by
  rw [List.eq_nil_iff_forall_not_mem]
  rintro ⟨w, q⟩ hm
  obtain ⟨hw, he⟩ := mem_mergeFast_iff.mp hm
  exact hw (he.symm.trans (weightOf_eq_zero (fun wp hwp _ => h wp hwp)))

/-- the un-merged list with the zero-weight entries removed -/
def dropZero (d : WD) : WD := d.filter (fun wp => decide (wp.1 ≠ 0))

theorem wsum_dropZero (g : Path → Rat) (d : WD) : wsum g (dropZero d) = wsum g d := by
  induction d with
  | nil => rfl
  | cons x t ih =>
    obtain ⟨w, q⟩ := x
    rw [dropZero, List.filter_cons]
    by_cases hw : w = 0
    · simp only [hw, ne_eq, not_true_eq_false, decide_false, Bool.false_eq_true, if_false, wsum_cons, zero_mul, zero_add]
      exact ih
    · simp only [hw, ne_eq, not_false_eq_true, decide_true, if_true, wsum_cons]
      rw [← ih]; rfl

theorem mem_dropZero {d : WD} {wp : Rat × Path} : wp ∈ dropZero d ↔ wp ∈ d ∧ wp.1 ≠ 0 := by
  simp [dropZero]

theorem refines_dropZero (d : WD) : Refines d (dropZero d) :=
  ⟨fun wp h => ⟨wp, (mem_dropZero.mp h).1, rfl⟩, fun g => (wsum_dropZero g d).symm⟩

/-- **`mergeFast` refines, and only keeps paths that carry a non-zero weight somewhere**: if `d` and `d'` are
    equivalent then the merged `d'` refines `d` without its zero-weight entries. -/
theorem mergeFast_refines_of_equiv {d d' : WD} (h : Equiv d d') : Refines (dropZero d) d'.mergeFast := by
  refine ⟨?_, fun g => ?_⟩
  · rintro ⟨w, q⟩ hm
    obtain ⟨hw, he⟩ := mem_mergeFast_iff.mp hm
    rw [weightOf, ← h (ind q)] at he
    by_contra hn
    refine hw (he.symm.trans (weightOf_eq_zero (fun wp hwp e => ?_)))
    by_contra hz
    exact hn ⟨wp, mem_dropZero.mpr ⟨hwp, hz⟩, e⟩
  · rw [wsum_dropZero, h g, mergeFast_equiv d' g]

/-- **`mergeFast` is a refinement.** -/
theorem mergeFast_refines (d : WD) : Refines d d.mergeFast :=
  (refines_dropZero d).trans (mergeFast_refines_of_equiv (Equiv.refl d))

/-- **`WD.E_mergeFast`.**  If the expectation of `f` over `d` is defined, the expectation over the merged list is
    defined and equal. -/
theorem wsumM_mergeFast {d : WD} {f : Path → M Rat} {a : Rat} (h : wsumM d f = .ok a) :
    wsumM d.mergeFast f = .ok a :=
  wsumM_refines (mergeFast_refines d) h

theorem E_mergeFast {d : WD} {m : Mono} {a : Rat} (h : d.E m = .ok a) : d.mergeFast.E m = .ok a :=
  E_refines (mergeFast_refines d) h

/-- the same when `f` is only known to succeed on the paths of `d` that carry a non-zero weight -/
theorem wsumM_mergeFast_nz {d : WD} {f : Path → M Rat} {a : Rat} (h : wsumM (dropZero d) f = .ok a) :
    wsumM d.mergeFast f = .ok a :=
  wsumM_refines (mergeFast_refines_of_equiv (Equiv.refl d)) h

theorem mass_eq_wsum (d : WD) : d.mass = wsum (fun _ => 1) d := by
  induction d with
  | nil => rfl
  | cons x t ih =>
    obtain ⟨w, q⟩ := x
    rw [wsum_cons, ← ih]
    simp [WD.mass]

theorem Equiv.mass {d d' : WD} (h : Equiv d d') : d.mass = d'.mass := by
  rw [mass_eq_wsum, mass_eq_wsum]; exact h _

theorem mass_mergeFast (d : WD) : d.mergeFast.mass = d.mass := (mergeFast_equiv d).mass.symm

/-! ### the loop with a clean-up function after every iteration -/

/-- `iterN` with an arbitrary clean-up `mrg` applied after every iteration
    (`iterN P true = iterG P WD.mergeFast`, `iterN P false = iterG P id`) -/
def iterG (P : Program) (mrg : WD → WD) : Nat → WD → M WD
  | 0, d => pure d
  | n + 1, d => do
    let d' ← bindW d (iter P)
    iterG P mrg n (mrg d')

/-- `run` with an arbitrary clean-up `mrg` applied after the init block and after every iteration -/
def runG (P : Program) (mrg : WD → WD) (n : Nat) (σ₀ : Store) : M WD := do
  let d₀ ← execBlock P.init ⟨σ₀, []⟩
  iterG P mrg n (mrg d₀)

theorem iterN_true_eq (P : Program) (n : Nat) (d : WD) : iterN P true n d = iterG P WD.mergeFast n d := by
  induction n generalizing d with
  | zero => rfl
  | succ n ih =>
    rw [iterN, iterG, bindM_eq]
    simp only [if_true]
    congr 1
    funext d'
    exact ih _

theorem iterN_false_eq (P : Program) (n : Nat) (d : WD) : iterN P false n d = iterG P id n d := by
  induction n generalizing d with
  | zero => rfl
  | succ n ih =>
    rw [iterN, iterG, bindM_eq]
    simp only [Bool.false_eq_true, if_false, id]
    congr 1
    funext d'
    exact ih _

theorem run_true_eq (P : Program) (n : Nat) (σ₀ : Store) : run P true n σ₀ = runG P WD.mergeFast n σ₀ := by
  rw [run, runG]
  simp only [if_true, iterN_true_eq]

theorem run_false_eq (P : Program) (n : Nat) (σ₀ : Store) : run P false n σ₀ = runG P id n σ₀ := by
  rw [run, runG]
  simp only [Bool.false_eq_true, if_false, iterN_false_eq, id]

/-- **Monotonicity of the loop in the clean-up function**: if `m2` applied to a refinement refines `m1`, the loop
    with `m2` started on a refinement is defined whenever the loop with `m1` is, and refines it. -/
theorem iterG_mono {P : Program} {m1 m2 : WD → WD} (hm : ∀ d d', Refines d d' → Refines (m1 d) (m2 d')) :
    ∀ (n : Nat) {d0 d0' d : WD}, Refines d0 d0' → iterG P m1 n d0 = .ok d →
      ∃ d', iterG P m2 n d0' = .ok d' ∧ Refines d d' := by
  intro n
  induction n with
  | zero =>
    intro d0 d0' d hr h
    rw [iterG, pure_ok] at h
    subst h
    exact ⟨d0', rfl, hr⟩
  | succ n ih =>
    intro d0 d0' d hr h
    rw [iterG] at h
    obtain ⟨e, he, h⟩ := bind_ok.mp h
    obtain ⟨e', he', hre⟩ := hr.bindW he
    obtain ⟨d', hd', hrd⟩ := ih (hm e e' hre) h
    refine ⟨d', ?_, hrd⟩
    rw [iterG, he']
    exact hd'

theorem runG_mono {P : Program} {m1 m2 : WD → WD} (hm : ∀ d d', Refines d d' → Refines (m1 d) (m2 d'))
    {n : Nat} {σ₀ : Store} {d : WD} (h : runG P m1 n σ₀ = .ok d) :
    ∃ d', runG P m2 n σ₀ = .ok d' ∧ Refines d d' := by
  rw [runG] at h
  obtain ⟨d₀, h0, h⟩ := bind_ok.mp h
  obtain ⟨d', hd', hr⟩ := iterG_mono hm n (hm d₀ d₀ (Refines.refl d₀)) h
  refine ⟨d', ?_, hr⟩
  rw [runG, h0]
  exact hd'

/-- **Abstract form**: for ANY clean-up function that returns a refinement of its argument, the cleaned-up run is
    defined whenever the un-merged run is, and refines it. -/
theorem runG_refines {P : Program} {mrg : WD → WD} (hm : ∀ d, Refines d (mrg d))
    {n : Nat} {σ₀ : Store} {d : WD} (h : run P false n σ₀ = .ok d) :
    ∃ d', runG P mrg n σ₀ = .ok d' ∧ Refines d d' := by
  rw [run_false_eq] at h
  exact runG_mono (fun d d' hr => hr.trans (hm d')) h

/-! ### main theorems -/

/-- **The merged run refines the un-merged run** (`run P true` is what the executable model computes, `run P false` is
    what the theorems of `PolarProofs/*` speak about): if the un-merged run of length `n` is defined, the merged run is
    defined, all its paths are paths of the un-merged run, and every total function of the path has the same weighted
    sum over both.  The converse implication is false (`moment_converse_fails`). -/
theorem run_merge_equiv {P : Program} {n : Nat} {σ₀ : Store} {d : WD} (h : run P false n σ₀ = .ok d) :
    ∃ d', run P true n σ₀ = .ok d' ∧ Refines d d' := by
  rw [run_true_eq]
  exact runG_refines mergeFast_refines h

/-- the sharper form: it suffices that the un-merged run *which drops zero-weight entries after every iteration* is
    defined (this run is defined whenever `run P false` is, `run_nz_of_run`) -/
theorem run_merge_equiv_nz {P : Program} {n : Nat} {σ₀ : Store} {d : WD} (h : runG P dropZero n σ₀ = .ok d) :
    ∃ d', run P true n σ₀ = .ok d' ∧ Refines d d' := by
  rw [run_true_eq]
  exact runG_mono (fun d d' hr => mergeFast_refines_of_equiv hr.eqv) h

theorem run_nz_of_run {P : Program} {n : Nat} {σ₀ : Store} {d : WD} (h : run P false n σ₀ = .ok d) :
    ∃ d', runG P dropZero n σ₀ = .ok d' ∧ Refines d d' :=
  runG_refines refines_dropZero h

/-- **Merged and un-merged moments agree.**  `moment` (`Polar/Sem.lean`, over `run P true`) returns the value of
    `momentU` (`Polar/Validate.lean`, over `run P false`) whenever the latter is defined. -/
theorem moment_merged_eq_unmerged {P : Program} {m : Mono} {n : Nat} {σ₀ : Store} {a : Rat}
    (h : momentU P m n σ₀ = .ok a) : moment P m n σ₀ = .ok a := by
  rw [momentU] at h
  obtain ⟨d, hd, hE⟩ := bind_ok.mp h
  obtain ⟨d', hd', hr⟩ := run_merge_equiv hd
  rw [moment, hd']
  exact E_refines hr hE

/-- the sharper form, over the zero-dropping un-merged run -/
theorem moment_merged_eq_nz {P : Program} {m : Mono} {n : Nat} {σ₀ : Store} {a : Rat}
    (h : (do (← runG P dropZero n σ₀).E m) = .ok a) : moment P m n σ₀ = .ok a := by
  obtain ⟨d, hd, hE⟩ := bind_ok.mp h
  obtain ⟨d', hd', hr⟩ := run_merge_equiv_nz hd
  rw [moment, hd']
  exact E_refines hr hE

/-- the same for any `M`-valued quantity of the final path list and for the total mass -/
theorem wsumM_run_merged {P : Program} {n : Nat} {σ₀ : Store} {d : WD} (h : run P false n σ₀ = .ok d)
    {f : Path → M Rat} {a : Rat} (hf : wsumM d f = .ok a) :
    ∃ d', run P true n σ₀ = .ok d' ∧ wsumM d' f = .ok a ∧ d'.mass = d.mass := by
  obtain ⟨d', hd', hr⟩ := run_merge_equiv h
  exact ⟨d', hd', wsumM_refines hr hf, hr.eqv.mass.symm⟩

/-! ### the merged run step by step (the loop of the op `moments`), its shape, its exact description -/

theorem iterG_succ_end (P : Program) (mrg : WD → WD) (n : Nat) (d : WD) :
    iterG P mrg (n + 1) d = (do let D ← iterG P mrg n d; let D' ← bindW D (iter P); pure (mrg D')) := by
  induction n generalizing d with
  | zero =>
    have e1 : iterG P mrg (0 + 1) d = (do let d' ← bindW d (iter P); iterG P mrg 0 (mrg d')) := rfl
    have e2 : ∀ x, iterG P mrg 0 x = pure x := fun _ => rfl
    rw [e1, e2]
    simp only [e2, pure_bind]
  | succ n ih =>
    have e1 : iterG P mrg (n + 1 + 1) d = (do let d' ← bindW d (iter P); iterG P mrg (n + 1) (mrg d')) := rfl
    have e2 : iterG P mrg (n + 1) d = (do let d' ← bindW d (iter P); iterG P mrg n (mrg d')) := rfl
    rw [e1, e2, bind_assoc]
    congr 1
    funext d'
    exact ih _

/-- the merged run of length 0 (first pass of the loop of the op `moments`) -/
theorem run_true_zero (P : Program) (σ₀ : Store) :
    run P true 0 σ₀ = (do let d₀ ← execBlock P.init ⟨σ₀, []⟩; pure d₀.mergeFast) := by
  rw [run]
  simp only [if_true, iterN]

/-- the merged run of length n+1 is the merged run of length n, one more iteration of every path, one more merge
    (one pass of the loop of the op `moments`) -/
theorem run_true_succ (P : Program) (n : Nat) (σ₀ : Store) :
    run P true (n + 1) σ₀ = (do let D ← run P true n σ₀; let D' ← D.bindM (iter P); pure D'.mergeFast) := by
  rw [run_true_eq, run_true_eq, runG, runG, bind_assoc]
  congr 1
  funext d₀
  rw [iterG_succ_end]
  congr 1
  funext D
  rw [bindM_eq]

/-- the result of the merged run has pairwise distinct paths and no zero weights -/
theorem run_merged_shape {P : Program} {n : Nat} {σ₀ : Store} {d' : WD} (h : run P true n σ₀ = .ok d') :
    (d'.map Prod.snd).Nodup ∧ ∀ wp ∈ d', wp.1 ≠ 0 := by
  cases n with
  | zero =>
    rw [run_true_zero] at h
    obtain ⟨d₀, _, h⟩ := bind_ok.mp h
    rw [pure_ok] at h
    subst h
    exact ⟨mergeFast_nodup _, mergeFast_ne_zero _⟩
  | succ n =>
    rw [run_true_succ] at h
    obtain ⟨D, _, h⟩ := bind_ok.mp h
    obtain ⟨D', _, h⟩ := bind_ok.mp h
    rw [pure_ok] at h
    subst h
    exact ⟨mergeFast_nodup _, mergeFast_ne_zero _⟩

/-- **Exact description of the merged run.**  If the un-merged run is defined, the merged run is defined and is, up to
    the order of its entries, the list of the pairs (total weight of `q` in the un-merged run, `q`) over the distinct
    paths `q` of non-zero total weight: no repeated path, and `(w, q)` occurs iff `w ≠ 0` is the total weight of `q`. -/
theorem run_merge_exact {P : Program} {n : Nat} {σ₀ : Store} {d : WD} (h : run P false n σ₀ = .ok d) :
    ∃ d', run P true n σ₀ = .ok d' ∧ (d'.map Prod.snd).Nodup ∧
      ∀ w q, (w, q) ∈ d' ↔ w ≠ 0 ∧ weightOf d q = w := by
  obtain ⟨d', hd', hr⟩ := run_merge_equiv h
  obtain ⟨hn, hz⟩ := run_merged_shape hd'
  exact ⟨d', hd', hn, fun w q => mem_iff_weightOf hr.eqv hn hz⟩

/-- restriction to an event (a Boolean function of the path) preserves refinement (`"given"` of the op `moments`) -/
theorem Refines.filter {d d' : WD} (hr : Refines d d') (sel : Path → Bool) :
    Refines (d.filter (fun wp => sel wp.2)) (d'.filter (fun wp => sel wp.2)) := by
  have hw : ∀ (g : Path → Rat) (l : WD),
      wsum g (l.filter (fun wp => sel wp.2)) = wsum (fun q => if sel q then g q else 0) l := by
    intro g l
    induction l with
    | nil => rfl
    | cons x t ih =>
      obtain ⟨w, q⟩ := x
      rw [List.filter_cons]
      cases hs : sel q
      · simp only [Bool.false_eq_true, if_false, wsum_cons, hs, mul_zero, zero_add]
        exact ih
      · simp only [if_true, wsum_cons, hs]
        rw [ih]
  refine ⟨fun wp' h' => ?_, fun g => by rw [hw, hw]; exact hr.eqv _⟩
  obtain ⟨hm', hs'⟩ := List.mem_filter.mp h'
  obtain ⟨wp, hm, he⟩ := hr.sub wp' hm'
  exact ⟨wp, List.mem_filter.mpr ⟨hm, by rw [he]; exact hs'⟩, he⟩

/-! ### non-vacuity: `f = 0; x = 0; while true: f = Bernoulli(1/2); x = x + f; f = 0`

After two iterations the un-merged run has the four entries x = 2, 1, 1, 0 of weight 1/4; the two entries x = 1 are
the same path, which the merged run holds once with weight 1/2. -/

def exB : Program :=
  { init := [.assign "f" (.expr (.num 0)) .tt "f", .assign "x" (.expr (.num 0)) .tt "x"],
    guard := .tt,
    body := [.assign "f" (.dist "Bernoulli" [.num (1/2)]) .tt "f",
             .assign "x" (.expr (.add (.var "x") (.var "f"))) .tt "x",
             .assign "f" (.expr (.num 0)) .tt "f"] }

/-- the un-merged run of `exB` of length 2 -/
def exD : WD :=
  match run exB false 2 [] with
  | .ok d => d
  | .error _ => []

theorem exD_run : run exB false 2 [] = .ok exD := by decide +kernel

-- four entries, one path occurs twice with weight 1/4 (total weight 1/2)
theorem exD_shape : exD.length = 4 ∧ ∃ q ∈ exD.map Prod.snd, exD.count (1/4, q) = 2 ∧ weightOf exD q = 1/2 := by
  decide +kernel

/-- the hypothesis of `run_merge_equiv` / `run_merge_exact` is satisfiable, and merging really collapses entries: the
    merged run holds the repeated path once, with the sum of the two weights -/
example : ∃ d', run exB true 2 [] = .ok d' ∧ Refines exD d' ∧ (d'.map Prod.snd).Nodup ∧
    ∃ q, exD.count (1/4, q) = 2 ∧ (1/2, q) ∈ d' ∧ (1/4, q) ∉ d' := by
  obtain ⟨d', hd', hn, hex⟩ := run_merge_exact exD_run
  obtain ⟨d'', hd'', hr⟩ := run_merge_equiv exD_run
  rw [hd'] at hd''
  simp only [Except.ok.injEq] at hd''
  subst hd''
  obtain ⟨_, q, _, hc, hw⟩ := exD_shape
  refine ⟨d', hd', hr, hn, q, hc, (hex _ q).mpr ⟨by norm_num, hw⟩, fun h => ?_⟩
  have := ((hex _ q).mp h).2
  rw [hw] at this
  norm_num at this

-- the hypothesis of `moment_merged_eq_unmerged` is satisfiable: E(x)(2) = 1, E(x²)(3) = 3
example : momentU exB [("x", 1)] 2 [] = .ok 1 := by decide +kernel
example : moment exB [("x", 1)] 2 [] = .ok 1 := moment_merged_eq_unmerged (by decide +kernel)
example : moment exB [("x", 2)] 3 [] = .ok 3 := moment_merged_eq_unmerged (by decide +kernel)

/-! ### the converse implications are false: merging drops zero-weight paths on which the quantity is undefined -/

/-- on a single path of weight 0 without `x`: E(x) is undefined before the merge and 0 after it -/
theorem E_mergeFast_converse_fails :
    ∃ (d : WD) (m : Mono), d.mergeFast.E m = .ok 0 ∧ ∀ b, d.E m ≠ .ok b := by
  refine ⟨[(0, ⟨[], []⟩)], [("x", 1)], ?_, ?_⟩
  · rw [mergeFast_all_zero (by simp)]
    rfl
  · intro b h
    have : (WD.E [(0, ⟨[], []⟩)] [("x", 1)]).isOk = false := by decide +kernel
    rw [h] at this
    cases this

/-- `x = 0 with probability 1, 1 with probability 0; if x == 1: pass else: y = 5; while true: x = x` -/
def exC : Program :=
  { init := [.assign "x" (.choice [(.num 0, .num 1), (.num 1, .num 0)]) .tt "x",
             .ite (.cmp .eq (.var "x") (.num 1)) [] [.assign "y" (.expr (.num 5)) .tt "y"]],
    guard := .tt,
    body := [.assign "x" (.expr (.var "x")) .tt "x"] }

/-- the un-merged moment is undefined (`y` is unset on the path of weight 0), the merged one is 5 -/
theorem moment_converse_fails :
    ∃ (P : Program) (m : Mono) (n : Nat) (σ₀ : Store) (a : Rat),
      moment P m n σ₀ = .ok a ∧ ∀ b, momentU P m n σ₀ ≠ .ok b := by
  refine ⟨exC, [("y", 1)], 1, [], 5, moment_merged_eq_nz (by decide +kernel), ?_⟩
  intro b h
  have : (momentU exC [("y", 1)] 1 []).isOk = false := by decide +kernel
  rw [h] at this
  cases this

end Polar.Merge
