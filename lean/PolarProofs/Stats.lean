import Mathlib.Tactic
import Mathlib.Data.Nat.Choose.Sum
import Mathlib.Algebra.Order.BigOperators.Ring.Finset
import Mathlib.Algebra.BigOperators.Fin
import Mathlib.RingTheory.PowerSeries.Derivative
import Polar.Stats

/-!
  C11 — central moments, cumulants and tail bounds of a finitely supported law.

  Model  (`Polar/Stats.lean`): `rawToCentral`, `rawToCumulant`, `markovBounds`, `markovMin`,
                              `secondMomentLower` — what `utils/statistics.py` and the goal handlers compute.
  Spec   (`Polar/Stats.lean`): `centralSpec`, `cumulantSpec`, `probGe`, `probGt` of a `Law`
                              (list of (probability, value) over ℚ).

  Property theorems: `central_correct` (all orders ≥ 1), `centralSpec_one`,
  `cumulant_correct`, `cumulant_recursion_correct`, `cumulant_is_log_mgf`, `cumulant_one/two/three/four`,
  `markov`, `markov_min`, `second_moment_lower`, `probHermite_eq_heSpec`, `gaussInt_heSpec_succ`,
  `gc_integrates_to_one`; finite tables: `hermite_table`,
  `gauss_hermite_table`.
-/

open Polar.Stats Finset

namespace StatsP

/-! ### bridges from the list-recursive model functions to `Finset` sums -/

lemma sumTo_eq (f : ℕ → ℚ) (n : ℕ) : sumTo f n = ∑ j ∈ range n, f j := by
  induction n with
  | zero => simp [sumTo]
  | succ n ih => rw [sumTo, ih, Finset.sum_range_succ]

lemma fact_eq (n : ℕ) : fact n = n.factorial := by
  induction n with
  | zero => rfl
  | succ n ih => rw [fact, ih, Nat.factorial_succ]

/-- the code's `comb` is the binomial coefficient -/
lemma comb_eq (n k : ℕ) : comb n k = n.choose k := by
  unfold comb
  split_ifs with h
  · exact (Nat.choose_eq_zero_of_lt h).symm
  · rw [fact_eq, fact_eq, fact_eq, Nat.choose_eq_factorial_div_factorial (by omega)]

lemma list_range_sum (g : ℕ → ℚ) (n : ℕ) : ((List.range n).map g).sum = ∑ j ∈ range n, g j := by
  induction n with
  | zero => simp
  | succ n ih => rw [List.range_succ, List.map_append, List.sum_append, ih, Finset.sum_range_succ]; simp

lemma E_eq_sum (d : Law) (f : ℚ → ℚ) : d.E f = ∑ i : Fin d.length, d[i.1].1 * f d[i.1].2 := by
  have h : d.E f = (d.map (fun pv => pv.1 * f pv.2)).sum := by
    induction d with
    | nil => simp [Law.E]
    | cons a t ih => obtain ⟨p, v⟩ := a; simp [Law.E, ih]
  rw [h, ← Fin.sum_univ_fun_getElem]

lemma E_mono (d : Law) (hp : ∀ pv ∈ d, 0 ≤ pv.1) (f g : ℚ → ℚ)
    (h : ∀ pv ∈ d, f pv.2 ≤ g pv.2) : d.E f ≤ d.E g := by
  rw [E_eq_sum, E_eq_sum]
  refine Finset.sum_le_sum fun i _ => ?_
  have hm : d[i.1] ∈ d := List.getElem_mem _
  exact mul_le_mul_of_nonneg_left (h _ hm) (hp _ hm)

lemma E_mul_const (d : Law) (f : ℚ → ℚ) (c : ℚ) : d.E (fun v => f v * c) = d.E f * c := by
  rw [E_eq_sum, E_eq_sum, Finset.sum_mul]
  refine Finset.sum_congr rfl fun i _ => ?_
  ring

lemma moment_zero (d : Law) : d.moment 0 = d.mass := by
  simp [Law.moment, Law.mass]

lemma mAt_moments_pos (d : Law) (N j : ℕ) (h1 : 1 ≤ j) (hj : j ≤ N) :
    mAt (d.moments N) j = d.moment j := by
  unfold mAt
  have h : j ≠ 0 := by omega
  have : j - 1 < N := by omega
  simp only [h, if_false]
  simp [Law.moments, List.getD, this]
  congr 1; omega

lemma mAt_moments (d : Law) (hmass : d.mass = 1) (N j : ℕ) (hj : j ≤ N) :
    mAt (d.moments N) j = d.moment j := by
  rcases Nat.eq_zero_or_pos j with h | h
  · subst h; rw [moment_zero, hmass]; rfl
  · exact mAt_moments_pos d N j h hj

lemma moments_length (d : Law) (N : ℕ) : (d.moments N).length = N := by simp [Law.moments]

/-! ### central moments -/

/-- binomial theorem in expectation form -/
lemma central_binomial (d : Law) (k : ℕ) (μ : ℚ) :
    d.E (fun v => (v - μ) ^ k)
      = ∑ j ∈ range (k + 1), (k.choose j : ℚ) * (-1) ^ (k - j) * d.moment j * μ ^ (k - j) := by
  simp only [Law.moment, E_eq_sum]
  have : ∀ v : ℚ, (v - μ) ^ k = ∑ j ∈ range (k + 1), v ^ j * (-μ) ^ (k - j) * (k.choose j : ℚ) := by
    intro v; rw [sub_eq_add_neg, add_pow]
  simp_rw [this, Finset.mul_sum]
  rw [Finset.sum_comm]
  refine Finset.sum_congr rfl fun j _ => ?_
  rw [Finset.sum_mul]
  refine Finset.sum_congr rfl fun i _ => ?_
  rw [neg_pow μ]; ring

lemma rawToCentral_getD (ms : List ℚ) (k : ℕ) (h1 : 1 ≤ k) (hk : k ≤ ms.length) :
    (rawToCentral ms).getD (k - 1) 0 = centralOf (mAt ms) k := by
  have : k - 1 < ms.length := by omega
  simp [rawToCentral, List.getD, this]
  congr 1; omega

/-- the first central moment of a law is 0 -/
theorem centralSpec_one (d : Law) (hmass : d.mass = 1) : centralSpec d 1 = 0 := by
  unfold centralSpec
  rw [central_binomial]
  simp [Finset.sum_range_succ, moment_zero, hmass, Law.mean]

/-- **C11 central moments** (full statement): for every finitely supported law of total mass 1 and
    every order 1 ≤ k ≤ N, the k-th entry of `raw_moments_to_centrals(raw moments of the law)` is
    `E (X − E X)^k`.  (Weights need not be non-negative.)  Order 1 is the special case `centrals[1] = 0`
    of the code (repaired in /repo commit d65f6a5; before, the code returned the mean — finding F8, see
    `central_old_code_counterexample`), orders ≥ 2 are the binomial theorem. -/
theorem central_correct (d : Law) (hmass : d.mass = 1) (N k : ℕ) (hk : 1 ≤ k) (hkN : k ≤ N) :
    (rawToCentral (d.moments N)).getD (k - 1) 0 = centralSpec d k := by
  rw [rawToCentral_getD _ k hk (by rw [moments_length]; exact hkN)]
  by_cases h1 : k = 1
  · subst h1
    rw [centralSpec_one d hmass]
    simp [centralOf]
  · unfold centralOf centralSpec
    simp only [h1, if_false]
    rw [sumTo_eq, central_binomial]
    refine Finset.sum_congr rfl fun j hj => ?_
    have hj' : j ≤ N := by have := Finset.mem_range.mp hj; omega
    unfold centralTerm
    rw [comb_eq, mAt_moments d hmass N j hj', mAt_moments d hmass N 1 (by omega)]
    rfl

-- non-vacuity: a law of mass 1 (mean 1 ≠ 0) with N = 4: order 1 gives 0 = 0, order 3 gives 3/2 = 3/2
example : let d : Law := [(1/2, 0), (1/4, 1), (1/4, 3)]
    d.mass = 1 ∧ d.mean = 1 ∧
      (rawToCentral (d.moments 4)).getD (1 - 1) 0 = 0 ∧ centralSpec d 1 = 0 ∧
      (rawToCentral (d.moments 4)).getD (3 - 1) 0 = 3/2 ∧ centralSpec d 3 = 3/2 := by
  decide +kernel

/-- Regression witness for the repaired finding F8: the *old* code (`centrals = {1: moments[1]}`)
    returned the mean at order 1, which differs from the first central moment for every law with
    non-zero mean — e.g. a fair coin on {0, 2} (old value 1, exact value 0). -/
theorem central_old_code_counterexample :
    let d : Law := [(1/2, 0), (1/2, 2)]
    d.mass = 1 ∧ (∀ pv ∈ d, 0 ≤ pv.1) ∧ mAt (d.moments 1) 1 = 1 ∧ centralSpec d 1 = 0
      ∧ (rawToCentral (d.moments 1)).getD 0 0 = 0 := by
  decide +kernel

/-! ### cumulants -/

/-- the specification recursion in `Finset` form:
    `κ_{n+1} = m_{n+1} − Σ_{j<n} C(n,j) κ_{j+1} m_{n−j}` -/
lemma cumulantOfMoments_succ (m : ℕ → ℚ) (n : ℕ) :
    cumulantOfMoments m (n + 1)
      = m (n + 1) - ∑ j ∈ range n, (n.choose j : ℚ) * cumulantOfMoments m (j + 1) * m (n - j) := by
  rw [cumulantOfMoments]
  congr 1
  rw [← list_range_sum]
  have : ∀ (l : List ℕ) (g : ℕ → ℚ), (l.attach.map (fun j => g j.1)).sum = (l.map g).sum := by
    intro l g; rw [List.attach_map_val]
  rw [← this]
  simp only [comb_eq]

lemma cumList_length (m : ℕ → ℚ) (n : ℕ) : (cumList m n).length = n := by
  induction n with
  | zero => rfl
  | succ n ih => simp [cumList, ih]

/-- the dict built by the code's loop holds the specification cumulants of the moment sequence -/
lemma cumList_getD (m : ℕ → ℚ) (n j : ℕ) (hj : j < n) :
    (cumList m n).getD j 0 = cumulantOfMoments m (j + 1) := by
  induction n generalizing j with
  | zero => omega
  | succ n ih =>
    rw [cumList]
    by_cases h : j < n
    · rw [List.getD_append _ _ _ _ (by rw [cumList_length]; exact h)]; exact ih j h
    · have hjn : j = n := by omega
      subst hjn
      rw [List.getD_append_right _ _ _ _ (by rw [cumList_length])]
      simp only [cumList_length, Nat.sub_self, List.getD_cons_zero]
      rw [cumulantOfMoments_succ, cumStep, cumList_length, sumTo_eq]
      simp only [Nat.add_sub_cancel]
      congr 1
      refine Finset.sum_congr rfl fun k hk => ?_
      have hk' : k < j := Finset.mem_range.mp hk
      rw [ih k hk', comb_eq]
      congr 2
      omega

/-- `cumulantOfMoments m k` reads `m` only at 1..k -/
lemma cumulantOfMoments_congr (m m' : ℕ → ℚ) (k : ℕ) (h : ∀ j, 1 ≤ j → j ≤ k → m j = m' j) :
    cumulantOfMoments m k = cumulantOfMoments m' k := by
  induction k using Nat.strong_induction_on with
  | _ k ih =>
    rcases k with _ | n
    · simp [cumulantOfMoments]
    · rw [cumulantOfMoments_succ, cumulantOfMoments_succ, h (n + 1) (by omega) le_rfl]
      congr 1
      refine Finset.sum_congr rfl fun j hj => ?_
      have hj' : j < n := Finset.mem_range.mp hj
      rw [ih (j + 1) (by omega) (fun i h1 h2 => h i h1 (by omega)), h (n - j) (by omega) (by omega)]

/-- **C11 cumulants**: for every finitely supported (signed) law and every order 1 ≤ k ≤ N, the
    k-th entry of `raw_moments_to_cumulants(raw moments of the law)` is the k-th cumulant of the law
    (defined by the moment–cumulant recursion, equivalently `K = log M`, see `cumulant_is_log_mgf`). -/
theorem cumulant_correct (d : Law) (N k : ℕ) (h1 : 1 ≤ k) (hkN : k ≤ N) :
    (rawToCumulant (d.moments N)).getD (k - 1) 0 = cumulantSpec d k := by
  unfold rawToCumulant cumulantSpec
  rw [moments_length, cumList_getD _ N (k - 1) (by omega)]
  have : k - 1 + 1 = k := by omega
  rw [this]
  exact cumulantOfMoments_congr _ _ k fun j hj1 hjk => mAt_moments_pos d N j hj1 (by omega)

example : let d : Law := [(1/2, 0), (1/4, 1), (1/4, 3)]
    (rawToCumulant (d.moments 4)).getD (4 - 1) 0 = -9/4 ∧ cumulantSpec d 4 = -9/4 := by
  decide +kernel

/-- **moment–cumulant recursion on the code's output**, for an arbitrary raw-moment vector
    `[m₁..m_N]` (symbolic vectors evaluate to such): with `κ_j` the j-th returned entry,
    `κ_n = m_n − Σ_{j=1}^{n−1} C(n−1, j−1) κ_j m_{n−j}` for every order 1 ≤ n ≤ N. -/
theorem cumulant_recursion_correct (ms : List ℚ) (n : ℕ) (h1 : 1 ≤ n) (hn : n ≤ ms.length) :
    (rawToCumulant ms).getD (n - 1) 0
      = mAt ms n - ∑ j ∈ Finset.Ico 1 n,
          ((n - 1).choose (j - 1) : ℚ) * (rawToCumulant ms).getD (j - 1) 0 * mAt ms (n - j) := by
  obtain ⟨n, rfl⟩ : ∃ n', n = n' + 1 := ⟨n - 1, by omega⟩
  unfold rawToCumulant
  rw [cumList_getD _ _ _ (by omega), Nat.add_sub_cancel, cumulantOfMoments_succ]
  congr 1
  rw [Finset.range_eq_Ico, Finset.sum_Ico_eq_sum_range, Finset.sum_Ico_eq_sum_range]
  simp only [Nat.sub_zero, Nat.add_sub_cancel]
  refine Finset.sum_congr rfl fun j hj => ?_
  have hj' : j < n := Finset.mem_range.mp hj
  rw [zero_add, cumList_getD _ _ (1 + j - 1) (by omega)]
  have e1 : 1 + j - 1 = j := by omega
  have e2 : n + 1 - (1 + j) = n - j := by omega
  rw [e1, e2]

example : ∃ ms : List ℚ, 1 ≤ 3 ∧ 3 ≤ ms.length := ⟨[1, 2, 3], by decide, by decide⟩

/-- moments from cumulants: `m_{n+1} = Σ_{j=0}^{n} C(n,j) κ_{j+1} m_{n−j}` -/
lemma moment_from_cumulants (m : ℕ → ℚ) (h0 : m 0 = 1) (n : ℕ) :
    m (n + 1) = ∑ j ∈ range (n + 1), (n.choose j : ℚ) * cumulantOfMoments m (j + 1) * m (n - j) := by
  rw [Finset.sum_range_succ, cumulantOfMoments_succ m n]
  simp [h0]

open PowerSeries in
/-- exponential generating function `Σ a_n t^n / n!` -/
noncomputable def egf (a : ℕ → ℚ) : ℚ⟦X⟧ := PowerSeries.mk fun n => a n / (n.factorial : ℚ)

open PowerSeries in
/-- **the specification cumulants are the logarithmic derivative of the moment generating
    function**: `M'(t) = K'(t) · M(t)` in ℚ⟦t⟧, where `M = Σ m_n tⁿ/n!` (m₀ = 1) and
    `K = Σ κ_n tⁿ/n!` — i.e. `K = log M`. -/
theorem cumulant_is_log_mgf (m : ℕ → ℚ) (h0 : m 0 = 1) :
    d⁄dX ℚ (egf m) = d⁄dX ℚ (egf (cumulantOfMoments m)) * egf m := by
  ext n
  rw [coeff_mul, Finset.Nat.sum_antidiagonal_eq_sum_range_succ
    (fun i j => coeff i (d⁄dX ℚ (egf (cumulantOfMoments m))) * coeff j (egf m))]
  simp only [coeff_derivative, egf, coeff_mk]
  rw [moment_from_cumulants m h0 n, Finset.sum_div, Finset.sum_mul]
  refine Finset.sum_congr rfl fun j hj => ?_
  have hj' : j ≤ n := Nat.lt_succ_iff.mp (Finset.mem_range.mp hj)
  have hc : ((n.choose j : ℕ) : ℚ) * (j.factorial : ℚ) * ((n - j).factorial : ℚ) = (n.factorial : ℚ) := by
    exact_mod_cast Nat.choose_mul_factorial_mul_factorial hj'
  have hn : ((n + 1).factorial : ℚ) = ((n : ℚ) + 1) * (n.factorial : ℚ) := by
    rw [Nat.factorial_succ]; push_cast; ring
  have hjf : ((j + 1).factorial : ℚ) = ((j : ℚ) + 1) * (j.factorial : ℚ) := by
    rw [Nat.factorial_succ]; push_cast; ring
  rw [hn, hjf, ← hc]
  have h1 : (j.factorial : ℚ) ≠ 0 := by positivity
  have h2 : ((n - j).factorial : ℚ) ≠ 0 := by positivity
  have h3 : ((n.choose j : ℕ) : ℚ) ≠ 0 := by
    exact_mod_cast (Nat.choose_pos hj').ne'
  have h4 : ((n : ℚ) + 1) ≠ 0 := by positivity
  have h5 : ((j : ℚ) + 1) ≠ 0 := by positivity
  field_simp

example : ∃ m : ℕ → ℚ, m 0 = 1 := ⟨fun _ => 1, rfl⟩

lemma kappa1 (m : ℕ → ℚ) : cumulantOfMoments m 1 = m 1 := by
  rw [show (1 : ℕ) = 0 + 1 from rfl, cumulantOfMoments_succ]; simp

lemma kappa2 (m : ℕ → ℚ) : cumulantOfMoments m 2 = m 2 - m 1 ^ 2 := by
  rw [show (2 : ℕ) = 1 + 1 from rfl, cumulantOfMoments_succ]
  simp only [Finset.sum_range_succ, Finset.sum_range_zero, zero_add, kappa1]
  norm_num [Nat.choose]; ring

lemma kappa3 (m : ℕ → ℚ) : cumulantOfMoments m 3 = m 3 - 3 * m 2 * m 1 + 2 * m 1 ^ 3 := by
  rw [show (3 : ℕ) = 2 + 1 from rfl, cumulantOfMoments_succ]
  simp only [Finset.sum_range_succ, Finset.sum_range_zero, zero_add, kappa1]
  norm_num [Nat.choose, kappa2]; ring

lemma kappa4 (m : ℕ → ℚ) : cumulantOfMoments m 4
    = m 4 - 4 * m 3 * m 1 - 3 * m 2 ^ 2 + 12 * m 2 * m 1 ^ 2 - 6 * m 1 ^ 4 := by
  rw [show (4 : ℕ) = 3 + 1 from rfl, cumulantOfMoments_succ]
  simp only [Finset.sum_range_succ, Finset.sum_range_zero, zero_add, kappa1]
  norm_num [Nat.choose, kappa2, kappa3]; ring

/-- κ₁ is the mean -/
theorem cumulant_one (d : Law) : cumulantSpec d 1 = d.mean := by
  unfold cumulantSpec; rw [kappa1]; rfl

/-- κ₂ is the variance -/
theorem cumulant_two (d : Law) (hmass : d.mass = 1) : cumulantSpec d 2 = centralSpec d 2 := by
  unfold cumulantSpec centralSpec
  rw [central_binomial, kappa2]
  simp only [Finset.sum_range_succ, Finset.sum_range_zero, moment_zero, hmass, Law.mean]
  norm_num [Nat.choose]
  ring

/-- κ₃ is the third central moment -/
theorem cumulant_three (d : Law) (hmass : d.mass = 1) : cumulantSpec d 3 = centralSpec d 3 := by
  unfold cumulantSpec centralSpec
  rw [central_binomial, kappa3]
  simp only [Finset.sum_range_succ, Finset.sum_range_zero, moment_zero, hmass, Law.mean]
  norm_num [Nat.choose]
  ring

/-- κ₄ = μ₄ − 3 μ₂² -/
theorem cumulant_four (d : Law) (hmass : d.mass = 1) :
    cumulantSpec d 4 = centralSpec d 4 - 3 * centralSpec d 2 ^ 2 := by
  unfold cumulantSpec centralSpec
  rw [central_binomial, central_binomial, kappa4]
  simp only [Finset.sum_range_succ, Finset.sum_range_zero, moment_zero, hmass, Law.mean]
  norm_num [Nat.choose]
  ring

example : ∃ d : Law, d.mass = 1 := ⟨[(1, 0)], by decide +kernel⟩

/-! ### tail bounds -/

theorem markov_core (d : Law) (hnn : ∀ pv ∈ d, 0 ≤ pv.1 ∧ 0 ≤ pv.2) (a : ℚ) (ha : 0 < a) (k : ℕ) :
    probGe d a ≤ d.moment k / a ^ k := by
  have hak : 0 < a ^ k := pow_pos ha k
  rw [le_div_iff₀ hak, probGe, ← E_mul_const, Law.moment]
  refine E_mono d (fun pv h => (hnn pv h).1) _ _ fun pv h => ?_
  by_cases hv : a ≤ pv.2
  · simp only [hv, if_true, one_mul]
    exact pow_le_pow_left₀ ha.le hv k
  · simp only [hv, if_false, zero_mul]
    exact pow_nonneg (hnn pv h).2 k

lemma mem_markovBoundsFrom (a : ℚ) (ms : List ℚ) (k : ℕ) (b : ℚ) (hb : b ∈ markovBoundsFrom a k ms) :
    ∃ i, ∃ h : i < ms.length, b = ms[i] / a ^ (k + i) := by
  induction ms generalizing k with
  | nil => simp [markovBoundsFrom] at hb
  | cons m t ih =>
    rw [markovBoundsFrom, List.mem_cons] at hb
    rcases hb with rfl | hb
    · exact ⟨0, by simp, by simp⟩
    · obtain ⟨i, hi, rfl⟩ := ih (k + 1) hb
      refine ⟨i + 1, by simp [hi], ?_⟩
      simp only [List.getElem_cons_succ]
      congr 2; omega

/-- **C11 upper tail bound (Markov)**: for a finitely supported law with non-negative weights and
    non-negative values ("Assuming M is non-negative") and a > 0, *every* bound that
    `handle_tail_bound_upper_goal` lists for `P(M >= a)` — `E(M^k)/a^k`, k = 1..N — is valid. -/
theorem markov (d : Law) (hnn : ∀ pv ∈ d, 0 ≤ pv.1 ∧ 0 ≤ pv.2) (a : ℚ) (ha : 0 < a) (N : ℕ) :
    ∀ b ∈ markovBounds (d.moments N) a, probGe d a ≤ b := by
  intro b hb
  obtain ⟨i, hi, rfl⟩ := mem_markovBoundsFrom a _ 1 b hb
  rw [moments_length] at hi
  have : (d.moments N)[i] = d.moment (1 + i) := by
    simp [Law.moments]; congr 1; omega
  rw [this]
  exact markov_core d hnn a ha (1 + i)

lemma foldl_min_mem (b : ℚ) (t : List ℚ) :
    t.foldl (fun acc x => if x < acc then x else acc) b ∈ b :: t := by
  induction t generalizing b with
  | nil => simp
  | cons x t ih =>
    simp only [List.foldl_cons]
    have := ih (if x < b then x else b)
    split_ifs at this ⊢ with h
    · simp only [List.mem_cons] at this ⊢; tauto
    · simp only [List.mem_cons] at this ⊢; tauto

/-- the minimum that `--at_n` prints is one of the listed bounds, hence valid -/
theorem markov_min (d : Law) (hnn : ∀ pv ∈ d, 0 ≤ pv.1 ∧ 0 ≤ pv.2) (a : ℚ) (ha : 0 < a) (N : ℕ)
    (hN : 1 ≤ N) : probGe d a ≤ markovMin (d.moments N) a := by
  unfold markovMin
  have hne : markovBounds (d.moments N) a ≠ [] := by
    obtain ⟨n, rfl⟩ : ∃ n, N = n + 1 := ⟨N - 1, by omega⟩
    simp [markovBounds, Law.moments, List.range_succ_eq_map, markovBoundsFrom]
  have hall := markov d hnn a ha N
  match hm : markovBounds (d.moments N) a with
  | [] => exact absurd hm hne
  | b :: t =>
    simp only
    rw [hm] at hall
    exact hall _ (foldl_min_mem b t)

-- non-vacuity: non-negative law, a = 2 > 0, N = 2; P(X ≥ 2) = 1/4 ≤ min(1/2, 5/8)
example : let d : Law := [(1/2, 0), (1/4, 1), (1/4, 3)]
    (∀ pv ∈ d, 0 ≤ pv.1 ∧ 0 ≤ pv.2) ∧ probGe d 2 = 1/4 ∧ markovBounds (d.moments 2) 2 = [1/2, 5/8]
      ∧ markovMin (d.moments 2) 2 = 1/2 := by
  decide +kernel

/-- **C11 lower tail bound** (`handle_tail_bound_lower_goal`; Paley–Zygmund at θ = 0 for Y = M − a,
    by Cauchy–Schwarz): for a law (weights ≥ 0, total mass 1) with `M − a ≥ 0` everywhere
    ("Assuming M − a is non-negative"), `(E M − a)² / (E M² − 2a·E M + a²) ≤ P(M > a)`.
    (When the denominator vanishes — M = a almost surely — the model value is 0 (ℚ's `x/0 = 0`) and
    the statement is trivially true; the code prints `nan` there.) -/
theorem second_moment_lower (d : Law) (a : ℚ) (hp : ∀ pv ∈ d, 0 ≤ pv.1) (hv : ∀ pv ∈ d, a ≤ pv.2)
    (hmass : d.mass = 1) :
    secondMomentLower (d.moment 1) (d.moment 2) a ≤ probGt d a := by
  unfold secondMomentLower
  have hm : ∀ i : Fin d.length, d[i.1] ∈ d := fun i => List.getElem_mem _
  have hM : ∑ i : Fin d.length, d[i.1].1 = 1 := by
    rw [← hmass, Law.mass, E_eq_sum]; simp
  have h1 : d.moment 1 - a = ∑ i : Fin d.length, d[i.1].1 * (d[i.1].2 - a) := by
    simp only [mul_sub, Finset.sum_sub_distrib, ← Finset.sum_mul, hM, Law.moment, E_eq_sum, pow_one,
      one_mul]
  have h2 : d.moment 2 - 2 * a * d.moment 1 + a ^ 2
      = ∑ i : Fin d.length, d[i.1].1 * (d[i.1].2 - a) ^ 2 := by
    have e : ∀ i : Fin d.length, d[i.1].1 * (d[i.1].2 - a) ^ 2
        = d[i.1].1 * d[i.1].2 ^ 2 - 2 * a * (d[i.1].1 * d[i.1].2 ^ 1) + d[i.1].1 * a ^ 2 := by
      intro i; ring
    simp only [e, Finset.sum_add_distrib, Finset.sum_sub_distrib, ← Finset.sum_mul, ← Finset.mul_sum,
      hM, Law.moment, E_eq_sum, one_mul]
  have hP : probGt d a = ∑ i : Fin d.length, d[i.1].1 * (if a < d[i.1].2 then 1 else 0) := by
    rw [probGt, E_eq_sum]
  have hPnn : 0 ≤ probGt d a := by
    rw [hP]; refine Finset.sum_nonneg fun i _ => mul_nonneg (hp _ (hm i)) ?_
    split_ifs <;> norm_num
  rw [h1, h2]
  have hD : 0 ≤ ∑ i : Fin d.length, d[i.1].1 * (d[i.1].2 - a) ^ 2 :=
    Finset.sum_nonneg fun i _ => mul_nonneg (hp _ (hm i)) (sq_nonneg _)
  rcases hD.eq_or_lt with h0 | hpos
  · rw [← h0, div_zero]; exact hPnn
  · rw [div_le_iff₀ hpos, hP]
    refine Finset.sum_sq_le_sum_mul_sum_of_sq_le_mul _ (fun i _ => ?_) (fun i _ => ?_) (fun i _ => ?_)
    · refine mul_nonneg (hp _ (hm i)) ?_; split_ifs <;> norm_num
    · exact mul_nonneg (hp _ (hm i)) (sq_nonneg _)
    · by_cases hlt : a < d[i.1].2
      · simp only [hlt, if_true]; apply le_of_eq; ring
      · have : d[i.1].2 = a := le_antisymm (not_lt.mp hlt) (hv _ (hm i))
        simp [this]

-- non-vacuity: weights ≥ 0, mass 1, values ≥ a = 0; bound 2/5 ≤ P(X > 0) = 1/2
example : let d : Law := [(1/2, 0), (1/4, 1), (1/4, 3)]
    (∀ pv ∈ d, 0 ≤ pv.1) ∧ (∀ pv ∈ d, (0 : ℚ) ≤ pv.2) ∧ d.mass = 1
      ∧ secondMomentLower (d.moment 1) (d.moment 2) 0 = 2/5 ∧ probGt d 0 = 1/2 := by
  decide +kernel

/-- the non-negativity assumption is needed: for X ≡ 0 and a = 1 the "bound" is 1 but P(X > 1) = 0 -/
theorem second_moment_lower_needs_assumption :
    let d : Law := [(1, 0)]
    d.mass = 1 ∧ secondMomentLower (d.moment 1) (d.moment 2) 1 = 1 ∧ probGt d 1 = 0 := by
  decide +kernel

/-! ### Hermite polynomials as coded -/

lemma getD_add (p q : UPoly) (j : ℕ) : (UPoly.add p q).getD j 0 = p.getD j 0 + q.getD j 0 := by
  induction p generalizing q j with
  | nil => simp [UPoly.add]
  | cons a p ih =>
    cases q with
    | nil => simp [UPoly.add]
    | cons b q =>
      cases j with
      | zero => simp [UPoly.add]
      | succ j => simp only [UPoly.add, List.getD_cons_succ]; exact ih q j

lemma length_add (p q : UPoly) : (UPoly.add p q).length = max p.length q.length := by
  induction p generalizing q with
  | nil => simp [UPoly.add]
  | cons a p ih =>
    cases q with
    | nil => simp [UPoly.add]
    | cons b q => simp [UPoly.add, ih]

lemma getD_scale (c : ℚ) (p : UPoly) (j : ℕ) : (UPoly.scale c p).getD j 0 = c * p.getD j 0 := by
  unfold UPoly.scale
  by_cases h : j < p.length
  · simp [List.getD, h]
  · simp [List.getD, h]

lemma length_scale (c : ℚ) (p : UPoly) : (UPoly.scale c p).length = p.length := by
  simp [UPoly.scale]

lemma getD_mulX (p : UPoly) (j : ℕ) :
    (UPoly.mulX p).getD j 0 = if j = 0 then 0 else p.getD (j - 1) 0 := by
  cases j with
  | zero => simp [UPoly.mulX]
  | succ j => simp [UPoly.mulX]

lemma length_physHermite (n : ℕ) : (physHermite n).length = n + 1 := by
  induction n using Nat.strong_induction_on with
  | _ n ih =>
    match n with
    | 0 => rfl
    | 1 => rfl
    | n + 2 =>
      rw [physHermite, length_add, length_scale, length_scale, UPoly.mulX, List.length_cons,
        ih (n + 1) (by omega), ih n (by omega)]
      omega

lemma length_heSpec (n : ℕ) : (heSpec n).length = n + 1 := by
  induction n using Nat.strong_induction_on with
  | _ n ih =>
    match n with
    | 0 => rfl
    | 1 => rfl
    | n + 2 =>
      rw [heSpec, length_add, length_scale, UPoly.mulX, List.length_cons,
        ih (n + 1) (by omega), ih n (by omega)]
      omega

/-- coefficients of the physicists' and the probabilists' Hermite polynomials -/
lemma phys_eq_pow_mul_he (n j : ℕ) :
    (physHermite n).getD j 0 = (2 : ℚ) ^ ((n + j) / 2) * (heSpec n).getD j 0 := by
  induction n using Nat.strong_induction_on generalizing j with
  | _ n ih =>
    match n with
    | 0 =>
      cases j with
      | zero => simp [physHermite, heSpec]
      | succ j => simp [physHermite, heSpec]
    | 1 =>
      match j with
      | 0 => simp [physHermite, heSpec]
      | 1 => simp [physHermite, heSpec]
      | j + 2 => simp [physHermite, heSpec]
    | n + 2 =>
      rw [physHermite, heSpec, getD_add, getD_add, getD_scale, getD_scale, getD_scale, getD_mulX,
        getD_mulX, ih n (by omega) j]
      have e2 : (n + 2 + j) / 2 = (n + j) / 2 + 1 := by omega
      rw [e2, pow_succ]
      cases j with
      | zero => simp; ring
      | succ j =>
        simp only [Nat.succ_ne_zero, if_false, Nat.add_sub_cancel]
        rw [ih (n + 1) (by omega) j]
        have e1 : (n + 1 + j) / 2 = (n + (j + 1)) / 2 := by congr 1; omega
        rw [e1]; ring

lemma length_map_zipIdxFrom {β : Type} (f : ℚ × ℕ → β) (l : List ℚ) (i : ℕ) :
    ((zipIdxFrom i l).map f).length = l.length := by
  induction l generalizing i with
  | nil => simp [zipIdxFrom]
  | cons a t ih => simp [zipIdxFrom, ih]

lemma getD_map_zipIdxFrom (f : ℚ × ℕ → ℚ) (l : List ℚ) (i j : ℕ) (h : j < l.length) :
    ((zipIdxFrom i l).map f).getD j 0 = f (l.getD j 0, i + j) := by
  induction l generalizing i j with
  | nil => simp at h
  | cons a t ih =>
    cases j with
    | zero => simp [zipIdxFrom]
    | succ j =>
      simp only [zipIdxFrom, List.map_cons, List.getD_cons_succ]
      rw [ih (i + 1) j (by simpa using h)]
      congr 2; omega

/-- **`prob_hermite_poly` as coded is the probabilists' Hermite polynomial, for every n**:
    `2^{-n/2} · H_n(x/√2)` expanded coefficient-wise equals `He_n` of the three-term recurrence
    `He_{n+2} = x·He_{n+1} − (n+1)·He_n` (which Gram–Charlier and Cornish–Fisher rely on). -/
theorem probHermite_eq_heSpec (n : ℕ) : probHermite n = heSpec n := by
  apply List.ext_getElem
  · rw [probHermite, length_map_zipIdxFrom, length_physHermite, length_heSpec]
  · intro j h1 h2
    have hj : j < (physHermite n).length := by
      rw [probHermite, length_map_zipIdxFrom] at h1; exact h1
    rw [List.getElem_eq_getD (h := h1) 0, List.getElem_eq_getD (h := h2) 0, probHermite,
      getD_map_zipIdxFrom _ _ _ _ hj, phys_eq_pow_mul_he]
    simp only [zero_add]
    have : (2 : ℚ) ^ ((n + j) / 2) ≠ 0 := by positivity
    field_simp

example : probHermite 5 = [0, 15, 0, -10, 0, 1] := by decide +kernel

/-! ### Gaussian orthogonality of He_n; the Gram–Charlier density integrates to one -/

/-- coefficient j of He_n -/
def he (n j : ℕ) : ℚ := (heSpec n).getD j 0

lemma he_rec (n j : ℕ) :
    he (n + 2) j = (if j = 0 then 0 else he (n + 1) (j - 1)) - ((n : ℚ) + 1) * he n j := by
  unfold he
  rw [heSpec, getD_add, getD_scale, getD_mulX]; ring

lemma he_vanish (n j : ℕ) (h : n < j) : he n j = 0 := by
  unfold he
  rw [List.getD_eq_default]
  rw [length_heSpec]; omega

lemma he_zero (j : ℕ) : he 0 j = if j = 0 then 1 else 0 := by
  cases j with
  | zero => simp [he, heSpec]
  | succ j => simp [he, heSpec]

lemma he_one (j : ℕ) : he 1 j = if j = 1 then 1 else 0 := by
  match j with
  | 0 => simp [he, heSpec]
  | 1 => simp [he, heSpec]
  | j + 2 => simp [he, heSpec]

/-- Appell property `He_{n+1}' = (n+1)·He_n`, coefficient-wise -/
lemma he_appell (n j : ℕ) : ((j : ℚ) + 1) * he (n + 1) (j + 1) = ((n : ℚ) + 1) * he n j := by
  induction n using Nat.strong_induction_on generalizing j with
  | _ n ih =>
    match n with
    | 0 =>
      rw [he_one, he_zero]
      cases j with
      | zero => simp
      | succ j => simp
    | 1 =>
      rw [he_rec, he_one, he_zero, he_one]
      match j with
      | 0 => simp
      | 1 => simp
      | j + 2 => simp
    | n + 2 =>
      -- (j+1) e(n+3)(j+1) = (j+1) e(n+2) j − (n+2)(j+1) e(n+1)(j+1)
      rw [he_rec (n + 1) (j + 1)]
      simp only [Nat.succ_ne_zero, if_false, Nat.add_sub_cancel]
      have a1 := ih (n + 1) (by omega) j      -- (j+1) e(n+2)(j+1) = (n+2) e(n+1) j
      have hrec := he_rec n j                 -- e(n+2) j = [j≥1] e(n+1)(j-1) − (n+1) e n j
      cases j with
      | zero =>
        simp only [if_true] at hrec
        push_cast at a1 hrec ⊢
        have a0 := ih n (by omega) 0
        push_cast at a0
        linear_combination (-(n:ℚ) - 2) * a0 + ((n:ℚ)+3) * 0 * hrec - ((n:ℚ) + 2) * hrec + (0:ℚ) * a1
      | succ j =>
        simp only [Nat.succ_ne_zero, if_false, Nat.add_sub_cancel] at hrec
        have a2 := ih (n + 1) (by omega) j    -- (j+1) e(n+2)(j+1) = (n+2) e(n+1) j
        have a3 := ih n (by omega) (j + 1)    -- (j+2) e(n+1)(j+2) = (n+1) e n (j+1)
        push_cast at a1 a2 a3 hrec ⊢
        linear_combination a2 - ((n:ℚ) + 2) * a3 - ((n:ℚ) + 2) * hrec + (0:ℚ) * a1

/-- parity: He_n has only coefficients with j ≡ n (mod 2) -/
lemma he_parity (n j : ℕ) (h : (n + j) % 2 = 1) : he n j = 0 := by
  induction n using Nat.strong_induction_on generalizing j with
  | _ n ih =>
    match n with
    | 0 => rw [he_zero]; have : j ≠ 0 := by omega
           simp [this]
    | 1 => rw [he_one]; have : j ≠ 1 := by omega
           simp [this]
    | n + 2 =>
      rw [he_rec, ih n (by omega) j (by omega)]
      cases j with
      | zero => simp
      | succ j =>
        simp only [Nat.succ_ne_zero, if_false, Nat.add_sub_cancel]
        rw [ih (n + 1) (by omega) j (by omega)]; ring

/-! Gaussian moment functional -/

lemma dfact_step (j : ℕ) : dfact (j + 1) = (j + 1) * dfact (j - 1) := by
  cases j with
  | zero => rfl
  | succ j => rw [show j + 1 + 1 = j + 2 from rfl, dfact]; simp

lemma gaussMoment_one_zero : gaussMoment 1 0 = 1 := by decide +kernel
lemma gaussMoment_odd (s2 : ℚ) (j : ℕ) (h : j % 2 = 1) : gaussMoment s2 j = 0 := by
  simp [gaussMoment, h]

lemma gaussMoment_step (j : ℕ) : gaussMoment 1 (j + 2) = ((j : ℚ) + 1) * gaussMoment 1 j := by
  unfold gaussMoment
  by_cases h : j % 2 = 1
  · have : (j + 2) % 2 = 1 := by omega
    simp [h, this]
  · have : ¬ (j + 2) % 2 = 1 := by omega
    simp only [h, this, if_false, one_pow, one_mul]
    rw [show j + 2 - 1 = j + 1 from rfl, dfact_step]; push_cast; ring

/-- `Σ_{j<N} p_j · ∫ y^j φ_{0,s2}` -/
def GI (s2 : ℚ) (p : UPoly) (N : ℕ) : ℚ := ∑ j ∈ range N, p.getD j 0 * gaussMoment s2 j

lemma foldr_zipIdxFrom (f : ℚ × ℕ → ℚ) (l : List ℚ) (i : ℕ) :
    ((zipIdxFrom i l).map f).foldr (· + ·) 0 = ∑ j ∈ range l.length, f (l.getD j 0, i + j) := by
  induction l generalizing i with
  | nil => simp [zipIdxFrom]
  | cons a t ih =>
    simp only [zipIdxFrom, List.map_cons, List.foldr_cons, List.length_cons]
    rw [ih (i + 1), Finset.sum_range_succ']
    simp only [List.getD_cons_succ, List.getD_cons_zero, Nat.add_zero]
    rw [add_comm]
    congr 1
    refine Finset.sum_congr rfl fun j _ => ?_
    congr 2; omega

lemma GI_extend (s2 : ℚ) (p : UPoly) (N : ℕ) (h : p.length ≤ N) : GI s2 p N = GI s2 p p.length := by
  unfold GI
  symm
  refine Finset.sum_subset (Finset.range_mono h) fun j _ hj => ?_
  have : p.length ≤ j := by simpa using hj
  rw [List.getD_eq_default _ _ this, zero_mul]

lemma gaussInt_eq_GI (s2 : ℚ) (p : UPoly) (N : ℕ) (h : p.length ≤ N) : gaussInt s2 p = GI s2 p N := by
  rw [GI_extend s2 p N h, gaussInt, foldr_zipIdxFrom]
  unfold GI
  refine Finset.sum_congr rfl fun j _ => ?_
  simp

lemma gaussInt_add (s2 : ℚ) (p q : UPoly) :
    gaussInt s2 (UPoly.add p q) = gaussInt s2 p + gaussInt s2 q := by
  rw [gaussInt_eq_GI s2 _ (max p.length q.length) (by rw [length_add]),
    gaussInt_eq_GI s2 p (max p.length q.length) (le_max_left _ _),
    gaussInt_eq_GI s2 q (max p.length q.length) (le_max_right _ _)]
  unfold GI
  rw [← Finset.sum_add_distrib]
  refine Finset.sum_congr rfl fun j _ => ?_
  rw [getD_add]; ring

/-- **orthogonality to constants**: `∫ He_{n+1} φ = 0` for every n -/
theorem gaussInt_heSpec_succ (n : ℕ) : gaussInt 1 (heSpec (n + 1)) = 0 := by
  rw [gaussInt_eq_GI 1 _ (n + 2) (by rw [length_heSpec])]
  unfold GI
  change ∑ j ∈ range (n + 2), he (n + 1) j * gaussMoment 1 j = 0
  match n with
  | 0 =>
    simp only [Nat.zero_add, Finset.sum_range_succ, Finset.sum_range_zero, he_one]
    simp [gaussMoment_odd 1 1 rfl]
  | m + 1 =>
    -- K = m + 1
    have hA : ∑ j ∈ range (m + 3), (if j = 0 then 0 else he (m + 1) (j - 1)) * gaussMoment 1 j
        = ((m : ℚ) + 1) * ∑ i ∈ range (m + 1), he m i * gaussMoment 1 i := by
      rw [Finset.sum_range_succ', Finset.sum_range_succ']
      simp only [Nat.succ_ne_zero, if_false, if_true, Nat.add_sub_cancel, zero_mul, add_zero]
      rw [gaussMoment_odd 1 (0 + 1) rfl, mul_zero, add_zero, Finset.mul_sum]
      refine Finset.sum_congr rfl fun i _ => ?_
      rw [gaussMoment_step]
      have := he_appell m i
      linear_combination (gaussMoment 1 i) * this
    have hB : ∑ j ∈ range (m + 3), he m j * gaussMoment 1 j
        = ∑ i ∈ range (m + 1), he m i * gaussMoment 1 i := by
      rw [Finset.sum_range_succ, Finset.sum_range_succ, he_vanish m (m + 1) (by omega),
        he_vanish m (m + 2) (by omega)]
      ring
    have : ∀ j, he (m + 1 + 1) j * gaussMoment 1 j
        = (if j = 0 then 0 else he (m + 1) (j - 1)) * gaussMoment 1 j
          - ((m : ℚ) + 1) * (he m j * gaussMoment 1 j) := by
      intro j; rw [he_rec]; ring
    simp only [this, Finset.sum_sub_distrib, ← Finset.mul_sum]
    rw [hA, hB]; ring

lemma length_gcSummand (ks : List ℚ) (i : ℕ) : (gcSummand ks i).length = i + 1 := by
  unfold gcSummand
  simp only
  rw [length_map_zipIdxFrom, probHermite_eq_heSpec, length_heSpec]

lemma getD_gcSummand (ks : List ℚ) (i j : ℕ) (h : j < i + 1) :
    (gcSummand ks i).getD j 0
      = ceBell (gcBellArg ks) i / (fact i : ℚ) * he i j / (gcSigma2 ks) ^ ((i + j) / 2) := by
  unfold gcSummand
  simp only
  rw [getD_map_zipIdxFrom _ _ _ _ (by rw [probHermite_eq_heSpec, length_heSpec]; exact h),
    probHermite_eq_heSpec]
  simp only [zero_add]
  rfl

/-- each correction term of the Gram–Charlier polynomial integrates to 0 against the Gaussian -/
lemma gaussInt_gcSummand (ks : List ℚ) (i : ℕ) (hi : 1 ≤ i) (hs : gcSigma2 ks ≠ 0) :
    gaussInt (gcSigma2 ks) (gcSummand ks i) = 0 := by
  obtain ⟨n, rfl⟩ : ∃ n, i = n + 1 := ⟨i - 1, by omega⟩
  have h0 := gaussInt_heSpec_succ n
  rw [gaussInt_eq_GI 1 _ (n + 2) (by rw [length_heSpec])] at h0
  rw [gaussInt_eq_GI _ _ (n + 2) (by rw [length_gcSummand])]
  unfold GI at h0 ⊢
  set s2 := gcSigma2 ks with hs2
  set b := ceBell (gcBellArg ks) (n + 1) / (fact (n + 1) : ℚ) with hb
  have key : ∀ j ∈ range (n + 2), (gcSummand ks (n + 1)).getD j 0 * gaussMoment s2 j
      = b / s2 ^ ((n + 1) / 2) * ((heSpec (n + 1)).getD j 0 * gaussMoment 1 j) := by
    intro j hj
    rw [getD_gcSummand ks (n + 1) j (Finset.mem_range.mp hj)]
    change b * he (n + 1) j / s2 ^ ((n + 1 + j) / 2) * gaussMoment s2 j
      = b / s2 ^ ((n + 1) / 2) * (he (n + 1) j * gaussMoment 1 j)
    by_cases hjo : j % 2 = 1
    · rw [gaussMoment_odd _ j hjo, gaussMoment_odd _ j hjo]; ring
    · by_cases hio : (n + 1) % 2 = 1
      · rw [he_parity (n + 1) j (by omega)]; ring
      · have e : (n + 1 + j) / 2 = (n + 1) / 2 + j / 2 := by omega
        have hp1 : s2 ^ ((n + 1) / 2) ≠ 0 := pow_ne_zero _ hs
        have hp2 : s2 ^ (j / 2) ≠ 0 := pow_ne_zero _ hs
        simp only [gaussMoment, hjo, if_false, one_pow, one_mul]
        rw [e, pow_add]
        field_simp
  rw [Finset.sum_congr rfl key, ← Finset.mul_sum, h0, mul_zero]

lemma gaussInt_gcPolyFrom (ks : List ℚ) (i fuel : ℕ) (hi : 1 ≤ i) (hs : gcSigma2 ks ≠ 0) :
    gaussInt (gcSigma2 ks) (gcPolyFrom ks i fuel) = 1 := by
  induction fuel with
  | zero =>
    simp only [gcPolyFrom]
    rw [gaussInt_eq_GI _ _ 1 (by simp)]
    simp [GI, gaussMoment, dfact]
  | succ fuel ih =>
    rw [gcPolyFrom, gaussInt_add, ih, gaussInt_gcSummand ks (i + fuel) (by omega) hs, add_zero]

/-- **Gram–Charlier integrates to one, for every cumulant vector**: the polynomial factor of
    `GramCharlierExpansion(cumulants)()` as coded (any number of cumulants, κ₂ ≠ 0) has Gaussian
    integral 1 — `∫ poly_term(x) φ_{μ,σ}(x) dx = 1` with `∫ y^j φ_{0,σ²} = σ^j (j−1)!!`. -/
theorem gc_integrates_to_one (ks : List ℚ) (hs : gcSigma2 ks ≠ 0) :
    gaussInt (gcSigma2 ks) (gcPoly ks) = 1 :=
  gaussInt_gcPolyFrom ks 3 _ (by omega) hs

example : gcSigma2 [1/2, 3, 1/3, 2] ≠ 0 ∧ gcPoly [1/2, 3, 1/3, 2] = [37/36, -1/54, -1/54, 1/486, 1/972] := by
  decide +kernel

/-! ### finite tables (tests, not unbounded claims) -/

/-- `prob_hermite_poly(n)` as coded (`2^{-n/2} H_n(x/√2)`) is the probabilists' Hermite polynomial
    `He_n` of the three-term recurrence, n ≤ 12 -/
theorem hermite_table : ∀ n < 13, probHermite n = heSpec n := by decide +kernel

/-- `∫ He_n φ = 0` for 1 ≤ n ≤ 12 (why the Gram–Charlier density integrates to 1) and
    `∫ He_n² φ = n!` -/
theorem gauss_hermite_table :
    ∀ n < 13, gaussInt 1 (heSpec n) = (if n = 0 then 1 else 0) ∧
      gaussInt 1 (UPoly.mul (heSpec n) (heSpec n)) = (fact n : ℚ) := by
  decide +kernel

end StatsP
