/-
  PolarProofs/Limit.lean — soundness over ℝ of the executable limit rule `Polar.Limit.ratioLimit`
  (C09: the value reported for `--after_loop` is compared with the limit of the moment-given-termination
  sequence num(n)/den(n), both exponential polynomials with rational bases).

  Property theorems (for ARBITRARY input lists: not assumed combined, zero coefficients / zero bases allowed):

  * `ratioLimit_finite_sound`   : `ratioLimit num den = .finite v`  ⇒  num(n)/den(n) → v in ℝ.
  * `ratioLimit_infinite_sound` : `ratioLimit num den = .infinite`  ⇒  |num(n)/den(n)| → ∞.
    (The rule answers `.infinite` only when the dominant part of the combined numerator is a single term; an
    earlier version did not test this and judged num = 2^n + (−2)^n, den = 1 — zero at every odd n — `.infinite`;
    the repaired rule answers `.oscillates` there, see the `example` at the end.)
  * `ratioLimit_den_eventually_ne_zero` : in both cases den(n) ≠ 0 for all large n (the quotient is a genuine one).
  * `ratioLimit_undefinedDen_sound` : `.undefinedDen` ⇒ den(n) = 0 for every n ≥ 1 (NOT for n = 0: a term with
    base 0 and degree 0 contributes `coef · 0^0 = coef` at n = 0 and is dropped by `combine`).
  * `.oscillates` : no claim.

  Proof: `combine` does not change the value for n ≥ 1 (`expPolyEval_combine`) and leaves only terms with non-zero
  coefficient and base; if the dominant part of a list is the single term c·n^k·ρ^n, every other term t satisfies
  t(n)/(n^k ρ^n) → 0 (`term_div_dominant_tendsto_zero`), hence L(n)/(n^k ρ^n) → c (`dominant_tendsto`).
-/
import Polar.Limit
import Mathlib.Analysis.SpecificLimits.Normed
import Mathlib.Topology.Algebra.Order.Field
import Mathlib.Data.Prod.Lex

open Filter Topology Polar.LinAlg

namespace Polar.Limit

deriving instance DecidableEq for Verdict

/-! ### the analytic core -/

/-- **A term of smaller growth class is negligible**: if `|b| < |ρ|`, or `|b| = |ρ|` and `j < k`, then
`c·n^j·b^n / (n^k·ρ^n) → 0`. -/
theorem term_div_dominant_tendsto_zero (c b ρ : ℝ) (j k : ℕ) (hρ : ρ ≠ 0)
    (h : |b| < |ρ| ∨ (|b| = |ρ| ∧ j < k)) :
    Tendsto (fun n : ℕ => c * (n : ℝ) ^ j * b ^ n / ((n : ℝ) ^ k * ρ ^ n)) atTop (𝓝 0) := by
  have hρ' : 0 < |ρ| := abs_pos.mpr hρ
  have hnorm : ∀ n : ℕ, ‖c * (n : ℝ) ^ j * b ^ n / ((n : ℝ) ^ k * ρ ^ n)‖ =
      |c| * (n : ℝ) ^ j * |b| ^ n / ((n : ℝ) ^ k * |ρ| ^ n) := by
    intro n
    rw [Real.norm_eq_abs, abs_div, abs_mul, abs_mul, abs_mul, abs_pow, abs_pow, abs_pow, abs_pow,
      Nat.abs_cast]
  rcases h with h | ⟨hb, hjk⟩
  · have hr0 : 0 ≤ |b| / |ρ| := div_nonneg (abs_nonneg b) hρ'.le
    have hr1 : |b| / |ρ| < 1 := (div_lt_one hρ').mpr h
    have h0 := (tendsto_pow_const_mul_const_pow_of_lt_one j hr0 hr1).const_mul |c|
    rw [mul_zero] at h0
    refine squeeze_zero_norm' ?_ h0
    filter_upwards [eventually_ge_atTop 1] with n hn
    have hn' : (1 : ℝ) ≤ (n : ℝ) ^ k := one_le_pow₀ (by exact_mod_cast hn)
    rw [hnorm]
    calc |c| * (n : ℝ) ^ j * |b| ^ n / ((n : ℝ) ^ k * |ρ| ^ n)
        = (|c| * (n : ℝ) ^ j * |b| ^ n / |ρ| ^ n) / (n : ℝ) ^ k := by
          rw [div_div, mul_comm (|ρ| ^ n)]
      _ ≤ |c| * (n : ℝ) ^ j * |b| ^ n / |ρ| ^ n := div_le_self (by positivity) hn'
      _ = |c| * ((n : ℝ) ^ j * (|b| / |ρ|) ^ n) := by rw [div_pow]; ring
  · obtain ⟨d, rfl⟩ := Nat.exists_eq_add_of_lt hjk
    have h0 := tendsto_const_div_pow |c| (d + 1) (Nat.succ_ne_zero d)
    refine squeeze_zero_norm' ?_ h0
    filter_upwards [eventually_ge_atTop 1] with n hn
    have hn0 : (n : ℝ) ≠ 0 := by exact_mod_cast (by omega : n ≠ 0)
    have h1 : (n : ℝ) ^ j ≠ 0 := pow_ne_zero _ hn0
    have h2 : |ρ| ^ n ≠ 0 := pow_ne_zero _ hρ'.ne'
    have h3 : (n : ℝ) ^ (d + 1) ≠ 0 := pow_ne_zero _ hn0
    rw [hnorm, hb, Nat.add_assoc, pow_add]
    apply le_of_eq
    field_simp

/-- quotient of two sequences with a common gauge `g`: `A/g → a`, `B/g → b ≠ 0`, `g ≠ 0` eventually ⇒ `A/B → a/b` -/
theorem tendsto_div_of_gauge {A B g : ℕ → ℝ} {a b : ℝ} (hb : b ≠ 0) (hg : ∀ᶠ n in atTop, g n ≠ 0)
    (hA : Tendsto (fun n => A n / g n) atTop (𝓝 a)) (hB : Tendsto (fun n => B n / g n) atTop (𝓝 b)) :
    Tendsto (fun n => A n / B n) atTop (𝓝 (a / b)) := by
  refine (hA.div hB hb).congr' ?_
  filter_upwards [hg] with n hn
  exact div_div_div_cancel_right₀ hn _ _

/-! ### exponential polynomials read in ℝ -/

theorem expPolyEval_nil (n : ℕ) : expPolyEval [] n = 0 := rfl

theorem expPolyEval_cons (t : ExpTerm) (ts : List ExpTerm) (n : ℕ) :
    expPolyEval (t :: ts) n = t.eval n + expPolyEval ts n := rfl

theorem expPolyEval_append (l₁ l₂ : List ExpTerm) (n : ℕ) :
    expPolyEval (l₁ ++ l₂) n = expPolyEval l₁ n + expPolyEval l₂ n := by
  induction l₁ with
  | nil => simp [expPolyEval_nil]
  | cons t l ih => rw [List.cons_append, expPolyEval_cons, expPolyEval_cons, ih, add_assoc]

theorem eval_cast (t : ExpTerm) (n : ℕ) :
    ((t.eval n : ℚ) : ℝ) = (t.coef : ℝ) * (n : ℝ) ^ t.deg * (t.base : ℝ) ^ n := by
  simp [ExpTerm.eval]

/-- the comparison sequence `n^k ρ^n` -/
noncomputable def gauge (ρ : ℚ) (k : ℕ) (n : ℕ) : ℝ := (n : ℝ) ^ k * (ρ : ℝ) ^ n

theorem gauge_ne_zero {ρ : ℚ} (hρ : ρ ≠ 0) (k : ℕ) {n : ℕ} (hn : 1 ≤ n) : gauge ρ k n ≠ 0 := by
  have hn0 : (n : ℝ) ≠ 0 := by exact_mod_cast (by omega : n ≠ 0)
  have : (ρ : ℝ) ≠ 0 := by exact_mod_cast hρ
  exact mul_ne_zero (pow_ne_zero _ hn0) (pow_ne_zero _ this)

theorem gauge_eventually_ne_zero {ρ : ℚ} (hρ : ρ ≠ 0) (k : ℕ) : ∀ᶠ n in atTop, gauge ρ k n ≠ 0 := by
  filter_upwards [eventually_ge_atTop 1] with n hn
  exact gauge_ne_zero hρ k hn

/-- the term `t` grows strictly slower than `n^k ρ^n` -/
def Below (t : ExpTerm) (ρ : ℚ) (k : ℕ) : Prop := |t.base| < |ρ| ∨ (|t.base| = |ρ| ∧ t.deg < k)

theorem term_below_tendsto_zero {t : ExpTerm} {ρ : ℚ} {k : ℕ} (hρ : ρ ≠ 0) (h : Below t ρ k) :
    Tendsto (fun n : ℕ => ((t.eval n : ℚ) : ℝ) / gauge ρ k n) atTop (𝓝 0) := by
  have hρ' : (ρ : ℝ) ≠ 0 := by exact_mod_cast hρ
  have h' : |(t.base : ℝ)| < |(ρ : ℝ)| ∨ (|(t.base : ℝ)| = |(ρ : ℝ)| ∧ t.deg < k) := by
    rcases h with h | ⟨h1, h2⟩
    · exact Or.inl (by exact_mod_cast h)
    · exact Or.inr ⟨by exact_mod_cast h1, h2⟩
  have := term_div_dominant_tendsto_zero (t.coef : ℝ) (t.base : ℝ) (ρ : ℝ) t.deg k hρ' h'
  simpa only [eval_cast, gauge] using this

/-- a list all of whose terms are below `n^k ρ^n` is negligible against it -/
theorem list_below_tendsto_zero {L : List ExpTerm} {ρ : ℚ} {k : ℕ} (hρ : ρ ≠ 0)
    (h : ∀ t ∈ L, Below t ρ k) :
    Tendsto (fun n : ℕ => ((expPolyEval L n : ℚ) : ℝ) / gauge ρ k n) atTop (𝓝 0) := by
  induction L with
  | nil => simp [expPolyEval_nil]
  | cons t L ih =>
    have h1 := term_below_tendsto_zero hρ (h t (List.mem_cons_self ..))
    have h2 := ih (fun s hs => h s (List.mem_cons_of_mem _ hs))
    have := h1.add h2
    rw [add_zero] at this
    refine this.congr (fun n => ?_)
    rw [expPolyEval_cons]; push_cast; rw [add_div]

/-- the dominant term against its own gauge is its coefficient (from n = 1 on) -/
theorem term_self_tendsto {t : ExpTerm} (hρ : t.base ≠ 0) :
    Tendsto (fun n : ℕ => ((t.eval n : ℚ) : ℝ) / gauge t.base t.deg n) atTop (𝓝 (t.coef : ℝ)) := by
  refine tendsto_const_nhds.congr' ?_
  filter_upwards [eventually_ge_atTop 1] with n hn
  have hg := gauge_ne_zero hρ t.deg hn
  rw [eval_cast, eq_div_iff hg, gauge]; ring

/-- **A list with a single dominant term** `c·n^k·ρ^n` (all other terms of smaller growth class) divided by
`n^k ρ^n` tends to `c`. -/
theorem dominant_tendsto {l₁ l₂ : List ExpTerm} {td : ExpTerm} (hρ : td.base ≠ 0)
    (hb : ∀ t ∈ l₁ ++ l₂, Below t td.base td.deg) :
    Tendsto (fun n : ℕ => ((expPolyEval (l₁ ++ td :: l₂) n : ℚ) : ℝ) / gauge td.base td.deg n) atTop
      (𝓝 (td.coef : ℝ)) := by
  have h1 := list_below_tendsto_zero hρ hb
  have h2 := term_self_tendsto hρ
  have := h1.add h2
  rw [zero_add] at this
  refine this.congr (fun n => ?_)
  rw [expPolyEval_append, expPolyEval_append, expPolyEval_cons]; push_cast
  rw [← add_div]; ring

/-! ### the growth classes as a linear order -/

/-- the growth class of a term -/
def cls (t : ExpTerm) : Cls := ⟨absR t.base, t.deg⟩

/-- classes ordered lexicographically: (|base|, degree) -/
def key (c : Cls) : ℚ ×ₗ ℕ := toLex (c.absBase, c.deg)

theorem absR_eq (r : ℚ) : absR r = |r| := by
  unfold absR
  split_ifs with h
  · exact (abs_of_neg h).symm
  · exact (abs_of_nonneg (not_lt.mp h)).symm

theorem clsLt_iff (a b : Cls) : clsLt a b = true ↔ key a < key b := by
  simp [clsLt, key, Prod.Lex.toLex_lt_toLex]

theorem key_inj {a b : Cls} (h : key a = key b) : a = b := by
  have := toLex.injective h
  cases a; cases b
  simp only [Prod.mk.injEq] at this
  simp [this.1, this.2]

theorem below_of_key_lt {t td : ExpTerm} (h : key (cls t) < key (cls td)) : Below t td.base td.deg := by
  simp only [key, cls, absR_eq, Prod.Lex.toLex_lt_toLex] at h
  exact h

/-- the fold step of `maxCls` -/
def clsStep (acc : Option Cls) (t : ExpTerm) : Option Cls :=
  match acc with
  | none => some (cls t)
  | some a => if clsLt a (cls t) then some (cls t) else some a

theorem maxCls_eq (ts : List ExpTerm) : maxCls ts = ts.foldl clsStep none := rfl

theorem foldl_clsStep_some (ts : List ExpTerm) (a : Cls) :
    ∃ c, ts.foldl clsStep (some a) = some c ∧ key a ≤ key c ∧ ∀ t ∈ ts, key (cls t) ≤ key c := by
  induction ts generalizing a with
  | nil => exact ⟨a, rfl, le_refl _, fun t ht => by cases ht⟩
  | cons t ts ih =>
    rw [List.foldl_cons]
    by_cases h : clsLt a (cls t) = true
    · obtain ⟨c, hc, h1, h2⟩ := ih (cls t)
      refine ⟨c, by simpa [clsStep, h] using hc, le_trans (le_of_lt ((clsLt_iff _ _).mp h)) h1, ?_⟩
      intro s hs
      rcases List.mem_cons.mp hs with rfl | hs
      · exact h1
      · exact h2 s hs
    · obtain ⟨c, hc, h1, h2⟩ := ih a
      have hle : key (cls t) ≤ key a := not_lt.mp (fun hl => h ((clsLt_iff _ _).mpr hl))
      refine ⟨c, by simpa [clsStep, h] using hc, h1, ?_⟩
      intro s hs
      rcases List.mem_cons.mp hs with rfl | hs
      · exact le_trans hle h1
      · exact h2 s hs

theorem maxCls_none {ts : List ExpTerm} (h : maxCls ts = none) : ts = [] := by
  cases ts with
  | nil => rfl
  | cons t ts =>
    rw [maxCls_eq, List.foldl_cons] at h
    obtain ⟨c, hc, _⟩ := foldl_clsStep_some ts (cls t)
    simp only [clsStep] at h
    rw [hc] at h
    cases h

/-- `maxCls` is an upper bound of the classes of the list -/
theorem maxCls_some {ts : List ExpTerm} {c : Cls} (h : maxCls ts = some c) :
    ∀ t ∈ ts, key (cls t) ≤ key c := by
  cases ts with
  | nil => intro t ht; cases ht
  | cons t ts =>
    rw [maxCls_eq, List.foldl_cons] at h
    obtain ⟨c', hc, h1, h2⟩ := foldl_clsStep_some ts (cls t)
    simp only [clsStep] at h
    rw [hc] at h
    simp only [Option.some.injEq] at h
    subst h
    intro s hs
    rcases List.mem_cons.mp hs with rfl | hs
    · exact h1
    · exact h2 s hs

/-- a list whose dominant part is the single term `td`: `td` has the maximal class and every other term is
strictly below it -/
theorem dominant_single {ts : List ExpTerm} {td : ExpTerm} {c : Cls} (hm : maxCls ts = some c)
    (hd : dominant ts = [td]) :
    ∃ l₁ l₂, ts = l₁ ++ td :: l₂ ∧ cls td = c ∧ ∀ t ∈ l₁ ++ l₂, key (cls t) < key c := by
  unfold dominant at hd
  rw [hm] at hd
  simp only at hd
  obtain ⟨l₁, l₂, hts, h1, hp, h2⟩ := List.filter_eq_cons_iff.mp hd
  have hp' : cls td = c := by
    simp only [decide_eq_true_eq] at hp
    cases c
    simp only [cls, Cls.mk.injEq]
    exact hp
  have hup := maxCls_some hm
  have hne : ∀ t, t ∈ ts → ¬ (decide (absR t.base = c.absBase ∧ t.deg = c.deg) = true) →
      key (cls t) < key c := by
    intro t ht hnp
    refine lt_of_le_of_ne (hup t ht) (fun he => hnp ?_)
    have := key_inj he
    simp only [decide_eq_true_eq]
    rw [← this]
    exact ⟨rfl, rfl⟩
  refine ⟨l₁, l₂, hts, hp', ?_⟩
  intro t ht
  rcases List.mem_append.mp ht with h | h
  · exact hne t (by rw [hts]; simp [h]) (h1 t h)
  · have h2' := List.filter_eq_nil_iff.mp h2 t h
    exact hne t (by rw [hts]; simp [h]) h2'

/-! ### `combine` keeps the values for n ≥ 1 and leaves only live terms -/

theorem eval_ins (t : ExpTerm) (acc : List ExpTerm) (n : ℕ) :
    expPolyEval (combine.ins t acc) n = expPolyEval acc n + t.eval n := by
  induction acc with
  | nil => simp [combine.ins, expPolyEval_cons, expPolyEval_nil]
  | cons u rest ih =>
    rw [combine.ins]
    split
    · rename_i h
      rw [expPolyEval_cons, expPolyEval_cons]
      simp only [ExpTerm.eval, h.1, h.2]
      ring
    · rw [expPolyEval_cons, expPolyEval_cons, ih, add_assoc]

theorem eval_foldl_ins (ts acc : List ExpTerm) (n : ℕ) :
    expPolyEval (ts.foldl (fun acc t => combine.ins t acc) acc) n = expPolyEval acc n + expPolyEval ts n := by
  induction ts generalizing acc with
  | nil => simp [expPolyEval_nil]
  | cons t ts ih => rw [List.foldl_cons, ih, eval_ins, expPolyEval_cons, add_assoc]

theorem eval_live (ts : List ExpTerm) {n : ℕ} (hn : 1 ≤ n) : expPolyEval (live ts) n = expPolyEval ts n := by
  induction ts with
  | nil => rfl
  | cons t ts ih =>
    unfold live at ih ⊢
    rw [List.filter_cons]
    split
    · rw [expPolyEval_cons, expPolyEval_cons, ih]
    · rename_i h
      rw [expPolyEval_cons, ih]
      have : t.eval n = 0 := by
        simp only [decide_eq_true_eq, not_and_or, not_not] at h
        rcases h with h | h
        · simp [ExpTerm.eval, h]
        · simp [ExpTerm.eval, h, zero_pow (by omega : n ≠ 0)]
      rw [this, zero_add]

/-- **`combine` does not change the value of the exponential polynomial at any n ≥ 1** (at n = 0 a dropped term
`c·n^0·0^n` would contribute `c`). -/
theorem expPolyEval_combine (ts : List ExpTerm) {n : ℕ} (hn : 1 ≤ n) :
    expPolyEval (combine ts) n = expPolyEval ts n := by
  show expPolyEval (live (ts.foldl (fun acc t => combine.ins t acc) [])) n = _
  rw [eval_live _ hn, eval_foldl_ins, expPolyEval_nil, zero_add]

theorem combine_live {ts : List ExpTerm} {t : ExpTerm} (h : t ∈ combine ts) : t.coef ≠ 0 ∧ t.base ≠ 0 := by
  have h' : t ∈ live (ts.foldl (fun acc t => combine.ins t acc) []) := h
  unfold live at h'
  have := (List.mem_filter.mp h').2
  simpa using this

theorem eventually_combine (ts : List ExpTerm) :
    ∀ᶠ n : ℕ in atTop, ((expPolyEval (combine ts) n : ℚ) : ℝ) = ((expPolyEval ts n : ℚ) : ℝ) := by
  filter_upwards [eventually_ge_atTop 1] with n hn
  rw [expPolyEval_combine ts hn]

/-! ### limits of quotients of lists with a single dominant term -/

/-- all terms have non-zero coefficient and base -/
def Live (L : List ExpTerm) : Prop := ∀ t ∈ L, t.coef ≠ 0 ∧ t.base ≠ 0

theorem live_combine (ts : List ExpTerm) : Live (combine ts) := fun _ h => combine_live h

/-- a live list with single dominant term `td`, against the gauge of `td` -/
theorem single_dominant_tendsto {D : List ExpTerm} {td : ExpTerm} {cd : Cls} (hD : Live D)
    (hm : maxCls D = some cd) (hd : dominant D = [td]) :
    td.coef ≠ 0 ∧ td.base ≠ 0 ∧ cls td = cd ∧
    Tendsto (fun n : ℕ => ((expPolyEval D n : ℚ) : ℝ) / gauge td.base td.deg n) atTop (𝓝 (td.coef : ℝ)) := by
  obtain ⟨l₁, l₂, hts, hc, hlt⟩ := dominant_single hm hd
  have hmem : td ∈ D := by rw [hts]; simp
  obtain ⟨h1, h2⟩ := hD td hmem
  refine ⟨h1, h2, hc, ?_⟩
  rw [hts]
  exact dominant_tendsto h2 (fun t ht => below_of_key_lt (by rw [hc]; exact hlt t ht))

/-- a live list with a single dominant term is non-zero for all large n -/
theorem single_dominant_eventually_ne_zero {D : List ExpTerm} {td : ExpTerm} {cd : Cls} (hD : Live D)
    (hm : maxCls D = some cd) (hd : dominant D = [td]) :
    ∀ᶠ n : ℕ in atTop, ((expPolyEval D n : ℚ) : ℝ) ≠ 0 := by
  obtain ⟨h1, _, _, ht⟩ := single_dominant_tendsto hD hm hd
  have : (td.coef : ℝ) ≠ 0 := by exact_mod_cast h1
  filter_upwards [ht.eventually_ne this] with n hn h0
  rw [h0, zero_div] at hn
  exact hn rfl

/-- **smaller class over a single dominant term tends to 0** -/
theorem ratio_tendsto_zero {N D : List ExpTerm} {td : ExpTerm} {cd : Cls} (hD : Live D)
    (hm : maxCls D = some cd) (hd : dominant D = [td]) (hN : ∀ t ∈ N, key (cls t) < key cd) :
    Tendsto (fun n : ℕ => ((expPolyEval N n : ℚ) : ℝ) / ((expPolyEval D n : ℚ) : ℝ)) atTop (𝓝 0) := by
  obtain ⟨h1, h2, hc, ht⟩ := single_dominant_tendsto hD hm hd
  have hN' := list_below_tendsto_zero (L := N) (k := td.deg) h2
    (fun t ht => below_of_key_lt (by rw [hc]; exact hN t ht))
  have hc0 : (td.coef : ℝ) ≠ 0 := by exact_mod_cast h1
  have := tendsto_div_of_gauge hc0 (gauge_eventually_ne_zero h2 td.deg) hN' ht
  rwa [zero_div] at this

/-- **equal classes, single dominant terms with the same base: the quotient tends to the quotient of the leading
coefficients** -/
theorem ratio_tendsto_coef {N D : List ExpTerm} {tn td : ExpTerm} {c : Cls} (hN : Live N) (hD : Live D)
    (hmN : maxCls N = some c) (hdN : dominant N = [tn]) (hmD : maxCls D = some c) (hdD : dominant D = [td])
    (hbase : tn.base = td.base) :
    Tendsto (fun n : ℕ => ((expPolyEval N n : ℚ) : ℝ) / ((expPolyEval D n : ℚ) : ℝ)) atTop
      (𝓝 ((tn.coef / td.coef : ℚ) : ℝ)) := by
  obtain ⟨h1, h2, hc, ht⟩ := single_dominant_tendsto hD hmD hdD
  obtain ⟨_, _, hc', ht'⟩ := single_dominant_tendsto hN hmN hdN
  have hdeg : tn.deg = td.deg := by
    have := hc'.trans hc.symm
    simp only [cls, Cls.mk.injEq] at this
    exact this.2
  rw [hbase, hdeg] at ht'
  have hc0 : (td.coef : ℝ) ≠ 0 := by exact_mod_cast h1
  have := tendsto_div_of_gauge hc0 (gauge_eventually_ne_zero h2 td.deg) ht' ht
  rwa [← Rat.cast_div] at this

/-! ### reading the verdicts of `ratioLimit` -/

theorem ratioLimit_finite_cases {num den : List ExpTerm} {v : ℚ} (h : ratioLimit num den = .finite v) :
    ∃ cd td, maxCls (combine den) = some cd ∧ dominant (combine den) = [td] ∧
      ((maxCls (combine num) = none ∧ v = 0) ∨
       (∃ cn, maxCls (combine num) = some cn ∧ clsLt cn cd = true ∧ v = 0) ∨
       (∃ cn tn, maxCls (combine num) = some cn ∧ ¬ clsLt cn cd = true ∧ ¬ clsLt cd cn = true ∧
          dominant (combine num) = [tn] ∧ tn.base = td.base ∧ v = tn.coef / td.coef)) := by
  unfold ratioLimit at h
  simp only at h
  split at h
  · cases h
  · rename_i cd hcd
    split at h
    · rename_i td htd
      refine ⟨cd, td, hcd, htd, ?_⟩
      split at h
      · simp only [Verdict.finite.injEq] at h
        exact Or.inl ⟨by assumption, h.symm⟩
      · rename_i cn hcn
        split_ifs at h with h1 h2
        · simp only [Verdict.finite.injEq] at h
          exact Or.inr (Or.inl ⟨cn, hcn, h1, h.symm⟩)
        · split at h <;> cases h
        · split at h
          · rename_i tn htn
            split_ifs at h with h3
            simp only [Verdict.finite.injEq] at h
            exact Or.inr (Or.inr ⟨cn, tn, hcn, h1, h2, htn, h3, h.symm⟩)
          · cases h
    · cases h

theorem ratioLimit_infinite_cases {num den : List ExpTerm} (h : ratioLimit num den = .infinite) :
    ∃ cd td cn tn, maxCls (combine den) = some cd ∧ dominant (combine den) = [td] ∧
      maxCls (combine num) = some cn ∧ clsLt cd cn = true ∧ dominant (combine num) = [tn] := by
  unfold ratioLimit at h
  simp only at h
  split at h
  · cases h
  · rename_i cd hcd
    split at h
    · rename_i td htd
      split at h
      · cases h
      · rename_i cn hcn
        split_ifs at h with h1 h2
        · split at h
          · rename_i tn htn
            exact ⟨cd, td, cn, tn, hcd, htd, hcn, h2, htn⟩
          · cases h
        · split at h
          · split_ifs at h
          · cases h
    · cases h

theorem ratioLimit_undefinedDen_cases {num den : List ExpTerm} (h : ratioLimit num den = .undefinedDen) :
    maxCls (combine den) = none := by
  unfold ratioLimit at h
  simp only at h
  split at h
  · assumption
  · split at h
    · split at h
      · cases h
      · split_ifs at h
        · split at h <;> cases h
        · split at h
          · split_ifs at h
          · cases h
    · cases h

/-! ### the property theorems -/

/-- **Soundness of the finite verdict.**  If the rule answers `.finite v` then `num(n)/den(n) → v` in ℝ
(arbitrary term lists: `combine` is part of the rule). -/
theorem ratioLimit_finite_sound {num den : List ExpTerm} {v : ℚ} (h : ratioLimit num den = .finite v) :
    Tendsto (fun n : ℕ => ((expPolyEval num n : ℚ) : ℝ) / ((expPolyEval den n : ℚ) : ℝ)) atTop
      (𝓝 (v : ℝ)) := by
  obtain ⟨cd, td, hcd, htd, hcases⟩ := ratioLimit_finite_cases h
  have key : Tendsto (fun n : ℕ => ((expPolyEval (combine num) n : ℚ) : ℝ) /
      ((expPolyEval (combine den) n : ℚ) : ℝ)) atTop (𝓝 (v : ℝ)) := by
    rcases hcases with ⟨hn, rfl⟩ | ⟨cn, hcn, hlt, rfl⟩ | ⟨cn, tn, hcn, h1, h2, htn, hbase, rfl⟩
    · rw [maxCls_none hn]
      simp [expPolyEval_nil]
    · have := ratio_tendsto_zero (N := combine num) (live_combine den) hcd htd
        (fun t ht => lt_of_le_of_lt (maxCls_some hcn t ht) ((clsLt_iff _ _).mp hlt))
      simpa using this
    · have hle1 : Polar.Limit.key cd ≤ Polar.Limit.key cn :=
        not_lt.mp (fun hl => h1 ((clsLt_iff _ _).mpr hl))
      have hle2 : Polar.Limit.key cn ≤ Polar.Limit.key cd :=
        not_lt.mp (fun hl => h2 ((clsLt_iff _ _).mpr hl))
      have heq : cn = cd := key_inj (le_antisymm hle2 hle1)
      subst heq
      exact ratio_tendsto_coef (live_combine num) (live_combine den) hcn htn hcd htd hbase
  refine key.congr' ?_
  filter_upwards [eventually_combine num, eventually_combine den] with n h1 h2
  rw [h1, h2]

/-- In the `.finite` and `.infinite` cases the denominator is non-zero for all large n. -/
theorem ratioLimit_den_eventually_ne_zero {num den : List ExpTerm}
    (h : (∃ v, ratioLimit num den = .finite v) ∨ ratioLimit num den = .infinite) :
    ∀ᶠ n : ℕ in atTop, expPolyEval den n ≠ 0 := by
  have hd : ∃ cd td, maxCls (combine den) = some cd ∧ dominant (combine den) = [td] := by
    rcases h with ⟨v, h⟩ | h
    · obtain ⟨cd, td, h1, h2, _⟩ := ratioLimit_finite_cases h
      exact ⟨cd, td, h1, h2⟩
    · obtain ⟨cd, td, _, _, h1, h2, _⟩ := ratioLimit_infinite_cases h
      exact ⟨cd, td, h1, h2⟩
  obtain ⟨cd, td, hcd, htd⟩ := hd
  filter_upwards [single_dominant_eventually_ne_zero (live_combine den) hcd htd, eventually_combine den]
    with n h1 h2 h0
  rw [h2, h0] at h1
  exact h1 (by simp)

/-- **Soundness of the infinite verdict.**  If the rule answers `.infinite` then `|num(n)/den(n)| → ∞`. -/
theorem ratioLimit_infinite_sound {num den : List ExpTerm} (h : ratioLimit num den = .infinite) :
    Tendsto (fun n : ℕ => |((expPolyEval num n : ℚ) : ℝ) / ((expPolyEval den n : ℚ) : ℝ)|) atTop atTop := by
  obtain ⟨cd, td, cn, tn, hcd, htd, hcn, hlt, htn⟩ := ratioLimit_infinite_cases h
  -- den/num → 0
  have h0 := ratio_tendsto_zero (N := combine den) (live_combine num) hcn htn
    (fun t ht => lt_of_le_of_lt (maxCls_some hcd t ht) ((clsLt_iff _ _).mp hlt))
  have hN := single_dominant_eventually_ne_zero (live_combine num) hcn htn
  have hD := single_dominant_eventually_ne_zero (live_combine den) hcd htd
  have h1 : Tendsto (fun n : ℕ => |((expPolyEval (combine den) n : ℚ) : ℝ) /
      ((expPolyEval (combine num) n : ℚ) : ℝ)|) atTop (𝓝[>] 0) := by
    refine tendsto_nhdsWithin_iff.mpr ⟨by simpa using h0.abs, ?_⟩
    filter_upwards [hN, hD] with n hn hd
    exact abs_pos.mpr (div_ne_zero hd hn)
  refine h1.inv_tendsto_nhdsGT_zero.congr' ?_
  filter_upwards [eventually_combine num, eventually_combine den] with n e1 e2
  simp only [Pi.inv_apply]
  rw [e1, e2, ← abs_inv, inv_div]

/-- `.undefinedDen`: after `combine` nothing is left, the denominator vanishes at every n ≥ 1. -/
theorem ratioLimit_undefinedDen_sound {num den : List ExpTerm} (h : ratioLimit num den = .undefinedDen) :
    ∀ n, 1 ≤ n → expPolyEval den n = 0 := by
  intro n hn
  rw [← expPolyEval_combine den hn, maxCls_none (ratioLimit_undefinedDen_cases h), expPolyEval_nil]

/-! ### non-vacuity and the counterexample -/

/-- the geometric-loop example: num = 2 − 2·(1/2)^n − 2·n·(1/2)^n, den = 1 − 2·(1/2)^n (written with a
duplicated term, a zero coefficient and a zero base to exercise `combine`) -/
def exNum : List ExpTerm := [⟨1, 0, 1⟩, ⟨-2, 0, 1/2⟩, ⟨1, 0, 1⟩, ⟨-2, 1, 1/2⟩, ⟨0, 5, 3⟩]
def exDen : List ExpTerm := [⟨1, 0, 1⟩, ⟨-2, 0, 1/2⟩, ⟨7, 0, 0⟩]

example : ratioLimit exNum exDen = .finite 2 := by decide +kernel

example : Tendsto (fun n : ℕ => ((expPolyEval exNum n : ℚ) : ℝ) / ((expPolyEval exDen n : ℚ) : ℝ)) atTop
    (𝓝 ((2 : ℚ) : ℝ)) :=
  ratioLimit_finite_sound (by decide +kernel)

/-- smaller class: (1/2)^n / (1 − (1/3)^n) → 0 -/
example : ratioLimit [⟨1, 0, 1/2⟩] [⟨1, 0, 1⟩, ⟨-1, 0, 1/3⟩] = .finite 0 := by decide +kernel

/-- a divergent one: E(x·1[stopped]) ~ n against P(stopped) = 1 − (1/2)^n -/
def exNumDiv : List ExpTerm := [⟨1, 1, 1⟩, ⟨-3, 0, -1/2⟩]

example : ratioLimit exNumDiv exDen = .infinite := by decide +kernel
example : Tendsto (fun n : ℕ => |((expPolyEval exNumDiv n : ℚ) : ℝ) / ((expPolyEval exDen n : ℚ) : ℝ)|)
    atTop atTop :=
  ratioLimit_infinite_sound (by decide +kernel)

example : ratioLimit exNum [⟨1, 0, 2⟩, ⟨-1, 0, 2⟩, ⟨3, 0, 0⟩] = .undefinedDen := by decide +kernel
/-- no decision: dominant bases ±1 -/
example : ratioLimit [⟨1, 0, 1⟩, ⟨1, 0, -1⟩] [⟨1, 0, 1⟩] = .oscillates := by decide +kernel

/-- The witness against the earlier version of the rule (`.infinite` without testing that the numerator's dominant
part is a single term): num = 2^n + (−2)^n, den = 1.  The repaired rule makes no decision … -/
example : ratioLimit [⟨1, 0, 2⟩, ⟨1, 0, -2⟩] [⟨1, 0, 1⟩] = .oscillates := by decide +kernel

/-- … and rightly so: num(n) = 0 at every odd n, so `|num/den|` does not tend to infinity. -/
example : ¬ Tendsto (fun n : ℕ => |((expPolyEval [⟨1, 0, 2⟩, ⟨1, 0, -2⟩] n : ℚ) : ℝ) /
        ((expPolyEval [⟨1, 0, 1⟩] n : ℚ) : ℝ)|) atTop atTop := by
  intro hT
  have h1 := (tendsto_atTop.mp hT) 1
  obtain ⟨N, hN⟩ := eventually_atTop.mp h1
  have hval : expPolyEval [⟨1, 0, 2⟩, ⟨1, 0, -2⟩] (2 * N + 1) = 0 := by
    simp only [expPolyEval, List.map_cons, List.map_nil, rsum, ExpTerm.eval]
    have : ((-2 : ℚ)) ^ (2 * N + 1) = -(2 ^ (2 * N + 1)) := by
      rw [Odd.neg_pow ⟨N, rfl⟩]
    rw [this]; ring
  have := hN (2 * N + 1) (by omega)
  rw [hval] at this
  simp at this
  linarith

end Polar.Limit
