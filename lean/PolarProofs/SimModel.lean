/-
  PolarProofs/SimModel.lean — C12: theorems about the simulator model (`Polar/SimModel.lean`).

  Property theorems (audited with `#print axioms`, each followed further down by a non-vacuity `example`):

  * `sim_eq_sem` / `sim_eq_sem_empty` / `sim_eq_sem_default` — for EVERY program `P` (assignments with
    expression / probabilistic choice / Bernoulli / Categorical / DiscreteUniform right sides, guarded
    assignments with default variable, if-else nesting = if/elif/else chains, simultaneous assignments through
    the parser's temporaries, loop guard with stuttering), every `n` and related initial states: if
    `Polar.run P false n s₀` (reference semantics, unmerged) and `simPaths true tmp P n σ₀` (strict path
    enumeration of the simulator model) both return, the two lists agree position by position — same weight, no
    draw atoms, same value of every variable that is not a temporary (`List.Forall₂ (PR T)`).  Hypotheses: the
    temporaries are pairwise distinct names inside a set `T` no program variable belongs to (`TmpOK`, `progAvoids`;
    discharged for the executable's `_t0, _t1, …` and programs without underscore-initial names in
    `sim_eq_sem_default`).  "Both return" is needed because the two sides refuse different inputs: the simulator
    short-circuits `&&`/`||` and rejects `/=`, the reference semantics rejects conditions on draws; `strict`
    refuses `random.choices` weights that do not sum to one (the stdlib renormalises, the analysis does not) and
    continuous draws.  Proved by mutual induction over statements / blocks, then over `n`.
  * `simPaths_sound` — every path of `simPaths` replays through the tape-driven interpreter `simRun` (the literal
    model of `Simulator.simulate`) to the listed state, consuming exactly the listed tape.
  * `simPaths_strict` — when the strict enumeration succeeds, the executable's enumeration returns the same list.
  * `sampler_params_agree` — for EVERY family (TruncNormal included, σ² ≠ 0) the scipy call coded in `sample` is the
    documented parameterisation; `sampler_support_agree` — and, whenever its arguments are rational, its support is
    the declared `get_support`; `truncnormal_support` — TruncNormal(μ, s², a, b), s > 0: support exactly `[a, b]`.

  NOT covered: IEEE rounding (values are `Rat`), scipy / random internals (the law of a source is taken from its
  documentation), continuous draws inside `sim_eq_sem` (their samplers are covered by the sampler theorems only).
-/
import Mathlib.Tactic
import Std.Data.String.ToNat
import Polar.SimModel
open Polar

namespace SimProofs

theorem bind_ok {α β : Type} {x : Except String α} {f : α → Except String β} {b : β} :
    (x >>= f) = .ok b ↔ ∃ a, x = .ok a ∧ f a = .ok b := by
  cases x with
  | error e => simp [bind, Except.bind]
  | ok a => simp [bind, Except.bind]

/-- specification of the weighted bind used by `execBlock` / `WD.bindM` -/
def bindW : WD → (Path → M WD) → M WD
  | [], _ => pure []
  | (w, q) :: ds, f => do
    let a ← f q
    let b ← bindW ds f
    pure (a.map (fun x => (w * x.1, x.2)) ++ b)

theorem inner_loop (w : Rat) (d' : WD) (out : Array (Rat × Path)) :
    (forIn d' out (fun (x : Rat × Path) (s : Array (Rat × Path)) =>
        (pure (ForInStep.yield (s.push (w * x.1, x.2))) : M _)))
      = pure (out ++ (d'.map (fun x => (w * x.1, x.2))).toArray) := by
  induction d' generalizing out with
  | nil => simp
  | cons a t ih =>
    rw [List.forIn_cons, pure_bind]
    simp only []
    rw [ih]
    simp

theorem outer_loop (f : Path → M WD) (d : WD) (out : Array (Rat × Path)) :
    (forIn d out (fun (x : Rat × Path) (s : Array (Rat × Path)) => do
        let d' ← f x.2
        (pure (ForInStep.yield (s ++ (d'.map (fun y => (x.1 * y.1, y.2))).toArray)) : M _)))
      = (do let l ← bindW d f; pure (out ++ l.toArray)) := by
  induction d generalizing out with
  | nil => simp [bindW]
  | cons a t ih =>
    rw [List.forIn_cons]
    obtain ⟨w, q⟩ := a
    simp only [bindW, bind_assoc, pure_bind]
    cases hf : f q with
    | error e => rfl
    | ok d' =>
      have h := ih (out ++ (List.map (fun x => (w * x.1, x.2)) d').toArray)
      simp only [Except.bind, bind] at h ⊢
      rw [h]
      cases bindW t f with
      | error e => rfl
      | ok l => simp

theorem bindM_eq (d : WD) (f : Path → M WD) : WD.bindM d f = bindW d f := by
  unfold WD.bindM
  simp only [inner_loop, pure_bind]
  have := outer_loop f d #[]
  rw [this]
  cases bindW d f with
  | error e => rfl
  | ok l => simp [bind, Except.bind, pure, Except.pure]

theorem execBlock_nil (p : Path) : execBlock [] p = pure [(1, p)] := by
  rw [execBlock]

theorem execBlock_cons (s : Stmt) (rest : List Stmt) (p : Path) :
    execBlock (s :: rest) p = (do let d ← execStmt s p; bindW d (execBlock rest)) := by
  rw [execBlock]
  simp only [inner_loop, pure_bind]
  congr 1
  funext d
  have := outer_loop (execBlock rest) d #[]
  rw [this]
  cases bindW d (execBlock rest) with
  | error e => rfl
  | ok l => simp [bind, Except.bind, pure, Except.pure]


/-! ### constant polynomials -/

theorem isConst_const (c : Rat) : MPoly.isConst? (MPoly.const c) = some c := by
  unfold MPoly.const
  split
  · subst_vars; rfl
  · rfl

theorem const_add (a b : Rat) : MPoly.add (MPoly.const a) (MPoly.const b) = MPoly.const (a + b) := by
  unfold MPoly.const MPoly.add
  by_cases ha : a = 0 <;> by_cases hb : b = 0 <;> simp [ha, hb, MPoly.insertTerm, Mono.cmp]

theorem const_neg (a : Rat) : MPoly.neg (MPoly.const a) = MPoly.const (-a) := by
  unfold MPoly.const MPoly.neg
  by_cases ha : a = 0 <;> simp [ha]

theorem const_sub (a b : Rat) : MPoly.sub (MPoly.const a) (MPoly.const b) = MPoly.const (a - b) := by
  unfold MPoly.sub
  rw [const_neg, const_add, sub_eq_add_neg]

theorem const_mul (a b : Rat) : MPoly.mul (MPoly.const a) (MPoly.const b) = MPoly.const (a * b) := by
  unfold MPoly.const MPoly.mul
  by_cases ha : a = 0 <;> by_cases hb : b = 0 <;>
    simp [ha, hb, MPoly.mulTerm, MPoly.add, MPoly.insertTerm, Mono.mul]

theorem const_pow (a : Rat) (k : Nat) : MPoly.pow (MPoly.const a) k = MPoly.const (a ^ k) := by
  induction k with
  | zero => simp [MPoly.pow, MPoly.one, MPoly.const]
  | succ k ih => rw [MPoly.pow, ih, const_mul, pow_succ, mul_comm]

theorem const_scale (c a : Rat) : MPoly.scale c (MPoly.const a) = MPoly.const (c * a) := by
  unfold MPoly.const MPoly.scale
  by_cases hc : c = 0 <;> by_cases ha : a = 0 <;> simp [hc, ha]


/-! ### stores -/

theorem store_get_nil (y : String) : Store.get? [] y = none := rfl

theorem store_get_cons (z : String) (w : MPoly) (t : Store) (y : String) :
    Store.get? ((z, w) :: t) y = if z = y then some w else Store.get? t y := by
  simp only [Store.get?, List.find?]
  by_cases h : z = y
  · simp [h]
  · have : (z == y) = false := by simpa using h
    simp [this, h]

theorem store_get_set (s : Store) (x y : String) (v : MPoly) :
    (s.set x v).get? y = if y = x then some v else s.get? y := by
  induction s with
  | nil =>
    simp only [Store.set, store_get_cons, store_get_nil]
    by_cases h : y = x
    · simp [h]
    · have : ¬ x = y := fun h' => h h'.symm
      simp [h, this]
  | cons a t ih =>
    obtain ⟨z, w⟩ := a
    simp only [Store.set]
    by_cases hxz : x = z
    · subst hxz
      simp only [if_true, store_get_cons]
      by_cases h : y = x
      · simp [h]
      · have : ¬ x = y := fun h' => h h'.symm
        simp [h, this]
    · simp only [hxz, if_false]
      by_cases hlt : x < z
      · simp only [hlt, if_true, store_get_cons]
        by_cases h : y = x
        · simp [h]
        · have : ¬ x = y := fun h' => h h'.symm
          simp [h, this]
      · simp only [hlt, if_false, store_get_cons, ih]
        by_cases hz : z = y
        · have : ¬ y = x := by rintro rfl; exact hxz hz.symm
          simp [hz, this]
        · simp [hz]

open Polar.Sim in
theorem state_get_set (σ : Sim.State) (x y : String) (v : Rat) :
    (σ.set x v).get? y = if y = x then some v else σ.get? y := by
  induction σ with
  | nil => simp [State.set, State.get?]
  | cons a t ih =>
    obtain ⟨z, w⟩ := a
    simp only [State.set]
    by_cases hxz : x = z
    · subst hxz
      simp only [if_true, State.get?]
      by_cases h : y = x <;> simp [h]
    · simp only [hxz, if_false, State.get?, ih]
      by_cases h : y = z
      · have : ¬ y = x := by rintro rfl; exact hxz h
        simp [h]
        intro h'; exact absurd h'.symm hxz
      · simp [h]


/-! ### the relation between a simulator state and a store of the reference semantics

`T` is the set of names of the parser's temporaries; the two sides agree on every other name. -/

def Rel (T : String → Prop) (σ : Sim.State) (s : Store) : Prop :=
  ∀ x, ¬ T x → s.get? x = (σ.get? x).map MPoly.const

theorem Rel.set {T : String → Prop} {σ : Sim.State} {s : Store} (h : Rel T σ s) (x : String) (c : Rat) :
    Rel T (σ.set x c) (s.set x (MPoly.const c)) := by
  intro y hy
  rw [store_get_set, state_get_set]
  by_cases hyx : y = x
  · simp [hyx]
  · simp [hyx, h y hy]

/-- assigning a temporary on the simulator side only -/
theorem Rel.set_tmp {T : String → Prop} {σ : Sim.State} {s : Store} (h : Rel T σ s) (x : String) (hx : T x)
    (c : Rat) : Rel T (σ.set x c) s := by
  intro y hy
  rw [state_get_set]
  have : ¬ y = x := by rintro rfl; exact hy hx
  simp [this, h y hy]

def exprAvoids (T : String → Prop) : Expr → Prop
  | .num _ => True
  | .var x => ¬ T x
  | .add a b => exprAvoids T a ∧ exprAvoids T b
  | .sub a b => exprAvoids T a ∧ exprAvoids T b
  | .mul a b => exprAvoids T a ∧ exprAvoids T b
  | .neg a => exprAvoids T a
  | .pow a _ => exprAvoids T a
  | .div a b => exprAvoids T a ∧ exprAvoids T b

def condAvoids (T : String → Prop) : Cond → Prop
  | .tt => True
  | .ff => True
  | .cmp _ l r => exprAvoids T l ∧ exprAvoids T r
  | .not c => condAvoids T c
  | .and a b => condAvoids T a ∧ condAvoids T b
  | .or a b => condAvoids T a ∧ condAvoids T b

theorem evalExpr_rel {T : String → Prop} {σ : Sim.State} {s : Store} (h : Rel T σ s) (e : Expr)
    (ha : exprAvoids T e) {v : MPoly} (hs : Polar.evalExpr s e = .ok v) :
    ∃ c, Sim.evalExpr σ e = .ok c ∧ v = MPoly.const c := by
  induction e generalizing v with
  | num r =>
    simp only [Polar.evalExpr, pure, Except.pure, Except.ok.injEq] at hs
    exact ⟨r, rfl, hs.symm⟩
  | var x =>
    simp only [Polar.evalExpr] at hs
    have hx := h x ha
    cases hg : s.get? x with
    | none => simp [hg, throw, throwThe, MonadExceptOf.throw] at hs
    | some w =>
      simp only [hg, pure, Except.pure, Except.ok.injEq] at hs
      rw [hg] at hx
      cases hσ : Sim.State.get? σ x with
      | none => simp [hσ] at hx
      | some c =>
        simp only [hσ, Option.map_some, Option.some.injEq] at hx
        exact ⟨c, by simp [Sim.evalExpr, hσ, pure, Except.pure], by rw [← hs, hx]⟩
  | add a b iha ihb =>
    simp only [Polar.evalExpr] at hs
    obtain ⟨va, h1, hs⟩ := bind_ok.mp hs
    obtain ⟨vb, h2, hs⟩ := bind_ok.mp hs
    obtain ⟨ca, ha1, rfl⟩ := iha ha.1 h1
    obtain ⟨cb, hb1, rfl⟩ := ihb ha.2 h2
    simp only [pure, Except.pure, Except.ok.injEq] at hs
    exact ⟨ca + cb, by simp [Sim.evalExpr, ha1, hb1, bind, Except.bind, pure, Except.pure], by rw [← hs, const_add]⟩
  | sub a b iha ihb =>
    simp only [Polar.evalExpr] at hs
    obtain ⟨va, h1, hs⟩ := bind_ok.mp hs
    obtain ⟨vb, h2, hs⟩ := bind_ok.mp hs
    obtain ⟨ca, ha1, rfl⟩ := iha ha.1 h1
    obtain ⟨cb, hb1, rfl⟩ := ihb ha.2 h2
    simp only [pure, Except.pure, Except.ok.injEq] at hs
    exact ⟨ca - cb, by simp [Sim.evalExpr, ha1, hb1, bind, Except.bind, pure, Except.pure], by rw [← hs, const_sub]⟩
  | mul a b iha ihb =>
    simp only [Polar.evalExpr] at hs
    obtain ⟨va, h1, hs⟩ := bind_ok.mp hs
    obtain ⟨vb, h2, hs⟩ := bind_ok.mp hs
    obtain ⟨ca, ha1, rfl⟩ := iha ha.1 h1
    obtain ⟨cb, hb1, rfl⟩ := ihb ha.2 h2
    simp only [pure, Except.pure, Except.ok.injEq] at hs
    exact ⟨ca * cb, by simp [Sim.evalExpr, ha1, hb1, bind, Except.bind, pure, Except.pure], by rw [← hs, const_mul]⟩
  | neg a iha =>
    simp only [Polar.evalExpr] at hs
    obtain ⟨va, h1, hs⟩ := bind_ok.mp hs
    obtain ⟨ca, ha1, rfl⟩ := iha ha h1
    simp only [pure, Except.pure, Except.ok.injEq] at hs
    exact ⟨- ca, by simp [Sim.evalExpr, ha1, bind, Except.bind, pure, Except.pure], by rw [← hs, const_neg]⟩
  | pow a k iha =>
    simp only [Polar.evalExpr] at hs
    obtain ⟨va, h1, hs⟩ := bind_ok.mp hs
    obtain ⟨ca, ha1, rfl⟩ := iha ha h1
    simp only [pure, Except.pure, Except.ok.injEq] at hs
    exact ⟨ca ^ k, by simp [Sim.evalExpr, ha1, bind, Except.bind, pure, Except.pure], by rw [← hs, const_pow]⟩
  | div a b iha ihb =>
    simp only [Polar.evalExpr] at hs
    obtain ⟨vb, h2, hs⟩ := bind_ok.mp hs
    obtain ⟨cb, hb1, rfl⟩ := ihb ha.2 h2
    rw [isConst_const] at hs
    simp only at hs
    by_cases hz : cb = 0
    · simp [hz, throw, throwThe, MonadExceptOf.throw] at hs
    · simp only [hz, if_false] at hs
      obtain ⟨va, h1, hs⟩ := bind_ok.mp hs
      obtain ⟨ca, ha1, rfl⟩ := iha ha.1 h1
      simp only [pure, Except.pure, Except.ok.injEq] at hs
      refine ⟨ca / cb, by simp [Sim.evalExpr, ha1, hb1, hz, bind, Except.bind, pure, Except.pure], ?_⟩
      rw [← hs, const_scale]
      congr 1
      field_simp

theorem evalConst_rel {T : String → Prop} {σ : Sim.State} {s : Store} (h : Rel T σ s) (e : Expr)
    (ha : exprAvoids T e) {c : Rat} (hs : Polar.evalConst s e = .ok c) : Sim.evalExpr σ e = .ok c := by
  simp only [Polar.evalConst] at hs
  obtain ⟨v, h1, hs⟩ := bind_ok.mp hs
  obtain ⟨c', hc, rfl⟩ := evalExpr_rel h e ha h1
  rw [isConst_const] at hs
  simp only [pure, Except.pure, Except.ok.injEq] at hs
  rw [← hs]; exact hc


theorem cop_rel (op : Cop) (a b : Rat) {r : Bool} (h : op.evalSim a b = .ok r) : op.holds (a - b) 0 = r := by
  cases op <;> simp only [Cop.evalSim, Cop.holds, pure, Except.pure, Except.ok.injEq, throw, throwThe,
    MonadExceptOf.throw, reduceCtorEq] at h ⊢
  · rw [← h]; simp [sub_eq_zero]
  · rw [← h]; simp [sub_neg]
  · rw [← h]; simp
  · rw [← h]; simp [sub_pos]
  · rw [← h]; simp [sub_nonneg]

theorem evalCond_rel {T : String → Prop} {σ : Sim.State} {s : Store} (h : Rel T σ s) (c : Cond)
    (ha : condAvoids T c) {b b' : Bool} (hs : Polar.evalCond s c = .ok b) (hm : Sim.evalCond σ c = .ok b') :
    b = b' := by
  induction c generalizing b b' with
  | tt =>
    simp only [Polar.evalCond, Sim.evalCond, pure, Except.pure, Except.ok.injEq] at hs hm
    rw [← hs, ← hm]
  | ff =>
    simp only [Polar.evalCond, Sim.evalCond, pure, Except.pure, Except.ok.injEq] at hs hm
    rw [← hs, ← hm]
  | cmp op l r =>
    simp only [Polar.evalCond] at hs
    obtain ⟨vl, h1, hs⟩ := bind_ok.mp hs
    obtain ⟨vr, h2, hs⟩ := bind_ok.mp hs
    obtain ⟨cl, hl, rfl⟩ := evalExpr_rel h l ha.1 h1
    obtain ⟨cr, hr, rfl⟩ := evalExpr_rel h r ha.2 h2
    rw [const_sub, isConst_const] at hs
    simp only [pure, Except.pure, Except.ok.injEq] at hs
    simp only [Sim.evalCond, hl, hr, bind, Except.bind] at hm
    rw [← hs]; exact cop_rel op cl cr hm
  | not c ih =>
    simp only [Polar.evalCond] at hs
    obtain ⟨v, h1, hs⟩ := bind_ok.mp hs
    simp only [Sim.evalCond] at hm
    obtain ⟨v', h1', hm⟩ := bind_ok.mp hm
    simp only [pure, Except.pure, Except.ok.injEq] at hs hm
    rw [← hs, ← hm, ih ha h1 h1']
  | and a b iha ihb =>
    simp only [Polar.evalCond] at hs
    obtain ⟨va, h1, hs⟩ := bind_ok.mp hs
    obtain ⟨vb, h2, hs⟩ := bind_ok.mp hs
    simp only [Sim.evalCond] at hm
    obtain ⟨va', h1', hm⟩ := bind_ok.mp hm
    simp only [pure, Except.pure, Except.ok.injEq] at hs
    have := iha ha.1 h1 h1'
    subst this
    cases va with
    | true =>
      simp only [if_true] at hm
      rw [← hs, ihb ha.2 h2 hm]; simp
    | false =>
      simp only [Bool.false_eq_true, if_false, pure, Except.pure, Except.ok.injEq] at hm
      rw [← hs, ← hm]; simp
  | or a b iha ihb =>
    simp only [Polar.evalCond] at hs
    obtain ⟨va, h1, hs⟩ := bind_ok.mp hs
    obtain ⟨vb, h2, hs⟩ := bind_ok.mp hs
    simp only [Sim.evalCond] at hm
    obtain ⟨va', h1', hm⟩ := bind_ok.mp hm
    simp only [pure, Except.pure, Except.ok.injEq] at hs
    have := iha ha.1 h1 h1'
    subst this
    cases va with
    | true =>
      simp only [if_true, pure, Except.pure, Except.ok.injEq] at hm
      rw [← hs, ← hm]; simp
    | false =>
      simp only [Bool.false_eq_true, if_false] at hm
      rw [← hs, ihb ha.2 h2 hm]; simp


/-! ### right-hand sides -/

open Polar.Sim

/-- outcome of the reference semantics vs. option of the simulator's random source -/
def OutRel (atoms : List Atom) (o : Rat × MPoly × List Atom) (t : Rat × Entry × Rat) : Prop :=
  o.1 = t.1 ∧ o.2.1 = MPoly.const t.2.2 ∧ o.2.2 = atoms

theorem evalList_nil_ok {σ : Sim.State} {cs : List Rat} (h : evalList σ [] = .ok cs) : cs = [] := by
  simp only [evalList, pure, Except.pure, Except.ok.injEq] at h
  exact h.symm

theorem evalList_cons_ok {σ : Sim.State} {e : Expr} {es : List Expr} {cs : List Rat}
    (h : evalList σ (e :: es) = .ok cs) :
    ∃ c cs', cs = c :: cs' ∧ Sim.evalExpr σ e = .ok c ∧ evalList σ es = .ok cs' := by
  simp only [evalList] at h
  obtain ⟨c, h1, h⟩ := bind_ok.mp h
  obtain ⟨cs', h2, h⟩ := bind_ok.mp h
  simp only [pure, Except.pure, Except.ok.injEq] at h
  exact ⟨c, cs', h.symm, h1, h2⟩

def SemAlt (s : Store) (atoms : List Atom) (alt : Expr × Expr) (o : Rat × MPoly × List Atom) : Prop :=
  Polar.evalConst s alt.2 = .ok o.1 ∧ Polar.evalExpr s alt.1 = .ok o.2.1 ∧ o.2.2 = atoms

theorem choice_loop (s : Store) (atoms : List Atom) (alts : List (Expr × Expr))
    (acc res : List (Rat × MPoly × List Atom))
    (h : (forIn alts acc (fun (x : Expr × Expr) (st : List (Rat × MPoly × List Atom)) => do
        let w ← Polar.evalConst s x.2
        let v ← Polar.evalExpr s x.1
        (pure (ForInStep.yield (st ++ [(w, v, atoms)])) : Polar.M _))) = .ok res) :
    ∃ l, res = acc ++ l ∧ List.Forall₂ (SemAlt s atoms) alts l := by
  induction alts generalizing acc with
  | nil =>
    simp only [List.forIn_nil, pure, Except.pure, Except.ok.injEq] at h
    exact ⟨[], by simp [h], List.Forall₂.nil⟩
  | cons a t ih =>
    rw [List.forIn_cons] at h
    obtain ⟨st, h1, h⟩ := bind_ok.mp h
    obtain ⟨w, hw, h1⟩ := bind_ok.mp h1
    obtain ⟨v, hv, h1⟩ := bind_ok.mp h1
    simp only [pure, Except.pure, Except.ok.injEq] at h1
    subst h1
    simp only at h
    obtain ⟨l, hl, hf⟩ := ih _ h
    exact ⟨(w, v, atoms) :: l, by simp [hl], List.Forall₂.cons ⟨hw, hv, rfl⟩ hf⟩

theorem choice_rel {T : String → Prop} {σ : Sim.State} {s : Store} (h : Rel T σ s) (atoms : List Atom)
    (alts : List (Expr × Expr)) (hav : ∀ a ∈ alts, exprAvoids T a.1 ∧ exprAvoids T a.2)
    (l : List (Rat × MPoly × List Atom)) (hl : List.Forall₂ (SemAlt s atoms) alts l)
    (ws vs : List Rat) (hws : evalList σ (alts.map (·.2)) = .ok ws) (hvs : evalList σ (alts.map (·.1)) = .ok vs)
    (i : Nat) : List.Forall₂ (OutRel atoms) l (choicesOpts 1 i vs ws) := by
  induction hl generalizing ws vs i with
  | nil =>
    rw [evalList_nil_ok hws, evalList_nil_ok hvs]
    exact List.Forall₂.nil
  | @cons a o t l' hao _ ih =>
    simp only [List.map_cons] at hws hvs
    obtain ⟨w, ws', rfl, hw, hws'⟩ := evalList_cons_ok hws
    obtain ⟨v, vs', rfl, hv, hvs'⟩ := evalList_cons_ok hvs
    have hav' := hav a (by simp)
    have e1 := evalConst_rel h a.2 hav'.2 hao.1
    obtain ⟨c, e2, e3⟩ := evalExpr_rel h a.1 hav'.1 hao.2.1
    rw [hw] at e1
    rw [hv] at e2
    simp only [Except.ok.injEq] at e1 e2
    simp only [choicesOpts]
    refine List.Forall₂.cons ⟨?_, ?_, hao.2.2⟩ (ih (fun a' ha' => hav a' (by simp [ha'])) ws' vs' hws' hvs' (i + 1))
    · simp [e1]
    · simp [e3, e2]


theorem options_choices_ok {vs ws : List Rat} {opts} (h : Req.options true (.choices vs ws) = .ok opts) :
    sumRat ws = 1 ∧ opts = choicesOpts 1 0 vs ws := by
  simp only [Req.options] at h
  obtain ⟨u, _, h⟩ := bind_ok.mp h
  by_cases hs : sumRat ws = 1
  · simp [hs, pure, Except.pure] at h
    exact ⟨hs, h.symm⟩
  · simp [hs, throw, throwThe, MonadExceptOf.throw, bind, Except.bind] at h

def mkCat (atoms : List Atom) : Nat → List Rat → List (Rat × MPoly × List Atom)
  | _, [] => []
  | k, q :: qs => (q, MPoly.const (k : Rat), atoms) :: mkCat atoms (k + 1) qs

theorem cat_loop (s : Store) (atoms : List Atom) (ps : List Expr)
    (acc res : List (Rat × MPoly × List Atom) × Nat)
    (h : (forIn ps acc (fun (e : Expr) (st : List (Rat × MPoly × List Atom) × Nat) => do
        let q ← Polar.evalConst s e
        (pure (ForInStep.yield (st.1 ++ [(q, MPoly.const (st.2 : Rat), atoms)], st.2 + 1)) : Polar.M _))) = .ok res) :
    ∃ qs, List.Forall₂ (fun e q => Polar.evalConst s e = .ok q) ps qs ∧ res.1 = acc.1 ++ mkCat atoms acc.2 qs := by
  induction ps generalizing acc with
  | nil =>
    simp only [List.forIn_nil, pure, Except.pure, Except.ok.injEq] at h
    exact ⟨[], List.Forall₂.nil, by simp [h, mkCat]⟩
  | cons a t ih =>
    rw [List.forIn_cons] at h
    obtain ⟨st, h1, h⟩ := bind_ok.mp h
    obtain ⟨q, hq, h1⟩ := bind_ok.mp h1
    simp only [pure, Except.pure, Except.ok.injEq] at h1
    subst h1
    simp only at h
    obtain ⟨qs, hf, hr⟩ := ih _ h
    exact ⟨q :: qs, List.Forall₂.cons hq hf, by simp [hr, mkCat]⟩

theorem cat_opts (atoms : List Atom) (qs : List Rat) (k i : Nat) :
    List.Forall₂ (OutRel atoms) (mkCat atoms k qs) (choicesOpts 1 i (intRange (k : Int) qs.length) qs) := by
  induction qs generalizing k i with
  | nil => simp [mkCat, intRange, choicesOpts]
  | cons q t ih =>
    simp only [mkCat, List.length_cons, intRange, choicesOpts]
    refine List.Forall₂.cons ⟨by simp, by simp, rfl⟩ ?_
    have := ih (k + 1) (i + 1)
    simpa using this

theorem evalList_rel {T : String → Prop} {σ : Sim.State} {s : Store} (h : Rel T σ s)
    (ps : List Expr) (hav : ∀ e ∈ ps, exprAvoids T e) (qs : List Rat)
    (hq : List.Forall₂ (fun e q => Polar.evalConst s e = .ok q) ps qs) : evalList σ ps = .ok qs := by
  induction hq with
  | nil => rfl
  | @cons e q t qs' heq _ ih =>
    have e1 := evalConst_rel h e (hav e (by simp)) heq
    simp [evalList, e1, ih (fun e' he' => hav e' (by simp [he'])), bind, Except.bind, pure, Except.pure]

theorem samplerCall_bernoulli {name : String} {ps : List Rat} {c : ScipyCall}
    (h : samplerCall name ps = some c) (hf : c.fn = "bernoulli") : name = "Bernoulli" := by
  unfold samplerCall at h
  split at h
  all_goals first
    | rfl
    | (cases h; simp at hf; done)
    | (split at h <;> first | (cases h; done) | (cases h; simp at hf; done))
    | (cases h; done)


theorem evalExpr_nil_mono (σ : Sim.State) (e : Expr) {c : Rat} (h : Sim.evalExpr [] e = .ok c) :
    Sim.evalExpr σ e = .ok c := by
  induction e generalizing c with
  | num r => simpa [Sim.evalExpr] using h
  | var x => simp [Sim.evalExpr, State.get?, throw, throwThe, MonadExceptOf.throw] at h
  | add a b iha ihb =>
    simp only [Sim.evalExpr] at h ⊢
    obtain ⟨va, h1, h⟩ := bind_ok.mp h
    obtain ⟨vb, h2, h⟩ := bind_ok.mp h
    rw [iha h1, ihb h2]; exact h
  | sub a b iha ihb =>
    simp only [Sim.evalExpr] at h ⊢
    obtain ⟨va, h1, h⟩ := bind_ok.mp h
    obtain ⟨vb, h2, h⟩ := bind_ok.mp h
    rw [iha h1, ihb h2]; exact h
  | mul a b iha ihb =>
    simp only [Sim.evalExpr] at h ⊢
    obtain ⟨va, h1, h⟩ := bind_ok.mp h
    obtain ⟨vb, h2, h⟩ := bind_ok.mp h
    rw [iha h1, ihb h2]; exact h
  | neg a iha =>
    simp only [Sim.evalExpr] at h ⊢
    obtain ⟨va, h1, h⟩ := bind_ok.mp h
    rw [iha h1]; exact h
  | pow a k iha =>
    simp only [Sim.evalExpr] at h ⊢
    obtain ⟨va, h1, h⟩ := bind_ok.mp h
    rw [iha h1]; exact h
  | div a b iha ihb =>
    simp only [Sim.evalExpr] at h ⊢
    obtain ⟨va, h1, h⟩ := bind_ok.mp h
    obtain ⟨vb, h2, h⟩ := bind_ok.mp h
    rw [iha h1, ihb h2]; exact h

theorem intRange_length (z : Int) (k : Nat) : (intRange z k).length = k := by
  induction k generalizing z with
  | zero => rfl
  | succ k ih => simp [intRange, ih]

theorem du_opts (atoms : List Atom) (w lo : Rat) (cnt : Nat) (hw : w = 1 / (cnt : Rat)) (k s i : Nat) (z : Int)
    (hz : (z : Rat) = lo + (s : Rat)) :
    List.Forall₂ (OutRel atoms)
      ((List.range' s k).map (fun (m : Nat) => (w, MPoly.const (lo + (m : Rat)), atoms)))
      (choiceOpts cnt i (intRange z k)) := by
  induction k generalizing s i z with
  | zero => simp [intRange, choiceOpts]
  | succ k ih =>
    simp only [List.range'_succ, List.map_cons, intRange, choiceOpts]
    refine List.Forall₂.cons ⟨hw, by simp [hz], rfl⟩ ?_
    exact ih (s + 1) (i + 1) (z + 1) (by push_cast; rw [hz]; ring)


def rhsAvoids (T : String → Prop) : Rhs → Prop
  | .expr e => exprAvoids T e
  | .choice alts => ∀ a ∈ alts, exprAvoids T a.1 ∧ exprAvoids T a.2
  | .dist _ params => ∀ e ∈ params, exprAvoids T e

theorem throw_ne_ok {α : Type} {e : String} {a : α} : (throw e : Except String α) ≠ .ok a := by
  simp [throw, throwThe, MonadExceptOf.throw]

/-- a continuous family: the strict enumeration refuses it -/
theorem cont_refused {σ : Sim.State} {name : String} {params : List Expr} {r : Req} {opts}
    (h1 : name ≠ "Categorical") (h2 : name ≠ "DiscreteUniform") (h3 : name ≠ "Bernoulli")
    (hr : rhsRequest σ (.dist name params) = .ok r) (ho : r.options true = .ok opts) : False := by
  simp only [rhsRequest, h1, h2, if_false] at hr
  obtain ⟨ps, _, hr⟩ := bind_ok.mp hr
  cases hc : samplerCall name ps with
  | none => simp [hc, throw_ne_ok] at hr
  | some c =>
    simp only [hc, pure, Except.pure, Except.ok.injEq] at hr
    subst hr
    simp only [Req.options] at ho
    split at ho
    · rename_i hfn _
      exact h3 (samplerCall_bernoulli hc hfn)
    · exact throw_ne_ok ho

theorem rhs_rel {T : String → Prop} {σ : Sim.State} {p : Path} (h : Rel T σ p.vals) (rhs : Rhs)
    (hav : rhsAvoids T rhs) {outs : List (Rat × MPoly × List Atom)} (hs : evalRhs p rhs = .ok outs)
    {r : Req} (hr : rhsRequest σ rhs = .ok r) {opts : List (Rat × Entry × Rat)}
    (ho : r.options true = .ok opts) : List.Forall₂ (OutRel p.atoms) outs opts := by
  cases rhs with
  | expr e =>
    simp only [evalRhs] at hs
    obtain ⟨v, h1, hs⟩ := bind_ok.mp hs
    obtain ⟨c, hc, rfl⟩ := evalExpr_rel h e hav h1
    simp only [pure, Except.pure, Except.ok.injEq] at hs
    simp only [rhsRequest, hc, bind, Except.bind, pure, Except.pure, Except.ok.injEq] at hr
    subst hr hs
    obtain ⟨_, rfl⟩ := options_choices_ok ho
    simp only [choicesOpts]
    exact List.Forall₂.cons ⟨by simp, rfl, rfl⟩ List.Forall₂.nil
  | choice alts =>
    simp only [evalRhs] at hs
    obtain ⟨res, h1, hs⟩ := bind_ok.mp hs
    simp only [pure, Except.pure, Except.ok.injEq] at hs
    subst hs
    obtain ⟨l, hres, hl⟩ := choice_loop p.vals p.atoms alts [] res h1
    rw [hres, List.nil_append]
    simp only [rhsRequest] at hr
    obtain ⟨ws, hws, hr⟩ := bind_ok.mp hr
    obtain ⟨vs, hvs, hr⟩ := bind_ok.mp hr
    simp only [pure, Except.pure, Except.ok.injEq] at hr
    subst hr
    obtain ⟨_, rfl⟩ := options_choices_ok ho
    simpa using choice_rel h p.atoms alts hav l hl ws vs hws hvs 0
  | dist name params =>
    simp only [evalRhs] at hs
    split at hs
    · -- Bernoulli
      rename_i e
      obtain ⟨q, hq, hs⟩ := bind_ok.mp hs
      simp only [pure, Except.pure, Except.ok.injEq] at hs
      subst hs
      have e1 := evalConst_rel h e (hav e (by simp)) hq
      simp [rhsRequest, evalList, e1, bind, Except.bind, pure, Except.pure, samplerCall] at hr
      subst hr
      simp [Req.options, pure, Except.pure] at ho
      subst ho
      exact List.Forall₂.cons ⟨rfl, by simp, rfl⟩ (List.Forall₂.cons ⟨rfl, by simp, rfl⟩ List.Forall₂.nil)
    · -- Categorical
      obtain ⟨res, h1, hs⟩ := bind_ok.mp hs
      simp only [pure, Except.pure, Except.ok.injEq] at hs
      subst hs
      obtain ⟨qs, hq, hres⟩ := cat_loop p.vals p.atoms _ ([], 0) res h1
      have e1 := evalList_rel h _ hav qs hq
      simp [rhsRequest, e1, bind, Except.bind, pure, Except.pure] at hr
      subst hr
      obtain ⟨_, rfl⟩ := options_choices_ok ho
      rw [hres]
      simpa using cat_opts p.atoms qs 0 0
    · -- DiscreteUniform
      rename_i a b
      obtain ⟨lo, hlo, hs⟩ := bind_ok.mp hs
      obtain ⟨hi, hhi, hs⟩ := bind_ok.mp hs
      split at hs
      · simp [throw, throwThe, MonadExceptOf.throw, bind, Except.bind] at hs
      · rename_i hbad
        simp only [pure, Except.pure, Except.ok.injEq] at hs
        subst hs
        have ea := evalConst_rel h a (hav a (by simp)) hlo
        have eb := evalConst_rel h b (hav b (by simp)) hhi
        simp only [rhsRequest] at hr
        simp only [show ¬ ("DiscreteUniform" = "Categorical") by decide, if_false, if_true] at hr
        obtain ⟨lo', hlo', hr⟩ := bind_ok.mp hr
        obtain ⟨hi', hhi', hr⟩ := bind_ok.mp hr
        have := evalExpr_nil_mono σ a hlo'
        rw [ea] at this
        simp only [Except.ok.injEq] at this
        subst this
        have := evalExpr_nil_mono σ b hhi'
        rw [eb] at this
        simp only [Except.ok.injEq] at this
        subst this
        push Not at hbad
        have hd1 : lo.den = 1 := hbad.1
        have hd2 : hi.den = 1 := hbad.2.1
        simp only [hd1, hd2, ne_eq, not_true_eq_false, or_self, if_false, pure, Except.pure,
          Except.ok.injEq] at hr
        subst hr
        simp only [Req.options] at ho
        split at ho
        · exact absurd ho throw_ne_ok
        · simp only [pure, Except.pure, Except.ok.injEq] at ho
          subst ho
          rw [intRange_length]
          have hc : (hi.num - lo.num + 1).toNat = (hi.num + 1 - lo.num).toNat := by congr 1; ring
          rw [hc, List.range_eq_range']
          exact du_opts p.atoms _ lo _ rfl _ 0 0 lo.num (by simp [Rat.coe_int_num_of_den_eq_one hd1])
    all_goals
      exfalso
      first
        | exact cont_refused (by decide) (by decide) (by decide) hr ho
        | exact throw_ne_ok hs



/-- simulator path vs. path of the reference semantics: same weight, no draw atoms, stores agree off `T` -/
def PR (T : String → Prop) (a : PathS) (b : Rat × Path) : Prop :=
  a.1 = b.1 ∧ b.2.atoms = [] ∧ Rel T a.2.2 b.2.vals

theorem assignOpts_rel {T : String → Prop} {σ : Sim.State} {p : Path} (h : Rel T σ p.vals) (hp : p.atoms = [])
    (x : String) {outs : List (Rat × MPoly × List Atom)} {opts : List (Rat × Entry × Rat)}
    (hrel : List.Forall₂ (OutRel p.atoms) outs opts) :
    List.Forall₂ (PR T) (assignOpts σ x opts)
      (outs.map (fun o => (o.1, ({ vals := p.vals.set x o.2.1, atoms := o.2.2 } : Path)))) := by
  induction hrel with
  | nil => exact List.Forall₂.nil
  | @cons o t _ _ hot _ ih =>
    obtain ⟨w, v, at'⟩ := o
    obtain ⟨w', e, c⟩ := t
    obtain ⟨h1, h2, h3⟩ := hot
    simp only at h1 h2 h3
    subst h1 h2 h3
    simp only [List.map_cons, assignOpts]
    exact List.Forall₂.cons ⟨rfl, hp, h.set x c⟩ ih

theorem assign_rel {T : String → Prop} {σ : Sim.State} {p : Path} (h : Rel T σ p.vals) (hp : p.atoms = [])
    (x : String) (rhs : Rhs) (g : Cond) (d : String)
    (hr : rhsAvoids T rhs) (hg : condAvoids T g) (hd : ¬ T d)
    {D : WD} (hs : execStmt (.assign x rhs g d) p = .ok D)
    {D' : List PathS} (hm : pathsAssign true x rhs g d σ = .ok D') : List.Forall₂ (PR T) D' D := by
  rw [execStmt] at hs
  obtain ⟨c, hc, hs⟩ := bind_ok.mp hs
  simp only [pathsAssign] at hm
  obtain ⟨c', hc', hm⟩ := bind_ok.mp hm
  have := evalCond_rel h g hg hc hc'
  subst this
  cases c with
  | true =>
    simp only [if_true] at hs hm
    obtain ⟨outs, ho, hs⟩ := bind_ok.mp hs
    obtain ⟨r, hrq, hm⟩ := bind_ok.mp hm
    obtain ⟨opts, hop, hm⟩ := bind_ok.mp hm
    simp only [pure, Except.pure, Except.ok.injEq] at hs hm
    subst hs hm
    exact assignOpts_rel h hp x (rhs_rel h rhs hr ho hrq hop)
  | false =>
    simp only [Bool.false_eq_true, if_false] at hs hm
    have hx := h d hd
    cases hg' : p.vals.get? d with
    | none => simp [hg', throw_ne_ok] at hs
    | some v =>
      rw [hg'] at hx
      cases hσ : Sim.State.get? σ d with
      | none => simp [hσ] at hx
      | some c =>
        simp only [hσ, Option.map_some, Option.some.injEq] at hx
        simp only [hg', hσ, pure, Except.pure, Except.ok.injEq] at hs hm
        subst hs hm hx
        exact List.Forall₂.cons ⟨rfl, hp, h.set x c⟩ List.Forall₂.nil

theorem extend_rel {T : String → Prop} (w : Rat) (t : Tape) {Da : List PathS} {Db : WD}
    (h : List.Forall₂ (PR T) Da Db) :
    List.Forall₂ (PR T) (extend w t Da) (Db.map (fun x => (w * x.1, x.2))) := by
  induction h with
  | nil => exact List.Forall₂.nil
  | @cons a b _ _ hab _ ih =>
    obtain ⟨w', t', σ'⟩ := a
    simp only [extend, List.map_cons]
    exact List.Forall₂.cons ⟨by rw [← hab.1], hab.2.1, hab.2.2⟩ ih

theorem bind_rel {T : String → Prop} {f : Path → Polar.M WD} {f' : Sim.State → Sim.M (List PathS)}
    {d' : List PathS} {d : WD} (hd : List.Forall₂ (PR T) d' d)
    (hf : ∀ a b, PR T a b → ∀ Da Db, f b.2 = .ok Db → f' a.2.2 = .ok Da → List.Forall₂ (PR T) Da Db)
    {D : WD} (hs : bindW d f = .ok D) {D' : List PathS} (hm : bindPaths d' f' = .ok D') :
    List.Forall₂ (PR T) D' D := by
  induction hd generalizing D D' with
  | nil =>
    simp only [bindW, bindPaths, pure, Except.pure, Except.ok.injEq] at hs hm
    subst hs hm
    exact List.Forall₂.nil
  | @cons a b ta tb hab _ ih =>
    obtain ⟨w', t', σ'⟩ := a
    obtain ⟨w, q⟩ := b
    simp only [bindW, bindPaths] at hs hm
    obtain ⟨Db, h1, hs⟩ := bind_ok.mp hs
    obtain ⟨Rb, h2, hs⟩ := bind_ok.mp hs
    obtain ⟨Da, h1', hm⟩ := bind_ok.mp hm
    obtain ⟨Ra, h2', hm⟩ := bind_ok.mp hm
    simp only [pure, Except.pure, Except.ok.injEq] at hs hm
    subst hs hm
    have e1 := hf _ _ hab Da Db h1 h1'
    have e2 := ih h2 h2'
    have hw : w' = w := hab.1
    subst hw
    exact List.rel_append (extend_rel w' t' e1) e2


mutual
def stmtAvoids (T : String → Prop) : Stmt → Prop
  | .assign _ rhs g d => rhsAvoids T rhs ∧ condAvoids T g ∧ ¬ T d
  | .simult xs rhss => (∀ x ∈ xs, ¬ T x) ∧ (∀ r ∈ rhss, rhsAvoids T r)
  | .ite c t e => condAvoids T c ∧ blockAvoids T t ∧ blockAvoids T e
def blockAvoids (T : String → Prop) : List Stmt → Prop
  | [] => True
  | s :: rest => stmtAvoids T s ∧ blockAvoids T rest
end

/-- the temporaries of simultaneous assignments: pairwise distinct names inside `T` -/
structure TmpOK (tmp : Nat → String) (T : String → Prop) : Prop where
  mem : ∀ j, T (tmp j)
  inj : Function.Injective tmp

/-! ### simultaneous assignment -/

def bindR : List (Rat × MPoly × List Atom) → (List Atom → Polar.M (List (Rat × List MPoly × List Atom))) →
    Polar.M (List (Rat × List MPoly × List Atom))
  | [], _ => pure []
  | (w, v, at1) :: fs, g => do
    let a ← g at1
    let b ← bindR fs g
    pure (a.map (fun y => (w * y.1, v :: y.2.1, y.2.2)) ++ b)

theorem innerR_loop (w : Rat) (v : MPoly) (rests out : List (Rat × List MPoly × List Atom)) :
    (forIn rests out (fun (x : Rat × List MPoly × List Atom) (s : List (Rat × List MPoly × List Atom)) =>
        (pure (ForInStep.yield (s ++ [(w * x.1, v :: x.2.1, x.2.2)])) : Polar.M _)))
      = pure (out ++ rests.map (fun y => (w * y.1, v :: y.2.1, y.2.2))) := by
  induction rests generalizing out with
  | nil => simp
  | cons a t ih =>
    rw [List.forIn_cons, pure_bind]
    simp only []
    rw [ih]
    simp

theorem outerR_loop (g : List Atom → Polar.M (List (Rat × List MPoly × List Atom)))
    (firsts : List (Rat × MPoly × List Atom)) (out : List (Rat × List MPoly × List Atom)) :
    (forIn firsts out (fun (x : Rat × MPoly × List Atom) (s : List (Rat × List MPoly × List Atom)) => do
        let rests ← g x.2.2
        (pure (ForInStep.yield (s ++ rests.map (fun y => (x.1 * y.1, x.2.1 :: y.2.1, y.2.2)))) : Polar.M _)))
      = (do let l ← bindR firsts g; pure (out ++ l)) := by
  induction firsts generalizing out with
  | nil => simp [bindR]
  | cons a t ih =>
    rw [List.forIn_cons]
    obtain ⟨w, v, at1⟩ := a
    simp only [bindR, bind_assoc, pure_bind]
    cases hg : g at1 with
    | error e => rfl
    | ok rests =>
      have h := ih (out ++ rests.map (fun y => (w * y.1, v :: y.2.1, y.2.2)))
      simp only [Except.bind, bind] at h ⊢
      rw [h]
      cases bindR t g with
      | error e => rfl
      | ok l => simp

theorem evalRhss_nil (vals : Store) (atoms : List Atom) : evalRhss vals [] atoms = pure [(1, [], atoms)] := by
  rw [evalRhss]

theorem evalRhss_cons (vals : Store) (r : Rhs) (rs : List Rhs) (atoms : List Atom) :
    evalRhss vals (r :: rs) atoms =
      (do let firsts ← evalRhs ⟨vals, atoms⟩ r; bindR firsts (evalRhss vals rs)) := by
  rw [evalRhss]
  simp only [innerR_loop, pure_bind]
  congr 1
  funext firsts
  have := outerR_loop (evalRhss vals rs) firsts []
  rw [this]
  cases bindR firsts (evalRhss vals rs) with
  | error e => rfl
  | ok l => simp [bind, Except.bind, pure, Except.pure]


def setManyS : Sim.State → List String → List Rat → Sim.State
  | σ, t :: ts, c :: cs => setManyS (σ.set t c) ts cs
  | σ, _, _ => σ

theorem setManyS_rel {T : String → Prop} {s : Store} (ts : List String) (ht : ∀ t ∈ ts, T t) (cs : List Rat)
    {σ : Sim.State} (h : Rel T σ s) : Rel T (setManyS σ ts cs) s := by
  induction ts generalizing σ cs with
  | nil => simpa [setManyS] using h
  | cons t ts ih =>
    cases cs with
    | nil => simpa [setManyS] using h
    | cons c cs =>
      simp only [setManyS]
      exact ih (fun t' ht' => ht t' (by simp [ht'])) cs (h.set_tmp t (ht t (by simp)) c)

theorem setManyS_get_other (ts : List String) (cs : List Rat) (σ : Sim.State) (y : String) (hy : y ∉ ts) :
    (setManyS σ ts cs).get? y = σ.get? y := by
  induction ts generalizing σ cs with
  | nil => simp [setManyS]
  | cons t ts ih =>
    cases cs with
    | nil => simp [setManyS]
    | cons c cs =>
      simp only [setManyS]
      rw [ih cs (σ.set t c) (fun h => hy (by simp [h])), state_get_set]
      have : ¬ y = t := fun h => hy (by simp [h])
      simp [this]

theorem setManyS_get_tmp (ts : List String) (hn : ts.Nodup) (cs : List Rat) (σ : Sim.State) :
    ∀ tc ∈ ts.zip cs, (setManyS σ ts cs).get? tc.1 = some tc.2 := by
  induction ts generalizing σ cs with
  | nil => simp
  | cons t ts ih =>
    cases cs with
    | nil => simp
    | cons c cs =>
      intro tc htc
      simp only [List.zip_cons_cons, List.mem_cons] at htc
      simp only [setManyS]
      rcases htc with rfl | htc
      · rw [setManyS_get_other ts cs _ _ (List.nodup_cons.mp hn).1, state_get_set]
        simp
      · exact ih (List.nodup_cons.mp hn).2 cs _ tc htc

/-- phase 1 relation: the temporaries hold the right sides' values, everything else is untouched -/
def R1 (σ : Sim.State) (ts : List String) (a : PathS) (o : Rat × List MPoly × List Atom) : Prop :=
  a.1 = o.1 ∧ o.2.2 = [] ∧ ∃ cs : List Rat, cs.length = ts.length ∧ o.2.1 = cs.map MPoly.const ∧
    a.2.2 = setManyS σ ts cs

theorem temps_extend {σ : Sim.State} (t : String) (ts : List String) (w : Rat) (e : Entry) (c : Rat)
    {a' : List PathS} {a : List (Rat × List MPoly × List Atom)}
    (hr : List.Forall₂ (R1 (σ.set t c) ts) a' a) :
    List.Forall₂ (R1 σ (t :: ts)) (extend w [e] a')
      (a.map (fun y => (w * y.1, MPoly.const c :: y.2.1, y.2.2))) := by
  induction hr with
  | nil => exact List.Forall₂.nil
  | @cons x y _ _ hxy _ ih2 =>
    obtain ⟨wx, tx, σx⟩ := x
    obtain ⟨hw, hat, cs, hl, hv, hσ⟩ := hxy
    simp only [extend, List.map_cons]
    refine List.Forall₂.cons ⟨by simp only at hw ⊢; rw [hw], hat, c :: cs, by simp [hl], by simp [hv], ?_⟩ ih2
    simpa [setManyS] using hσ

theorem temps_bind {σ : Sim.State} (t : String) (ts : List String)
    {firsts : List (Rat × MPoly × List Atom)} {opts : List (Rat × Entry × Rat)}
    (hfo : List.Forall₂ (OutRel []) firsts opts)
    {g : List Atom → Polar.M (List (Rat × List MPoly × List Atom))} {f : Sim.State → Sim.M (List PathS)}
    (hrec : ∀ (c : Rat) a' a, g [] = .ok a → f (σ.set t c) = .ok a' → List.Forall₂ (R1 (σ.set t c) ts) a' a)
    {outs} (hs : bindR firsts g = .ok outs) {d1} (hm : bindPaths (assignOpts σ t opts) f = .ok d1) :
    List.Forall₂ (R1 σ (t :: ts)) d1 outs := by
  induction hfo generalizing outs d1 with
  | nil =>
    simp only [bindR, assignOpts, bindPaths, pure, Except.pure, Except.ok.injEq] at hs hm
    subst hs hm
    exact List.Forall₂.nil
  | @cons o op fs ops hoo _ ih =>
    obtain ⟨w, v, at1⟩ := o
    obtain ⟨w', e, c⟩ := op
    obtain ⟨h1, h2, h3⟩ := hoo
    simp only at h1 h2 h3
    subst h1 h2 h3
    simp only [bindR, assignOpts, bindPaths] at hs hm
    obtain ⟨a, e1, hs⟩ := bind_ok.mp hs
    obtain ⟨b, e2, hs⟩ := bind_ok.mp hs
    obtain ⟨a', e1', hm⟩ := bind_ok.mp hm
    obtain ⟨b', e2', hm⟩ := bind_ok.mp hm
    simp only [pure, Except.pure, Except.ok.injEq] at hs hm
    subst hs hm
    refine List.rel_append ?_ (ih e2 e2')
    exact temps_extend t ts w e c (hrec c a' a e1 e1')

theorem temps_rel {T : String → Prop} {s : Store} (rhss : List Rhs) (hr : ∀ r ∈ rhss, rhsAvoids T r)
    (ts : List String) (hts : ∀ t ∈ ts, T t) (hlen : ts.length = rhss.length)
    {σ : Sim.State} (h : Rel T σ s)
    {outs} (hs : evalRhss s rhss [] = .ok outs) {d1} (hm : pathsAssigns true (ts.zip rhss) σ = .ok d1) :
    List.Forall₂ (R1 σ ts) d1 outs := by
  induction rhss generalizing ts σ outs d1 with
  | nil =>
    have : ts = [] := List.length_eq_zero_iff.mp hlen
    subst this
    rw [evalRhss_nil] at hs
    simp only [List.zip_nil_right, pathsAssigns, pure, Except.pure, Except.ok.injEq] at hs hm
    subst hs hm
    exact List.Forall₂.cons ⟨rfl, rfl, [], rfl, rfl, rfl⟩ List.Forall₂.nil
  | cons r rs ih =>
    cases ts with
    | nil => simp at hlen
    | cons t ts =>
      rw [evalRhss_cons] at hs
      obtain ⟨firsts, h1, hs⟩ := bind_ok.mp hs
      simp only [List.zip_cons_cons, pathsAssigns] at hm
      obtain ⟨d, h1', hm⟩ := bind_ok.mp hm
      simp only [pathsAssign, Sim.evalCond, pure_bind, if_true] at h1'
      obtain ⟨rq, hrq, h1'⟩ := bind_ok.mp h1'
      obtain ⟨opts, hop, h1'⟩ := bind_ok.mp h1'
      simp only [pure, Except.pure, Except.ok.injEq] at h1'
      subst h1'
      have hfo := rhs_rel (p := ⟨s, []⟩) h r (hr r (by simp)) h1 hrq hop
      refine temps_bind t ts hfo (fun c a' a e1 e1' => ?_) hs hm
      exact ih (fun r' hr' => hr r' (by simp [hr'])) ts (fun t' ht' => hts t' (by simp [ht']))
        (by simpa using hlen) (h.set_tmp t (hts t (by simp)) c) e1 e1'


theorem copy_step (σ : Sim.State) (x t : String) (c : Rat) (ht : σ.get? t = some c) :
    pathsAssign true x (.expr (.var t)) .tt x σ = .ok [(1, [Entry.idx 0], σ.set x c)] := by
  have ho : Req.options true (.choices [c] [1]) = .ok [(1, Entry.idx 0, c)] := by
    simp [Req.options, choicesGuard, sumRat, anyNeg, choicesOpts, bind, Except.bind, pure, Except.pure]
    norm_num
  simp [pathsAssign, Sim.evalCond, rhsRequest, Sim.evalExpr, ht, ho, assignOpts, bind, Except.bind, pure, Except.pure]

theorem copies_ok {T : String → Prop} (xs : List String) (hx : ∀ x ∈ xs, ¬ T x)
    (ts : List String) (hts : ∀ t ∈ ts, T t) (cs : List Rat)
    (hl1 : xs.length = ts.length) (hl2 : cs.length = ts.length)
    {σ₁ : Sim.State} {s : Store} (h : Rel T σ₁ s) (hg : ∀ tc ∈ ts.zip cs, σ₁.get? tc.1 = some tc.2) :
    ∃ tB σ₂, pathsAssigns true (xs.zip (ts.map (fun t => Rhs.expr (.var t)))) σ₁ = .ok [(1, tB, σ₂)] ∧
      Rel T σ₂ (setMany s xs (cs.map MPoly.const)) := by
  induction xs generalizing ts cs σ₁ s with
  | nil => exact ⟨[], σ₁, by simp [pathsAssigns, pure, Except.pure], by simpa [setMany] using h⟩
  | cons x xs ih =>
    cases ts with
    | nil => simp at hl1
    | cons t ts =>
      cases cs with
      | nil => simp at hl2
      | cons c cs =>
        have hxt : ∀ t' ∈ t :: ts, ¬ t' = x := fun t' ht' hxe => hx x (by simp) (hxe ▸ hts t' ht')
        have hgt : σ₁.get? t = some c := hg (t, c) (by simp)
        obtain ⟨tB, σ₂, e1, e2⟩ := ih (fun x' hx' => hx x' (by simp [hx'])) ts
          (fun t' ht' => hts t' (by simp [ht'])) cs (by simpa using hl1) (by simpa using hl2)
          (h.set x c) (fun tc htc => by
            rw [state_get_set]
            have hm : tc.1 ∈ t :: ts := by
              have := (List.of_mem_zip htc).1
              simp [this]
            simp only [hxt tc.1 hm, if_false]
            exact hg tc (by simp [htc]))
        refine ⟨[Entry.idx 0] ++ tB, σ₂, ?_, by simpa [setMany] using e2⟩
        simp only [List.map_cons, List.zip_cons_cons, pathsAssigns, copy_step σ₁ x t c hgt, bind, Except.bind,
          bindPaths, e1, pure, Except.pure, extend]
        simp

theorem tmpNames_eq (tmp : Nat → String) (i k : Nat) : tmpNames tmp i k = (List.range' i k).map tmp := by
  induction k generalizing i with
  | zero => rfl
  | succ k ih => simp [tmpNames, ih, List.range'_succ]

theorem copies_bind {T : String → Prop} {σ : Sim.State} {s : Store} (xs ts : List String)
    {f : Sim.State → Sim.M (List PathS)}
    (hf : ∀ cs : List Rat, cs.length = ts.length → ∃ tB σ₂, f (setManyS σ ts cs) = .ok [(1, tB, σ₂)] ∧
      Rel T σ₂ (setMany s xs (cs.map MPoly.const)))
    {d1 : List PathS} {outs : List (Rat × List MPoly × List Atom)} (h1 : List.Forall₂ (R1 σ ts) d1 outs)
    {D' : List PathS} (hm : bindPaths d1 f = .ok D') :
    List.Forall₂ (PR T) D'
      (outs.map (fun o => (o.1, ({ vals := setMany s xs o.2.1, atoms := o.2.2 } : Path)))) := by
  induction h1 generalizing D' with
  | nil =>
    simp only [bindPaths, pure, Except.pure, Except.ok.injEq] at hm
    subst hm
    exact List.Forall₂.nil
  | @cons a o l1 l2 hao _ ih =>
    obtain ⟨w, t, σ₁⟩ := a
    obtain ⟨hw, hat, cs, hl, hv, hσ⟩ := hao
    simp only at hw hσ
    subst hσ
    obtain ⟨tB, σ₂, e1, e2⟩ := hf cs hl
    simp only [bindPaths, e1, bind, Except.bind] at hm
    cases hb : bindPaths l1 f with
    | error e => simp [hb] at hm
    | ok b =>
      simp only [hb, pure, Except.pure, Except.ok.injEq] at hm
      subst hm
      simp only [extend, List.cons_append, List.nil_append, List.map_cons]
      exact List.Forall₂.cons ⟨by simp [hw], hat, by rw [hv]; exact e2⟩ (ih hb)

theorem simult_rel {T : String → Prop} {tmp : Nat → String} (ht : TmpOK tmp T) {σ : Sim.State} {p : Path}
    (h : Rel T σ p.vals) (hp : p.atoms = []) (xs : List String) (rhss : List Rhs)
    (hx : ∀ x ∈ xs, ¬ T x) (hr : ∀ r ∈ rhss, rhsAvoids T r)
    {D : WD} (hs : execStmt (.simult xs rhss) p = .ok D)
    {D' : List PathS} (hm : pathsStmt true tmp (.simult xs rhss) σ = .ok D') : List.Forall₂ (PR T) D' D := by
  rw [execStmt] at hs
  simp only [pathsStmt] at hm
  by_cases hlen : xs.length = rhss.length
  · simp only [hlen, ne_eq, not_true_eq_false, if_false] at hs hm
    obtain ⟨outs, h1, hs⟩ := bind_ok.mp hs
    simp only [pure, Except.pure, Except.ok.injEq] at hs
    subst hs
    obtain ⟨d1, h1', hm⟩ := bind_ok.mp hm
    rw [hp] at h1
    have hts : ∀ t ∈ tmpNames tmp 0 xs.length, T t := by
      intro t htm
      rw [tmpNames_eq] at htm
      obtain ⟨j, _, rfl⟩ := List.mem_map.mp htm
      exact ht.mem j
    have hnd : (tmpNames tmp 0 xs.length).Nodup := by
      rw [tmpNames_eq]
      exact (List.nodup_range' (step := 1) (by omega)).map ht.inj
    have hl : (tmpNames tmp 0 xs.length).length = xs.length := by simp [tmpNames_eq]
    have hd1 := temps_rel rhss hr _ hts (by rw [hl, hlen]) h h1 h1'
    simp only [simultCopies] at hm
    exact copies_bind xs _ (fun cs hcs => copies_ok xs hx _ hts cs hl.symm hcs
      (setManyS_rel _ hts cs h) (setManyS_get_tmp _ hnd cs σ)) hd1 hm
  · simp [hlen, throw_ne_ok, bind, Except.bind, throw, throwThe, MonadExceptOf.throw] at hs

mutual
theorem stmt_rel {T : String → Prop} {tmp : Nat → String} (ht : TmpOK tmp T) (st : Stmt) {σ : Sim.State} {p : Path}
    (h : Rel T σ p.vals) (hp : p.atoms = []) (hav : stmtAvoids T st)
    {D : WD} (hs : execStmt st p = .ok D)
    {D' : List PathS} (hm : pathsStmt true tmp st σ = .ok D') : List.Forall₂ (PR T) D' D := by
  cases st with
  | assign x rhs g d =>
    simp only [stmtAvoids] at hav
    simp only [pathsStmt] at hm
    exact assign_rel h hp x rhs g d hav.1 hav.2.1 hav.2.2 hs hm
  | simult xs rhss =>
    simp only [stmtAvoids] at hav
    exact simult_rel ht h hp xs rhss hav.1 hav.2 hs hm
  | ite c t e =>
    simp only [stmtAvoids] at hav
    rw [execStmt] at hs
    obtain ⟨b, hc, hs⟩ := bind_ok.mp hs
    simp only [pathsStmt] at hm
    obtain ⟨b', hc', hm⟩ := bind_ok.mp hm
    have := evalCond_rel h c hav.1 hc hc'
    subst this
    cases b with
    | true =>
      simp only [if_true] at hs hm
      exact block_rel ht t h hp hav.2.1 hs hm
    | false =>
      simp only [Bool.false_eq_true, if_false] at hs hm
      exact block_rel ht e h hp hav.2.2 hs hm

theorem block_rel {T : String → Prop} {tmp : Nat → String} (ht : TmpOK tmp T) (b : List Stmt) {σ : Sim.State} {p : Path}
    (h : Rel T σ p.vals) (hp : p.atoms = []) (hav : blockAvoids T b)
    {D : WD} (hs : execBlock b p = .ok D)
    {D' : List PathS} (hm : pathsBlock true tmp b σ = .ok D') : List.Forall₂ (PR T) D' D := by
  cases b with
  | nil =>
    rw [execBlock_nil] at hs
    simp only [pathsBlock, pure, Except.pure, Except.ok.injEq] at hs hm
    subst hs hm
    exact List.Forall₂.cons ⟨rfl, hp, h⟩ List.Forall₂.nil
  | cons s rest =>
    simp only [blockAvoids] at hav
    rw [execBlock_cons] at hs
    obtain ⟨d, h1, hs⟩ := bind_ok.mp hs
    simp only [pathsBlock] at hm
    obtain ⟨d', h1', hm⟩ := bind_ok.mp hm
    have hd := stmt_rel ht s h hp hav.1 h1 h1'
    exact bind_rel hd (fun a b hab Da Db e1 e2 => block_rel ht rest hab.2.2 hab.2.1 hav.2 e1 e2) hs hm
end


theorem iter_rel {T : String → Prop} {tmp : Nat → String} (ht : TmpOK tmp T) (P : Program)
    (hg : condAvoids T P.guard) (hb : blockAvoids T P.body) {a : PathS} {b : Rat × Path} (hab : PR T a b)
    (Da : List PathS) (Db : WD) (hs : iter P b.2 = .ok Db) (hm : pathsIter true tmp P a.2.2 = .ok Da) :
    List.Forall₂ (PR T) Da Db := by
  simp only [iter] at hs
  obtain ⟨c, hc, hs⟩ := bind_ok.mp hs
  simp only [pathsIter] at hm
  obtain ⟨c', hc', hm⟩ := bind_ok.mp hm
  have := evalCond_rel hab.2.2 P.guard hg hc hc'
  subst this
  cases c with
  | true =>
    simp only [if_true] at hs hm
    exact block_rel ht P.body hab.2.2 hab.2.1 hb hs hm
  | false =>
    simp only [Bool.false_eq_true, if_false, pure, Except.pure, Except.ok.injEq] at hs hm
    subst hs hm
    exact List.Forall₂.cons ⟨rfl, hab.2.1, hab.2.2⟩ List.Forall₂.nil

theorem iterN_rel {T : String → Prop} {tmp : Nat → String} (ht : TmpOK tmp T) (P : Program)
    (hg : condAvoids T P.guard) (hb : blockAvoids T P.body) (n : Nat) {d' : List PathS} {d : WD}
    (hd : List.Forall₂ (PR T) d' d) {D : WD} (hs : iterN P false n d = .ok D)
    {D' : List PathS} (hm : pathsIterN true tmp P n d' = .ok D') : List.Forall₂ (PR T) D' D := by
  induction n generalizing d d' with
  | zero =>
    simp only [iterN, pathsIterN, pure, Except.pure, Except.ok.injEq] at hs hm
    subst hs hm
    exact hd
  | succ n ih =>
    rw [iterN] at hs
    obtain ⟨e, h1, hs⟩ := bind_ok.mp hs
    simp only [Bool.false_eq_true, if_false] at hs
    rw [bindM_eq] at h1
    simp only [pathsIterN] at hm
    obtain ⟨e', h1', hm⟩ := bind_ok.mp hm
    exact ih (bind_rel hd (fun a b hab Da Db => iter_rel ht P hg hb hab Da Db) h1 h1') hs hm

/-- every variable mentioned by the program is outside `T` -/
def progAvoids (T : String → Prop) (P : Program) : Prop :=
  blockAvoids T P.init ∧ condAvoids T P.guard ∧ blockAvoids T P.body

/-- **C12, interpreter part.**  For every program `P`, every iteration count `n` and every pair of related
    initial states: if the reference semantics (`Polar.run`, no merging) and the strict path enumeration of
    the simulator model both produce a result, the two results agree position by position: same
    probability, no draw atoms, and the same value for every variable that is not a temporary.
    (`strict` refuses `random.choices` weights whose total is not 1 — the stdlib would renormalise them
    while the analysis uses them as they are — and continuous draws.) -/
theorem sim_eq_sem {T : String → Prop} {tmp : Nat → String} (ht : TmpOK tmp T) (P : Program) (hP : progAvoids T P)
    (n : Nat) {σ₀ : Sim.State} {s₀ : Store} (h0 : Rel T σ₀ s₀)
    {D : WD} (hs : Polar.run P false n s₀ = .ok D)
    {D' : List PathS} (hm : simPaths true tmp P n σ₀ = .ok D') : List.Forall₂ (PR T) D' D := by
  unfold Polar.run at hs
  obtain ⟨d, h1, hs⟩ := bind_ok.mp hs
  simp only [Bool.false_eq_true, if_false] at hs
  simp only [simPaths] at hm
  obtain ⟨d', h1', hm⟩ := bind_ok.mp hm
  have hd := block_rel ht P.init (p := ⟨s₀, []⟩) h0 rfl hP.1 h1 h1'
  exact iterN_rel ht P hP.2.1 hP.2.2 n hd hs hm

/-- the real simulator starts from the empty dict -/
theorem sim_eq_sem_empty {T : String → Prop} {tmp : Nat → String} (ht : TmpOK tmp T) (P : Program)
    (hP : progAvoids T P) (n : Nat) {D : WD} (hs : Polar.run P false n [] = .ok D)
    {D' : List PathS} (hm : simPaths true tmp P n [] = .ok D') : List.Forall₂ (PR T) D' D :=
  sim_eq_sem ht P hP n (fun x _ => by simp [store_get_nil, Sim.State.get?]) hs hm



theorem defaultTmp_eq (i : Nat) : defaultTmp i = "_t" ++ Nat.repr i := by
  simp [defaultTmp, toString]

theorem defaultTmp_inj : Function.Injective defaultTmp := by
  intro i j h
  rw [defaultTmp_eq, defaultTmp_eq, String.append_right_inj] at h
  exact Nat.repr_injective h

theorem not_tmp_of_head {x : String} {c : Char} {r : List Char} (hx : x.toList = c :: r) (hc : c ≠ '_') :
    ¬ ∃ j, x = defaultTmp j := by
  rintro ⟨j, rfl⟩
  rw [defaultTmp_eq, String.toList_append] at hx
  have : ("_t" : String).toList = ['_', 't'] := by decide
  rw [this] at hx
  simp at hx
  exact hc hx.1.symm



/-! ### samplers -/

/-- For EVERY family the scipy call made by `sample` is the documented parameterisation of the law the
    analysis uses (`TruncNormal` included, since the bounds are standardised; for it σ² ≠ 0 is needed: the
    code divides by σ and raises otherwise, while the documented call is still written down). -/
theorem sampler_params_agree (fam : String) (ps : List Rat)
    (hσ : fam = "TruncNormal" → ∀ mu s2 a b, ps = [mu, s2, a, b] → s2 ≠ 0) :
    samplerCall fam ps = samplerSpecCall fam ps := by
  unfold samplerCall samplerSpecCall
  split <;> simp_all

/-- non-vacuity: the statement is about calls that exist, the TruncNormal one included -/
example : samplerCall "Gamma" [2, 1/2] = samplerSpecCall "Gamma" [2, 1/2] ∧ (samplerCall "Gamma" [2, 1/2]).isSome ∧
    samplerCall "TruncNormal" [0, 4, -1, 1] = samplerSpecCall "TruncNormal" [0, 4, -1, 1] ∧
    (samplerCall "TruncNormal" [0, 4, -1, 1]).isSome := by
  decide +kernel

theorem ratSqrt_mul_self (s : Rat) (hs : 0 ≤ s) : ratSqrt? (s * s) = some s := by
  have hnum : (s * s).num = s.num * s.num := Rat.mul_self_num s
  have hden : (s * s).den = s.den * s.den := Rat.mul_self_den s
  have h0 : ¬ s * s < 0 := not_lt.mpr (mul_self_nonneg s)
  have hn : 0 ≤ s.num := Rat.num_nonneg.mpr hs
  unfold ratSqrt?
  simp only [h0, if_false, hnum, hden]
  have e1 : (s.num * s.num).toNat = s.num.toNat * s.num.toNat := by
    rw [Int.toNat_mul hn hn]
  rw [e1, Nat.sqrt_eq, Nat.sqrt_eq]
  simp only [and_self, if_true, Option.some.injEq]
  have : ((s.num.toNat : Nat) : Rat) = (s.num : Rat) := by
    have := Int.toNat_of_nonneg hn
    exact_mod_cast congrArg (fun z : Int => (z : Rat)) this
  rw [this, Rat.num_div_den]

/-- `TruncNormal(μ, σ², a, b).sample` with σ > 0 draws from a law whose support is exactly the declared `[a, b]`
    (stated for σ² = s·s so that the standard deviation is rational). -/
theorem truncnormal_support (mu s a b : Rat) (hs : 0 < s) :
    (samplerCall "TruncNormal" [mu, s * s, a, b]).bind ScipyCall.support = some (some a, some b) := by
  have hsq := ratSqrt_mul_self s hs.le
  have hne : s ≠ 0 := hs.ne'
  simp [samplerCall, ScipyCall.support, SArg.toRat?, hsq, hne, Option.bind]
  constructor <;> field_simp <;> ring

/-- every family: the support of the coded call (whenever its arguments are rational) is the declared
    `get_support` -/
theorem sampler_support_agree (fam : String) (ps : List Rat) (c : ScipyCall)
    (hc : samplerCall fam ps = some c) (sup : Bound × Bound) (hsup : c.support = some sup) :
    declaredSupport fam ps = some sup := by
  unfold samplerCall at hc
  split at hc
  case h_5 =>
    split at hc
    · cases hc
    · cases hc
      simp [ScipyCall.support, SArg.toRat?] at hsup
      simp [declaredSupport, ← hsup]
  case h_2 =>
    rename_i mu s2
    cases hc
    simp only [ScipyCall.support, SArg.toRat?, declaredSupport] at hsup ⊢
    cases hq : ratSqrt? s2 with
    | none => simp [hq] at hsup
    | some t => simpa [hq] using hsup
  case h_9 =>
    rename_i mu s2 a b
    split at hc
    · cases hc
    · cases hc
      simp only [declaredSupport]
      cases hq : ratSqrt? s2 with
      | none => simp [ScipyCall.support, SArg.toRat?, hq] at hsup
      | some t =>
        by_cases ht : t = 0
        · simp [ScipyCall.support, SArg.toRat?, hq, ht] at hsup
        · simp [ScipyCall.support, SArg.toRat?, hq, ht] at hsup
          rw [← hsup]
          congr 2 <;> congr 1 <;> field_simp <;> ring
  case h_10 => cases hc
  all_goals
    cases hc
    simp [ScipyCall.support, SArg.toRat?] at hsup
    simp [declaredSupport, ← hsup]

/-- names the parser's `get_unique_var` may produce start with an underscore -/
def underscoreInitial (x : String) : Prop := x.toList.head? = some '_'

theorem tmpOK_default : TmpOK defaultTmp underscoreInitial where
  mem j := by
    have : ("_t" : String).toList = ['_', 't'] := by decide
    simp [underscoreInitial, defaultTmp_eq, String.toList_append, this]
  inj := defaultTmp_inj

/-- `sim_eq_sem` for the executable's temporaries `_t0, _t1, …`, from the empty dict, for programs none of
    whose variables starts with an underscore. -/
theorem sim_eq_sem_default (P : Program) (hP : progAvoids underscoreInitial P) (n : Nat)
    {D : WD} (hs : Polar.run P false n [] = .ok D)
    {D' : List PathS} (hm : simPaths true defaultTmp P n [] = .ok D') :
    List.Forall₂ (PR underscoreInitial) D' D :=
  sim_eq_sem_empty tmpOK_default P hP n hs hm

/-- non-vacuity: a guarded loop with a Bernoulli draw, if/else, a simultaneous assignment that reads old
    values and a probabilistic choice; both sides produce a result for n = 2 -/
def exP : Program :=
  { init := [.assign "x" (.expr (.num 1)) .tt "x", .assign "y" (.expr (.num 2)) .tt "y",
             .assign "f" (.expr (.num 0)) .tt "f"],
    guard := .cmp .eq (.var "f") (.num 0),
    body := [.assign "f" (.dist "Bernoulli" [.num (1/2)]) .tt "f",
             .ite (.cmp .eq (.var "f") (.num 1))
                  [.simult ["x", "y"] [.expr (.var "y"), .expr (.add (.var "x") (.var "y"))]]
                  [.assign "x" (.choice [(.add (.var "x") (.num 1), .num (1/4)), (.var "x", .num (3/4))]) .tt "x"]] }

def isOk {α : Type} : Except String α → Bool
  | .ok _ => true
  | .error _ => false

theorem isOk_iff {α : Type} {x : Except String α} : isOk x = true ↔ ∃ a, x = .ok a := by
  cases x <;> simp [isOk]

theorem exP_avoids : progAvoids underscoreInitial exP := by
  simp [progAvoids, exP, blockAvoids, stmtAvoids, rhsAvoids, condAvoids, exprAvoids, underscoreInitial]

set_option maxRecDepth 100000 in
example : ∃ D D', Polar.run exP false 2 [] = .ok D ∧ simPaths true defaultTmp exP 2 [] = .ok D' ∧
    List.Forall₂ (PR underscoreInitial) D' D ∧ D'.length = 7 := by
  have h1 : isOk (Polar.run exP false 2 []) = true := by decide +kernel
  have h2 : isOk (simPaths true defaultTmp exP 2 []) = true := by decide +kernel
  obtain ⟨D, hD⟩ := isOk_iff.mp h1
  obtain ⟨D', hD'⟩ := isOk_iff.mp h2
  refine ⟨D, D', hD, hD', sim_eq_sem_default exP exP_avoids 2 hD hD', ?_⟩
  have h3 : (match simPaths true defaultTmp exP 2 [] with | .ok d => d.length | .error _ => 0) = 7 := by
    decide +kernel
  rw [hD'] at h3
  exact h3



/-! ### the enumeration is consistent with the tape-driven interpreter -/

/-- every enumerated path, replayed through the tape-driven interpreter, reaches the listed state and
    consumes exactly its own tape -/
def Sound (f' : Sim.State → Sim.M (List PathS)) (f : Sim.State → Tape → Sim.M (Sim.State × Tape)) : Prop :=
  ∀ σ D, f' σ = .ok D → ∀ p ∈ D, ∀ rest, f σ (p.2.1 ++ rest) = .ok (p.2.2, rest)

theorem mem_choicesOpts {total : Rat} {i : Nat} {vs ws : List Rat} {p : Rat × Entry × Rat}
    (h : p ∈ choicesOpts total i vs ws) : ∃ k, p.2.1 = .idx (i + k) ∧ vs[k]? = some p.2.2 := by
  induction vs generalizing i ws with
  | nil => simp [choicesOpts] at h
  | cons v vs ih =>
    cases ws with
    | nil => simp [choicesOpts] at h
    | cons w ws =>
      simp only [choicesOpts, List.mem_cons] at h
      rcases h with rfl | h
      · exact ⟨0, by simp, by simp⟩
      · obtain ⟨k, h1, h2⟩ := ih h
        exact ⟨k + 1, by rw [h1]; congr 1; omega, by simpa using h2⟩

theorem mem_choiceOpts {cnt i : Nat} {vs : List Rat} {p : Rat × Entry × Rat}
    (h : p ∈ choiceOpts cnt i vs) : ∃ k, p.2.1 = .idx (i + k) ∧ vs[k]? = some p.2.2 := by
  induction vs generalizing i with
  | nil => simp [choiceOpts] at h
  | cons v vs ih =>
    simp only [choiceOpts, List.mem_cons] at h
    rcases h with rfl | h
    · exact ⟨0, by simp, by simp⟩
    · obtain ⟨k, h1, h2⟩ := ih h
      exact ⟨k + 1, by rw [h1]; congr 1; omega, by simpa using h2⟩

theorem options_answer {b : Bool} {r : Req} {opts : List (Rat × Entry × Rat)} (h : r.options b = .ok opts)
    {p : Rat × Entry × Rat} (hp : p ∈ opts) : r.answer p.2.1 = .ok p.2.2 := by
  cases r with
  | choices vs ws =>
    simp only [Req.options] at h
    obtain ⟨u, hg, h⟩ := bind_ok.mp h
    split at h
    · simp [throw_ne_ok, bind, Except.bind, throw, throwThe, MonadExceptOf.throw] at h
    · simp only [pure, Except.pure, Except.ok.injEq] at h
      subst h
      obtain ⟨k, h1, h2⟩ := mem_choicesOpts hp
      simp only [Nat.zero_add] at h1
      simp [Req.answer, h1, hg, h2, bind, Except.bind, pure, Except.pure]
  | choice vs =>
    simp only [Req.options] at h
    split at h
    · exact absurd h throw_ne_ok
    · simp only [pure, Except.pure, Except.ok.injEq] at h
      subst h
      obtain ⟨k, h1, h2⟩ := mem_choiceOpts hp
      simp only [Nat.zero_add] at h1
      simp [Req.answer, h1, h2, pure, Except.pure]
  | rvs c =>
    simp only [Req.options] at h
    split at h
    · simp only [pure, Except.pure, Except.ok.injEq] at h
      subst h
      simp only [List.mem_cons, List.not_mem_nil, or_false] at hp
      rcases hp with rfl | rfl <;> simp [Req.answer, pure, Except.pure]
    · exact absurd h throw_ne_ok

theorem mem_assignOpts {σ : Sim.State} {x : String} {opts : List (Rat × Entry × Rat)} {p : PathS}
    (h : p ∈ assignOpts σ x opts) : ∃ o ∈ opts, p = (o.1, [o.2.1], σ.set x o.2.2) := by
  induction opts with
  | nil => simp [assignOpts] at h
  | cons o t ih =>
    obtain ⟨w, e, v⟩ := o
    simp only [assignOpts, List.mem_cons] at h
    rcases h with rfl | h
    · exact ⟨(w, e, v), by simp, rfl⟩
    · obtain ⟨o, ho, rfl⟩ := ih h
      exact ⟨o, by simp [ho], rfl⟩

theorem pathsAssign_sound (b : Bool) (x : String) (rhs : Rhs) (g : Cond) (d : String) :
    Sound (pathsAssign b x rhs g d) (simAssign x rhs g d) := by
  intro σ D h p hp rest
  simp only [pathsAssign] at h
  obtain ⟨c, hc, h⟩ := bind_ok.mp h
  cases c with
  | true =>
    simp only [if_true] at h
    obtain ⟨r, hr, h⟩ := bind_ok.mp h
    obtain ⟨opts, ho, h⟩ := bind_ok.mp h
    simp only [pure, Except.pure, Except.ok.injEq] at h
    subst h
    obtain ⟨o, hmem, rfl⟩ := mem_assignOpts hp
    have ha := options_answer ho hmem
    simp [simAssign, hc, hr, ha, bind, Except.bind, pure, Except.pure]
  | false =>
    simp only [Bool.false_eq_true, if_false] at h
    cases hd : Sim.State.get? σ d with
    | none => simp [hd, throw_ne_ok] at h
    | some v =>
      simp only [hd, pure, Except.pure, Except.ok.injEq] at h
      subst h
      simp only [List.mem_cons, List.not_mem_nil, or_false] at hp
      subst hp
      simp [simAssign, hc, hd, bind, Except.bind, pure, Except.pure]

theorem mem_extend {w : Rat} {t : Tape} {a : List PathS} {p : PathS} (h : p ∈ extend w t a) :
    ∃ r ∈ a, p = (w * r.1, t ++ r.2.1, r.2.2) := by
  induction a with
  | nil => simp [extend] at h
  | cons r a ih =>
    obtain ⟨w', t', σ'⟩ := r
    simp only [extend, List.mem_cons] at h
    rcases h with rfl | h
    · exact ⟨(w', t', σ'), by simp, rfl⟩
    · obtain ⟨r, hr, rfl⟩ := ih h
      exact ⟨r, by simp [hr], rfl⟩

theorem bindPaths_mem {d : List PathS} {f : Sim.State → Sim.M (List PathS)} {D : List PathS}
    (h : bindPaths d f = .ok D) {p : PathS} (hp : p ∈ D) :
    ∃ q ∈ d, ∃ D1, f q.2.2 = .ok D1 ∧ ∃ r ∈ D1, p = (q.1 * r.1, q.2.1 ++ r.2.1, r.2.2) := by
  induction d generalizing D with
  | nil =>
    simp only [bindPaths, pure, Except.pure, Except.ok.injEq] at h
    subst h
    simp at hp
  | cons q d ih =>
    obtain ⟨w, t, σ⟩ := q
    simp only [bindPaths] at h
    obtain ⟨a, ha, h⟩ := bind_ok.mp h
    obtain ⟨b, hb, h⟩ := bind_ok.mp h
    simp only [pure, Except.pure, Except.ok.injEq] at h
    subst h
    rcases List.mem_append.mp hp with h1 | h1
    · obtain ⟨r, hr, rfl⟩ := mem_extend h1
      exact ⟨(w, t, σ), by simp, a, ha, r, hr, rfl⟩
    · obtain ⟨q, hq, rest⟩ := ih hb h1
      exact ⟨q, by simp [hq], rest⟩

theorem sound_seq {f1' f2' g' : Sim.State → Sim.M (List PathS)}
    {f1 f2 g : Sim.State → Tape → Sim.M (Sim.State × Tape)}
    (h1 : Sound f1' f1) (h2 : Sound f2' f2)
    (hg' : ∀ σ, g' σ = (f1' σ >>= fun d => bindPaths d f2'))
    (hg : ∀ σ t, g σ t = (f1 σ t >>= fun p => f2 p.1 p.2)) : Sound g' g := by
  intro σ D h p hp rest
  rw [hg'] at h
  obtain ⟨d, hd, h⟩ := bind_ok.mp h
  obtain ⟨q, hq, D1, hD1, r, hr, rfl⟩ := bindPaths_mem h hp
  have e1 := h1 σ d hd q hq (r.2.1 ++ rest)
  have e2 := h2 q.2.2 D1 hD1 r hr rest
  rw [hg]
  simp only [List.append_assoc, e1, bind, Except.bind]
  exact e2

theorem sound_pure : Sound (fun σ => pure [(1, [], σ)]) (fun σ t => pure (σ, t)) := by
  intro σ D h p hp rest
  simp only [pure, Except.pure, Except.ok.injEq] at h
  subst h
  simp only [List.mem_cons, List.not_mem_nil, or_false] at hp
  subst hp
  rfl

theorem pathsAssigns_sound (b : Bool) (l : List (String × Rhs)) :
    Sound (pathsAssigns b l) (simAssigns l) := by
  induction l with
  | nil =>
    intro σ D h p hp rest
    exact sound_pure σ D (by simpa [pathsAssigns] using h) p hp rest
  | cons a l ih =>
    obtain ⟨x, r⟩ := a
    exact sound_seq (pathsAssign_sound b x r .tt x) ih (fun σ => by simp only [pathsAssigns])
      (fun σ t => by simp only [simAssigns])

mutual
theorem pathsStmt_sound (b : Bool) (tmp : Nat → String) (st : Stmt) :
    Sound (pathsStmt b tmp st) (simStmt tmp st) := by
  cases st with
  | assign x rhs g d =>
    intro σ D h p hp rest
    simp only [pathsStmt] at h
    simp only [simStmt]
    exact pathsAssign_sound b x rhs g d σ D h p hp rest
  | simult xs rhss =>
    by_cases hl : xs.length = rhss.length
    · exact sound_seq (pathsAssigns_sound b (simultTemps tmp xs rhss)) (pathsAssigns_sound b (simultCopies tmp xs))
        (fun σ => by simp only [pathsStmt, hl, ne_eq, not_true_eq_false, if_false])
        (fun σ t => by simp only [simStmt, hl, ne_eq, not_true_eq_false, if_false])
    · intro σ D h p hp rest
      simp [pathsStmt, hl, throw_ne_ok] at h
  | ite c t e =>
    intro σ D h p hp rest
    simp only [pathsStmt] at h
    obtain ⟨v, hv, h⟩ := bind_ok.mp h
    simp only [simStmt, hv, bind, Except.bind]
    cases v with
    | true => exact pathsBlock_sound b tmp t σ D (by simpa using h) p hp rest
    | false => exact pathsBlock_sound b tmp e σ D (by simpa using h) p hp rest

theorem pathsBlock_sound (b : Bool) (tmp : Nat → String) (bl : List Stmt) :
    Sound (pathsBlock b tmp bl) (simBlock tmp bl) := by
  cases bl with
  | nil =>
    intro σ D h p hp rest
    simp only [pathsBlock] at h
    simp only [simBlock]
    exact sound_pure σ D h p hp rest
  | cons s rest =>
    exact sound_seq (pathsStmt_sound b tmp s) (pathsBlock_sound b tmp rest)
      (fun σ => by simp only [pathsBlock]) (fun σ t => by simp only [simBlock])
end


theorem pathsIter_sound (b : Bool) (tmp : Nat → String) (P : Program) :
    Sound (pathsIter b tmp P) (simIter tmp P) := by
  intro σ D h p hp rest
  simp only [pathsIter] at h
  obtain ⟨v, hv, h⟩ := bind_ok.mp h
  simp only [simIter, hv, bind, Except.bind]
  cases v with
  | true => exact pathsBlock_sound b tmp P.body σ D (by simpa using h) p hp rest
  | false => exact sound_pure σ D (by simpa using h) p hp rest

theorem pathsIterN_sound (b : Bool) (tmp : Nat → String) (P : Program) (n : Nat) {d D : List PathS}
    (h : pathsIterN b tmp P n d = .ok D) {p : PathS} (hp : p ∈ D) :
    ∃ q ∈ d, ∃ t2, p.2.1 = q.2.1 ++ t2 ∧ ∀ rest, simIterN tmp P n q.2.2 (t2 ++ rest) = .ok (p.2.2, rest) := by
  induction n generalizing d with
  | zero =>
    simp only [pathsIterN, pure, Except.pure, Except.ok.injEq] at h
    subst h
    exact ⟨p, hp, [], by simp, fun rest => rfl⟩
  | succ n ih =>
    simp only [pathsIterN] at h
    obtain ⟨d', hd', h⟩ := bind_ok.mp h
    obtain ⟨q', hq', t2', e1, e2⟩ := ih h
    obtain ⟨q, hq, D1, hD1, r, hr, rfl⟩ := bindPaths_mem hd' hq'
    refine ⟨q, hq, r.2.1 ++ t2', by simp [e1], fun rest => ?_⟩
    have e3 := pathsIter_sound b tmp P q.2.2 D1 hD1 r hr (t2' ++ rest)
    simp only [simIterN, List.append_assoc, e3, bind, Except.bind]
    exact e2 rest

/-- **Replay.**  Every path listed by `simPaths` is a run of the tape-driven interpreter `simRun` (the
    literal model of `Simulator.simulate`): feeding the listed tape yields the listed final state and leaves
    no entry unread. -/
theorem simPaths_sound (b : Bool) (tmp : Nat → String) (P : Program) (n : Nat) (σ₀ : Sim.State)
    {D : List PathS} (h : simPaths b tmp P n σ₀ = .ok D) {p : PathS} (hp : p ∈ D) :
    simRun tmp P n σ₀ p.2.1 = .ok (p.2.2, []) := by
  simp only [simPaths] at h
  obtain ⟨d₀, h0, h⟩ := bind_ok.mp h
  obtain ⟨q, hq, t2, e1, e2⟩ := pathsIterN_sound b tmp P n h hp
  have e3 := pathsBlock_sound b tmp P.init σ₀ d₀ h0 q hq t2
  have e4 := e2 []
  simp only [List.append_nil] at e4
  simp only [simRun, e1, e3, bind, Except.bind]
  exact e4

/-! ### strict enumeration = enumeration, whenever the strict one succeeds -/

theorem options_strict {r : Req} {opts} (h : r.options true = .ok opts) : r.options false = .ok opts := by
  cases r with
  | choices vs ws =>
    simp only [Req.options] at h ⊢
    obtain ⟨u, hg, h⟩ := bind_ok.mp h
    split at h
    · simp [throw_ne_ok, bind, Except.bind, throw, throwThe, MonadExceptOf.throw] at h
    · simp only [hg, bind, Except.bind]
      simpa using h
  | choice vs => simpa [Req.options] using h
  | rvs c => simpa [Req.options] using h

def StrictLe (f g : Sim.State → Sim.M (List PathS)) : Prop := ∀ σ D, f σ = .ok D → g σ = .ok D

theorem bindPaths_strict {f g : Sim.State → Sim.M (List PathS)} (hfg : StrictLe f g) (d : List PathS) {D}
    (h : bindPaths d f = .ok D) : bindPaths d g = .ok D := by
  induction d generalizing D with
  | nil => simpa [bindPaths] using h
  | cons q d ih =>
    obtain ⟨w, t, σ⟩ := q
    simp only [bindPaths] at h ⊢
    obtain ⟨a, ha, h⟩ := bind_ok.mp h
    obtain ⟨b, hb, h⟩ := bind_ok.mp h
    simp only [hfg σ a ha, ih hb, bind, Except.bind]
    exact h

theorem strict_seq {f1 f2 g1 g2 : Sim.State → Sim.M (List PathS)} (h1 : StrictLe f1 g1) (h2 : StrictLe f2 g2) :
    StrictLe (fun σ => f1 σ >>= fun d => bindPaths d f2) (fun σ => g1 σ >>= fun d => bindPaths d g2) := by
  intro σ D h
  obtain ⟨d, hd, h⟩ := bind_ok.mp h
  simp only [h1 σ d hd, bind, Except.bind]
  exact bindPaths_strict h2 d h

theorem pathsAssign_strict (x : String) (rhs : Rhs) (g : Cond) (d : String) :
    StrictLe (pathsAssign true x rhs g d) (pathsAssign false x rhs g d) := by
  intro σ D h
  simp only [pathsAssign] at h ⊢
  obtain ⟨c, hc, h⟩ := bind_ok.mp h
  simp only [hc, bind, Except.bind]
  cases c with
  | true =>
    simp only [if_true] at h ⊢
    obtain ⟨r, hr, h⟩ := bind_ok.mp h
    obtain ⟨opts, ho, h⟩ := bind_ok.mp h
    simp only [hr, options_strict ho, bind, Except.bind]
    exact h
  | false => simpa using h

theorem pathsAssigns_strict (l : List (String × Rhs)) : StrictLe (pathsAssigns true l) (pathsAssigns false l) := by
  induction l with
  | nil => intro σ D h; simpa [pathsAssigns] using h
  | cons a l ih =>
    obtain ⟨x, r⟩ := a
    intro σ D h
    simp only [pathsAssigns] at h ⊢
    exact strict_seq (pathsAssign_strict x r .tt x) ih σ D h

mutual
theorem pathsStmt_strict (tmp : Nat → String) (st : Stmt) :
    StrictLe (pathsStmt true tmp st) (pathsStmt false tmp st) := by
  cases st with
  | assign x rhs g d =>
    intro σ D h
    simp only [pathsStmt] at h ⊢
    exact pathsAssign_strict x rhs g d σ D h
  | simult xs rhss =>
    intro σ D h
    simp only [pathsStmt] at h ⊢
    split at h
    · exact absurd h throw_ne_ok
    · rename_i hl
      simp only [hl, if_false]
      exact strict_seq (pathsAssigns_strict _) (pathsAssigns_strict _) σ D h
  | ite c t e =>
    intro σ D h
    simp only [pathsStmt] at h ⊢
    obtain ⟨v, hv, h⟩ := bind_ok.mp h
    simp only [hv, bind, Except.bind]
    cases v with
    | true => exact pathsBlock_strict tmp t σ D (by simpa using h)
    | false => exact pathsBlock_strict tmp e σ D (by simpa using h)

theorem pathsBlock_strict (tmp : Nat → String) (bl : List Stmt) :
    StrictLe (pathsBlock true tmp bl) (pathsBlock false tmp bl) := by
  cases bl with
  | nil => intro σ D h; simpa [pathsBlock] using h
  | cons s rest =>
    intro σ D h
    simp only [pathsBlock] at h ⊢
    exact strict_seq (pathsStmt_strict tmp s) (pathsBlock_strict tmp rest) σ D h
end

theorem pathsIter_strict (tmp : Nat → String) (P : Program) :
    StrictLe (pathsIter true tmp P) (pathsIter false tmp P) := by
  intro σ D h
  simp only [pathsIter] at h ⊢
  obtain ⟨v, hv, h⟩ := bind_ok.mp h
  simp only [hv, bind, Except.bind]
  cases v with
  | true => exact pathsBlock_strict tmp P.body σ D (by simpa using h)
  | false => simpa using h

theorem pathsIterN_strict (tmp : Nat → String) (P : Program) (n : Nat) {d D : List PathS}
    (h : pathsIterN true tmp P n d = .ok D) : pathsIterN false tmp P n d = .ok D := by
  induction n generalizing d with
  | zero => simpa [pathsIterN] using h
  | succ n ih =>
    simp only [pathsIterN] at h ⊢
    obtain ⟨d', hd', h⟩ := bind_ok.mp h
    simp only [bindPaths_strict (pathsIter_strict tmp P) d hd', bind, Except.bind]
    exact ih h

/-- whenever the strict enumeration (the one `sim_eq_sem` speaks about) succeeds, the enumeration used by
    the executable returns the same list -/
theorem simPaths_strict (tmp : Nat → String) (P : Program) (n : Nat) (σ₀ : Sim.State) {D : List PathS}
    (h : simPaths true tmp P n σ₀ = .ok D) : simPaths false tmp P n σ₀ = .ok D := by
  simp only [simPaths] at h ⊢
  obtain ⟨d₀, h0, h⟩ := bind_ok.mp h
  simp only [pathsBlock_strict tmp P.init σ₀ d₀ h0, bind, Except.bind]
  exact pathsIterN_strict tmp P n h


/-- non-vacuity of `simPaths_sound` / `simPaths_strict`: the example program has paths, and the first one
    replays through `simRun` -/
example : ∃ D p, simPaths true defaultTmp exP 2 [] = .ok D ∧ simPaths false defaultTmp exP 2 [] = .ok D ∧ p ∈ D ∧
    simRun defaultTmp exP 2 [] p.2.1 = .ok (p.2.2, []) := by
  have h2 : isOk (simPaths true defaultTmp exP 2 []) = true := by decide +kernel
  obtain ⟨D, hD⟩ := isOk_iff.mp h2
  have h3 : (match simPaths true defaultTmp exP 2 [] with | .ok d => d.length | .error _ => 0) = 7 := by
    decide +kernel
  rw [hD] at h3
  simp only at h3
  obtain ⟨p, hp⟩ := List.exists_mem_of_length_pos (l := D) (by omega)
  exact ⟨D, p, hD, simPaths_strict _ _ _ _ hD, hp, simPaths_sound _ _ _ _ _ hD hp⟩

/-- non-vacuity of `truncnormal_support` / `sampler_support_agree` -/
example : (0 : Rat) < 2 ∧
    (samplerCall "TruncNormal" [0, 2 * 2, -1, 1]).bind ScipyCall.support = declaredSupport "TruncNormal" [0, 2 * 2, -1, 1] := by
  refine ⟨by norm_num, ?_⟩
  rw [truncnormal_support 0 2 (-1) 1 (by norm_num)]
  rfl

example : ∃ c sup, samplerCall "TruncNormal" [1, 9/4, 0, 6] = some c ∧ c.support = some sup ∧
    declaredSupport "TruncNormal" [1, 9/4, 0, 6] = some sup := by
  refine ⟨⟨"truncnorm", [.divSqrt (0 - 1) (9/4), .divSqrt (6 - 1) (9/4)], .q 1, .sqrt (9/4), 1⟩,
    (some 0, some 6), ?_, ?_, ?_⟩
  · decide +kernel
  · decide +kernel
  · decide +kernel

example : ∃ c sup, samplerCall "Uniform" [-1, 3] = some c ∧ c.support = some sup ∧
    declaredSupport "Uniform" [-1, 3] = some sup := by
  refine ⟨_, (some (-1), some 3), rfl, ?_, ?_⟩
  · decide +kernel
  · decide +kernel

end SimProofs
