/-
  PolarProofs/MvExpect.lean — the expectation `polyE` of the reference semantics as a linear functional on
  `MvPolynomial String ℚ`, used by the soundness proof of V3C (`PolarProofs/ValidateSimCont.lean`).

  * `MonoNF` / `PolyNF`: every monomial of an executable polynomial is strictly sorted by variable name with non-zero
    exponents; preserved by all operations of `Polar/Poly.lean` the semantics uses (`PolyNF.add`, `PolyNF.mul`, `polyNF_pow`, …).
  * `toMv : MPoly → MvPolynomial String ℚ` with `eval_toMv`; two executable polynomials with the same values under all
    valuations have the same image (`toMv_ext`, via `MvPolynomial.funext` over the infinite field ℚ).
  * `EA A`: the product moment functional of the atom table `A` (linear; a monomial goes to the product of the raw
    moments `momentSpec` of its atoms); `polyE_eq_EA`: on `PolyNF` polynomials a successful `polyE A q` IS `EA A (toMv q)`
    — in particular `polyE` respects semantic equality of normal-form polynomials.
  * `EA_indep`: multiplicativity over disjoint variable sets; `EA_append`: atoms beyond the variables are irrelevant.
  * `fubini`: integrating the atoms of the current step first (`NB B`) and the older atoms afterwards.
-/
import Mathlib.Tactic
import Mathlib.Algebra.MvPolynomial.Funext
import Mathlib.Algebra.MvPolynomial.Supported
import Mathlib.Algebra.MvPolynomial.Monad
import Mathlib.RingTheory.MvPolynomial.Basic
import Mathlib.Data.String.Basic
import Std.Data.String.ToNat
import Polar.Sem
import PolarProofs.SynthPoly
import PolarProofs.PolyEval
open Polar Polar.VP

namespace Polar.V3C

/-! ### normal form of monomials -/

/-- strictly sorted by name, no zero exponent -/
def MonoNF (m : Mono) : Prop := m.Pairwise (fun a b => a.1 < b.1) ∧ ∀ p ∈ m, p.2 ≠ 0

def PolyNF (q : MPoly) : Prop := ∀ t ∈ q, MonoNF t.1

theorem monoNF_nil : MonoNF [] := ⟨List.Pairwise.nil, fun _ h => by cases h⟩

theorem insert_names (x : String) (k : Nat) (m : Mono) :
    ∀ p ∈ Mono.insert x k m, p.1 = x ∨ ∃ p' ∈ m, p'.1 = p.1 := by
  induction m with
  | nil =>
    intro p hp
    unfold Mono.insert at hp
    split at hp
    · cases hp
    · simp only [List.mem_singleton] at hp
      subst hp; exact Or.inl rfl
  | cons q m ih =>
    obtain ⟨y, j⟩ := q
    intro p hp
    unfold Mono.insert at hp
    split at hp
    · exact Or.inr ⟨p, hp, rfl⟩
    · split at hp
      · rcases List.mem_cons.mp hp with h | h
        · subst h; exact Or.inr ⟨(y, j), by simp, rfl⟩
        · exact Or.inr ⟨p, by simp [h], rfl⟩
      · split at hp
        · rcases List.mem_cons.mp hp with h | h
          · subst h; exact Or.inl rfl
          · exact Or.inr ⟨p, h, rfl⟩
        · rcases List.mem_cons.mp hp with h | h
          · subst h; exact Or.inr ⟨(y, j), by simp, rfl⟩
          · rcases ih p h with h1 | ⟨p', hp', h1⟩
            · exact Or.inl h1
            · exact Or.inr ⟨p', by simp [hp'], h1⟩

theorem MonoNF.insert {m : Mono} (h : MonoNF m) (x : String) (k : Nat) : MonoNF (Mono.insert x k m) := by
  induction m with
  | nil =>
    unfold Mono.insert
    split
    · exact monoNF_nil
    · rename_i hk
      exact ⟨List.pairwise_singleton _ _, fun p hp => by simp only [List.mem_singleton] at hp; subst hp; exact hk⟩
  | cons q m ih =>
    obtain ⟨y, j⟩ := q
    obtain ⟨hs, he⟩ := h
    have hs' := List.pairwise_cons.mp hs
    have hm : MonoNF m := ⟨hs'.2, fun p hp => he p (by simp [hp])⟩
    unfold Mono.insert
    split
    · exact ⟨hs, he⟩
    · rename_i hk
      split
      · refine ⟨List.pairwise_cons.mpr ⟨fun p hp => hs'.1 p hp, hs'.2⟩, fun p hp => ?_⟩
        rcases List.mem_cons.mp hp with h | h
        · subst h
          have := he (y, j) (by simp)
          simp only at this ⊢
          omega
        · exact he p (by simp [h])
      · rename_i hne
        split
        · rename_i hlt
          refine ⟨List.pairwise_cons.mpr ⟨fun p hp => ?_, hs⟩, fun p hp => ?_⟩
          · rcases List.mem_cons.mp hp with h | h
            · subst h; exact hlt
            · exact lt_trans hlt (hs'.1 p h)
          · rcases List.mem_cons.mp hp with h | h
            · subst h; exact hk
            · exact he p h
        · rename_i hnlt
          have hyx : y < x := lt_of_le_of_ne (not_lt.mp hnlt) (Ne.symm hne)
          have ih' := ih hm
          refine ⟨List.pairwise_cons.mpr ⟨fun p hp => ?_, ih'.1⟩, fun p hp => ?_⟩
          · rcases insert_names x k m p hp with h | ⟨p', hp', h⟩
            · simp only; rw [h]; exact hyx
            · have := hs'.1 p' hp'
              simp only at this ⊢
              rw [← h]; exact this
          · rcases List.mem_cons.mp hp with h | h
            · subst h; exact he (y, j) (by simp)
            · exact ih'.2 p h

theorem MonoNF.mul (a : Mono) {b : Mono} (h : MonoNF b) : MonoNF (Mono.mul a b) := by
  induction a with
  | nil => exact h
  | cons p a ih =>
    have : Mono.mul (p :: a) b = Mono.insert p.1 p.2 (Mono.mul a b) := rfl
    rw [this]
    exact ih.insert _ _

/-! ### normal form of polynomials -/

theorem polyNF_nil : PolyNF [] := fun _ h => by cases h

theorem PolyNF.cons {m : Mono} {c : Rat} {p : MPoly} (hm : MonoNF m) (hp : PolyNF p) : PolyNF ((m, c) :: p) := by
  intro t ht
  rcases List.mem_cons.mp ht with h | h
  · subst h; exact hm
  · exact hp t h

theorem PolyNF.tail {t : Term} {p : MPoly} (h : PolyNF (t :: p)) : PolyNF p := fun u hu => h u (by simp [hu])

theorem PolyNF.insertTerm {m : Mono} (hm : MonoNF m) (c : Rat) {p : MPoly} (hp : PolyNF p) :
    PolyNF (MPoly.insertTerm m c p) := by
  induction p with
  | nil =>
    unfold MPoly.insertTerm
    split
    · exact polyNF_nil
    · exact PolyNF.cons hm polyNF_nil
  | cons t p ih =>
    obtain ⟨m', c'⟩ := t
    have hm' : MonoNF m' := hp (m', c') (by simp)
    unfold MPoly.insertTerm
    split
    · split
      · exact hp
      · exact PolyNF.cons hm hp
    · split
      · exact hp.tail
      · exact PolyNF.cons hm' hp.tail
    · exact PolyNF.cons hm' (ih hp.tail)

theorem PolyNF.add {p q : MPoly} (hp : PolyNF p) (hq : PolyNF q) : PolyNF (MPoly.add p q) := by
  induction p with
  | nil => exact hq
  | cons t p ih =>
    have : MPoly.add (t :: p) q = MPoly.insertTerm t.1 t.2 (MPoly.add p q) := rfl
    rw [this]
    exact PolyNF.insertTerm (hp t (by simp)) _ (ih hp.tail)

theorem PolyNF.scale (c : Rat) {p : MPoly} (hp : PolyNF p) : PolyNF (MPoly.scale c p) := by
  unfold MPoly.scale
  split
  · exact polyNF_nil
  · intro t ht
    obtain ⟨u, hu, rfl⟩ := List.mem_map.mp ht
    exact hp u hu

theorem PolyNF.neg {p : MPoly} (hp : PolyNF p) : PolyNF (MPoly.neg p) := by
  intro t ht
  obtain ⟨u, hu, rfl⟩ := List.mem_map.mp ht
  exact hp u hu

theorem PolyNF.sub {p q : MPoly} (hp : PolyNF p) (hq : PolyNF q) : PolyNF (MPoly.sub p q) := hp.add hq.neg

theorem PolyNF.mulTerm (m : Mono) (c : Rat) {q : MPoly} (hq : PolyNF q) : PolyNF (MPoly.mulTerm m c q) := by
  induction q with
  | nil => exact polyNF_nil
  | cons t q ih =>
    have : MPoly.mulTerm m c (t :: q) = MPoly.insertTerm (Mono.mul m t.1) (c * t.2) (MPoly.mulTerm m c q) := rfl
    rw [this]
    exact PolyNF.insertTerm (MonoNF.mul m (hq t (by simp))) _ (ih hq.tail)

theorem PolyNF.mul (p : MPoly) {q : MPoly} (hq : PolyNF q) : PolyNF (MPoly.mul p q) := by
  induction p with
  | nil => exact polyNF_nil
  | cons t p ih =>
    have : MPoly.mul (t :: p) q = MPoly.add (MPoly.mulTerm t.1 t.2 q) (MPoly.mul p q) := rfl
    rw [this]
    exact (PolyNF.mulTerm _ _ hq).add ih

theorem polyNF_one : PolyNF MPoly.one := PolyNF.cons monoNF_nil polyNF_nil

theorem polyNF_pow (p : MPoly) (k : Nat) : PolyNF (MPoly.pow p k) := by
  induction k with
  | zero => exact polyNF_one
  | succ k ih => exact PolyNF.mul p ih

theorem polyNF_const (c : Rat) : PolyNF (MPoly.const c) := by
  unfold MPoly.const
  split
  · exact polyNF_nil
  · exact PolyNF.cons monoNF_nil polyNF_nil

theorem polyNF_var (x : String) : PolyNF (MPoly.var x) := by
  refine PolyNF.cons ⟨List.pairwise_singleton _ _, fun p hp => ?_⟩ polyNF_nil
  simp only [List.mem_singleton] at hp
  subst hp; exact one_ne_zero

/-! ### the image in `MvPolynomial String ℚ` -/

open MvPolynomial in
/-- a monomial as a product of powers of variables -/
noncomputable def monoMv (m : Mono) : MvPolynomial String ℚ := (m.map (fun p => X p.1 ^ p.2)).prod

open MvPolynomial in
noncomputable def toMv (q : MPoly) : MvPolynomial String ℚ := (q.map (fun t => C t.2 * monoMv t.1)).sum

/-- the exponent vector of a monomial -/
noncomputable def monoF (m : Mono) : String →₀ ℕ := (m.map (fun p => Finsupp.single p.1 p.2)).sum

theorem monoMv_nil : monoMv [] = 1 := rfl

theorem monoMv_cons (p : String × Nat) (m : Mono) : monoMv (p :: m) = MvPolynomial.X p.1 ^ p.2 * monoMv m := by
  simp [monoMv]

theorem toMv_nil : toMv [] = 0 := rfl

theorem toMv_cons (t : Term) (q : MPoly) : toMv (t :: q) = MvPolynomial.C t.2 * monoMv t.1 + toMv q := by
  simp [toMv]

theorem monoF_nil : monoF [] = 0 := rfl

theorem monoF_cons (p : String × Nat) (m : Mono) : monoF (p :: m) = Finsupp.single p.1 p.2 + monoF m := by
  simp [monoF]

theorem eval_monoMv (τ : String → ℚ) (m : Mono) : MvPolynomial.eval τ (monoMv m) = Mono.eval τ m := by
  induction m with
  | nil => simp [monoMv_nil, Mono.eval_nil]
  | cons p m ih => rw [monoMv_cons, Mono.eval_cons, map_mul, map_pow, MvPolynomial.eval_X, ih]

theorem eval_toMv (τ : String → ℚ) (q : MPoly) : MvPolynomial.eval τ (toMv q) = MPoly.eval τ q := by
  induction q with
  | nil => simp [toMv_nil, MPoly.eval_nil]
  | cons t q ih => rw [toMv_cons, MPoly.eval_cons, map_add, map_mul, MvPolynomial.eval_C, eval_monoMv, ih]

/-- the image is determined by the values -/
theorem toMv_ext {p : MPoly} {Q : MvPolynomial String ℚ} (h : ∀ τ, MPoly.eval τ p = MvPolynomial.eval τ Q) :
    toMv p = Q :=
  MvPolynomial.funext (fun τ => by rw [eval_toMv, h])

theorem toMv_add (p q : MPoly) : toMv (MPoly.add p q) = toMv p + toMv q :=
  toMv_ext (fun τ => by rw [MPoly.eval_add, map_add, eval_toMv, eval_toMv])

theorem toMv_mul (p q : MPoly) : toMv (MPoly.mul p q) = toMv p * toMv q :=
  toMv_ext (fun τ => by rw [MPoly.eval_mul, map_mul, eval_toMv, eval_toMv])

theorem toMv_pow (p : MPoly) (k : Nat) : toMv (MPoly.pow p k) = toMv p ^ k :=
  toMv_ext (fun τ => by rw [MPoly.eval_pow, map_pow, eval_toMv])

theorem toMv_one : toMv MPoly.one = 1 :=
  toMv_ext (fun τ => by rw [MPoly.eval_one, map_one])

theorem toMv_const (c : Rat) : toMv (MPoly.const c) = MvPolynomial.C c :=
  toMv_ext (fun τ => by rw [MPoly.eval_const, MvPolynomial.eval_C])

theorem toMv_var (x : String) : toMv (MPoly.var x) = MvPolynomial.X x :=
  toMv_ext (fun τ => by rw [MPoly.eval_var, MvPolynomial.eval_X])

theorem monoMv_eq_monomial (m : Mono) : monoMv m = MvPolynomial.monomial (monoF m) 1 := by
  induction m with
  | nil => simp [monoMv_nil, monoF_nil]
  | cons p m ih => rw [monoMv_cons, monoF_cons, ih, MvPolynomial.monomial_single_add]

/-! ### the product moment functional -/

/-- raw moment of order `e` of the atom named `x` in the table `A` (1 for `e = 0`; 0 where the semantics fails) -/
def muA (A : List Atom) (x : String) (e : Nat) : ℚ :=
  if e = 0 then 1 else
    match atomIndex? x with
    | some i =>
      match A[i]? with
      | some a => (momentSpec a e).getD 0
      | none => 0
    | none => 0

theorem muA_zero (A : List Atom) (x : String) : muA A x 0 = 1 := by simp [muA]

/-- the expectation of a polynomial over the atom names: linear, a monomial goes to the product of the moments -/
noncomputable def EA (A : List Atom) : MvPolynomial String ℚ →ₗ[ℚ] ℚ :=
  (MvPolynomial.basisMonomials String ℚ).constr ℚ (fun s => s.prod (muA A))

theorem EA_monomial (A : List Atom) (s : String →₀ ℕ) (c : ℚ) :
    EA A (MvPolynomial.monomial s c) = c * s.prod (muA A) := by
  have h1 : MvPolynomial.monomial s c = c • (MvPolynomial.basisMonomials String ℚ) s := by
    rw [MvPolynomial.coe_basisMonomials, MvPolynomial.smul_monomial, smul_eq_mul, mul_one]
  rw [h1, map_smul, EA, Module.Basis.constr_basis, smul_eq_mul]

theorem EA_C (A : List Atom) (c : ℚ) : EA A (MvPolynomial.C c) = c := by
  have : (MvPolynomial.C c : MvPolynomial String ℚ) = MvPolynomial.monomial 0 c := rfl
  rw [this, EA_monomial]
  simp

theorem EA_C_mul (A : List Atom) (c : ℚ) (p : MvPolynomial String ℚ) : EA A (MvPolynomial.C c * p) = c * EA A p := by
  rw [MvPolynomial.C_mul', map_smul, smul_eq_mul]

theorem atomMonoE_nil (A : List Atom) : atomMonoE A [] = .ok 1 := rfl

theorem atomMonoE_cons_ok {A : List Atom} {x : String} {e : Nat} {m : Mono} {r : Rat}
    (h : atomMonoE A ((x, e) :: m) = .ok r) :
    ∃ acc i a mk, atomMonoE A m = .ok acc ∧ atomIndex? x = some i ∧ A[i]? = some a ∧ momentSpec a e = some mk ∧
      r = mk * acc := by
  simp only [atomMonoE, List.foldrM_cons] at h
  obtain ⟨acc, hacc, h⟩ := bind_ok.mp h
  refine ⟨acc, ?_⟩
  cases hi : atomIndex? x with
  | none => simp [hi, throw_ne_ok] at h
  | some i =>
    cases ha : A[i]? with
    | none => simp [hi, ha, throw_ne_ok] at h
    | some a =>
      cases hm : momentSpec a e with
      | none => simp [hi, ha, hm, throw_ne_ok] at h
      | some mk =>
        simp only [hi, ha, hm, pure, Except.pure, Except.ok.injEq] at h
        exact ⟨i, a, mk, hacc, rfl, ha, hm, h.symm⟩

theorem monoF_support {m : Mono} {y : String} (h : y ∈ (monoF m).support) : ∃ p ∈ m, p.1 = y := by
  induction m with
  | nil => simp [monoF_nil] at h
  | cons p m ih =>
    rw [monoF_cons] at h
    rcases Finset.mem_union.mp (Finsupp.support_add h) with h1 | h1
    · have := Finsupp.support_single_subset h1
      simp only [Finset.mem_singleton] at this
      exact ⟨p, by simp, this.symm⟩
    · obtain ⟨p', hp', h2⟩ := ih h1
      exact ⟨p', by simp [hp'], h2⟩

theorem atomMonoE_eq {A : List Atom} {m : Mono} (hm : MonoNF m) {r : Rat} (h : atomMonoE A m = .ok r) :
    r = (monoF m).prod (muA A) := by
  induction m generalizing r with
  | nil =>
    rw [atomMonoE_nil] at h
    simp only [Except.ok.injEq] at h
    rw [← h, monoF_nil]; simp
  | cons p m ih =>
    obtain ⟨x, e⟩ := p
    obtain ⟨acc, i, a, mk, hacc, hi, ha, hmk, rfl⟩ := atomMonoE_cons_ok h
    have hs := List.pairwise_cons.mp hm.1
    have hm' : MonoNF m := ⟨hs.2, fun p hp => hm.2 p (by simp [hp])⟩
    have he : e ≠ 0 := hm.2 (x, e) (by simp)
    have hdis : Disjoint (Finsupp.single x e).support (monoF m).support := by
      rw [Finset.disjoint_left]
      intro y hy hy'
      have := Finsupp.support_single_subset hy
      simp only [Finset.mem_singleton] at this
      subst this
      obtain ⟨p', hp', h2⟩ := monoF_support hy'
      have := hs.1 p' hp'
      simp only at this
      rw [h2] at this
      exact lt_irrefl _ this
    rw [monoF_cons, Finsupp.prod_add_index_of_disjoint hdis, ← ih hm' hacc,
      Finsupp.prod_single_index (muA_zero A x)]
    simp [muA, he, hi, ha, hmk]

theorem polyE_nil (A : List Atom) : polyE A [] = .ok 0 := rfl

theorem polyE_cons_ok {A : List Atom} {t : Term} {q : MPoly} {r : Rat} (h : polyE A (t :: q) = .ok r) :
    ∃ acc v, polyE A q = .ok acc ∧ atomMonoE A t.1 = .ok v ∧ r = t.2 * v + acc := by
  simp only [polyE, List.foldrM_cons] at h
  obtain ⟨acc, hacc, h⟩ := bind_ok.mp h
  obtain ⟨v, hv, h⟩ := bind_ok.mp h
  rw [pure_ok] at h
  exact ⟨acc, v, hacc, hv, h.symm⟩

/-- on normal-form polynomials a successful `polyE` is the linear functional `EA` of the denoted polynomial -/
theorem polyE_eq_EA {A : List Atom} {q : MPoly} (hq : PolyNF q) {r : Rat} (h : polyE A q = .ok r) :
    r = EA A (toMv q) := by
  induction q generalizing r with
  | nil =>
    rw [polyE_nil] at h
    simp only [Except.ok.injEq] at h
    rw [← h, toMv_nil, map_zero]
  | cons t q ih =>
    obtain ⟨acc, v, hacc, hv, rfl⟩ := polyE_cons_ok h
    rw [toMv_cons, map_add, ← ih hq.tail hacc, monoMv_eq_monomial, MvPolynomial.C_mul_monomial, mul_one, EA_monomial,
      ← atomMonoE_eq (hq t (by simp)) hv]

/-! ### polynomials supported on a set of variables -/

open MvPolynomial in
theorem supported_induction {S : Set String} {Mo : MvPolynomial String ℚ → Prop} (h0 : Mo 0)
    (hadd : ∀ p q, Mo p → Mo q → Mo (p + q))
    (hmono : ∀ (s : String →₀ ℕ) (c : ℚ), (∀ x ∈ s.support, x ∈ S) → Mo (monomial s c)) :
    ∀ p ∈ supported ℚ S, Mo p := by
  intro p hp
  rw [p.as_sum]
  refine Finset.sum_induction _ Mo hadd h0 (fun v hv => hmono v _ (fun x hx => ?_))
  have hsub := mem_supported.mp hp
  exact hsub (Finset.mem_coe.mpr ((mem_vars_iff_mem_support x).mpr ⟨v, hv, hx⟩))

open MvPolynomial in
theorem bind₁_mem_supported {S S' : Set String} {f : String → MvPolynomial String ℚ}
    (hf : ∀ y ∈ S, f y ∈ supported ℚ S') : ∀ p ∈ supported ℚ S, bind₁ f p ∈ supported ℚ S' := by
  refine supported_induction (by rw [map_zero]; exact zero_mem _)
    (fun p q hp hq => by rw [map_add]; exact add_mem hp hq) (fun s c hs => ?_)
  rw [bind₁_monomial]
  exact mul_mem (Subalgebra.algebraMap_mem _ c)
    (Subalgebra.prod_mem _ (fun x hx => Subalgebra.pow_mem _ (hf x (hs x hx)) _))

open MvPolynomial in
theorem bind₁_congr_supported {S : Set String} {f g : String → MvPolynomial String ℚ}
    (hfg : ∀ y ∈ S, f y = g y) : ∀ p ∈ supported ℚ S, bind₁ f p = bind₁ g p := by
  refine supported_induction (by rw [map_zero, map_zero])
    (fun p q hp hq => by rw [map_add, map_add, hp, hq]) (fun s c hs => ?_)
  rw [bind₁_monomial, bind₁_monomial]
  congr 1
  exact Finset.prod_congr rfl (fun x hx => by rw [hfg x (hs x hx)])

open MvPolynomial in
theorem monoMv_mem_supported {S : Set String} {m : Mono} (h : ∀ xe ∈ m, xe.1 ∈ S) : monoMv m ∈ supported ℚ S := by
  induction m with
  | nil => rw [monoMv_nil]; exact one_mem _
  | cons p m ih =>
    rw [monoMv_cons]
    exact mul_mem (Subalgebra.pow_mem _ (X_mem_supported.mpr (h p (by simp))) _)
      (ih (fun xe hxe => h xe (by simp [hxe])))

open MvPolynomial in
theorem toMv_mem_supported {S : Set String} {q : MPoly} (h : ∀ t ∈ q, ∀ xe ∈ t.1, xe.1 ∈ S) :
    toMv q ∈ supported ℚ S := by
  induction q with
  | nil => rw [toMv_nil]; exact zero_mem _
  | cons t q ih =>
    rw [toMv_cons]
    exact add_mem (mul_mem (Subalgebra.algebraMap_mem _ t.2) (monoMv_mem_supported (h t (by simp))))
      (ih (fun u hu => h u (by simp [hu])))

/-! ### independence, irrelevant atoms -/

open MvPolynomial in
/-- only the moments of the variables that occur matter -/
theorem EA_congr {A A' : List Atom} {S : Set String} (h : ∀ x ∈ S, ∀ e, muA A x e = muA A' x e) :
    ∀ p ∈ supported ℚ S, EA A p = EA A' p := by
  refine supported_induction (by rw [map_zero, map_zero])
    (fun p q hp hq => by rw [map_add, map_add, hp, hq]) (fun s c hs => ?_)
  rw [EA_monomial, EA_monomial]
  congr 1
  exact Finset.prod_congr rfl (fun x hx => h x (hs x hx) _)

open MvPolynomial in
/-- polynomials in disjoint sets of atoms are independent -/
theorem EA_indep (A : List Atom) {S S' : Set String} (hd : ∀ x ∈ S, x ∉ S') :
    ∀ p ∈ supported ℚ S, ∀ q ∈ supported ℚ S', EA A (p * q) = EA A p * EA A q := by
  refine supported_induction (Mo := fun p => ∀ q ∈ supported ℚ S', EA A (p * q) = EA A p * EA A q) ?_ ?_ ?_
  · intro q _; simp
  · intro p p' h h' q hq
    rw [add_mul, map_add, map_add, h q hq, h' q hq, add_mul]
  · intro s c hs
    refine supported_induction (Mo := fun q => EA A (monomial s c * q) = EA A (monomial s c) * EA A q) ?_ ?_ ?_
    · simp
    · intro q q' h h'
      rw [mul_add, map_add, map_add, h, h', mul_add]
    · intro s' c' hs'
      rw [monomial_mul, EA_monomial, EA_monomial, EA_monomial]
      have hdis : Disjoint s.support s'.support := by
        rw [Finset.disjoint_left]
        exact fun x hx hx' => hd x (hs x hx) (hs' x hx')
      rw [Finsupp.prod_add_index_of_disjoint hdis]
      ring

theorem EA_X_pow (A : List Atom) (x : String) (e : Nat) : EA A (MvPolynomial.X x ^ e) = muA A x e := by
  rw [MvPolynomial.X_pow_eq_monomial, EA_monomial, Finsupp.prod_single_index (muA_zero A x), one_mul]

/-! ### integrating the atoms of the current step first -/

section Fubini
open MvPolynomial

/-- integrate the variables marked by `isAt` with the moments of the table `B`, keep the other variables -/
noncomputable def NB (isAt : String → Prop) [DecidablePred isAt] (B : List Atom) :
    MvPolynomial String ℚ →ₗ[ℚ] MvPolynomial String ℚ :=
  (basisMonomials String ℚ).constr ℚ (fun s => s.prod (fun x e => if isAt x then C (muA B x e) else X x ^ e))

theorem NB_monomial (isAt : String → Prop) [DecidablePred isAt] (B : List Atom) (s : String →₀ ℕ) (c : ℚ) :
    NB isAt B (monomial s c) = c • s.prod (fun x e => if isAt x then C (muA B x e) else X x ^ e) := by
  have h1 : monomial s c = c • (basisMonomials String ℚ) s := by
    rw [coe_basisMonomials, smul_monomial, smul_eq_mul, mul_one]
  rw [h1, map_smul, NB, Module.Basis.constr_basis]

theorem EA_atoms_mul {A A' B : List Atom} {Sold Snew : Set String} {shift : String → String}
    (h1 : ∀ x ∈ Sold, ∀ e, muA A' x e = muA A x e)
    (h2 : ∀ x ∈ Snew, ∀ e, muA A' (shift x) e = muA B x e)
    (h3 : ∀ x ∈ Snew, shift x ∉ Sold) (h3' : ∀ x ∈ Snew, ∀ y ∈ Snew, shift x = shift y → x = y)
    (e : String → ℕ) (T : Finset String) (hT : ∀ x ∈ T, x ∈ Snew) {W : MvPolynomial String ℚ}
    (hW : W ∈ supported ℚ Sold) :
    EA A' ((∏ x ∈ T, X (shift x) ^ e x) * W) = (∏ x ∈ T, muA B x (e x)) * EA A W := by
  induction T using Finset.induction_on with
  | empty =>
    simp only [Finset.prod_empty, one_mul]
    exact EA_congr h1 W hW
  | insert a T ha ih =>
    have hTn : ∀ x ∈ T, x ∈ Snew := fun x hx => hT x (Finset.mem_insert_of_mem hx)
    have haN : a ∈ Snew := hT a (Finset.mem_insert_self a T)
    have hrest : (∏ x ∈ T, X (shift x) ^ e x) * W ∈ supported ℚ (Sold ∪ shift '' (↑T : Set String)) :=
      mul_mem (Subalgebra.prod_mem _ (fun x hx => Subalgebra.pow_mem _
        (X_mem_supported.mpr
          (Set.mem_union_right Sold (Set.mem_image_of_mem shift (Finset.mem_coe.mpr hx)))) _))
        (supported_mono Set.subset_union_left hW)
    have hdis : ∀ y ∈ ({shift a} : Set String), y ∉ Sold ∪ shift '' (↑T : Set String) := by
      intro y hy
      rw [Set.mem_singleton_iff] at hy
      subst hy
      rintro (h | ⟨x, hx, hxe⟩)
      · exact h3 a haN h
      · have := h3' x (hTn x (Finset.mem_coe.mp hx)) a haN hxe
        subst this
        exact ha (Finset.mem_coe.mp hx)
    have hX : (X (shift a) ^ e a : MvPolynomial String ℚ) ∈ supported ℚ ({shift a} : Set String) :=
      Subalgebra.pow_mem _ (X_mem_supported.mpr (Set.mem_singleton _)) _
    rw [Finset.prod_insert ha, Finset.prod_insert ha, mul_assoc, EA_indep A' hdis _ hX _ hrest, EA_X_pow, h2 a haN,
      ih hTn, mul_assoc]

/-- **Fubini for the product moment functional.**  `G` is a polynomial over symbols `V` and step-local atoms `Snew`;
    `Θ` substitutes polynomials over the old atoms `Sold` for the symbols and renames the local atoms to their global
    names.  Its expectation w.r.t. the full table is the expectation w.r.t. the old table of the polynomial obtained
    by integrating the local atoms first. -/
theorem fubini {A A' B : List Atom} {Sold Snew V : Set String} {shift : String → String}
    (isAt : String → Prop) [DecidablePred isAt]
    (h1 : ∀ x ∈ Sold, ∀ e, muA A' x e = muA A x e)
    (h2 : ∀ x ∈ Snew, ∀ e, muA A' (shift x) e = muA B x e)
    (h3 : ∀ x ∈ Snew, shift x ∉ Sold) (h3' : ∀ x ∈ Snew, ∀ y ∈ Snew, shift x = shift y → x = y)
    {Θ ΘV : String → MvPolynomial String ℚ}
    (hat : ∀ x, (x ∈ V ∨ x ∈ Snew) → isAt x → x ∈ Snew ∧ Θ x = X (shift x))
    (hV : ∀ x, (x ∈ V ∨ x ∈ Snew) → ¬ isAt x → Θ x = ΘV x ∧ ΘV x ∈ supported ℚ Sold) :
    ∀ G ∈ supported ℚ (V ∪ Snew), EA A' (bind₁ Θ G) = EA A (bind₁ ΘV (NB isAt B G)) := by
  refine supported_induction (by simp)
    (fun p q hp hq => by rw [map_add, map_add, map_add, map_add, map_add, hp, hq]) (fun s c hs => ?_)
  rw [bind₁_monomial, NB_monomial, map_smul, map_smul, smul_eq_mul, EA_C_mul]
  congr 1
  rw [Finsupp.prod, map_prod (bind₁ ΘV)]
  rw [← Finset.prod_filter_mul_prod_filter_not s.support isAt (fun x => Θ x ^ s x),
    ← Finset.prod_filter_mul_prod_filter_not s.support isAt
      (fun x => bind₁ ΘV (if isAt x then C (muA B x (s x)) else X x ^ s x))]
  have e1 : ∏ x ∈ s.support.filter isAt, Θ x ^ s x = ∏ x ∈ s.support.filter isAt, X (shift x) ^ s x :=
    Finset.prod_congr rfl (fun x hx => by
      obtain ⟨hx1, hx2⟩ := Finset.mem_filter.mp hx
      rw [(hat x (hs x hx1) hx2).2])
  have e2 : ∏ x ∈ s.support.filter (fun x => ¬ isAt x), Θ x ^ s x
      = ∏ x ∈ s.support.filter (fun x => ¬ isAt x), ΘV x ^ s x :=
    Finset.prod_congr rfl (fun x hx => by
      obtain ⟨hx1, hx2⟩ := Finset.mem_filter.mp hx
      rw [(hV x (hs x hx1) hx2).1])
  have e3 : ∏ x ∈ s.support.filter isAt, bind₁ ΘV (if isAt x then C (muA B x (s x)) else X x ^ s x)
      = ∏ x ∈ s.support.filter isAt, C (muA B x (s x)) :=
    Finset.prod_congr rfl (fun x hx => by
      obtain ⟨hx1, hx2⟩ := Finset.mem_filter.mp hx
      rw [if_pos hx2, bind₁_C_right])
  have e4 : ∏ x ∈ s.support.filter (fun x => ¬ isAt x),
        bind₁ ΘV (if isAt x then C (muA B x (s x)) else X x ^ s x)
      = ∏ x ∈ s.support.filter (fun x => ¬ isAt x), ΘV x ^ s x :=
    Finset.prod_congr rfl (fun x hx => by
      obtain ⟨hx1, hx2⟩ := Finset.mem_filter.mp hx
      rw [if_neg hx2, map_pow, bind₁_X_right])
  have hW : ∏ x ∈ s.support.filter (fun x => ¬ isAt x), ΘV x ^ s x ∈ supported ℚ Sold :=
    Subalgebra.prod_mem _ (fun x hx => by
      obtain ⟨hx1, hx2⟩ := Finset.mem_filter.mp hx
      exact Subalgebra.pow_mem _ (hV x (hs x hx1) hx2).2 _)
  rw [e1, e2, e3, e4, EA_atoms_mul h1 h2 h3 h3' (fun x => s x) _ (fun x hx => by
      obtain ⟨hx1, hx2⟩ := Finset.mem_filter.mp hx
      exact (hat x (hs x hx1) hx2).1) hW, ← map_prod C, EA_C_mul]

end Fubini

end Polar.V3C
