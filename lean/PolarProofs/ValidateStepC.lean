/-
  PolarProofs/ValidateStepC.lean — soundness of V2 for programs WITH continuous draws (`checkOneStepC`,
  `Polar/ValidateStepC.lean`) and the recurrence for ALL n (C03 / C01 glue).

  Setting.  A concrete path `q` carries an atom table `A = q.atoms` and values that are polynomials over the atoms
  `@0 … @(|A|-1)`.  One `iter P` from `q` appends the atoms `A'` drawn in the step; `pathE` integrates a monomial over
  ALL atoms `A ++ A'` (`atomMonoE`: one `momentSpec` factor per atom power, distinct atoms multiply).  The validator
  runs the same `iter P` from the symbolic store with an EMPTY atom table, so its atom `@i` is the concrete atom
  `@(|A|+i)` and a free symbol `x` stands for the polynomial `q.vals x` (`theta`, `subF`; simulation `iterS_sim` of
  `PolarProofs/ValidateCont.lean`, which now also records that the concrete atom table is `A ++` the symbolic one).

  Proof route.
  * `toMv`, `toMv_ext` — executable polynomials as `MvPolynomial String ℚ`; two of them with the same values under every
    valuation are EQUAL there (`MvPolynomial.funext`, ℚ infinite), so all syntactic differences between the concrete
    and the symbolic computation disappear.
  * `EL μ` — the linear functional `Π x^k ↦ Π μ x k`; `EL_X_pow_mul` (**independence**: a power of a variable that does
    not occur in `p` factors out as its moment), `EL_congr`.
  * `polyE_EL` — on polynomials whose monomials have strictly sorted names and positive exponents (`PolyWF`) `polyE A`
    IS `EL (muOf A)`; `monoValue_wf`: every `monoValue s m` is such a polynomial, whatever the store holds (needed
    because `atomMonoE` multiplies one moment per LIST ENTRY of a monomial).
  * `polyEC_spec` — **the partial expectation is sound**: if every value of the concrete store depends on the atoms of
    `A` only (`StoreDep`), then `EL (A ++ A') (p[subF]) = EL A ((polyEC A' p)[subF])`: the new atoms are independent of
    the old values and are integrated exactly by `termEC`.
  * `checkOneStepC_sound` — **V2 with continuous draws**: `checkOneStepC cap Γ P M terms = .ok true` ⇒ from every path
    `q` with `InvC Γ q` (typed variables are, as functions of the atoms, constants of their sets; every value depends
    only on the atoms of the path): `E over one iter P of M = Σ cᵢ · E(Mᵢ)(q)`.
  * `run_dep` — every path of `run P false n σ₀` of a `FragmentC` program from a closed store (`ClosedStore σ₀`: values
    that do not depend on the valuation, e.g. rational constants, `ConcStore.closed`) satisfies `PathDep`.
  * `recurrence_holds_forall_nC` (n ≥ 1: `checkInductiveC cap Γ0 Γ P ∧ checkOneStepC cap' Γ P M terms`) and
    `recurrence_holds_from_zeroC` (n ≥ 0: one-step identity checked on the `Γ0`-states), their `momentU` forms
    `recurrence_momentU_C`, `recurrence_momentU_from_zeroC`, and with `Σ cᵢ · momentU P Mᵢ n σ₀` spelled out
    (`linMomentU`): `recurrence_momentU_sum_C`, `recurrence_momentU_sum_from_zeroC`; `mass_preservedC`.

  Restrictions.  `FragmentC P` (flat guarded assignments, right side expression / choice / one of the nine families; no
  `simult`, no `ite`), no variable name starting with `@`.  Draw parameters: exactly what `evalRhs` accepts (variance /
  scale / rate / shape parameters constant on every Γ-state, mean of Normal/Laplace and bounds of Uniform polynomial in
  the old values) — no further side condition.  Initial store: `ClosedStore σ₀` (a store that mentions the name of a
  FUTURE atom would be correlated with that draw).  "Whenever the quantities are defined", un-merged run
  (`run P false`), zero-weight paths exempt — as in `PolarProofs/Validate.lean`.
-/
import Mathlib.Tactic
import Mathlib.Algebra.MvPolynomial.Funext
import Mathlib.Algebra.MvPolynomial.Monad
import Mathlib.Algebra.MvPolynomial.Supported
import Mathlib.RingTheory.MvPolynomial.Basic
import Std.Data.String.ToNat
import Polar.ValidateStepC
import PolarProofs.PolyEval
import PolarProofs.Validate
import PolarProofs.ValidateCont
open Polar Polar.Validate MvPolynomial

namespace Polar.VP

/-! ### executable polynomials as `MvPolynomial String ℚ` -/

noncomputable def monoMv (m : Mono) : MvPolynomial String ℚ :=
  m.foldr (fun (p : String × Nat) acc => X p.1 ^ p.2 * acc) 1

noncomputable def toMv (p : MPoly) : MvPolynomial String ℚ :=
  p.foldr (fun (t : Term) acc => C t.2 * monoMv t.1 + acc) 0

theorem monoMv_nil : monoMv [] = 1 := rfl
theorem monoMv_cons (p : String × Nat) (m : Mono) : monoMv (p :: m) = X p.1 ^ p.2 * monoMv m := rfl
theorem toMv_nil : toMv [] = 0 := rfl
theorem toMv_cons (t : Term) (p : MPoly) : toMv (t :: p) = C t.2 * monoMv t.1 + toMv p := rfl

theorem eval_monoMv (τ : String → ℚ) (m : Mono) : eval τ (monoMv m) = Mono.eval τ m := by
  induction m with
  | nil => simp [monoMv_nil, Mono.eval_nil]
  | cons p m ih => simp [monoMv_cons, Mono.eval_cons, ih]

theorem eval_toMv (τ : String → ℚ) (p : MPoly) : eval τ (toMv p) = MPoly.eval τ p := by
  induction p with
  | nil => simp [toMv_nil, MPoly.eval_nil]
  | cons t p ih => simp [toMv_cons, MPoly.eval_cons, ih, eval_monoMv]

/-- polynomials with the same values are the same `MvPolynomial` (ℚ is infinite) -/
theorem toMv_ext {p q : MPoly} (h : ∀ τ, MPoly.eval τ p = MPoly.eval τ q) : toMv p = toMv q :=
  MvPolynomial.funext (fun τ => by rw [eval_toMv, eval_toMv, h])

theorem toMv_add (p q : MPoly) : toMv (MPoly.add p q) = toMv p + toMv q :=
  MvPolynomial.funext (fun τ => by simp [eval_toMv, MPoly.eval_add])

theorem toMv_scale (c : ℚ) (p : MPoly) : toMv (MPoly.scale c p) = C c * toMv p :=
  MvPolynomial.funext (fun τ => by simp [eval_toMv, MPoly.eval_scale])

/-! ### the expectation functional on `MvPolynomial` -/

/-- the linear functional that replaces every monomial `Π x^k` by `Π μ x k` -/
noncomputable def EL (μ : String → ℕ → ℚ) : MvPolynomial String ℚ →ₗ[ℚ] ℚ :=
  (basisMonomials String ℚ).constr ℚ (fun s => s.prod μ)

theorem EL_monomial (μ : String → ℕ → ℚ) (s : String →₀ ℕ) (c : ℚ) : EL μ (monomial s c) = c * s.prod μ := by
  have h1 : monomial s c = c • (basisMonomials String ℚ) s := by
    rw [coe_basisMonomials, smul_monomial]; simp
  rw [h1, map_smul, EL, Module.Basis.constr_basis]
  simp

theorem EL_eq_sum (μ : String → ℕ → ℚ) (p : MvPolynomial String ℚ) :
    EL μ p = ∑ s ∈ p.support, coeff s p * s.prod μ := by
  conv_lhs => rw [p.as_sum]
  rw [map_sum]
  exact Finset.sum_congr rfl (fun s _ => EL_monomial μ s _)

/-- the functional only looks at the moments of the variables that occur -/
theorem EL_congr {μ μ' : String → ℕ → ℚ} {p : MvPolynomial String ℚ}
    (h : ∀ x ∈ p.vars, ∀ k, μ x k = μ' x k) : EL μ p = EL μ' p := by
  rw [EL_eq_sum, EL_eq_sum]
  refine Finset.sum_congr rfl (fun s hs => ?_)
  congr 1
  refine Finset.prod_congr rfl (fun x hx => h x ?_ _)
  exact (mem_vars_iff_mem_support x).mpr ⟨s, hs, hx⟩

/-- **independence**: a power of a variable that does not occur in `p` factors out as its moment -/
theorem EL_X_pow_mul (μ : String → ℕ → ℚ) {y : String} {e : ℕ} (he : 0 < e) {p : MvPolynomial String ℚ}
    (hy : y ∉ p.vars) : EL μ (X y ^ e * p) = μ y e * EL μ p := by
  have he' : e ≠ 0 := by omega
  conv_lhs => rw [p.as_sum]
  rw [Finset.mul_sum, map_sum, EL_eq_sum, Finset.mul_sum]
  refine Finset.sum_congr rfl (fun s hs => ?_)
  have hys : y ∉ s.support := fun hx => hy ((mem_vars_iff_mem_support y).mpr ⟨s, hs, hx⟩)
  rw [X_pow_eq_monomial, monomial_mul, EL_monomial, one_mul]
  have hsup : (Finsupp.single y e).support = {y} := by
    rw [Finsupp.support_single]; simp [he']
  have hd : Disjoint (Finsupp.single y e).support s.support := by
    rw [hsup]; simpa using hys
  rw [Finsupp.prod_add_index_of_disjoint hd]
  have : (Finsupp.single y e).prod μ = μ y e := by
    rw [Finsupp.prod, hsup]; simp
  rw [this]; ring

/-! ### well-formed monomials: strictly sorted names, positive exponents

`atomMonoE` multiplies one moment per LIST ENTRY, so it agrees with the functional `EL` only on monomials without
repeated names.  Every monomial of `monoValue s m` is well-formed, whatever the store holds. -/

def MonoWF (m : Mono) : Prop := m.Pairwise (fun p q => p.1 < q.1) ∧ ∀ p ∈ m, 0 < p.2

def PolyWF (p : MPoly) : Prop := ∀ t ∈ p, MonoWF t.1

theorem str_lt_of_ne_of_not_lt {x y : String} (h1 : ¬ x = y) (h2 : ¬ x < y) : y < x :=
  Classical.byContradiction (fun hn => h1 (String.le_antisymm hn h2))

theorem insert_names (x : String) (k : Nat) (m : Mono) :
    ∀ p ∈ Mono.insert x k m, p.1 = x ∨ ∃ p' ∈ m, p'.1 = p.1 := by
  induction m with
  | nil =>
    intro p hp
    unfold Mono.insert at hp
    split at hp
    · cases hp
    · simp only [List.mem_singleton] at hp
      subst hp; exact Or.inl rfl
  | cons a m ih =>
    obtain ⟨y, j⟩ := a
    intro p hp
    unfold Mono.insert at hp
    split at hp
    · exact Or.inr ⟨p, hp, rfl⟩
    · split at hp
      · rcases List.mem_cons.mp hp with rfl | hp
        · exact Or.inr ⟨(y, j), by simp, rfl⟩
        · exact Or.inr ⟨p, by simp [hp], rfl⟩
      · split at hp
        · rcases List.mem_cons.mp hp with rfl | hp
          · exact Or.inl rfl
          · exact Or.inr ⟨p, hp, rfl⟩
        · rcases List.mem_cons.mp hp with rfl | hp
          · exact Or.inr ⟨(y, j), by simp, rfl⟩
          · rcases ih p hp with h | ⟨p', hp', h⟩
            · exact Or.inl h
            · exact Or.inr ⟨p', by simp [hp'], h⟩

theorem insert_wf (x : String) (k : Nat) {m : Mono} (h : MonoWF m) : MonoWF (Mono.insert x k m) := by
  induction m with
  | nil =>
    unfold Mono.insert
    split
    · exact h
    · rename_i hk
      exact ⟨List.pairwise_singleton _ _, by simpa using Nat.pos_of_ne_zero hk⟩
  | cons a m ih =>
    obtain ⟨y, j⟩ := a
    obtain ⟨hp, he⟩ := h
    rw [List.pairwise_cons] at hp
    have hm : MonoWF m := ⟨hp.2, fun p hp' => he p (by simp [hp'])⟩
    unfold Mono.insert
    split
    · exact ⟨List.pairwise_cons.mpr hp, he⟩
    · rename_i hk
      split
      · refine ⟨List.pairwise_cons.mpr ⟨hp.1, hp.2⟩, ?_⟩
        intro p hp'
        rcases List.mem_cons.mp hp' with rfl | hp'
        · have := he (y, j) (by simp); simp only at this ⊢; omega
        · exact he p (by simp [hp'])
      · rename_i hxy
        split
        · rename_i hlt
          refine ⟨List.pairwise_cons.mpr ⟨?_, List.pairwise_cons.mpr hp⟩, ?_⟩
          · intro p hp'
            rcases List.mem_cons.mp hp' with rfl | hp'
            · exact hlt
            · exact String.lt_trans hlt (hp.1 p hp')
          · intro p hp'
            rcases List.mem_cons.mp hp' with rfl | hp'
            · exact Nat.pos_of_ne_zero hk
            · exact he p hp'
        · rename_i hlt
          have hyx : y < x := str_lt_of_ne_of_not_lt hxy hlt
          obtain ⟨ip, ie⟩ := ih hm
          refine ⟨List.pairwise_cons.mpr ⟨?_, ip⟩, ?_⟩
          · intro p hp'
            rcases insert_names x k m p hp' with h | ⟨p', hp'', h⟩
            · simp only; rw [h]; exact hyx
            · simp only; rw [← h]; exact hp.1 p' hp''
          · intro p hp'
            rcases List.mem_cons.mp hp' with rfl | hp'
            · exact he (y, j) (by simp)
            · exact ie p hp'

theorem mul_wf (a : Mono) {b : Mono} (h : MonoWF b) : MonoWF (Mono.mul a b) := by
  induction a with
  | nil => exact h
  | cons p a ih => exact insert_wf p.1 p.2 ih

theorem monoWF_nil : MonoWF [] := ⟨List.Pairwise.nil, fun _ h => by cases h⟩

theorem insertTerm_wf {m : Mono} (c : Rat) {p : MPoly} (hm : MonoWF m) (hp : PolyWF p) :
    PolyWF (MPoly.insertTerm m c p) := by
  induction p with
  | nil =>
    unfold MPoly.insertTerm
    split
    · exact hp
    · intro t ht
      simp only [List.mem_singleton] at ht
      subst ht; exact hm
  | cons a p ih =>
    obtain ⟨m', c'⟩ := a
    have hp' : PolyWF p := fun t ht => hp t (by simp [ht])
    unfold MPoly.insertTerm
    split
    · split
      · exact hp
      · intro t ht
        rcases List.mem_cons.mp ht with rfl | ht
        · exact hm
        · exact hp t ht
    · split
      · exact hp'
      · intro t ht
        rcases List.mem_cons.mp ht with rfl | ht
        · exact hp (m', c') (by simp)
        · exact hp' t ht
    · intro t ht
      rcases List.mem_cons.mp ht with rfl | ht
      · exact hp (m', c') (by simp)
      · exact ih hp' t ht

theorem add_wf {p q : MPoly} (hp : PolyWF p) (hq : PolyWF q) : PolyWF (MPoly.add p q) := by
  induction p with
  | nil => exact hq
  | cons t p ih =>
    have : MPoly.add (t :: p) q = MPoly.insertTerm t.1 t.2 (MPoly.add p q) := rfl
    rw [this]
    exact insertTerm_wf _ (hp t (by simp)) (ih (fun u hu => hp u (by simp [hu])))

theorem mulTerm_wf (m : Mono) (c : Rat) {q : MPoly} (hq : PolyWF q) : PolyWF (MPoly.mulTerm m c q) := by
  induction q with
  | nil => intro t ht; cases ht
  | cons t q ih =>
    have : MPoly.mulTerm m c (t :: q) = MPoly.insertTerm (Mono.mul m t.1) (c * t.2) (MPoly.mulTerm m c q) := rfl
    rw [this]
    exact insertTerm_wf _ (mul_wf m (hq t (by simp))) (ih (fun u hu => hq u (by simp [hu])))

/-- the product is well-formed as soon as the RIGHT factor is -/
theorem mulPoly_wf (p : MPoly) {q : MPoly} (hq : PolyWF q) : PolyWF (MPoly.mul p q) := by
  induction p with
  | nil => intro t ht; cases ht
  | cons t p ih =>
    have : MPoly.mul (t :: p) q = MPoly.add (MPoly.mulTerm t.1 t.2 q) (MPoly.mul p q) := rfl
    rw [this]
    exact add_wf (mulTerm_wf _ _ hq) ih

theorem monoValue_wf {s : Store} (m : Mono) {p : MPoly} (h : monoValue s m = .ok p) : PolyWF p := by
  induction m generalizing p with
  | nil =>
    rw [monoValue_nil] at h
    simp only [Except.ok.injEq] at h
    subst h
    intro t ht
    simp only [MPoly.one, List.mem_singleton] at ht
    subst ht; exact monoWF_nil
  | cons xk m ih =>
    obtain ⟨x, k⟩ := xk
    obtain ⟨acc, v, h1, _, rfl⟩ := monoValue_cons_ok h
    exact mulPoly_wf _ (ih h1)

/-! ### `polyE` is the functional `EL` with the moments of the atom table -/

/-- the moments of the atom table as a total function of the variable name (0 where `atomMonoE` refuses) -/
def muOf (A : List Atom) (x : String) (k : ℕ) : ℚ :=
  match atomIndex? x with
  | some i =>
    match A[i]? with
    | some a => (momentSpec a k).getD 0
    | none => 0
  | none => 0

theorem vars_monoMv {m : Mono} {x : String} (h : x ∈ (monoMv m).vars) : ∃ p ∈ m, p.1 = x := by
  induction m with
  | nil => simp [monoMv_nil] at h
  | cons a m ih =>
    rw [monoMv_cons] at h
    rcases Finset.mem_union.mp (vars_mul _ _ h) with h1 | h1
    · have := vars_pow _ _ h1
      rw [vars_X, Finset.mem_singleton] at this
      exact ⟨a, by simp, this.symm⟩
    · obtain ⟨p, hp, hx⟩ := ih h1
      exact ⟨p, by simp [hp], hx⟩

theorem head_notin_vars {x : String} {e : Nat} {m : Mono} (h : MonoWF ((x, e) :: m)) : x ∉ (monoMv m).vars := by
  intro hx
  obtain ⟨p, hp, hpx⟩ := vars_monoMv hx
  have := (List.pairwise_cons.mp h.1).1 p hp
  simp only [hpx] at this
  exact String.lt_irrefl x this

theorem monoWF_tail {a : String × Nat} {m : Mono} (h : MonoWF (a :: m)) : MonoWF m :=
  ⟨(List.pairwise_cons.mp h.1).2, fun p hp => h.2 p (by simp [hp])⟩

theorem atomMonoE_cons_ok {A : List Atom} {x : String} {e : Nat} {m : Mono} {r : Rat}
    (h : atomMonoE A ((x, e) :: m) = .ok r) :
    ∃ acc i a mk, atomMonoE A m = .ok acc ∧ atomIndex? x = some i ∧ A[i]? = some a ∧ momentSpec a e = some mk ∧
      r = mk * acc := by
  simp only [atomMonoE, List.foldrM_cons] at h
  obtain ⟨acc, h1, h⟩ := bind_ok.mp h
  cases hi : atomIndex? x with
  | none => simp [hi, throw_ne_ok] at h
  | some i =>
    simp only [hi] at h
    cases ha : A[i]? with
    | none => simp [ha, throw_ne_ok] at h
    | some a =>
      simp only [ha] at h
      cases hm : momentSpec a e with
      | none => simp [hm, throw_ne_ok] at h
      | some mk =>
        simp only [hm] at h
        exact ⟨acc, i, a, mk, h1, rfl, ha, hm, (pure_ok.mp h).symm⟩

theorem atomMonoE_EL {A : List Atom} {m : Mono} (hm : MonoWF m) {r : Rat} (h : atomMonoE A m = .ok r) :
    EL (muOf A) (monoMv m) = r := by
  induction m generalizing r with
  | nil =>
    have : r = 1 := by
      simp only [atomMonoE, List.foldrM_nil, pure, Except.pure, Except.ok.injEq] at h
      exact h.symm
    rw [this, monoMv_nil, ← C_1, ← monomial_zero', EL_monomial]
    simp
  | cons a m ih =>
    obtain ⟨x, e⟩ := a
    obtain ⟨acc, i, at', mk, h1, hi, ha, hmk, rfl⟩ := atomMonoE_cons_ok h
    rw [monoMv_cons, EL_X_pow_mul _ (hm.2 (x, e) (by simp)) (head_notin_vars hm), ih (monoWF_tail hm) h1]
    simp [muOf, hi, ha, hmk]

theorem polyE_cons_ok {A : List Atom} {t : Term} {p : MPoly} {r : Rat} (h : polyE A (t :: p) = .ok r) :
    ∃ acc v, polyE A p = .ok acc ∧ atomMonoE A t.1 = .ok v ∧ r = t.2 * v + acc := by
  simp only [polyE, List.foldrM_cons] at h
  obtain ⟨acc, h1, h⟩ := bind_ok.mp h
  obtain ⟨v, h2, h⟩ := bind_ok.mp h
  exact ⟨acc, v, h1, h2, (pure_ok.mp h).symm⟩

/-- on polynomials with well-formed monomials `polyE` computes the linear functional -/
theorem polyE_EL {A : List Atom} {p : MPoly} (hp : PolyWF p) {r : Rat} (h : polyE A p = .ok r) :
    EL (muOf A) (toMv p) = r := by
  induction p generalizing r with
  | nil =>
    have : r = 0 := by
      simp only [polyE, List.foldrM_nil, pure, Except.pure, Except.ok.injEq] at h
      exact h.symm
    rw [this, toMv_nil, map_zero]
  | cons t p ih =>
    obtain ⟨acc, v, h1, h2, rfl⟩ := polyE_cons_ok h
    rw [toMv_cons, map_add, C_mul', map_smul, atomMonoE_EL (hp t (by simp)) h2,
      ih (fun u hu => hp u (by simp [hu])) h1]
    simp

/-! ### atom names -/

theorem atomIndex_atomName (i : Nat) : atomIndex? (atomName i) = some i := by
  unfold atomIndex? atomName
  have h1 : ("@" ++ Nat.repr i).startsWith "@" = true := by
    rw [String.startsWith_string_iff]
    simp [String.toList_append]
  rw [if_pos h1]
  have : ((("@" ++ Nat.repr i).drop 1).copy) = Nat.repr i := by
    apply String.toList_injective
    rw [String.toList_copy_drop, String.toList_append]
    simp
  rw [← String.Slice.toNat?_copy, this, Nat.toNat?_repr]

theorem atomNm_eq (i : Nat) : atomNm i = atomName i := by
  simp [atomNm, atomName, toString]

theorem atomOf_some {n : Nat} {x : String} {i : Nat} (h : atomOf? n x = some i) : x = atomName i ∧ i < n := by
  unfold atomOf? at h
  have h1 := List.find?_some h
  have h2 := List.mem_of_find?_eq_some h
  simp only [beq_iff_eq] at h1
  exact ⟨by rw [h1, atomNm_eq], List.mem_range.mp h2⟩

theorem muOf_atomName (A : List Atom) (i k : Nat) :
    muOf A (atomName i) k = match A[i]? with
      | some a => (momentSpec a k).getD 0
      | none => 0 := by
  simp [muOf, atomIndex_atomName]

theorem muOf_new {A A' : List Atom} {i e : Nat} {a : Atom} {mk : Rat} (ha : A'[i]? = some a)
    (hm : momentSpec a e = some mk) : muOf (A ++ A') (atomName (A.length + i)) e = mk := by
  rw [muOf_atomName, List.getElem?_append_right (by omega)]
  simp [ha, hm]

theorem muOf_old (A A' : List Atom) {j : Nat} (hj : j < A.length) (e : Nat) :
    muOf (A ++ A') (atomName j) e = muOf A (atomName j) e := by
  rw [muOf_atomName, muOf_atomName, List.getElem?_append_left hj]

/-! ### the substitution of the concrete start path into the symbolic result

A free symbol `x` is replaced by the (polynomial) value of `x` in the concrete store, the symbolic atom `@i` by the
concrete atom `@(k+i)`: the `MvPolynomial` counterpart of `theta`. -/

noncomputable def subF (k : Nat) (σ : Store) : String → MvPolynomial String ℚ := fun name =>
  open Classical in
  if h : ∃ i, name = atomName i then X (atomName (k + h.choose))
  else match σ.get? name with
    | some v => toMv v
    | none => 0

theorem subF_atom (k : Nat) (σ : Store) (i : Nat) : subF k σ (atomName i) = X (atomName (k + i)) := by
  unfold subF
  have h : ∃ j, atomName i = atomName j := ⟨i, rfl⟩
  rw [dif_pos h]
  have : h.choose = i := (atomName_inj h.choose_spec).symm
  rw [this]

theorem subF_var (k : Nat) (σ : Store) {x : String} (hx : ∀ i, x ≠ atomName i) :
    subF k σ x = match σ.get? x with
      | some v => toMv v
      | none => 0 := by
  unfold subF
  have h : ¬ ∃ i, x = atomName i := by
    rintro ⟨i, hi⟩; exact hx i hi
  rw [dif_neg h]

theorem eval_subF (k : Nat) (σ : Store) (τ : String → ℚ) (name : String) :
    eval τ (subF k σ name) = theta k σ τ name := by
  unfold subF theta
  by_cases h : ∃ i, name = atomName i
  · rw [dif_pos h, dif_pos h, eval_X]
  · rw [dif_neg h, dif_neg h]
    cases σ.get? name with
    | none => simp
    | some v => simp [eval_toMv]

theorem eval_bind_subF (k : Nat) (σ : Store) (τ : String → ℚ) (g : MvPolynomial String ℚ) :
    eval τ (bind₁ (subF k σ) g) = eval (theta k σ τ) g := by
  induction g using MvPolynomial.induction_on with
  | C a => simp
  | add p q hp hq => simp [hp, hq]
  | mul_X p x hp => simp [hp, eval_subF]

/-- a concrete polynomial that is related to a symbolic one IS its substitution instance -/
theorem toMv_of_rel {k : Nat} {σ : Store} {p p' : MPoly}
    (h : ∀ τ, MPoly.eval τ p' = MPoly.eval (theta k σ τ) p) : toMv p' = bind₁ (subF k σ) (toMv p) :=
  MvPolynomial.funext (fun τ => by rw [eval_toMv, eval_bind_subF, eval_toMv, h])

/-! ### values that depend on the first `k` atoms only -/

/-- as a function of the valuation, `v` depends on the atoms `@0 … @(k-1)` only -/
def Dep (k : Nat) (v : MPoly) : Prop :=
  ∀ τ τ' : String → Rat, (∀ j < k, τ (atomName j) = τ' (atomName j)) → MPoly.eval τ v = MPoly.eval τ' v

def OldVar (k : Nat) (y : String) : Prop := ∃ j < k, y = atomName j

theorem dep_vars {k : Nat} {v : MPoly} (h : Dep k v) : ∀ y ∈ (toMv v).vars, OldVar k y := by
  classical
  intro y hy
  let r : String → MvPolynomial String ℚ := fun x => if OldVar k x then X x else 0
  have hg : toMv v = bind₁ r (toMv v) := by
    refine MvPolynomial.funext (fun τ => ?_)
    have e1 : eval τ (bind₁ r (toMv v)) = eval (fun x => eval τ (r x)) (toMv v) := by
      induction (toMv v) using MvPolynomial.induction_on with
      | C a => simp
      | add p q hp hq => simp [hp, hq]
      | mul_X p x hp => simp [hp]
    rw [e1, eval_toMv, eval_toMv]
    refine h _ _ (fun j hj => ?_)
    have : OldVar k (atomName j) := ⟨j, hj, rfl⟩
    simp [r, this]
  rw [hg] at hy
  have := vars_bind₁ r (toMv v) hy
  obtain ⟨x, _, hx⟩ := Finset.mem_biUnion.mp this
  by_cases hox : OldVar k x
  · simp only [r, hox, if_true, vars_X, Finset.mem_singleton] at hx
    rw [hx]; exact hox
  · simp [r, hox] at hx

/-- every value of the store depends on the first `k` atoms only -/
def StoreDep (k : Nat) (σ : Store) : Prop := ∀ x v, σ.get? x = some v → Dep k v

theorem subF_var_vars {k : Nat} {σ : Store} (hσ : StoreDep k σ) {x : String} (hx : ∀ i, x ≠ atomName i) :
    ∀ y ∈ (subF k σ x).vars, OldVar k y := by
  rw [subF_var k σ hx]
  cases hg : σ.get? x with
  | none => simp
  | some v => exact dep_vars (hσ x v hg)

theorem oldVar_not_new {k i : Nat} : ¬ OldVar k (atomName (k + i)) := by
  rintro ⟨j, hj, h⟩
  have := atomName_inj h
  omega

/-! ### the partial expectation `polyEC` integrates exactly the new atoms -/

theorem termEC_nil (A' : List Atom) (c : Rat) : termEC A' ([], c) = .ok ([], c) := rfl

theorem bind_monoMv_cons (f : String → MvPolynomial String ℚ) (p : String × Nat) (m : Mono) :
    bind₁ f (monoMv (p :: m)) = f p.1 ^ p.2 * bind₁ f (monoMv m) := by
  rw [monoMv_cons, map_mul, map_pow, bind₁_X_right]

theorem bind_toMv_cons (f : String → MvPolynomial String ℚ) (t : Term) (p : MPoly) :
    bind₁ f (toMv (t :: p)) = C t.2 * bind₁ f (monoMv t.1) + bind₁ f (toMv p) := by
  rw [toMv_cons, map_add, map_mul, bind₁_C_right]

theorem EL_C_mul (μ : String → ℕ → ℚ) (c : ℚ) (g : MvPolynomial String ℚ) : EL μ (C c * g) = c * EL μ g := by
  rw [C_mul', map_smul, smul_eq_mul]

theorem termEC_cons_ok {A' : List Atom} {x : String} {e : Nat} {m : Mono} {c : Rat} {res : Term}
    (h : termEC A' ((x, e) :: m, c) = .ok res) :
    ∃ acc, termEC A' (m, c) = .ok acc ∧
      ((∃ i a mk, atomOf? A'.length x = some i ∧ A'[i]? = some a ∧ momentSpec a e = some mk ∧
          res = (acc.1, mk * acc.2)) ∨
       (x.toList.head? ≠ some '@' ∧ res = ((x, e) :: acc.1, acc.2))) := by
  simp only [termEC, List.foldrM_cons] at h
  obtain ⟨acc, h1, h⟩ := bind_ok.mp h
  refine ⟨acc, h1, ?_⟩
  cases hi : atomOf? A'.length x with
  | some i =>
    simp only [hi] at h
    cases ha : A'[i]? with
    | none => simp [ha, throw_ne_ok] at h
    | some a =>
      simp only [ha] at h
      cases hm : momentSpec a e with
      | none => simp [hm, throw_ne_ok] at h
      | some mk =>
        simp only [hm] at h
        exact Or.inl ⟨i, a, mk, rfl, ha, hm, (pure_ok.mp h).symm⟩
  | none =>
    simp only [hi] at h
    split at h
    · exact absurd h throw_ne_ok
    · rename_i hh
      exact Or.inr ⟨by simpa using hh, (pure_ok.mp h).symm⟩

theorem not_atom_of_head {x : String} (h : x.toList.head? ≠ some '@') : ∀ i, x ≠ atomName i := by
  intro i hi
  exact h (hi ▸ atomName_head i)

/-- the concrete atom `@(k+i)` does not occur in the substitution instance of a monomial without `@i`, nor in a
    polynomial over the old atoms -/
theorem new_notin {k : Nat} {σ : Store} (hσ : StoreDep k σ) {i : Nat} {m : Mono}
    (hm : ∀ p ∈ m, p.1 ≠ atomName i) {h : MvPolynomial String ℚ} (hh : ∀ y ∈ h.vars, OldVar k y) :
    atomName (k + i) ∉ (bind₁ (subF k σ) (monoMv m) * h).vars := by
  classical
  intro hy
  rcases Finset.mem_union.mp (vars_mul _ _ hy) with h1 | h1
  · have := vars_bind₁ (subF k σ) (monoMv m) h1
    obtain ⟨x, hx, hyx⟩ := Finset.mem_biUnion.mp this
    obtain ⟨p, hp, hpx⟩ := vars_monoMv hx
    by_cases hat : ∃ i', x = atomName i'
    · obtain ⟨i', rfl⟩ := hat
      rw [subF_atom, vars_X, Finset.mem_singleton] at hyx
      have := atomName_inj hyx
      have : i = i' := by omega
      subst this
      exact hm p hp hpx
    · have hx' : ∀ i', x ≠ atomName i' := fun i' h' => hat ⟨i', h'⟩
      exact oldVar_not_new (subF_var_vars hσ hx' _ hyx)
  · exact oldVar_not_new (hh _ h1)

theorem names_ne_of_wf {x : String} {e : Nat} {m : Mono} (h : MonoWF ((x, e) :: m)) : ∀ p ∈ m, p.1 ≠ x := by
  intro p hp hpx
  have := (List.pairwise_cons.mp h.1).1 p hp
  simp only [hpx] at this
  exact String.lt_irrefl x this

/-- one term: the expectation over old AND new atoms of the substitution instance (times any polynomial over the old
    atoms) is the factor computed by `termEC` times the expectation of what `termEC` leaves -/
theorem termEC_spec {A A' : List Atom} {σ : Store} (hσ : StoreDep A.length σ) {m : Mono} (hm : MonoWF m) {c : Rat}
    {res : Term} (h : termEC A' (m, c) = .ok res) :
    ∃ κ : ℚ, res.2 = κ * c ∧ (∀ y ∈ (bind₁ (subF A.length σ) (monoMv res.1)).vars, OldVar A.length y) ∧
      ∀ g : MvPolynomial String ℚ, (∀ y ∈ g.vars, OldVar A.length y) →
        EL (muOf (A ++ A')) (bind₁ (subF A.length σ) (monoMv m) * g) =
          κ * EL (muOf (A ++ A')) (bind₁ (subF A.length σ) (monoMv res.1) * g) := by
  classical
  induction m generalizing res with
  | nil =>
    rw [termEC_nil] at h
    simp only [Except.ok.injEq] at h
    subst h
    exact ⟨1, by simp, by simp [monoMv_nil], fun g _ => by simp⟩
  | cons a m ih =>
    obtain ⟨x, e⟩ := a
    obtain ⟨acc, hacc, hcase⟩ := termEC_cons_ok h
    obtain ⟨κ, hκ, hvars, hfac⟩ := ih (monoWF_tail hm) hacc
    rcases hcase with ⟨i, a, mk, hi, ha, hmk, rfl⟩ | ⟨hhead, rfl⟩
    · -- an atom of the step: its power factors out as the moment
      obtain ⟨rfl, _⟩ := atomOf_some hi
      refine ⟨mk * κ, by simp only; rw [hκ]; ring, hvars, fun g hg => ?_⟩
      rw [bind_monoMv_cons, subF_atom, mul_assoc,
        EL_X_pow_mul _ (hm.2 _ (by simp)) (new_notin hσ (names_ne_of_wf hm) hg), muOf_new ha hmk, hfac g hg]
      ring
    · -- a free symbol: its value is a polynomial over the old atoms
      have hx := not_atom_of_head hhead
      have hxv := subF_var_vars hσ hx
      have hpow : ∀ y ∈ ((subF A.length σ x) ^ e).vars, OldVar A.length y := fun y hy => hxv y (vars_pow _ _ hy)
      refine ⟨κ, hκ, ?_, fun g hg => ?_⟩
      · intro y hy
        rw [bind_monoMv_cons] at hy
        rcases Finset.mem_union.mp (vars_mul _ _ hy) with h1 | h1
        · exact hpow y h1
        · exact hvars y h1
      · have hg' : ∀ y ∈ ((subF A.length σ x) ^ e * g).vars, OldVar A.length y := by
          intro y hy
          rcases Finset.mem_union.mp (vars_mul _ _ hy) with h1 | h1
          · exact hpow y h1
          · exact hg y h1
        have := hfac _ hg'
        rw [bind_monoMv_cons, bind_monoMv_cons]
        calc EL (muOf (A ++ A')) (subF A.length σ x ^ e * bind₁ (subF A.length σ) (monoMv m) * g)
            = EL (muOf (A ++ A')) (bind₁ (subF A.length σ) (monoMv m) * (subF A.length σ x ^ e * g)) := by
              congr 1; ring
          _ = κ * EL (muOf (A ++ A')) (bind₁ (subF A.length σ) (monoMv acc.1) * (subF A.length σ x ^ e * g)) := this
          _ = κ * EL (muOf (A ++ A')) (subF A.length σ x ^ e * bind₁ (subF A.length σ) (monoMv acc.1) * g) := by
              congr 2; ring

theorem EL_old {A A' : List Atom} {g : MvPolynomial String ℚ} (hg : ∀ y ∈ g.vars, OldVar A.length y) :
    EL (muOf (A ++ A')) g = EL (muOf A) g := by
  refine EL_congr (fun y hy e => ?_)
  obtain ⟨j, hj, rfl⟩ := hg y hy
  exact muOf_old A A' hj e

theorem polyEC_cons_ok {A' : List Atom} {t : Term} {p : MPoly} {L : MPoly} (h : polyEC A' (t :: p) = .ok L) :
    ∃ acc res, polyEC A' p = .ok acc ∧ termEC A' t = .ok res ∧ L = res :: acc := by
  simp only [polyEC, List.foldrM_cons] at h
  obtain ⟨acc, h1, h⟩ := bind_ok.mp h
  obtain ⟨res, h2, h⟩ := bind_ok.mp h
  exact ⟨acc, res, h1, h2, (pure_ok.mp h).symm⟩

/-- **the partial expectation is sound**: integrating old and new atoms of the substitution instance of `p` is
    integrating the old atoms of the substitution instance of `polyEC A' p` -/
theorem polyEC_spec {A A' : List Atom} {σ : Store} (hσ : StoreDep A.length σ) {p : MPoly} (hp : PolyWF p)
    {L : MPoly} (h : polyEC A' p = .ok L) :
    EL (muOf (A ++ A')) (bind₁ (subF A.length σ) (toMv p)) = EL (muOf A) (bind₁ (subF A.length σ) (toMv L)) := by
  induction p generalizing L with
  | nil =>
    have : L = [] := by
      simp only [polyEC, List.foldrM_nil, pure, Except.pure, Except.ok.injEq] at h
      exact h.symm
    rw [this, toMv_nil, map_zero, map_zero, map_zero]
  | cons t p ih =>
    obtain ⟨acc, res, h1, h2, rfl⟩ := polyEC_cons_ok h
    obtain ⟨m, c⟩ := t
    obtain ⟨κ, hκ, hvars, hfac⟩ := termEC_spec (A := A) hσ (hp (m, c) (by simp)) h2
    have h3 := hfac 1 (by simp)
    rw [mul_one, mul_one, EL_old hvars] at h3
    rw [bind_toMv_cons, bind_toMv_cons, map_add, map_add, ih (fun u hu => hp u (by simp [hu])) h1,
      EL_C_mul, EL_C_mul, h3, hκ]
    ring

/-! ### symbolic expectation vs. concrete expectation -/

theorem monoValueS_sim {θ : (String → Rat) → String → Rat} {S σ : Store} (h : SRel θ S σ) (m : Mono) {p p' : MPoly}
    (hs : monoValue S m = .ok p) (hc : monoValue σ m = .ok p') : ∀ τ, MPoly.eval τ p' = MPoly.eval (θ τ) p := by
  induction m generalizing p p' with
  | nil =>
    rw [monoValue_nil] at hs hc
    simp only [Except.ok.injEq] at hs hc
    intro τ
    rw [← hs, ← hc, MPoly.eval_one, MPoly.eval_one]
  | cons xk t ih =>
    obtain ⟨x, k⟩ := xk
    obtain ⟨acc, v, h1, hg, rfl⟩ := monoValue_cons_ok hs
    obtain ⟨acc', w, h1', hg', rfl⟩ := monoValue_cons_ok hc
    intro τ
    rw [MPoly.eval_mul, MPoly.eval_mul, MPoly.eval_pow, MPoly.eval_pow, ih h1 h1' τ, h x v w hg hg' τ]

/-- the expectation of a monomial on a concrete path, through the symbolic value and its partial expectation -/
theorem pathE_sim_C {A : List Atom} {σ : Store} (hσ : StoreDep A.length σ) {a b : Rat × Path}
    (hab : PRelS (theta A.length σ) A a b) (m : Mono) {p e : MPoly} {r : Rat}
    (hp : monoValue a.2.vals m = .ok p) (he : polyEC a.2.atoms p = .ok e) (hr : pathE m b.2 = .ok r) :
    r = EL (muOf A) (bind₁ (subF A.length σ) (toMv e)) := by
  simp only [pathE] at hr
  obtain ⟨p', hp', hr⟩ := bind_ok.mp hr
  rw [← polyE_EL (monoValue_wf m hp') hr, hab.2.1, toMv_of_rel (monoValueS_sim hab.2.2 m hp hp'),
    polyEC_spec hσ (monoValue_wf m hp) he]

theorem expPolyC_cons_ok {w : Rat} {q : Path} {t : WD} {m : Mono} {L : MPoly}
    (h : expPolyC ((w, q) :: t) m = .ok L) :
    ∃ acc p e, expPolyC t m = .ok acc ∧ monoValue q.vals m = .ok p ∧ polyEC q.atoms p = .ok e ∧
      L = MPoly.add (MPoly.scale w e) acc := by
  simp only [expPolyC, List.foldrM_cons] at h
  obtain ⟨acc, h1, h⟩ := bind_ok.mp h
  obtain ⟨p, h2, h⟩ := bind_ok.mp h
  obtain ⟨e, h3, h⟩ := bind_ok.mp h
  exact ⟨acc, p, e, h1, h2, h3, (pure_ok.mp h).symm⟩

theorem expPolyC_sim {A : List Atom} {σ : Store} (hσ : StoreDep A.length σ) {Ds Dc : WD}
    (hd : List.Forall₂ (PRelS (theta A.length σ) A) Ds Dc) (m : Mono) {L : MPoly} {r : Rat}
    (hs : expPolyC Ds m = .ok L) (hc : Dc.E m = .ok r) :
    r = EL (muOf A) (bind₁ (subF A.length σ) (toMv L)) := by
  induction hd generalizing L r with
  | nil =>
    simp only [expPolyC, List.foldrM_nil, pure, Except.pure, Except.ok.injEq] at hs
    rw [E_eq_wsumM, wsumM_nil] at hc
    simp only [Except.ok.injEq] at hc
    rw [← hs, ← hc, toMv_nil, map_zero, map_zero]
  | @cons a b _ _ hab _ ih =>
    obtain ⟨w, qs⟩ := a
    obtain ⟨w', qc⟩ := b
    obtain ⟨acc, p, e, h1, h2, h3, rfl⟩ := expPolyC_cons_ok hs
    rw [E_eq_wsumM] at hc
    obtain ⟨acc', v, h1', h2', rfl⟩ := wsumM_cons_ok hc
    have hw : w = w' := hab.1
    subst hw
    rw [toMv_add, toMv_scale, map_add, map_add, map_mul, bind₁_C_right, EL_C_mul, ← ih h1 h1',
      ← pathE_sim_C hσ hab m h2 h3 h2']

theorem linPoly_sim_C {A : List Atom} {q : Path} (hA : q.atoms = A) {S : Store}
    (h : SRel (theta A.length q.vals) S q.vals) (terms : Terms) {R : MPoly} {r : Rat}
    (hs : linPoly S terms = .ok R) (hc : linE q terms = .ok r) :
    r = EL (muOf A) (bind₁ (subF A.length q.vals) (toMv R)) := by
  induction terms generalizing R r with
  | nil =>
    simp only [linPoly, List.foldrM_nil, pure, Except.pure, Except.ok.injEq] at hs
    rw [linE_nil] at hc
    simp only [Except.ok.injEq] at hc
    rw [← hs, ← hc, toMv_nil, map_zero, map_zero]
  | cons t ts ih =>
    obtain ⟨acc, p, h1, h2, rfl⟩ := linPoly_cons_ok hs
    rw [linE_cons] at hc
    obtain ⟨acc', h1', hc⟩ := bind_ok.mp hc
    obtain ⟨v, h2', hc⟩ := bind_ok.mp hc
    rw [pure_ok] at hc
    simp only [pathE] at h2'
    obtain ⟨p', hp', h2'⟩ := bind_ok.mp h2'
    rw [hA] at h2'
    rw [← hc, toMv_add, toMv_scale, map_add, map_add, map_mul, bind₁_C_right, EL_C_mul, ← ih h1 h1',
      ← toMv_of_rel (monoValueS_sim h t.1 h2 hp'), polyE_EL (monoValue_wf t.1 hp') h2']

/-! ### soundness of `checkOneStepC` -/

theorem oneStepCexC_none {cap : Nat} {Γ : TypeEnv} {P : Program} {m : Mono} {terms : Terms}
    (h : oneStepCexC cap Γ P m terms = .ok none) :
    FragmentC P = true ∧ (∀ x ∈ symVars Γ P (termVars m terms), x.toList.head? ≠ some '@') ∧ (∀ e ∈ Γ, e.2 ≠ []) ∧
    ∀ a ∈ enumΓ Γ, oneStepAtC P (freeStore (symVars Γ P (termVars m terms))) m terms a = .ok none := by
  simp only [oneStepCexC] at h
  obtain ⟨u, hu, h⟩ := bind_ok.mp h
  obtain ⟨hF, hat, hne⟩ := admissibleC_ok hu
  exact ⟨hF, hat, hne, firstFail_none h⟩

theorem oneStepAtC_none {P : Program} {S0 : Store} {m : Mono} {terms : Terms} {a : Assign}
    (h : oneStepAtC P S0 m terms a = .ok none) :
    ∃ D L R, iter P ⟨assignStore S0 a, []⟩ = .ok D ∧ expPolyC D m = .ok L ∧
      linPoly (assignStore S0 a) terms = .ok R ∧ MPoly.normalize L = MPoly.normalize R := by
  simp only [oneStepAtC] at h
  obtain ⟨D, hD, h⟩ := bind_ok.mp h
  obtain ⟨L, hL, h⟩ := bind_ok.mp h
  obtain ⟨R, hR, h⟩ := bind_ok.mp h
  refine ⟨D, L, R, hD, hL, hR, ?_⟩
  by_contra hne
  simp [hne, pure, Except.pure] at h

theorem checkOneStepC_ok {cap : Nat} {Γ : TypeEnv} {P : Program} {m : Mono} {terms : Terms}
    (h : checkOneStepC cap Γ P m terms = .ok true) : oneStepCexC cap Γ P m terms = .ok none := by
  simp only [checkOneStepC] at h
  obtain ⟨r, hr', h⟩ := bind_ok.mp h
  rw [pure_ok] at h
  cases r with
  | none => exact hr'
  | some c => simp at h

/-- the invariant of V2 with continuous draws on a path: the typed variables are (as functions of the draw atoms)
    constants of their sets, and every value depends only on the atoms the path has created so far (so that the
    draws of the next iteration are independent of the state) -/
def InvC (Γ : TypeEnv) (q : Path) : Prop := InvS Γ q ∧ StoreDep q.atoms.length q.vals

/-- **V2 with continuous draws.**  If `checkOneStepC` accepts, then from EVERY path `q` whose typed variables are
    constants of their sets and whose values depend only on the atoms created so far (values are arbitrary
    polynomials over those atoms): the expectation of `M` after one iteration — over the old atoms AND the atoms
    drawn in the iteration — equals `Σ cᵢ · E(Mᵢ)(q)`. -/
theorem checkOneStepC_sound {cap : Nat} {Γ : TypeEnv} {P : Program} {m : Mono} {terms : Terms}
    (h : checkOneStepC cap Γ P m terms = .ok true) (q : Path) (hq : InvC Γ q)
    {D : WD} (hD : iter P q = .ok D) {lhs rhs : Rat} (hl : D.E m = .ok lhs) (hr : linE q terms = .ok rhs) :
    lhs = rhs := by
  obtain ⟨hF, hat, hne, hall⟩ := oneStepCexC_none (checkOneStepC_ok h)
  obtain ⟨hΓ, hdep⟩ := hq
  obtain ⟨Ds, L, R, hDs, hL, hR, hnorm⟩ := oneStepAtC_none (hall _ (stateOf_memS hne hΓ))
  have hrel : SRel (theta q.atoms.length q.vals)
      (assignStore (freeStore (symVars Γ P (termVars m terms))) (stateOf Γ q.vals)) q.vals :=
    srel_assign _ (stateOf_agreesS hΓ) _ (srel_free _ hat [] (srel_nil _ _))
  have hsim := iterS_sim (θ := theta q.atoms.length q.vals) (pre := q.atoms) (theta_atom _ _) P
    (fragmentC_parts hF).2 (ps := ⟨_, []⟩) hrel (List.append_nil _).symm hDs hD
  rw [expPolyC_sim hdep hsim m hL hl, linPoly_sim_C rfl hrel terms hR hr,
    toMv_ext (fun τ => MPoly.eval_eq_of_normalize_eq τ hnorm)]

/-! ### the values of a path depend on the atoms of the path only (invariant of every run from a closed store) -/

theorem Dep.mono {k k' : Nat} {v : MPoly} (h : Dep k v) (hk : k ≤ k') : Dep k' v :=
  fun τ τ' ht => h τ τ' (fun j hj => ht j (by omega))

theorem dep_const (k : Nat) (c : Rat) : Dep k (MPoly.const c) := fun τ τ' _ => by
  rw [MPoly.eval_const, MPoly.eval_const]

theorem dep_atomVar {n k : Nat} (h : n < k) : Dep k (atomVar n) := fun τ τ' ht => by
  rw [atomVar_eq, MPoly.eval_var, MPoly.eval_var, ht n h]

theorem Dep.add {k : Nat} {a b : MPoly} (ha : Dep k a) (hb : Dep k b) : Dep k (MPoly.add a b) := fun τ τ' ht => by
  rw [MPoly.eval_add, MPoly.eval_add, ha τ τ' ht, hb τ τ' ht]

theorem Dep.sub {k : Nat} {a b : MPoly} (ha : Dep k a) (hb : Dep k b) : Dep k (MPoly.sub a b) := fun τ τ' ht => by
  rw [MPoly.eval_sub, MPoly.eval_sub, ha τ τ' ht, hb τ τ' ht]

theorem Dep.mul {k : Nat} {a b : MPoly} (ha : Dep k a) (hb : Dep k b) : Dep k (MPoly.mul a b) := fun τ τ' ht => by
  rw [MPoly.eval_mul, MPoly.eval_mul, ha τ τ' ht, hb τ τ' ht]

theorem Dep.neg {k : Nat} {a : MPoly} (ha : Dep k a) : Dep k (MPoly.neg a) := fun τ τ' ht => by
  rw [MPoly.eval_neg, MPoly.eval_neg, ha τ τ' ht]

theorem Dep.pow {k : Nat} {a : MPoly} (ha : Dep k a) (n : Nat) : Dep k (MPoly.pow a n) := fun τ τ' ht => by
  rw [MPoly.eval_pow, MPoly.eval_pow, ha τ τ' ht]

theorem Dep.scale {k : Nat} {a : MPoly} (ha : Dep k a) (c : Rat) : Dep k (MPoly.scale c a) := fun τ τ' ht => by
  rw [MPoly.eval_scale, MPoly.eval_scale, ha τ τ' ht]

theorem evalExpr_dep {k : Nat} {s : Store} (hs : StoreDep k s) (e : Expr) {v : MPoly} (h : evalExpr s e = .ok v) :
    Dep k v := by
  induction e generalizing v with
  | num r =>
    simp only [evalExpr, pure, Except.pure, Except.ok.injEq] at h
    rw [← h]; exact dep_const k r
  | var x =>
    simp only [evalExpr] at h
    cases hg : s.get? x with
    | none => simp [hg, throw_ne_ok] at h
    | some w =>
      simp only [hg, pure, Except.pure, Except.ok.injEq] at h
      subst h
      exact hs x w hg
  | add a b iha ihb =>
    simp only [evalExpr] at h
    obtain ⟨va, h1, h⟩ := bind_ok.mp h
    obtain ⟨vb, h2, h⟩ := bind_ok.mp h
    rw [pure_ok] at h
    rw [← h]; exact (iha h1).add (ihb h2)
  | sub a b iha ihb =>
    simp only [evalExpr] at h
    obtain ⟨va, h1, h⟩ := bind_ok.mp h
    obtain ⟨vb, h2, h⟩ := bind_ok.mp h
    rw [pure_ok] at h
    rw [← h]; exact (iha h1).sub (ihb h2)
  | mul a b iha ihb =>
    simp only [evalExpr] at h
    obtain ⟨va, h1, h⟩ := bind_ok.mp h
    obtain ⟨vb, h2, h⟩ := bind_ok.mp h
    rw [pure_ok] at h
    rw [← h]; exact (iha h1).mul (ihb h2)
  | neg a iha =>
    simp only [evalExpr] at h
    obtain ⟨va, h1, h⟩ := bind_ok.mp h
    rw [pure_ok] at h
    rw [← h]; exact (iha h1).neg
  | pow a n iha =>
    simp only [evalExpr] at h
    obtain ⟨va, h1, h⟩ := bind_ok.mp h
    rw [pure_ok] at h
    rw [← h]; exact (iha h1).pow n
  | div a b iha _ =>
    simp only [evalExpr] at h
    obtain ⟨vb, h2, h⟩ := bind_ok.mp h
    cases hk : MPoly.isConst? vb with
    | none => simp [hk, throw_ne_ok] at h
    | some c =>
      simp only [hk] at h
      by_cases hz : c = 0
      · simp [hz, throw_ne_ok] at h
      · simp only [hz, if_false] at h
        obtain ⟨va, h1, h⟩ := bind_ok.mp h
        rw [pure_ok] at h
        rw [← h]; exact (iha h1).scale _

/-- an outcome of a right-hand side: the atom table only grows and the value depends on its atoms only -/
def OutDep (n : Nat) (o : Rat × MPoly × List Atom) : Prop := n ≤ o.2.2.length ∧ Dep o.2.2.length o.2.1

theorem mkCat_dep (atoms : List Atom) (j : Nat) (qs : List Rat) : ∀ o ∈ mkCat atoms j qs, OutDep atoms.length o := by
  induction qs generalizing j with
  | nil => intro o ho; cases ho
  | cons q t ih =>
    intro o ho
    simp only [mkCat, List.mem_cons] at ho
    rcases ho with rfl | ho
    · exact ⟨le_refl _, dep_const _ _⟩
    · exact ih (j + 1) o ho

theorem fresh_dep {n : Nat} {atoms : List Atom} (hn : n = atoms.length) {v : MPoly} (a : Atom)
    (hv : Dep (n + 1) v) : ∀ o ∈ [((1 : Rat), v, atoms ++ [a])], OutDep n o := by
  intro o ho
  simp only [List.mem_singleton] at ho
  subst ho
  refine ⟨by simp [hn], ?_⟩
  simpa [hn] using hv

theorem evalRhs_dep {p : Path} (hp : StoreDep p.atoms.length p.vals) (rhs : Rhs) (hok : rhsOKC rhs = true)
    {os : List (Rat × MPoly × List Atom)} (hs : evalRhs p rhs = .ok os) : ∀ o ∈ os, OutDep p.atoms.length o := by
  cases rhs with
  | expr e =>
    obtain ⟨v, h1, rfl⟩ := evalRhs_expr_ok hs
    intro o ho
    simp only [List.mem_singleton] at ho
    subst ho
    exact ⟨le_refl _, evalExpr_dep hp e h1⟩
  | choice alts =>
    intro o ho
    obtain ⟨alt, _, hsem⟩ := forall₂_mem_right (evalRhs_choice_ok hs) ho
    refine ⟨by rw [hsem.2.2], ?_⟩
    rw [hsem.2.2]
    exact evalExpr_dep hp alt.1 hsem.2.1
  | dist name params =>
    by_cases hd : rhsOK (.dist name params) = true
    · cases evalRhs_dist_ok hd hs with
      | bern e q hn hpp hq ho =>
        rw [ho]
        intro o hmem
        simp only [List.mem_cons, List.not_mem_nil, or_false] at hmem
        rcases hmem with rfl | rfl
        · exact ⟨le_refl _, dep_const p.atoms.length 1⟩
        · exact ⟨le_refl _, dep_const p.atoms.length 0⟩
      | cat qs hn hq ho =>
        rw [ho]
        exact mkCat_dep _ _ _
      | du a b lo hi hn hpp ha hb ho =>
        rw [ho]
        intro o hmem
        obtain ⟨j, _, rfl⟩ := List.mem_map.mp hmem
        exact ⟨le_refl _, dep_const _ _⟩
    · have hp1 : StoreDep (p.atoms.length + 1) p.vals := fun x v hx => (hp x v hx).mono (by omega)
      have hat : Dep (p.atoms.length + 1) (atomVar p.atoms.length) := dep_atomVar (by omega)
      simp only [evalRhs] at hs
      split at hs
      · exact absurd (by simp [rhsOK]) hd
      · exact absurd (by simp [rhsOK]) hd
      · exact absurd (by simp [rhsOK]) hd
      · -- Normal
        rename_i mu s2
        obtain ⟨m, hm, hs⟩ := bind_ok.mp hs
        obtain ⟨v, hv, hs⟩ := bind_ok.mp hs
        split at hs
        · simp [throw, throwThe, MonadExceptOf.throw, bind, Except.bind] at hs
        · rw [pure_ok] at hs
          subst hs
          exact fresh_dep rfl _ ((evalExpr_dep hp1 mu hm).add hat)
      · -- Uniform
        rename_i a b
        obtain ⟨va, hva, hs⟩ := bind_ok.mp hs
        obtain ⟨vb, hvb, hs⟩ := bind_ok.mp hs
        rw [pure_ok] at hs
        subst hs
        exact fresh_dep rfl _ ((evalExpr_dep hp1 a hva).add
          (((evalExpr_dep hp1 b hvb).sub (evalExpr_dep hp1 a hva)).mul hat))
      · -- Laplace
        rename_i mu b
        obtain ⟨m, hm, hs⟩ := bind_ok.mp hs
        obtain ⟨v, hv, hs⟩ := bind_ok.mp hs
        split at hs
        · simp [throw, throwThe, MonadExceptOf.throw, bind, Except.bind] at hs
        · rw [pure_ok] at hs
          subst hs
          exact fresh_dep rfl _ ((evalExpr_dep hp1 mu hm).add hat)
      · -- Exponential
        rename_i lam
        obtain ⟨v, hv, hs⟩ := bind_ok.mp hs
        split at hs
        · simp [throw, throwThe, MonadExceptOf.throw, bind, Except.bind] at hs
        · rw [pure_ok] at hs
          subst hs
          exact fresh_dep rfl _ hat
      · -- Gamma
        rename_i a b
        obtain ⟨va, hva, hs⟩ := bind_ok.mp hs
        obtain ⟨vb, hvb, hs⟩ := bind_ok.mp hs
        split at hs
        · simp [throw, throwThe, MonadExceptOf.throw, bind, Except.bind] at hs
        · rw [pure_ok] at hs
          subst hs
          exact fresh_dep rfl _ hat
      · -- Beta
        rename_i a b
        obtain ⟨va, hva, hs⟩ := bind_ok.mp hs
        obtain ⟨vb, hvb, hs⟩ := bind_ok.mp hs
        split at hs
        · simp [throw, throwThe, MonadExceptOf.throw, bind, Except.bind] at hs
        · rw [pure_ok] at hs
          subst hs
          exact fresh_dep rfl _ hat
      · exact absurd hs throw_ne_ok

/-- the values of the path depend on the atoms of the path only -/
def PathDep (q : Path) : Prop := StoreDep q.atoms.length q.vals

theorem storeDep_set {k : Nat} {s : Store} (hs : StoreDep k s) (x : String) {v : MPoly} (hv : Dep k v) :
    StoreDep k (s.set x v) := by
  intro y w hy
  rw [store_get_set] at hy
  by_cases hyx : y = x
  · simp only [hyx, if_true, Option.some.injEq] at hy
    rw [← hy]; exact hv
  · simp only [hyx, if_false] at hy
    exact hs y w hy

theorem assign_dep {p : Path} (hp : PathDep p) (x : String) (rhs : Rhs) (g : Cond) (d : String)
    (hok : rhsOKC rhs = true) {D : WD} (h : execStmt (.assign x rhs g d) p = .ok D) : ∀ wq ∈ D, PathDep wq.2 := by
  rw [execStmt] at h
  obtain ⟨b, _, h⟩ := bind_ok.mp h
  cases b with
  | true =>
    simp only [if_true] at h
    obtain ⟨os, ho, h⟩ := bind_ok.mp h
    rw [pure_ok] at h
    subst h
    intro wq hwq
    obtain ⟨o, hoo, rfl⟩ := List.mem_map.mp hwq
    obtain ⟨hle, hdep⟩ := evalRhs_dep hp rhs hok ho o hoo
    exact storeDep_set (fun y w hy => (hp y w hy).mono hle) x hdep
  | false =>
    simp only [Bool.false_eq_true, if_false] at h
    cases hg : p.vals.get? d with
    | none => simp [hg, throw_ne_ok] at h
    | some v =>
      simp only [hg, pure, Except.pure, Except.ok.injEq] at h
      subst h
      intro wq hwq
      simp only [List.mem_singleton] at hwq
      subst hwq
      exact storeDep_set hp x (hp d v hg)

theorem bindW_all {I : Path → Prop} {f : Path → M WD}
    (hf : ∀ q, I q → ∀ D, f q = .ok D → ∀ wq ∈ D, I wq.2) {D E : WD} (hD : ∀ wq ∈ D, I wq.2)
    (h : bindW D f = .ok E) : ∀ wq ∈ E, I wq.2 := by
  induction D generalizing E with
  | nil =>
    rw [bindW_nil_ok h]
    intro wq hwq; cases hwq
  | cons a t ih =>
    obtain ⟨w, q⟩ := a
    obtain ⟨A, B, hA, hB, rfl⟩ := bindW_cons_ok h
    intro wq hwq
    rcases List.mem_append.mp hwq with hm | hm
    · obtain ⟨x, hx, rfl⟩ := List.mem_map.mp hm
      exact hf q (hD (w, q) (by simp)) A hA x hx
    · exact ih (fun y hy => hD y (by simp [hy])) hB wq hm

theorem block_dep (blk : List Stmt) (hok : blk.all stmtOKC = true) {p : Path} (hp : PathDep p) {D : WD}
    (h : execBlock blk p = .ok D) : ∀ wq ∈ D, PathDep wq.2 := by
  induction blk generalizing p D with
  | nil =>
    rw [execBlock_nil, pure_ok] at h
    subst h
    intro wq hwq
    simp only [List.mem_singleton] at hwq
    subst hwq; exact hp
  | cons st rest ih =>
    simp only [List.all_cons, Bool.and_eq_true] at hok
    cases st with
    | assign x rhs g dflt =>
      rw [execBlock_cons] at h
      obtain ⟨d, hd, h⟩ := bind_ok.mp h
      exact bindW_all (fun q hq Dq hDq => ih hok.2 hq hDq)
        (assign_dep hp x rhs g dflt (by simpa [stmtOKC] using hok.1) hd) h
    | simult xs rhss => simp [stmtOKC] at hok
    | ite c t e => simp [stmtOKC] at hok

theorem iter_dep (P : Program) (hok : P.body.all stmtOKC = true) {p : Path} (hp : PathDep p) {D : WD}
    (h : iter P p = .ok D) : ∀ wq ∈ D, PathDep wq.2 := by
  simp only [iter] at h
  obtain ⟨b, _, h⟩ := bind_ok.mp h
  cases b with
  | true =>
    simp only [if_true] at h
    exact block_dep P.body hok hp h
  | false =>
    simp only [Bool.false_eq_true, if_false] at h
    rw [pure_ok] at h
    subst h
    intro wq hwq
    simp only [List.mem_singleton] at hwq
    subst hwq; exact hp

/-- the values of the initial store do not depend on the valuation at all (e.g. rational constants) -/
def ClosedStore (σ₀ : Store) : Prop := StoreDep 0 σ₀

theorem ConcStore.closed {σ₀ : Store} (h : ConcStore σ₀) : ClosedStore σ₀ := by
  intro x v hx
  obtain ⟨c, rfl⟩ := h x v hx
  exact dep_const 0 c

/-- every path of every run of a `FragmentC` program from a closed store carries values over its own atoms only -/
theorem run_dep {P : Program} (hF : FragmentC P = true) (n : Nat) {σ₀ : Store} (hσ : ClosedStore σ₀) {D : WD}
    (hrun : run P false n σ₀ = .ok D) : AllInv PathDep D :=
  inv_run P σ₀ (fun _ h0 wq hwq _ => block_dep P.init (fragmentC_parts hF).1 (p := ⟨σ₀, []⟩) hσ h0 wq hwq)
    (fun _ hq _ hDq wq hwq _ => iter_dep P (fragmentC_parts hF).2 hq hDq wq hwq) n hrun

/-! ### the recurrence holds for every n -/

theorem AllInv.and {I J : Path → Prop} {D : WD} (hI : AllInv I D) (hJ : AllInv J D) :
    AllInv (fun q => I q ∧ J q) D :=
  fun wq hwq hne => ⟨hI wq hwq hne, hJ wq hwq hne⟩

/-- the recurrence at one n, from the invariant at n and the one-step check -/
theorem recurrence_of_invC {cap : Nat} {Γ : TypeEnv} {P : Program} {m : Mono} {terms : Terms}
    (hS : checkOneStepC cap Γ P m terms = .ok true) {n : Nat} {σ₀ : Store} {E0 E1 : WD}
    (hinv : AllInv (InvC Γ) E0)
    (h0 : run P false n σ₀ = .ok E0) (h1 : run P false (n + 1) σ₀ = .ok E1)
    {lhs rhs : Rat} (hl : E1.E m = .ok lhs) (hr : linCombE E0 terms = .ok rhs) : lhs = rhs := by
  refine wsumM_congr (fun wq hwq hne v v' hv hv' => ?_) (moment_succ h0 h1 hl) (wsumM_linE hr)
  simp only [stepE] at hv
  obtain ⟨Dq, hDq, hv⟩ := bind_ok.mp hv
  exact checkOneStepC_sound hS wq.2 (hinv wq hwq hne) hDq hv hv'

theorem fragmentC_of_checkOneStepC {cap : Nat} {Γ : TypeEnv} {P : Program} {m : Mono} {terms : Terms}
    (hS : checkOneStepC cap Γ P m terms = .ok true) : FragmentC P = true :=
  (oneStepCexC_none (checkOneStepC_ok hS)).1

/-- **The recurrence holds at every n ≥ 1, continuous draws included.**  If the types are inductive
    (`checkInductiveC cap Γ0 Γ P`) and the recurrence is a one-step identity on every `Γ`-state
    (`checkOneStepC cap' Γ P M terms`), then for EVERY `n` and EVERY closed initial store (values that do not depend
    on draw atoms, e.g. rational constants): `E(M)(n+2) = Σ cᵢ · E(Mᵢ)(n+1)` over the un-merged runs (whenever the
    quantities are defined, i.e. the runs and the expectations do not refuse). -/
theorem recurrence_holds_forall_nC {cap cap' : Nat} {Γ0 Γ : TypeEnv} {P : Program} {m : Mono} {terms : Terms}
    (hI : checkInductiveC cap Γ0 Γ P = .ok true) (hS : checkOneStepC cap' Γ P m terms = .ok true)
    (n : Nat) (σ₀ : Store) (hσ : ClosedStore σ₀) {E0 E1 : WD}
    (h0 : run P false (n + 1) σ₀ = .ok E0) (h1 : run P false (n + 2) σ₀ = .ok E1)
    {lhs rhs : Rat} (hl : E1.E m = .ok lhs) (hr : linCombE E0 terms = .ok rhs) : lhs = rhs :=
  recurrence_of_invC hS
    ((checkInductiveC_sound hI n σ₀ h0).and (run_dep (fragmentC_of_checkOneStepC hS) (n + 1) hσ h0)) h0 h1 hl hr

/-- **The recurrence holds at every n ≥ 0** when the one-step identity is checked on the `Γ0`-states (the typed
    variables the init block does not assign stay symbolic).  With `Γ0 = Γ` this is:
    `checkInductiveC cap Γ Γ P ∧ checkOneStepC cap' Γ P M terms ⇒ ∀ n σ₀, E(M)(n+1) = Σ cᵢ · E(Mᵢ)(n)`. -/
theorem recurrence_holds_from_zeroC {cap cap' : Nat} {Γ0 Γ : TypeEnv} {P : Program} {m : Mono} {terms : Terms}
    (hI : checkInductiveC cap Γ0 Γ P = .ok true) (hS : checkOneStepC cap' Γ0 P m terms = .ok true)
    (n : Nat) (σ₀ : Store) (hσ : ClosedStore σ₀) {E0 E1 : WD}
    (h0 : run P false n σ₀ = .ok E0) (h1 : run P false (n + 1) σ₀ = .ok E1)
    {lhs rhs : Rat} (hl : E1.E m = .ok lhs) (hr : linCombE E0 terms = .ok rhs) : lhs = rhs :=
  recurrence_of_invC hS
    ((checkInductiveC_sound0 hI n σ₀ h0).and (run_dep (fragmentC_of_checkOneStepC hS) n hσ h0)) h0 h1 hl hr

/-- `recurrence_holds_forall_nC` with `momentU` (E over the un-merged run) on both sides -/
theorem recurrence_momentU_C {cap cap' : Nat} {Γ0 Γ : TypeEnv} {P : Program} {m : Mono} {terms : Terms}
    (hI : checkInductiveC cap Γ0 Γ P = .ok true) (hS : checkOneStepC cap' Γ P m terms = .ok true)
    (n : Nat) (σ₀ : Store) (hσ : ClosedStore σ₀) {lhs rhs : Rat}
    (hl : momentU P m (n + 2) σ₀ = .ok lhs)
    (hr : (do linCombE (← run P false (n + 1) σ₀) terms) = .ok rhs) : lhs = rhs := by
  simp only [momentU] at hl
  obtain ⟨E1, h1, hl⟩ := bind_ok.mp hl
  obtain ⟨E0, h0, hr⟩ := bind_ok.mp hr
  exact recurrence_holds_forall_nC hI hS n σ₀ hσ h0 h1 hl hr

/-- `recurrence_holds_from_zeroC` with `momentU` on both sides -/
theorem recurrence_momentU_from_zeroC {cap cap' : Nat} {Γ0 Γ : TypeEnv} {P : Program} {m : Mono} {terms : Terms}
    (hI : checkInductiveC cap Γ0 Γ P = .ok true) (hS : checkOneStepC cap' Γ0 P m terms = .ok true)
    (n : Nat) (σ₀ : Store) (hσ : ClosedStore σ₀) {lhs rhs : Rat}
    (hl : momentU P m (n + 1) σ₀ = .ok lhs)
    (hr : (do linCombE (← run P false n σ₀) terms) = .ok rhs) : lhs = rhs := by
  simp only [momentU] at hl
  obtain ⟨E1, h1, hl⟩ := bind_ok.mp hl
  obtain ⟨E0, h0, hr⟩ := bind_ok.mp hr
  exact recurrence_holds_from_zeroC hI hS n σ₀ hσ h0 h1 hl hr

/-- the recurrence written with `momentU` on the right side as well: `Σ cᵢ · momentU P Mᵢ n σ₀` -/
def linMomentU (P : Program) (terms : Terms) (n : Nat) (σ₀ : Store) : M Rat :=
  terms.foldrM (fun (t : Mono × Rat) acc => do pure (t.2 * (← momentU P t.1 n σ₀) + acc)) 0

theorem linMomentU_eq {P : Program} {terms : Terms} {n : Nat} {σ₀ : Store} {rhs : Rat}
    (h : linMomentU P terms n σ₀ = .ok rhs) (hne : terms ≠ []) :
    (do linCombE (← run P false n σ₀) terms) = .ok rhs := by
  cases hrun : run P false n σ₀ with
  | error e =>
    exfalso
    cases terms with
    | nil => exact hne rfl
    | cons t ts =>
      simp only [linMomentU, List.foldrM_cons] at h
      obtain ⟨acc, _, h⟩ := bind_ok.mp h
      obtain ⟨v, hv, _⟩ := bind_ok.mp h
      simp [momentU, hrun, bind, Except.bind] at hv
  | ok D =>
    have hD : ∀ m, momentU P m n σ₀ = D.E m := fun m => by simp [momentU, hrun, bind, Except.bind]
    have : linMomentU P terms n σ₀ = linCombE D terms := by
      simp only [linMomentU, linCombE, hD]
    rw [this] at h
    simpa [bind, Except.bind] using h

/-- **`momentU P M (n+1) σ₀ = Σ cᵢ · momentU P Mᵢ n σ₀` for every n ≥ 0** (types inductive from n = 0, one-step
    identity on the `Γ0`-states) -/
theorem recurrence_momentU_sum_from_zeroC {cap cap' : Nat} {Γ0 Γ : TypeEnv} {P : Program} {m : Mono} {terms : Terms}
    (hI : checkInductiveC cap Γ0 Γ P = .ok true) (hS : checkOneStepC cap' Γ0 P m terms = .ok true)
    (hne : terms ≠ []) (n : Nat) (σ₀ : Store) (hσ : ClosedStore σ₀) {lhs rhs : Rat}
    (hl : momentU P m (n + 1) σ₀ = .ok lhs) (hr : linMomentU P terms n σ₀ = .ok rhs) : lhs = rhs :=
  recurrence_momentU_from_zeroC hI hS n σ₀ hσ hl (linMomentU_eq hr hne)

/-- **`momentU P M (n+2) σ₀ = Σ cᵢ · momentU P Mᵢ (n+1) σ₀` for every n** (one-step identity on the `Γ`-states) -/
theorem recurrence_momentU_sum_C {cap cap' : Nat} {Γ0 Γ : TypeEnv} {P : Program} {m : Mono} {terms : Terms}
    (hI : checkInductiveC cap Γ0 Γ P = .ok true) (hS : checkOneStepC cap' Γ P m terms = .ok true)
    (hne : terms ≠ []) (n : Nat) (σ₀ : Store) (hσ : ClosedStore σ₀) {lhs rhs : Rat}
    (hl : momentU P m (n + 2) σ₀ = .ok lhs) (hr : linMomentU P terms (n + 1) σ₀ = .ok rhs) : lhs = rhs :=
  recurrence_momentU_C hI hS n σ₀ hσ hl (linMomentU_eq hr hne)

/-- the total weight (M = 1) is the same at every n, provided the one-step check accepts `E(1) = 1` -/
theorem mass_preservedC {cap cap' : Nat} {Γ0 Γ : TypeEnv} {P : Program}
    (hI : checkInductiveC cap Γ0 Γ P = .ok true) (hS : checkOneStepC cap' Γ0 P [] [([], 1)] = .ok true)
    (n : Nat) (σ₀ : Store) (hσ : ClosedStore σ₀) {E0 E1 : WD}
    (h0 : run P false n σ₀ = .ok E0) (h1 : run P false (n + 1) σ₀ = .ok E1)
    {a b : Rat} (hl : E1.E [] = .ok a) (hr : E0.E [] = .ok b) : a = b := by
  have hlin : linCombE E0 [([], 1)] = .ok (1 * b + 0) := by
    rw [linCombE_cons, bind_ok]
    refine ⟨0, rfl, ?_⟩
    simp only []
    rw [hr]; rfl
  have := recurrence_holds_from_zeroC hI hS n σ₀ hσ h0 h1 hl hlin
  simpa using this

/-! ### non-vacuity

`exQ`:  `x = 0; while true: u = Normal(0, 1); x = x + u`            E(x²)(n+1) = E(x²)(n) + 1
`exU`:  `x = 0; f = 0; while true: f = Bernoulli(1/2); u = Uniform(x, x+2); x = x + f*u`   (f typed {0,1})
                                                                      E(x)(n+1) = 3/2·E(x)(n) + 1/2 -/

def exQ : Program :=
  { init := [.assign "x" (.expr (.num 0)) .tt "x"],
    guard := .tt,
    body := [.assign "u" (.dist "Normal" [.num 0, .num 1]) .tt "u",
             .assign "x" (.expr (.add (.var "x") (.var "u"))) .tt "x"] }
def exQM : Mono := [("x", 2)]
def exQT : Terms := [([("x", 2)], 1), ([], 1)]

def exU : Program :=
  { init := [.assign "x" (.expr (.num 0)) .tt "x", .assign "f" (.expr (.num 0)) .tt "f"],
    guard := .tt,
    body := [.assign "f" (.dist "Bernoulli" [.num (1/2)]) .tt "f",
             .assign "u" (.dist "Uniform" [.var "x", .add (.var "x") (.num 2)]) .tt "u",
             .assign "x" (.expr (.add (.var "x") (.mul (.var "f") (.var "u")))) .tt "x"] }
def exUM : Mono := [("x", 1)]
def exUT : Terms := [([("x", 1)], 3/2), ([], 1/2)]

-- the hypotheses of V1 and V2 are satisfiable on programs with a Normal / a Uniform draw …
example : checkInductiveC 4096 [] [] exQ = .ok true := by decide +kernel
example : checkOneStepC 4096 [] exQ exQM exQT = .ok true := by decide +kernel
example : checkInductiveC 4096 exΓ exΓ exU = .ok true := by decide +kernel
example : checkOneStepC 4096 exΓ exU exUM exUT = .ok true := by decide +kernel
-- second moment with a draw whose bounds depend on the state: E(x²)' = 5/2·x² + 2·x + 2/3
example : checkOneStepC 4096 exΓ exU [("x", 2)] [([("x", 2)], 5/2), ([("x", 1)], 2), ([], 2/3)] = .ok true := by
  decide +kernel
-- mass: E(1)' = 1
example : checkOneStepC 4096 [] exQ [] [([], 1)] = .ok true := by decide +kernel
-- … and not trivially so: a wrong constant, a wrong coefficient, the variance forgotten, an untyped Bernoulli flag
example : checkOneStepC 4096 [] exQ exQM [([("x", 2)], 1), ([], 2)] = .ok false := by decide +kernel
example : checkOneStepC 4096 [] exQ exQM [([("x", 2)], 1)] = .ok false := by decide +kernel
example : checkOneStepC 4096 exΓ exU exUM [([("x", 1)], 3/2), ([], 1)] = .ok false := by decide +kernel
example : checkOneStepC 4096 exΓ exU [("x", 2)] [([("x", 2)], 5/2), ([("x", 1)], 2), ([], 1)] = .ok false := by
  decide +kernel
-- the discrete validator refuses both programs
example : (checkOneStep 4096 [] exQ exQM exQT).isOk = false := by decide +kernel
example : (checkOneStep 4096 exΓ exU exUM exUT).isOk = false := by decide +kernel

theorem closedStore_nil : ClosedStore [] := by
  intro x v h
  simp [store_get_nil] at h

/-- the recurrence of `exQ`, for every n ≥ 0 and every closed initial store:
    `momentU exQ x² (n+1) σ₀ = 1·momentU exQ x² n σ₀ + 1·momentU exQ 1 n σ₀` -/
example (n : Nat) (σ₀ : Store) (hσ : ClosedStore σ₀) (lhs rhs : Rat)
    (hl : momentU exQ exQM (n + 1) σ₀ = .ok lhs) (hr : linMomentU exQ exQT n σ₀ = .ok rhs) : lhs = rhs :=
  recurrence_momentU_sum_from_zeroC (cap := 4096) (cap' := 4096) (Γ0 := []) (Γ := [])
    (by decide +kernel) (by decide +kernel) (by simp [exQT]) n σ₀ hσ hl hr

/-- the recurrence of `exU` (typed Bernoulli flag, Uniform draw with state-dependent bounds), every n ≥ 0 -/
example (n : Nat) (σ₀ : Store) (hσ : ConcStore σ₀) (lhs rhs : Rat)
    (hl : momentU exU exUM (n + 1) σ₀ = .ok lhs)
    (hr : (do linCombE (← run exU false n σ₀) exUT) = .ok rhs) : lhs = rhs :=
  recurrence_momentU_from_zeroC (cap := 4096) (cap' := 4096) (Γ0 := exΓ) (Γ := exΓ)
    (by decide +kernel) (by decide +kernel) n σ₀ hσ.closed hl hr

/-- … and in the form for n ≥ 1 (`recurrence_holds_forall_nC`) -/
example (n : Nat) (σ₀ : Store) (hσ : ConcStore σ₀) (lhs rhs : Rat)
    (hl : momentU exU exUM (n + 2) σ₀ = .ok lhs) (hr : linMomentU exU exUT (n + 1) σ₀ = .ok rhs) : lhs = rhs :=
  recurrence_momentU_sum_C (cap := 4096) (cap' := 4096) (Γ0 := exΓ) (Γ := exΓ)
    (by decide +kernel) (by decide +kernel) (by simp [exUT]) n σ₀ hσ.closed hl hr

/-! the remaining hypotheses ("the quantities are defined") are satisfiable and the two sides are what they should be:
`momentU exQ x² 2 [] = 2 = 1·momentU exQ x² 1 [] + 1·momentU exQ 1 1 []`.  (`atomIndex?` goes through `String.Slice`
functions the kernel does not unfold, so the expectation is computed from a kernel-evaluated summary of the run.) -/

/-- summary of one path: weight, atom table and value of the monomial -/
structure PathSum where
  w : Rat
  atoms : List Atom
  val : MPoly
  deriving DecidableEq

def summary : WD → Mono → Option (List PathSum)
  | [], _ => some []
  | (w, q) :: t, m =>
    match monoValue q.vals m, summary t m with
    | .ok v, some l => some (⟨w, q.atoms, v⟩ :: l)
    | _, _ => none

/-- E over the paths from the summary -/
def sumE (l : List PathSum) : M Rat :=
  l.foldrM (fun (s : PathSum) acc => do pure (s.w * (← polyE s.atoms s.val) + acc)) 0

theorem E_of_summary {D : WD} {m : Mono} {l : List PathSum} (h : summary D m = some l) : D.E m = sumE l := by
  induction D generalizing l with
  | nil =>
    simp only [summary, Option.some.injEq] at h
    subst h; rfl
  | cons a t ih =>
    obtain ⟨w, q⟩ := a
    simp only [summary] at h
    cases hv : monoValue q.vals m with
    | error e => simp [hv] at h
    | ok v =>
      cases hl : summary t m with
      | none => simp [hv, hl] at h
      | some l' =>
        simp only [hv, hl, Option.some.injEq] at h
        subst h
        rw [E_eq_wsumM, wsumM_cons, ← E_eq_wsumM, ih hl]
        simp only [sumE, List.foldrM_cons, pathE, hv]
        rfl

theorem momentU_of_summary {P : Program} {m : Mono} {n : Nat} {σ₀ : Store} {l : List PathSum} {r : Rat}
    (key : ((run P false n σ₀).toOption).bind (fun D => summary D m) = some l) (hs : sumE l = .ok r) :
    momentU P m n σ₀ = .ok r := by
  unfold momentU
  cases hD : run P false n σ₀ with
  | error e => simp [hD, Except.toOption] at key
  | ok D =>
    simp only [hD, Except.toOption, Option.bind_some] at key
    show D.E m = .ok r
    rw [E_of_summary key, hs]

theorem atomIndex_0 : atomIndex? "@0" = some 0 := by
  have e : atomName 0 = "@0" := by decide +kernel
  rw [← e]; exact atomIndex_atomName 0

theorem atomIndex_1 : atomIndex? "@1" = some 1 := by
  have e : atomName 1 = "@1" := by decide +kernel
  rw [← e]; exact atomIndex_atomName 1

def N01 : Atom := ⟨"Normal", [0, 1]⟩

theorem exQ_polyE2 :
    polyE [N01, N01] [([("@0", 1), ("@1", 1)], 2), ([("@0", 2)], 1), ([("@1", 2)], 1)] = .ok 2 := by
  simp only [polyE, atomMonoE, List.foldrM_cons, List.foldrM_nil, atomIndex_0, atomIndex_1, N01, momentSpec,
    normalMoment, bind, Except.bind, pure, Except.pure, List.getElem?_cons_zero, List.getElem?_cons_succ]
  norm_num

theorem exQ_polyE1 : polyE [N01] [([("@0", 2)], 1)] = .ok 1 := by
  simp only [polyE, atomMonoE, List.foldrM_cons, List.foldrM_nil, atomIndex_0, N01, momentSpec,
    normalMoment, bind, Except.bind, pure, Except.pure, List.getElem?_cons_zero]
  norm_num

theorem exQ_polyE0 : polyE [N01] [([], 1)] = .ok 1 := by
  simp only [polyE, atomMonoE, List.foldrM_cons, List.foldrM_nil, bind, Except.bind, pure, Except.pure]
  norm_num

theorem exQ_moment2 : momentU exQ exQM 2 [] = .ok 2 := by
  refine momentU_of_summary
    (l := [⟨1, [N01, N01], [([("@0", 1), ("@1", 1)], 2), ([("@0", 2)], 1), ([("@1", 2)], 1)]⟩])
    (by decide +kernel) ?_
  simp only [sumE, List.foldrM_cons, List.foldrM_nil, exQ_polyE2]
  simp [bind, Except.bind, pure, Except.pure]

theorem exQ_moment1 : momentU exQ exQM 1 [] = .ok 1 := by
  refine momentU_of_summary (l := [⟨1, [N01], [([("@0", 2)], 1)]⟩]) (by decide +kernel) ?_
  simp only [sumE, List.foldrM_cons, List.foldrM_nil, exQ_polyE1]
  simp [bind, Except.bind, pure, Except.pure]

theorem exQ_mass1 : momentU exQ [] 1 [] = .ok 1 := by
  refine momentU_of_summary (l := [⟨1, [N01], [([], 1)]⟩]) (by decide +kernel) ?_
  simp only [sumE, List.foldrM_cons, List.foldrM_nil, exQ_polyE0]
  simp [bind, Except.bind, pure, Except.pure]

example : linMomentU exQ exQT 1 [] = .ok 2 := by
  have h1 : momentU exQ [("x", 2)] 1 [] = .ok 1 := exQ_moment1
  simp only [linMomentU, exQT, List.foldrM_cons, List.foldrM_nil, h1, exQ_mass1]
  simp [bind, Except.bind, pure, Except.pure]
  norm_num

-- the run carries draw atoms: the statement is about genuinely polynomial-valued paths
example : ((run exQ false 2 []).toOption.map (fun D => D.map (fun wq => wq.2.atoms.length))) = some [2] := by
  decide +kernel

/-- a path that satisfies the hypotheses of `checkOneStepC_sound`: `x` holds the value of the first draw -/
example : InvC [] ⟨Store.set [] "x" (atomVar 0), [N01]⟩ := by
  refine ⟨?_, ?_⟩
  · intro e he
    cases he
  intro y v hy
  rw [store_get_set] at hy
  by_cases hyx : y = "x"
  · simp only [hyx, if_true, Option.some.injEq] at hy
    rw [← hy]; exact dep_atomVar (by simp)
  · simp [hyx, store_get_nil] at hy
