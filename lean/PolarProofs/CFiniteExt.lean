import PolarProofs.CFinite
import Mathlib.LinearAlgebra.Matrix.Charpoly.Coeff
import Mathlib.Analysis.SpecificLimits.Normed

/-!
# The extension principle for C-finite sequences (DESIGN §2.4)

An exponential polynomial of known *term shape* `T = [(q, ρ, a)]` (the sequence
`n ↦ Σ_t q_t(n) ρ_t^n`, `deg q_t < a_t`) that agrees with a matrix sequence `n ↦ (A^n v)_i`
(`A` of size `d×d`) on a window of `d + Σ a_t` consecutive indices agrees with it from the start of
the window on for ever (`CFin.cfinite_ext`).  Variants: two exponential polynomials
(`CFin.expPoly_ext`), an exponential polynomial vanishing on a window (`CFin.expPoly_vanish`), the
shape calculus for sums and products (`shapeAdd`, `shapeMul`), and the limit `CFin.tendsto_expSeq_zero`.
Everything is over an arbitrary commutative ring `K` (no field needed: all annihilators are monic).
-/

open Polynomial Matrix

namespace CFin
variable {K : Type*} [CommRing K]

/-! ### shifting the sequence -/

lemma Ann.shift {p : K[X]} {u : ℕ → K} (h : Ann p u) (k : ℕ) : Ann p (fun n => u (k + n)) := by
  unfold Ann
  funext n
  have := congrFun h (k + n)
  rw [aeval_shift_apply] at this ⊢
  simpa [Nat.add_assoc] using this

/-- Two sequences with monic annihilators `p`, `q` that agree on a window of length
`≥ deg p + deg q` starting at `n₀` agree from `n₀` on. -/
theorem ext_of_ann {p q : K[X]} (hp : p.Monic) (hq : q.Monic) {u w : ℕ → K}
    (hu : Ann p u) (hw : Ann q w) (n₀ N : ℕ) (hN : p.natDegree + q.natDegree ≤ N)
    (hwin : ∀ n, n < N → u (n₀ + n) = w (n₀ + n)) : ∀ n, u (n₀ + n) = w (n₀ + n) := by
  have hann : Ann (p * q) ((fun n => u (n₀ + n)) - (fun n => w (n₀ + n))) :=
    (hu.shift n₀).sub (hw.shift n₀)
  have hdeg : (p * q).natDegree ≤ N := le_trans natDegree_mul_le hN
  have h0 := eq_zero_of_ann_monic (hp.mul hq) hann (fun n hn => by
    have := hwin n (lt_of_lt_of_le hn hdeg)
    simp [this])
  intro n
  have := h0 n
  simpa [sub_eq_zero] using this

/-! ### term shapes -/

/-- a term shape: entries `(q, ρ, a)` standing for the sequence `n ↦ q(n)·ρ^n` with `deg q < a` -/
abbrev Shape (K : Type*) [CommRing K] := List (K[X] × K × ℕ)

/-- the exponential polynomial denoted by a shape -/
def termSum (T : Shape K) (n : ℕ) : K := (T.map (fun t => expSeq t.1 t.2.1 n)).sum

/-- the canonical annihilator `∏ (X − ρ)^a` of a shape -/
noncomputable def annPoly (T : Shape K) : K[X] := (T.map (fun t => (X - C t.2.1) ^ t.2.2)).prod

/-- `Σ a_t` -/
def shapeSize (T : Shape K) : ℕ := (T.map (fun t => t.2.2)).sum

/-- every entry satisfies `deg q < a` -/
def Shape.WF (T : Shape K) : Prop := ∀ t ∈ T, t.1.degree < (t.2.2 : WithBot ℕ)

@[simp] lemma termSum_nil (n : ℕ) : termSum ([] : Shape K) n = 0 := rfl
@[simp] lemma termSum_cons (t : K[X] × K × ℕ) (T : Shape K) (n : ℕ) :
    termSum (t :: T) n = expSeq t.1 t.2.1 n + termSum T n := by simp [termSum]
@[simp] lemma annPoly_nil : annPoly ([] : Shape K) = 1 := rfl
@[simp] lemma annPoly_cons (t : K[X] × K × ℕ) (T : Shape K) :
    annPoly (t :: T) = (X - C t.2.1) ^ t.2.2 * annPoly T := by simp [annPoly]
@[simp] lemma shapeSize_nil : shapeSize ([] : Shape K) = 0 := rfl
@[simp] lemma shapeSize_cons (t : K[X] × K × ℕ) (T : Shape K) :
    shapeSize (t :: T) = t.2.2 + shapeSize T := by simp [shapeSize]

lemma termSum_append (T₁ T₂ : Shape K) (n : ℕ) :
    termSum (T₁ ++ T₂) n = termSum T₁ n + termSum T₂ n := by
  simp [termSum]

lemma shapeSize_append (T₁ T₂ : Shape K) : shapeSize (T₁ ++ T₂) = shapeSize T₁ + shapeSize T₂ := by
  simp [shapeSize]

lemma Shape.WF.append {T₁ T₂ : Shape K} (h₁ : T₁.WF) (h₂ : T₂.WF) : (T₁ ++ T₂).WF := by
  intro t ht
  rcases List.mem_append.mp ht with h | h
  · exact h₁ t h
  · exact h₂ t h

lemma annPoly_monic (T : Shape K) : (annPoly T).Monic := by
  induction T with
  | nil => simp
  | cons t T ih =>
    rw [annPoly_cons]
    exact ((monic_X_sub_C _).pow _).mul ih

lemma natDegree_annPoly_le (T : Shape K) : (annPoly T).natDegree ≤ shapeSize T := by
  induction T with
  | nil => simp
  | cons t T ih =>
    rw [annPoly_cons, shapeSize_cons]
    refine le_trans natDegree_mul_le (Nat.add_le_add ?_ ih)
    refine le_trans natDegree_pow_le ?_
    calc t.2.2 * (X - C t.2.1).natDegree ≤ t.2.2 * 1 :=
          Nat.mul_le_mul_left _ (natDegree_X_sub_C_le _)
      _ = t.2.2 := Nat.mul_one _

/-- a well-formed shape is annihilated by its canonical annihilator -/
theorem ann_termSum {T : Shape K} (hT : T.WF) : Ann (annPoly T) (termSum T) := by
  induction T with
  | nil =>
    unfold Ann
    have : termSum ([] : Shape K) = 0 := by funext n; simp
    rw [this, map_zero]
  | cons t T ih =>
    have h1 : Ann ((X - C t.2.1) ^ t.2.2) (expSeq t.1 t.2.1) :=
      ann_expSeq t.2.1 t.2.2 t.1 (hT t (List.mem_cons_self ..))
    have h2 : Ann (annPoly T) (termSum T) := ih (fun s hs => hT s (List.mem_cons_of_mem _ hs))
    have : termSum (t :: T) = expSeq t.1 t.2.1 + termSum T := by funext n; simp
    rw [this, annPoly_cons]
    exact h1.add h2

/-! ### the extension principle -/

/-- **Extension principle** (DESIGN §2.4).  An exponential polynomial with term shape `T` that agrees with the
matrix sequence `n ↦ (A^n v)_i` for `n₀ ≤ n < n₀ + d + Σ a_t` agrees with it for every `n ≥ n₀`. -/
theorem cfinite_ext {d : ℕ} (A : Matrix (Fin d) (Fin d) K) (v : Fin d → K) (i : Fin d)
    (T : List (K[X] × K × ℕ))
    (hT : ∀ t ∈ T, t.1.degree < (t.2.2 : WithBot ℕ))
    (n₀ : ℕ)
    (hwin : ∀ n, n < d + (T.map (fun t => t.2.2)).sum →
        (T.map (fun t => expSeq t.1 t.2.1 (n₀ + n))).sum = (A ^ (n₀ + n) *ᵥ v) i) :
    ∀ n, (T.map (fun t => expSeq t.1 t.2.1 (n₀ + n))).sum = (A ^ (n₀ + n) *ᵥ v) i := by
  rcases subsingleton_or_nontrivial K with hK | hK
  · intro n; exact Subsingleton.elim _ _
  · have hdeg : (annPoly T).natDegree + A.charpoly.natDegree ≤ d + shapeSize T := by
      rw [Matrix.charpoly_natDegree_eq_dim, Fintype.card_fin]
      have := natDegree_annPoly_le T
      omega
    exact ext_of_ann (u := termSum T) (w := fun n => (A ^ n *ᵥ v) i) (annPoly_monic T)
      (Matrix.charpoly_monic A) (ann_termSum hT) (ann_matrix_seq A v i) n₀ _ hdeg hwin

/-- `cfinite_ext` with the window given as any `W ≥ d + Σ a_t` -/
theorem cfinite_ext' {d : ℕ} (A : Matrix (Fin d) (Fin d) K) (v : Fin d → K) (i : Fin d)
    (T : Shape K) (hT : T.WF) (n₀ W : ℕ) (hW : d + shapeSize T ≤ W)
    (hwin : ∀ n, n < W → termSum T (n₀ + n) = (A ^ (n₀ + n) *ᵥ v) i) :
    ∀ n, n₀ ≤ n → termSum T n = (A ^ n *ᵥ v) i := by
  intro n hn
  obtain ⟨k, rfl⟩ := Nat.exists_eq_add_of_le hn
  exact cfinite_ext A v i T hT n₀ (fun m hm => hwin m (lt_of_lt_of_le hm hW)) k

/-- Two exponential polynomials with shapes `T₁`, `T₂` that agree on a window of length
`Σ a(T₁) + Σ a(T₂)` starting at `n₀` agree for every `n ≥ n₀`. -/
theorem expPoly_ext (T₁ T₂ : Shape K) (h₁ : T₁.WF) (h₂ : T₂.WF) (n₀ : ℕ)
    (hwin : ∀ n, n < shapeSize T₁ + shapeSize T₂ → termSum T₁ (n₀ + n) = termSum T₂ (n₀ + n)) :
    ∀ n, termSum T₁ (n₀ + n) = termSum T₂ (n₀ + n) :=
  ext_of_ann (annPoly_monic T₁) (annPoly_monic T₂) (ann_termSum h₁) (ann_termSum h₂) n₀ _
    (Nat.add_le_add (natDegree_annPoly_le T₁) (natDegree_annPoly_le T₂)) hwin

/-- An exponential polynomial of shape `T` that vanishes on a window of length `Σ a(T)` starting at
`n₀` vanishes for every `n ≥ n₀` (used for polynomial invariants of C-finite sequences). -/
theorem expPoly_vanish (T : Shape K) (hT : T.WF) (n₀ : ℕ)
    (hwin : ∀ n, n < shapeSize T → termSum T (n₀ + n) = 0) : ∀ n, termSum T (n₀ + n) = 0 := by
  have := expPoly_ext T [] hT (fun _ h => by simp at h) n₀ (by simpa using hwin)
  simpa using this

/-! ### shape calculus: sums, scalar multiples and products of exponential polynomials -/

lemma expSeq_add (q₁ q₂ : K[X]) (ρ : K) (n : ℕ) :
    expSeq (q₁ + q₂) ρ n = expSeq q₁ ρ n + expSeq q₂ ρ n := by
  simp only [expSeq, eval_add]; ring

/-- the product of `n ↦ q₁(n) ρ₁^n` and `n ↦ q₂(n) ρ₂^n`: polynomials and bases multiply -/
lemma expSeq_mul (q₁ q₂ : K[X]) (ρ₁ ρ₂ : K) (n : ℕ) :
    expSeq q₁ ρ₁ n * expSeq q₂ ρ₂ n = expSeq (q₁ * q₂) (ρ₁ * ρ₂) n := by
  simp only [expSeq, eval_mul, mul_pow]; ring

/-- … and the degree bounds add (`a₁ + a₂ − 1`; for `aᵢ = 0` the factor is the zero sequence). -/
lemma degree_mul_lt_of_lt {q₁ q₂ : K[X]} {a₁ a₂ : ℕ} (h₁ : q₁.degree < (a₁ : WithBot ℕ))
    (h₂ : q₂.degree < (a₂ : WithBot ℕ)) : (q₁ * q₂).degree < ((a₁ + a₂ - 1 : ℕ) : WithBot ℕ) := by
  by_cases hq₁ : q₁ = 0
  · subst hq₁; simp
  by_cases hq₂ : q₂ = 0
  · subst hq₂; simp
  have n₁ := (natDegree_lt_iff_degree_lt hq₁).mpr h₁
  have n₂ := (natDegree_lt_iff_degree_lt hq₂).mpr h₂
  calc (q₁ * q₂).degree ≤ ((q₁ * q₂).natDegree : WithBot ℕ) := degree_le_natDegree
    _ < ((a₁ + a₂ - 1 : ℕ) : WithBot ℕ) := by
      have := natDegree_mul_le (p := q₁) (q := q₂)
      exact_mod_cast (by omega : (q₁ * q₂).natDegree < a₁ + a₂ - 1)

/-- the constant sequence `c` as a shape -/
noncomputable def shapeConst (c : K) : Shape K := [(C c, 1, 1)]

lemma termSum_shapeConst (c : K) (n : ℕ) : termSum (shapeConst c) n = c := by
  simp [shapeConst, expSeq]

lemma shapeConst_wf (c : K) : (shapeConst c).WF := by
  intro t ht
  simp only [shapeConst, List.mem_singleton] at ht
  subst ht
  exact lt_of_le_of_lt degree_C_le (by exact_mod_cast Nat.zero_lt_one)

/-- one term times a shape -/
noncomputable def shapeMulTerm (t : K[X] × K × ℕ) (T : Shape K) : Shape K :=
  T.map (fun s => (t.1 * s.1, t.2.1 * s.2.1, t.2.2 + s.2.2 - 1))

/-- the shape of the product of two exponential polynomials: all pairs of terms -/
noncomputable def shapeMul : Shape K → Shape K → Shape K
  | [], _ => []
  | t :: T₁, T₂ => shapeMulTerm t T₂ ++ shapeMul T₁ T₂

lemma termSum_shapeMulTerm (t : K[X] × K × ℕ) (T : Shape K) (n : ℕ) :
    termSum (shapeMulTerm t T) n = expSeq t.1 t.2.1 n * termSum T n := by
  induction T with
  | nil => simp [shapeMulTerm]
  | cons s T ih =>
    have : shapeMulTerm t (s :: T) = (t.1 * s.1, t.2.1 * s.2.1, t.2.2 + s.2.2 - 1) :: shapeMulTerm t T := rfl
    rw [this, termSum_cons, termSum_cons, ih, mul_add, expSeq_mul]

theorem termSum_shapeMul (T₁ T₂ : Shape K) (n : ℕ) :
    termSum (shapeMul T₁ T₂) n = termSum T₁ n * termSum T₂ n := by
  induction T₁ with
  | nil => simp [shapeMul]
  | cons t T₁ ih =>
    rw [shapeMul, termSum_append, termSum_shapeMulTerm, ih, termSum_cons, add_mul]

lemma shapeMulTerm_wf {t : K[X] × K × ℕ} (ht : t.1.degree < (t.2.2 : WithBot ℕ)) {T : Shape K}
    (hT : T.WF) : (shapeMulTerm t T).WF := by
  intro s hs
  simp only [shapeMulTerm, List.mem_map] at hs
  obtain ⟨s', hs', rfl⟩ := hs
  exact degree_mul_lt_of_lt ht (hT s' hs')

theorem shapeMul_wf {T₁ T₂ : Shape K} (h₁ : T₁.WF) (h₂ : T₂.WF) : (shapeMul T₁ T₂).WF := by
  induction T₁ with
  | nil => intro t ht; simp [shapeMul] at ht
  | cons t T₁ ih =>
    rw [shapeMul]
    exact (shapeMulTerm_wf (h₁ t (List.mem_cons_self ..)) h₂).append
      (ih (fun s hs => h₁ s (List.mem_cons_of_mem _ hs)))

/-- the shape of `p(u₁,…)`-style powers -/
noncomputable def shapePow (T : Shape K) : ℕ → Shape K
  | 0 => shapeConst 1
  | k + 1 => shapeMul T (shapePow T k)

theorem termSum_shapePow (T : Shape K) (k n : ℕ) : termSum (shapePow T k) n = termSum T n ^ k := by
  induction k with
  | zero => simp [shapePow, termSum_shapeConst]
  | succ k ih => rw [shapePow, termSum_shapeMul, ih, pow_succ']

theorem shapePow_wf {T : Shape K} (hT : T.WF) (k : ℕ) : (shapePow T k).WF := by
  induction k with
  | zero => exact shapeConst_wf 1
  | succ k ih => exact shapeMul_wf hT ih

/-- scalar multiple of a shape (same bases and degree bounds) -/
noncomputable def shapeSmul (c : K) (T : Shape K) : Shape K := T.map (fun t => (C c * t.1, t.2.1, t.2.2))

lemma termSum_shapeSmul (c : K) (T : Shape K) (n : ℕ) : termSum (shapeSmul c T) n = c * termSum T n := by
  induction T with
  | nil => simp [shapeSmul]
  | cons t T ih =>
    have : shapeSmul c (t :: T) = (C c * t.1, t.2.1, t.2.2) :: shapeSmul c T := rfl
    rw [this, termSum_cons, termSum_cons, ih, mul_add]
    simp only [expSeq, eval_mul, eval_C]; ring

lemma shapeSmul_wf (c : K) {T : Shape K} (hT : T.WF) : (shapeSmul c T).WF := by
  intro s hs
  simp only [shapeSmul, List.mem_map] at hs
  obtain ⟨t, ht, rfl⟩ := hs
  calc (C c * t.1).degree ≤ (C c).degree + t.1.degree := degree_mul_le _ _
    _ ≤ 0 + t.1.degree := by gcongr; exact degree_C_le
    _ = t.1.degree := zero_add _
    _ < _ := hT t ht

lemma shapeSize_shapeSmul (c : K) (T : Shape K) : shapeSize (shapeSmul c T) = shapeSize T := by
  simp [shapeSize, shapeSmul, Function.comp_def]

/-- **Polynomial-invariant corollary** (two sequences; the general case iterates `shapeMul`/`++`):
if `u₁ = termSum T₁`, `u₂ = termSum T₂` then the product sequence has shape `shapeMul T₁ T₂`; hence
an identity `u₁·u₂ = u₃` between exponential polynomials need only be tested on a window of length
`Σ a(shapeMul T₁ T₂) + Σ a(T₃)`. -/
theorem expPoly_mul_ext (T₁ T₂ T₃ : Shape K) (h₁ : T₁.WF) (h₂ : T₂.WF) (h₃ : T₃.WF) (n₀ : ℕ)
    (hwin : ∀ n, n < shapeSize (shapeMul T₁ T₂) + shapeSize T₃ →
      termSum T₁ (n₀ + n) * termSum T₂ (n₀ + n) = termSum T₃ (n₀ + n)) :
    ∀ n, termSum T₁ (n₀ + n) * termSum T₂ (n₀ + n) = termSum T₃ (n₀ + n) := by
  have := expPoly_ext (shapeMul T₁ T₂) T₃ (shapeMul_wf h₁ h₂) h₃ n₀
    (by intro n hn; rw [termSum_shapeMul]; exact hwin n hn)
  intro n
  rw [← termSum_shapeMul]; exact this n

/-! ### non-vacuity -/

section Examples

/-- `x(n+1) = 2 x(n) + 1`, `x(0) = 0`: state `(x, 1)`, closed form `2^n − 1` with shape
`[(1, 2, 1), (−1, 1, 1)]`; window `d + Σ a = 2 + 2 = 4`. -/
example : ∀ n, ((2 : ℚ) ^ n - 1) = ((!![2, 1; 0, 1] : Matrix (Fin 2) (Fin 2) ℚ) ^ n *ᵥ ![0, 1]) 0 := by
  intro n
  have h := cfinite_ext (K := ℚ) (!![2, 1; 0, 1]) ![0, 1] 0
    [(C 1, 2, 1), (C (-1), 1, 1)]
    (by
      intro t ht
      simp only [List.mem_cons, List.not_mem_nil, or_false] at ht
      rcases ht with rfl | rfl <;>
        exact lt_of_le_of_lt degree_C_le (by exact_mod_cast Nat.zero_lt_one))
    0
    (by
      intro n hn
      have hn' : n < 4 := by simpa using hn
      interval_cases n <;>
        simp [expSeq, pow_succ, Matrix.mulVec, Matrix.mul_apply, Fin.sum_univ_two, dotProduct] <;>
        norm_num)
    n
  simp only [List.map_cons, List.map_nil, List.sum_cons, List.sum_nil, expSeq, eval_C, zero_add,
    one_pow] at h
  linarith

/-- the hypotheses of `expPoly_vanish` are satisfiable with a non-trivial shape:
`n·2^n − n·2^n` written with two entries. -/
example : ∀ n, termSum (K := ℚ) [(X, 2, 2), (-X, 2, 2)] (0 + n) = 0 := by
  apply expPoly_vanish
  · intro t ht
    simp only [List.mem_cons, List.not_mem_nil, or_false] at ht
    rcases ht with rfl | rfl
    · simp
    · simp
  · intro n _
    simp [expSeq]

end Examples

/-! ### limits -/

open Filter Topology in
/-- for `|ρ| < 1` the sequence `n ↦ q(n)·ρ^n` tends to `0` -/
theorem tendsto_expSeq_zero (q : ℝ[X]) {ρ : ℝ} (hρ : |ρ| < 1) :
    Tendsto (expSeq q ρ) atTop (𝓝 0) := by
  induction q using Polynomial.induction_on' with
  | add p q hp hq =>
    have : expSeq (p + q) ρ = fun n => expSeq p ρ n + expSeq q ρ n := by
      funext n; exact expSeq_add p q ρ n
    rw [this]
    simpa using hp.add hq
  | monomial k a =>
    have : expSeq (monomial k a) ρ = fun n : ℕ => a * ((n : ℝ) ^ k * ρ ^ n) := by
      funext n; simp only [expSeq, eval_monomial]; ring
    rw [this]
    simpa using (tendsto_pow_const_mul_const_pow_of_abs_lt_one k hρ).const_mul a

open Filter Topology in
/-- a shape all of whose bases have modulus `< 1` denotes a null sequence -/
theorem tendsto_termSum_zero (T : Shape ℝ) (hT : ∀ t ∈ T, |t.2.1| < 1) :
    Tendsto (termSum T) atTop (𝓝 0) := by
  induction T with
  | nil =>
    have : termSum ([] : Shape ℝ) = fun _ => 0 := by funext n; simp
    rw [this]; exact tendsto_const_nhds
  | cons t T ih =>
    have : termSum (t :: T) = fun n => expSeq t.1 t.2.1 n + termSum T n := by funext n; simp
    rw [this]
    simpa using (tendsto_expSeq_zero t.1 (hT t (List.mem_cons_self ..))).add
      (ih (fun s hs => hT s (List.mem_cons_of_mem _ hs)))

end CFin
